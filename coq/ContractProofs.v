(* ContractProofs.v -- the error contract of the parser (C11):
   error flag, nil-free statement lists, error ranges, clean parses compile. *)
From Coq Require Import ZifyBool ZifyN ZifyNat Lia.
Require Import Base GoOps Token Tree Writer PrinterLib Compile Parser ParserSpec.
Require Import Gen.Tables Gen.Printer.

(* ---------- generic tactics for walking through the Parse* bodies ---------- *)

Ltac brk1 :=
  match goal with
  | H : Some _ = Some _ |- _ => inversion H; subst; clear H
  | H : None = Some _ |- _ => discriminate H
  | H : (_, _) = (_, _) |- _ => inversion H; subst; clear H
  | H : negb _ = true |- _ => apply negb_true_iff in H
  | H : negb _ = false |- _ => apply negb_false_iff in H
  | H : (match ?e with _ => _ end) = _ |- _ =>
      first [ is_var e; destruct e
            | let E := fresh "E" in destruct e eqn:E ]
  | p : (_ * _)%type |- _ => destruct p
  end.
Ltac brk := repeat brk1.

(* ---------- C11_error_iff ---------- *)

Lemma parse_error_iff : forall cfg toks r, parse_tokens cfg toks = Some r ->
  pr_err_returned r = negb (match pr_errors r with [] => true | _ => false end).
Proof.
  intros cfg toks r H. unfold parse_tokens, parse_program_from in H.
  destruct (program_loop _ _ _ _ _) as [[stmts s1]|]; [|discriminate].
  inversion H; subst; clear H. cbn. destruct (ps_errors s1); reflexivity.
Qed.

(* ---------- C11_no_nil_statements ---------- *)

Fixpoint lok_el (l : list expr) : Prop :=
  match l with [] => True | x :: l' => lists_ok_expr x /\ lok_el l' end.
Fixpoint lok_pl (l : list (expr * expr)) : Prop :=
  match l with [] => True | kv :: l' => lists_ok_expr (fst kv) /\ lists_ok_expr (snd kv) /\ lok_pl l' end.
Fixpoint lok_sl (l : list stmt) : Prop :=
  match l with [] => True | x :: l' => x <> SNil /\ lists_ok_stmt x /\ lok_sl l' end.

Lemma lok_el_app a b : lok_el a -> lok_el b -> lok_el (a ++ b).
Proof. induction a; cbn; tauto. Qed.
Lemma lok_pl_app a b : lok_pl a -> lok_pl b -> lok_pl (a ++ b).
Proof. induction a; cbn; tauto. Qed.
Lemma lok_sl_app a b : lok_sl a -> lok_sl b -> lok_sl (a ++ b).
Proof. induction a; cbn; tauto. Qed.

Lemma lok_sl_snoc acc st : lok_sl acc -> lists_ok_stmt st ->
  lok_sl (if is_snil st then acc else acc ++ [st]).
Proof.
  intros Ha Hs. destruct (is_snil st) eqn:E; [assumption|].
  apply lok_sl_app; [assumption|]. cbn [lok_sl]. repeat split; auto.
  intro; subst; discriminate.
Qed.

Lemma lok_ECall t f args : lists_ok_expr f -> lok_el args -> lists_ok_expr (ECall t f args).
Proof. intros; cbn; split; assumption. Qed.
Lemma lok_EArray t es rb : lok_el es -> lists_ok_expr (EArray t es rb).
Proof. intros; cbn; assumption. Qed.
Lemma lok_EObject t ps rb : lok_pl ps -> lists_ok_expr (EObject t ps rb).
Proof. intros; cbn; assumption. Qed.
Lemma lok_SBlock t ss rb : lok_sl ss -> lists_ok_stmt (SBlock t ss rb).
Proof. intros; cbn; assumption. Qed.

Definition gspec {A} (G : A -> Prop) (f : pstate -> res A) : Prop :=
  forall s r s', f s = Some (r, s') -> G r.

Create HintDb ldb.

Ltac lfwd :=
  repeat match goal with
  | E : ?f ?s = Some (?r, ?s') |- _ =>
      let X := fresh "X" in
      eassert (X : gspec _ f) by (eauto with ldb);
      apply X in E; clear X
  end.

Section ListsOpen.
  Variable cfg : pcfg.
  Variable sf : pstate -> res stmt.
  Variable ef : Z -> pstate -> res expr.
  Variable lf : nat.
  Hypothesis sf_ok : gspec lists_ok_stmt sf.
  Hypothesis ef_ok : forall p, gspec lists_ok_expr (ef p).
  Hint Resolve sf_ok ef_ok : ldb.

  Lemma l_parse_expression : gspec lists_ok_expr (parse_expression ef).
  Proof. unfold parse_expression. auto. Qed.
  Hint Resolve l_parse_expression : ldb.

  Lemma l_block_loop n : forall acc, lok_sl acc -> gspec lok_sl (block_loop sf n acc).
  Proof.
    induction n as [|n IH]; intros acc Ha s r s' H; cbn [block_loop] in H; [discriminate|].
    brk.
    - apply sf_ok in E0. eapply IH; [|exact H]. apply lok_sl_snoc; assumption.
    - assumption.
  Qed.
  Hint Resolve l_block_loop : ldb.

  Ltac lfin := cbn [lists_ok_expr lists_ok_stmt lok_el lok_pl lok_sl fst snd];
               try solve [ trivial | intuition auto ].
  Ltac lgo := brk; lfwd; lfin.

  Lemma l_params_loop n acc : gspec (fun _ => True) (params_loop n acc).
  Proof. intros s r s' _. exact I. Qed.

  Lemma l_parse_block_statement : gspec lists_ok_stmt (parse_block_statement cfg sf lf).
  Proof.
    intros s r s' H. unfold parse_block_statement in H. cbv zeta in H. brk.
    apply l_block_loop in E; [|exact I]. exact E.
  Qed.
  Hint Resolve l_parse_block_statement : ldb.

  Lemma l_parse_let_statement : gspec lists_ok_stmt (parse_let_statement cfg ef).
  Proof. intros s r s' H. unfold parse_let_statement in H. cbv zeta in H. lgo. Qed.

  Lemma l_parse_let_expression : gspec lists_ok_expr (parse_let_expression ef).
  Proof. intros s r s' H. unfold parse_let_expression in H. cbv zeta in H. lgo. Qed.

  Lemma l_parse_function_statement : gspec lists_ok_stmt (parse_function_statement cfg sf lf).
  Proof. intros s r s' H. unfold parse_function_statement in H. cbv zeta in H. lgo. Qed.

  Lemma l_parse_return_statement : gspec lists_ok_stmt (parse_return_statement cfg ef).
  Proof. intros s r s' H. unfold parse_return_statement in H. cbv zeta in H. lgo. Qed.

  Lemma l_parse_if_statement : gspec lists_ok_stmt (parse_if_statement sf ef).
  Proof. intros s r s' H. unfold parse_if_statement in H. cbv zeta in H. lgo. Qed.

  Lemma l_parse_while_statement : gspec lists_ok_stmt (parse_while_statement sf ef).
  Proof. intros s r s' H. unfold parse_while_statement in H. cbv zeta in H. lgo. Qed.

  Hint Resolve l_parse_let_expression : ldb.

  Lemma l_parse_for_statement : gspec lists_ok_stmt (parse_for_statement sf ef).
  Proof. intros s r s' H. unfold parse_for_statement in H. cbv zeta in H. lgo. Qed.

  Lemma l_parse_expression_statement : gspec lists_ok_stmt (parse_expression_statement cfg ef).
  Proof. intros s r s' H. unfold parse_expression_statement in H. cbv zeta in H. lgo. Qed.

  Lemma l_base_parse_statement : gspec lists_ok_stmt (base_parse_statement cfg sf ef lf).
  Proof.
    intros s r s' H. unfold base_parse_statement in H. cbv zeta in H.
    repeat match type of H with (if ?b then _ else _) = _ => destruct b end.
    - eapply l_parse_let_statement; eauto.
    - eapply l_parse_function_statement; eauto.
    - eapply l_parse_return_statement; eauto.
    - eapply l_parse_if_statement; eauto.
    - eapply l_parse_while_statement; eauto.
    - eapply l_parse_for_statement; eauto.
    - eapply l_parse_block_statement; eauto.
    - eapply l_parse_expression_statement; eauto.
  Qed.

  Lemma l_expr_list_loop n : forall acc, lok_el acc -> gspec lok_el (expr_list_loop ef n acc).
  Proof.
    induction n as [|n IH]; intros acc Ha s r s' H; cbn [expr_list_loop] in H; [discriminate|].
    brk.
    - lfwd. eapply IH; [|exact H]. apply lok_el_app; cbn; auto.
    - assumption.
  Qed.

  Lemma l_parse_expression_list ty : gspec lok_el (parse_expression_list ef lf ty).
  Proof.
    intros s r s' H. unfold parse_expression_list in H. cbv zeta in H. brk; lfwd; lfin.
    apply l_expr_list_loop in E1; cbn; auto.
  Qed.
  Hint Resolve l_parse_expression_list : ldb.

  Lemma l_object_loop n : forall acc, lok_pl acc ->
    gspec (fun o => match o with Some l => lok_pl l | None => True end) (object_loop ef n acc).
  Proof.
    induction n as [|n IH]; intros acc Ha s r s' H; cbn [object_loop] in H; [discriminate|].
    cbv zeta in H. brk; lfwd; lfin.
    - apply lok_pl_app; cbn; auto.
    - eapply IH; [|exact H]. apply lok_pl_app; cbn; auto.
  Qed.

  Lemma l_parse_object_literal : gspec lists_ok_expr (parse_object_literal ef lf).
  Proof.
    intros s r s' H. unfold parse_object_literal in H. cbv zeta in H. brk; lfin.
    apply l_object_loop in E0; cbn; auto.
  Qed.

  Lemma l_parse_function_expression : gspec lists_ok_expr (parse_function_expression cfg sf lf).
  Proof. intros s r s' H. unfold parse_function_expression in H. cbv zeta in H. lgo. Qed.

  Lemma l_parse_grouped_expression : gspec lists_ok_expr (parse_grouped_expression ef).
  Proof. intros s r s' H. unfold parse_grouped_expression in H. cbv zeta in H. lgo. Qed.

  Lemma l_parse_unary_expression : gspec lists_ok_expr (parse_unary_expression ef).
  Proof. intros s r s' H. unfold parse_unary_expression in H. cbv zeta in H. lgo. Qed.

  Hint Resolve l_parse_object_literal l_parse_function_expression l_parse_grouped_expression
       l_parse_unary_expression : ldb.

  Lemma l_prefix_handler_run h : gspec lists_ok_expr (prefix_handler_run cfg sf ef lf h).
  Proof.
    intros s r s' H. unfold prefix_handler_run in H. cbv zeta in H. destruct h; lgo.
  Qed.
  Hint Resolve l_prefix_handler_run : ldb.

  Lemma l_parse_prefix_expression : gspec lists_ok_expr (parse_prefix_expression cfg sf ef lf).
  Proof. intros s r s' H. unfold parse_prefix_expression in H. cbv zeta in H. lgo. Qed.
  Hint Resolve l_parse_prefix_expression : ldb.

  Lemma l_parse_binary_expression left : lists_ok_expr left ->
    gspec lists_ok_expr (parse_binary_expression cfg ef left).
  Proof. intros Hl s r s' H. unfold parse_binary_expression in H. cbv zeta in H. lgo. Qed.
  Hint Resolve l_parse_binary_expression : ldb.

  Lemma l_infix_handler_run h left : lists_ok_expr left ->
    gspec lists_ok_expr (infix_handler_run cfg ef lf h left).
  Proof.
    intros Hl s r s' H. unfold infix_handler_run in H. cbv zeta in H. destruct h; lgo.
  Qed.
  Hint Resolve l_infix_handler_run : ldb.

  Lemma l_parse_infix_expression left : lists_ok_expr left ->
    gspec lists_ok_expr (parse_infix_expression cfg ef lf left).
  Proof. intros Hl s r s' H. unfold parse_infix_expression in H. cbv zeta in H. lgo. Qed.
  Hint Resolve l_parse_infix_expression : ldb.

  Lemma l_remaining_loop n : forall left prec, lists_ok_expr left ->
    gspec lists_ok_expr (remaining_loop cfg ef lf n left prec).
  Proof.
    induction n as [|n IH]; intros left prec Hl s r s' H; cbn [remaining_loop] in H; [discriminate|].
    brk; try assumption.
    lfwd. assumption.
  Qed.

  Lemma l_parse_remaining left prec : lists_ok_expr left ->
    gspec lists_ok_expr (parse_remaining_with_precedence cfg ef lf left prec).
  Proof. intros Hl. unfold parse_remaining_with_precedence. apply l_remaining_loop; assumption. Qed.
  Hint Resolve l_parse_remaining : ldb.

  Lemma l_base_parse_expression prec : gspec lists_ok_expr (base_parse_expression cfg sf ef lf prec).
  Proof. intros s r s' H. unfold base_parse_expression in H. cbv zeta in H. lgo. Qed.

  Lemma l_run_stmt_chain ics : gspec lists_ok_stmt (run_stmt_chain cfg sf ef lf ics).
  Proof.
    induction ics as [|ic ics IH]; intros s r s' H; cbn [run_stmt_chain] in H.
    - eapply l_base_parse_statement; eauto.
    - destruct ic; eapply IH; eauto.
  Qed.

  Lemma l_run_expr_chain ics : forall prec, gspec lists_ok_expr (run_expr_chain cfg sf ef lf ics prec).
  Proof.
    induction ics as [|ic ics IH]; intros prec s r s' H; cbn [run_expr_chain] in H.
    - eapply l_base_parse_expression; eauto.
    - cbv zeta in H. destruct ic; brk; lfwd; lfin.
  Qed.
End ListsOpen.

Lemma l_knot cfg fuel :
  gspec lists_ok_stmt (stmt_fn cfg fuel) /\ forall p, gspec lists_ok_expr (expr_fn cfg fuel p).
Proof.
  induction fuel as [|f [IHs IHe]]; (split; [intros s r s' H | intros p s r s' H]);
    cbn [stmt_fn expr_fn] in H; try discriminate.
  - eapply l_run_stmt_chain; eauto.
  - eapply l_run_expr_chain; eauto.
Qed.

Lemma l_program_loop cfg fuel n : forall acc, lok_sl acc -> gspec lok_sl (program_loop cfg fuel n acc).
Proof.
  induction n as [|n IH]; intros acc Ha s r s' H; cbn [program_loop] in H; [discriminate|].
  brk.
  - apply (proj1 (l_knot cfg fuel)) in E0. eapply IH; [|exact H]. apply lok_sl_snoc; assumption.
  - assumption.
Qed.

Lemma parse_lists_ok : forall cfg toks r, parse_tokens cfg toks = Some r ->
  lists_ok_program (pr_program r).
Proof.
  intros cfg toks r H. unfold parse_tokens, parse_program_from in H.
  destruct (program_loop _ _ _ _ _) as [[stmts s1]|] eqn:E; [|discriminate].
  inversion H; subst; clear H. cbn.
  apply l_program_loop in E; [exact E|exact I].
Qed.

(* ---------- C11_error_ranges ---------- *)

Section Ranges.
  Variable toks : list token.

  Definition vis (t : token) : Prop := visible_token toks t.
  Definition rng (e : perror) : Prop :=
    exists t, vis t /\ e_start e = t_start t /\ e_end e = t_end t.
  (* every token of the window is visible, every recorded error sits on a visible token *)
  Definition Inv (s : pstate) : Prop :=
    vis (ps_cur s) /\ vis (ps_peek s) /\ Forall vis (ps_rest s) /\ vis (ps_eof s) /\
    Forall rng (ps_errors s).

  Definition ispec {A} (f : pstate -> res A) : Prop :=
    forall s r s', f s = Some (r, s') -> Inv s -> Inv s'.

  Lemma Inv_next s : Inv s -> Inv (ps_next s).
  Proof.
    unfold Inv, ps_next. intros (Hc & Hp & Hr & He & Herr).
    destruct (ps_rest s) as [|t r] eqn:E; cbn.
    - repeat split; auto.
    - inversion Hr; subst. repeat split; auto.
  Qed.

  Lemma Inv_add_error_at s k a t : vis t -> Inv s -> Inv (add_error_at s k a t).
  Proof.
    unfold Inv, add_error_at. intros Ht (Hc & Hp & Hr & He & Herr). cbn.
    repeat split; auto. apply Forall_app. split; [assumption|].
    constructor; [|constructor]. exists t. cbn. auto.
  Qed.

  Lemma Inv_add_error_peek s k a : Inv s -> Inv (add_error_at s k a (ps_peek s)).
  Proof. intro H. apply Inv_add_error_at; [apply H|exact H]. Qed.
  Lemma Inv_add_error s k a : Inv s -> Inv (add_error s k a).
  Proof. intro H. apply Inv_add_error_at; [apply H|exact H]. Qed.
  Lemma Inv_set_ctx s c : Inv s -> Inv (set_ctx s c).
  Proof. exact (fun H => H). Qed.
  Lemma Inv_push_ctx s c : Inv s -> Inv (push_ctx s c).
  Proof. exact (fun H => H). Qed.
  Lemma Inv_pop_ctx s : Inv s -> Inv (pop_ctx s).
  Proof. exact (fun H => H). Qed.
  Lemma Inv_set_cep s p : Inv s -> Inv (set_cep s p).
  Proof. exact (fun H => H). Qed.
  Lemma Inv_log_event s i k : Inv s -> Inv (log_event s i k).
  Proof. exact (fun H => H). Qed.

  Create HintDb idb.
  Hint Resolve Inv_next Inv_add_error_peek Inv_add_error Inv_push_ctx Inv_pop_ctx Inv_set_cep
       Inv_log_event : idb.

  Lemma Inv_expect s ty ok s1 : expect s ty = (ok, s1) -> Inv s -> Inv s1.
  Proof. unfold expect. intros H Hi. brk; auto with idb. Qed.

  Lemma Inv_expect_semicolon_asi cfg s ok s1 : expect_semicolon_asi cfg s = (ok, s1) -> Inv s -> Inv s1.
  Proof. unfold expect_semicolon_asi. intros H Hi. brk; auto with idb. Qed.

  Ltac ifwd :=
    repeat match goal with
    | E : expect ?s _ = (_, ?s1) |- _ =>
        assert (Inv s1) by (eapply Inv_expect; [exact E | eauto with idb]); clear E
    | E : expect_semicolon_asi _ ?s = (_, ?s1) |- _ =>
        assert (Inv s1) by (eapply Inv_expect_semicolon_asi; [exact E | eauto with idb]); clear E
    | E : ?f ?s = Some (?r, ?s') |- _ =>
        assert (Inv s') by
          (let X := fresh "X" in
           assert (X : ispec f) by (eauto with idb);
           eapply X; [exact E | eauto with idb]);
        clear E
    end.
  Ltac ifin :=
    repeat match goal with |- context [if ?b then _ else _] => destruct b end;
    eauto with idb.
  Ltac igo := brk; ifwd; ifin.

  Section RangesOpen.
    Variable cfg : pcfg.
    Variable sf : pstate -> res stmt.
    Variable ef : Z -> pstate -> res expr.
    Variable lf : nat.
    Hypothesis sf_ok : ispec sf.
    Hypothesis ef_ok : forall p, ispec (ef p).
    Hint Resolve sf_ok ef_ok : idb.

    Lemma i_parse_expression : ispec (parse_expression ef).
    Proof. unfold parse_expression. auto. Qed.
    Hint Resolve i_parse_expression : idb.

    Lemma i_params_loop n : forall acc, ispec (params_loop n acc).
    Proof.
      induction n as [|n IH]; intros acc s r s' H Hi; cbn [params_loop] in H; [discriminate|].
      cbv zeta in H. igo.
    Qed.
    Hint Resolve i_params_loop : idb.

    Lemma i_parse_function_parameters : ispec (parse_function_parameters lf).
    Proof. intros s r s' H Hi. unfold parse_function_parameters in H. cbv zeta in H. igo. Qed.
    Hint Resolve i_parse_function_parameters : idb.

    Lemma i_block_loop n : forall acc, ispec (block_loop sf n acc).
    Proof.
      induction n as [|n IH]; intros acc s r s' H Hi; cbn [block_loop] in H; [discriminate|].
      brk.
      - ifwd. assumption.
      - assumption.
    Qed.
    Hint Resolve i_block_loop : idb.

    Lemma i_parse_block_statement : ispec (parse_block_statement cfg sf lf).
    Proof. intros s r s' H Hi. unfold parse_block_statement in H. cbv zeta in H. igo. Qed.
    Hint Resolve i_parse_block_statement : idb.

    Lemma i_parse_let_statement : ispec (parse_let_statement cfg ef).
    Proof. intros s r s' H Hi. unfold parse_let_statement in H. cbv zeta in H. igo. Qed.

    Lemma i_parse_let_expression : ispec (parse_let_expression ef).
    Proof. intros s r s' H Hi. unfold parse_let_expression in H. cbv zeta in H. igo. Qed.
    Hint Resolve i_parse_let_expression : idb.

    Lemma i_parse_function_statement : ispec (parse_function_statement cfg sf lf).
    Proof. intros s r s' H Hi. unfold parse_function_statement in H. cbv zeta in H. igo. Qed.

    Lemma i_parse_return_statement : ispec (parse_return_statement cfg ef).
    Proof. intros s r s' H Hi. unfold parse_return_statement in H. cbv zeta in H. igo. Qed.

    Lemma i_parse_if_statement : ispec (parse_if_statement sf ef).
    Proof. intros s r s' H Hi. unfold parse_if_statement in H. cbv zeta in H. igo. Qed.

    Lemma i_parse_while_statement : ispec (parse_while_statement sf ef).
    Proof. intros s r s' H Hi. unfold parse_while_statement in H. cbv zeta in H. igo. Qed.

    Lemma i_parse_for_statement : ispec (parse_for_statement sf ef).
    Proof. intros s r s' H Hi. unfold parse_for_statement in H. cbv zeta in H. igo. Qed.

    Lemma i_parse_expression_statement : ispec (parse_expression_statement cfg ef).
    Proof. intros s r s' H Hi. unfold parse_expression_statement in H. cbv zeta in H. igo. Qed.

    Lemma i_base_parse_statement : ispec (base_parse_statement cfg sf ef lf).
    Proof.
      intros s r s' H Hi. unfold base_parse_statement in H. cbv zeta in H.
      repeat match type of H with (if ?b then _ else _) = _ => destruct b end.
      - eapply i_parse_let_statement; eauto.
      - eapply i_parse_function_statement; eauto.
      - eapply i_parse_return_statement; eauto.
      - eapply i_parse_if_statement; eauto.
      - eapply i_parse_while_statement; eauto.
      - eapply i_parse_for_statement; eauto.
      - eapply i_parse_block_statement; eauto.
      - eapply i_parse_expression_statement; eauto.
    Qed.

    Lemma i_expr_list_loop n : forall acc, ispec (expr_list_loop ef n acc).
    Proof.
      induction n as [|n IH]; intros acc s r s' H Hi; cbn [expr_list_loop] in H; [discriminate|].
      brk.
      - ifwd. assumption.
      - assumption.
    Qed.
    Hint Resolve i_expr_list_loop : idb.

    Lemma i_parse_expression_list ty : ispec (parse_expression_list ef lf ty).
    Proof. intros s r s' H Hi. unfold parse_expression_list in H. cbv zeta in H. igo. Qed.
    Hint Resolve i_parse_expression_list : idb.

    Lemma i_object_loop n : forall acc, ispec (object_loop ef n acc).
    Proof.
      induction n as [|n IH]; intros acc s r s' H Hi; cbn [object_loop] in H; [discriminate|].
      cbv zeta in H. igo.
    Qed.
    Hint Resolve i_object_loop : idb.

    Lemma i_parse_object_literal : ispec (parse_object_literal ef lf).
    Proof. intros s r s' H Hi. unfold parse_object_literal in H. cbv zeta in H. igo. Qed.

    Lemma i_parse_function_expression : ispec (parse_function_expression cfg sf lf).
    Proof. intros s r s' H Hi. unfold parse_function_expression in H. cbv zeta in H. igo. Qed.

    Lemma i_parse_grouped_expression : ispec (parse_grouped_expression ef).
    Proof. intros s r s' H Hi. unfold parse_grouped_expression in H. cbv zeta in H. igo. Qed.

    Lemma i_parse_unary_expression : ispec (parse_unary_expression ef).
    Proof. intros s r s' H Hi. unfold parse_unary_expression in H. cbv zeta in H. igo. Qed.

    Hint Resolve i_parse_object_literal i_parse_function_expression i_parse_grouped_expression
         i_parse_unary_expression : idb.

    Lemma i_prefix_handler_run h : ispec (prefix_handler_run cfg sf ef lf h).
    Proof.
      intros s r s' H Hi. unfold prefix_handler_run in H. cbv zeta in H. destruct h; igo.
    Qed.
    Hint Resolve i_prefix_handler_run : idb.

    Lemma i_parse_prefix_expression : ispec (parse_prefix_expression cfg sf ef lf).
    Proof. intros s r s' H Hi. unfold parse_prefix_expression in H. cbv zeta in H. igo. Qed.
    Hint Resolve i_parse_prefix_expression : idb.

    Lemma i_parse_binary_expression left : ispec (parse_binary_expression cfg ef left).
    Proof. intros s r s' H Hi. unfold parse_binary_expression in H. cbv zeta in H. igo. Qed.
    Hint Resolve i_parse_binary_expression : idb.

    Lemma i_infix_handler_run h left : ispec (infix_handler_run cfg ef lf h left).
    Proof.
      intros s r s' H Hi. unfold infix_handler_run in H. cbv zeta in H. destruct h; igo.
    Qed.
    Hint Resolve i_infix_handler_run : idb.

    Lemma i_parse_infix_expression left : ispec (parse_infix_expression cfg ef lf left).
    Proof. intros s r s' H Hi. unfold parse_infix_expression in H. cbv zeta in H. igo. Qed.
    Hint Resolve i_parse_infix_expression : idb.

    Lemma i_remaining_loop n : forall left prec, ispec (remaining_loop cfg ef lf n left prec).
    Proof.
      induction n as [|n IH]; intros left prec s r s' H Hi; cbn [remaining_loop] in H; [discriminate|].
      igo.
    Qed.

    Lemma i_parse_remaining left prec : ispec (parse_remaining_with_precedence cfg ef lf left prec).
    Proof. unfold parse_remaining_with_precedence. apply i_remaining_loop. Qed.
    Hint Resolve i_parse_remaining : idb.

    Lemma i_base_parse_expression prec : ispec (base_parse_expression cfg sf ef lf prec).
    Proof. intros s r s' H Hi. unfold base_parse_expression in H. cbv zeta in H. igo. Qed.

    Lemma i_run_stmt_chain ics : ispec (run_stmt_chain cfg sf ef lf ics).
    Proof.
      induction ics as [|ic ics IH]; intros s r s' H Hi; cbn [run_stmt_chain] in H.
      - eapply i_base_parse_statement; eauto.
      - destruct ic; eapply IH; eauto with idb.
    Qed.

    Lemma i_run_expr_chain ics : forall prec, ispec (run_expr_chain cfg sf ef lf ics prec).
    Proof.
      induction ics as [|ic ics IH]; intros prec s r s' H Hi; cbn [run_expr_chain] in H.
      - eapply i_base_parse_expression; eauto.
      - cbv zeta in H. destruct ic; igo.
    Qed.
  End RangesOpen.

  Lemma i_knot cfg fuel : ispec (stmt_fn cfg fuel) /\ forall p, ispec (expr_fn cfg fuel p).
  Proof.
    induction fuel as [|f [IHs IHe]]; (split; [intros s r s' H Hi | intros p s r s' H Hi]);
      cbn [stmt_fn expr_fn] in H; try discriminate.
    - eapply i_run_stmt_chain; eauto.
    - eapply i_run_expr_chain; eauto.
  Qed.

  Lemma i_program_loop cfg fuel n : forall acc, ispec (program_loop cfg fuel n acc).
  Proof.
    induction n as [|n IH]; intros acc s r s' H Hi; cbn [program_loop] in H; [discriminate|].
    brk.
    - eapply IH; [exact H|]. apply Inv_next.
      eapply (proj1 (i_knot cfg fuel)); eauto.
    - assumption.
  Qed.

  Lemma Inv_init : Inv (ps_init toks (eof_again (last toks zero_token))).
  Proof.
    assert (He : vis (eof_again (last toks zero_token))) by (right; reflexivity).
    unfold ps_init, Inv. destruct toks as [|a [|b l]] eqn:Et; cbn [ps_next ps_rest ps_peek ps_eof ps_errors ps_cur ps_ctx ps_cep ps_log].
    - repeat split; auto.
    - assert (vis a) by (left; rewrite Et; cbn; auto). repeat split; auto.
    - assert (Hall : Forall vis toks) by (apply Forall_forall; intros x Hx; left; exact Hx).
      rewrite Et in Hall. inversion Hall as [|? ? Ha Hall']; subst.
      inversion Hall' as [|? ? Hb Hl]; subst. repeat split; auto.
  Qed.
End Ranges.

Lemma parse_error_ranges : forall cfg toks r, parse_tokens cfg toks = Some r ->
  Forall (fun e => exists t, visible_token toks t /\ e_start e = t_start t /\ e_end e = t_end t)
         (pr_errors r).
Proof.
  intros cfg toks r H. unfold parse_tokens, parse_program_from in H.
  destruct (program_loop _ _ _ _ _) as [[stmts s1]|] eqn:E; [|discriminate].
  inversion H; subst; clear H. cbn.
  pose proof (i_program_loop toks _ _ _ _ _ _ _ E (Inv_init toks)) as Hi.
  apply Hi.
Qed.

(* ---------- C11_clean_compiles ---------- *)

(* --- printer side: ops without WPanic never set the panic flag --- *)

Definition notpanic (o : wop) : bool := match o with WPanic => false | _ => true end.
Notation npb := (forallb notpanic).

Lemma wp_write_raw cfg st s : w_panic (write_raw cfg st s) = w_panic st.
Proof. reflexivity. Qed.
Lemma wp_write_indent cfg st : w_panic (write_indent cfg st) = w_panic st.
Proof. reflexivity. Qed.
Lemma wp_flush_fold cfg l : forall st,
  w_panic (fold_left (fun s c => if N.eqb c TAB then write_indent cfg s else write_raw cfg s [c]) l st)
  = w_panic st.
Proof.
  induction l as [|c l IH]; intro st; cbn [fold_left]; [reflexivity|].
  rewrite IH. destruct (N.eqb c TAB); reflexivity.
Qed.
Lemma wp_flush_pending cfg st : w_panic (flush_pending cfg st) = w_panic st.
Proof. unfold flush_pending. cbn [w_panic]. apply wp_flush_fold. Qed.
Lemma wp_write_rune cfg st c : w_panic (write_rune cfg st c) = w_panic st.
Proof. unfold write_rune. cbn [w_panic]. apply wp_flush_pending. Qed.
Lemma wp_write_string cfg st s : w_panic (write_string cfg st s) = w_panic st.
Proof. unfold write_string. rewrite wp_write_raw. apply wp_flush_pending. Qed.
Lemma wp_set_pend st p : w_panic (set_pend st p) = w_panic st.
Proof. reflexivity. Qed.
Lemma wp_write_comment_items cfg cs : forall st first,
  w_panic (write_comment_items cfg st first cs) = w_panic st.
Proof.
  induction cs as [|c cs IH]; intros st first; cbn [write_comment_items]; [reflexivity|].
  cbv zeta. rewrite IH. rewrite wp_write_raw.
  destruct c; destruct first; reflexivity.
Qed.

Lemma wstep_nopanic cfg st o :
  notpanic o = true -> w_panic st = false -> w_panic (wstep cfg st o) = false.
Proof.
  intros Ho Hs. unfold wstep. rewrite Hs.
  destruct o; try discriminate Ho; cbv zeta;
    repeat match goal with |- context [match ?b with _ => _ end] => destruct b end;
    rewrite ?wp_set_pend, ?wp_write_comment_items, ?wp_write_string, ?wp_write_rune,
            ?wp_flush_pending;
    solve [assumption | reflexivity].
Qed.

Lemma run_nopanic cfg ops : forall st,
  npb ops = true -> w_panic st = false -> w_panic (fold_left (wstep cfg) ops st) = false.
Proof.
  induction ops as [|o ops IH]; intros st Hn Hs; cbn [fold_left]; [assumption|].
  cbn [forallb] in Hn. apply andb_true_iff in Hn as [Ho Hn].
  apply IH; [assumption|]. apply wstep_nopanic; assumption.
Qed.

Lemma compile_nopanic wc p : npb (write_program p) = true -> r_panic (compile wc p) = false.
Proof.
  intro H. unfold compile, finish, run_wops. cbn [r_panic].
  apply run_nopanic; [assumption|reflexivity].
Qed.

(* --- trees whose printing emits no WPanic --- *)

Definition npe (e : expr) : Prop := npb (write_expr e) = true.
Definition nps (s : stmt) : Prop := npb (write_stmt s) = true.
(* optional children *)
Definition npe_opt (e : expr) : Prop := e = ENil \/ npe e.
Definition nps_opt (s : stmt) : Prop := s = SNil \/ nps s.

Lemma npb_sep_map {A} (sep : list wop) (f : A -> list wop) (l : list A) :
  npb sep = true -> Forall (fun x => npb (f x) = true) l -> npb (sep_map sep f l) = true.
Proof.
  intros Hs Hl. induction Hl as [|x l Hx Hl IH]; [reflexivity|].
  cbn [sep_map]. rewrite forallb_app, Hx. destruct l; [reflexivity|].
  rewrite forallb_app, Hs, IH. reflexivity.
Qed.

Lemma npe_prec e : npe e -> exists v, prec_opt e = Some v.
Proof. destruct e; cbn; eauto. discriminate. Qed.

Lemma npb_write_ident i : npb (write_ident i) = true.
Proof. reflexivity. Qed.

Lemma npb_idents (l : list ident) :
  npb (sep_map [WRune 44%N; WSpace] (fun p => write_ident p ++ []) l) = true.
Proof.
  apply npb_sep_map; [reflexivity|]. apply Forall_forall. intros x _.
  rewrite forallb_app. reflexivity.
Qed.

Ltac npsolve :=
  unfold npe, nps in *;
  repeat first
    [ progress cbn [forallb notpanic andb app]
    | rewrite forallb_app
    | rewrite npb_write_ident
    | rewrite npb_idents
    | match goal with H : forallb notpanic _ = true |- _ => rewrite H end
    | match goal with |- context [if ?b then _ else _] => destruct b end ];
  try reflexivity.

Lemma npe_opt_write e : npe_opt e -> npb (if negb (is_enil e) then write_expr e else []) = true.
Proof. intros [->|H]; [reflexivity|]. destruct (negb (is_enil e)); [exact H|reflexivity]. Qed.

Lemma npe_EIdent i : npe (EIdent i). Proof. reflexivity. Qed.
Lemma npe_EInt t : npe (EInt t). Proof. reflexivity. Qed.
Lemma npe_EFloat t : npe (EFloat t). Proof. reflexivity. Qed.
Lemma npe_EString t v : npe (EString t v). Proof. reflexivity. Qed.
Lemma npe_ERaw t v : npe (ERaw t v). Proof. reflexivity. Qed.
Lemma npe_EBool t b : npe (EBool t b). Proof. reflexivity. Qed.
Lemma npe_ENull t : npe (ENull t). Proof. reflexivity. Qed.

Lemma npe_ELet t n v : npe_opt v -> npe (ELet t n v).
Proof.
  unfold npe. intros [->|H]; cbn [write_expr is_enil negb]; [reflexivity|].
  npsolve.
Qed.

Lemma npe_EBinary t l op r : npe l -> npe r -> npe (EBinary t l op r).
Proof.
  intros Hl Hr. destruct (npe_prec l Hl) as [v1 E1]. destruct (npe_prec r Hr) as [v2 E2].
  unfold npe in *. cbn [write_expr]. rewrite E1, E2. cbv zeta. npsolve.
Qed.

Lemma npe_EUnary t op r : npe r -> npe (EUnary t op r).
Proof.
  intros Hr. destruct (npe_prec r Hr) as [v2 E2].
  unfold npe in *. cbn [write_expr]. rewrite E2. npsolve.
Qed.

Lemma npe_EPostfix t l op : npe l -> npe (EPostfix t l op).
Proof.
  intros Hl. destruct (npe_prec l Hl) as [v1 E1].
  unfold npe in *. cbn [write_expr]. rewrite E1. npsolve.
Qed.

Lemma npe_EGroup t e rp : npe e -> npe (EGroup t e rp).
Proof. unfold npe. intros He. cbn [write_expr]. npsolve. Qed.

Lemma npb_exprs (l : list expr) : Forall npe l ->
  npb (sep_map [WRune 44%N; WSpace] (fun a => write_expr a ++ []) l) = true.
Proof.
  intro H. apply npb_sep_map; [reflexivity|]. eapply Forall_impl; [|exact H].
  intros a Ha. rewrite forallb_app. rewrite Ha. reflexivity.
Qed.

Lemma npe_ECall t fn args : npe fn -> Forall npe args -> npe (ECall t fn args).
Proof.
  unfold npe at 1 3. intros Hf Ha. cbn [write_expr]. apply npb_exprs in Ha. npsolve.
Qed.

Lemma npe_EMember t o p c : npe o -> npe p -> npe (EMember t o p c).
Proof. unfold npe. intros Ho Hp. cbn [write_expr]. npsolve. Qed.

Lemma npe_EAssign t l v : npe l -> npe v -> npe (EAssign t l v).
Proof. unfold npe. intros Hl Hv. cbn [write_expr]. npsolve. Qed.

Lemma npe_ECompound t l op v : npe l -> npe v -> npe (ECompound t l op v).
Proof. unfold npe. intros Hl Hv. cbn [write_expr]. npsolve. Qed.

Lemma npe_EFunc t name params body : nps body -> npe (EFunc t name params body).
Proof.
  unfold npe, nps. intros Hb. cbn [write_expr]. destruct name; npsolve.
Qed.

Lemma npe_EArray t es rb : Forall npe es -> npe (EArray t es rb).
Proof. unfold npe at 2. intros Ha. cbn [write_expr]. apply npb_exprs in Ha. npsolve. Qed.

Definition npp (kv : expr * expr) : Prop := npe (fst kv) /\ npe (snd kv).

Lemma npe_EObject t ps rb : Forall npp ps -> npe (EObject t ps rb).
Proof.
  unfold npe. intros Hp. cbn [write_expr].
  assert (H : npb (sep_map [WRune 44%N; WSpace]
                  (fun prop => write_expr (fst prop) ++ WRune 58%N :: WSpace :: write_expr (snd prop) ++ [])
                  ps) = true).
  { apply npb_sep_map; [reflexivity|]. eapply Forall_impl; [|exact Hp].
    intros [k v] [Hk Hv]. unfold npe in *. cbn [fst snd] in *. npsolve. }
  npsolve.
Qed.

Lemma nps_SLet t n v : npe_opt v -> nps (SLet t n v).
Proof.
  unfold nps. intros [->|H]; cbn [write_stmt is_enil negb]; [reflexivity|].
  unfold npe in H. npsolve.
Qed.

Lemma nps_SReturn t v : npe_opt v -> nps (SReturn t v).
Proof.
  unfold nps. intros [->|H]; cbn [write_stmt is_enil negb]; [reflexivity|].
  unfold npe in H. npsolve.
Qed.

Lemma nps_SExpr e : npe e -> nps (SExpr e).
Proof. unfold nps, npe. intros H. cbn [write_stmt]. npsolve. Qed.

Lemma nps_SFunc t name params body : nps body -> nps (SFunc t name params body).
Proof. unfold nps. intros Hb. cbn [write_stmt]. npsolve. Qed.

Lemma npb_stmts_block (l : list stmt) : Forall nps l ->
  npb (sep_map [WNewline] (fun st => WIndent :: write_stmt st ++ []) l) = true.
Proof.
  intro H. apply npb_sep_map; [reflexivity|]. eapply Forall_impl; [|exact H].
  intros a Ha. unfold nps in Ha. npsolve.
Qed.

Lemma npb_stmts_program (l : list stmt) : Forall nps l ->
  npb (sep_map [WNewline] (fun st => write_stmt st ++ []) l) = true.
Proof.
  intro H. apply npb_sep_map; [reflexivity|]. eapply Forall_impl; [|exact H].
  intros a Ha. unfold nps in Ha. npsolve.
Qed.

Lemma nps_SBlock t ss rb : Forall nps ss -> nps (SBlock t ss rb).
Proof. unfold nps at 2. intros H. cbn [write_stmt]. apply npb_stmts_block in H. npsolve. Qed.

Lemma nps_SIf t c thn els : npe c -> nps thn -> nps_opt els -> nps (SIf t c thn els).
Proof.
  intros Hc Ht [->|He]; unfold nps, npe in *; cbn [write_stmt is_snil negb]; npsolve.
Qed.

Lemma nps_SWhile t c body : npe c -> nps body -> nps (SWhile t c body).
Proof. unfold nps, npe. intros Hc Hb. cbn [write_stmt]. npsolve. Qed.

Lemma nps_SFor t i c u body : npe_opt i -> npe_opt c -> npe_opt u -> nps body ->
  nps (SFor t i c u body).
Proof.
  intros Hi Hc Hu Hb. apply npe_opt_write in Hi, Hc, Hu.
  unfold nps in *. cbn [write_stmt].
  repeat rewrite app_nil_r.
  repeat first [ progress cbn [forallb notpanic andb app] | rewrite forallb_app ].
  rewrite Hi, Hc, Hu, Hb. reflexivity.
Qed.

Lemma npb_program stmts t : Forall nps stmts -> npb (write_program (mkprogram stmts t)) = true.
Proof. intro H. unfold write_program. cbn [p_stmts p_eof]. apply npb_stmts_program in H. npsolve. Qed.

(* --- parser side: a parse that records no error returns a tree without nil in
   any dereferenced position --- *)

Definition nerr (s : pstate) : nat := length (ps_errors s).

(* errors only grow, and if they did not grow the result is good *)
Definition cspec {A} (G : A -> Prop) (f : pstate -> res A) : Prop :=
  forall s r s', f s = Some (r, s') ->
    (nerr s <= nerr s')%nat /\ ((nerr s' <= nerr s)%nat -> G r).

Lemma nerr_next s : nerr (ps_next s) = nerr s.
Proof. unfold ps_next, nerr. destruct (ps_rest s); reflexivity. Qed.
Lemma nerr_add_error_at s k a t : nerr (add_error_at s k a t) = S (nerr s).
Proof. unfold add_error_at, nerr. cbn. rewrite app_length. cbn. lia. Qed.
Lemma nerr_add_error s k a : nerr (add_error s k a) = S (nerr s).
Proof. apply nerr_add_error_at. Qed.
Lemma nerr_set_ctx s c : nerr (set_ctx s c) = nerr s. Proof. reflexivity. Qed.
Lemma nerr_push_ctx s c : nerr (push_ctx s c) = nerr s. Proof. reflexivity. Qed.
Lemma nerr_pop_ctx s : nerr (pop_ctx s) = nerr s. Proof. reflexivity. Qed.
Lemma nerr_set_cep s p : nerr (set_cep s p) = nerr s. Proof. reflexivity. Qed.
Lemma nerr_log_event s i k : nerr (log_event s i k) = nerr s. Proof. reflexivity. Qed.
#[local] Hint Rewrite nerr_next nerr_add_error_at nerr_add_error nerr_set_ctx nerr_push_ctx nerr_pop_ctx
     nerr_set_cep nerr_log_event : nerr_db.

Lemma expect_true_nerr s ty s1 : expect s ty = (true, s1) -> nerr s1 = nerr s.
Proof. unfold expect. intro H. brk. apply nerr_next. Qed.
Lemma expect_false_nerr s ty s1 : expect s ty = (false, s1) -> nerr s1 = S (nerr s).
Proof. unfold expect. intro H. brk. apply nerr_add_error_at. Qed.
Lemma asi_true_nerr cfg s s1 : expect_semicolon_asi cfg s = (true, s1) -> nerr s1 = nerr s.
Proof. unfold expect_semicolon_asi. intro H. brk; autorewrite with nerr_db; reflexivity. Qed.
Lemma asi_false_nerr cfg s s1 : expect_semicolon_asi cfg s = (false, s1) -> nerr s1 = S (nerr s).
Proof. unfold expect_semicolon_asi. intro H. brk. apply nerr_add_error_at. Qed.

Lemma npe_opt_nil : npe_opt ENil. Proof. left; reflexivity. Qed.
Lemma npe_opt_some e : npe e -> npe_opt e. Proof. right; assumption. Qed.
Lemma nps_opt_nil : nps_opt SNil. Proof. left; reflexivity. Qed.
Lemma nps_opt_some s : nps s -> nps_opt s. Proof. right; assumption. Qed.

Lemma Forall_nps_snoc acc st : Forall nps acc -> nps st ->
  Forall nps (if is_snil st then acc else acc ++ [st]).
Proof.
  intros Ha Hs. destruct (is_snil st); [assumption|].
  apply Forall_app; split; [assumption|]. constructor; [assumption|constructor].
Qed.
Lemma Forall_snoc {A} (P : A -> Prop) acc x : Forall P acc -> P x -> Forall P (acc ++ [x]).
Proof. intros Ha Hx. apply Forall_app; split; [assumption|]. constructor; [assumption|constructor]. Qed.
Lemma Forall_one {A} (P : A -> Prop) x : P x -> Forall P [x].
Proof. intro; constructor; [assumption|constructor]. Qed.
Lemma npp_pair k v : npe k -> npe v -> npp (k, v).
Proof. split; assumption. Qed.

Create HintDb cdb.
#[local] Hint Resolve npe_EIdent npe_EInt npe_EFloat npe_EString npe_ERaw npe_EBool npe_ENull npe_ELet
     npe_EBinary npe_EUnary npe_EPostfix npe_EGroup npe_ECall npe_EMember npe_EAssign
     npe_ECompound npe_EFunc npe_EArray npe_EObject
     nps_SLet nps_SReturn nps_SExpr nps_SFunc nps_SBlock nps_SIf nps_SWhile nps_SFor
     npe_opt_nil npe_opt_some nps_opt_nil nps_opt_some
     Forall_nps_snoc Forall_snoc Forall_one Forall_nil npp_pair : cdb.

Ltac cfwd :=
  repeat match goal with
  | H : ?x = true |- _ => is_var x; subst x
  | H : ?x = false |- _ => is_var x; subst x
  | E : expect _ _ = (true, _) |- _ => apply expect_true_nerr in E
  | E : expect _ _ = (false, _) |- _ => apply expect_false_nerr in E
  | E : expect_semicolon_asi _ _ = (true, _) |- _ => apply asi_true_nerr in E
  | E : expect_semicolon_asi _ _ = (false, _) |- _ => apply asi_false_nerr in E
  | E : ?f ?s = Some (?r, ?s') |- _ =>
      let X := fresh "X" in
      eassert (X : cspec _ f) by (eauto with cdb);
      apply X in E; clear X; destruct E as [? ?]
  end.

Ltac cfin :=
  repeat match goal with |- context [if ?b then _ else _] => destruct b end;
  autorewrite with nerr_db in *;
  (split; [ lia
          | let Hle := fresh "Hle" in
            intro Hle; try (exfalso; lia);
            repeat match goal with H : (_ <= _)%nat -> _ |- _ => specialize (H ltac:(lia)) end;
            first [ solve [eauto with cdb]
                  | intros; match goal with H : _ -> ?G |- ?G => apply H end; solve [eauto with cdb]
                  | exfalso; match goal with H : _ -> False |- _ => apply H end;
                    solve [eauto with cdb]
                  | idtac ] ]).
Ltac cgo := brk; cfwd; cfin.

Section CleanOpen.
  Variable cfg : pcfg.
  Variable sf : pstate -> res stmt.
  Variable ef : Z -> pstate -> res expr.
  Variable lf : nat.
  Hypothesis sf_ok : cspec nps sf.
  Hypothesis ef_ok : forall p, cspec npe (ef p).
  Hint Resolve sf_ok ef_ok : cdb.

  Lemma c_parse_expression : cspec npe (parse_expression ef).
  Proof. unfold parse_expression. auto. Qed.
  Hint Resolve c_parse_expression : cdb.

  Lemma c_params_loop n : forall acc, cspec (fun _ => True) (params_loop n acc).
  Proof.
    induction n as [|n IH]; intros acc s r s' H; cbn [params_loop] in H; [discriminate|].
    cbv zeta in H. cgo.
  Qed.
  Hint Resolve c_params_loop : cdb.

  Lemma c_parse_function_parameters : cspec (fun _ => True) (parse_function_parameters lf).
  Proof. intros s r s' H. unfold parse_function_parameters in H. cbv zeta in H. cgo. Qed.
  Hint Resolve c_parse_function_parameters : cdb.

  Lemma c_block_loop n : forall acc,
    cspec (fun r => Forall nps acc -> Forall nps r) (block_loop sf n acc).
  Proof.
    induction n as [|n IH]; intros acc s r s' H; cbn [block_loop] in H; [discriminate|].
    cgo.
  Qed.
  Hint Resolve c_block_loop : cdb.

  Lemma c_parse_block_statement : cspec nps (parse_block_statement cfg sf lf).
  Proof.
    intros s r s' H. unfold parse_block_statement in H. cbv zeta in H. brk; cfwd.
    cfin.
  Qed.
  Hint Resolve c_parse_block_statement : cdb.

  Lemma c_parse_let_statement : cspec nps (parse_let_statement cfg ef).
  Proof. intros s r s' H. unfold parse_let_statement in H. cbv zeta in H. cgo. Qed.

  Lemma c_parse_let_expression : cspec npe (parse_let_expression ef).
  Proof. intros s r s' H. unfold parse_let_expression in H. cbv zeta in H. cgo. Qed.
  Hint Resolve c_parse_let_expression : cdb.

  Lemma c_parse_function_statement : cspec nps (parse_function_statement cfg sf lf).
  Proof. intros s r s' H. unfold parse_function_statement in H. cbv zeta in H. cgo. Qed.

  Lemma c_parse_return_statement : cspec nps (parse_return_statement cfg ef).
  Proof. intros s r s' H. unfold parse_return_statement in H. cbv zeta in H. cgo. Qed.

  Lemma c_parse_if_statement : cspec nps (parse_if_statement sf ef).
  Proof. intros s r s' H. unfold parse_if_statement in H. cbv zeta in H. cgo. Qed.

  Lemma c_parse_while_statement : cspec nps (parse_while_statement sf ef).
  Proof. intros s r s' H. unfold parse_while_statement in H. cbv zeta in H. cgo. Qed.

  Lemma c_parse_for_statement : cspec nps (parse_for_statement sf ef).
  Proof. intros s r s' H. unfold parse_for_statement in H. cbv zeta in H. cgo. Qed.

  Lemma c_parse_expression_statement : cspec nps (parse_expression_statement cfg ef).
  Proof. intros s r s' H. unfold parse_expression_statement in H. cbv zeta in H. cgo. Qed.

  Lemma c_base_parse_statement : cspec nps (base_parse_statement cfg sf ef lf).
  Proof.
    intros s r s' H. unfold base_parse_statement in H. cbv zeta in H.
    repeat match type of H with (if ?b then _ else _) = _ => destruct b end.
    - eapply c_parse_let_statement; eauto.
    - eapply c_parse_function_statement; eauto.
    - eapply c_parse_return_statement; eauto.
    - eapply c_parse_if_statement; eauto.
    - eapply c_parse_while_statement; eauto.
    - eapply c_parse_for_statement; eauto.
    - eapply c_parse_block_statement; eauto.
    - eapply c_parse_expression_statement; eauto.
  Qed.

  Lemma c_expr_list_loop n : forall acc,
    cspec (fun r => Forall npe acc -> Forall npe r) (expr_list_loop ef n acc).
  Proof.
    induction n as [|n IH]; intros acc s r s' H; cbn [expr_list_loop] in H; [discriminate|].
    cgo.
  Qed.
  Hint Resolve c_expr_list_loop : cdb.

  Lemma c_parse_expression_list ty : cspec (Forall npe) (parse_expression_list ef lf ty).
  Proof. intros s r s' H. unfold parse_expression_list in H. cbv zeta in H. cgo. Qed.
  Hint Resolve c_parse_expression_list : cdb.

  Lemma c_object_loop n : forall acc,
    cspec (fun o => Forall npp acc -> match o with Some l => Forall npp l | None => False end)
          (object_loop ef n acc).
  Proof.
    induction n as [|n IH]; intros acc s r s' H; cbn [object_loop] in H; [discriminate|].
    cbv zeta in H. cgo.
  Qed.
  Hint Resolve c_object_loop : cdb.

  Lemma c_parse_object_literal : cspec npe (parse_object_literal ef lf).
  Proof. intros s r s' H. unfold parse_object_literal in H. cbv zeta in H. cgo.
  Qed.

  Lemma c_parse_function_expression : cspec npe (parse_function_expression cfg sf lf).
  Proof. intros s r s' H. unfold parse_function_expression in H. cbv zeta in H. cgo. Qed.

  Lemma c_parse_grouped_expression : cspec npe (parse_grouped_expression ef).
  Proof. intros s r s' H. unfold parse_grouped_expression in H. cbv zeta in H. cgo. Qed.

  Lemma c_parse_unary_expression : cspec npe (parse_unary_expression ef).
  Proof. intros s r s' H. unfold parse_unary_expression in H. cbv zeta in H. cgo. Qed.

  Hint Resolve c_parse_object_literal c_parse_function_expression c_parse_grouped_expression
       c_parse_unary_expression : cdb.

  Lemma c_prefix_handler_run h : cspec npe (prefix_handler_run cfg sf ef lf h).
  Proof.
    intros s r s' H. unfold prefix_handler_run in H. cbv zeta in H. destruct h; cgo.
  Qed.
  Hint Resolve c_prefix_handler_run : cdb.

  Lemma c_parse_prefix_expression : cspec npe (parse_prefix_expression cfg sf ef lf).
  Proof. intros s r s' H. unfold parse_prefix_expression in H. cbv zeta in H. cgo. Qed.
  Hint Resolve c_parse_prefix_expression : cdb.

  Lemma c_parse_binary_expression left :
    cspec (fun r => npe left -> npe r) (parse_binary_expression cfg ef left).
  Proof. intros s r s' H. unfold parse_binary_expression in H. cbv zeta in H. cgo. Qed.
  Hint Resolve c_parse_binary_expression : cdb.

  Lemma c_infix_handler_run h left :
    cspec (fun r => npe left -> npe r) (infix_handler_run cfg ef lf h left).
  Proof.
    intros s r s' H. unfold infix_handler_run in H. cbv zeta in H. destruct h; cgo.
  Qed.
  Hint Resolve c_infix_handler_run : cdb.

  Lemma c_parse_infix_expression left :
    cspec (fun r => npe left -> npe r) (parse_infix_expression cfg ef lf left).
  Proof. intros s r s' H. unfold parse_infix_expression in H. cbv zeta in H. cgo. Qed.
  Hint Resolve c_parse_infix_expression : cdb.

  Lemma c_remaining_loop n : forall left prec,
    cspec (fun r => npe left -> npe r) (remaining_loop cfg ef lf n left prec).
  Proof.
    induction n as [|n IH]; intros left prec s r s' H; cbn [remaining_loop] in H; [discriminate|].
    cgo.
  Qed.

  Lemma c_parse_remaining left prec :
    cspec (fun r => npe left -> npe r) (parse_remaining_with_precedence cfg ef lf left prec).
  Proof. unfold parse_remaining_with_precedence. apply c_remaining_loop. Qed.
  Hint Resolve c_parse_remaining : cdb.

  Lemma c_base_parse_expression prec : cspec npe (base_parse_expression cfg sf ef lf prec).
  Proof. intros s r s' H. unfold base_parse_expression in H. cbv zeta in H. cgo. Qed.

  Lemma c_run_stmt_chain ics : cspec nps (run_stmt_chain cfg sf ef lf ics).
  Proof.
    induction ics as [|ic ics IH]; intros s r s' H; cbn [run_stmt_chain] in H.
    - eapply c_base_parse_statement; eauto.
    - destruct ic; cgo.
  Qed.

  Lemma c_run_expr_chain ics : forall prec, cspec npe (run_expr_chain cfg sf ef lf ics prec).
  Proof.
    induction ics as [|ic ics IH]; intros prec s r s' H; cbn [run_expr_chain] in H.
    - eapply c_base_parse_expression; eauto.
    - cbv zeta in H. destruct ic; cgo.
  Qed.
End CleanOpen.

Lemma c_knot cfg fuel : cspec nps (stmt_fn cfg fuel) /\ forall p, cspec npe (expr_fn cfg fuel p).
Proof.
  induction fuel as [|f [IHs IHe]]; (split; [intros s r s' H | intros p s r s' H]);
    cbn [stmt_fn expr_fn] in H; try discriminate.
  - eapply c_run_stmt_chain; eauto.
  - eapply c_run_expr_chain; eauto.
Qed.

Lemma c_program_loop cfg fuel n : forall acc,
  cspec (fun r => Forall nps acc -> Forall nps r) (program_loop cfg fuel n acc).
Proof.
  pose proof (proj1 (c_knot cfg fuel)) as Hs.
  induction n as [|n IH]; intros acc s r s' H; cbn [program_loop] in H; [discriminate|].
  cgo.
Qed.

Lemma parse_clean_compiles : forall cfg toks r, parse_tokens cfg toks = Some r ->
  pr_errors r = [] -> forall wc, r_panic (compile wc (pr_program r)) = false.
Proof.
  intros cfg toks r H Herr wc. unfold parse_tokens, parse_program_from in H.
  destruct (program_loop _ _ _ _ _) as [[stmts s1]|] eqn:E; [|discriminate].
  inversion H; subst; clear H. cbn [pr_errors pr_program] in *.
  apply c_program_loop in E. destruct E as [_ E].
  apply compile_nopanic. apply npb_program. apply E; [|constructor].
  unfold nerr at 1. rewrite Herr. cbn. lia.
Qed.

Print Assumptions parse_error_iff.
Print Assumptions parse_lists_ok.
Print Assumptions parse_error_ranges.
Print Assumptions parse_clean_compiles.
