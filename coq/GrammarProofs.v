(* GrammarProofs.v -- completeness of the default parser w.r.t. the token-level grammar
   specification of Grammar.v (C02).

   Proof shape.  Everything is proved in "partial correctness" form: IF the parser, run with
   some fuel on a state that reads the tokens of a tree accepted by the specification,
   returns a result, THEN that result is the tree, in the state advanced over exactly those
   tokens, with no other component of the state touched.  Totality (TotalProofs.parse_total)
   supplies the result for the fuel of parse_tokens.  No fuel monotonicity is needed.

   Expressions use a continuation form (the Pratt loop): whatever parsing the tokens of e
   from scratch returns, the loop started after having built e returns as well. *)
From Coq Require Import ZifyBool ZifyN ZifyNat Lia.
Require Import Base GoOps Token Tree Parser ParserSpec Grammar TotalProofs.
Require Import Gen.Tables.

(* ---------- token equality ---------- *)

Lemma strs_eqb_eq a : forall b, strs_eqb a b = true -> a = b.
Proof.
  induction a as [|x a IH]; intros [|y b] H; cbn [strs_eqb] in H; try discriminate; [reflexivity|].
  apply andb_true_iff in H as [H1 H2]. apply str_eqb_spec in H1. apply IH in H2. congruence.
Qed.

Lemma pos_eqb_eq a b : pos_eqb a b = true -> a = b.
Proof.
  destruct a as [l1 c1], b as [l2 c2]. unfold pos_eqb. cbn [pline pcol]. intro H.
  apply andb_true_iff in H as [H1 H2]. apply Z.eqb_eq in H1, H2. congruence.
Qed.

Lemma tok_eqb_eq a b : tok_eqb a b = true -> a = b.
Proof.
  destruct a as [a1 a2 a3 a4 a5 a6], b as [b1 b2 b3 b4 b5 b6]. unfold tok_eqb.
  cbn [t_type t_lit t_start t_end t_nl t_comments]. intro H.
  repeat (apply andb_true_iff in H as [H ?]).
  apply Z.eqb_eq in H.
  match goal with X : str_eqb _ _ = true |- _ => apply str_eqb_spec in X end.
  repeat match goal with X : pos_eqb _ _ = true |- _ => apply pos_eqb_eq in X end.
  match goal with X : Bool.eqb _ _ = true |- _ => apply Bool.eqb_prop in X end.
  match goal with X : strs_eqb _ _ = true |- _ => apply strs_eqb_eq in X end.
  congruence.
Qed.

Lemma eat_tok_inv t ts r : eat_tok t ts = Some r -> ts = t :: r.
Proof.
  destruct ts as [|t' ts]; cbn [eat_tok]; [discriminate|].
  destruct (tok_eqb t t') eqn:E; [|discriminate]. apply tok_eqb_eq in E. congruence.
Qed.

Lemma eat_inv ty ts t r : eat ty ts = Some (t, r) -> ts = t :: r /\ t_type t = ty.
Proof.
  destruct ts as [|t' ts]; cbn [eat]; [discriminate|].
  destruct (t_type t' =? ty) eqn:E; [|discriminate]. apply Z.eqb_eq in E.
  intro H. inversion H; subst. auto.
Qed.

Lemma m_ident_inv i ts r : m_ident i ts = Some r ->
  ts = id_tok i :: r /\ t_type (id_tok i) = T_IDENT /\ mk_ident (id_tok i) = i.
Proof.
  unfold m_ident, ident_ok. destruct (t_type (id_tok i) =? T_IDENT) eqn:E1; [|discriminate].
  destruct (str_eqb (id_value i) (t_lit (id_tok i))) eqn:E2; [|discriminate]. cbn [andb].
  intro H. apply eat_tok_inv in H. apply Z.eqb_eq in E1. apply str_eqb_spec in E2.
  repeat split; auto. destruct i as [it iv]. unfold mk_ident. cbn [id_tok id_value] in *. congruence.
Qed.

Lemma strs_eqb_refl a : strs_eqb a a = true.
Proof. induction a as [|x a IH]; cbn [strs_eqb]; [reflexivity|]. rewrite str_eqb_refl, IH. reflexivity. Qed.

Lemma tok_eqb_refl a : tok_eqb a a = true.
Proof.
  unfold tok_eqb, pos_eqb. rewrite !Z.eqb_refl, str_eqb_refl, Bool.eqb_reflx, strs_eqb_refl. reflexivity.
Qed.

Lemma m_ident_intro i r : t_type (id_tok i) = T_IDENT -> mk_ident (id_tok i) = i ->
  m_ident i (id_tok i :: r) = Some r.
Proof.
  intros H1 H2. unfold m_ident, ident_ok. rewrite H1. destruct i as [it iv].
  unfold mk_ident in H2. cbn [id_tok id_value] in *. injection H2 as H2. subst iv.
  rewrite str_eqb_refl. cbn [eat_tok andb]. rewrite Z.eqb_refl, tok_eqb_refl. reflexivity.
Qed.

(* ---------- the state view ---------- *)

(* the state whose window reads [c :: l] (padded with the lexer's end token), all other
   components taken from [x] *)
Definition St (x : pstate) (c : token) (l : list token) : pstate :=
  mkps c (hd (ps_eof x) l) (tl l) (ps_eof x) (ps_errors x) (ps_ctx x) (ps_cep x) (ps_log x).

Lemma next_St x c p l : ps_next (St x c (p :: l)) = St x p l.
Proof. destruct l; reflexivity. Qed.
Lemma cur_St x c l : ps_cur (St x c l) = c. Proof. reflexivity. Qed.
Lemma peek_St x c p l : ps_peek (St x c (p :: l)) = p. Proof. reflexivity. Qed.
Lemma errors_St x c l : ps_errors (St x c l) = ps_errors x. Proof. reflexivity. Qed.
Lemma push_St x c l k : push_ctx (St x c l) k = St (push_ctx x k) c l. Proof. reflexivity. Qed.
Lemma pop_push_St x c l k : pop_ctx (St (push_ctx x k) c l) = St x c l.
Proof.
  unfold pop_ctx, push_ctx, set_ctx, St. cbn [ps_cur ps_peek ps_rest ps_eof ps_errors ps_ctx ps_cep ps_log].
  rewrite removelast_last. reflexivity.
Qed.
Lemma peek_is_St x c p l ty : peek_is (St x c (p :: l)) ty = (t_type p =? ty). Proof. reflexivity. Qed.
Lemma cur_is_St x c l ty : cur_is (St x c l) ty = (t_type c =? ty). Proof. reflexivity. Qed.

Lemma expect_St x c p l ty : t_type p = ty -> expect (St x c (p :: l)) ty = (true, St x p l).
Proof. intro H. unfold expect. rewrite peek_is_St, H, Z.eqb_refl, next_St. reflexivity. Qed.

Arguments St : simpl never.

(* ---------- the tables of the default configuration ---------- *)

Definition INF : Z := 100.

Lemma prec_default ty : precedence_of cfg_default ty =
  match assoc_opt parser_precedences ty with Some p => p | None => P_LOWEST end.
Proof. reflexivity. Qed.

Lemma infix_default ty : infix_lookup cfg_default ty =
  match assoc_opt infix_table ty with Some h => Some (IK_Builtin h) | None => None end.
Proof. reflexivity. Qed.

Lemma prec_range ty : 1 <= precedence_of cfg_default ty <= 12.
Proof.
  rewrite prec_default. unfold parser_precedences. cbn [assoc_opt].
  repeat match goal with |- context [if ?b then _ else _] => destruct b; [vm_compute; split; discriminate|] end.
  vm_compute; split; discriminate.
Qed.

(* closed evaluation of the table look-ups and comparisons on constants *)
Ltac ev_goal :=
  repeat match goal with
  | |- context [Z.eqb ?a ?b] =>
      let v := eval vm_compute in (Z.eqb a b) in
      match v with true => idtac | false => idtac end; change (Z.eqb a b) with v
  | |- context [Z.ltb ?a ?b] =>
      let v := eval vm_compute in (Z.ltb a b) in
      match v with true => idtac | false => idtac end; change (Z.ltb a b) with v
  | |- context [Z.leb ?a ?b] =>
      let v := eval vm_compute in (Z.leb a b) in
      match v with true => idtac | false => idtac end; change (Z.leb a b) with v
  | |- context [assoc_opt prefix_table ?a] =>
      let v := eval vm_compute in (assoc_opt prefix_table a) in
      match v with Some _ => idtac | None => idtac end; change (assoc_opt prefix_table a) with v
  | |- context [infix_lookup cfg_default ?a] =>
      let v := eval vm_compute in (infix_lookup cfg_default a) in
      match v with Some _ => idtac | None => idtac end; change (infix_lookup cfg_default a) with v
  | |- context [precedence_of cfg_default ?a] =>
      let v := eval vm_compute in (precedence_of cfg_default a) in
      match v with Zpos _ => idtac end; change (precedence_of cfg_default a) with v
  | |- context [binop_level ?a] =>
      let v := eval vm_compute in (binop_level a) in
      match v with Some _ => idtac | None => idtac end; change (binop_level a) with v
  end.

Ltac ev_in H :=
  repeat match type of H with
  | context [Z.eqb ?a ?b] =>
      let v := eval vm_compute in (Z.eqb a b) in
      match v with true => idtac | false => idtac end; change (Z.eqb a b) with v in H
  | context [Z.ltb ?a ?b] =>
      let v := eval vm_compute in (Z.ltb a b) in
      match v with true => idtac | false => idtac end; change (Z.ltb a b) with v in H
  | context [Z.leb ?a ?b] =>
      let v := eval vm_compute in (Z.leb a b) in
      match v with true => idtac | false => idtac end; change (Z.leb a b) with v in H
  | context [assoc_opt prefix_table ?a] =>
      let v := eval vm_compute in (assoc_opt prefix_table a) in
      match v with Some _ => idtac | None => idtac end; change (assoc_opt prefix_table a) with v in H
  | context [infix_lookup cfg_default ?a] =>
      let v := eval vm_compute in (infix_lookup cfg_default a) in
      match v with Some _ => idtac | None => idtac end; change (infix_lookup cfg_default a) with v in H
  | context [precedence_of cfg_default ?a] =>
      let v := eval vm_compute in (precedence_of cfg_default a) in
      match v with Zpos _ => idtac end; change (precedence_of cfg_default a) with v in H
  | context [binop_level ?a] =>
      let v := eval vm_compute in (binop_level a) in
      match v with Some _ => idtac | None => idtac end; change (binop_level a) with v in H
  end.

(* binary operators *)
Lemma binop_facts ty lv : binop_level ty = Some lv ->
  precedence_of cfg_default ty = lv /\
  infix_lookup cfg_default ty = Some (IK_Builtin IH_ParseBinaryExpression) /\
  3 <= lv <= 8 /\ ty <> T_SEMICOLON /\ ty <> T_INCREMENT /\ ty <> T_DECREMENT.
Proof.
  unfold binop_level.
  repeat match goal with
  | |- context [?a =? ?b] =>
      destruct (Z.eqb_spec a b);
      [subst ty; cbn [orb]; intro H; inversion H; subst lv; vm_compute;
       repeat split; congruence|]
  end.
  cbn [orb]. discriminate.
Qed.

(* ---------- where the Pratt loop stops ---------- *)

Notation SF f := (stmt_fn cfg_default f).
Notation EF f := (expr_fn cfg_default f).
Notation RL f n := (remaining_loop cfg_default (expr_fn cfg_default f) f n).
Notation PP f := (parse_prefix_expression cfg_default (stmt_fn cfg_default f) (expr_fn cfg_default f) f).

(* the loop running at level [lvl] does not consume [t] *)
Definition stops (lvl : Z) (t : token) : bool :=
  (t_type t =? T_SEMICOLON) || (precedence_of cfg_default (t_type t) <=? lvl)
  || (t_nl t && ((t_type t =? T_INCREMENT) || (t_type t =? T_DECREMENT))).

Lemma stops_mono a b t : a <= b -> stops a t = true -> stops b t = true.
Proof. unfold stops. intros Hab H. lia. Qed.

Lemma stops_INF t : stops INF t = true.
Proof. unfold stops, INF. pose proof (prec_range (t_type t)). lia. Qed.

Lemma RL_stop f n left prec x c t l : stops prec t = true ->
  RL f (S n) left prec (St x c (t :: l)) = Some (left, St x c (t :: l)).
Proof.
  intro H. cbn [remaining_loop]. unfold peek_precedence. rewrite !peek_is_St, peek_St.
  unfold stops in H.
  destruct (t_type t =? T_SEMICOLON); [reflexivity|]. cbn [negb andb orb] in *.
  destruct (prec <? precedence_of cfg_default (t_type t)) eqn:E; [|reflexivity].
  replace (precedence_of cfg_default (t_type t) <=? prec) with false in H by lia.
  cbn [orb] in H. rewrite H. reflexivity.
Qed.

Lemma RL_0 f left prec s : RL f 0 left prec s = None.
Proof. reflexivity. Qed.

(* ---------- need / follow ---------- *)

(* the loop must run below this level for the root of e to be built *)
Definition need (e : expr) : Z :=
  match e with
  | EAssign _ _ _ | ECompound _ _ _ _ => 2
  | EBinary t _ _ _ => match binop_level (t_type t) with Some l => l | None => 0 end
  | EPostfix _ _ _ => 10
  | ECall _ _ _ | EMember _ _ _ _ => 11
  | _ => INF
  end.

(* the loop running at this level must stop at the token that follows e *)
Definition follow (e : expr) : Z :=
  match e with
  | EAssign _ _ _ | ECompound _ _ _ _ => 1
  | EBinary t _ _ _ => match binop_level (t_type t) with Some l => l | None => 0 end
  | EUnary _ _ _ => 9
  | _ => INF
  end.

Lemma level_nf e : 3 <= level e -> level e <= need e /\ level e <= follow e.
Proof.
  destruct e; cbn [level need follow]; unfold L_ASSIGN, L_UNARY, L_POSTFIX, L_LHS, L_PRIMARY, INF; lia.
Qed.

Lemma need_ge2 e : wf_expr e = true -> 2 <= need e.
Proof.
  destruct e; cbn [need wf_expr]; unfold INF; try lia.
  destruct (binop_level (t_type t)) as [lv|] eqn:E; [|discriminate].
  apply binop_facts in E. lia.
Qed.

Lemma follow_ge1 e : wf_expr e = true -> 1 <= follow e.
Proof.
  destruct e; cbn [follow wf_expr]; unfold INF; try lia.
  destruct (binop_level (t_type t)) as [lv|] eqn:E; [|discriminate].
  apply binop_facts in E. lia.
Qed.

Lemma unary_need r : L_UNARY <= level r -> 9 < need r.
Proof.
  destruct r; cbn [level need]; unfold L_ASSIGN, L_UNARY, L_POSTFIX, L_LHS, L_PRIMARY, INF; try lia.
  destruct (binop_level (t_type t)) as [lv|] eqn:E; [|lia].
  apply binop_facts in E. lia.
Qed.

Lemma assignable_nf l : assignable l = true -> 11 <= need l /\ follow l = INF.
Proof. destruct l; cbn [assignable need follow]; unfold INF; try discriminate; intros; split; try reflexivity; lia. Qed.

(* ---------- inverting the matcher ---------- *)

Ltac minv H :=
  repeat match type of H with
  | None = Some _ => discriminate H
  | (if ?b then _ else _) = Some _ => let E := fresh "E" in destruct b eqn:E
  | (match ?x with _ => _ end) = Some _ =>
      let T := type of x in
      match T with
      | option _ => let E := fresh "E" in destruct x as [?|] eqn:E
      | prod _ _ => destruct x
      end
  end.

Lemma enil_match {A} (v : expr) (X Y : A) :
  match v with ENil => X | _ => Y end = if is_enil v then X else Y.
Proof. destruct v; reflexivity. Qed.

Lemma snil_match {A} (v : stmt) (X Y : A) :
  match v with SNil => X | _ => Y end = if is_snil v then X else Y.
Proof. destruct v; reflexivity. Qed.

Lemma m_expr_nil e : m_expr e [] = None.
Proof.
  induction e; cbn [m_expr m_ident eat_tok eat]; rewrite ?IHe, ?IHe1, ?IHe2;
    repeat match goal with |- context [if ?b then _ else _] => destruct b end; try reflexivity.
  unfold m_ident. destruct (ident_ok i); reflexivity.
Qed.

(* normalise boolean facts and matcher facts in the context *)
Ltac tinv :=
  repeat match goal with
  | H : andb _ _ = true |- _ => apply andb_true_iff in H; destruct H
  | H : orb _ _ = false |- _ => apply orb_false_iff in H; destruct H
  | H : negb _ = true |- _ => apply negb_true_iff in H
  | H : negb _ = false |- _ => apply negb_false_iff in H
  | H : (_ =? _) = true |- _ => apply Z.eqb_eq in H
  | H : str_eqb _ _ = true |- _ => apply str_eqb_spec in H
  | H : tok_eqb _ _ = true |- _ => apply tok_eqb_eq in H
  | H : Bool.eqb _ _ = true |- _ => apply Bool.eqb_prop in H
  | H : eat_tok _ _ = Some _ |- _ => apply eat_tok_inv in H
  | H : eat _ _ = Some (_, _) |- _ => apply eat_inv in H; destruct H
  | H : eat _ _ = Some ?p |- _ => destruct p
  | H : m_ident _ _ = Some _ |- _ => apply m_ident_inv in H; destruct H as (H & ? & ?)
  | H : Some _ = Some _ |- _ => injection H as H
  | H : _ :: _ = _ :: _ |- _ => injection H as ? H
  | H : ?x = _ :: _ |- _ => is_var x; subst x
  | H : _ :: _ = ?x |- _ => is_var x; subst x
  | H : ?x = _ |- _ => is_var x; subst x
  | H : _ = ?x |- _ => is_var x; subst x
  end.

Definition expr_start (ty : Z) : bool :=
  match assoc_opt prefix_table ty with Some _ => true | None => false end.

Lemma m_expr_start e : forall c l r, m_expr e (c :: l) = Some r -> wf_expr e = true ->
  expr_start (t_type c) = true.
Proof.
  induction e; intros c l r H W; cbn [m_expr wf_expr] in H, W; try discriminate.
  all: minv H; tinv.
  all: try (match goal with Ht : t_type _ = _ |- _ => rewrite Ht end; reflexivity).
  all: try (match goal with Ht : t_type ?t = _ |- expr_start (t_type ?t) = true => rewrite Ht end; reflexivity).
  all: try (eapply IHe; eassumption).
  all: try (eapply IHe1; eassumption).
  all: repeat match goal with H : orb _ _ = true |- _ => apply orb_true_iff in H; destruct H as [H|H] end; tinv.
  all: match goal with Ht : t_type ?t = _ |- expr_start (t_type ?t) = true => rewrite Ht end; reflexivity.
Qed.

Lemma expr_start_neq ty : expr_start ty = true ->
  ty <> T_SEMICOLON /\ ty <> T_RPAREN /\ ty <> T_RBRACKET /\ ty <> T_RBRACE /\ ty <> T_EOF /\
  ty <> T_ELSE /\ ty <> T_MINUS_ASSIGN /\ ty <> T_LET /\ ty <> T_COMMA /\ ty <> T_COLON.
Proof.
  intro H. repeat split; intro E; subst ty; vm_compute in H; discriminate.
Qed.


(* ---------- unfolding the knot at the default configuration ---------- *)

Lemma EF_S f prec s : EF (S f) prec s = (do (left, s1) <- PP f s; RL f f left prec s1).
Proof. reflexivity. Qed.

Lemma SF_S f s : SF (S f) s = base_parse_statement cfg_default (SF f) (EF f) f s.
Proof. reflexivity. Qed.

Lemma PP_eq f x c l : PP f (St x c l) =
  match assoc_opt prefix_table (t_type c) with
  | Some h => prefix_handler_run cfg_default (SF f) (EF f) f h (St x c l)
  | None => Some (ENil, add_error (St x c l) EK_UNEXPECTED 0)
  end.
Proof. reflexivity. Qed.

(* ---------- the statements proved by induction on the size of the tree ---------- *)

Definition Pe (e : expr) : Prop :=
  forall c l t rest, m_expr e (c :: l) = Some (t :: rest) -> wf_expr e = true ->
  forall x prec f r, prec < need e -> stops (follow e) t = true ->
    EF f prec (St x c l) = Some r ->
    exists f' n c', RL f' n e prec (St x c' (t :: rest)) = Some r.

Definition Ps (s : stmt) : Prop :=
  forall next c l t rest, m_stmt s next (c :: l) = Some (t :: rest) -> wf_stmt s = true ->
  t_type t <> T_MINUS_ASSIGN -> (ends_in_open_if s = true -> t_type t <> T_ELSE) ->
  forall x f r, SF f (St x c l) = Some r -> exists c', r = (s, St x c' (t :: rest)).

Lemma Pe_closed e : Pe e -> forall c l t rest, m_expr e (c :: l) = Some (t :: rest) -> wf_expr e = true ->
  forall x prec f r, prec < need e -> stops (follow e) t = true -> stops prec t = true ->
  EF f prec (St x c l) = Some r -> exists c', r = (e, St x c' (t :: rest)).
Proof.
  intros HP c l t rest Hm Hw x prec f r Hn Hf Hs HE.
  destruct (HP c l t rest Hm Hw x prec f r Hn Hf HE) as (f' & n & c' & HR).
  destruct n; [discriminate|]. rewrite RL_stop in HR by assumption.
  inversion HR. eauto.
Qed.

Lemma Pe_lowest e : Pe e -> forall c l t rest, m_expr e (c :: l) = Some (t :: rest) -> wf_expr e = true ->
  forall x f r, stops 1 t = true ->
  EF f P_LOWEST (St x c l) = Some r -> exists c', r = (e, St x c' (t :: rest)).
Proof.
  intros HP c l t rest Hm Hw x f r Hs HE.
  eapply Pe_closed; try eassumption.
  - pose proof (need_ge2 e Hw). unfold P_LOWEST. lia.
  - eapply stops_mono; [|eassumption]. apply follow_ge1; assumption.
Qed.

Ltac open_EF HE :=
  match type of HE with
  | expr_fn cfg_default ?f _ _ = Some _ =>
      destruct f as [|f]; [discriminate HE|]; rewrite EF_S, PP_eq in HE
  end.

Ltac rwt_in HE :=
  repeat match goal with Ht : t_type ?t = _ |- _ => rewrite Ht in HE end.

Lemma Pe_atoms e : (match e with EIdent _ | EInt _ | EFloat _ | EString _ _ | ERaw _ _ | EBool _ _ | ENull _ => True | _ => False end) -> Pe e.
Proof.
  intros He c l t rest Hm Hw x prec f r Hn Hf HE.
  destruct e; try contradiction; cbn [m_expr] in Hm; minv Hm; tinv; open_EF HE.
  all: repeat match goal with H : orb _ _ = true |- _ => apply orb_true_iff in H; destruct H as [H|H] end; tinv.
  all: rwt_in HE; ev_in HE; cbn [prefix_handler_run] in HE.
  all: rewrite ?cur_St in HE.
  all: try match goal with H : go_int_ok _ = true |- _ => rewrite H in HE end.
  all: try match goal with H : go_float_ok _ = true |- _ => rewrite H in HE end.
  all: try match goal with H : mk_ident _ = _ |- _ => rewrite H in HE end.
  all: rwt_in HE; ev_in HE.
  all: try (do 3 eexists; exact HE).
  all: match goal with H : t_type _ = _ |- _ => rewrite H end; ev_goal; do 3 eexists; exact HE.
Qed.


(* ---------- one iteration of the Pratt loop ---------- *)

Lemma RL_step f n left prec x c t0 l h :
  t_type t0 <> T_SEMICOLON -> prec < precedence_of cfg_default (t_type t0) ->
  (t_nl t0 && ((t_type t0 =? T_INCREMENT) || (t_type t0 =? T_DECREMENT))) = false ->
  assoc_opt infix_table (t_type t0) = Some h ->
  RL f (S n) left prec (St x c (t0 :: l)) =
  (do (left', s1) <- infix_handler_run cfg_default (EF f) f h left (St x t0 l); RL f n left' prec s1).
Proof.
  intros H1 H2 H3 H4. cbn [remaining_loop]. unfold peek_precedence, parse_infix_expression.
  rewrite !peek_is_St, peek_St, next_St, infix_default, H4, H3.
  apply Z.eqb_neq in H1. apply Z.ltb_lt in H2. rewrite H1, H2. reflexivity.
Qed.

Lemma RL_binary f n left prec x c t0 c2 l2 lv :
  binop_level (t_type t0) = Some lv -> prec < lv ->
  RL f (S n) left prec (St x c (t0 :: c2 :: l2)) =
  (do (r, s1) <- EF f lv (St x c2 l2); RL f n (EBinary t0 left (t_lit t0) r) prec s1).
Proof.
  intros Hb Hp. destruct (binop_facts _ _ Hb) as (H1 & H2 & H3 & H4 & H5 & H6).
  rewrite infix_default in H2.
  destruct (assoc_opt infix_table (t_type t0)) as [h|] eqn:Eh; [|discriminate].
  injection H2 as H2. subst h.
  rewrite (RL_step _ _ _ _ _ _ _ _ IH_ParseBinaryExpression); try assumption; try lia.
  cbn [infix_handler_run]. unfold parse_binary_expression, current_precedence.
  rewrite cur_St, next_St, H1. destruct (EF f lv (St x c2 l2)) as [[r s1]|]; reflexivity.
Qed.

Ltac rl_simple Ht :=
  rewrite Ht; ev_goal; first [lia | discriminate | reflexivity | apply andb_false_r].

Lemma RL_assign f n left prec x c t0 c2 l2 :
  t_type t0 = T_ASSIGN -> prec < 2 ->
  RL f (S n) left prec (St x c (t0 :: c2 :: l2)) =
  (do (v, s1) <- EF f P_LOWEST (St x c2 l2); RL f n (EAssign t0 left v) prec s1).
Proof.
  intros Ht Hp.
  rewrite (RL_step _ _ _ _ _ _ _ _ IH_ParseAssignmentExpression); try (rl_simple Ht).
  cbn [infix_handler_run]. unfold parse_expression. rewrite cur_St, next_St.
  destruct (EF f P_LOWEST (St x c2 l2)) as [[r s1]|]; reflexivity.
Qed.

Lemma RL_compound f n left prec x c t0 c2 l2 :
  t_type t0 = T_PLUS_ASSIGN \/ t_type t0 = T_MINUS_ASSIGN -> prec < 2 ->
  RL f (S n) left prec (St x c (t0 :: c2 :: l2)) =
  (do (v, s1) <- EF f P_LOWEST (St x c2 l2);
   RL f n (ECompound t0 left (if t_type t0 =? T_PLUS_ASSIGN then [43%N] else [45%N]) v) prec s1).
Proof.
  intros [Ht|Ht] Hp.
  all: rewrite (RL_step _ _ _ _ _ _ _ _ IH_ParseCompoundAssignmentExpression); try (rl_simple Ht).
  all: cbn [infix_handler_run]; unfold parse_expression; rewrite cur_St, next_St, Ht; ev_goal.
  all: destruct (EF f P_LOWEST (St x c2 l2)) as [[r s1]|]; reflexivity.
Qed.

Lemma RL_postfix f n left prec x c t0 l :
  t_type t0 = T_INCREMENT \/ t_type t0 = T_DECREMENT -> t_nl t0 = false -> prec < 10 ->
  RL f (S n) left prec (St x c (t0 :: l)) = RL f n (EPostfix t0 left (t_lit t0)) prec (St x t0 l).
Proof.
  intros [Ht|Ht] Hnl Hp.
  all: rewrite (RL_step _ _ _ _ _ _ _ _ IH_ParsePostfixExpression); try (rl_simple Ht).
  all: try (rewrite Hnl; reflexivity).
  all: cbn [infix_handler_run]; rewrite cur_St; reflexivity.
Qed.

Lemma RL_call f n left prec x c t0 l :
  t_type t0 = T_LPAREN -> prec < 11 ->
  RL f (S n) left prec (St x c (t0 :: l)) =
  (do (args, s1) <- parse_expression_list (EF f) f T_RPAREN (St x t0 l);
   RL f n (ECall t0 left args) prec s1).
Proof.
  intros Ht Hp.
  rewrite (RL_step _ _ _ _ _ _ _ _ IH_ParseCallExpression); try (rl_simple Ht).
  cbn [infix_handler_run]. rewrite cur_St.
  destruct (parse_expression_list (EF f) f T_RPAREN (St x t0 l)) as [[r s1]|]; reflexivity.
Qed.

Lemma RL_dot f n left prec x c t0 c2 l2 :
  t_type t0 = T_DOT -> prec < 12 ->
  RL f (S n) left prec (St x c (t0 :: c2 :: l2)) =
  (do (p, s1) <- EF f P_MEMBER (St x c2 l2); RL f n (EMember t0 left p false) prec s1).
Proof.
  intros Ht Hp.
  rewrite (RL_step _ _ _ _ _ _ _ _ IH_ParseMemberExpression); try (rl_simple Ht).
  cbn [infix_handler_run]. rewrite cur_St, next_St.
  destruct (EF f P_MEMBER (St x c2 l2)) as [[r s1]|]; reflexivity.
Qed.

Lemma RL_index f n left prec x c t0 c2 l2 :
  t_type t0 = T_LBRACKET -> prec < 12 ->
  RL f (S n) left prec (St x c (t0 :: c2 :: l2)) =
  (do (p, s1) <- EF f P_LOWEST (St x c2 l2);
   let '(ok, s2) := expect s1 T_RBRACKET in
   if negb ok then RL f n ENil prec s2 else RL f n (EMember t0 left p true) prec s2).
Proof.
  intros Ht Hp.
  rewrite (RL_step _ _ _ _ _ _ _ _ IH_ParseComputedMemberExpression); try (rl_simple Ht).
  cbn [infix_handler_run]. unfold parse_expression. rewrite cur_St, next_St.
  destruct (EF f P_LOWEST (St x c2 l2)) as [[r s1]|]; [|reflexivity].
  destruct (expect s1 T_RBRACKET) as [[|] s2]; reflexivity.
Qed.

(* ---------- expression cases ---------- *)

Ltac innermost E :=
  match E with
  | match ?E' with _ => _ end => innermost E'
  | _ => E
  end.

Ltac dparse HR :=
  match type of HR with
  | (match ?E with _ => _ end) = Some _ =>
      let E' := innermost E in
      let a := fresh "a" in let s := fresh "s" in let Ea := fresh "Ea" in
      destruct E' as [[a s]|] eqn:Ea; [|discriminate HR]; cbv beta iota in HR
  end.

Ltac stops_tac :=
  unfold stops;
  match goal with Ht : t_type ?t = _ |- context [t_type ?t] => rewrite Ht end; reflexivity.

Ltac nonnil l H :=
  destruct l as [|? ?]; [rewrite m_expr_nil in H; discriminate H|].

Ltac nn :=
  repeat match goal with
  | H : m_expr _ ?l = Some _ |- _ =>
      is_var l; destruct l as [|? ?]; [rewrite m_expr_nil in H; discriminate H|]
  end.

Lemma Pe_binary t l op r : Pe l -> Pe r -> Pe (EBinary t l op r).
Proof.
  intros Hl Hr c l0 t1 rest Hm Hw x prec f res Hn Hf HE.
  cbn [m_expr wf_expr need follow] in *.
  destruct (binop_level (t_type t)) as [lv|] eqn:Eb; [|discriminate].
  minv Hm. tinv. nonnil l2 Hm.
  destruct (binop_facts _ _ Eb) as (B1 & _ & B3 & _).
  assert (N1 : lv <= need l /\ lv <= follow l) by (pose proof (level_nf l); lia).
  assert (N2 : lv < need r /\ lv <= follow r) by (pose proof (level_nf r); lia).
  eapply Hl in HE; [|eassumption|assumption|lia|].
  2:{ unfold stops. rewrite B1. lia. }
  destruct HE as (f' & n & c' & HR). destruct n; [discriminate|].
  rewrite (RL_binary _ _ _ _ _ _ _ _ _ lv) in HR by (assumption || lia).
  dparse HR. eapply (Pe_closed r Hr) in Ea; [|eassumption|assumption|lia| |assumption].
  2:{ eapply stops_mono; [|eassumption]. lia. }
  destruct Ea as (c'' & Ea). inversion Ea; subst. eauto.
Qed.

Lemma Pe_assign t l v : Pe l -> Pe v -> Pe (EAssign t l v).
Proof.
  intros Hl Hv c l0 t1 rest Hm Hw x prec f res Hn Hf HE.
  cbn [m_expr wf_expr need follow] in *.
  minv Hm. tinv. nonnil l2 Hm.
  destruct (assignable_nf l) as [A1 A2]; [assumption|].
  eapply Hl in HE; [|eassumption|assumption|lia|rewrite A2; apply stops_INF].
  destruct HE as (f' & n & c' & HR). destruct n; [discriminate|].
  rewrite RL_assign in HR by (assumption || lia).
  dparse HR. eapply (Pe_lowest v Hv) in Ea; [|eassumption|assumption|assumption].
  destruct Ea as (c'' & Ea). inversion Ea; subst. eauto.
Qed.

Lemma Pe_compound t l op v : Pe l -> Pe v -> Pe (ECompound t l op v).
Proof.
  intros Hl Hv c l0 t1 rest Hm Hw x prec f res Hn Hf HE.
  cbn [m_expr wf_expr need follow] in *.
  assert (Ht : (t_type t = T_PLUS_ASSIGN \/ t_type t = T_MINUS_ASSIGN) /\
               op = (if t_type t =? T_PLUS_ASSIGN then [43%N] else [45%N])).
  { destruct (t_type t =? T_PLUS_ASSIGN) eqn:E1; [|destruct (t_type t =? T_MINUS_ASSIGN) eqn:E2; [|discriminate]].
    all: minv Hm; tinv; auto. }
  destruct Ht as [Ht Hop].
  assert (Hm' : exists l1, m_expr l (c :: l0) = Some (t :: l1) /\ m_expr v l1 = Some (t1 :: rest)).
  { destruct (t_type t =? T_PLUS_ASSIGN); [|destruct (t_type t =? T_MINUS_ASSIGN); [|discriminate]].
    all: minv Hm; tinv; eauto. }
  clear Hm. destruct Hm' as (l1 & Hm1 & Hm2). tinv. nonnil l1 Hm2.
  destruct (assignable_nf l) as [A1 A2]; [assumption|].
  eapply Hl in HE; [|eassumption|assumption|lia|rewrite A2; apply stops_INF].
  destruct HE as (f' & n & c' & HR). destruct n; [discriminate|].
  rewrite RL_compound in HR by (assumption || lia).
  dparse HR. eapply (Pe_lowest v Hv) in Ea; [|eassumption|assumption|assumption].
  destruct Ea as (c'' & Ea). inversion Ea; subst. eauto.
Qed.

Lemma Pe_postfix t l op : Pe l -> Pe (EPostfix t l op).
Proof.
  intros Hl c l0 t1 rest Hm Hw x prec f res Hn Hf HE.
  cbn [m_expr wf_expr need follow] in *.
  minv Hm. tinv.
  destruct (assignable_nf l) as [A1 A2]; [assumption|].
  eapply Hl in HE; [|eassumption|assumption|lia|rewrite A2; apply stops_INF].
  destruct HE as (f' & n & c' & HR). destruct n; [discriminate|].
  rewrite RL_postfix in HR by (assumption || lia).
  eauto.
Qed.

Ltac osplit :=
  repeat match goal with H : orb _ _ = true |- _ => apply orb_true_iff in H; destruct H as [H|H] end.

Ltac open_prefix HE :=
  open_EF HE; rwt_in HE; ev_in HE; cbn [prefix_handler_run] in HE.

Lemma Pe_unary t op r : Pe r -> Pe (EUnary t op r).
Proof.
  intros Hr c l0 t1 rest Hm Hw x prec f res Hn Hf HE.
  cbn [m_expr wf_expr need follow] in *.
  minv Hm. tinv. nn.
  assert (N : 9 < need r /\ 9 <= follow r).
  { destruct ((t_type t =? T_INCREMENT) || (t_type t =? T_DECREMENT)).
    - destruct (assignable_nf r) as [A1 A2]; [assumption|]. rewrite A2. unfold INF. lia.
    - pose proof (unary_need r). pose proof (level_nf r). unfold L_UNARY in *. lia. }
  osplit; tinv.
  all: open_prefix HE; unfold parse_unary_expression in HE; rewrite cur_St, next_St in HE.
  all: dparse HE; eapply (Pe_closed r Hr) in Ea; [|eassumption|assumption|unfold P_UNARY; lia| |assumption];
    [|eapply stops_mono; [|eassumption]; lia].
  all: destruct Ea as (c'' & Ea); inversion Ea; subst; eauto.
Qed.

Lemma Pe_group t e rp : Pe e -> Pe (EGroup t e rp).
Proof.
  intros He c l0 t1 rest Hm Hw x prec f res Hn Hf HE.
  cbn [m_expr wf_expr need follow] in *.
  minv Hm. tinv. nn.
  open_prefix HE. unfold parse_grouped_expression, parse_expression in HE.
  rewrite cur_St, next_St in HE.
  dparse HE. eapply (Pe_lowest e He) in Ea; [|eassumption|assumption|stops_tac].
  destruct Ea as (c'' & Ea). inversion Ea; subst.
  rewrite expect_St in HE by assumption. cbn [negb] in HE. rewrite cur_St in HE. eauto.
Qed.

Lemma level_follow_INF e : 10 <= level e -> follow e = INF.
Proof.
  destruct e; cbn [level follow]; unfold L_ASSIGN, L_UNARY, L_POSTFIX, L_LHS, L_PRIMARY, INF; try lia.
  destruct (binop_level (t_type t)) as [lv|] eqn:E; [|lia].
  apply binop_facts in E. lia.
Qed.

Lemma stops_12 t : stops P_MEMBER t = true.
Proof. unfold stops, P_MEMBER. pose proof (prec_range (t_type t)). lia. Qed.

Lemma Pe_member t o p computed : Pe o -> Pe p -> Pe (EMember t o p computed).
Proof.
  intros Ho Hp c l0 t1 rest Hm Hw x prec f res Hn Hf HE.
  cbn [m_expr wf_expr need follow] in *. unfold L_LHS in *.
  destruct computed.
  - minv Hm. tinv. nn.
    assert (N : 11 <= need o) by (pose proof (level_nf o); lia).
    eapply Ho in HE; [|eassumption|assumption|lia|].
    2:{ rewrite level_follow_INF by lia. apply stops_INF. }
    destruct HE as (f' & n & c' & HR). destruct n; [discriminate|].
    rewrite RL_index in HR by (assumption || lia).
    dparse HR. eapply (Pe_lowest p Hp) in Ea; [|eassumption|assumption|stops_tac].
    destruct Ea as (c'' & Ea). inversion Ea; subst.
    rewrite expect_St in HR by assumption. cbn [negb] in HR. eauto.
  - minv Hm. destruct p; try discriminate. tinv.
    assert (N : 11 <= need o) by (pose proof (level_nf o); lia).
    eapply Ho in HE; [|eassumption|assumption|lia|].
    2:{ rewrite level_follow_INF by lia. apply stops_INF. }
    destruct HE as (f' & n & c' & HR). destruct n; [discriminate|].
    rewrite RL_dot in HR by (assumption || lia).
    assert (Hmi : m_expr (EIdent i) (id_tok i :: t1 :: rest) = Some (t1 :: rest))
      by (cbn [m_expr]; apply m_ident_intro; assumption).
    dparse HR.
    eapply (Pe_closed (EIdent i) (Pe_atoms (EIdent i) I)) in Ea;
      [|exact Hmi|reflexivity|cbn [need]; unfold P_MEMBER, INF; lia|apply stops_INF|apply stops_12].
    destruct Ea as (c'' & Ea). inversion Ea; subst. eauto.
Qed.

(* ---------- expression lists ---------- *)

Definition m_tail (es : list expr) (l : list token) : option (list token) :=
  match es with
  | [] => Some l
  | _ => match eat T_COMMA l with Some (_, l') => m_exprs m_expr es l' | None => None end
  end.

Lemma m_exprs_cons e es ts :
  m_exprs m_expr (e :: es) ts = match m_expr e ts with Some r => m_tail es r | None => None end.
Proof. destruct es; cbn [m_exprs m_tail]; destruct (m_expr e ts); reflexivity. Qed.

Lemma m_tail_head es l t rest : m_tail es l = Some (t :: rest) -> stops 1 t = true ->
  exists t' l', l = t' :: l' /\ stops 1 t' = true.
Proof.
  destruct es as [|e es]; unfold m_tail.
  - intros H Hs. injection H as H. subst. eauto.
  - intros H Hs. minv H. tinv. eexists _, _. split; [reflexivity|stops_tac].
Qed.

Lemma ell_inv f end_ty : forall es n acc x c' l t rest r,
  (forall e, In e es -> Pe e) -> wf_exprs wf_expr es = true ->
  m_tail es l = Some (t :: rest) -> t_type t = end_ty -> end_ty <> T_COMMA -> stops 1 t = true ->
  expr_list_loop (EF f) n acc (St x c' l) = Some r ->
  exists c'', r = (acc ++ es, St x c'' (t :: rest)).
Proof.
  induction es as [|e es IH]; intros n acc x c' l t rest r HP Hw Hm Ht Hne Hs HL.
  - cbn [m_tail] in Hm. injection Hm as Hm. subst l.
    destruct n; [discriminate|]. cbn [expr_list_loop] in HL.
    rewrite peek_is_St, Ht in HL. apply Z.eqb_neq in Hne. rewrite Hne in HL.
    injection HL as HL. subst r. rewrite app_nil_r. eauto.
  - unfold m_tail in Hm. minv Hm. tinv. rewrite m_exprs_cons in Hm. minv Hm. nn.
    cbn [wf_exprs] in Hw. tinv.
    destruct n; [discriminate|]. cbn [expr_list_loop] in HL.
    rewrite peek_is_St in HL. rwt_in HL. ev_in HL. rewrite !next_St in HL. unfold parse_expression in HL.
    destruct (m_tail_head _ _ _ _ Hm Hs) as (t' & l' & -> & Hs').
    dparse HL. eapply (Pe_lowest e) in Ea; [|apply HP; left; reflexivity|eassumption|assumption|assumption].
    destruct Ea as (c'' & Ea). inversion Ea; subst.
    assert (HP' : forall e', In e' es -> Pe e') by (intros; apply HP; right; assumption).
    eapply (IH _ _ _ _ _ t rest _ HP' ltac:(assumption) Hm eq_refl Hne Hs) in HL.
    destruct HL as (c3 & HL). rewrite <- app_assoc in HL. eauto.
Qed.

Lemma pel_inv f end_ty es x c0 l t rest r :
  (forall e, In e es -> Pe e) -> wf_exprs wf_expr es = true ->
  m_exprs m_expr es l = Some (t :: rest) -> t_type t = end_ty ->
  end_ty = T_RPAREN \/ end_ty = T_RBRACKET ->
  parse_expression_list (EF f) f end_ty (St x c0 l) = Some r -> r = (es, St x t rest).
Proof.
  intros HP Hw Hm Ht Hend HL.
  assert (Hs : stops 1 t = true) by (unfold stops; rewrite Ht; destruct Hend as [-> | ->]; reflexivity).
  assert (Hne : end_ty <> T_COMMA) by (destruct Hend as [-> | ->]; discriminate).
  unfold parse_expression_list in HL. destruct es as [|e es].
  - cbn [m_exprs] in Hm. injection Hm as Hm. subst l.
    rewrite peek_is_St, Ht, Z.eqb_refl, next_St in HL. congruence.
  - rewrite m_exprs_cons in Hm. minv Hm. cbn [wf_exprs] in Hw. tinv.
    destruct l as [|c1 l1]; [rewrite m_expr_nil in E; discriminate|].
    pose proof (m_expr_start _ _ _ _ E H) as Hst. apply expr_start_neq in Hst.
    rewrite peek_is_St in HL.
    replace (t_type c1 =? t_type t) with false in HL
      by (symmetry; apply Z.eqb_neq; destruct Hend as [Hx|Hx]; rewrite Hx; tauto).
    rewrite next_St in HL. unfold parse_expression in HL.
    destruct (m_tail_head _ _ _ _ Hm Hs) as (t' & l' & -> & Hs').
    dparse HL. eapply (Pe_lowest e) in Ea; [|apply HP; left; reflexivity|eassumption|assumption|assumption].
    destruct Ea as (c'' & Ea). inversion Ea; subst.
    assert (HP' : forall e', In e' es -> Pe e') by (intros; apply HP; right; assumption).
    dparse HL. eapply (ell_inv f (t_type t) es _ _ _ _ _ t rest _ HP' ltac:(assumption) Hm eq_refl Hne Hs) in Ea0.
    destruct Ea0 as (c3 & Ea0). inversion Ea0; subst.
    rewrite expect_St in HL by reflexivity. cbn [app] in HL. congruence.
Qed.

Lemma Pe_call t fn args : Pe fn -> (forall a, In a args -> Pe a) -> Pe (ECall t fn args).
Proof.
  intros Hfn Hargs c l0 t1 rest Hm Hw x prec f res Hn Hf HE.
  cbn [m_expr wf_expr need follow] in *. unfold L_LHS in *.
  minv Hm. tinv.
  assert (N : 11 <= need fn) by (pose proof (level_nf fn); lia).
  eapply Hfn in HE; [|eassumption|assumption|lia|].
  2:{ rewrite level_follow_INF by lia. apply stops_INF. }
  destruct HE as (f' & n & c' & HR). destruct n; [discriminate|].
  rewrite RL_call in HR by (assumption || lia).
  dparse HR.
  eapply pel_inv in Ea; [|eassumption|eassumption|eassumption|eassumption|left; reflexivity].
  inversion Ea; subst. eauto.
Qed.

Lemma Pe_array t es rb : (forall a, In a es -> Pe a) -> Pe (EArray t es rb).
Proof.
  intros Hes c l0 t1 rest Hm Hw x prec f res Hn Hf HE.
  cbn [m_expr wf_expr need follow] in *.
  minv Hm. tinv.
  open_prefix HE. rewrite cur_St in HE.
  dparse HE.
  eapply pel_inv in Ea; [|eassumption|eassumption|eassumption|eassumption|right; reflexivity].
  inversion Ea; subst. rewrite cur_St in HE. eauto.
Qed.

(* ---------- object literals ---------- *)

Lemma obj_inv f : forall ps n acc x c l t rest r,
  ps <> [] ->
  (forall k v, In (k, v) ps -> Pe k /\ Pe v) -> wf_props wf_expr ps = true ->
  m_props m_expr ps (c :: l) = Some (t :: rest) -> t_type t = T_RBRACE ->
  object_loop (EF f) n acc (St x c l) = Some r ->
  exists c', r = (Some (acc ++ ps), St x c' (t :: rest)).
Proof.
  induction ps as [|[k v] ps IH]; intros n acc x c l t rest r Hne HP Hw Hm Ht HL; [congruence|].
  cbn [m_props] in Hm. cbn [wf_props] in Hw. minv Hm; tinv; nn.
  all: destruct (HP k v (or_introl eq_refl)) as [Pk Pv].
  all: destruct n; [discriminate|]; cbn [object_loop] in HL; unfold parse_expression in HL.
  all: dparse HL; eapply (Pe_lowest k Pk) in Ea; [|eassumption|assumption|stops_tac].
  all: destruct Ea as (c1 & Ea); inversion Ea; subst.
  all: rewrite expect_St in HL by assumption; cbn [negb] in HL; rewrite next_St in HL.
  all: dparse HL; eapply (Pe_lowest v Pv) in Ea0; [|eassumption|assumption|stops_tac].
  all: destruct Ea0 as (c2 & Ea0); inversion Ea0; subst.
  all: rewrite peek_is_St in HL; rwt_in HL; ev_in HL; cbn [negb] in HL.
  - injection HL as HL. eauto.
  - match goal with Hm : m_props m_expr _ ?l4 = Some _ |- _ =>
      destruct l4 as [|c3 l4];
      [destruct p as [k' v']; cbn [m_props] in Hm; rewrite m_expr_nil in Hm; minv Hm|];
      rewrite !next_St in HL;
      eapply (IH _ _ _ _ _ _ _ _ ltac:(discriminate)) in HL;
        [| intros; apply HP; right; assumption | assumption | exact Hm | assumption]
    end.
    destruct HL as (c4 & HL). rewrite <- app_assoc in HL. eauto.
Qed.

Lemma Pe_object t ps rb : (forall k v, In (k, v) ps -> Pe k /\ Pe v) -> Pe (EObject t ps rb).
Proof.
  intros Hps c l0 t1 rest Hm Hw x prec f res Hn Hf HE.
  cbn [m_expr wf_expr need follow] in *.
  destruct ps as [|[k v] ps].
  - minv Hm. tinv. open_prefix HE. unfold parse_object_literal in HE.
    rewrite peek_is_St, cur_St in HE. rwt_in HE. ev_in HE. rewrite next_St in HE. eauto.
  - minv Hm. tinv.
    assert (Hst : exists c2 l2, l = c2 :: l2 /\ t_type c2 <> T_RBRACE).
    { cbn [wf_props] in Hw.
      match goal with E2 : m_props _ _ _ = Some _ |- _ => cbn [m_props] in E2; minv E2; tinv end.
      all: match goal with Hk : m_expr ?k ?l = Some _, Hwk : wf_expr ?k = true |- exists _ _, ?l = _ /\ _ =>
        destruct l as [|c2 l2]; [rewrite m_expr_nil in Hk; discriminate|];
        pose proof (m_expr_start _ _ _ _ Hk Hwk) as Hst; apply expr_start_neq in Hst;
        eexists _, _; split; [reflexivity|tauto] end. }
    destruct Hst as (c2 & l2 & -> & Hst).
    open_prefix HE. unfold parse_object_literal in HE.
    rewrite peek_is_St, cur_St in HE. apply Z.eqb_neq in Hst. rewrite Hst in HE. rewrite next_St in HE.
    dparse HE.
    eapply (obj_inv f ((k, v) :: ps)) in Ea; [|discriminate|eassumption|eassumption|eassumption|assumption].
    destruct Ea as (c3 & Ea). inversion Ea; subst.
    rewrite expect_St in HE by assumption. cbn [negb app] in HE. rewrite cur_St in HE. eauto.
Qed.

(* ---------- statement ends ---------- *)

Lemma not_continues_stops t : continues_expression t = false -> stops 1 t = true.
Proof.
  intro H. unfold stops.
  destruct (precedence_of cfg_default (t_type t) <=? 1) eqn:E; [rewrite orb_true_r; reflexivity|].
  rewrite prec_default in E. unfold parser_precedences in E. cbn [assoc_opt] in E.
  unfold continues_expression in H.
  repeat match type of E with
  | context [t_type t =? ?K] =>
      let Ek := fresh "Ek" in
      destruct (t_type t =? K) eqn:Ek;
      [apply Z.eqb_eq in Ek; rewrite Ek in H |- *; ev_in H; ev_goal; cbn [orb andb negb] in H |- *;
       first [discriminate H | (apply negb_false_iff in H; rewrite H; reflexivity)]|]
  end.
  discriminate E.
Qed.

Lemma asi_expr_stops t : asi_after_expression t = true -> stops 1 t = true.
Proof.
  unfold asi_after_expression. intro H. osplit; tinv.
  - stops_tac.
  - stops_tac.
  - apply not_continues_stops. assumption.
Qed.

Lemma semi_stops t : t_type t = T_SEMICOLON -> stops 1 t = true.
Proof. intro. stops_tac. Qed.

Lemma not_continues_neq t : continues_expression t = false -> t_type t <> T_MINUS_ASSIGN.
Proof. intros H E. unfold continues_expression in H. rewrite E in H. vm_compute in H. discriminate. Qed.

Lemma asi_St_semi x c t l : t_type t = T_SEMICOLON ->
  expect_semicolon_asi cfg_default (St x c (t :: l)) = (true, St x t l).
Proof. intro H. unfold expect_semicolon_asi. rewrite peek_is_St, H, Z.eqb_refl, next_St. reflexivity. Qed.

Lemma asi_St_insert x c t l : t_type t <> T_SEMICOLON ->
  t_type t = T_EOF \/ t_type t = T_RBRACE \/ (t_nl t = true /\ t_type t <> T_MINUS_ASSIGN) ->
  expect_semicolon_asi cfg_default (St x c (t :: l)) = (true, St x c (t :: l)).
Proof.
  intros H1 H2. unfold expect_semicolon_asi, should_insert_semicolon. rewrite !peek_is_St, peek_St.
  apply Z.eqb_neq in H1. rewrite H1.
  destruct H2 as [H2|[H2|[H2 H3]]].
  - rewrite H2. reflexivity.
  - rewrite H2. reflexivity.
  - rewrite H2. cbn [negb]. unfold asi_switch_false. cbn [memZ]. apply Z.eqb_neq in H3. rewrite H3.
    destruct (t_type t =? T_EOF); [reflexivity|]. destruct (t_type t =? T_RBRACE); reflexivity.
Qed.

(* what a successful statement end looks like to the parser *)
Lemma m_end_inv asi next r t rest :
  m_end asi next r = Some (t :: rest) -> t_type t <> T_MINUS_ASSIGN ->
  (forall u, asi u = true -> t_type u = T_EOF \/ t_type u = T_RBRACE \/ t_nl u = true) ->
  exists t' r', r = t' :: r' /\ (t_type t' = T_SEMICOLON \/ asi t' = true) /\
    forall x c, exists c'', expect_semicolon_asi cfg_default (St x c r) = (true, St x c'' (t :: rest)).
Proof.
  intros H Hne Hasi. destruct r as [|t' r']; cbn [m_end] in H.
  - destruct (asi next); discriminate.
  - exists t', r'. split; [reflexivity|].
    destruct (t_type t' =? T_SEMICOLON) eqn:E.
    + apply Z.eqb_eq in E. injection H as H. subst r'. split; [left; assumption|].
      intros x c. exists t'. apply asi_St_semi. assumption.
    + apply Z.eqb_neq in E. destruct (asi t') eqn:Ea; [|discriminate]. injection H as H1 H2. subst.
      split; [right; reflexivity|]. intros x c. exists c. apply asi_St_insert; [assumption|].
      destruct (Hasi _ Ea) as [H|[H|H]]; auto.
Qed.

Lemma asi_expr_cases u : asi_after_expression u = true -> t_type u = T_EOF \/ t_type u = T_RBRACE \/ t_nl u = true.
Proof. unfold asi_after_expression. intro H. osplit; tinv; auto. Qed.
Lemma asi_let_cases u : asi_after_let_name u = true -> t_type u = T_EOF \/ t_type u = T_RBRACE \/ t_nl u = true.
Proof. unfold asi_after_let_name. intro H. osplit; tinv; auto. Qed.
Lemma asi_return_cases u : asi_after_return u = true -> t_type u = T_EOF \/ t_type u = T_RBRACE \/ t_nl u = true.
Proof. unfold asi_after_return. intro H. osplit; tinv; auto. Qed.

(* ---------- first tokens of statements ---------- *)

Lemma m_stmt_nil s next : m_stmt s next [] = None.
Proof.
  destruct s; cbn [m_stmt eat_tok]; repeat match goal with |- context [if ?b then _ else _] => destruct b end; reflexivity.
Qed.

Definition stmt_start (ty : Z) : bool := statement_keyword ty || expr_start ty.

Lemma m_stmt_start s next c l r : m_stmt s next (c :: l) = Some r -> wf_stmt s = true ->
  stmt_start (t_type c) = true.
Proof.
  intros H W. unfold stmt_start. destruct s; cbn [m_stmt] in H; try discriminate.
  all: try (minv H; tinv;
            match goal with Ht : t_type ?t = _ |- context [t_type ?t] => rewrite Ht end; reflexivity).
  destruct (statement_keyword (t_type c)); [discriminate|]. minv H. cbn [wf_stmt] in W.
  cbn [orb]. eapply m_expr_start; eassumption.
Qed.

Lemma stmt_start_neq ty : stmt_start ty = true ->
  ty <> T_RBRACE /\ ty <> T_EOF /\ ty <> T_ELSE /\ ty <> T_MINUS_ASSIGN.
Proof.
  intro H. repeat split; intro E; subst ty; vm_compute in H; discriminate.
Qed.

(* ---------- function parameters ---------- *)

Definition m_ptail (ps : list ident) (l : list token) : option (list token) :=
  match ps with
  | [] => Some l
  | _ => match eat T_COMMA l with Some (_, l') => m_params ps l' | None => None end
  end.

Lemma m_params_cons p ps ts :
  m_params (p :: ps) ts = match m_ident p ts with Some r => m_ptail ps r | None => None end.
Proof. destruct ps; cbn [m_params m_ptail]; destruct (m_ident p ts); reflexivity. Qed.

Lemma params_loop_inv : forall ps n acc x c' l t rest r,
  m_ptail ps l = Some (t :: rest) -> t_type t = T_RPAREN ->
  params_loop n acc (St x c' l) = Some r ->
  r = (acc ++ ps, St x t rest).
Proof.
  induction ps as [|p ps IH]; intros n acc x c' l t rest r Hm Ht HL.
  - cbn [m_ptail] in Hm. injection Hm as Hm. subst l.
    destruct n; [discriminate|]. cbn [params_loop] in HL.
    rewrite peek_is_St, Ht in HL. ev_in HL. rewrite expect_St in HL by assumption.
    injection HL as HL. subst r. rewrite app_nil_r. reflexivity.
  - unfold m_ptail in Hm. minv Hm. tinv. rewrite m_params_cons in Hm. minv Hm. tinv.
    destruct n; [discriminate|]. cbn [params_loop] in HL.
    rewrite peek_is_St in HL. rwt_in HL. ev_in HL. rewrite next_St in HL.
    rewrite expect_St in HL by assumption. cbn [negb] in HL. rewrite cur_St in HL.
    match goal with H : mk_ident _ = _ |- _ => rewrite H in HL end.
    eapply IH in HL; [|eassumption|assumption].
    rewrite <- app_assoc in HL. exact HL.
Qed.

Lemma params_inv f ps x c0 l t rest r :
  m_params ps l = Some (t :: rest) -> t_type t = T_RPAREN ->
  parse_function_parameters f (St x c0 l) = Some r -> r = (ps, St x t rest).
Proof.
  intros Hm Ht HL. unfold parse_function_parameters in HL. destruct ps as [|p ps].
  - cbn [m_params] in Hm. injection Hm as Hm. subst l.
    rewrite peek_is_St, Ht, Z.eqb_refl, next_St in HL. congruence.
  - rewrite m_params_cons in Hm. minv Hm. tinv.
    rewrite peek_is_St in HL. rwt_in HL. ev_in HL.
    rewrite expect_St in HL by assumption. cbn [negb] in HL. rewrite cur_St in HL.
    match goal with H : mk_ident _ = _ |- _ => rewrite H in HL end.
    eapply params_loop_inv in HL; [|eassumption|assumption]. exact HL.
Qed.

(* ---------- blocks ---------- *)

Lemma m_stmts_head ss next l t rest : m_stmts m_stmt ss next l = Some (t :: rest) ->
  wf_stmts wf_stmt ss = true ->
  exists t' l', l = t' :: l' /\ (ss = [] \/ stmt_start (t_type t') = true).
Proof.
  destruct ss as [|s ss]; cbn [m_stmts wf_stmts]; intros H W.
  - injection H as H. subst. eauto.
  - destruct l as [|t' l']; [rewrite m_stmt_nil in H; discriminate|].
    destruct (m_stmt s next (t' :: l')) eqn:E; [|discriminate]. tinv.
    eexists _, _. split; [reflexivity|]. right. eapply m_stmt_start; eassumption.
Qed.

Lemma m_stmt_not_nil s next ts r : m_stmt s next ts = Some r -> is_snil s = false.
Proof. destruct s; cbn [m_stmt is_snil]; congruence. Qed.

Lemma block_inv f : forall ss n acc x c l next t rest r,
  (forall s, In s ss -> Ps s) -> wf_stmts wf_stmt ss = true ->
  m_stmts m_stmt ss next (c :: l) = Some (t :: rest) -> t_type t = T_RBRACE ->
  block_loop (SF f) n acc (St x c l) = Some r -> r = (acc ++ ss, St x t rest).
Proof.
  induction ss as [|s ss IH]; intros n acc x c l next t rest r HP Hw Hm Ht HL.
  - cbn [m_stmts] in Hm. injection Hm as Hm1 Hm2. subst.
    destruct n; [discriminate|]. cbn [block_loop] in HL. rewrite !cur_is_St, Ht in HL. ev_in HL.
    cbn [negb andb] in HL. rewrite app_nil_r. congruence.
  - cbn [m_stmts] in Hm. cbn [wf_stmts] in Hw. tinv.
    destruct (m_stmt s next (c :: l)) as [r1|] eqn:E; [|discriminate].
    destruct (m_stmts_head _ _ _ _ _ Hm ltac:(assumption)) as (t' & l' & -> & Hhd).
    pose proof (m_stmt_start _ _ _ _ _ E ltac:(assumption)) as Hst. apply stmt_start_neq in Hst.
    destruct Hst as (S1 & S2 & _).
    destruct n; [discriminate|]. cbn [block_loop] in HL. rewrite !cur_is_St in HL.
    apply Z.eqb_neq in S1, S2. rewrite S1, S2 in HL. cbn [negb andb] in HL.
    dparse HL.
    assert (Hfol : t_type t' <> T_MINUS_ASSIGN /\ t_type t' <> T_ELSE).
    { destruct Hhd as [-> | Hhd].
      - cbn [m_stmts] in Hm. injection Hm as Hm1 Hm2. subst. rewrite Ht. split; discriminate.
      - apply stmt_start_neq in Hhd. tauto. }
    eapply (HP s (or_introl eq_refl)) in Ea; [|eassumption|assumption|tauto|tauto].
    destruct Ea as (c2 & Ea). inversion Ea; subst.
    rewrite (m_stmt_not_nil _ _ _ _ E), next_St in HL.
    eapply IH in HL; [|intros; apply HP; right; assumption|assumption|eassumption|assumption].
    rewrite <- app_assoc in HL. exact HL.
Qed.

Lemma block_stmt_inv f lb ss rb next x c l rest r :
  (forall s, In s ss -> Ps s) -> wf_stmt (SBlock lb ss rb) = true ->
  m_stmt (SBlock lb ss rb) next (c :: l) = Some rest ->
  parse_block_statement cfg_default (SF f) f (St x c l) = Some r ->
  r = (SBlock lb ss rb, St x rb rest).
Proof.
  intros HP Hw Hm HL. cbn [m_stmt wf_stmt] in *. minv Hm. tinv.
  unfold parse_block_statement in HL. cbv zeta in HL. rewrite push_St, cur_St in HL.
  match goal with H : m_stmts _ _ _ ?l1 = Some _ |- _ =>
    destruct (m_stmts_head _ _ _ _ _ H Hw) as (t' & l' & -> & _) end.
  rewrite next_St in HL. dparse HL.
  eapply block_inv in Ea; [|eassumption|assumption|eassumption|assumption].
  inversion Ea; subst. rewrite cur_is_St in HL. rwt_in HL. ev_in HL. cbn [negb andb app] in HL.
  rewrite cur_St, pop_push_St in HL. congruence.
Qed.

Lemma block_first lb ss rb next c l r : m_stmt (SBlock lb ss rb) next (c :: l) = Some r -> t_type c = T_LBRACE.
Proof. cbn [m_stmt]. intro H. minv H. tinv. assumption. Qed.

Ltac nn_stmt :=
  repeat match goal with
  | H : m_stmt _ _ ?l = Some _ |- _ =>
      is_var l; destruct l as [|? ?]; [rewrite m_stmt_nil in H; discriminate H|]
  end.

Lemma Pe_func t name params lb ss rb :
  (forall s, In s ss -> Ps s) -> Pe (EFunc t name params (SBlock lb ss rb)).
Proof.
  intros Hss c l0 t1 rest Hm Hw x prec f res Hn Hf HE.
  cbn [m_expr wf_expr need follow] in *.
  destruct name as [nm|].
  - minv Hm. tinv. nn_stmt.
    open_prefix HE. unfold parse_function_expression in HE.
    rewrite peek_is_St, cur_St in HE. rwt_in HE. ev_in HE. cbv beta iota zeta in HE.
    rewrite next_St, cur_St in HE. rewrite expect_St in HE by assumption. cbn [negb] in HE.
    dparse HE. eapply params_inv in Ea; [|eassumption|assumption]. inversion Ea; subst.
    match goal with H : m_stmt (SBlock _ _ _) _ _ = Some _ |- _ => pose proof (block_first _ _ _ _ _ _ _ H) as Hlb end.
    rewrite expect_St in HE by assumption. cbn [negb] in HE. rewrite push_St in HE.
    dparse HE. eapply block_stmt_inv in Ea0; [|eassumption|assumption|eassumption].
    inversion Ea0; subst. rewrite pop_push_St in HE.
    match goal with H : mk_ident _ = _ |- _ => rewrite H in HE end. eauto.
  - minv Hm. tinv. nn_stmt.
    open_prefix HE. unfold parse_function_expression in HE.
    rewrite peek_is_St, cur_St in HE. rwt_in HE. ev_in HE. cbv beta iota zeta in HE.
    rewrite expect_St in HE by assumption. cbn [negb] in HE.
    dparse HE. eapply params_inv in Ea; [|eassumption|assumption]. inversion Ea; subst.
    match goal with H : m_stmt (SBlock _ _ _) _ _ = Some _ |- _ => pose proof (block_first _ _ _ _ _ _ _ H) as Hlb end.
    rewrite expect_St in HE by assumption. cbn [negb] in HE. rewrite push_St in HE.
    dparse HE. eapply block_stmt_inv in Ea0; [|eassumption|assumption|eassumption].
    inversion Ea0; subst. rewrite pop_push_St in HE. eauto.
Qed.

(* ---------- statement cases ---------- *)

Lemma is_enil_true v : is_enil v = true -> v = ENil.
Proof. destruct v; cbn [is_enil]; congruence. Qed.
Lemma is_snil_true v : is_snil v = true -> v = SNil.
Proof. destruct v; cbn [is_snil]; congruence. Qed.

Ltac open_SF HS :=
  match type of HS with
  | stmt_fn cfg_default ?f _ = Some _ =>
      destruct f as [|f]; [discriminate HS|]; rewrite SF_S in HS;
      unfold base_parse_statement in HS; cbv zeta in HS; rewrite cur_St in HS; rwt_in HS; ev_in HS
  end.

Ltac dparse1 HR :=
  match type of HR with
  | (match ?E with _ => _ end) = Some _ =>
      let a := fresh "a" in let s := fresh "s" in let Ea := fresh "Ea" in
      destruct E as [[a s]|] eqn:Ea; [|discriminate HR]; cbv beta iota in HR
  end.

Ltac use_asi HS Hend :=
  let t' := fresh "t'" in let r' := fresh "r'" in let Hk := fresh "Hk" in let Hx := fresh "Hx" in
  let c2 := fresh "c" in
  destruct Hend as (t' & r' & -> & Hk & Hx).

Lemma Ps_let t name v : Pe v -> Ps (SLet t name v).
Proof.
  intros Hv next c l t1 rest Hm Hw Hma Hel x f r HS.
  cbn [m_stmt wf_stmt] in *. minv Hm. tinv. rewrite enil_match in Hm. rewrite enil_match in Hw.
  destruct (is_enil v) eqn:Ev.
  - apply is_enil_true in Ev. subst v.
    apply m_end_inv in Hm; [|assumption|apply asi_let_cases].
    destruct Hm as (t' & r' & -> & Hk & Hx).
    open_SF HS. unfold parse_let_statement in HS. cbv zeta in HS. rewrite cur_St in HS.
    rewrite expect_St in HS by assumption. cbn [negb] in HS. rewrite cur_St, peek_is_St in HS.
    replace (t_type t' =? T_ASSIGN) with false in HS.
    2:{ symmetry. apply Z.eqb_neq. destruct Hk as [Hk|Hk]; [rewrite Hk; discriminate|].
        unfold asi_after_let_name in Hk. intro Eq. rewrite Eq in Hk. ev_in Hk.
        cbn [orb andb negb] in Hk. rewrite andb_false_r in Hk. discriminate. }
    destruct (Hx x (id_tok name)) as (c'' & Hasi). rewrite Hasi in HS. cbn [negb] in HS.
    match goal with H : mk_ident _ = _ |- _ => rewrite H in HS end.
    injection HS as HS. subst r. eauto.
  - minv Hm. tinv. nn.
    apply m_end_inv in Hm; [|assumption|apply asi_expr_cases].
    destruct Hm as (t' & r' & -> & Hk & Hx).
    open_SF HS. unfold parse_let_statement, parse_expression in HS. cbv zeta in HS. rewrite cur_St in HS.
    rewrite expect_St in HS by assumption. cbn [negb] in HS. rewrite cur_St, peek_is_St in HS.
    rwt_in HS. ev_in HS. rewrite !next_St in HS.
    dparse1 HS. eapply (Pe_lowest v Hv) in Ea; [|eassumption|assumption|].
    2:{ destruct Hk as [Hk|Hk]; [apply semi_stops|apply asi_expr_stops]; assumption. }
    destruct Ea as (c2 & Ea). inversion Ea; subst.
    destruct (Hx x c2) as (c'' & Hasi). rewrite Hasi in HS. cbn [negb] in HS.
    match goal with H : mk_ident _ = _ |- _ => rewrite H in HS end.
    injection HS as HS. subst r. eauto.
Qed.

Lemma Ps_return t v : Pe v -> Ps (SReturn t v).
Proof.
  intros Hv next c l t1 rest Hm Hw Hma Hel x f r HS.
  cbn [m_stmt wf_stmt] in *. minv Hm. tinv. rewrite enil_match in Hm. rewrite enil_match in Hw.
  destruct (is_enil v) eqn:Ev.
  - apply is_enil_true in Ev. subst v.
    apply m_end_inv in Hm; [|assumption|apply asi_return_cases].
    destruct Hm as (t' & r' & -> & Hk & Hx).
    open_SF HS. unfold parse_return_statement in HS. cbv zeta in HS. rewrite cur_St in HS.
    rewrite !peek_is_St, peek_St in HS.
    replace (negb (t_type t' =? T_SEMICOLON) && negb (t_type t' =? T_EOF) &&
             negb (t_type t' =? T_RBRACE) && negb (t_nl t')) with false in HS.
    2:{ destruct Hk as [Hk|Hk]; [rewrite Hk; reflexivity|].
        apply asi_return_cases in Hk. destruct Hk as [Hk|[Hk|Hk]]; rewrite Hk; ev_goal;
          cbn [negb andb]; rewrite ?andb_false_r; reflexivity. }
    destruct (Hx x t) as (c'' & Hasi). rewrite Hasi in HS. cbn [negb] in HS.
    injection HS as HS. subst r. eauto.
  - match type of Hm with match ?l0 with [] => _ | _ :: _ => _ end = _ =>
      destruct l0 as [|f0 l0]; [discriminate Hm|] end.
    minv Hm.
    apply m_end_inv in Hm; [|assumption|apply asi_expr_cases].
    destruct Hm as (t' & r' & -> & Hk & Hx).
    match goal with Hv' : m_expr v (?c2 :: _) = Some _ |- _ =>
      pose proof (m_expr_start _ _ _ _ Hv' Hw) as Hst; apply expr_start_neq in Hst end.
    open_SF HS. unfold parse_return_statement, parse_expression in HS. cbv zeta in HS. rewrite cur_St in HS.
    rewrite !peek_is_St, peek_St in HS.
    match goal with Hnl : t_nl _ = false |- _ => rewrite Hnl in HS end.
    repeat match type of HS with context [t_type ?c2 =? ?K] =>
      replace (t_type c2 =? K) with false in HS by (symmetry; apply Z.eqb_neq; tauto) end.
    cbn [negb andb] in HS. rewrite next_St in HS.
    dparse1 HS. eapply (Pe_lowest v Hv) in Ea; [|eassumption|assumption|].
    2:{ destruct Hk as [Hk|Hk]; [apply semi_stops|apply asi_expr_stops]; assumption. }
    destruct Ea as (c2 & Ea). inversion Ea; subst.
    destruct (Hx x c2) as (c'' & Hasi). rewrite Hasi in HS. cbn [negb] in HS.
    injection HS as HS. subst r. eauto.
Qed.

Lemma Ps_expr e : Pe e -> Ps (SExpr e).
Proof.
  intros He next c l t1 rest Hm Hw Hma Hel x f r HS.
  cbn [m_stmt wf_stmt] in *.
  destruct (statement_keyword (t_type c)) eqn:Ek; [discriminate|]. minv Hm.
  apply m_end_inv in Hm; [|assumption|apply asi_expr_cases].
  destruct Hm as (t' & r' & -> & Hk & Hx).
  unfold statement_keyword in Ek. repeat (apply orb_false_iff in Ek; destruct Ek as [Ek ?]).
  destruct f as [|f]; [discriminate HS|]. rewrite SF_S in HS.
  unfold base_parse_statement in HS. cbv zeta in HS. rewrite cur_St in HS.
  repeat match goal with H : (_ =? _) = false |- _ => rewrite H in HS; clear H end.
  unfold parse_expression_statement, parse_expression in HS.
  dparse1 HS. eapply (Pe_lowest e He) in Ea; [|eassumption|assumption|].
  2:{ destruct Hk as [Hk|Hk]; [apply semi_stops|apply asi_expr_stops]; assumption. }
  destruct Ea as (c2 & Ea). inversion Ea; subst.
  destruct (Hx x c2) as (c'' & Hasi). rewrite Hasi in HS. cbn [negb] in HS.
  injection HS as HS. subst r. eauto.
Qed.

Lemma Ps_block lb ss rb : (forall s, In s ss -> Ps s) -> Ps (SBlock lb ss rb).
Proof.
  intros Hss next c l t1 rest Hm Hw Hma Hel x f r HS.
  pose proof (block_first _ _ _ _ _ _ _ Hm) as Hlb.
  open_SF HS. eapply block_stmt_inv in HS; [|eassumption|assumption|eassumption].
  subst r. eauto.
Qed.

Lemma Ps_func t name params lb ss rb :
  (forall s, In s ss -> Ps s) -> Ps (SFunc t name params (SBlock lb ss rb)).
Proof.
  intros Hss next c l t1 rest Hm Hw Hma Hel x f r HS.
  remember (SBlock lb ss rb) as body eqn:Hb.
  cbn [m_stmt wf_stmt] in Hm, Hw. subst body. cbv beta iota in Hm. minv Hm. tinv. nn_stmt.
  open_SF HS. unfold parse_function_statement in HS. cbv zeta in HS. rewrite cur_St in HS.
  rewrite expect_St in HS by assumption. cbn [negb] in HS. rewrite cur_St in HS.
  rewrite expect_St in HS by assumption. cbn [negb] in HS.
  dparse1 HS. eapply params_inv in Ea; [|eassumption|assumption]. inversion Ea; subst.
  match goal with H : m_stmt (SBlock _ _ _) _ _ = Some _ |- _ => pose proof (block_first _ _ _ _ _ _ _ H) as Hlb end.
  rewrite expect_St in HS by assumption. cbn [negb] in HS. rewrite push_St in HS.
  dparse1 HS. eapply block_stmt_inv in Ea0; [|eassumption|assumption|eassumption].
  inversion Ea0; subst. rewrite pop_push_St in HS.
  match goal with H : mk_ident _ = _ |- _ => rewrite H in HS end.
  injection HS as HS. subst r. eauto.
Qed.

Lemma open_if_else t c thn els : is_snil els = false ->
  ends_in_open_if (SIf t c thn els) = ends_in_open_if els.
Proof. destruct els; cbn [is_snil ends_in_open_if]; congruence. Qed.

Lemma Ps_while t c body : Pe c -> Ps body -> Ps (SWhile t c body).
Proof.
  intros Hc Hb next c0 l t1 rest Hm Hw Hma Hel x f r HS.
  cbn [m_stmt wf_stmt ends_in_open_if] in *. minv Hm. tinv. nn. nn_stmt.
  open_SF HS. unfold parse_while_statement, parse_expression in HS. cbv zeta in HS. rewrite cur_St in HS.
  rewrite expect_St in HS by assumption. cbn [negb] in HS. rewrite next_St in HS.
  dparse1 HS. eapply (Pe_lowest c Hc) in Ea; [|eassumption|assumption|stops_tac].
  destruct Ea as (c2 & Ea). inversion Ea; subst.
  rewrite expect_St in HS by assumption. cbn [negb] in HS. rewrite next_St in HS.
  dparse1 HS. eapply Hb in Ea0; [|eassumption|assumption|assumption|assumption].
  destruct Ea0 as (c3 & Ea0). inversion Ea0; subst.
  injection HS as HS. subst r. eauto.
Qed.

Lemma Ps_if t c thn els : Pe c -> Ps thn -> Ps els -> Ps (SIf t c thn els).
Proof.
  intros Hc Hthn Hels next c0 l t1 rest Hm Hw Hma Hel x f r HS.
  cbn [m_stmt wf_stmt] in Hm, Hw. minv Hm. tinv. nn. nn_stmt.
  rewrite snil_match in Hm. rewrite snil_match in H0.
  open_SF HS. unfold parse_if_statement, parse_expression in HS. cbv zeta in HS. rewrite cur_St in HS.
  rewrite expect_St in HS by assumption. cbn [negb] in HS. rewrite next_St in HS.
  dparse1 HS. eapply (Pe_lowest c Hc) in Ea; [|eassumption|assumption|stops_tac].
  destruct Ea as (c2 & Ea). inversion Ea; subst.
  rewrite expect_St in HS by assumption. cbn [negb] in HS. rewrite next_St in HS.
  dparse1 HS.
  destruct (is_snil els) eqn:Es.
  - apply is_snil_true in Es. subst els. injection Hm as Hm. subst.
    eapply Hthn in Ea0; [|eassumption|assumption|assumption|].
    2:{ intros _. apply Hel. reflexivity. }
    destruct Ea0 as (c3 & Ea0). inversion Ea0; subst.
    rewrite peek_is_St in HS.
    replace (t_type t1 =? T_ELSE) with false in HS
      by (symmetry; apply Z.eqb_neq; apply Hel; reflexivity).
    injection HS as HS. subst r. eauto.
  - minv Hm. tinv. nn_stmt.
    eapply Hthn in Ea0; [|eassumption|assumption| |].
    2:{ match goal with H : t_type _ = T_ELSE |- _ => rewrite H end. discriminate. }
    2:{ intro Ho. rewrite Ho in *. discriminate. }
    destruct Ea0 as (c3 & Ea0). inversion Ea0; subst.
    rewrite peek_is_St in HS. rwt_in HS. ev_in HS. rewrite !next_St in HS.
    dparse1 HS. rewrite open_if_else in Hel by assumption.
    eapply Hels in Ea1; [|eassumption|assumption|assumption|assumption].
    destruct Ea1 as (c4 & Ea1). inversion Ea1; subst.
    injection HS as HS. subst r. eauto.
Qed.

(* an optional expression of the for header, closed by a token of type [ety] *)
Lemma opt_parse f e x c0 l t' r' ety r :
  (is_enil e = false -> Pe e) ->
  (if is_enil e then Some l else m_expr e l) = Some (t' :: r') ->
  (if is_enil e then true else wf_expr e) = true ->
  t_type t' = ety -> ety = T_SEMICOLON \/ ety = T_RPAREN ->
  (if negb (peek_is (St x c0 l) ety) then parse_expression (EF f) (ps_next (St x c0 l))
   else Some (ENil, St x c0 l)) = Some r ->
  exists c', r = (e, St x c' (t' :: r')).
Proof.
  intros HP Hm Hw Ht Hety HS. destruct (is_enil e) eqn:Ee.
  - apply is_enil_true in Ee. subst e. injection Hm as Hm. subst l.
    rewrite peek_is_St, Ht, Z.eqb_refl in HS. cbn [negb] in HS. injection HS as HS. subst r. eauto.
  - nn. pose proof (m_expr_start _ _ _ _ Hm Hw) as Hst. apply expr_start_neq in Hst.
    rewrite peek_is_St in HS.
    replace (t_type t =? ety) with false in HS
      by (symmetry; apply Z.eqb_neq; destruct Hety as [-> | ->]; tauto).
    cbn [negb] in HS. rewrite next_St in HS. unfold parse_expression in HS.
    eapply (Pe_lowest e (HP eq_refl)) in HS; [|eassumption|assumption|].
    + exact HS.
    + unfold stops. rewrite Ht. destruct Hety as [-> | ->]; reflexivity.
Qed.

Definition init_Pe (i : expr) : Prop :=
  match i with ELet _ _ v => is_enil v = false -> Pe v | ENil => True | _ => Pe i end.

Definition init_wf (i : expr) : bool :=
  match i with
  | ENil => true
  | ELet _ _ v => match v with ENil => true | _ => wf_expr v end
  | _ => wf_expr i
  end.

Lemma init_parse f e x c0 l t' r' r :
  init_Pe e ->
  (if is_enil e then Some l else m_expr e l) = Some (t' :: r') ->
  init_wf e = true -> t_type t' = T_SEMICOLON ->
  (if negb (peek_is (St x c0 l) T_SEMICOLON)
   then let sn := ps_next (St x c0 l) in
        if cur_is sn T_LET then parse_let_expression (EF f) sn else parse_expression (EF f) sn
   else Some (ENil, St x c0 l)) = Some r ->
  exists c', r = (e, St x c' (t' :: r')).
Proof.
  intros HP Hm Hw Ht HS.
  assert (Hsemi : stops 1 t' = true) by (apply semi_stops; assumption).
  destruct e; cbn [is_enil init_Pe init_wf] in *.
  1:{ injection Hm as Hm. subst l.
      rewrite peek_is_St, Ht, Z.eqb_refl in HS. cbn [negb] in HS. injection HS as HS. subst r. eauto. }
  8:{ (* let *)
      cbn [m_expr] in Hm. minv Hm. tinv. rewrite enil_match in Hm. rewrite enil_match in Hw.
      rewrite peek_is_St in HS. rwt_in HS. ev_in HS. cbn [negb] in HS. cbv zeta in HS.
      rewrite next_St, cur_is_St in HS. rwt_in HS. ev_in HS.
      unfold parse_let_expression, parse_expression in HS. rewrite cur_St in HS.
      rewrite expect_St in HS by assumption. cbn [negb] in HS. rewrite cur_St in HS.
      match goal with H : mk_ident _ = _ |- _ => rewrite H in HS end.
      destruct (is_enil e) eqn:Ee.
      - apply is_enil_true in Ee. subst e. injection Hm as Hm. subst.
        rewrite peek_is_St, Ht in HS. ev_in HS. injection HS as HS. subst r. eauto.
      - minv Hm. tinv. nn. rewrite peek_is_St in HS. rwt_in HS. ev_in HS. rewrite !next_St in HS.
        dparse1 HS. eapply (Pe_lowest e (HP eq_refl)) in Ea; [|eassumption|assumption|assumption].
        destruct Ea as (c2 & Ea). inversion Ea; subst. injection HS as HS. subst r. eauto. }
  all: match type of Hm with m_expr ?e ?l = Some _ =>
         destruct l as [|c1 l1]; [rewrite m_expr_nil in Hm; discriminate|];
         pose proof (m_expr_start _ _ _ _ Hm Hw) as Hst; apply expr_start_neq in Hst;
         rewrite peek_is_St in HS;
         replace (t_type c1 =? T_SEMICOLON) with false in HS by (symmetry; apply Z.eqb_neq; tauto);
         cbn [negb] in HS; cbv zeta in HS; rewrite next_St, cur_is_St in HS;
         replace (t_type c1 =? T_LET) with false in HS by (symmetry; apply Z.eqb_neq; tauto);
         unfold parse_expression in HS;
         eapply (Pe_lowest e HP) in HS; [exact HS|eassumption|assumption|assumption]
       end.
Qed.

Lemma init_wf_eq i : (match i with
       | ENil => true
       | ELet _ _ v => match v with ENil => true | _ => wf_expr v end
       | _ => wf_expr i end) = init_wf i.
Proof. reflexivity. Qed.

Lemma Ps_for t init cond upd body :
  init_Pe init -> (is_enil cond = false -> Pe cond) -> (is_enil upd = false -> Pe upd) -> Ps body ->
  Ps (SFor t init cond upd body).
Proof.
  intros Hi Hc Hu Hb next c0 l t1 rest Hm Hw Hma Hel x f r HS.
  cbn [m_stmt wf_stmt ends_in_open_if] in Hm, Hw, Hel. rewrite init_wf_eq in Hw.
  rewrite !enil_match in Hw. tinv.
  minv Hm. tinv.
  repeat match goal with H : context [match _ with ENil => _ | _ => _ end] |- _ => rewrite enil_match in H end.
  nn_stmt.
  open_SF HS. unfold parse_for_statement in HS. rewrite cur_St in HS.
  rewrite expect_St in HS by assumption. cbn [negb] in HS.
  dparse1 HS. eapply (init_parse f init) in Ea; [|eassumption|eassumption|assumption|assumption].
  destruct Ea as (c2 & Ea). inversion Ea; subst.
  rewrite expect_St in HS by assumption. cbn [negb] in HS.
  dparse1 HS. eapply (opt_parse f cond) in Ea0; [|eassumption|eassumption|assumption|eassumption|left; reflexivity].
  destruct Ea0 as (c3 & Ea0). inversion Ea0; subst.
  rewrite expect_St in HS by assumption. cbn [negb] in HS.
  dparse1 HS. eapply (opt_parse f upd) in Ea1; [|eassumption|eassumption|assumption|eassumption|right; reflexivity].
  destruct Ea1 as (c4 & Ea1). inversion Ea1; subst.
  rewrite expect_St in HS by assumption. cbn [negb] in HS. rewrite next_St in HS.
  dparse1 HS. eapply Hb in Ea2; [|eassumption|assumption|assumption|assumption].
  destruct Ea2 as (c5 & Ea2). inversion Ea2; subst.
  injection HS as HS. subst r. eauto.
Qed.

(* ---------- the induction on size ---------- *)

Lemma esize_in a l : In a l -> (esize a <= fold_right (fun a n => esize a + n) 0 l)%nat.
Proof.
  induction l as [|b l IH]; cbn [In fold_right]; [tauto|]. intros [->|H]; [lia|]. apply IH in H. lia.
Qed.

Lemma psize_in k v l : In (k, v) l ->
  (esize k + esize v <= fold_right (fun kv n => esize (fst kv) + esize (snd kv) + n) 0 l)%nat.
Proof.
  induction l as [|b l IH]; cbn [In fold_right]; [tauto|]. intros [->|H]; [cbn [fst snd]; lia|]. apply IH in H. lia.
Qed.

Lemma ssize_in a l : In a l -> (ssize a <= fold_right (fun a n => ssize a + n) 0 l)%nat.
Proof.
  induction l as [|b l IH]; cbn [In fold_right]; [tauto|]. intros [->|H]; [lia|]. apply IH in H. lia.
Qed.

Lemma Pe_trivial e : (forall ts, m_expr e ts = None) \/ wf_expr e = false -> Pe e.
Proof.
  intros [H|H] c l t rest Hm Hw; [rewrite H in Hm; discriminate|rewrite H in Hw; discriminate].
Qed.

Lemma Ps_trivial s : (forall next ts, m_stmt s next ts = None) -> Ps s.
Proof. intros H next c l t rest Hm. rewrite H in Hm. discriminate. Qed.

Lemma all_P : forall n, (forall e, (esize e <= n)%nat -> Pe e) /\ (forall s, (ssize s <= n)%nat -> Ps s).
Proof.
  induction n as [|n [IHe IHs]].
  - split; [intros e H; destruct e; cbn [esize] in H; lia | intros s H; destruct s; cbn [ssize] in H; lia].
  - split.
    + intros e0 H. destruct e0; cbn [esize] in H.
      * apply Pe_trivial. left. reflexivity.
      * apply Pe_atoms. exact I.
      * apply Pe_atoms. exact I.
      * apply Pe_atoms. exact I.
      * apply Pe_atoms. exact I.
      * apply Pe_atoms. exact I.
      * apply Pe_atoms. exact I.
      * apply Pe_atoms. exact I.
      * apply Pe_trivial. right. reflexivity.
      * apply Pe_binary; apply IHe; lia.
      * apply Pe_unary; apply IHe; lia.
      * apply Pe_postfix; apply IHe; lia.
      * apply Pe_group; apply IHe; lia.
      * apply Pe_call; [apply IHe; lia|]. intros a Ha. apply IHe. apply esize_in in Ha. lia.
      * apply Pe_member; apply IHe; lia.
      * apply Pe_assign; apply IHe; lia.
      * apply Pe_compound; apply IHe; lia.
      * destruct body; try (apply Pe_trivial; left; intro ts; cbn [m_expr];
          repeat match goal with |- context [match ?x with _ => _ end] => destruct x end; reflexivity).
        apply Pe_func. intros s Hs. apply IHs. apply ssize_in in Hs. cbn [ssize] in H. lia.
      * apply Pe_array. intros a Ha. apply IHe. apply esize_in in Ha. lia.
      * apply Pe_object. intros k v Hkv. apply psize_in in Hkv. split; apply IHe; lia.
    + intros s0 H. destruct s0; cbn [ssize] in H.
      * apply Ps_trivial. reflexivity.
      * apply Ps_let. apply IHe. lia.
      * apply Ps_return. apply IHe. lia.
      * apply Ps_expr. apply IHe. lia.
      * match goal with |- Ps (SFunc _ _ _ ?b) => destruct b end;
          try (apply Ps_trivial; intros next ts; cbn [m_stmt];
          repeat match goal with |- context [match ?x with _ => _ end] => destruct x end; reflexivity).
        apply Ps_func. intros s Hs. apply IHs. apply ssize_in in Hs. cbn [ssize] in H. lia.
      * apply Ps_block. intros s Hs. apply IHs. apply ssize_in in Hs. lia.
      * apply Ps_if; [apply IHe|apply IHs|apply IHs]; lia.
      * apply Ps_while; [apply IHe|apply IHs]; lia.
      * apply Ps_for; [| intros _; apply IHe; lia | intros _; apply IHe; lia | apply IHs; lia].
        destruct init; cbn [init_Pe]; try exact I; try (apply IHe; cbn [esize] in *; lia).
        intros _. apply IHe. cbn [esize] in *. lia.
Qed.

Lemma Pe_all e : Pe e. Proof. apply (proj1 (all_P (esize e))). lia. Qed.
Lemma Ps_all s : Ps s. Proof. apply (proj2 (all_P (ssize s))). lia. Qed.

(* the expression and statement parsers, if they return at all, return the tree the
   specification accepts and leave the window right after its tokens, with no error *)
Lemma expr_complete e c l t rest x f r :
  m_expr e (c :: l) = Some (t :: rest) -> wf_expr e = true -> stops 1 t = true ->
  expr_fn cfg_default f P_LOWEST (St x c l) = Some r -> exists c', r = (e, St x c' (t :: rest)).
Proof. intros. eapply Pe_lowest; eauto using Pe_all. Qed.

Lemma stmt_complete s next c l t rest x f r :
  m_stmt s next (c :: l) = Some (t :: rest) -> wf_stmt s = true ->
  t_type t <> T_MINUS_ASSIGN -> (ends_in_open_if s = true -> t_type t <> T_ELSE) ->
  stmt_fn cfg_default f (St x c l) = Some r -> exists c', r = (s, St x c' (t :: rest)).
Proof. intros. eapply Ps_all; eauto. Qed.

(* ---------- the matcher returns a suffix of its input ---------- *)

Definition suf (r ts : list token) : Prop := exists pre, ts = pre ++ r.

Lemma suf_refl r : suf r r. Proof. exists []. reflexivity. Qed.
Lemma suf_trans a b c : suf a b -> suf b c -> suf a c.
Proof. intros [p ->] [q ->]. exists (q ++ p). rewrite app_assoc. reflexivity. Qed.
Lemma suf_cons t r : suf r (t :: r). Proof. exists [t]. reflexivity. Qed.

Lemma eat_tok_suf t ts r : eat_tok t ts = Some r -> suf r ts.
Proof. intro H. apply eat_tok_inv in H. subst. apply suf_cons. Qed.
Lemma eat_suf ty ts t r : eat ty ts = Some (t, r) -> suf r ts.
Proof. intro H. apply eat_inv in H. destruct H as [-> _]. apply suf_cons. Qed.
Lemma m_ident_suf i ts r : m_ident i ts = Some r -> suf r ts.
Proof. intro H. apply m_ident_inv in H. destruct H as [-> _]. apply suf_cons. Qed.
Lemma m_end_suf asi next ts r : m_end asi next ts = Some r -> suf r ts.
Proof.
  destruct ts as [|t ts]; cbn [m_end]; intro H; minv H; injection H as H; subst;
    first [apply suf_refl | apply suf_cons].
Qed.

Lemma m_params_suf ps : forall ts r, m_params ps ts = Some r -> suf r ts.
Proof.
  induction ps as [|p ps IH]; intros ts r H.
  - injection H as H. subst. apply suf_refl.
  - rewrite m_params_cons in H. minv H. apply m_ident_suf in E.
    destruct ps as [|q ps]; cbn [m_ptail] in H.
    + injection H as H. subst. assumption.
    + minv H. apply eat_suf in E0. apply IH in H.
      eapply suf_trans; [eassumption|]. eapply suf_trans; eassumption.
Qed.

Ltac suf_solve :=
  repeat first [eassumption | apply suf_refl | eapply suf_trans; [eassumption|]].

Section Suf.
  Variable n : nat.
  Hypothesis IHe : forall e, (esize e <= n)%nat -> forall ts r, m_expr e ts = Some r -> suf r ts.
  Hypothesis IHs : forall s, (ssize s <= n)%nat -> forall next ts r, m_stmt s next ts = Some r -> suf r ts.

  Lemma m_exprs_suf es : (fold_right (fun a n => esize a + n) 0 es <= n)%nat ->
    forall ts r, m_exprs m_expr es ts = Some r -> suf r ts.
  Proof.
    induction es as [|e es IH]; intros Hn ts r H.
    - injection H as H. subst. apply suf_refl.
    - cbn [fold_right] in Hn. rewrite m_exprs_cons in H. minv H. apply IHe in E; [|lia].
      destruct es as [|q es]; cbn [m_tail] in H.
      + injection H as H. subst. assumption.
      + minv H. apply eat_suf in E0. apply IH in H; [|lia]. suf_solve.
  Qed.

  Lemma m_props_suf ps : (fold_right (fun kv n => esize (fst kv) + esize (snd kv) + n) 0 ps <= n)%nat ->
    forall ts r, m_props m_expr ps ts = Some r -> suf r ts.
  Proof.
    induction ps as [|[k v] ps IH]; intros Hn ts r H.
    - injection H as H. subst. apply suf_refl.
    - cbn [fold_right fst snd] in Hn. cbn [m_props] in H.
      destruct (negb (key_ok k)); [discriminate|].
      destruct (m_expr k ts) as [r1|] eqn:E1; [|discriminate]. apply IHe in E1; [|lia].
      destruct (eat T_COLON r1) as [[? r2]|] eqn:E2; [|discriminate]. apply eat_suf in E2.
      destruct (m_expr v r2) as [r3|] eqn:E3; [|discriminate]. apply IHe in E3; [|lia].
      destruct ps as [|kv ps].
      + injection H as H. subst. suf_solve.
      + destruct (eat T_COMMA r3) as [[? r4]|] eqn:E4; [|discriminate]. apply eat_suf in E4.
        apply IH in H; [|lia]. suf_solve.
  Qed.

  Lemma m_stmts_suf ss : (fold_right (fun a n => ssize a + n) 0 ss <= n)%nat ->
    forall next ts r, m_stmts m_stmt ss next ts = Some r -> suf r ts.
  Proof.
    induction ss as [|s ss IH]; intros Hn next ts r H.
    - injection H as H. subst. apply suf_refl.
    - cbn [fold_right] in Hn. cbn [m_stmts] in H.
      destruct (m_stmt s next ts) as [r1|] eqn:E1; [|discriminate]. apply IHs in E1; [|lia].
      apply IH in H; [|lia]. suf_solve.
  Qed.
End Suf.

Ltac suf_hyps IHe IHs :=
  repeat match goal with
  | H : eat_tok _ _ = Some _ |- _ => apply eat_tok_suf in H
  | H : eat _ _ = Some (_, _) |- _ => apply eat_suf in H
  | H : eat _ _ = Some ?p |- _ => destruct p
  | H : m_ident _ _ = Some _ |- _ => apply m_ident_suf in H
  | H : m_end _ _ _ = Some _ |- _ => apply m_end_suf in H
  | H : m_params _ _ = Some _ |- _ => apply m_params_suf in H
  | H : match ?nm with Some _ => _ | None => _ end = Some _ |- _ => destruct nm
  | H : m_expr _ _ = Some _ |- _ => apply IHe in H; [|cbn [esize ssize] in *; lia]
  | H : m_stmt _ _ _ = Some _ |- _ => apply IHs in H; [|cbn [esize ssize] in *; lia]
  | H : m_exprs m_expr _ _ = Some _ |- _ => eapply m_exprs_suf in H; [|exact IHe|cbn [esize ssize] in *; lia]
  | H : m_props m_expr _ _ = Some _ |- _ => eapply m_props_suf in H; [|exact IHe|cbn [esize ssize] in *; lia]
  | H : m_stmts m_stmt _ _ _ = Some _ |- _ => eapply m_stmts_suf in H; [|exact IHs|cbn [esize ssize] in *; lia]
  | H : Some _ = Some _ |- _ => injection H as H; subst
  end.

Lemma all_suf : forall n,
  (forall e, (esize e <= n)%nat -> forall ts r, m_expr e ts = Some r -> suf r ts) /\
  (forall s, (ssize s <= n)%nat -> forall next ts r, m_stmt s next ts = Some r -> suf r ts).
Proof.
  induction n as [|n [IHe IHs]].
  - split; [intros e H; destruct e; cbn [esize] in H; lia | intros s H; destruct s; cbn [ssize] in H; lia].
  - split.
    + intros e0 Hn ts r H. destruct e0; cbn [m_expr] in H; try discriminate.
      all: minv H.
      all: try (match type of H with context [match ?v with ENil => _ | _ => _ end] => destruct v end;
                try discriminate; minv H).
      all: try (match goal with H : context [match ?v with SBlock _ _ _ => _ | _ => _ end] |- _ => destruct v end;
                try discriminate).
      all: try (match goal with H : context [match ?v with EIdent _ => _ | _ => _ end] |- _ => destruct v end;
                try discriminate).
      all: suf_hyps IHe IHs; suf_solve.
    + intros s0 Hn next ts r H. destruct s0; cbn [m_stmt] in H; try discriminate.
      all: minv H.
      all: repeat match goal with
           | H : context [match _ with ENil => _ | _ => _ end] |- _ => rewrite enil_match in H
           | H : context [match _ with SNil => _ | _ => _ end] |- _ => rewrite snil_match in H
           | H : match ?l with [] => _ | _ :: _ => _ end = Some _ |- _ => destruct l; [discriminate H|]
           | H : _ = Some _ |- _ => progress (minv H)
           end.
      all: try (match goal with H : context [match ?v with SBlock _ _ _ => _ | _ => _ end] |- _ => destruct v end;
                try discriminate).
      all: suf_hyps IHe IHs; suf_solve.
Qed.

Lemma m_stmts_suf_all ss next ts r : m_stmts m_stmt ss next ts = Some r -> suf r ts.
Proof.
  eapply (m_stmts_suf (fold_right (fun a n => ssize a + n)%nat 0%nat ss)).
  - intros s Hs. apply (proj2 (all_suf _) s Hs).
  - lia.
Qed.

(* ---------- the program loop and the top level ---------- *)

Lemma program_inv fuel : forall ss n acc x c l next t rest r,
  wf_stmts wf_stmt ss = true ->
  m_stmts m_stmt ss next (c :: l) = Some (t :: rest) -> t_type t = T_EOF ->
  program_loop cfg_default fuel n acc (St x c l) = Some r -> r = (acc ++ ss, St x t rest).
Proof.
  induction ss as [|s ss IH]; intros n acc x c l next t rest r Hw Hm Ht HL.
  - cbn [m_stmts] in Hm. injection Hm as Hm1 Hm2. subst.
    destruct n; [discriminate|]. cbn [program_loop] in HL. rewrite cur_is_St, Ht in HL. ev_in HL.
    cbn [negb] in HL. rewrite app_nil_r. congruence.
  - cbn [m_stmts] in Hm. cbn [wf_stmts] in Hw. tinv.
    destruct (m_stmt s next (c :: l)) as [r1|] eqn:E; [|discriminate].
    destruct (m_stmts_head _ _ _ _ _ Hm ltac:(assumption)) as (t' & l' & -> & Hhd).
    pose proof (m_stmt_start _ _ _ _ _ E ltac:(assumption)) as Hst. apply stmt_start_neq in Hst.
    destruct Hst as (_ & S2 & _).
    destruct n; [discriminate|]. cbn [program_loop] in HL. rewrite cur_is_St in HL.
    apply Z.eqb_neq in S2. rewrite S2 in HL. cbn [negb] in HL.
    dparse1 HL.
    assert (Hfol : t_type t' <> T_MINUS_ASSIGN /\ t_type t' <> T_ELSE).
    { destruct Hhd as [-> | Hhd].
      - cbn [m_stmts] in Hm. injection Hm as Hm1 Hm2. subst. rewrite Ht. split; discriminate.
      - apply stmt_start_neq in Hhd. tauto. }
    eapply (Ps_all s) in Ea; [|eassumption|assumption|tauto|tauto].
    destruct Ea as (c2 & Ea). inversion Ea; subst.
    rewrite (m_stmt_not_nil _ _ _ _ E), next_St in HL.
    eapply IH in HL; [|assumption|eassumption|assumption].
    rewrite <- app_assoc in HL. exact HL.
Qed.

Definition x_init (eof : token) : pstate := mkps zero_token zero_token [] eof [] [P_GlobalContext] 0 [].

Lemma ps_init_St c l eof : ps_init (c :: l) eof = St (x_init eof) c l.
Proof. destruct l; reflexivity. Qed.

Lemma last_app_single {A} (pre : list A) (e d : A) : last (pre ++ [e]) d = e.
Proof. induction pre as [|a pre IH]; [reflexivity|]. cbn [app]. destruct (pre ++ [e]) eqn:E.
  - destruct pre; discriminate.
  - rewrite <- E. cbn [last]. rewrite E in *. exact IH.
Qed.

Lemma ops_sane_default : ops_sane cfg_default.
Proof. repeat split. Qed.

Lemma parse_complete : forall p toks,
  m_program p toks = true -> wf_program p = true ->
  exists r, parse_tokens cfg_default toks = Some r /\
            pr_program r = p /\ pr_errors r = [] /\ pr_err_returned r = false.
Proof.
  intros [ss eof] toks Hm Hw. unfold m_program, wf_program in *. cbn [p_stmts p_eof] in *.
  apply andb_true_iff in Hm as [Heof Hm]. apply Z.eqb_eq in Heof.
  destruct (m_stmts m_stmt ss eof toks) as [[|e [|? ?]]|] eqn:Em; try discriminate.
  apply tok_eqb_eq in Hm. subst e.
  pose proof (m_stmts_suf_all _ _ _ _ Em) as [pre Hpre].
  assert (Hlast : t_type (last toks zero_token) = T_EOF).
  { rewrite Hpre, last_app_single. assumption. }
  destruct (parse_total cfg_default toks ops_sane_default Hlast) as [r Hr].
  exists r. split; [exact Hr|].
  change (parse_program_from cfg_default (parse_fuel toks)
            (ps_init toks (eof_again (last toks zero_token))) = Some r) in Hr.
  generalize dependent (parse_fuel toks). intros fu Hr.
  generalize dependent (eof_again (last toks zero_token)). intros eof' Hr.
  destruct toks as [|c l]; [destruct pre; discriminate|].
  rewrite ps_init_St in Hr. unfold parse_program_from in Hr.
  destruct (program_loop cfg_default fu fu [] (St (x_init eof') c l)) as [[stmts s1]|] eqn:EL; [|discriminate].
  eapply program_inv in EL; [|eassumption|eassumption|assumption].
  injection EL as EL1 EL2. subst stmts s1. injection Hr as Hr. subst r.
  cbn [pr_program pr_errors pr_err_returned app]. repeat split; reflexivity.
Qed.

Lemma grammar_unambiguous : forall p1 p2 toks,
  m_program p1 toks = true -> wf_program p1 = true ->
  m_program p2 toks = true -> wf_program p2 = true -> p1 = p2.
Proof.
  intros p1 p2 toks M1 W1 M2 W2.
  destruct (parse_complete p1 toks M1 W1) as (r1 & H1 & E1 & _).
  destruct (parse_complete p2 toks M2 W2) as (r2 & H2 & E2 & _).
  congruence.
Qed.

Print Assumptions parse_complete.
Print Assumptions grammar_unambiguous.
