(* Parser.v -- executable model of package parser (after the fix: commits).
   The parser reads a token list (the lexer is independent of the parser; the
   end-of-input token is stable, so "the token after the last one" is that token).
   Go's nil results are ENil / SNil; every Parse* function is a state transformer;
   recursion through p.statementParseFn / p.expressionParseFn is open (Section
   variables) and closed on fuel at the end. [None] = out of fuel. *)
Require Import Base GoOps Token Tree.
Require Import Gen.Tables.

(* ---------- errors, events, state ---------- *)

(* error kinds: the message with its argument abstracted *)
Definition EK_EXPECTED : Z := 1.     (* "<type> expected"            arg = token type *)
Definition EK_SEMICOLON : Z := 2.    (* "semicolon or newline expected" *)
Definition EK_UNEXPECTED : Z := 3.   (* "unexpected <literal>" *)
Definition EK_UNCLOSED : Z := 4.     (* "unclosed block statement, expected '}'" *)
Definition EK_INT : Z := 5.          (* "could not parse %q as integer" *)
Definition EK_FLOAT : Z := 6.        (* "could not parse %q as float" *)

Record perror := mkerr { e_kind : Z; e_arg : Z; e_start : pos; e_end : pos }.

(* what a probe interceptor records: its id, kind (0 statement, 1 expression),
   the current token, CurrentContext(), IsInFunction() *)
Record pevent := mkev { ev_id : Z; ev_kind : Z; ev_tok : token; ev_ctx : Z; ev_infn : bool }.

Record pstate := mkps {
  ps_cur : token;
  ps_peek : token;
  ps_rest : list token;     (* tokens after PeekToken *)
  ps_eof : token;           (* what the lexer returns once the list is exhausted *)
  ps_errors : list perror;
  ps_ctx : list Z;          (* contextStack *)
  ps_cep : Z;               (* currentExpressionPrecedence *)
  ps_log : list pevent
}.

Definition res (A : Type) : Type := option (A * pstate).

Notation "'do' ( x , s ) <- e ; k" :=
  (match e with None => None | Some (x, s) => k end)
  (at level 200, x name, s name, e at level 100, k at level 200).

Definition zero_token : token := mktoken 0 [] (mkpos 0 0) (mkpos 0 0) false [].

(* ---------- interceptors and registered operators (deep embedding of the shapes
   the properties name) ---------- *)

Inductive stmt_ic := SI_Pass | SI_Probe (id : Z).
Inductive expr_ic := EI_Pass | EI_Probe (id : Z) | EI_Reentrant.

Record pcfg := mkpcfg {
  c_tolerant : bool;
  c_smart : bool;
  c_stmt_ics : list stmt_ic;       (* installation order *)
  c_expr_ics : list expr_ic;
  c_prefix_ops : list Z;           (* registered prefix operators: token types *)
  c_infix_ops : list (Z * Z);      (* registered infix operators: (token type, precedence) *)
  c_postfix_ops : list Z           (* registered postfix operators *)
}.

Definition cfg_default : pcfg := mkpcfg false false [] [] [] [] [].

Fixpoint memZ (x : Z) (l : list Z) : bool :=
  match l with [] => false | y :: l' => (x =? y) || memZ x l' end.

Fixpoint assoc_opt {B} (l : list (Z * B)) (k : Z) : option B :=
  match l with
  | [] => None
  | (k', v) :: l' => if k =? k' then Some v else assoc_opt l' k
  end.

(* p.precedences: the package table copied, then registered infix operators (last
   write wins; registrations happen in reverse order), then postfix at CALL *)
Definition precedence_of (cfg : pcfg) (ty : Z) : Z :=
  if memZ ty (c_postfix_ops cfg) then P_CALL
  else match assoc_opt (c_infix_ops cfg) ty with
       | Some p => p
       | None => match assoc_opt parser_precedences ty with
                 | Some p => p
                 | None => P_LOWEST
                 end
       end.

(* ---------- token window ---------- *)

Definition ps_next (s : pstate) : pstate :=
  match ps_rest s with
  | t :: r => mkps (ps_peek s) t r (ps_eof s) (ps_errors s) (ps_ctx s) (ps_cep s) (ps_log s)
  | [] => mkps (ps_peek s) (ps_eof s) [] (ps_eof s) (ps_errors s) (ps_ctx s) (ps_cep s) (ps_log s)
  end.

Definition add_error_at (s : pstate) (kind arg : Z) (t : token) : pstate :=
  mkps (ps_cur s) (ps_peek s) (ps_rest s) (ps_eof s)
       (ps_errors s ++ [mkerr kind arg (t_start t) (t_end t)]) (ps_ctx s) (ps_cep s) (ps_log s).

Definition add_error (s : pstate) (kind arg : Z) : pstate := add_error_at s kind arg (ps_cur s).

Definition set_ctx (s : pstate) (c : list Z) : pstate :=
  mkps (ps_cur s) (ps_peek s) (ps_rest s) (ps_eof s) (ps_errors s) c (ps_cep s) (ps_log s).
Definition push_ctx (s : pstate) (c : Z) : pstate := set_ctx s (ps_ctx s ++ [c]).
Definition pop_ctx (s : pstate) : pstate := set_ctx s (removelast (ps_ctx s)).
Definition set_cep (s : pstate) (p : Z) : pstate :=
  mkps (ps_cur s) (ps_peek s) (ps_rest s) (ps_eof s) (ps_errors s) (ps_ctx s) p (ps_log s).

Definition current_context (s : pstate) : Z := last (ps_ctx s) P_GlobalContext.
Definition is_in_function (s : pstate) : bool := memZ P_FunctionContext (ps_ctx s).

Definition log_event (s : pstate) (id kind : Z) : pstate :=
  mkps (ps_cur s) (ps_peek s) (ps_rest s) (ps_eof s) (ps_errors s) (ps_ctx s) (ps_cep s)
       (ps_log s ++ [mkev id kind (ps_cur s) (current_context s) (is_in_function s)]).

Definition cur_is (s : pstate) (ty : Z) : bool := t_type (ps_cur s) =? ty.
Definition peek_is (s : pstate) (ty : Z) : bool := t_type (ps_peek s) =? ty.

(* ExpectToken *)
Definition expect (s : pstate) (ty : Z) : bool * pstate :=
  if peek_is s ty then (true, ps_next s)
  else (false, add_error_at s EK_EXPECTED ty (ps_peek s)).

(* shouldInsertSemicolon *)
Definition should_insert_semicolon (s : pstate) : bool :=
  if peek_is s T_EOF then true
  else if peek_is s T_RBRACE then true
  else if negb (t_nl (ps_peek s)) then false
  else negb (memZ (t_type (ps_peek s)) asi_switch_false).

(* ExpectSemicolonASI *)
Definition expect_semicolon_asi (cfg : pcfg) (s : pstate) : bool * pstate :=
  if peek_is s T_SEMICOLON then (true, ps_next s)
  else if should_insert_semicolon s then (true, s)
  else if c_tolerant cfg then (true, s)
  else (false, add_error_at s EK_SEMICOLON 0 (ps_peek s)).

Definition peek_precedence (cfg : pcfg) (s : pstate) : Z := precedence_of cfg (t_type (ps_peek s)).
Definition current_precedence (cfg : pcfg) (s : pstate) : Z := precedence_of cfg (t_type (ps_cur s)).

Definition mk_ident (t : token) : ident := mkident t (t_lit t).

(* ---------- strconv.ParseInt(s, 0, 64) / ParseFloat(s, 64) acceptance on the
   lexeme shapes the lexer produces (modelled, not verified) ---------- *)

Definition digit_val (c : N) : option Z :=
  if ((48 <=? c) && (c <=? 57))%N then Some (Z.of_N c - 48)
  else if ((97 <=? c) && (c <=? 102))%N then Some (Z.of_N c - 87)
  else if ((65 <=? c) && (c <=? 70))%N then Some (Z.of_N c - 55)
  else None.

(* value of a non-empty digit string in the given base, None if a digit is out of range *)
Fixpoint digits_value (base : Z) (ds : str) (acc : Z) : option Z :=
  match ds with
  | [] => Some acc
  | c :: ds' =>
      match digit_val c with
      | Some d => if d <? base then digits_value base ds' (acc * base + d) else None
      | None => None
      end
  end.

Definition int_in_range (ov : option Z) : bool :=
  match ov with Some v => v <? 2 ^ 63 | None => false end.

Definition go_int_ok (lit : str) : bool :=
  match lit with
  | 48%N :: c :: ds =>
      if (N.eqb c 120 || N.eqb c 88) then
        match ds with [] => false | _ => int_in_range (digits_value 16 ds 0) end
      else if (N.eqb c 98 || N.eqb c 66) then
        match ds with [] => false | _ => int_in_range (digits_value 2 ds 0) end
      else if (N.eqb c 111 || N.eqb c 79) then
        match ds with [] => false | _ => int_in_range (digits_value 8 ds 0) end
      else int_in_range (digits_value 8 (c :: ds) 0)   (* leading 0: octal *)
  | [] => false
  | _ => int_in_range (digits_value 10 lit 0)
  end.

(* split a decimal float lexeme: integer digits, fraction digits, exponent (sign, digits) *)
Fixpoint take_digits (s : str) : str * str :=
  match s with
  | c :: s' => if ((48 <=? c) && (c <=? 57))%N then let '(d, r) := take_digits s' in (c :: d, r) else ([], s)
  | [] => ([], [])
  end.

Definition float_overflow_threshold : Z := 2 ^ 1024 - 2 ^ 970.

(* a leading zero directly followed by a digit (01e2, 03.0): strconv accepts it, JavaScript
   does not; ParseFloatLiteral rejects it *)
Definition leading_zero_digit (lit : str) : bool :=
  match lit with
  | 48%N :: d :: _ => (48 <=? d)%N && (d <=? 57)%N
  | _ => false
  end.

Definition strconv_float_ok (lit : str) : bool :=
  let '(ip, r1) := take_digits lit in
  let '(fp, r2) := match r1 with 46%N :: r => take_digits r | _ => ([], r1) end in
  (* exponent *)
  let '(esign, ed, r3, has_exp) :=
    match r2 with
    | c :: r =>
        if N.eqb c 101 || N.eqb c 69 then
          match r with
          | 45%N :: r' => let '(d, r'') := take_digits r' in (-1, d, r'', true)
          | 43%N :: r' => let '(d, r'') := take_digits r' in (1, d, r'', true)
          | _ => let '(d, r'') := take_digits r in (1, d, r'', true)
          end
        else (1, [], r2, false)
    | [] => (1, [], [], false)
    end in
  match ip, r3 with
  | [], _ => false
  | _, _ :: _ => false
  | _, [] =>
      (* strconv accepts an empty fraction after the dot ("1.", "1.e3") *)
      if has_exp && (match ed with [] => true | _ => false end) then false
      else
        match digits_value 10 (ip ++ fp) 0, digits_value 10 ed 0 with
        | Some m, Some e =>
            if m =? 0 then true
            else
              let k := esign * e - Z.of_nat (length fp) in
              (* value = m * 10^k; overflow iff >= threshold *)
              if 400 <? k then false
              else if k <? - 1500 then true
              else if 0 <=? k then m * 10 ^ k <? float_overflow_threshold
              else m <? float_overflow_threshold * 10 ^ (- k)
        | _, _ => false
        end
  end.

Definition go_float_ok (lit : str) : bool := strconv_float_ok lit && negb (leading_zero_digit lit).

(* ---------- the Parse* methods, with p.statementParseFn / p.expressionParseFn open ---------- *)

Section Open.
  Variable cfg : pcfg.
  Variable stmt_fn : pstate -> res stmt.
  Variable expr_fn : Z -> pstate -> res expr.
  Variable loop_fuel : nat.

  Definition parse_expression (s : pstate) : res expr := expr_fn P_LOWEST s.

  (* ParseFunctionParameters: the COMMA loop (every parameter is an IDENT token: a failed
     ExpectToken(IDENT) returns nil from inside the loop) followed, when the loop is left
     normally, by the final ExpectToken(RPAREN) *)
  Fixpoint params_loop (n : nat) (acc : list ident) (s : pstate) : res (list ident) :=
    match n with
    | O => None
    | S n' =>
        if peek_is s T_COMMA then
          let '(ok, s2) := expect (ps_next s) T_IDENT in
          if negb ok then Some ([], s2) else
          params_loop n' (acc ++ [mk_ident (ps_cur s2)]) s2
        else
          let '(ok, s3) := expect s T_RPAREN in
          if ok then Some (acc, s3) else Some ([], s3)
    end.

  Definition parse_function_parameters (s : pstate) : res (list ident) :=
    if peek_is s T_RPAREN then Some ([], ps_next s)
    else
      let '(ok, s1) := expect s T_IDENT in
      if negb ok then Some ([], s1) else
      params_loop loop_fuel [mk_ident (ps_cur s1)] s1.

  (* ParseBlockStatement: the statement loop *)
  Fixpoint block_loop (n : nat) (acc : list stmt) (s : pstate) : res (list stmt) :=
    match n with
    | O => None
    | S n' =>
        if negb (cur_is s T_RBRACE) && negb (cur_is s T_EOF) then
          do (st, s1) <- stmt_fn s;
          block_loop n' (if is_snil st then acc else acc ++ [st]) (ps_next s1)
        else Some (acc, s)
    end.

  Definition parse_block_statement (s : pstate) : res stmt :=
    let tok := ps_cur s in
    let s1 := ps_next (push_ctx s P_BlockContext) in
    do (stmts, s2) <- block_loop loop_fuel [] s1;
    let s3 := if negb (cur_is s2 T_RBRACE) && negb (c_tolerant cfg)
              then add_error s2 EK_UNCLOSED 0 else s2 in
    Some (SBlock tok stmts (ps_cur s3), pop_ctx s3).

  Definition parse_let_statement (s : pstate) : res stmt :=
    let tok := ps_cur s in
    let '(ok, s1) := expect s T_IDENT in
    if negb ok then Some (SNil, s1) else
    let name := mk_ident (ps_cur s1) in
    do (value, s2) <- (if peek_is s1 T_ASSIGN then parse_expression (ps_next (ps_next s1))
                       else Some (ENil, s1));
    let '(ok2, s3) := expect_semicolon_asi cfg s2 in
    if negb ok2 then Some (SNil, s3) else Some (SLet tok name value, s3).

  Definition parse_let_expression (s : pstate) : res expr :=
    let tok := ps_cur s in
    let '(ok, s1) := expect s T_IDENT in
    if negb ok then Some (ENil, s1) else
    let name := mk_ident (ps_cur s1) in
    do (value, s2) <- (if peek_is s1 T_ASSIGN then parse_expression (ps_next (ps_next s1))
                       else Some (ENil, s1));
    Some (ELet tok name value, s2).

  Definition parse_function_statement (s : pstate) : res stmt :=
    let tok := ps_cur s in
    let '(ok, s1) := expect s T_IDENT in
    if negb ok then Some (SNil, s1) else
    let name := mk_ident (ps_cur s1) in
    let '(ok2, s2) := expect s1 T_LPAREN in
    if negb ok2 then Some (SNil, s2) else
    do (params, s3) <- parse_function_parameters s2;
    let '(ok3, s4) := expect s3 T_LBRACE in
    if negb ok3 then Some (SNil, s4) else
    do (body, s5) <- parse_block_statement (push_ctx s4 P_FunctionContext);
    Some (SFunc tok name params body, pop_ctx s5).

  Definition parse_return_statement (s : pstate) : res stmt :=
    let tok := ps_cur s in
    do (value, s1) <- (if negb (peek_is s T_SEMICOLON) && negb (peek_is s T_EOF)
                          && negb (peek_is s T_RBRACE) && negb (t_nl (ps_peek s))
                       then parse_expression (ps_next s) else Some (ENil, s));
    let '(ok, s2) := expect_semicolon_asi cfg s1 in
    if negb ok then Some (SNil, s2) else Some (SReturn tok value, s2).

  Definition parse_if_statement (s : pstate) : res stmt :=
    let tok := ps_cur s in
    let '(ok, s1) := expect s T_LPAREN in
    if negb ok then Some (SNil, s1) else
    do (cond, s2) <- parse_expression (ps_next s1);
    let '(ok2, s3) := expect s2 T_RPAREN in
    if negb ok2 then Some (SNil, s3) else
    do (thn, s4) <- stmt_fn (ps_next s3);
    if peek_is s4 T_ELSE then
      do (els, s5) <- stmt_fn (ps_next (ps_next s4));
      Some (SIf tok cond thn els, s5)
    else Some (SIf tok cond thn SNil, s4).

  Definition parse_while_statement (s : pstate) : res stmt :=
    let tok := ps_cur s in
    let '(ok, s1) := expect s T_LPAREN in
    if negb ok then Some (SNil, s1) else
    do (cond, s2) <- parse_expression (ps_next s1);
    let '(ok2, s3) := expect s2 T_RPAREN in
    if negb ok2 then Some (SNil, s3) else
    do (body, s4) <- stmt_fn (ps_next s3);
    Some (SWhile tok cond body, s4).

  Definition parse_for_statement (s : pstate) : res stmt :=
    let tok := ps_cur s in
    let '(ok, s1) := expect s T_LPAREN in
    if negb ok then Some (SNil, s1) else
    do (init, s2) <- (if negb (peek_is s1 T_SEMICOLON) then
                        let sn := ps_next s1 in
                        if cur_is sn T_LET then parse_let_expression sn else parse_expression sn
                      else Some (ENil, s1));
    let '(ok2, s3) := expect s2 T_SEMICOLON in
    if negb ok2 then Some (SNil, s3) else
    do (cond, s4) <- (if negb (peek_is s3 T_SEMICOLON) then parse_expression (ps_next s3)
                      else Some (ENil, s3));
    let '(ok3, s5) := expect s4 T_SEMICOLON in
    if negb ok3 then Some (SNil, s5) else
    do (upd, s6) <- (if negb (peek_is s5 T_RPAREN) then parse_expression (ps_next s5)
                     else Some (ENil, s5));
    let '(ok4, s7) := expect s6 T_RPAREN in
    if negb ok4 then Some (SNil, s7) else
    do (body, s8) <- stmt_fn (ps_next s7);
    Some (SFor tok init cond upd body, s8).

  Definition parse_expression_statement (s : pstate) : res stmt :=
    do (e, s1) <- parse_expression s;
    let '(ok, s2) := expect_semicolon_asi cfg s1 in
    if negb ok then Some (SNil, s2) else Some (SExpr e, s2).

  (* baseParseStatement *)
  Definition base_parse_statement (s : pstate) : res stmt :=
    let ty := t_type (ps_cur s) in
    if ty =? T_LET then parse_let_statement s
    else if ty =? T_FUNCTION then parse_function_statement s
    else if ty =? T_RETURN then parse_return_statement s
    else if ty =? T_IF then parse_if_statement s
    else if ty =? T_WHILE then parse_while_statement s
    else if ty =? T_FOR then parse_for_statement s
    else if ty =? T_LBRACE then parse_block_statement s
    else parse_expression_statement s.

  (* ParseExpressionList: the COMMA loop *)
  Fixpoint expr_list_loop (n : nat) (acc : list expr) (s : pstate) : res (list expr) :=
    match n with
    | O => None
    | S n' =>
        if peek_is s T_COMMA then
          do (e, s1) <- parse_expression (ps_next (ps_next s));
          expr_list_loop n' (acc ++ [e]) s1
        else Some (acc, s)
    end.

  Definition parse_expression_list (end_ty : Z) (s : pstate) : res (list expr) :=
    if peek_is s end_ty then Some ([], ps_next s)
    else
      do (e, s1) <- parse_expression (ps_next s);
      do (args, s2) <- expr_list_loop loop_fuel [e] s1;
      let '(ok, s3) := expect s2 end_ty in
      if ok then Some (args, s3) else Some ([], s3).

  (* ParseObjectLiteral: the property loop; None result = the function returned nil *)
  Fixpoint object_loop (n : nat) (acc : list (expr * expr)) (s : pstate)
    : res (option (list (expr * expr))) :=
    match n with
    | O => None
    | S n' =>
        do (key, s1) <- parse_expression s;
        let '(ok, s2) := expect s1 T_COLON in
        if negb ok then Some (None, s2) else
        do (value, s3) <- parse_expression (ps_next s2);
        let acc' := acc ++ [(key, value)] in
        if negb (peek_is s3 T_COMMA) then Some (Some acc', s3)
        else object_loop n' acc' (ps_next (ps_next s3))
    end.

  Definition parse_object_literal (s : pstate) : res expr :=
    let tok := ps_cur s in
    if peek_is s T_RBRACE then Some (EObject tok [] zero_token, ps_next s)
    else
      do (r, s1) <- object_loop loop_fuel [] (ps_next s);
      match r with
      | None => Some (ENil, s1)
      | Some props =>
          let '(ok, s2) := expect s1 T_RBRACE in
          if negb ok then Some (ENil, s2) else Some (EObject tok props (ps_cur s2), s2)
      end.

  Definition parse_function_expression (s : pstate) : res expr :=
    let tok := ps_cur s in
    let '(name, s0) := if peek_is s T_IDENT then (Some (mk_ident (ps_cur (ps_next s))), ps_next s)
                       else (None, s) in
    let '(ok, s1) := expect s0 T_LPAREN in
    if negb ok then Some (ENil, s1) else
    do (params, s2) <- parse_function_parameters s1;
    let '(ok2, s3) := expect s2 T_LBRACE in
    if negb ok2 then Some (ENil, s3) else
    do (body, s4) <- parse_block_statement (push_ctx s3 P_FunctionContext);
    Some (EFunc tok name params body, pop_ctx s4).

  Definition parse_grouped_expression (s : pstate) : res expr :=
    let tok := ps_cur s in
    do (e, s1) <- parse_expression (ps_next s);
    let '(ok, s2) := expect s1 T_RPAREN in
    if negb ok then Some (ENil, s2) else Some (EGroup tok e (ps_cur s2), s2).

  Definition parse_unary_expression (s : pstate) : res expr :=
    let tok := ps_cur s in
    do (r, s1) <- expr_fn P_UNARY (ps_next s);
    Some (EUnary tok (t_lit tok) r, s1).

  Definition prefix_handler_run (h : prefix_handler) (s : pstate) : res expr :=
    let tok := ps_cur s in
    match h with
    | PH_ParseIdentifier => Some (EIdent (mk_ident tok), s)
    | PH_ParseIntegerLiteral =>
        if go_int_ok (t_lit tok) then Some (EInt tok, s) else Some (ENil, add_error s EK_INT 0)
    | PH_ParseFloatLiteral =>
        if go_float_ok (t_lit tok) then Some (EFloat tok, s) else Some (ENil, add_error s EK_FLOAT 0)
    | PH_ParseStringLiteral => Some (EString tok (t_lit tok), s)
    | PH_ParseMultiStringLiteral => Some (ERaw tok (t_lit tok), s)
    | PH_ParseBooleanLiteral => Some (EBool tok (t_type tok =? T_TRUE), s)
    | PH_ParseNullLiteral => Some (ENull tok, s)
    | PH_ParseUnaryExpression => parse_unary_expression s
    | PH_ParseGroupedExpression => parse_grouped_expression s
    | PH_ParseArrayLiteral =>
        do (elems, s1) <- parse_expression_list T_RBRACKET s;
        Some (EArray tok elems (ps_cur s1), s1)
    | PH_ParseObjectLiteral => parse_object_literal s
    | PH_ParseFunctionExpression => parse_function_expression s
    end.

  (* ParsePrefixExpression: registered prefix operators shadow the built-in table *)
  Definition parse_prefix_expression (s : pstate) : res expr :=
    let ty := t_type (ps_cur s) in
    if memZ ty (c_prefix_ops cfg) then parse_unary_expression s
    else match assoc_opt prefix_table ty with
         | Some h => prefix_handler_run h s
         | None => Some (ENil, add_error s EK_UNEXPECTED 0)
         end.

  Definition parse_binary_expression (left : expr) (s : pstate) : res expr :=
    let tok := ps_cur s in
    let prec := current_precedence cfg s in
    do (r, s1) <- expr_fn prec (ps_next s);
    Some (EBinary tok left (t_lit tok) r, s1).

  Definition infix_handler_run (h : infix_handler) (left : expr) (s : pstate) : res expr :=
    let tok := ps_cur s in
    match h with
    | IH_ParseBinaryExpression => parse_binary_expression left s
    | IH_ParseAssignmentExpression =>
        do (v, s1) <- parse_expression (ps_next s);
        Some (EAssign tok left v, s1)
    | IH_ParseCompoundAssignmentExpression =>
        let op := if t_type tok =? T_PLUS_ASSIGN then [43%N]
                  else if t_type tok =? T_MINUS_ASSIGN then [45%N] else [] in
        do (v, s1) <- parse_expression (ps_next s);
        Some (ECompound tok left op v, s1)
    | IH_ParseCallExpression =>
        do (args, s1) <- parse_expression_list T_RPAREN s;
        Some (ECall tok left args, s1)
    | IH_ParseMemberExpression =>
        do (p, s1) <- expr_fn P_MEMBER (ps_next s);
        Some (EMember tok left p false, s1)
    | IH_ParseComputedMemberExpression =>
        do (p, s1) <- parse_expression (ps_next s);
        let '(ok, s2) := expect s1 T_RBRACKET in
        if negb ok then Some (ENil, s2) else Some (EMember tok left p true, s2)
    | IH_ParsePostfixExpression => Some (EPostfix tok left (t_lit tok), s)
    end.

  (* the infix function installed for the token type of PeekToken, if any:
     registered postfix > registered infix > built-in table *)
  Inductive infix_kind := IK_Postfix | IK_Infix | IK_Builtin (h : infix_handler).

  Definition infix_lookup (ty : Z) : option infix_kind :=
    if memZ ty (c_postfix_ops cfg) then Some IK_Postfix
    else match assoc_opt (c_infix_ops cfg) ty with
         | Some _ => Some IK_Infix
         | None => match assoc_opt infix_table ty with
                   | Some h => Some (IK_Builtin h)
                   | None => None
                   end
         end.

  (* ParseInfixExpression *)
  Definition parse_infix_expression (left : expr) (s : pstate) : res expr :=
    match infix_lookup (t_type (ps_peek s)) with
    | None => Some (left, s)
    | Some k =>
        let s1 := ps_next s in
        match k with
        | IK_Postfix => Some (EPostfix (ps_cur s1) left (t_lit (ps_cur s1)), s1)
        | IK_Infix => parse_binary_expression left s1
        | IK_Builtin h => infix_handler_run h left s1
        end
    end.

  (* ParseRemainingExpressionWithPrecedence *)
  Fixpoint remaining_loop (n : nat) (left : expr) (prec : Z) (s : pstate) : res expr :=
    match n with
    | O => None
    | S n' =>
        if negb (peek_is s T_SEMICOLON) && (prec <? peek_precedence cfg s) then
          if t_nl (ps_peek s) && (peek_is s T_INCREMENT || peek_is s T_DECREMENT) then Some (left, s)
          else if c_smart cfg && t_nl (ps_peek s) && (peek_is s T_LPAREN || peek_is s T_LBRACKET)
          then Some (left, s)
          else
            do (left', s1) <- parse_infix_expression left s;
            remaining_loop n' left' prec s1
        else Some (left, s)
    end.

  Definition parse_remaining_with_precedence (left : expr) (prec : Z) (s : pstate) : res expr :=
    remaining_loop loop_fuel left prec s.

  (* baseParseExpression *)
  Definition base_parse_expression (prec : Z) (s : pstate) : res expr :=
    do (left, s1) <- parse_prefix_expression s;
    parse_remaining_with_precedence left prec s1.

  (* the statement interceptor chain: first installed runs first *)
  Fixpoint run_stmt_chain (ics : list stmt_ic) (s : pstate) : res stmt :=
    match ics with
    | [] => base_parse_statement s
    | SI_Pass :: ics' => run_stmt_chain ics' s
    | SI_Probe id :: ics' => run_stmt_chain ics' (log_event s id 0)
    end.

  (* the expression interceptor chain; every wrapper saves, sets and restores
     currentExpressionPrecedence *)
  Fixpoint run_expr_chain (ics : list expr_ic) (prec : Z) (s : pstate) : res expr :=
    match ics with
    | [] => base_parse_expression prec s
    | ic :: ics' =>
        let old := ps_cep s in
        let s1 := set_cep s prec in
        do (r, s2) <- match ic with
                      | EI_Pass => run_expr_chain ics' prec s1
                      | EI_Probe id => run_expr_chain ics' prec (log_event s1 id 1)
                      | EI_Reentrant =>
                          do (left, s') <- parse_prefix_expression s1;
                          parse_remaining_with_precedence left (ps_cep s') s'
                      end;
        Some (r, set_cep s2 old)
    end.
End Open.

(* ---------- closing the recursion on fuel ---------- *)

Fixpoint stmt_fn (cfg : pcfg) (fuel : nat) (s : pstate) : res stmt :=
  match fuel with
  | O => None
  | S f => run_stmt_chain cfg (stmt_fn cfg f) (expr_fn cfg f) f (c_stmt_ics cfg) s
  end
with expr_fn (cfg : pcfg) (fuel : nat) (prec : Z) (s : pstate) : res expr :=
  match fuel with
  | O => None
  | S f => run_expr_chain cfg (stmt_fn cfg f) (expr_fn cfg f) f (c_expr_ics cfg) prec s
  end.

(* newWithOptions: read two tokens *)
Definition ps_init (toks : list token) (eof : token) : pstate :=
  ps_next (ps_next (mkps zero_token zero_token toks eof [] [P_GlobalContext] 0 [])).

(* ParseProgram: the statement loop *)
Fixpoint program_loop (cfg : pcfg) (fuel : nat) (n : nat) (acc : list stmt) (s : pstate)
  : res (list stmt) :=
  match n with
  | O => None
  | S n' =>
      if negb (cur_is s T_EOF) then
        do (st, s1) <- stmt_fn cfg fuel s;
        program_loop cfg fuel n' (if is_snil st then acc else acc ++ [st]) (ps_next s1)
      else Some (acc, s)
  end.

Record parse_result := mkpr {
  pr_program : program;
  pr_errors : list perror;
  pr_err_returned : bool;     (* the error value of ParseProgram is non-nil *)
  pr_final : pstate
}.

Definition parse_program_from (cfg : pcfg) (fuel : nat) (s : pstate) : option parse_result :=
  match program_loop cfg fuel fuel [] s with
  | None => None
  | Some (stmts, s1) =>
      Some (mkpr (mkprogram stmts (ps_cur s1)) (ps_errors s1)
                 (match ps_errors s1 with [] => false | _ => true end) s1)
  end.

(* fuel that is always enough (C11): linear in the number of tokens *)
Definition parse_fuel (toks : list token) : nat := 4 * length toks + 16.

(* what the lexer answers when end-of-input is requested again: the same token
   without trivia (Props/C10.v, C10_eof_stable) *)
Definition eof_again (t : token) : token :=
  mktoken (t_type t) (t_lit t) (t_start t) (t_end t) false [].

Definition parse_tokens (cfg : pcfg) (toks : list token) : option parse_result :=
  let eof := eof_again (last toks zero_token) in
  parse_program_from cfg (parse_fuel toks) (ps_init toks eof).
