(* RenameProofs.v -- a registered operator behaves like the built-in it is modelled on:
   a simulation between the parser run with the operator registered and the parser run
   on the token stream with the operator's tokens renamed.  Used by Props/C05.v. *)
Require Import Base Token Tree Parser Registry ParserSpec RegistryProofs.
Require Import Gen.Tables.
From Coq Require Import ZifyBool ZifyN ZifyNat Lia.

(* ------------------------------------------------------------------ *)
(* 0. vocabulary                                                       *)
(* ------------------------------------------------------------------ *)

(* the token type after renaming *)
Definition rty (ty b k : Z) : Z := if k =? ty then b else k.

(* handler dispatch, with "registered" and "built-in" routes to the same code identified *)
Definition ik_norm (k : option infix_kind) : option (option infix_handler) :=
  match k with
  | None => None
  | Some IK_Postfix => Some None
  | Some IK_Infix => Some (Some IH_ParseBinaryExpression)
  | Some (IK_Builtin h) => Some (Some h)
  end.

Definition pk_norm (cfg : pcfg) (k : Z) : option prefix_handler :=
  if memZ k (c_prefix_ops cfg) then Some PH_ParseUnaryExpression else assoc_opt prefix_table k.

Definition rmap {A} (f : A -> A) (rs : pstate -> pstate) (o : res A) : res A :=
  match o with
  | Some (r, s) => Some (f r, rs s)
  | None => None
  end.

Lemma parse_infix_norm cfg ef lf left s :
  parse_infix_expression cfg ef lf left s =
  match ik_norm (infix_lookup cfg (t_type (ps_peek s))) with
  | None => Some (left, s)
  | Some None => Some (EPostfix (ps_cur (ps_next s)) left (t_lit (ps_cur (ps_next s))), ps_next s)
  | Some (Some h) => infix_handler_run cfg ef lf h left (ps_next s)
  end.
Proof.
  unfold parse_infix_expression.
  destruct (infix_lookup cfg (t_type (ps_peek s))) as [[| |h]|]; reflexivity.
Qed.

Lemma parse_prefix_norm cfg sf ef lf s :
  parse_prefix_expression cfg sf ef lf s =
  match pk_norm cfg (t_type (ps_cur s)) with
  | Some h => prefix_handler_run cfg sf ef lf h s
  | None => Some (ENil, add_error s EK_UNEXPECTED 0)
  end.
Proof.
  unfold parse_prefix_expression, pk_norm.
  destruct (memZ (t_type (ps_cur s)) (c_prefix_ops cfg)); reflexivity.
Qed.

Lemma last_map {A B} (f : A -> B) l d : last (map f l) (f d) = f (last l d).
Proof.
  induction l as [|x l IH]; [reflexivity|].
  destruct l as [|y l]; [reflexivity|]. exact IH.
Qed.

(* ------------------------------------------------------------------ *)
(* 1. the simulation, over an abstract pair of configurations          *)
(* ------------------------------------------------------------------ *)

Ltac scrut R :=
  lazymatch R with
  | context [match ?y with _ => _ end] => scrut y
  | _ => constr:(R)
  end.

Section Sim.
  Variables (cfg' cfg : pcfg) (ty b : Z).
  Hypothesis Hty : T_DYNAMIC_TOKENS_START <= ty.
  Hypothesis Hb : 10 <= b <= 23.
  Hypothesis Htol : c_tolerant cfg' = c_tolerant cfg.
  Hypothesis Hsmart : c_smart cfg' = c_smart cfg.
  Hypothesis Hsics : c_stmt_ics cfg' = c_stmt_ics cfg.
  Hypothesis Heics : c_expr_ics cfg' = c_expr_ics cfg.
  Hypothesis Hprec : forall k, precedence_of cfg' k = precedence_of cfg (rty ty b k).
  Hypothesis Hinfix : forall k, ik_norm (infix_lookup cfg' k) = ik_norm (infix_lookup cfg (rty ty b k)).
  Hypothesis Hprefix : forall k, pk_norm cfg' k = pk_norm cfg (rty ty b k).

  Notation ρ := (rename_tok ty b).
  Notation rI := (rename_ident ty b).
  Notation rE := (rename_expr ty b).
  Notation rS := (rename_stmt ty b).

  Definition rev (e : pevent) : pevent :=
    mkev (ev_id e) (ev_kind e) (ρ (ev_tok e)) (ev_ctx e) (ev_infn e).

  Definition rs (s : pstate) : pstate :=
    mkps (ρ (ps_cur s)) (ρ (ps_peek s)) (map ρ (ps_rest s)) (ρ (ps_eof s))
         (ps_errors s) (ps_ctx s) (ps_cep s) (map rev (ps_log s)).

  Definition safe (K : Z) : Prop := K <> ty /\ K <> b.

  Ltac safe_slow :=
    unfold safe, T_DYNAMIC_TOKENS_START, T_EOF, T_SEMICOLON, T_RBRACE, T_IDENT, T_ASSIGN, T_COMMA, T_RPAREN, T_LPAREN, T_LBRACE, T_LBRACKET, T_RBRACKET, T_COLON, T_ELSE, T_LET, T_INCREMENT, T_DECREMENT, T_PLUS_ASSIGN, T_MINUS_ASSIGN, T_TRUE, T_FUNCTION, T_RETURN, T_IF, T_WHILE, T_FOR in *; lia.

  Lemma safe_T_EOF : safe T_EOF.
  Proof. safe_slow. Qed.
  Lemma safe_T_SEMICOLON : safe T_SEMICOLON.
  Proof. safe_slow. Qed.
  Lemma safe_T_RBRACE : safe T_RBRACE.
  Proof. safe_slow. Qed.
  Lemma safe_T_IDENT : safe T_IDENT.
  Proof. safe_slow. Qed.
  Lemma safe_T_ASSIGN : safe T_ASSIGN.
  Proof. safe_slow. Qed.
  Lemma safe_T_COMMA : safe T_COMMA.
  Proof. safe_slow. Qed.
  Lemma safe_T_RPAREN : safe T_RPAREN.
  Proof. safe_slow. Qed.
  Lemma safe_T_LPAREN : safe T_LPAREN.
  Proof. safe_slow. Qed.
  Lemma safe_T_LBRACE : safe T_LBRACE.
  Proof. safe_slow. Qed.
  Lemma safe_T_LBRACKET : safe T_LBRACKET.
  Proof. safe_slow. Qed.
  Lemma safe_T_RBRACKET : safe T_RBRACKET.
  Proof. safe_slow. Qed.
  Lemma safe_T_COLON : safe T_COLON.
  Proof. safe_slow. Qed.
  Lemma safe_T_ELSE : safe T_ELSE.
  Proof. safe_slow. Qed.
  Lemma safe_T_LET : safe T_LET.
  Proof. safe_slow. Qed.
  Lemma safe_T_INCREMENT : safe T_INCREMENT.
  Proof. safe_slow. Qed.
  Lemma safe_T_DECREMENT : safe T_DECREMENT.
  Proof. safe_slow. Qed.
  Lemma safe_T_PLUS_ASSIGN : safe T_PLUS_ASSIGN.
  Proof. safe_slow. Qed.
  Lemma safe_T_MINUS_ASSIGN : safe T_MINUS_ASSIGN.
  Proof. safe_slow. Qed.
  Lemma safe_T_TRUE : safe T_TRUE.
  Proof. safe_slow. Qed.
  Lemma safe_T_FUNCTION : safe T_FUNCTION.
  Proof. safe_slow. Qed.
  Lemma safe_T_RETURN : safe T_RETURN.
  Proof. safe_slow. Qed.
  Lemma safe_T_IF : safe T_IF.
  Proof. safe_slow. Qed.
  Lemma safe_T_WHILE : safe T_WHILE.
  Proof. safe_slow. Qed.
  Lemma safe_T_FOR : safe T_FOR.
  Proof. safe_slow. Qed.

  Ltac safe_tac :=
    first [ assumption
          | exact safe_T_EOF
          | exact safe_T_SEMICOLON
          | exact safe_T_RBRACE
          | exact safe_T_IDENT
          | exact safe_T_ASSIGN
          | exact safe_T_COMMA
          | exact safe_T_RPAREN
          | exact safe_T_LPAREN
          | exact safe_T_LBRACE
          | exact safe_T_LBRACKET
          | exact safe_T_RBRACKET
          | exact safe_T_COLON
          | exact safe_T_ELSE
          | exact safe_T_LET
          | exact safe_T_INCREMENT
          | exact safe_T_DECREMENT
          | exact safe_T_PLUS_ASSIGN
          | exact safe_T_MINUS_ASSIGN
          | exact safe_T_TRUE
          | exact safe_T_FUNCTION
          | exact safe_T_RETURN
          | exact safe_T_IF
          | exact safe_T_WHILE
          | exact safe_T_FOR
          ].

  (* --- tokens --- *)
  Lemma type_ρ t : t_type (ρ t) = rty ty b (t_type t).
  Proof. unfold rename_tok, rty. destruct (t_type t =? ty); reflexivity. Qed.
  Lemma t_lit_ρ t : t_lit (ρ t) = t_lit t.
  Proof. unfold rename_tok. destruct (t_type t =? ty); reflexivity. Qed.
  Lemma t_nl_ρ t : t_nl (ρ t) = t_nl t.
  Proof. unfold rename_tok. destruct (t_type t =? ty); reflexivity. Qed.
  Lemma t_start_ρ t : t_start (ρ t) = t_start t.
  Proof. unfold rename_tok. destruct (t_type t =? ty); reflexivity. Qed.
  Lemma t_end_ρ t : t_end (ρ t) = t_end t.
  Proof. unfold rename_tok. destruct (t_type t =? ty); reflexivity. Qed.

  Lemma rty_eqb K k : safe K -> (rty ty b k =? K) = (k =? K).
  Proof. unfold safe, rty. intros [H1 H2]. destruct (k =? ty) eqn:E; lia. Qed.

  Lemma type_ρ_eqb K t : safe K -> (t_type (ρ t) =? K) = (t_type t =? K).
  Proof. intros H. rewrite type_ρ. apply rty_eqb, H. Qed.

  Lemma mk_ident_ρ t : mk_ident (ρ t) = rI (mk_ident t).
  Proof. unfold mk_ident, rename_ident. cbn [id_tok id_value]. rewrite t_lit_ρ. reflexivity. Qed.

  Lemma ρ_zero : ρ zero_token = zero_token.
  Proof.
    unfold rename_tok, zero_token. cbn [t_type].
    destruct (0 =? ty) eqn:E; [|reflexivity]. unfold T_DYNAMIC_TOKENS_START in Hty. lia.
  Qed.

  Lemma eof_again_ρ t : eof_again (ρ t) = ρ (eof_again t).
  Proof.
    unfold eof_again. rewrite t_lit_ρ, t_start_ρ, t_end_ρ.
    unfold rename_tok. cbn [t_type t_lit t_start t_end t_nl t_comments].
    destruct (t_type t =? ty); reflexivity.
  Qed.

  (* --- the state primitives --- *)
  Lemma ps_cur_rs s : ps_cur (rs s) = ρ (ps_cur s).
  Proof. reflexivity. Qed.
  Lemma ps_peek_rs s : ps_peek (rs s) = ρ (ps_peek s).
  Proof. reflexivity. Qed.
  Lemma ps_cep_rs s : ps_cep (rs s) = ps_cep s.
  Proof. reflexivity. Qed.
  Lemma ps_errors_rs s : ps_errors (rs s) = ps_errors s.
  Proof. reflexivity. Qed.

  Lemma ps_next_rs s : ps_next (rs s) = rs (ps_next s).
  Proof. destruct s as [c p r e er cx cp lg]. destruct r; reflexivity. Qed.

  Lemma add_error_at_rs s k a t : add_error_at (rs s) k a (ρ t) = rs (add_error_at s k a t).
  Proof. unfold add_error_at, rs. cbn. rewrite t_start_ρ, t_end_ρ. reflexivity. Qed.

  Lemma add_error_rs s k a : add_error (rs s) k a = rs (add_error s k a).
  Proof. unfold add_error. rewrite ps_cur_rs. apply add_error_at_rs. Qed.

  Lemma push_ctx_rs s c : push_ctx (rs s) c = rs (push_ctx s c).
  Proof. reflexivity. Qed.
  Lemma pop_ctx_rs s : pop_ctx (rs s) = rs (pop_ctx s).
  Proof. reflexivity. Qed.
  Lemma set_cep_rs s p : set_cep (rs s) p = rs (set_cep s p).
  Proof. reflexivity. Qed.

  Lemma log_event_rs s id k : log_event (rs s) id k = rs (log_event s id k).
  Proof. unfold log_event, rs. cbn. rewrite map_app. reflexivity. Qed.

  Lemma cur_is_rs s K : safe K -> cur_is (rs s) K = cur_is s K.
  Proof. intros H. unfold cur_is. rewrite ps_cur_rs. apply type_ρ_eqb, H. Qed.
  Lemma peek_is_rs s K : safe K -> peek_is (rs s) K = peek_is s K.
  Proof. intros H. unfold peek_is. rewrite ps_peek_rs. apply type_ρ_eqb, H. Qed.

  Lemma expect_rs s K : safe K -> expect (rs s) K = (fst (expect s K), rs (snd (expect s K))).
  Proof.
    intros H. unfold expect. rewrite (peek_is_rs s K H). destruct (peek_is s K); cbn [fst snd].
    - rewrite ps_next_rs. reflexivity.
    - rewrite ps_peek_rs, add_error_at_rs. reflexivity.
  Qed.

  Lemma should_insert_semicolon_rs s : should_insert_semicolon (rs s) = should_insert_semicolon s.
  Proof.
    unfold should_insert_semicolon.
    rewrite !peek_is_rs by safe_tac. rewrite ps_peek_rs, t_nl_ρ.
    unfold asi_switch_false. cbn [memZ]. rewrite type_ρ_eqb by safe_tac. reflexivity.
  Qed.

  Lemma expect_semicolon_asi_rs s :
    expect_semicolon_asi cfg (rs s) = (fst (expect_semicolon_asi cfg' s), rs (snd (expect_semicolon_asi cfg' s))).
  Proof.
    unfold expect_semicolon_asi.
    rewrite peek_is_rs by safe_tac. rewrite should_insert_semicolon_rs, Htol.
    destruct (peek_is s T_SEMICOLON); cbn [fst snd]; [rewrite ps_next_rs; reflexivity|].
    destruct (should_insert_semicolon s); [reflexivity|].
    destruct (c_tolerant cfg); [reflexivity|]. cbn [fst snd].
    rewrite ps_peek_rs, add_error_at_rs. reflexivity.
  Qed.

  Lemma peek_precedence_rs s : peek_precedence cfg (rs s) = peek_precedence cfg' s.
  Proof. unfold peek_precedence. rewrite ps_peek_rs, type_ρ, Hprec. reflexivity. Qed.
  Lemma current_precedence_rs s : current_precedence cfg (rs s) = current_precedence cfg' s.
  Proof. unfold current_precedence. rewrite ps_cur_rs, type_ρ, Hprec. reflexivity. Qed.

  Lemma is_snil_rS st : is_snil (rS st) = is_snil st.
  Proof. destruct st; reflexivity. Qed.

  Lemma if_map {A B} (f : A -> B) (c : bool) acc x :
    (if c then map f acc else map f acc ++ [f x]) = map f (if c then acc else acc ++ [x]).
  Proof. destruct c; [reflexivity|]. rewrite map_app. reflexivity. Qed.

  Lemma map_snoc {A B} (f : A -> B) acc x : map f acc ++ [f x] = map f (acc ++ [x]).
  Proof. rewrite map_app. reflexivity. Qed.

  Hint Rewrite ps_next_rs ps_cur_rs ps_peek_rs ps_cep_rs push_ctx_rs pop_ctx_rs set_cep_rs
       log_event_rs add_error_rs expect_semicolon_asi_rs
       t_nl_ρ t_lit_ρ mk_ident_ρ is_snil_rS Htol Hsmart ρ_zero : rsdb.
  Hint Rewrite peek_is_rs cur_is_rs expect_rs type_ρ_eqb using safe_tac : rsdb.

  Ltac rdx :=
    cbn [rmap fst snd negb andb orb rename_expr rename_stmt option_map map].

  Ltac step :=
    autorewrite with rsdb; rdx;
    lazymatch goal with
    | |- _ = ?R =>
        lazymatch R with
        | context [match ?y with _ => _ end] => let z := scrut y in destruct z eqn:?
        end
    end.

  Ltac go := repeat step; autorewrite with rsdb; rdx; autorewrite with rsdb; try reflexivity.

  (* --- the Parse* functions, open recursion --- *)
  (* keep unification from unfolding the primitives while rewriting *)
  Opaque rs rename_tok peek_precedence current_precedence cur_is peek_is expect expect_semicolon_asi ps_next add_error add_error_at push_ctx pop_ctx set_cep log_event should_insert_semicolon mk_ident.

  Section Fns.
    Variables (sf' sf : pstate -> res stmt) (ef' ef : Z -> pstate -> res expr) (lf : nat).
    Hypothesis Hsf : forall s, sf (rs s) = rmap rS rs (sf' s).
    Hypothesis Hef : forall p s, ef p (rs s) = rmap rE rs (ef' p s).
    Hint Rewrite Hsf Hef : rsdb.

    Lemma params_loop_sim n : forall acc s,
      params_loop n (map rI acc) (rs s) = rmap (map rI) rs (params_loop n acc s).
    Proof.
      induction n as [|n IH]; intros acc s; cbn [params_loop]; [reflexivity|].
      go. rewrite map_snoc. apply IH.
    Qed.

    Lemma params_loop_sim1 n x s :
      params_loop n [rI x] (rs s) = rmap (map rI) rs (params_loop n [x] s).
    Proof. exact (params_loop_sim n [x] s). Qed.

    Lemma parse_function_parameters_sim s :
      parse_function_parameters lf (rs s) = rmap (map rI) rs (parse_function_parameters lf s).
    Proof.
      unfold parse_function_parameters. step; [go|].
      autorewrite with rsdb. rewrite params_loop_sim1. go.
    Qed.

    Hint Rewrite parse_function_parameters_sim : rsdb.

    Lemma block_loop_sim n : forall acc s,
      block_loop sf n (map rS acc) (rs s) = rmap (map rS) rs (block_loop sf' n acc s).
    Proof.
      induction n as [|n IH]; intros acc s; cbn [block_loop]; [reflexivity|].
      go; try rewrite map_snoc; apply IH.
    Qed.

    Lemma block_loop_sim0 n s :
      block_loop sf n [] (rs s) = rmap (map rS) rs (block_loop sf' n [] s).
    Proof. exact (block_loop_sim n [] s). Qed.

    Lemma parse_block_statement_sim s :
      parse_block_statement cfg sf lf (rs s) = rmap rS rs (parse_block_statement cfg' sf' lf s).
    Proof.
      unfold parse_block_statement. autorewrite with rsdb. rewrite block_loop_sim0. go.
    Qed.
    Hint Rewrite parse_block_statement_sim : rsdb.

    Lemma parse_let_statement_sim s :
      parse_let_statement cfg ef (rs s) = rmap rS rs (parse_let_statement cfg' ef' s).
    Proof. unfold parse_let_statement, parse_expression. go. Qed.

    Lemma parse_let_expression_sim s :
      parse_let_expression ef (rs s) = rmap rE rs (parse_let_expression ef' s).
    Proof. unfold parse_let_expression, parse_expression. go. Qed.

    Lemma parse_function_statement_sim s :
      parse_function_statement cfg sf lf (rs s) = rmap rS rs (parse_function_statement cfg' sf' lf s).
    Proof. unfold parse_function_statement. go. Qed.

    Lemma parse_return_statement_sim s :
      parse_return_statement cfg ef (rs s) = rmap rS rs (parse_return_statement cfg' ef' s).
    Proof. unfold parse_return_statement, parse_expression. go. Qed.

    Lemma parse_if_statement_sim s :
      parse_if_statement sf ef (rs s) = rmap rS rs (parse_if_statement sf' ef' s).
    Proof. unfold parse_if_statement, parse_expression. go. Qed.

    Lemma parse_while_statement_sim s :
      parse_while_statement sf ef (rs s) = rmap rS rs (parse_while_statement sf' ef' s).
    Proof. unfold parse_while_statement, parse_expression. go. Qed.

    Hint Rewrite parse_let_expression_sim : rsdb.

    Lemma parse_for_statement_sim s :
      parse_for_statement sf ef (rs s) = rmap rS rs (parse_for_statement sf' ef' s).
    Proof. unfold parse_for_statement, parse_expression. go. Qed.

    Lemma parse_expression_statement_sim s :
      parse_expression_statement cfg ef (rs s) = rmap rS rs (parse_expression_statement cfg' ef' s).
    Proof. unfold parse_expression_statement, parse_expression. go. Qed.

    Hint Rewrite parse_let_statement_sim parse_function_statement_sim parse_return_statement_sim
         parse_if_statement_sim parse_while_statement_sim parse_for_statement_sim
         parse_expression_statement_sim : rsdb.

    Lemma base_parse_statement_sim s :
      base_parse_statement cfg sf ef lf (rs s) = rmap rS rs (base_parse_statement cfg' sf' ef' lf s).
    Proof. unfold base_parse_statement. go. Qed.

    (* expressions *)
    Lemma expr_list_loop_sim n : forall acc s,
      expr_list_loop ef n (map rE acc) (rs s) = rmap (map rE) rs (expr_list_loop ef' n acc s).
    Proof.
      induction n as [|n IH]; intros acc s; cbn [expr_list_loop]; [reflexivity|].
      unfold parse_expression. go. rewrite map_snoc. apply IH.
    Qed.

    Lemma expr_list_loop_sim1 n x s :
      expr_list_loop ef n [rE x] (rs s) = rmap (map rE) rs (expr_list_loop ef' n [x] s).
    Proof. exact (expr_list_loop_sim n [x] s). Qed.
    Hint Rewrite expr_list_loop_sim1 : rsdb.

    Lemma parse_expression_list_sim K s : safe K ->
      parse_expression_list ef lf K (rs s) = rmap (map rE) rs (parse_expression_list ef' lf K s).
    Proof. intros HK. unfold parse_expression_list, parse_expression. go. Qed.
    Hint Rewrite parse_expression_list_sim using safe_tac : rsdb.

    Notation rKV := (fun kv : expr * expr => (rE (fst kv), rE (snd kv))).

    Lemma map_snoc_kv acc k v : map rKV acc ++ [(rE k, rE v)] = map rKV (acc ++ [(k, v)]).
    Proof. rewrite map_app. reflexivity. Qed.

    Lemma object_loop_sim n : forall acc s,
      object_loop ef n (map rKV acc) (rs s) = rmap (option_map (map rKV)) rs (object_loop ef' n acc s).
    Proof.
      induction n as [|n IH]; intros acc s; cbn [object_loop]; [reflexivity|].
      unfold parse_expression. go; rewrite map_snoc_kv; [reflexivity|apply IH].
    Qed.

    Lemma object_loop_sim0 n s :
      object_loop ef n [] (rs s) = rmap (option_map (map rKV)) rs (object_loop ef' n [] s).
    Proof. exact (object_loop_sim n [] s). Qed.
    Hint Rewrite object_loop_sim0 : rsdb.

    Lemma parse_object_literal_sim s :
      parse_object_literal ef lf (rs s) = rmap rE rs (parse_object_literal ef' lf s).
    Proof. unfold parse_object_literal. go. Qed.

    Lemma parse_function_expression_sim s :
      parse_function_expression cfg sf lf (rs s) = rmap rE rs (parse_function_expression cfg' sf' lf s).
    Proof. unfold parse_function_expression. go. Qed.

    Lemma parse_grouped_expression_sim s :
      parse_grouped_expression ef (rs s) = rmap rE rs (parse_grouped_expression ef' s).
    Proof. unfold parse_grouped_expression, parse_expression. go. Qed.

    Lemma parse_unary_expression_sim s :
      parse_unary_expression ef (rs s) = rmap rE rs (parse_unary_expression ef' s).
    Proof. unfold parse_unary_expression. go. Qed.

    Hint Rewrite parse_object_literal_sim parse_function_expression_sim parse_grouped_expression_sim
         parse_unary_expression_sim : rsdb.

    Lemma prefix_handler_run_sim h s :
      prefix_handler_run cfg sf ef lf h (rs s) = rmap rE rs (prefix_handler_run cfg' sf' ef' lf h s).
    Proof. destruct h; cbn [prefix_handler_run]; go. Qed.

    Lemma parse_prefix_expression_sim s :
      parse_prefix_expression cfg sf ef lf (rs s) = rmap rE rs (parse_prefix_expression cfg' sf' ef' lf s).
    Proof.
      rewrite !parse_prefix_norm. rewrite ps_cur_rs, type_ρ, <- Hprefix.
      destruct (pk_norm cfg' (t_type (ps_cur s))) as [h|].
      - apply prefix_handler_run_sim.
      - go.
    Qed.

    Lemma parse_binary_expression_sim left s :
      parse_binary_expression cfg ef (rE left) (rs s) = rmap rE rs (parse_binary_expression cfg' ef' left s).
    Proof. unfold parse_binary_expression. rewrite current_precedence_rs. go. Qed.
    Hint Rewrite parse_binary_expression_sim : rsdb.

    Lemma infix_handler_run_sim h left s :
      infix_handler_run cfg ef lf h (rE left) (rs s) = rmap rE rs (infix_handler_run cfg' ef' lf h left s).
    Proof. destruct h; cbn [infix_handler_run]; unfold parse_expression; go. Qed.

    Lemma parse_infix_expression_sim left s :
      parse_infix_expression cfg ef lf (rE left) (rs s) = rmap rE rs (parse_infix_expression cfg' ef' lf left s).
    Proof.
      rewrite !parse_infix_norm. rewrite ps_peek_rs, type_ρ, <- Hinfix.
      destruct (ik_norm (infix_lookup cfg' (t_type (ps_peek s)))) as [[h|]|].
      - rewrite ps_next_rs. apply infix_handler_run_sim.
      - go.
      - go.
    Qed.
    Hint Rewrite parse_infix_expression_sim : rsdb.

    Lemma remaining_loop_sim n : forall left prec s,
      remaining_loop cfg ef lf n (rE left) prec (rs s) = rmap rE rs (remaining_loop cfg' ef' lf n left prec s).
    Proof.
      induction n as [|n IH]; intros left prec s; cbn [remaining_loop]; [reflexivity|].
      rewrite peek_precedence_rs. go. apply IH.
    Qed.

    Lemma parse_remaining_sim left prec s :
      parse_remaining_with_precedence cfg ef lf (rE left) prec (rs s)
      = rmap rE rs (parse_remaining_with_precedence cfg' ef' lf left prec s).
    Proof. unfold parse_remaining_with_precedence. apply remaining_loop_sim. Qed.
    Hint Rewrite parse_prefix_expression_sim parse_remaining_sim : rsdb.

    Lemma base_parse_expression_sim prec s :
      base_parse_expression cfg sf ef lf prec (rs s) = rmap rE rs (base_parse_expression cfg' sf' ef' lf prec s).
    Proof. unfold base_parse_expression. go. Qed.

    Lemma run_stmt_chain_sim ics : forall s,
      run_stmt_chain cfg sf ef lf ics (rs s) = rmap rS rs (run_stmt_chain cfg' sf' ef' lf ics s).
    Proof.
      induction ics as [|ic ics IH]; intros s; cbn [run_stmt_chain].
      - apply base_parse_statement_sim.
      - destruct ic; [apply IH|]. rewrite log_event_rs. apply IH.
    Qed.

    Lemma run_expr_chain_sim ics : forall prec s,
      run_expr_chain cfg sf ef lf ics prec (rs s) = rmap rE rs (run_expr_chain cfg' sf' ef' lf ics prec s).
    Proof.
      induction ics as [|ic ics IH]; intros prec s; cbn [run_expr_chain].
      - apply base_parse_expression_sim.
      - destruct ic.
        + autorewrite with rsdb. rewrite IH. go.
        + autorewrite with rsdb. rewrite IH. go.
        + go.
    Qed.
  End Fns.

  Transparent rs rename_tok peek_precedence current_precedence cur_is peek_is expect expect_semicolon_asi ps_next add_error add_error_at push_ctx pop_ctx set_cep log_event should_insert_semicolon mk_ident.

  (* --- closing the recursion --- *)
  Lemma fn_sim fuel :
    (forall s, stmt_fn cfg fuel (rs s) = rmap rS rs (stmt_fn cfg' fuel s)) /\
    (forall p s, expr_fn cfg fuel p (rs s) = rmap rE rs (expr_fn cfg' fuel p s)).
  Proof.
    induction fuel as [|f [IHs IHe]]; split; intros; cbn [stmt_fn expr_fn]; try reflexivity.
    - rewrite Hsics. apply run_stmt_chain_sim; assumption.
    - rewrite Heics. apply run_expr_chain_sim; assumption.
  Qed.

  Lemma program_loop_sim fuel n : forall acc s,
    program_loop cfg fuel n (map rS acc) (rs s) = rmap (map rS) rs (program_loop cfg' fuel n acc s).
  Proof.
    induction n as [|n IH]; intros acc s; cbn [program_loop]; [reflexivity|].
    rewrite (proj1 (fn_sim fuel)). go; try rewrite map_snoc; apply IH.
  Qed.

  Lemma parse_program_from_sim fuel s :
    option_map (fun r => (rename_program ty b (pr_program r), pr_errors r))
               (parse_program_from cfg' fuel s)
    = option_map (fun r => (pr_program r, pr_errors r)) (parse_program_from cfg fuel (rs s)).
  Proof.
    unfold parse_program_from. change (@nil stmt) with (map rS []) at 2.
    rewrite (program_loop_sim fuel fuel [] s).
    destruct (program_loop cfg' fuel fuel [] s) as [[stmts s1]|]; [|reflexivity].
    reflexivity.
  Qed.

  Lemma ps_init_rs toks eof : ps_init (map ρ toks) (ρ eof) = rs (ps_init toks eof).
  Proof.
    unfold ps_init. rewrite <- !ps_next_rs. unfold rs at 1.
    cbn [ps_cur ps_peek ps_rest ps_eof ps_errors ps_ctx ps_cep ps_log map].
    rewrite ρ_zero. reflexivity.
  Qed.

  Lemma parse_tokens_sim toks :
    option_map (fun r => (rename_program ty b (pr_program r), pr_errors r)) (parse_tokens cfg' toks)
    = option_map (fun r => (pr_program r, pr_errors r)) (parse_tokens cfg (map ρ toks)).
  Proof.
    unfold parse_tokens, parse_fuel. rewrite map_length.
    rewrite <- ρ_zero at 2. rewrite last_map, eof_again_ρ, ps_init_rs.
    apply parse_program_from_sim.
  Qed.
End Sim.

(* ------------------------------------------------------------------ *)
(* 2. the two instances                                                *)
(* ------------------------------------------------------------------ *)

Lemma assoc_opt_app_ne {B} (l : list (Z * B)) ty p k :
  k <> ty -> assoc_opt (l ++ [(ty, p)]) k = assoc_opt l k.
Proof.
  intros Hne. induction l as [|[k' v] l IH]; cbn [app assoc_opt].
  - destruct (k =? ty) eqn:E; [lia|reflexivity].
  - destruct (k =? k'); [reflexivity|exact IH].
Qed.

Lemma assoc_opt_app_fresh {B} (l : list (Z * B)) ty p :
  assoc_opt l ty = None -> assoc_opt (l ++ [(ty, p)]) ty = Some p.
Proof.
  induction l as [|[k' v] l IH]; cbn [app assoc_opt].
  - rewrite Z.eqb_refl. reflexivity.
  - destruct (ty =? k'); [discriminate|exact IH].
Qed.

Lemma memZ_app_ne l ty k : k <> ty -> memZ k (l ++ [ty]) = memZ k l.
Proof.
  intros Hne. induction l as [|y l IH]; cbn [app memZ].
  - destruct (k =? ty) eqn:E; [lia|reflexivity].
  - rewrite IH. reflexivity.
Qed.

Lemma memZ_app_self l ty : memZ ty (l ++ [ty]) = true.
Proof.
  induction l as [|y l IH]; cbn [app memZ].
  - rewrite Z.eqb_refl. reflexivity.
  - rewrite IH. apply orb_true_r.
Qed.

Lemma assoc_opt_big {B} (l : list (Z * B)) k :
  Forall (fun kv => fst kv < T_DYNAMIC_TOKENS_START) l -> T_DYNAMIC_TOKENS_START <= k ->
  assoc_opt l k = None.
Proof.
  intros HF Hk. induction HF as [|[k' v] l Hx HF IH]; cbn [assoc_opt]; [reflexivity|].
  cbn [fst] in Hx. destruct (k =? k') eqn:E; [lia|exact IH].
Qed.

Lemma infix_table_big k : T_DYNAMIC_TOKENS_START <= k -> assoc_opt infix_table k = None.
Proof. apply assoc_opt_big. unfold infix_table. repeat constructor. Qed.
Lemma prefix_table_big k : T_DYNAMIC_TOKENS_START <= k -> assoc_opt prefix_table k = None.
Proof. apply assoc_opt_big. unfold prefix_table. repeat constructor. Qed.
Lemma precedences_big k : T_DYNAMIC_TOKENS_START <= k -> assoc_opt parser_precedences k = None.
Proof. apply assoc_opt_big. unfold parser_precedences. repeat constructor. Qed.

Lemma plain_facts b : In b plain_binary_builtins ->
  10 <= b <= 23 /\ assoc_opt infix_table b = Some IH_ParseBinaryExpression /\
  assoc_opt prefix_table b = None.
Proof.
  unfold plain_binary_builtins. cbn [In]. intros H.
  repeat (destruct H as [H|H];
          [subst b; split; [vm_compute; split; discriminate|split; reflexivity]|]).
  contradiction.
Qed.

Lemma infix_like_builtin : forall cfg ty b toks,
  fresh_type cfg ty -> In b plain_binary_builtins -> untouched cfg b ->
  option_map (fun r => (rename_program ty b (pr_program r), pr_errors r))
             (parse_tokens (add_infix cfg ty (precedence_of cfg b)) toks)
  = option_map (fun r => (pr_program r, pr_errors r))
               (parse_tokens cfg (map (rename_tok ty b) toks)).
Proof.
  intros cfg ty b toks (Hty & Fpre & Fpost & Finf) Hb (Upre & Upost & Uinf).
  destruct (plain_facts b Hb) as (Hrange & Binf & Bpre).
  apply parse_tokens_sim; try reflexivity; try assumption.
  - (* precedences *)
    intros k. unfold rty. destruct (k =? ty) eqn:E.
    + apply Z.eqb_eq in E. subst k. unfold precedence_of at 1, add_infix.
      cbn [c_postfix_ops c_infix_ops]. rewrite Fpost, (assoc_opt_app_fresh _ _ _ Finf). reflexivity.
    + apply Z.eqb_neq in E. unfold precedence_of, add_infix.
      cbn [c_postfix_ops c_infix_ops]. rewrite (assoc_opt_app_ne _ _ _ _ E). reflexivity.
  - (* infix dispatch *)
    intros k. unfold rty. destruct (k =? ty) eqn:E.
    + apply Z.eqb_eq in E. subst k. unfold infix_lookup, add_infix.
      cbn [c_postfix_ops c_infix_ops].
      rewrite Fpost, (assoc_opt_app_fresh _ _ _ Finf), Upost, Uinf, Binf. reflexivity.
    + apply Z.eqb_neq in E. unfold infix_lookup, add_infix.
      cbn [c_postfix_ops c_infix_ops]. rewrite (assoc_opt_app_ne _ _ _ _ E). reflexivity.
  - (* prefix dispatch *)
    intros k. unfold rty. destruct (k =? ty) eqn:E; [|reflexivity].
    apply Z.eqb_eq in E. subst k. unfold pk_norm, add_infix. cbn [c_prefix_ops].
    rewrite Fpre, Upre, Bpre. apply prefix_table_big, Hty.
Qed.

Lemma prefix_like_builtin : forall cfg ty toks,
  fresh_type cfg ty -> untouched cfg T_NOT ->
  option_map (fun r => (rename_program ty T_NOT (pr_program r), pr_errors r))
             (parse_tokens (add_prefix cfg ty) toks)
  = option_map (fun r => (pr_program r, pr_errors r))
               (parse_tokens cfg (map (rename_tok ty T_NOT) toks)).
Proof.
  intros cfg ty toks (Hty & Fpre & Fpost & Finf) (Upre & Upost & Uinf).
  apply parse_tokens_sim; try reflexivity; try assumption.
  - unfold T_NOT. lia.
  - (* precedences *)
    intros k. unfold rty. destruct (k =? ty) eqn:E; [|reflexivity].
    apply Z.eqb_eq in E. subst k. unfold precedence_of, add_prefix.
    cbn [c_postfix_ops c_infix_ops].
    rewrite Fpost, Finf, Upost, Uinf, (precedences_big ty Hty). reflexivity.
  - (* infix dispatch *)
    intros k. unfold rty. destruct (k =? ty) eqn:E; [|reflexivity].
    apply Z.eqb_eq in E. subst k. unfold infix_lookup, add_prefix.
    cbn [c_postfix_ops c_infix_ops].
    rewrite Fpost, Finf, Upost, Uinf, (infix_table_big ty Hty). reflexivity.
  - (* prefix dispatch *)
    intros k. unfold rty. destruct (k =? ty) eqn:E.
    + apply Z.eqb_eq in E. subst k. unfold pk_norm, add_prefix. cbn [c_prefix_ops].
      rewrite memZ_app_self, Upre. reflexivity.
    + apply Z.eqb_neq in E. unfold pk_norm, add_prefix. cbn [c_prefix_ops].
      rewrite (memZ_app_ne _ _ _ E). reflexivity.
Qed.
