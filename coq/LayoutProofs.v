(* LayoutProofs.v -- C02 (layout clause): the parser looks at a token only through its
   type, literal and after-newline flag.  Two runs on token lists with equal cores proceed
   in lock step: a simulation relation [Rs] on parser states, "same shape" on results. *)
Require Import Base GoOps Token Tree Parser ParserSpec CommentSpec RelexSpec ModeProofs.
Require Import Gen.Tables.
From Coq Require Import ZifyBool ZifyN ZifyNat Lia.

(* what the parser can see of a token / what the statement compares of an error *)
Definition core (t : token) : Z * str * bool := (t_type t, t_lit t, t_nl t).
Definition ekey (e : perror) : Z * Z := (e_kind e, e_arg e).

Lemma core_type a b : core a = core b -> t_type a = t_type b.
Proof. unfold core; intro H; inversion H; reflexivity. Qed.
Lemma core_lit a b : core a = core b -> t_lit a = t_lit b.
Proof. unfold core; intro H; inversion H; reflexivity. Qed.
Lemma core_nl a b : core a = core b -> t_nl a = t_nl b.
Proof. unfold core; intro H; inversion H; reflexivity. Qed.
Lemma core_norm a b : core a = core b -> norm_tok a = norm_tok b.
Proof. unfold core, norm_tok; intro H; inversion H; congruence. Qed.

(* ---------- the simulation relation ---------- *)

Record Rs (s1 s2 : pstate) : Prop := mkRs {
  Rs_cur : core (ps_cur s1) = core (ps_cur s2);
  Rs_peek : core (ps_peek s1) = core (ps_peek s2);
  Rs_rest : map core (ps_rest s1) = map core (ps_rest s2);
  Rs_eof : core (ps_eof s1) = core (ps_eof s2);
  Rs_errors : map ekey (ps_errors s1) = map ekey (ps_errors s2);
  Rs_ctx : ps_ctx s1 = ps_ctx s2;
  Rs_cep : ps_cep s1 = ps_cep s2 }.

Lemma Rs_next s1 s2 : Rs s1 s2 -> Rs (ps_next s1) (ps_next s2).
Proof.
  intros [Hc Hp Hr He Her Hx Hcep]. unfold ps_next.
  destruct (ps_rest s1) as [|a l1], (ps_rest s2) as [|b l2]; cbn [map] in Hr; try discriminate.
  - constructor; cbn [ps_cur ps_peek ps_rest ps_eof ps_errors ps_ctx ps_cep map add_error_at set_ctx set_cep log_event]; auto.
  - assert (core a = core b /\ map core l1 = map core l2) as [Ha Hl] by (split; congruence).
    constructor; cbn [ps_cur ps_peek ps_rest ps_eof ps_errors ps_ctx ps_cep map add_error_at set_ctx set_cep log_event]; auto.
Qed.

Lemma Rs_adderr_at s1 s2 k a t1 t2 :
  Rs s1 s2 -> Rs (add_error_at s1 k a t1) (add_error_at s2 k a t2).
Proof.
  intros [Hc Hp Hr He Her Hx Hcep]. constructor; cbn [ps_cur ps_peek ps_rest ps_eof ps_errors ps_ctx ps_cep map add_error_at set_ctx set_cep log_event]; auto.
  rewrite !map_app, Her. reflexivity.
Qed.
Lemma Rs_adderr s1 s2 k a : Rs s1 s2 -> Rs (add_error s1 k a) (add_error s2 k a).
Proof. apply Rs_adderr_at. Qed.

Lemma Rs_setctx s1 s2 c1 c2 : Rs s1 s2 -> c1 = c2 -> Rs (set_ctx s1 c1) (set_ctx s2 c2).
Proof. intros [Hc Hp Hr He Her Hx Hcep] ->. constructor; cbn [ps_cur ps_peek ps_rest ps_eof ps_errors ps_ctx ps_cep map add_error_at set_ctx set_cep log_event]; auto. Qed.
Lemma Rs_push s1 s2 c : Rs s1 s2 -> Rs (push_ctx s1 c) (push_ctx s2 c).
Proof. intro H. apply Rs_setctx; [exact H|]. rewrite (Rs_ctx _ _ H). reflexivity. Qed.
Lemma Rs_pop s1 s2 : Rs s1 s2 -> Rs (pop_ctx s1) (pop_ctx s2).
Proof. intro H. apply Rs_setctx; [exact H|]. rewrite (Rs_ctx _ _ H). reflexivity. Qed.
Lemma Rs_setcep s1 s2 p1 p2 : Rs s1 s2 -> p1 = p2 -> Rs (set_cep s1 p1) (set_cep s2 p2).
Proof. intros [Hc Hp Hr He Her Hx Hcep] ->. constructor; cbn [ps_cur ps_peek ps_rest ps_eof ps_errors ps_ctx ps_cep map add_error_at set_ctx set_cep log_event]; auto. Qed.
Lemma Rs_log s1 s2 i1 k1 i2 k2 : Rs s1 s2 -> Rs (log_event s1 i1 k1) (log_event s2 i2 k2).
Proof. intros [Hc Hp Hr He Her Hx Hcep]. constructor; cbn [ps_cur ps_peek ps_rest ps_eof ps_errors ps_ctx ps_cep map add_error_at set_ctx set_cep log_event]; auto. Qed.

(* token tests factor through the core *)
Lemma Rs_cur_type s1 s2 : Rs s1 s2 -> t_type (ps_cur s1) = t_type (ps_cur s2).
Proof. intro H. apply core_type, H. Qed.
Lemma Rs_cur_lit s1 s2 : Rs s1 s2 -> t_lit (ps_cur s1) = t_lit (ps_cur s2).
Proof. intro H. apply core_lit, H. Qed.
Lemma Rs_cur_norm s1 s2 : Rs s1 s2 -> norm_tok (ps_cur s1) = norm_tok (ps_cur s2).
Proof. intro H. apply core_norm, H. Qed.
Lemma Rs_peek_type s1 s2 : Rs s1 s2 -> t_type (ps_peek s1) = t_type (ps_peek s2).
Proof. intro H. apply core_type, H. Qed.
Lemma Rs_peek_nl s1 s2 : Rs s1 s2 -> t_nl (ps_peek s1) = t_nl (ps_peek s2).
Proof. intro H. apply core_nl, H. Qed.
Lemma Rs_cur_is s1 s2 ty : Rs s1 s2 -> cur_is s1 ty = cur_is s2 ty.
Proof. intro H. unfold cur_is. rewrite (Rs_cur_type _ _ H). reflexivity. Qed.
Lemma Rs_peek_is s1 s2 ty : Rs s1 s2 -> peek_is s1 ty = peek_is s2 ty.
Proof. intro H. unfold peek_is. rewrite (Rs_peek_type _ _ H). reflexivity. Qed.
Lemma Rs_peek_prec cfg s1 s2 : Rs s1 s2 -> peek_precedence cfg s1 = peek_precedence cfg s2.
Proof. intro H. unfold peek_precedence. rewrite (Rs_peek_type _ _ H). reflexivity. Qed.
Lemma Rs_cur_prec cfg s1 s2 : Rs s1 s2 -> current_precedence cfg s1 = current_precedence cfg s2.
Proof. intro H. unfold current_precedence. rewrite (Rs_cur_type _ _ H). reflexivity. Qed.
Lemma Rs_sis s1 s2 : Rs s1 s2 -> should_insert_semicolon s1 = should_insert_semicolon s2.
Proof.
  intro H. unfold should_insert_semicolon.
  rewrite !(Rs_peek_is _ _ _ H), (Rs_peek_nl _ _ H), (Rs_peek_type _ _ H). reflexivity.
Qed.

Lemma Rs_expect s1 s2 ty : Rs s1 s2 ->
  fst (expect s1 ty) = fst (expect s2 ty) /\ Rs (snd (expect s1 ty)) (snd (expect s2 ty)).
Proof.
  intro H. unfold expect. rewrite (Rs_peek_is _ _ _ H).
  destruct (peek_is s2 ty); cbn [fst snd]; split; try reflexivity.
  - apply Rs_next, H.
  - apply Rs_adderr_at, H.
Qed.

Lemma Rs_semi cfg s1 s2 : Rs s1 s2 ->
  fst (expect_semicolon_asi cfg s1) = fst (expect_semicolon_asi cfg s2) /\
  Rs (snd (expect_semicolon_asi cfg s1)) (snd (expect_semicolon_asi cfg s2)).
Proof.
  intro H. unfold expect_semicolon_asi. rewrite (Rs_peek_is _ _ _ H), (Rs_sis _ _ H).
  destruct (peek_is s2 T_SEMICOLON); cbn [fst snd]; [split; [reflexivity|apply Rs_next, H]|].
  destruct (should_insert_semicolon s2); cbn [fst snd]; [split; [reflexivity|exact H]|].
  destruct (c_tolerant cfg); cbn [fst snd]; [split; [reflexivity|exact H]|].
  split; [reflexivity|apply Rs_adderr_at, H].
Qed.

Lemma Rs_close cfg s1 s2 : Rs s1 s2 -> Rs (close_block cfg s1) (close_block cfg s2).
Proof.
  intro H. unfold close_block. rewrite (Rs_cur_is _ _ _ H).
  destruct (negb (cur_is s2 T_RBRACE) && negb (c_tolerant cfg)); [apply Rs_adderr, H|exact H].
Qed.

(* ---------- simulation of runs ---------- *)

(* pointwise: if run 1 succeeds, run 2 succeeds with a result of the same [g]-image and
   related states *)
Definition simp {A B} (g : A -> B) (r1 r2 : res A) : Prop :=
  forall x1 t1, r1 = Some (x1, t1) ->
  exists x2 t2, r2 = Some (x2, t2) /\ g x1 = g x2 /\ Rs t1 t2.

Definition sim {A B} (g : A -> B) (f1 f2 : pstate -> res A) : Prop :=
  forall s1 s2, Rs s1 s2 -> simp g (f1 s1) (f2 s2).

Lemma simp_none {A B} (g : A -> B) r2 : simp g None r2.
Proof. intros x1 t1 H; discriminate. Qed.
Lemma simp_ret {A B} (g : A -> B) x1 t1 x2 t2 :
  g x1 = g x2 -> Rs t1 t2 -> simp g (Some (x1, t1)) (Some (x2, t2)).
Proof. intros Hg HR y1 u1 H. inversion H; subst. eauto. Qed.
Lemma sim_elim {A B} (g : A -> B) f1 f2 :
  sim g f1 f2 -> forall s1 s2, Rs s1 s2 -> forall x1 t1, f1 s1 = Some (x1, t1) ->
  exists x2 t2, f2 s2 = Some (x2, t2) /\ g x1 = g x2 /\ Rs t1 t2.
Proof. intros H s1 s2 HR. exact (H s1 s2 HR). Qed.
Lemma sim_tail {A B} (g : A -> B) f1 f2 s1 s2 :
  sim g f1 f2 -> Rs s1 s2 -> simp g (f1 s1) (f2 s2).
Proof. intros H HR. exact (H s1 s2 HR). Qed.

(* shapes *)
Notation she := (tmap_expr norm_tok).
Notation shs := (tmap_stmt norm_tok).
Notation shi := (tmap_ident norm_tok).
Definition shkv (kv : expr * expr) : expr * expr := (she (fst kv), she (snd kv)).

Lemma shs_is_snil a b : shs a = shs b -> is_snil a = is_snil b.
Proof. destruct a, b; cbn; intro H; try discriminate; reflexivity. Qed.

Create HintDb simdb.

(* ---------- tactics ---------- *)

Ltac solveRs :=
  first
    [ assumption
    | apply Rs_next; solveRs
    | apply Rs_push; solveRs
    | apply Rs_pop; solveRs
    | apply Rs_log; solveRs
    | apply Rs_adderr; solveRs
    | apply Rs_adderr_at; solveRs
    | apply Rs_close; solveRs
    | apply Rs_setcep; [solveRs | first [reflexivity | apply Rs_cep; solveRs]] ].

(* equalities between what the two runs observe / build *)
Ltac leaf :=
  first
    [ reflexivity
    | assumption
    | symmetry; assumption
    | apply Rs_cur_norm; solveRs
    | apply Rs_cur_lit; solveRs
    | apply Rs_cur_type; solveRs
    | apply Rs_peek_type; solveRs
    | apply Rs_peek_nl; solveRs
    | apply Rs_cur_is; solveRs
    | apply Rs_peek_is; solveRs
    | apply Rs_peek_prec; solveRs
    | apply Rs_cur_prec; solveRs
    | apply Rs_cep; solveRs
    | apply shs_is_snil; assumption
    | progress f_equal; leaf ].

Ltac fin :=
  cbn [option_map]; rewrite ?map_app; unfold shkv, tmap_ident, mk_ident;
  cbn [tmap_expr tmap_stmt map option_map id_tok id_value fst snd];
  unfold tmap_ident;
  cbn [tmap_expr tmap_stmt map option_map id_tok id_value fst snd];
  leaf.

Ltac head_scrut t :=
  lazymatch t with
  | match ?e with _ => _ end => head_scrut e
  | _ => t
  end.

Ltac is_match t := lazymatch t with match _ with _ => _ end => idtac end.

Ltac bind_step e1 e2 :=
  lazymatch e1 with
  | ?f1 ?a1 =>
      lazymatch e2 with
      | ?f2 ?a2 =>
          let E := fresh "E" in
          destruct e1 as [[? ?]|] eqn:E; [|apply simp_none];
          let HS := fresh "HS" in
          eassert (HS : sim _ f1 f2) by (solve [eauto with simdb]);
          let HR := fresh "HR" in
          assert (HR : Rs a1 a2) by solveRs;
          let x2 := fresh "x" in let t2 := fresh "t" in
          let E2 := fresh "E" in let Hg := fresh "Hg" in let HR2 := fresh "HR" in
          destruct (sim_elim _ f1 f2 HS a1 a2 HR _ _ E) as (x2 & t2 & E2 & Hg & HR2);
          rewrite E2; clear HS HR; cbv beta iota
      end
  end.

Ltac pair_step e1 e2 :=
  lazymatch e1 with
  | expect ?a1 ?ty =>
      lazymatch e2 with
      | expect ?a2 _ =>
          let HR := fresh "HR" in
          assert (HR : Rs a1 a2) by solveRs;
          let Hok := fresh "Hok" in let HR2 := fresh "HR" in
          destruct (Rs_expect a1 a2 ty HR) as [Hok HR2];
          destruct (expect a1 ty) as [? ?], (expect a2 ty) as [? ?];
          cbn [fst snd] in Hok, HR2; subst; clear HR; cbv beta iota
      end
  | expect_semicolon_asi ?cfg ?a1 =>
      lazymatch e2 with
      | expect_semicolon_asi _ ?a2 =>
          let HR := fresh "HR" in
          assert (HR : Rs a1 a2) by solveRs;
          let Hok := fresh "Hok" in let HR2 := fresh "HR" in
          destruct (Rs_semi cfg a1 a2 HR) as [Hok HR2];
          destruct (expect_semicolon_asi cfg a1) as [? ?], (expect_semicolon_asi cfg a2) as [? ?];
          cbn [fst snd] in Hok, HR2; subst; clear HR; cbv beta iota
      end
  end.

Ltac cond_step e1 e2 :=
  first
    [ constr_eq e1 e2; first [ is_var e1; destruct e1 | destruct e1 eqn:? ]
    | let X := fresh "X" in
      assert (X : e1 = e2) by leaf;
      rewrite X; clear X;
      first [ is_var e2; destruct e2 | destruct e2 eqn:? ] ];
  cbv beta iota.

Ltac step :=
  lazymatch goal with
  | |- simp _ (Some _) (Some _) => apply simp_ret; [fin | solveRs]
  | |- simp _ None _ => apply simp_none
  | |- simp _ ?T1 ?T2 =>
      first
        [ is_match T1;
          let e1 := head_scrut T1 in
          let e2 := head_scrut T2 in
          let T := type of e1 in
          let T' := eval cbv [res] in T in
          lazymatch T' with
          | option (_ * pstate) => bind_step e1 e2
          | (bool * pstate)%type => pair_step e1 e2
          | _ => cond_step e1 e2
          end
        | apply sim_tail; [solve [eauto with simdb] | solveRs] ]
  end.

Ltac sim_start := intros s1 s2 HR0.
Ltac sim_go := repeat step.

Section Inner.
  Variable cfg : pcfg.
  Variable sf : pstate -> res stmt.
  Variable ef : Z -> pstate -> res expr.
  Variable lf : nat.
  Hypothesis sf_sim : sim shs sf sf.
  Hypothesis ef_sim : forall p, sim she (ef p) (ef p).

  Lemma params_loop_sim n : forall acc1 acc2, map shi acc1 = map shi acc2 ->
    sim (map shi) (params_loop n acc1) (params_loop n acc2).
  Proof.
    induction n as [|n IH]; intros acc1 acc2 Ha; sim_start; cbn [params_loop].
    - apply simp_none.
    - step.
      + step. step; [step|]. apply IH; [fin|solveRs].
      + sim_go.
  Qed.

  Lemma parse_function_parameters_sim :
    sim (map shi) (parse_function_parameters lf) (parse_function_parameters lf).
  Proof.
    sim_start; unfold parse_function_parameters.
    step; [step|]. step. step; [step|].
    apply params_loop_sim; [fin|solveRs].
  Qed.
  Hint Resolve parse_function_parameters_sim : simdb.

  Lemma acc_snil (st1 st2 : stmt) acc1 acc2 :
    shs st1 = shs st2 -> map shs acc1 = map shs acc2 ->
    map shs (if is_snil st1 then acc1 else acc1 ++ [st1]) =
    map shs (if is_snil st2 then acc2 else acc2 ++ [st2]).
  Proof.
    intros Hs Ha. rewrite (shs_is_snil _ _ Hs). destruct (is_snil st2); [exact Ha|].
    rewrite !map_app. cbn [map]. congruence.
  Qed.

  Lemma block_loop_sim n : forall acc1 acc2, map shs acc1 = map shs acc2 ->
    sim (map shs) (block_loop sf n acc1) (block_loop sf n acc2).
  Proof.
    induction n as [|n IH]; intros acc1 acc2 Ha; sim_start; cbn [block_loop].
    - apply simp_none.
    - step; [|step]. step.
      apply IH; [apply acc_snil; assumption|solveRs].
  Qed.

  Lemma parse_block_statement_sim :
    sim shs (parse_block_statement cfg sf lf) (parse_block_statement cfg sf lf).
  Proof.
    sim_start; rewrite !parse_block_statement_eq.
    assert (HS : sim (map shs) (block_loop sf lf []) (block_loop sf lf []))
      by (apply block_loop_sim; reflexivity).
    sim_go.
  Qed.
  Hint Resolve parse_block_statement_sim : simdb.

  Ltac sim_simple := sim_start; sim_go.

  Lemma parse_let_statement_sim : sim shs (parse_let_statement cfg ef) (parse_let_statement cfg ef).
  Proof. unfold parse_let_statement, parse_expression. sim_simple. Qed.
  Hint Resolve parse_let_statement_sim : simdb.

  Lemma parse_let_expression_sim : sim she (parse_let_expression ef) (parse_let_expression ef).
  Proof. unfold parse_let_expression, parse_expression. sim_simple. Qed.
  Hint Resolve parse_let_expression_sim : simdb.

  Lemma parse_function_statement_sim :
    sim shs (parse_function_statement cfg sf lf) (parse_function_statement cfg sf lf).
  Proof. unfold parse_function_statement. sim_simple. Qed.
  Hint Resolve parse_function_statement_sim : simdb.

  Lemma parse_return_statement_sim :
    sim shs (parse_return_statement cfg ef) (parse_return_statement cfg ef).
  Proof. unfold parse_return_statement, parse_expression. sim_simple. Qed.
  Hint Resolve parse_return_statement_sim : simdb.

  Lemma parse_if_statement_sim : sim shs (parse_if_statement sf ef) (parse_if_statement sf ef).
  Proof. unfold parse_if_statement, parse_expression. sim_simple. Qed.
  Hint Resolve parse_if_statement_sim : simdb.

  Lemma parse_while_statement_sim : sim shs (parse_while_statement sf ef) (parse_while_statement sf ef).
  Proof. unfold parse_while_statement, parse_expression. sim_simple. Qed.
  Hint Resolve parse_while_statement_sim : simdb.

  Lemma parse_for_statement_sim : sim shs (parse_for_statement sf ef) (parse_for_statement sf ef).
  Proof. unfold parse_for_statement, parse_expression. sim_simple. Qed.
  Hint Resolve parse_for_statement_sim : simdb.

  Lemma parse_expression_statement_sim :
    sim shs (parse_expression_statement cfg ef) (parse_expression_statement cfg ef).
  Proof. unfold parse_expression_statement, parse_expression. sim_simple. Qed.
  Hint Resolve parse_expression_statement_sim : simdb.

  Lemma base_parse_statement_sim :
    sim shs (base_parse_statement cfg sf ef lf) (base_parse_statement cfg sf ef lf).
  Proof. unfold base_parse_statement. sim_simple. Qed.
  Hint Resolve base_parse_statement_sim : simdb.

  Lemma expr_list_loop_sim n : forall acc1 acc2, map she acc1 = map she acc2 ->
    sim (map she) (expr_list_loop ef n acc1) (expr_list_loop ef n acc2).
  Proof.
    induction n as [|n IH]; intros acc1 acc2 Ha; sim_start;
      cbn [expr_list_loop]; unfold parse_expression.
    - apply simp_none.
    - step; [|step]. step.
      apply IH; [fin|solveRs].
  Qed.

  Lemma parse_expression_list_sim end_ty :
    sim (map she) (parse_expression_list ef lf end_ty) (parse_expression_list ef lf end_ty).
  Proof.
    sim_start; unfold parse_expression_list, parse_expression.
    step; [step|]. step.
    assert (HS : sim (map she) (expr_list_loop ef lf [e]) (expr_list_loop ef lf [x]))
      by (apply expr_list_loop_sim; fin).
    sim_go.
  Qed.
  Hint Resolve parse_expression_list_sim : simdb.

  Lemma object_loop_sim n : forall acc1 acc2, map shkv acc1 = map shkv acc2 ->
    sim (option_map (map shkv)) (object_loop ef n acc1) (object_loop ef n acc2).
  Proof.
    induction n as [|n IH]; intros acc1 acc2 Ha; sim_start;
      cbn [object_loop]; unfold parse_expression.
    - apply simp_none.
    - repeat step.
      apply IH; [fin|solveRs].
  Qed.

  Lemma parse_object_literal_sim :
    sim she (parse_object_literal ef lf) (parse_object_literal ef lf).
  Proof.
    sim_start; unfold parse_object_literal.
    assert (HS : sim (option_map (map shkv)) (object_loop ef lf []) (object_loop ef lf []))
      by (apply object_loop_sim; reflexivity).
    step; [step|]. step.
    destruct o as [props1|], x as [props2|]; cbn [option_map] in Hg; try discriminate.
    - injection Hg as Hg. sim_go.
    - sim_go.
  Qed.
  Hint Resolve parse_object_literal_sim : simdb.

  Lemma parse_function_expression_sim :
    sim she (parse_function_expression cfg sf lf) (parse_function_expression cfg sf lf).
  Proof. unfold parse_function_expression. sim_simple. Qed.
  Hint Resolve parse_function_expression_sim : simdb.

  Lemma parse_grouped_expression_sim :
    sim she (parse_grouped_expression ef) (parse_grouped_expression ef).
  Proof. unfold parse_grouped_expression, parse_expression. sim_simple. Qed.
  Hint Resolve parse_grouped_expression_sim : simdb.

  Lemma parse_unary_expression_sim :
    sim she (parse_unary_expression ef) (parse_unary_expression ef).
  Proof. unfold parse_unary_expression. sim_simple. Qed.
  Hint Resolve parse_unary_expression_sim : simdb.

  Lemma prefix_handler_run_sim h :
    sim she (prefix_handler_run cfg sf ef lf h) (prefix_handler_run cfg sf ef lf h).
  Proof. unfold prefix_handler_run. destruct h; sim_simple. Qed.
  Hint Resolve prefix_handler_run_sim : simdb.

  Lemma parse_prefix_expression_sim :
    sim she (parse_prefix_expression cfg sf ef lf) (parse_prefix_expression cfg sf ef lf).
  Proof. unfold parse_prefix_expression. sim_simple. Qed.
  Hint Resolve parse_prefix_expression_sim : simdb.

  Lemma parse_binary_expression_sim l1 l2 : she l1 = she l2 ->
    sim she (parse_binary_expression cfg ef l1) (parse_binary_expression cfg ef l2).
  Proof.
    intro Hl. sim_start. unfold parse_binary_expression.
    rewrite (Rs_cur_prec cfg _ _ HR0). sim_go.
  Qed.

  Lemma infix_handler_run_sim h l1 l2 : she l1 = she l2 ->
    sim she (infix_handler_run cfg ef lf h l1) (infix_handler_run cfg ef lf h l2).
  Proof.
    intro Hl. pose proof (parse_binary_expression_sim l1 l2 Hl) as HB.
    unfold infix_handler_run, parse_expression.
    destruct h; sim_start; rewrite ?(Rs_cur_type _ _ HR0); sim_go.
  Qed.

  Lemma parse_infix_expression_sim l1 l2 : she l1 = she l2 ->
    sim she (parse_infix_expression cfg ef lf l1) (parse_infix_expression cfg ef lf l2).
  Proof.
    intro Hl. pose proof (parse_binary_expression_sim l1 l2 Hl) as HB.
    pose proof (fun h => infix_handler_run_sim h l1 l2 Hl) as HI.
    unfold parse_infix_expression. sim_simple.
  Qed.

  Lemma remaining_loop_sim n : forall l1 l2 prec, she l1 = she l2 ->
    sim she (remaining_loop cfg ef lf n l1 prec) (remaining_loop cfg ef lf n l2 prec).
  Proof.
    induction n as [|n IH]; intros l1 l2 prec Hl; sim_start; cbn [remaining_loop].
    - apply simp_none.
    - pose proof (parse_infix_expression_sim l1 l2 Hl) as HI.
      repeat step.
  Qed.

  Lemma parse_remaining_sim l1 l2 prec : she l1 = she l2 ->
    sim she (parse_remaining_with_precedence cfg ef lf l1 prec)
            (parse_remaining_with_precedence cfg ef lf l2 prec).
  Proof. unfold parse_remaining_with_precedence. apply remaining_loop_sim. Qed.

  Lemma base_parse_expression_sim prec :
    sim she (base_parse_expression cfg sf ef lf prec) (base_parse_expression cfg sf ef lf prec).
  Proof.
    sim_start. unfold base_parse_expression. step.
    apply sim_tail; [apply parse_remaining_sim; assumption|solveRs].
  Qed.
  Hint Resolve base_parse_expression_sim : simdb.

  Lemma run_stmt_chain_sim ics :
    sim shs (run_stmt_chain cfg sf ef lf ics) (run_stmt_chain cfg sf ef lf ics).
  Proof.
    induction ics as [|ic ics IH]; cbn [run_stmt_chain]; [auto with simdb|].
    destruct ic; [exact IH|]. sim_simple.
  Qed.

  Lemma run_expr_chain_sim ics : forall prec,
    sim she (run_expr_chain cfg sf ef lf ics prec) (run_expr_chain cfg sf ef lf ics prec).
  Proof.
    induction ics as [|ic ics IH]; intro prec; cbn [run_expr_chain]; [auto with simdb|].
    destruct ic; sim_start.
    - sim_go.
    - sim_go.
    - step. rewrite (Rs_cep _ _ HR1).
      pose proof (parse_remaining_sim e x (ps_cep t) Hg) as HP.
      sim_go.
  Qed.

End Inner.

(* ---------- closing the recursion on fuel ---------- *)

Lemma fn_sim cfg : forall fuel,
  sim shs (stmt_fn cfg fuel) (stmt_fn cfg fuel) /\
  (forall p, sim she (expr_fn cfg fuel p) (expr_fn cfg fuel p)).
Proof.
  induction fuel as [|f [IHs IHe]]; (split; [intros s1 s2 HR | intros p s1 s2 HR]);
    cbn [stmt_fn expr_fn]; try apply simp_none.
  - exact (run_stmt_chain_sim cfg _ _ f IHs IHe _ s1 s2 HR).
  - exact (run_expr_chain_sim cfg _ _ f IHs IHe _ _ s1 s2 HR).
Qed.

Lemma program_loop_sim cfg fuel n : forall acc1 acc2, map shs acc1 = map shs acc2 ->
  sim (map shs) (program_loop cfg fuel n acc1) (program_loop cfg fuel n acc2).
Proof.
  pose proof (proj1 (fn_sim cfg fuel)) as Hs.
  induction n as [|n IH]; intros acc1 acc2 Ha; sim_start; cbn [program_loop].
  - apply simp_none.
  - step; [|step]. step.
    apply sim_tail; [apply IH, acc_snil; assumption|solveRs].
Qed.

Lemma map_ekey_nil (l1 l2 : list perror) :
  map ekey l1 = map ekey l2 ->
  match l1 with [] => false | _ => true end = match l2 with [] => false | _ => true end.
Proof. destruct l1, l2; cbn; intro H; try discriminate; reflexivity. Qed.

Lemma parse_program_from_sim cfg fuel s1 s2 r1 :
  Rs s1 s2 -> parse_program_from cfg fuel s1 = Some r1 ->
  exists r2, parse_program_from cfg fuel s2 = Some r2 /\
             shape_program (pr_program r2) = shape_program (pr_program r1) /\
             map ekey (pr_errors r2) = map ekey (pr_errors r1) /\
             pr_err_returned r2 = pr_err_returned r1.
Proof.
  intros HR H. unfold parse_program_from in *.
  destruct (program_loop cfg fuel fuel [] s1) as [[stmts1 t1]|] eqn:E1; [|discriminate].
  injection H as <-.
  destruct (program_loop_sim cfg fuel fuel [] [] eq_refl s1 s2 HR _ _ E1)
    as (stmts2 & t2 & E2 & Hg & HR2).
  rewrite E2. eexists; split; [reflexivity|].
  cbn [pr_program pr_errors pr_err_returned]. split; [|split].
  - unfold shape_program; cbn [p_stmts p_eof].
    rewrite (Rs_cur_norm _ _ HR2). f_equal. symmetry. exact Hg.
  - symmetry. apply (Rs_errors _ _ HR2).
  - symmetry. apply map_ekey_nil, (Rs_errors _ _ HR2).
Qed.

Lemma map_core_last (l1 l2 : list token) d1 d2 :
  map core l1 = map core l2 -> core d1 = core d2 -> core (last l1 d1) = core (last l2 d2).
Proof.
  revert l2; induction l1 as [|a l1 IH]; intros [|b l2] H Hd; cbn [map] in H; try discriminate.
  - exact Hd.
  - assert (core a = core b /\ map core l1 = map core l2) as [Ha Hl] by (split; congruence).
    destruct l1 as [|a' l1], l2 as [|b' l2]; cbn [map] in Hl; try discriminate.
    + exact Ha.
    + exact (IH (b' :: l2) Hl Hd).
Qed.

Lemma core_eof_again a b : core a = core b -> core (eof_again a) = core (eof_again b).
Proof. unfold core, eof_again; cbn. intro H. injection H as H1 H2 H3. congruence. Qed.

Lemma ps_init_Rs toks1 toks2 e1 e2 :
  map core toks1 = map core toks2 -> core e1 = core e2 ->
  Rs (ps_init toks1 e1) (ps_init toks2 e2).
Proof.
  intros Ht He. unfold ps_init. apply Rs_next, Rs_next.
  constructor; cbn [ps_cur ps_peek ps_rest ps_eof ps_errors ps_ctx ps_cep map]; auto.
Qed.

Theorem parse_layout_independent : forall cfg toks1 toks2 r1,
  map (fun t => (t_type t, t_lit t, t_nl t)) toks1 = map (fun t => (t_type t, t_lit t, t_nl t)) toks2 ->
  parse_tokens cfg toks1 = Some r1 ->
  exists r2, parse_tokens cfg toks2 = Some r2 /\
             shape_program (pr_program r2) = shape_program (pr_program r1) /\
             map (fun e => (e_kind e, e_arg e)) (pr_errors r2) = map (fun e => (e_kind e, e_arg e)) (pr_errors r1) /\
             pr_err_returned r2 = pr_err_returned r1.
Proof.
  intros cfg toks1 toks2 r1 Ht H. unfold parse_tokens in *.
  change (map core toks1 = map core toks2) in Ht.
  assert (Hf : parse_fuel toks2 = parse_fuel toks1).
  { unfold parse_fuel. rewrite <- (map_length core toks1), Ht, map_length. reflexivity. }
  rewrite Hf.
  refine (parse_program_from_sim cfg (parse_fuel toks1) _ _ r1 _ H).
  apply ps_init_Rs; [exact Ht|].
  apply core_eof_again, map_core_last; [exact Ht|reflexivity].
Qed.
Print Assumptions parse_layout_independent.
