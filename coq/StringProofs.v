(* StringProofs.v -- proofs for Props/C07.v: literal values survive scanning + printing. *)
Require Import Base GoOps Token Lexer Tree Writer PrinterLib StringValue.
Require Import Gen.Tables Gen.Preds Gen.Printer.
From Coq Require Import ZifyBool ZifyN ZifyNat Lia.

(* ------------------------------------------------------------------ *)
(* 1. printing of string / number literal nodes                        *)
(* ------------------------------------------------------------------ *)

Lemma string_printed : forall t,
  write_expr (EString t (t_lit t)) =
  [WComments (t_comments t); WMapping (t_start t); WRune 34; WString (t_lit t); WRune 34].
Proof. intro t. reflexivity. Qed.

Lemma number_printed : forall t,
  write_expr (EInt t) = [WComments (t_comments t); WMapping (t_start t); WString (t_lit t)] /\
  write_expr (EFloat t) = [WComments (t_comments t); WMapping (t_start t); WString (t_lit t)].
Proof. intro t. split; reflexivity. Qed.

(* ------------------------------------------------------------------ *)
(* 2. UTF-8 encoder / strict decoder round trip                        *)
(* ------------------------------------------------------------------ *)

(* bounded universal quantification over N by evaluation *)
Lemma N_forall_lt (p : N -> bool) (n : nat) :
  forallb p (map N.of_nat (seq 0 n)) = true ->
  forall x, (x < N.of_nat n)%N -> p x = true.
Proof.
  intros H x Hx. rewrite forallb_forall in H. apply H.
  apply in_map_iff. exists (N.to_nat x). split; [lia|].
  apply in_seq. lia.
Qed.

Lemma lor128 x : (x < 64)%N -> N.lor 128 x = (128 + x)%N.
Proof.
  intro H. apply N.eqb_eq.
  apply (N_forall_lt (fun x => N.eqb (N.lor 128 x) (128 + x)) 64); [vm_compute; reflexivity|exact H].
Qed.
Lemma lor192 x : (x < 32)%N -> N.lor 192 x = (192 + x)%N.
Proof.
  intro H. apply N.eqb_eq.
  apply (N_forall_lt (fun x => N.eqb (N.lor 192 x) (192 + x)) 32); [vm_compute; reflexivity|exact H].
Qed.
Lemma lor224 x : (x < 16)%N -> N.lor 224 x = (224 + x)%N.
Proof.
  intro H. apply N.eqb_eq.
  apply (N_forall_lt (fun x => N.eqb (N.lor 224 x) (224 + x)) 16); [vm_compute; reflexivity|exact H].
Qed.
Lemma lor240 x : (x < 8)%N -> N.lor 240 x = (240 + x)%N.
Proof.
  intro H. apply N.eqb_eq.
  apply (N_forall_lt (fun x => N.eqb (N.lor 240 x) (240 + x)) 8); [vm_compute; reflexivity|exact H].
Qed.

Lemma byte_small z : 0 <= z < 256 -> byte_of_Z z = Z.to_N z.
Proof. intro H. unfold byte_of_Z. rewrite Z.mod_small by lia. reflexivity. Qed.

Lemma shiftr6 z : Z.shiftr z 6 = z / 64.
Proof. rewrite Z.shiftr_div_pow2 by lia. reflexivity. Qed.
Lemma shiftr12 z : Z.shiftr z 12 = z / 4096.
Proof. rewrite Z.shiftr_div_pow2 by lia. reflexivity. Qed.
Lemma shiftr18 z : Z.shiftr z 18 = z / 262144.
Proof. rewrite Z.shiftr_div_pow2 by lia. reflexivity. Qed.
Lemma land63 z : Z.land z 63 = z mod 64.
Proof. change 63 with (Z.ones 6). rewrite Z.land_ones by lia. reflexivity. Qed.

Lemma utf8_roundtrip : forall cp rest,
  0 <= cp <= 1114111 -> is_surrogate cp = false ->
  utf8_decode1 (encodeUTF8 cp ++ rest) = Some (cp, rest).
Proof.
  intros cp rest Hr Hs. unfold is_surrogate in Hs. unfold encodeUTF8.
  rewrite !shiftr6, !shiftr12, !shiftr18, !land63.
  destruct (Z.leb cp 127) eqn:E1.
  { (* one byte *)
    rewrite byte_small by lia. cbn [app]. unfold utf8_decode1.
    destruct (Z.to_N cp <? 128)%N eqn:E; [|lia].
    f_equal. f_equal. lia. }
  destruct (Z.leb cp 2047) eqn:E2.
  { (* two bytes *)
    pose proof (Z.div_mod cp 64 ltac:(lia)) as Hdm.
    pose proof (Z.mod_pos_bound cp 64 ltac:(lia)) as Hm.
    set (q := cp / 64) in *. set (r := cp mod 64) in *.
    assert (Hq : 2 <= q < 32) by lia.
    rewrite !byte_small by lia.
    rewrite lor192, lor128 by lia.
    cbn [app]. unfold utf8_decode1, is_cont, cont_bits.
    destruct (192 + Z.to_N q <? 128)%N eqn:Ea; [lia|].
    destruct ((194 <=? 192 + Z.to_N q) && (192 + Z.to_N q <=? 223))%N eqn:Eb; [|lia].
    destruct ((128 <=? 128 + Z.to_N r) && (128 + Z.to_N r <=? 191))%N eqn:Ec; [|lia].
    f_equal. f_equal. lia. }
  destruct (Z.leb cp 65535) eqn:E3.
  { (* three bytes *)
    pose proof (Z.div_mod cp 64 ltac:(lia)) as Hdm.
    pose proof (Z.mod_pos_bound cp 64 ltac:(lia)) as Hm.
    set (q := cp / 64) in *. set (r := cp mod 64) in *.
    pose proof (Z.div_mod q 64 ltac:(lia)) as Hdm2.
    pose proof (Z.mod_pos_bound q 64 ltac:(lia)) as Hm2.
    assert (Hq4096 : cp / 4096 = q / 64).
    { unfold q. rewrite Z.div_div by lia. reflexivity. }
    rewrite Hq4096.
    set (q2 := q / 64) in *. set (r2 := q mod 64) in *.
    assert (Hq : 0 <= q2 < 16) by lia.
    rewrite !byte_small by lia.
    rewrite lor224, !lor128 by lia.
    cbn [app]. unfold utf8_decode1, is_cont, cont_bits.
    destruct (224 + Z.to_N q2 <? 128)%N eqn:Ea; [lia|].
    destruct ((194 <=? 224 + Z.to_N q2) && (224 + Z.to_N q2 <=? 223))%N eqn:Eb; [lia|].
    destruct ((224 <=? 224 + Z.to_N q2) && (224 + Z.to_N q2 <=? 239))%N eqn:Ec; [|lia].
    destruct (((128 <=? 128 + Z.to_N r2) && (128 + Z.to_N r2 <=? 191))%N &&
              ((128 <=? 128 + Z.to_N r) && (128 + Z.to_N r <=? 191))%N) eqn:Ed; [|lia].
    cbv zeta.
    match goal with |- (if ?c then _ else _) = _ => destruct c eqn:Ee end; [lia|].
    f_equal. f_equal. lia. }
  destruct (Z.leb cp 1114111) eqn:E4; [|lia].
  { (* four bytes *)
    pose proof (Z.div_mod cp 64 ltac:(lia)) as Hdm.
    pose proof (Z.mod_pos_bound cp 64 ltac:(lia)) as Hm.
    set (q := cp / 64) in *. set (r := cp mod 64) in *.
    pose proof (Z.div_mod q 64 ltac:(lia)) as Hdm2.
    pose proof (Z.mod_pos_bound q 64 ltac:(lia)) as Hm2.
    assert (Hq4096 : cp / 4096 = q / 64).
    { unfold q. rewrite Z.div_div by lia. reflexivity. }
    assert (Hq262144 : cp / 262144 = q / 64 / 64).
    { unfold q. rewrite !Z.div_div by lia. reflexivity. }
    rewrite Hq4096, Hq262144.
    set (q2 := q / 64) in *. set (r2 := q mod 64) in *.
    pose proof (Z.div_mod q2 64 ltac:(lia)) as Hdm3.
    pose proof (Z.mod_pos_bound q2 64 ltac:(lia)) as Hm3.
    set (q3 := q2 / 64) in *. set (r3 := q2 mod 64) in *.
    assert (Hq : 0 <= q3 <= 4) by lia.
    rewrite !byte_small by lia.
    rewrite lor240, !lor128 by lia.
    cbn [app]. unfold utf8_decode1, is_cont, cont_bits.
    destruct (240 + Z.to_N q3 <? 128)%N eqn:Ea; [lia|].
    destruct ((194 <=? 240 + Z.to_N q3) && (240 + Z.to_N q3 <=? 223))%N eqn:Eb; [lia|].
    destruct ((224 <=? 240 + Z.to_N q3) && (240 + Z.to_N q3 <=? 239))%N eqn:Ec; [lia|].
    destruct ((240 <=? 240 + Z.to_N q3) && (240 + Z.to_N q3 <=? 244))%N eqn:Ed; [|lia].
    match goal with |- (if ?c then _ else _) = _ => destruct c eqn:Ee end; [|lia].
    cbv zeta.
    match goal with |- (if ?c then _ else _) = _ => destruct c eqn:Ef end; [lia|].
    f_equal. f_equal. lia. }
Qed.

(* ------------------------------------------------------------------ *)
(* 3. the cursor, seen through its unread input                        *)
(* ------------------------------------------------------------------ *)

(* what the scanning loops see: they always [read_char] first, so the relevant input of
   a loop state is everything after the current character *)
Definition inp (l : lx) : str := tl (l_rest l).

Lemma rc_rest l : l_rest (read_char l) = tl (l_rest l).
Proof.
  unfold read_char. destruct (l_rest l) as [|c r] eqn:E.
  - rewrite E. reflexivity.
  - destruct (N.eqb c LF); reflexivity.
Qed.

Lemma inp_rc l : inp (read_char l) = tl (inp l).
Proof. unfold inp. rewrite rc_rest. reflexivity. Qed.
Lemma cur_rc l : cur (read_char l) = hd 0%N (inp l).
Proof. unfold cur, inp. rewrite rc_rest. reflexivity. Qed.
Lemma eof_rc l : at_eof (read_char l) = match inp l with [] => true | _ => false end.
Proof. unfold at_eof, inp. rewrite rc_rest. reflexivity. Qed.
Lemma peek_rc l : peek (read_char l) = hd 0%N (tl (inp l)).
Proof.
  unfold peek, inp. rewrite rc_rest.
  destruct (tl (l_rest l)) as [|a [|b t]]; reflexivity.
Qed.
Lemma rest_rc l : l_rest (read_char l) = inp l.
Proof. apply rc_rest. Qed.

Ltac see H :=
  repeat (rewrite ?eof_rc, ?cur_rc, ?peek_rc, ?inp_rc, ?rest_rc, ?H; cbn [hd tl]).

(* evaluate comparisons between numerals *)
Ltac is_poslit p :=
  match p with xH => idtac | xO ?q => is_poslit q | xI ?q => is_poslit q end.
Ltac is_Nlit n := match n with N0 => idtac | Npos ?p => is_poslit p end.
Ltac eval_lits :=
  repeat match goal with
  | |- context[N.eqb ?a ?b] =>
      is_Nlit a; is_Nlit b;
      let r := eval vm_compute in (N.eqb a b) in change (N.eqb a b) with r
  | |- context[is_dec ?a] =>
      is_Nlit a; let r := eval vm_compute in (is_dec a) in change (is_dec a) with r
  end;
  cbn [orb andb negb]; cbv beta iota.

(* ------------------------------------------------------------------ *)
(* 4. backtick strings                                                 *)
(* ------------------------------------------------------------------ *)

(* fuel-free ReplaceAll(s, "`", "\\`") *)
Fixpoint esc_bt (s : str) : str :=
  match s with
  | [] => []
  | c :: r => if N.eqb c 96 then 92%N :: 96%N :: esc_bt r else c :: esc_bt r
  end.

Lemma replace_bt_fuel : forall f s, (length s <= f)%nat ->
  replace_all_fuel f s [96%N] [92%N; 96%N] = esc_bt s.
Proof.
  induction f as [|f IH]; intros s Hl.
  - destruct s; [reflexivity|cbn [length] in Hl; lia].
  - destruct s as [|c r]; [reflexivity|].
    cbn [length] in Hl. cbn [replace_all_fuel strip_prefix esc_bt].
    rewrite (N.eqb_sym 96 c).
    destruct (N.eqb c 96); cbn [app]; rewrite IH by lia; reflexivity.
Qed.

Lemma replace_bt s : replace_all s [96%N] [92%N; 96%N] = esc_bt s.
Proof. unfold replace_all. apply replace_bt_fuel. lia. Qed.

Lemma raw_loop_ok : forall n body, (length body <= n)%nat ->
  valid_raw_body body = true ->
  forall F l0 acc rest,
    inp l0 = body ++ 96%N :: rest -> (length (body ++ 96%N :: rest) <= F)%nat ->
    exists out l', read_raw_loop F l0 acc = (acc ++ out, true, l') /\
                   l_rest l' = 96%N :: rest /\ esc_bt out = body.
Proof.
  induction n as [|n IH]; intros body Hn Hv F l0 acc rest Hi HF.
  - destruct body; [|cbn [length] in Hn; lia].
    cbn [app] in Hi. cbn [app length] in HF. destruct F as [|f]; [lia|].
    cbn [read_raw_loop]. unfold BACKSLASH, BACKTICK. see Hi.
    exists [], (read_char l0). rewrite app_nil_r. see Hi. auto.
  - destruct body as [|c r].
    { cbn [app] in Hi. cbn [app length] in HF. destruct F as [|f]; [lia|].
      cbn [read_raw_loop]. unfold BACKSLASH, BACKTICK. see Hi.
      exists [], (read_char l0). rewrite app_nil_r. see Hi. auto. }
    cbn [app] in Hi. cbn [app length] in HF, Hn. destruct F as [|f]; [lia|].
    cbn [valid_raw_body] in Hv.
    cbn [read_raw_loop]. unfold BACKSLASH, BACKTICK. see Hi.
    destruct (N.eqb c 92) eqn:Ec.
    + apply N.eqb_eq in Ec. subst c.
      destruct r as [|e r']; [discriminate|].
      cbn [app] in Hi. cbn [app length] in HF, Hn. cbn [app hd tl].
      destruct (N.eqb e 96) eqn:Ee.
      * apply N.eqb_eq in Ee. subst e.
        destruct (IH r' ltac:(lia) Hv f (read_char (read_char l0)) (acc ++ [96%N]) rest)
          as (out & l' & H1 & H2 & H3).
        { see Hi. reflexivity. }
        { lia. }
        exists (96%N :: out), l'. rewrite H1, <- app_assoc. cbn [app esc_bt].
        rewrite N.eqb_refl, H3. auto.
      * destruct (IH r' ltac:(lia) Hv f (read_char (read_char l0)) (acc ++ [92%N; e]) rest)
          as (out & l' & H1 & H2 & H3).
        { see Hi. reflexivity. }
        { lia. }
        exists (92%N :: e :: out), l'. rewrite H1, <- app_assoc. cbn [app esc_bt].
        change (N.eqb 92 96) with false. cbv iota. rewrite Ee, H3. auto.
    + destruct (N.eqb c 96) eqn:Ec2; [discriminate|].
      destruct (IH r ltac:(lia) Hv f (read_char l0) (acc ++ [c]) rest)
        as (out & l' & H1 & H2 & H3).
      { see Hi. reflexivity. }
      { lia. }
      exists (c :: out), l'. rewrite H1, <- app_assoc. cbn [app esc_bt].
      rewrite Ec2, H3. auto.
Qed.

Lemma raw_body_preserved : forall body rest line col had cs,
  valid_raw_body body = true ->
  let '(lit, terminated, l') := read_raw_string (mklx (96%N :: body ++ 96%N :: rest) line col had cs) in
  terminated = true /\ l_rest l' = 96%N :: rest /\ replace_all lit [96%N] [92%N; 96%N] = body.
Proof.
  intros body rest line col had cs Hv.
  unfold read_raw_string. cbn [l_rest].
  destruct (raw_loop_ok (length body) body (le_n _) Hv
              (S (length (96%N :: body ++ 96%N :: rest)))
              (mklx (96%N :: body ++ 96%N :: rest) line col had cs) [] rest)
    as (out & l' & H1 & H2 & H3).
  { reflexivity. }
  { cbn [length]. lia. }
  rewrite H1. cbn [app]. rewrite replace_bt. auto.
Qed.

(* ------------------------------------------------------------------ *)
(* 5. quoted strings: scanner facts                                    *)
(* ------------------------------------------------------------------ *)

Lemma isHex_eq c : isHexDigit c = is_hex c.
Proof. reflexivity. Qed.

Lemma hexval_eq c : is_hex c = true -> hexDigitValue c = hex_val c.
Proof.
  unfold is_hex, hexDigitValue, hex_val, bsub, badd. intro H.
  destruct ((48 <=? c) && (c <=? 57))%N eqn:E1.
  { rewrite Z.mod_small by lia. lia. }
  destruct ((97 <=? c) && (c <=? 102))%N eqn:E2.
  { rewrite Z.mod_small by lia. rewrite N.mod_small by lia. lia. }
  destruct ((65 <=? c) && (c <=? 70))%N eqn:E3.
  { rewrite Z.mod_small by lia. rewrite N.mod_small by lia. lia. }
  cbn [orb] in H. discriminate.
Qed.

Lemma hex_val_range c : is_hex c = true -> 0 <= hex_val c <= 15.
Proof. unfold is_hex, hex_val. intro H. destruct ((48 <=? c) && (c <=? 57))%N eqn:E1; [lia|].
  destruct ((97 <=? c) && (c <=? 102))%N eqn:E2; lia. Qed.

Lemma hex_byte c : is_hex c = true -> (48 <= c <= 102)%N.
Proof. unfold is_hex. lia. Qed.

Fixpoint adv (n : nat) (l : lx) : lx :=
  match n with O => l | S n' => adv n' (read_char l) end.

Lemma skipn_tl {A} n (l : list A) : skipn n (tl l) = skipn (S n) l.
Proof. destruct l; [destruct n; reflexivity|reflexivity]. Qed.

Lemma inp_adv n : forall l, inp (adv n l) = skipn n (inp l).
Proof.
  induction n as [|n IH]; intro l; [reflexivity|].
  cbn [adv]. rewrite IH, inp_rc. apply skipn_tl.
Qed.

Lemma adv_add n m l : adv (n + m) l = adv m (adv n l).
Proof. revert l; induction n as [|n IH]; intro l; [reflexivity|]. cbn [adv Nat.add]. apply IH. Qed.

Lemma skipn_len_app {A} (a b : list A) : skipn (length a) (a ++ b) = b.
Proof. induction a; [reflexivity|assumption]. Qed.

Lemma peek_inp l : peek l = hd 0%N (inp l).
Proof. unfold peek, inp. destruct (l_rest l) as [|a [|b t]]; reflexivity. Qed.

Definition plain (d c : N) : Prop :=
  N.eqb c 92 = false /\ N.eqb c d = false /\ N.eqb c 34 = false.

(* single iterations of the loop *)
Lemma it_delim f d l0 acc X :
  inp l0 = d :: X -> N.eqb d 92 = false ->
  read_string_loop (S f) d l0 acc = (acc, true, read_char l0).
Proof.
  intros Hi Hd. cbn [read_string_loop]. unfold BACKSLASH, DQUOTE. see Hi.
  rewrite Hd, N.eqb_refl. reflexivity.
Qed.

Lemma it_plain f d l0 acc c X :
  inp l0 = c :: X -> plain d c ->
  read_string_loop (S f) d l0 acc = read_string_loop f d (read_char l0) (acc ++ [c]).
Proof.
  intros Hi (H1 & H2 & H3). cbn [read_string_loop]. unfold BACKSLASH, DQUOTE. see Hi.
  rewrite H1, H2, H3. reflexivity.
Qed.

Lemma it_dq f d l0 acc X :
  inp l0 = 34%N :: X -> N.eqb 34 d = false ->
  read_string_loop (S f) d l0 acc = read_string_loop f d (read_char l0) (acc ++ [92%N; 34%N]).
Proof.
  intros Hi H1. cbn [read_string_loop]. unfold BACKSLASH, DQUOTE. see Hi.
  rewrite H1. reflexivity.
Qed.

Lemma it_esc f d l0 acc e X :
  inp l0 = 92%N :: e :: X -> N.eqb e 120 = false -> N.eqb e 117 = false ->
  read_string_loop (S f) d l0 acc = read_string_loop f d (adv 2 l0) (acc ++ [92%N; e]).
Proof.
  intros Hi H1 H2. cbn [read_string_loop adv]. unfold BACKSLASH, DQUOTE. see Hi. eval_lits.
  rewrite H1, H2. reflexivity.
Qed.

Lemma it_x f d l0 acc h1 h2 X :
  inp l0 = 92%N :: 120%N :: h1 :: h2 :: X -> is_hex h1 = true -> is_hex h2 = true ->
  read_string_loop (S f) d l0 acc =
  read_string_loop f d (adv 4 l0)
    (acc ++ (if mustStayEscaped (hex_val h1 * 16 + hex_val h2)
             then [92%N; 120%N; h1; h2] else encodeUTF8 (hex_val h1 * 16 + hex_val h2))).
Proof.
  intros Hi H1 H2. cbn [read_string_loop adv]. unfold BACKSLASH, DQUOTE. see Hi. eval_lits.
  change isHexDigit with is_hex. rewrite H1, H2, !hexval_eq by assumption.
  destruct (mustStayEscaped _); reflexivity.
Qed.

Lemma it_u4 f d l0 acc h1 h2 h3 h4 X :
  inp l0 = 92%N :: 117%N :: h1 :: h2 :: h3 :: h4 :: X ->
  is_hex h1 = true -> is_hex h2 = true -> is_hex h3 = true -> is_hex h4 = true ->
  read_string_loop (S f) d l0 acc =
  read_string_loop f d (adv 6 l0)
    (acc ++ (if mustStayEscaped (hex_val h1 * 4096 + hex_val h2 * 256 + hex_val h3 * 16 + hex_val h4)
             then [92%N; 117%N; h1; h2; h3; h4]
             else encodeUTF8 (hex_val h1 * 4096 + hex_val h2 * 256 + hex_val h3 * 16 + hex_val h4))).
Proof.
  intros Hi H1 H2 H3 H4. cbn [read_string_loop adv]. unfold BACKSLASH, DQUOTE. see Hi.
  assert (Hb : N.eqb h1 123 = false) by (apply hex_byte in H1; lia).
  eval_lits. rewrite Hb.
  change isHexDigit with is_hex. rewrite H1, H2, H3, H4, !hexval_eq by assumption.
  destruct (mustStayEscaped _); reflexivity.
Qed.

Definition hexs (ds : str) : Prop := Forall (fun c => is_hex c = true) ds.

Lemma ub_short : forall ds f l ds0 X,
  inp l = ds ++ 125%N :: X -> hexs ds ->
  (length ds0 + length ds <= 6)%nat -> (length ds < f)%nat ->
  read_ubrace f l ds0 = (ds0 ++ ds, true, adv (S (length ds)) l).
Proof.
  induction ds as [|a ds IH]; intros f l ds0 X Hi Hh Hl Hf; (destruct f as [|f]; [lia|]);
    cbn [read_ubrace]; rewrite peek_inp, Hi; cbn [app hd].
  - rewrite N.eqb_refl, app_nil_r. reflexivity.
  - inversion Hh as [|? ? Ha Hds]; subst.
    assert (Ea : N.eqb a 125 = false) by (apply hex_byte in Ha; lia).
    rewrite Ea. change isHexDigit with is_hex. rewrite Ha. cbn [negb orb].
    cbn [length] in Hl, Hf.
    destruct (6 <=? length ds0)%nat eqn:E6; [lia|].
    rewrite cur_rc, Hi. cbn [app hd].
    rewrite (IH f (read_char l) (ds0 ++ [a]) X).
    + rewrite <- app_assoc. reflexivity.
    + rewrite inp_rc, Hi. reflexivity.
    + exact Hds.
    + rewrite app_length. cbn [length]. lia.
    + lia.
Qed.

Lemma ub_long : forall ds f l ds0 h X,
  inp l = ds ++ h :: X -> hexs ds -> is_hex h = true ->
  (length ds0 + length ds = 6)%nat -> (length ds < f)%nat ->
  read_ubrace f l ds0 = (ds0 ++ ds, false, adv (length ds) l).
Proof.
  induction ds as [|a ds IH]; intros f l ds0 h X Hi Hh Hx Hl Hf; (destruct f as [|f]; [lia|]);
    cbn [read_ubrace]; rewrite peek_inp, Hi; cbn [app hd].
  - assert (Ea : N.eqb h 125 = false) by (apply hex_byte in Hx; lia).
    rewrite Ea. change isHexDigit with is_hex. rewrite Hx. cbn [negb orb length] in *.
    destruct (6 <=? length ds0)%nat eqn:E6; [|lia].
    rewrite app_nil_r. reflexivity.
  - inversion Hh as [|? ? Ha Hds]; subst.
    assert (Ea : N.eqb a 125 = false) by (apply hex_byte in Ha; lia).
    rewrite Ea. change isHexDigit with is_hex. rewrite Ha. cbn [negb orb].
    cbn [length] in Hl, Hf.
    destruct (6 <=? length ds0)%nat eqn:E6; [lia|].
    rewrite cur_rc, Hi. cbn [app hd].
    rewrite (IH f (read_char l) (ds0 ++ [a]) h X).
    + rewrite <- app_assoc. reflexivity.
    + rewrite inp_rc, Hi. reflexivity.
    + exact Hds.
    + exact Hx.
    + rewrite app_length. cbn [length]. lia.
    + lia.
Qed.

Definition hexfold (acc : Z) (ds : str) : Z := fold_left (fun v c => v * 16 + hex_val c) ds acc.

Lemma hex_value_fold ds : hexs ds -> hex_value ds = hexfold 0 ds.
Proof.
  unfold hex_value, hexfold. generalize 0.
  induction ds as [|a ds IH]; intros z Hh; [reflexivity|].
  inversion Hh as [|? ? Ha Hds]; subst. cbn [fold_left].
  rewrite hexval_eq by exact Ha. apply IH. exact Hds.
Qed.

Lemma brace_hex_inv : forall rb acc n cp r,
  brace_hex rb acc n = Some (cp, r) ->
  exists ds, rb = ds ++ 125%N :: r /\ hexs ds /\ cp = hexfold acc ds /\
             (n + length ds <> 0)%nat /\ (acc <= 1114111 -> cp <= 1114111) /\
             (0 <= acc -> 0 <= cp) /\
             forall X, brace_hex (ds ++ 125%N :: X) acc n = Some (cp, X).
Proof.
  induction rb as [|c rb IH]; intros acc n cp r H; [discriminate|].
  cbn [brace_hex] in H.
  destruct (N.eqb c 125) eqn:Ec.
  - apply N.eqb_eq in Ec. subst c. destruct n as [|n]; [discriminate|].
    injection H as <- <-. exists []. cbn [app length hexfold fold_left brace_hex].
    repeat split; try lia; try constructor.
  - destruct (is_hex c) eqn:Eh; [|discriminate].
    destruct (1114111 <? acc * 16 + hex_val c) eqn:El; [discriminate|].
    destruct (IH _ _ _ _ H) as (ds & -> & Hh & -> & Hn & Hmax & Hpos & HX).
    exists (c :: ds). cbn [app length].
    change (hexfold acc (c :: ds)) with (hexfold (acc * 16 + hex_val c) ds).
    pose proof (hex_val_range c Eh) as Hr.
    split; [reflexivity|]. split; [constructor; assumption|]. split; [reflexivity|].
    split; [lia|]. split; [intro; apply Hmax; lia|]. split; [intro; apply Hpos; lia|].
    intro X. cbn [brace_hex]. rewrite Ec, Eh, El. apply HX.
Qed.

Lemma it_ub f d l0 acc X :
  inp l0 = 92%N :: 117%N :: 123%N :: X ->
  read_string_loop (S f) d l0 acc =
  let '(ds, valid, l1) := read_ubrace 8 (adv 3 l0) [] in
  if negb valid || (length ds =? 0)%nat || (6 <? length ds)%nat then
    read_string_loop f d l1 (acc ++ [92%N; 117%N; 123%N] ++ ds ++ (if valid then [125%N] else []))
  else
    let v := hex_value ds in
    if 1114111 <? v then read_string_loop f d l1 (acc ++ [92%N; 117%N; 123%N] ++ ds ++ [125%N])
    else if mustStayEscaped v then
      read_string_loop f d l1 (acc ++ [92%N; 117%N; 123%N] ++ ds ++ [125%N])
    else read_string_loop f d l1 (acc ++ encodeUTF8 v).
Proof.
  intros Hi. cbn [read_string_loop adv]. unfold BACKSLASH, DQUOTE. see Hi. eval_lits.
  reflexivity.
Qed.

Lemma copy_plains d : forall bs, Forall (plain d) bs ->
  forall F l0 acc X, inp l0 = bs ++ X -> (length bs <= F)%nat ->
  read_string_loop F d l0 acc =
  read_string_loop (F - length bs) d (adv (length bs) l0) (acc ++ bs).
Proof.
  induction bs as [|c bs IH]; intros Hp F l0 acc X Hi HF.
  - cbn [length adv]. rewrite Nat.sub_0_r, app_nil_r. reflexivity.
  - inversion Hp as [|? ? Hc Hbs]; subst. cbn [length] in *. destruct F as [|F]; [lia|].
    cbn [app] in Hi. rewrite (it_plain F d l0 acc c (bs ++ X) Hi Hc).
    rewrite (IH Hbs F (read_char l0) (acc ++ [c]) X).
    + rewrite <- app_assoc. reflexivity.
    + rewrite inp_rc, Hi. reflexivity.
    + lia.
Qed.

(* [tok] is consumed in at most [length tok] iterations, appending [o] *)
Definition scan_ok (d : N) (tok o : str) : Prop :=
  exists k, (k <= length tok)%nat /\
  forall F l0 acc X, inp l0 = tok ++ X -> (k <= F)%nat ->
    read_string_loop F d l0 acc =
    read_string_loop (F - k) d (adv (length tok) l0) (acc ++ o).

Lemma scan_ok_app d t1 o1 t2 o2 :
  scan_ok d t1 o1 -> scan_ok d t2 o2 -> scan_ok d (t1 ++ t2) (o1 ++ o2).
Proof.
  intros (k1 & Hk1 & H1) (k2 & Hk2 & H2). exists (k1 + k2)%nat.
  split; [rewrite app_length; lia|].
  intros F l0 acc X Hi HF. rewrite <- app_assoc in Hi.
  rewrite (H1 F l0 acc (t2 ++ X) Hi) by lia.
  rewrite (H2 (F - k1)%nat (adv (length t1) l0) (acc ++ o1) X).
  - rewrite app_length, adv_add, <- app_assoc, Nat.sub_add_distr. reflexivity.
  - rewrite inp_adv, Hi. apply skipn_len_app.
  - lia.
Qed.

Lemma scan_plains d bs : Forall (plain d) bs -> scan_ok d bs bs.
Proof.
  intro Hp. exists (length bs). split; [lia|].
  intros F l0 acc X Hi HF. apply (copy_plains d bs Hp F l0 acc X Hi HF).
Qed.

Lemma scan_esc d e : N.eqb e 120 = false -> N.eqb e 117 = false -> scan_ok d [92%N; e] [92%N; e].
Proof.
  intros H1 H2. exists 1%nat. split; [cbn [length]; lia|].
  intros F l0 acc X Hi HF. destruct F as [|F]; [lia|]. cbn [app] in Hi.
  rewrite (it_esc F d l0 acc e X Hi H1 H2). cbn [length]. rewrite Nat.sub_succ, Nat.sub_0_r.
  reflexivity.
Qed.

Lemma scan_dq d : N.eqb 34 d = false -> scan_ok d [34%N] [92%N; 34%N].
Proof.
  intros H1. exists 1%nat. split; [cbn [length]; lia|].
  intros F l0 acc X Hi HF. destruct F as [|F]; [lia|]. cbn [app] in Hi.
  rewrite (it_dq F d l0 acc X Hi H1). cbn [length adv]. rewrite Nat.sub_succ, Nat.sub_0_r.
  reflexivity.
Qed.

Lemma scan_x d h1 h2 : is_hex h1 = true -> is_hex h2 = true ->
  scan_ok d [92%N; 120%N; h1; h2]
    (if mustStayEscaped (hex_val h1 * 16 + hex_val h2)
     then [92%N; 120%N; h1; h2] else encodeUTF8 (hex_val h1 * 16 + hex_val h2)).
Proof.
  intros H1 H2. exists 1%nat. split; [cbn [length]; lia|].
  intros F l0 acc X Hi HF. destruct F as [|F]; [lia|]. cbn [app] in Hi.
  rewrite (it_x F d l0 acc h1 h2 X Hi H1 H2). cbn [length]. rewrite Nat.sub_succ, Nat.sub_0_r.
  reflexivity.
Qed.

Lemma scan_u4 d h1 h2 h3 h4 :
  is_hex h1 = true -> is_hex h2 = true -> is_hex h3 = true -> is_hex h4 = true ->
  scan_ok d [92%N; 117%N; h1; h2; h3; h4]
    (if mustStayEscaped (hex_val h1 * 4096 + hex_val h2 * 256 + hex_val h3 * 16 + hex_val h4)
     then [92%N; 117%N; h1; h2; h3; h4]
     else encodeUTF8 (hex_val h1 * 4096 + hex_val h2 * 256 + hex_val h3 * 16 + hex_val h4)).
Proof.
  intros H1 H2 H3 H4. exists 1%nat. split; [cbn [length]; lia|].
  intros F l0 acc X Hi HF. destruct F as [|F]; [lia|]. cbn [app] in Hi.
  rewrite (it_u4 F d l0 acc h1 h2 h3 h4 X Hi H1 H2 H3 H4). cbn [length].
  rewrite Nat.sub_succ, Nat.sub_0_r. reflexivity.
Qed.

Lemma scan_ub_short d ds :
  hexs ds -> (1 <= length ds <= 6)%nat -> hexfold 0 ds <= 1114111 ->
  scan_ok d ([92%N; 117%N; 123%N] ++ ds ++ [125%N])
    (if mustStayEscaped (hexfold 0 ds) then [92%N; 117%N; 123%N] ++ ds ++ [125%N]
     else encodeUTF8 (hexfold 0 ds)).
Proof.
  intros Hh Hl Hv. exists 1%nat. split; [cbn [app length]; lia|].
  intros F l0 acc X Hi HF. destruct F as [|F]; [lia|].
  replace (length ([92%N; 117%N; 123%N] ++ ds ++ [125%N])) with (3 + S (length ds))%nat
    by (cbn [app length]; rewrite app_length; cbn [length]; lia).
  rewrite <- !app_assoc in Hi. cbn [app] in Hi.
  rewrite (it_ub F d l0 acc _ Hi).
  rewrite (ub_short ds 8 (adv 3 l0) [] X); [|rewrite inp_adv, Hi; reflexivity|exact Hh|cbn [length]; lia|lia].
  cbn [app negb orb]. rewrite hex_value_fold by exact Hh.
  destruct (length ds =? 0)%nat eqn:E0; [lia|].
  destruct (6 <? length ds)%nat eqn:E6; [lia|].
  cbv zeta. cbn [orb]. destruct (1114111 <? hexfold 0 ds) eqn:Em; [lia|].
  rewrite Nat.sub_succ, Nat.sub_0_r, <- adv_add.
  destruct (mustStayEscaped (hexfold 0 ds)); reflexivity.
Qed.

Lemma scan_ub_long d ds h T :
  hexs ds -> length ds = 6%nat -> is_hex h = true -> Forall (plain d) (h :: T) ->
  scan_ok d ([92%N; 117%N; 123%N] ++ ds ++ h :: T) ([92%N; 117%N; 123%N] ++ ds ++ h :: T).
Proof.
  intros Hh Hl Hx Hp. exists (S (length (h :: T))). split; [cbn [app length]; rewrite app_length; cbn [length]; lia|].
  intros F l0 acc X Hi HF. destruct F as [|F]; [lia|].
  replace (length ([92%N; 117%N; 123%N] ++ ds ++ h :: T)) with (3 + length ds + length (h :: T))%nat
    by (cbn [app length]; rewrite app_length; cbn [length]; lia).
  rewrite <- !app_assoc in Hi. cbn [app] in Hi.
  rewrite (it_ub F d l0 acc _ Hi).
  rewrite (ub_long ds 8 (adv 3 l0) [] h (T ++ X)); [|rewrite inp_adv, Hi; reflexivity|exact Hh|exact Hx|cbn [length]; lia|lia].
  cbn [app negb orb].
  rewrite (copy_plains d (h :: T) Hp F _ _ X).
  - rewrite <- !adv_add. rewrite app_nil_r.
    rewrite Nat.sub_succ. f_equal. rewrite <- !app_assoc. reflexivity.
  - rewrite !inp_adv, Hi. cbn [skipn]. rewrite skipn_len_app. reflexivity.
  - lia.
Qed.

(* ------------------------------------------------------------------ *)
(* 6. quoted strings: the value of the re-quoted text                  *)
(* ------------------------------------------------------------------ *)

(* reading [o] in front of any [X] (satisfying [hc]) under delimiter 34 contributes [u] *)
Definition sv_ok (o : str) (u : list Z) (hc : str -> Prop) : Prop :=
  forall g X, hc X ->
    sv_fuel (S g) 34 (o ++ X) =
    match sv_fuel g 34 X with Some l => Some (u ++ l) | None => None end.

Definition anyX (X : str) : Prop := True.

Lemma sv34_plain g b0 t cp r :
  utf8_decode1 (b0 :: t) = Some (cp, r) ->
  N.eqb b0 34 = false -> N.eqb b0 10 = false -> N.eqb b0 13 = false -> N.eqb b0 92 = false ->
  sv_fuel (S g) 34 (b0 :: t) =
  match sv_fuel g 34 r with Some l => Some (utf16 cp ++ l) | None => None end.
Proof.
  intros Hd E1 E2 E3 E4. cbn [sv_fuel]. rewrite E1, E2, E3, E4. cbn [orb]. rewrite Hd. reflexivity.
Qed.

Lemma decode_split s cp r : utf8_decode1 s = Some (cp, r) ->
  exists b0 cs, s = b0 :: cs ++ r /\ Forall (fun c => is_cont c = true) cs /\
    (forall X, utf8_decode1 (b0 :: cs ++ X) = Some (cp, X)) /\
    ((b0 <? 128)%N = true -> cs = [] /\ cp = Z.of_N b0) /\
    ((b0 <? 128)%N = false -> (194 <= b0)%N).
Proof.
  unfold utf8_decode1. destruct s as [|b0 r0]; [discriminate|].
  destruct (b0 <? 128)%N eqn:E0.
  { intro H. injection H as <- <-. exists b0, []. cbn [app].
    split; [reflexivity|]. split; [constructor|]. split; [intro X; rewrite E0; reflexivity|].
    split; [auto|lia]. }
  destruct ((194 <=? b0) && (b0 <=? 223))%N eqn:E1.
  { destruct r0 as [|b1 r1]; [discriminate|]. destruct (is_cont b1) eqn:C1; [|discriminate].
    intro H. injection H as <- <-. exists b0, [b1]. cbn [app].
    split; [reflexivity|]. split; [repeat constructor; assumption|].
    split; [intro X; rewrite E0, E1, C1; reflexivity|]. split; [lia|lia]. }
  destruct ((224 <=? b0) && (b0 <=? 239))%N eqn:E2.
  { destruct r0 as [|b1 [|b2 r2]]; try discriminate.
    destruct (is_cont b1) eqn:C1; [|discriminate]. destruct (is_cont b2) eqn:C2; [|discriminate].
    cbn [andb]. cbv zeta.
    match goal with |- (if ?c then _ else _) = _ -> _ => destruct c eqn:E end; [discriminate|].
    intro H. injection H as <- <-. exists b0, [b1; b2]. cbn [app].
    split; [reflexivity|]. split; [repeat constructor; assumption|].
    split; [intro X; rewrite E0, E1, E2, C1, C2; cbn [andb]; cbv zeta; rewrite E; reflexivity|].
    split; [lia|lia]. }
  destruct ((240 <=? b0) && (b0 <=? 244))%N eqn:E3; [|discriminate].
  destruct r0 as [|b1 [|b2 [|b3 r3]]]; try discriminate.
  destruct (is_cont b1) eqn:C1; [|discriminate]. destruct (is_cont b2) eqn:C2; [|discriminate].
  destruct (is_cont b3) eqn:C3; [|discriminate].
  cbn [andb]. cbv zeta.
  match goal with |- (if ?c then _ else _) = _ -> _ => destruct c eqn:E end; [discriminate|].
  intro H. injection H as <- <-. exists b0, [b1; b2; b3]. cbn [app].
  split; [reflexivity|]. split; [repeat constructor; assumption|].
  split; [intro X; rewrite E0, E1, E2, E3, C1, C2, C3; cbn [andb]; cbv zeta; rewrite E; reflexivity|].
  split; [lia|lia].
Qed.

Lemma mse_false v : mustStayEscaped v = false ->
  v <> 34 /\ v <> 92 /\ v <> 10 /\ v <> 13 /\ ~ (48 <= v <= 57) /\ is_surrogate v = false.
Proof. unfold mustStayEscaped, is_surrogate. lia. Qed.

Lemma enc_head v : 0 <= v <= 1114111 -> mustStayEscaped v = false ->
  exists b0 t, encodeUTF8 v = b0 :: t /\
    N.eqb b0 34 = false /\ N.eqb b0 10 = false /\ N.eqb b0 13 = false /\ N.eqb b0 92 = false /\
    is_dec b0 = false.
Proof.
  intros Hr Hm. apply mse_false in Hm. destruct Hm as (M1 & M2 & M3 & M4 & M5 & M6).
  pose proof (utf8_roundtrip v [] Hr M6) as Hrt. rewrite app_nil_r in Hrt.
  destruct (encodeUTF8 v) as [|b0 t]; [discriminate|]. exists b0, t. split; [reflexivity|].
  apply decode_split in Hrt. destruct Hrt as (b0' & cs & Heq & _ & _ & Hs & Hb).
  injection Heq as <- _. unfold is_dec.
  destruct (b0 <? 128)%N eqn:E0.
  - destruct (Hs eq_refl) as (_ & Hv). lia.
  - specialize (Hb eq_refl). lia.
Qed.

Lemma sv_enc v : 0 <= v <= 1114111 -> mustStayEscaped v = false ->
  sv_ok (encodeUTF8 v) (utf16 v) anyX.
Proof.
  intros Hr Hm. destruct (enc_head v Hr Hm) as (b0 & t & He & E1 & E2 & E3 & E4 & _).
  intros g X _. pose proof (utf8_roundtrip v X Hr (proj2 (proj2 (proj2 (proj2 (proj2 (mse_false v Hm))))))) as Hrt.
  rewrite He in *. cbn [app] in *. apply (sv34_plain g b0 (t ++ X) v X Hrt E1 E2 E3 E4).
Qed.

(* ------------------------------------------------------------------ *)
(* 7. quoted strings: the main invariant                               *)
(* ------------------------------------------------------------------ *)

(* how the output can begin, relative to the source *)
Definition headp (s out : str) : Prop :=
  match out with
  | [] => s = []
  | n :: _ => hd_error s = Some n \/ (N.eqb n 10 = false /\ is_dec n = false)
  end.

Definition R (d : N) (s : str) (v : list Z) : Prop :=
  forall F l0 acc rest,
    inp l0 = s ++ d :: rest -> (length (s ++ d :: rest) <= F)%nat ->
    exists out l', read_string_loop F d l0 acc = (acc ++ out, true, l') /\
                   l_rest l' = d :: rest /\ headp s out /\
                   forall g, (length out < g)%nat -> sv_fuel g 34 out = Some v.

Lemma glue d tok o u hc r' v t ts h os :
  tok = t :: ts -> o = h :: os ->
  scan_ok d tok o -> sv_ok o u hc ->
  (forall out', headp r' out' -> hc out') ->
  (h = t \/ (N.eqb h 10 = false /\ is_dec h = false)) ->
  R d r' v -> R d (tok ++ r') (u ++ v).
Proof.
  intros Et Eo (k & Hk & Hscan) Hsv Hhc Hh HR F l0 acc rest Hi HF.
  rewrite <- app_assoc in Hi. rewrite !app_length in HF.
  rewrite (Hscan F l0 acc (r' ++ d :: rest) Hi) by lia.
  destruct (HR (F - k)%nat (adv (length tok) l0) (acc ++ o) rest) as (out & l' & H1 & H2 & H3 & H4).
  - rewrite inp_adv, Hi. apply skipn_len_app.
  - rewrite app_length. lia.
  - exists (o ++ out), l'. split; [rewrite H1, app_assoc; reflexivity|]. split; [exact H2|]. split.
    + subst tok o. cbn [app headp hd_error]. destruct Hh as [->|Hh]; [left; reflexivity|right; exact Hh].
    + intros g Hg. destruct g as [|g]; [lia|]. rewrite (Hsv g out (Hhc out H3)).
      rewrite H4; [reflexivity|]. subst o. rewrite app_length in Hg. cbn [length] in Hg. lia.
Qed.

(* the two places where [sv_fuel] matches on a numeral inside a list pattern, restated
   with explicit tests *)
Lemma sv_u f d r' : N.eqb 92 d = false ->
  sv_fuel (S f) d (92%N :: 117%N :: r') =
  match r' with
  | [] => None
  | x :: t =>
      if N.eqb x 123 then
        match brace_hex t 0 0 with
        | Some (cp, r'') =>
            match sv_fuel f d r'' with Some l => Some (utf16 cp ++ l) | None => None end
        | None => None
        end
      else
        match t with
        | h2 :: h3 :: h4 :: r'' =>
            if is_hex x && is_hex h2 && is_hex h3 && is_hex h4 then
              match sv_fuel f d r'' with
              | Some l => Some ((hex_val x * 4096 + hex_val h2 * 256 + hex_val h3 * 16 + hex_val h4) :: l)
              | None => None end
            else None
        | _ => None
        end
  end.
Proof.
  intro Hd. cbn [sv_fuel]. rewrite Hd. eval_lits.
  destruct r' as [|x t]; [reflexivity|].
  destruct (N.eqb x 123) eqn:E.
  { apply N.eqb_eq in E. subst x. reflexivity. }
  destruct x as [|p]; [reflexivity|].
  repeat first [reflexivity | (vm_compute in E; discriminate E) | destruct p as [p|p|]].
Qed.

Lemma sv_cr f d r' : N.eqb 92 d = false ->
  sv_fuel (S f) d (92%N :: 13%N :: r') =
  match r' with
  | [] => sv_fuel f d []
  | x :: t => if N.eqb x 10 then sv_fuel f d t else sv_fuel f d (x :: t)
  end.
Proof.
  intro Hd. cbn [sv_fuel]. rewrite Hd. eval_lits.
  destruct r' as [|x t]; [reflexivity|].
  destruct (N.eqb x 10) eqn:E.
  { apply N.eqb_eq in E. subst x. reflexivity. }
  destruct x as [|p]; [reflexivity|].
  repeat first [reflexivity | (vm_compute in E; discriminate E) | destruct p as [p|p|]].
Qed.

Definition hc_nodigit (X : str) : Prop :=
  match X with n :: _ => is_dec n = false | [] => True end.
Definition hc_nolf (X : str) : Prop :=
  match X with n :: _ => N.eqb n 10 = false | [] => True end.

Lemma headp_nodigit r' out' :
  match r' with n :: _ => is_dec n = false | [] => True end -> headp r' out' -> hc_nodigit out'.
Proof.
  intros Hr Hh. destruct out' as [|m out']; [exact I|]. cbn [headp hc_nodigit] in *.
  destruct Hh as [Hh|[_ Hh]]; [|exact Hh]. destruct r' as [|n r']; [discriminate|].
  injection Hh as ->. exact Hr.
Qed.

Lemma headp_nolf r' out' :
  match r' with n :: _ => N.eqb n 10 = false | [] => True end -> headp r' out' -> hc_nolf out'.
Proof.
  intros Hr Hh. destruct out' as [|m out']; [exact I|]. cbn [headp hc_nolf] in *.
  destruct Hh as [Hh|[Hh _]]; [|exact Hh]. destruct r' as [|n r']; [discriminate|].
  injection Hh as ->. exact Hr.
Qed.

Lemma utf16_small v : v < 65536 -> utf16 v = [v].
Proof. intro H. unfold utf16. destruct (v <? 65536) eqn:E; [reflexivity|lia]. Qed.

(* an escape the scanner may decode *)
Lemma glue_enc d tok t ts v r' l :
  tok = t :: ts -> 0 <= v <= 1114111 ->
  scan_ok d tok (if mustStayEscaped v then tok else encodeUTF8 v) ->
  sv_ok tok (utf16 v) anyX ->
  R d r' l -> R d (tok ++ r') (utf16 v ++ l).
Proof.
  intros Et Hv Hs Hsv HR. destruct (mustStayEscaped v) eqn:Em.
  - apply (glue d tok tok (utf16 v) anyX r' l t ts t ts Et Et Hs Hsv); [intros; exact I|left; reflexivity|exact HR].
  - destruct (enc_head v Hv Em) as (b0 & t0 & He & _ & E10 & _ & _ & Edec).
    apply (glue d tok (encodeUTF8 v) (utf16 v) anyX r' l t ts b0 t0 Et He Hs (sv_enc v Hv Em));
      [intros; exact I|right; split; assumption|exact HR].
Qed.

Lemma cont_plain d c : (d = 34 \/ d = 39)%N -> is_cont c = true -> plain d c.
Proof. unfold is_cont, plain. lia. Qed.

Lemma hex_plain d c : (d = 34 \/ d = 39)%N -> is_hex c = true -> plain d c.
Proof. unfold is_hex, plain. lia. Qed.

Lemma Forall_plain_cont d cs : (d = 34 \/ d = 39)%N ->
  Forall (fun c => is_cont c = true) cs -> Forall (plain d) cs.
Proof. intros Hd H. eapply Forall_impl; [|exact H]. intros a Ha. apply cont_plain; assumption. Qed.

Lemma Forall_plain_hex d cs : (d = 34 \/ d = 39)%N -> hexs cs -> Forall (plain d) cs.
Proof. intros Hd H. eapply Forall_impl; [|exact H]. intros a Ha. apply hex_plain; assumption. Qed.

Ltac rw_hyps :=
  repeat match goal with
  | H : ?b = true |- context[?b] => rewrite H
  | H : ?b = false |- context[?b] => rewrite H
  end.

(* \n \t ... : a two-byte escape copied verbatim *)
Ltac simple_esc e val IH Hd Hl :=
  apply (glue _ [92%N; e] [92%N; e] [val] anyX _ _ 92%N [e] 92%N [e] eq_refl eq_refl);
  [ apply scan_esc; reflexivity
  | intros g X _; cbn [app]; cbn [sv_fuel]; eval_lits; reflexivity
  | intros; exact I
  | left; reflexivity
  | apply (IH _ _ _ Hd Hl) ].

Lemma R_nil d : (d = 34 \/ d = 39)%N -> R d [] [].
Proof.
  intros Hd F l0 acc rest Hi HF. cbn [app length] in *. destruct F as [|F]; [lia|].
  rewrite (it_delim F d l0 acc rest Hi) by lia.
  exists [], (read_char l0). rewrite app_nil_r, rest_rc.
  split; [reflexivity|]. split; [exact Hi|]. split; [reflexivity|].
  intros g Hg. destruct g; [cbn [length] in Hg; lia|reflexivity].
Qed.

Ltac fin H l Hl :=
  match type of H with
  | match sv_fuel ?f ?d ?r with _ => _ end = _ =>
      destruct (sv_fuel f d r) as [l|] eqn:Hl; [|discriminate]; injection H as <-
  end.

Lemma sv_R : forall f d s v, (d = 34 \/ d = 39)%N -> sv_fuel f d s = Some v -> R d s v.
Proof.
  induction f as [|f IH]; intros d s v Hd H; [discriminate|].
  destruct s as [|c r].
  { injection H as <-. apply R_nil. exact Hd. }
  pose proof H as H0. cbn [sv_fuel] in H.
  destruct (N.eqb c d) eqn:Ecd; [discriminate|].
  destruct (N.eqb c 10 || N.eqb c 13) eqn:Enl; [discriminate|].
  destruct (N.eqb c 92) eqn:Ebs.
  { apply N.eqb_eq in Ebs. subst c. destruct r as [|e r']; [discriminate|].
    destruct (N.eqb e 110) eqn:E1.
    { apply N.eqb_eq in E1. subst e. fin H l Hl.
      simple_esc 110%N 10 IH Hd Hl. }
    destruct (N.eqb e 116) eqn:E2.
    { apply N.eqb_eq in E2. subst e. fin H l Hl. simple_esc 116%N 9 IH Hd Hl. }
    destruct (N.eqb e 114) eqn:E3.
    { apply N.eqb_eq in E3. subst e. fin H l Hl. simple_esc 114%N 13 IH Hd Hl. }
    destruct (N.eqb e 98) eqn:E4.
    { apply N.eqb_eq in E4. subst e. fin H l Hl. simple_esc 98%N 8 IH Hd Hl. }
    destruct (N.eqb e 102) eqn:E5.
    { apply N.eqb_eq in E5. subst e. fin H l Hl. simple_esc 102%N 12 IH Hd Hl. }
    destruct (N.eqb e 118) eqn:E6.
    { apply N.eqb_eq in E6. subst e. fin H l Hl. simple_esc 118%N 11 IH Hd Hl. }
    destruct (N.eqb e 39 || N.eqb e 34 || N.eqb e 92) eqn:E7.
    { fin H l Hl.
      assert (He : e = 39%N \/ e = 34%N \/ e = 92%N) by lia.
      destruct He as [->|[->| ->]].
      - simple_esc 39%N 39 IH Hd Hl.
      - simple_esc 34%N 34 IH Hd Hl.
      - simple_esc 92%N 92 IH Hd Hl. }
    destruct (N.eqb e 48) eqn:E8.
    { (* \0 not followed by a digit *)
      apply N.eqb_eq in E8. subst e.
      assert (Hr' : match r' with n :: _ => is_dec n = false | [] => True end /\
                    exists l, sv_fuel f d r' = Some l /\ v = 0 :: l).
      { destruct r' as [|n r''].
        - fin H l Hl. split; [exact I|]. exists l. auto.
        - destruct (is_dec n) eqn:En; [discriminate|]. fin H l Hl. split; [reflexivity|]. exists l. auto. }
      destruct Hr' as (Hnd & l & Hl & ->).
      apply (glue _ [92%N; 48%N] [92%N; 48%N] [0] hc_nodigit _ _ 92%N [48%N] 92%N [48%N] eq_refl eq_refl).
      - apply scan_esc; reflexivity.
      - intros g X Hc. cbn [app]. cbn [sv_fuel]. eval_lits.
        destruct X as [|n X]; [reflexivity|]. cbn [hc_nodigit] in Hc. rewrite Hc. reflexivity.
      - intros out'. apply headp_nodigit. exact Hnd.
      - left; reflexivity.
      - apply (IH _ _ _ Hd Hl). }
    destruct (is_dec e) eqn:E9; [discriminate|].
    destruct (N.eqb e 120) eqn:E10.
    { (* \xHH *)
      apply N.eqb_eq in E10. subst e.
      destruct r' as [|h1 [|h2 r'']]; try discriminate.
      destruct (is_hex h1) eqn:X1; [|discriminate]. destruct (is_hex h2) eqn:X2; [|discriminate].
      cbn [andb] in H. fin H l Hl.
      pose proof (hex_val_range h1 X1) as R1. pose proof (hex_val_range h2 X2) as R2.
      change (R d ([92%N; 120%N; h1; h2] ++ r'') ([hex_val h1 * 16 + hex_val h2] ++ l)).
      rewrite <- (utf16_small (hex_val h1 * 16 + hex_val h2)) by lia.
      apply (glue_enc d [92%N; 120%N; h1; h2] 92%N [120%N; h1; h2] _ r'' l eq_refl).
      - lia.
      - apply scan_x; assumption.
      - intros g X _. cbn [app]. cbn [sv_fuel]. eval_lits. rewrite X1, X2. cbn [andb].
        rewrite utf16_small by lia. reflexivity.
      - apply (IH _ _ _ Hd Hl). }
    destruct (N.eqb e 117) eqn:E11.
    { (* \u *)
      apply N.eqb_eq in E11. subst e. clear H. rewrite sv_u in H0 by exact Ecd.
      destruct r' as [|x t]; [discriminate|].
      destruct (N.eqb x 123) eqn:Ex.
      { (* \u{...} *)
        apply N.eqb_eq in Ex. subst x.
        destruct (brace_hex t 0 0) as [[cp r'']|] eqn:Hb; [|discriminate]. fin H0 l Hl.
        destruct (brace_hex_inv _ _ _ _ _ Hb) as (ds & -> & Hh & Hcp & Hn & Hmax & Hpos & HX).
        specialize (Hmax ltac:(lia)). specialize (Hpos ltac:(lia)). cbn [Nat.add] in Hn.
        assert (Hsv : sv_ok ([92%N; 117%N; 123%N] ++ ds ++ [125%N]) (utf16 cp) anyX).
        { intros g X _. rewrite <- !app_assoc. cbn [app]. rewrite sv_u by reflexivity.
          eval_lits. rewrite HX. reflexivity. }
        replace (92%N :: 117%N :: 123%N :: ds ++ 125%N :: r'')
          with (([92%N; 117%N; 123%N] ++ ds ++ [125%N]) ++ r'')
          by (rewrite <- !app_assoc; reflexivity).
        destruct (Nat.leb (length ds) 6) eqn:Elen.
        - (* at most six digits *)
          apply (glue_enc d _ 92%N ([117%N; 123%N] ++ ds ++ [125%N]) cp r'' l eq_refl).
          + lia.
          + rewrite Hcp. apply scan_ub_short; [exact Hh|lia|lia].
          + exact Hsv.
          + apply (IH _ _ _ Hd Hl).
        - (* seven or more: copied verbatim, the tail as ordinary characters *)
          assert (Hsplit : exists ds6 h T, ds = ds6 ++ h :: T /\ length ds6 = 6%nat).
          { exists (firstn 6 ds). destruct (skipn 6 ds) as [|h T] eqn:Es.
            - apply (f_equal (@length N)) in Es. rewrite skipn_length in Es. cbn [length] in Es. lia.
            - exists h, T. split; [rewrite <- Es; symmetry; apply firstn_skipn|].
              apply firstn_length_le. lia. }
          destruct Hsplit as (ds6 & h & T & -> & Hl6).
          apply Forall_app in Hh. destruct Hh as (Hh6 & HhT).
          inversion HhT as [|? ? Hxh HT]; subst.
          apply (glue d _ _ (utf16 (hexfold 0 (ds6 ++ h :: T))) anyX r'' l 92%N
                   ([117%N; 123%N] ++ (ds6 ++ h :: T) ++ [125%N]) 92%N
                   ([117%N; 123%N] ++ (ds6 ++ h :: T) ++ [125%N]) eq_refl eq_refl).
          + rewrite <- !app_assoc. cbn [app].
            apply (scan_ub_long d ds6 h (T ++ [125%N]) Hh6 Hl6 Hxh).
            constructor; [apply hex_plain; assumption|].
            apply Forall_app. split; [apply Forall_plain_hex; assumption|].
            constructor; [|constructor]. unfold plain. lia.
          + exact Hsv.
          + intros; exact I.
          + left; reflexivity.
          + apply (IH _ _ _ Hd Hl). }
      (* \uHHHH *)
      destruct t as [|h2 [|h3 [|h4 r'']]]; try discriminate.
      destruct (is_hex x) eqn:X1; [|discriminate]. destruct (is_hex h2) eqn:X2; [|discriminate].
      destruct (is_hex h3) eqn:X3; [|discriminate]. destruct (is_hex h4) eqn:X4; [|discriminate].
      cbn [andb] in H0. fin H0 l Hl.
      pose proof (hex_val_range x X1) as R1. pose proof (hex_val_range h2 X2) as R2.
      pose proof (hex_val_range h3 X3) as R3. pose proof (hex_val_range h4 X4) as R4.
      change (R d ([92%N; 117%N; x; h2; h3; h4] ++ r'')
                ([hex_val x * 4096 + hex_val h2 * 256 + hex_val h3 * 16 + hex_val h4] ++ l)).
      rewrite <- (utf16_small (hex_val x * 4096 + hex_val h2 * 256 + hex_val h3 * 16 + hex_val h4)) by lia.
      apply (glue_enc d [92%N; 117%N; x; h2; h3; h4] 92%N [117%N; x; h2; h3; h4] _ r'' l eq_refl).
      - lia.
      - apply scan_u4; assumption.
      - intros g X _. cbn [app]. rewrite sv_u by reflexivity. rewrite Ex, X1, X2, X3, X4. cbn [andb].
        rewrite utf16_small by lia. reflexivity.
      - apply (IH _ _ _ Hd Hl). }
    destruct (N.eqb e 10) eqn:E12.
    { (* line continuation: backslash LF *)
      apply N.eqb_eq in E12. subst e.
      apply (glue _ [92%N; 10%N] [92%N; 10%N] [] anyX _ _ 92%N [10%N] 92%N [10%N] eq_refl eq_refl).
      - apply scan_esc; reflexivity.
      - intros g X _. cbn [app]. cbn [sv_fuel]. eval_lits. destruct (sv_fuel g 34 X); reflexivity.
      - intros; exact I.
      - left; reflexivity.
      - apply (IH _ _ _ Hd H). }
    destruct (N.eqb e 13) eqn:E13.
    { (* line continuation: backslash CR [LF] *)
      apply N.eqb_eq in E13. subst e. clear H. rewrite sv_cr in H0 by exact Ecd.
      assert (Hcases : (exists r'', r' = 10%N :: r'' /\ sv_fuel f d r'' = Some v) \/
                       (match r' with n :: _ => N.eqb n 10 = false | [] => True end /\
                        sv_fuel f d r' = Some v)).
      { destruct r' as [|x t]; [right; auto|]. destruct (N.eqb x 10) eqn:Ex.
        - apply N.eqb_eq in Ex. subst x. left. exists t. auto.
        - right. auto. }
      destruct Hcases as [(r'' & -> & Hl)|(Hnl & Hl)].
      - apply (glue _ [92%N; 13%N; 10%N] [92%N; 13%N; 10%N] [] anyX _ _ 92%N [13%N; 10%N] 92%N [13%N; 10%N] eq_refl eq_refl).
        + apply (scan_ok_app d [92%N; 13%N] [92%N; 13%N] [10%N] [10%N]); [apply scan_esc; reflexivity|].
          apply scan_plains. constructor; [|constructor]. unfold plain. lia.
        + intros g X _. cbn [app]. rewrite sv_cr by reflexivity. eval_lits.
          destruct (sv_fuel g 34 X); reflexivity.
        + intros; exact I.
        + left; reflexivity.
        + apply (IH _ _ _ Hd Hl).
      - apply (glue _ [92%N; 13%N] [92%N; 13%N] [] hc_nolf _ _ 92%N [13%N] 92%N [13%N] eq_refl eq_refl).
        + apply scan_esc; reflexivity.
        + intros g X Hc. cbn [app]. rewrite sv_cr by reflexivity.
          destruct X as [|n X]; [destruct g; reflexivity|].
          cbn [hc_nolf] in Hc. rewrite Hc. destruct (sv_fuel g 34 (n :: X)); reflexivity.
        + intros out'. apply headp_nolf. exact Hnl.
        + left; reflexivity.
        + apply (IH _ _ _ Hd Hl). }
    (* identity escape / LS, PS continuation *)
    destruct (utf8_decode1 (e :: r')) as [[cp r'']|] eqn:Hdec; [|discriminate].
    destruct (decode_split _ _ _ Hdec) as (b0 & cs & Heq & Hcs & HX & _ & _).
    injection Heq as <- ->.
    assert (Hscan : scan_ok d ([92%N; e] ++ cs) ([92%N; e] ++ cs)).
    { apply scan_ok_app; [apply scan_esc; assumption|].
      apply scan_plains. apply Forall_plain_cont; assumption. }
    destruct ((cp =? 8232) || (cp =? 8233)) eqn:Els.
    - apply (glue d ([92%N; e] ++ cs) ([92%N; e] ++ cs) [] anyX r'' v 92%N (e :: cs) 92%N (e :: cs) eq_refl eq_refl Hscan).
      + intros g X _. rewrite <- app_assoc. cbn [app]. cbn [sv_fuel]. eval_lits. rw_hyps.
        cbn [orb]. rewrite HX, Els. destruct (sv_fuel g 34 X); reflexivity.
      + intros; exact I.
      + left; reflexivity.
      + apply (IH _ _ _ Hd H).
    - fin H l Hl.
      apply (glue d ([92%N; e] ++ cs) ([92%N; e] ++ cs) (utf16 cp) anyX r'' l 92%N (e :: cs) 92%N (e :: cs) eq_refl eq_refl Hscan).
      + intros g X _. rewrite <- app_assoc. cbn [app]. cbn [sv_fuel]. eval_lits. rw_hyps.
        cbn [orb]. rewrite HX, Els. reflexivity.
      + intros; exact I.
      + left; reflexivity.
      + apply (IH _ _ _ Hd Hl). }
  (* an ordinary source character *)
  clear H0.
  destruct (utf8_decode1 (c :: r)) as [[cp r'']|] eqn:Hdec; [|discriminate]. fin H l Hl.
  destruct (decode_split _ _ _ Hdec) as (b0 & cs & Heq & Hcs & HX & Hsmall & _).
  injection Heq as <- ->.
  destruct (N.eqb c 34) eqn:Edq.
  - (* a double quote inside single quotes gets a backslash *)
    apply N.eqb_eq in Edq. subst c. destruct (Hsmall eq_refl) as (-> & ->).
    apply (glue d [34%N] [92%N; 34%N] (utf16 34) anyX r'' l 34%N [] 92%N [34%N] eq_refl eq_refl).
    + apply scan_dq. exact Ecd.
    + intros g X _. cbn [app]. cbn [sv_fuel]. eval_lits. reflexivity.
    + intros; exact I.
    + right. split; reflexivity.
    + apply (IH _ _ _ Hd Hl).
  - apply (glue d (c :: cs) (c :: cs) (utf16 cp) anyX r'' l c cs c cs eq_refl eq_refl).
    + apply scan_plains. constructor; [unfold plain; auto|]. apply Forall_plain_cont; assumption.
    + intros g X _. cbn [app]. apply (sv34_plain g c (cs ++ X) cp X (HX X)); lia.
    + intros; exact I.
    + left; reflexivity.
    + apply (IH _ _ _ Hd Hl).
Qed.

Lemma string_value_preserved : forall d body rest line col had cs v,
  d = 34%N \/ d = 39%N -> SV d body = Some v ->
  let '(lit, terminated, l') := read_string d (mklx (d :: body ++ d :: rest) line col had cs) in
  terminated = true /\ l_rest l' = d :: rest /\ SV 34 lit = Some v.
Proof.
  intros d body rest line col had cs v Hd Hsv.
  unfold read_string. cbn [l_rest].
  destruct (sv_R _ d body v Hd Hsv (S (length (d :: body ++ d :: rest)))
              (mklx (d :: body ++ d :: rest) line col had cs) [] rest)
    as (out & l' & H1 & H2 & _ & H4).
  { reflexivity. }
  { cbn [length]. lia. }
  rewrite H1. cbn [app]. split; [reflexivity|]. split; [exact H2|].
  unfold SV. apply H4. lia.
Qed.

(* regression: an escape denoting an ASCII digit directly after \0 must stay escaped
   (decoding it would produce the legacy octal escape \01) *)
Example nul_then_digit_escape :
  let body := [92; 48; 92; 120; 51; 49]%N in
  SV 39 body = Some [0; 49] /\
  (let '(lit, t, l') := read_string 39 (mklx (39%N :: body ++ [39%N]) 0 0 false []) in
   (lit, t, SV 34 lit)) = (body, true, Some [0; 49]).
Proof. vm_compute. split; reflexivity. Qed.
