(* RegistryProofs.v -- proofs about the builders' bookkeeping (Registry.v): dynamic
   token ids, duplicate detection, role sets.  Used by Props/C05.v. *)
Require Import Base Token Tree Parser Registry ParserSpec.
Require Import Gen.Tables.
From Coq Require Import ZifyBool ZifyN ZifyNat Lia.

(* ------------------------------------------------------------------ *)
(* 0. memZ / assoc_opt                                                 *)
(* ------------------------------------------------------------------ *)

Lemma memZ_In x l : memZ x l = true <-> In x l.
Proof.
  induction l as [|y l IH]; cbn [memZ In].
  - split; [discriminate|tauto].
  - rewrite orb_true_iff, IH, Z.eqb_eq. split; intros [H|H]; auto.
Qed.

Lemma assoc_opt_In {B} (l : list (Z * B)) k : assoc_opt l k <> None <-> In k (map fst l).
Proof.
  induction l as [|[k' v] l IH]; cbn [assoc_opt map fst In].
  - split; [congruence|tauto].
  - destruct (k =? k') eqn:E.
    + apply Z.eqb_eq in E. split; [intros _; left; congruence|intros _; discriminate].
    + apply Z.eqb_neq in E. rewrite IH. split; [tauto|intros [H|H]; [congruence|exact H]].
Qed.

Lemma assoc_opt_Some_In {B} (l : list (Z * B)) k v : assoc_opt l k = Some v -> In (k, v) l.
Proof.
  induction l as [|[k' v'] l IH]; cbn [assoc_opt In]; [discriminate|].
  destruct (k =? k') eqn:E.
  - apply Z.eqb_eq in E. intros H. left. congruence.
  - intros H. right. exact (IH H).
Qed.

Lemma memZ_cons x y l : memZ x (y :: l) = (x =? y) || memZ x l.
Proof. reflexivity. Qed.

(* inclusion of concrete lists, decided by computation *)
Lemma incl_by_memZ l1 l2 : forallb (fun x => memZ x l2) l1 = true -> incl l1 l2.
Proof.
  intros H x Hx. rewrite forallb_forall in H. apply memZ_In. exact (H x Hx).
Qed.

(* ------------------------------------------------------------------ *)
(* 1. lexer.Builder: token ids                                         *)
(* ------------------------------------------------------------------ *)

Lemma lookup_str_app l n v k :
  lookup_str (l ++ [(n, v)]) k =
  match lookup_str l k with
  | Some x => Some x
  | None => if str_eqb k n then Some v else None
  end.
Proof.
  induction l as [|[k' v'] l IH]; cbn [app lookup_str].
  - reflexivity.
  - destruct (str_eqb k k'); [reflexivity|exact IH].
Qed.

(* the builder invariant: ids are in range and no id is shared by two names *)
Definition lb_wf (b : lbuilder) : Prop :=
  T_DYNAMIC_TOKENS_START <= lb_next b /\
  (forall n id, lookup_str (lb_tokens b) n = Some id -> T_DYNAMIC_TOKENS_START <= id < lb_next b) /\
  (forall n1 n2 id, lookup_str (lb_tokens b) n1 = Some id ->
                    lookup_str (lb_tokens b) n2 = Some id -> n1 = n2).

Lemma lb_wf_new : lb_wf lbuilder_new.
Proof.
  unfold lb_wf, lbuilder_new; cbn [lb_next lb_tokens lookup_str].
  split; [lia|]. split; intros; discriminate.
Qed.

Lemma register_spec b n :
  lb_wf b ->
  let '(id, b') := register_token_type b n in
  lb_wf b' /\
  lookup_str (lb_tokens b') n = Some id /\
  (forall m i, lookup_str (lb_tokens b) m = Some i -> lookup_str (lb_tokens b') m = Some i).
Proof.
  intros (Hn & Hr & Hi). unfold register_token_type.
  destruct (lookup_str (lb_tokens b) n) as [id|] eqn:E.
  - split; [exact (conj Hn (conj Hr Hi))|]. split; [exact E|]. intros m i H; exact H.
  - split; [|split].
    + unfold lb_wf; cbn [lb_next lb_tokens]. split; [lia|]. split.
      * intros m i. rewrite lookup_str_app.
        destruct (lookup_str (lb_tokens b) m) as [x|] eqn:Em.
        -- intros H; inversion H; subst. specialize (Hr _ _ Em). lia.
        -- destruct (str_eqb m n); [|discriminate]. intros H; inversion H; subst. lia.
      * intros n1 n2 i. rewrite !lookup_str_app.
        destruct (lookup_str (lb_tokens b) n1) as [x1|] eqn:E1;
          destruct (lookup_str (lb_tokens b) n2) as [x2|] eqn:E2.
        -- intros H1 H2; inversion H1; inversion H2; subst. eapply Hi; eauto.
        -- destruct (str_eqb n2 n); [|discriminate].
           intros H1 H2; inversion H1; inversion H2; subst. specialize (Hr _ _ E1). lia.
        -- destruct (str_eqb n1 n); [|discriminate].
           intros H1 H2; inversion H1; inversion H2; subst. specialize (Hr _ _ E2). lia.
        -- destruct (str_eqb n1 n) eqn:A1; [|discriminate].
           destruct (str_eqb n2 n) eqn:A2; [|discriminate].
           apply str_eqb_spec in A1, A2. intros _ _. congruence.
    + cbn [lb_tokens]. rewrite lookup_str_app, E, str_eqb_refl. reflexivity.
    + cbn [lb_tokens]. intros m i H. rewrite lookup_str_app, H. reflexivity.
Qed.

Lemma lb_run_spec names : forall b,
  lb_wf b ->
  let '(ids, b') := lb_run b names in
  lb_wf b' /\
  length ids = length names /\
  (forall m i, lookup_str (lb_tokens b) m = Some i -> lookup_str (lb_tokens b') m = Some i) /\
  (forall k, (k < length names)%nat ->
     lookup_str (lb_tokens b') (nth k names []) = Some (nth k ids 0)).
Proof.
  induction names as [|n ns IH]; intros b Hwf; cbn [lb_run].
  - split; [exact Hwf|]. split; [reflexivity|]. split; [intros m i H; exact H|].
    intros k Hk. cbn [length] in Hk. lia.
  - pose proof (register_spec b n Hwf) as R.
    destruct (register_token_type b n) as [id b1]. destruct R as (Hwf1 & Hid & Hext1).
    specialize (IH b1 Hwf1). destruct (lb_run b1 ns) as [ids b2].
    destruct IH as (Hwf2 & Hlen & Hext2 & Hnth).
    split; [exact Hwf2|]. split; [cbn [length]; lia|].
    split; [intros m i H; apply Hext2, Hext1, H|].
    intros [|k] Hk; cbn [nth].
    + apply Hext2. exact Hid.
    + apply Hnth. cbn [length] in Hk. lia.
Qed.

Lemma token_types_below : Forall (fun b => b < T_DYNAMIC_TOKENS_START) token_types.
Proof. unfold token_types. repeat constructor. Qed.

Lemma token_ids_ok : forall names,
  let ids := fst (lb_run lbuilder_new names) in
  length ids = length names /\
  (forall i j, (i < length names)%nat -> (j < length names)%nat ->
     (nth i names [] = nth j names [] <-> nth i ids 0 = nth j ids 0)) /\
  Forall (fun id => T_DYNAMIC_TOKENS_START <= id /\ Forall (fun b => b < id) token_types) ids.
Proof.
  intros names. pose proof (lb_run_spec names lbuilder_new lb_wf_new) as H.
  destruct (lb_run lbuilder_new names) as [ids b']. cbn [fst].
  destruct H as ((Hn & Hr & Hi) & Hlen & _ & Hnth).
  split; [exact Hlen|]. split.
  - intros i j Hi' Hj'. pose proof (Hnth i Hi') as Li. pose proof (Hnth j Hj') as Lj. split.
    + intros E. rewrite E in Li. congruence.
    + intros E. rewrite E in Li. exact (Hi _ _ _ Li Lj).
  - apply Forall_forall. intros id Hin.
    destruct (In_nth ids id 0 Hin) as (k & Hk & Ek). subst id.
    rewrite Hlen in Hk. specialize (Hr _ _ (Hnth k Hk)).
    split; [lia|]. eapply Forall_impl; [|exact token_types_below].
    cbv beta. intros a Ha. lia.
Qed.

(* ------------------------------------------------------------------ *)
(* 2. parser.Builder                                                   *)
(* ------------------------------------------------------------------ *)

Lemma duplicate_refused : forall ops o,
  let b := snd (pb_run pbuilder_new ops) in
  (match o with
   | BRegPrefix ty => memZ ty (pb_prefix_set b) = true
   | BRegInfix ty _ => memZ ty (pb_infix_set b) = true
   | BRegPostfix ty => memZ ty (pb_postfix_set b) = true
   | _ => False end) ->
  pb_step b o = (true, b).
Proof.
  intros ops o b H. destruct o; try contradiction; unfold pb_step; rewrite H; reflexivity.
Qed.

Definition roles_inv (b : pbuilder) : Prop := forall ty,
  (memZ ty (pb_prefix_set b) = true <-> (assoc_opt prefix_table ty <> None \/ In ty (pb_prefix_ops b))) /\
  (memZ ty (pb_infix_set b) = true <-> (assoc_opt infix_table ty <> None \/ In ty (map fst (pb_infix_ops b)))) /\
  (memZ ty (pb_postfix_set b) = true <->
     (assoc_opt infix_table ty = Some IH_ParsePostfixExpression \/ In ty (pb_postfix_ops b))).

Lemma prefix_seed_ok ty : In ty builder_Prefix_seed <-> In ty (map fst prefix_table).
Proof.
  split; apply incl_by_memZ; vm_compute; reflexivity.
Qed.

Lemma infix_seed_ok ty : In ty (map fst parser_precedences) <-> In ty (map fst infix_table).
Proof.
  split; apply incl_by_memZ; vm_compute; reflexivity.
Qed.

Lemma postfix_seed_ok ty :
  In ty builder_Postfix_seed <-> assoc_opt infix_table ty = Some IH_ParsePostfixExpression.
Proof.
  split.
  - unfold builder_Postfix_seed. cbn [In]. intros [H|[H|[]]]; subst ty; reflexivity.
  - intros H. apply assoc_opt_Some_In in H. unfold infix_table in H. cbn [In] in H.
    unfold builder_Postfix_seed. cbn [In].
    repeat (destruct H as [H|H]; [inversion H; subst; try discriminate; auto|]).
    contradiction.
Qed.

Lemma roles_inv_new : roles_inv pbuilder_new.
Proof.
  intros ty. unfold pbuilder_new.
  cbn [pb_prefix_set pb_infix_set pb_postfix_set pb_prefix_ops pb_infix_ops pb_postfix_ops map In].
  rewrite !memZ_In, !assoc_opt_In, prefix_seed_ok, infix_seed_ok, postfix_seed_ok. tauto.
Qed.

Lemma roles_inv_step b o : roles_inv b -> roles_inv (snd (pb_step b o)).
Proof.
  intros Hinv. destruct o as [t|t p|t| | | | ]; unfold pb_step;
    try (intros ty; exact (Hinv ty)).
  - destruct (memZ t (pb_prefix_set b)) eqn:E; cbn [snd]; [exact Hinv|].
    intros ty. destruct (Hinv ty) as (H1 & H2 & H3).
    cbn [pb_prefix_set pb_infix_set pb_postfix_set pb_prefix_ops pb_infix_ops pb_postfix_ops].
    split; [|split; assumption].
    rewrite memZ_cons, orb_true_iff, Z.eqb_eq, H1, in_app_iff. cbn [In]. intuition.
  - destruct (memZ t (pb_infix_set b)) eqn:E; cbn [snd]; [exact Hinv|].
    intros ty. destruct (Hinv ty) as (H1 & H2 & H3).
    cbn [pb_prefix_set pb_infix_set pb_postfix_set pb_prefix_ops pb_infix_ops pb_postfix_ops].
    split; [assumption|split; [|assumption]].
    rewrite memZ_cons, orb_true_iff, Z.eqb_eq, H2, map_app, in_app_iff. cbn [map fst In]. intuition.
  - destruct (memZ t (pb_postfix_set b)) eqn:E; cbn [snd]; [exact Hinv|].
    intros ty. destruct (Hinv ty) as (H1 & H2 & H3).
    cbn [pb_prefix_set pb_infix_set pb_postfix_set pb_prefix_ops pb_infix_ops pb_postfix_ops].
    split; [assumption|split; [assumption|]].
    rewrite memZ_cons, orb_true_iff, Z.eqb_eq, H3, in_app_iff. cbn [In]. intuition.
Qed.

Lemma roles_inv_run ops : forall b, roles_inv b -> roles_inv (snd (pb_run b ops)).
Proof.
  induction ops as [|o ops IH]; intros b Hinv; cbn [pb_run snd]; [exact Hinv|].
  pose proof (roles_inv_step b o Hinv) as H1.
  destruct (pb_step b o) as [e b1]. cbn [snd] in H1.
  specialize (IH b1 H1). destruct (pb_run b1 ops) as [es b2]. exact IH.
Qed.

Lemma role_sets_ok : forall ops ty,
  let b := snd (pb_run pbuilder_new ops) in
  (memZ ty (pb_prefix_set b) = true <-> (assoc_opt prefix_table ty <> None \/ In ty (pb_prefix_ops b))) /\
  (memZ ty (pb_infix_set b) = true <-> (assoc_opt infix_table ty <> None \/ In ty (map fst (pb_infix_ops b)))) /\
  (memZ ty (pb_postfix_set b) = true <->
     (assoc_opt infix_table ty = Some IH_ParsePostfixExpression \/ In ty (pb_postfix_ops b))).
Proof.
  intros ops ty. exact (roles_inv_run ops pbuilder_new roles_inv_new ty).
Qed.

Lemma register_infix_effect : forall b ty prec,
  memZ ty (pb_infix_set b) = false ->
  exists b', pb_step b (BRegInfix ty prec) = (false, b') /\
    pb_infix_ops b' = pb_infix_ops b ++ [(ty, prec)] /\
    pb_prefix_ops b' = pb_prefix_ops b /\ pb_postfix_ops b' = pb_postfix_ops b /\
    pb_prefix_set b' = pb_prefix_set b /\ pb_postfix_set b' = pb_postfix_set b /\
    pb_tolerant b' = pb_tolerant b /\ pb_smart b' = pb_smart b /\
    pb_stmt_ics b' = pb_stmt_ics b /\ pb_expr_ics b' = pb_expr_ics b.
Proof.
  intros b ty prec H. unfold pb_step. rewrite H.
  eexists. split; [reflexivity|]. repeat split.
Qed.

Lemma postfix_call_level : forall cfg ty,
  memZ ty (c_postfix_ops cfg) = true ->
  precedence_of cfg ty = P_CALL /\
  forall ex f left s,
    t_type (ps_peek s) = ty ->
    parse_infix_expression cfg ex f left s
    = Some (EPostfix (ps_cur (ps_next s)) left (t_lit (ps_cur (ps_next s))), ps_next s).
Proof.
  intros cfg ty H. split.
  - unfold precedence_of. rewrite H. reflexivity.
  - intros ex f left s E. unfold parse_infix_expression, infix_lookup. rewrite E, H. reflexivity.
Qed.
