(* Compile.v -- compiler.Compile and debug.ToString over the generated printer. *)
Require Import Base Token Tree SourceMap Writer.
Require Import Gen.Printer.

(* compiler configurations: New() [.WithPrettyPrint(opts...)] [.WithSourceMap()] *)
Definition cfg_compact (with_map : bool) : wcfg := mkwcfg false [] false with_map.
Definition cfg_pretty (indent : str) (semis with_map : bool) : wcfg := mkwcfg true indent semis with_map.

Definition compile (cfg : wcfg) (p : program) : compile_result :=
  finish cfg (run_wops cfg (write_program p)).

(* debug.ToString(node): a zero-valued CodeWriter *)
Definition debug_to_string_stmt (s : stmt) : str * bool :=
  let st := run_wops (cfg_compact false) (write_stmt s) in (w_buf st, w_panic st).
Definition debug_to_string_expr (e : expr) : str * bool :=
  let st := run_wops (cfg_compact false) (write_expr e) in (w_buf st, w_panic st).
