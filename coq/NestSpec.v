(* NestSpec -- the syntactic nesting of every token of a tree (C16): is it inside any brace
   block (block statement or function body), is it inside a function body.  Specification
   only; proofs are in NestProofs.v. *)
Require Import Base Token Tree Parser Grammar.
Require Import Gen.Tables.

Definition nt := (token * bool * bool)%type.   (* token, inside a block, inside a function *)

Section Nest.
  Variable nest_stmt : bool -> bool -> stmt -> list nt.
  Fixpoint nest_stmts (b f : bool) (ss : list stmt) : list nt :=
    match ss with [] => [] | s :: ss' => nest_stmt b f s ++ nest_stmts b f ss' end.
End Nest.

Definition nest_idents (b f : bool) (l : list ident) : list nt := map (fun i => (id_tok i, b, f)) l.

(* the body of a function is a block whose statements are inside a block and inside a
   function; an ordinary block statement only adds "inside a block" *)
Fixpoint nest_expr (b f : bool) (e : expr) {struct e} : list nt :=
  let fix exprs (es : list expr) : list nt :=
    match es with [] => [] | x :: es' => nest_expr b f x ++ exprs es' end in
  let fix props (ps : list (expr * expr)) : list nt :=
    match ps with [] => [] | (k, v) :: ps' => nest_expr b f k ++ nest_expr b f v ++ props ps' end in
  match e with
  | ENil => []
  | EIdent i => [(id_tok i, b, f)]
  | EInt t | EFloat t | EString t _ | ERaw t _ | EBool t _ | ENull t => [(t, b, f)]
  | ELet t n v => (t, b, f) :: (id_tok n, b, f) :: nest_expr b f v
  | EBinary t l _ r => nest_expr b f l ++ (t, b, f) :: nest_expr b f r
  | EUnary t _ r => (t, b, f) :: nest_expr b f r
  | EPostfix t l _ => nest_expr b f l ++ [(t, b, f)]
  | EGroup t x rp => (t, b, f) :: nest_expr b f x ++ [(rp, b, f)]
  | ECall t fn args => nest_expr b f fn ++ (t, b, f) :: exprs args
  | EMember t o p _ => nest_expr b f o ++ (t, b, f) :: nest_expr b f p
  | EAssign t l v => nest_expr b f l ++ (t, b, f) :: nest_expr b f v
  | ECompound t l _ v => nest_expr b f l ++ (t, b, f) :: nest_expr b f v
  | EFunc t name params body =>
      (t, b, f) :: match name with Some i => [(id_tok i, b, f)] | None => [] end
      ++ nest_idents b f params ++ nest_stmt b true body
  | EArray t es rb => (t, b, f) :: exprs es ++ [(rb, b, f)]
  | EObject t ps rb => (t, b, f) :: props ps ++ [(rb, b, f)]
  end
with nest_stmt (b f : bool) (s : stmt) {struct s} : list nt :=
  match s with
  | SNil => []
  | SLet t n v => (t, b, f) :: (id_tok n, b, f) :: nest_expr b f v
  | SReturn t v => (t, b, f) :: nest_expr b f v
  | SExpr e => nest_expr b f e
  | SFunc t name params body =>
      (t, b, f) :: (id_tok name, b, f) :: nest_idents b f params ++ nest_stmt b true body
  | SBlock t ss rb => (t, b, f) :: nest_stmts nest_stmt true f ss ++ [(rb, b, f)]
  | SIf t c thn els => (t, b, f) :: nest_expr b f c ++ nest_stmt b f thn ++ nest_stmt b f els
  | SWhile t c body => (t, b, f) :: nest_expr b f c ++ nest_stmt b f body
  | SFor t i c u body => (t, b, f) :: nest_expr b f i ++ nest_expr b f c ++ nest_expr b f u ++ nest_stmt b f body
  end.

Definition nest_program (p : program) : list nt := nest_stmts nest_stmt false false (p_stmts p).

(* a probe's answers at its current token agree with the nesting of that token:
   IsInFunction = inside a function body; CurrentContext = Global outside every block and
   Block inside one.  (The property's wording expects Function for a token directly inside
   a function body; the code answers Block there: recorded finding KF8.) *)
Definition nt_ok (ev : pevent) (x : nt) : bool :=
  let t := fst (fst x) in let b := snd (fst x) in let f := snd x in
  negb (tok_eqb t (ev_tok ev)) ||
  (Bool.eqb (ev_infn ev) f && (ev_ctx ev =? (if b then P_BlockContext else P_GlobalContext))%Z).

Definition event_ok (nts : list nt) (ev : pevent) : bool :=
  existsb (fun x : nt => tok_eqb (fst (fst x)) (ev_tok ev)) nts && forallb (nt_ok ev) nts.

Definition nesting_reflected (p : program) (log : list pevent) : bool :=
  forallb (event_ok (nest_program p)) log.

(* the default modes with any lists of statement / expression interceptors *)
Definition cfg_with (sis : list stmt_ic) (eis : list expr_ic) : pcfg := mkpcfg false false sis eis [] [] [].
