(* RefutedOps.v -- recorded findings as theorems about the model: where a clause of a property is
   FALSE of the faithful model, a concrete witness is exhibited and checked by evaluation inside
   the kernel ([vm_compute]).  The same witnesses, replayed on the implementation, are entries
   of known_findings.json (the direct oracles replay them on every run).  Each statement is the
   negation of the corresponding property theorem with the excluding hypothesis dropped, so
   the hypotheses of the positive theorems are necessary. *)
Require Import Base Token Tree Parser.
Require Import Gen.Tables.
From Coq Require Import String Ascii.

Fixpoint bs (s : string) : str :=
  match s with EmptyString => [] | String c r => N_of_ascii c :: bs r end.

(* ---- KF18: an infix operator registered at level 1 never binds ---- *)
Definition tk (ty : Z) (l : string) : token := mktoken ty (bs l) (mkpos 0 0) (mkpos 0 0) false [].
Definition kf18_toks : list token := [tk T_IDENT "a"; tk 1000 "@"; tk T_IDENT "b"; tk T_EOF ""].
Definition has_binary (e : expr) : bool := match e with EBinary _ _ _ _ => true | _ => false end.

Lemma kf18_level_one_never_binds_refuted :
  exists r, parse_tokens (mkpcfg false false [] [] [] [(1000, 1)] []) kf18_toks = Some r /\
            pr_errors r <> [] /\
            forallb (fun s => match s with SExpr e => negb (has_binary e) | _ => true end) (p_stmts (pr_program r)) = true.
Proof.
  eexists. split; [vm_compute; reflexivity|]. split; [intro H; discriminate|]. vm_compute. reflexivity.
Qed.
