(* GrammarModesProofs.v -- completeness of the parser in every combination of its two
   optional modes w.r.t. the mode grammars of GrammarModes.v (C13), and the two relations
   between the mode grammars and the grammar of Grammar.v.

   The completeness proof is GrammarProofs.v's (partial correctness in continuation form,
   induction on the size of the tree, totality from TotalProofs.parse_total), generalised
   from cfg_default / m_* to [mkpcfg tolerant smart [] [] [] [] []] / m_*M smart tolerant.
   One invariant is new: the token the lexer answers after the end of the list (ps_eof) is
   [eof_again] of the last token of the list that is being read - it is what makes the
   closing token of a block left open (tolerant mode) the token the grammar names. *)
From Coq Require Import ZifyBool ZifyN ZifyNat Lia.
Require Import Base GoOps Token Tree Parser ParserSpec Grammar GrammarModes TotalProofs GrammarProofs.
Require Import Gen.Tables.

(* ---------- the last token ---------- *)

Definition elast (l : list token) : token := eof_again (last l zero_token).

Lemma elast_tl a b l : elast (a :: b :: l) = elast (b :: l).
Proof. reflexivity. Qed.

(* [r] is what a matcher returns on [ts]: empty, or it ends as [ts] ends *)
Definition lk (r ts : list token) : Prop := r = [] \/ (ts <> [] /\ elast r = elast ts).

Lemma lk_refl r : lk r r.
Proof. destruct r; [left; reflexivity|right; split; [discriminate|reflexivity]]. Qed.

Lemma lk_trans a b c : lk a b -> lk b c -> lk a c.
Proof.
  intros [->|[Hb Hab]]; [left; reflexivity|]. intros [->|[Hc Hbc]]; [congruence|].
  right. split; [assumption|congruence].
Qed.

Lemma lk_suf r ts : suf r ts -> lk r ts.
Proof.
  intros [pre ->]. destruct r as [|a r]; [left; reflexivity|]. right. split.
  - destruct pre; discriminate.
  - unfold elast. f_equal. induction pre as [|p pre IH]; [reflexivity|].
    cbn [app]. destruct (pre ++ a :: r) eqn:E; [destruct pre; discriminate|]. exact IH.
Qed.

Lemma lk_eof e : lk [eof_again e] [e].
Proof. right. split; [discriminate|reflexivity]. Qed.

Lemma lk_eq a r ts : lk (a :: r) ts -> elast (a :: r) = elast ts.
Proof. intros [H|[_ H]]; [discriminate|assumption]. Qed.

Lemma lk_nonnil a r ts : lk (a :: r) ts -> ts = [] -> False.
Proof. intros [H|[H _]]; [discriminate|assumption]. Qed.

Section Modes.
Variables smart tolerant : bool.

Local Notation cfg := (mkpcfg tolerant smart [] [] [] [] []).
Local Notation mE := (m_exprM smart tolerant).
Local Notation mS := (m_stmtM smart tolerant).
Local Notation mEs := (m_exprsM (m_exprM smart tolerant)).
Local Notation mPs := (m_propsM (m_exprM smart tolerant)).
Local Notation mSs := (m_stmtsM (m_stmtM smart tolerant)).

(* ---------- the tables of the configuration ---------- *)

Lemma prec_cfg ty : precedence_of cfg ty =
  match assoc_opt parser_precedences ty with Some p => p | None => P_LOWEST end.
Proof. reflexivity. Qed.

Lemma prec_range_cfg ty : 1 <= precedence_of cfg ty <= 12.
Proof. exact (prec_range ty). Qed.

Lemma binop_facts_cfg ty lv : binop_level ty = Some lv ->
  precedence_of cfg ty = lv /\
  infix_lookup cfg ty = Some (IK_Builtin IH_ParseBinaryExpression) /\
  3 <= lv <= 8 /\ ty <> T_SEMICOLON /\ ty <> T_INCREMENT /\ ty <> T_DECREMENT /\
  ty <> T_LPAREN /\ ty <> T_LBRACKET.
Proof.
  intro H. destruct (binop_facts ty lv H) as (H1 & H2 & H3 & H4 & H5 & H6).
  split; [exact H1|]. split; [exact H2|]. split; [exact H3|]. split; [exact H4|]. split; [exact H5|].
  split; [exact H6|]. split; intro E; rewrite E in H; vm_compute in H; discriminate.
Qed.

Lemma infix_cfg ty : infix_lookup cfg ty =
  match assoc_opt infix_table ty with Some h => Some (IK_Builtin h) | None => None end.
Proof. reflexivity. Qed.

Ltac ev_goal :=
  repeat match goal with
  | |- context [Z.eqb ?a ?b] =>
      let v := eval vm_compute in (Z.eqb a b) in
      match v with true => idtac | false => idtac end; change (Z.eqb a b) with v
  | |- context [Z.ltb ?a ?b] =>
      let v := eval vm_compute in (Z.ltb a b) in
      match v with true => idtac | false => idtac end; change (Z.ltb a b) with v
  | |- context [Z.leb ?a ?b] =>
      let v := eval vm_compute in (Z.leb a b) in
      match v with true => idtac | false => idtac end; change (Z.leb a b) with v
  | |- context [assoc_opt prefix_table ?a] =>
      let v := eval vm_compute in (assoc_opt prefix_table a) in
      match v with Some _ => idtac | None => idtac end; change (assoc_opt prefix_table a) with v
  | |- context [assoc_opt infix_table ?a] =>
      let v := eval vm_compute in (assoc_opt infix_table a) in
      match v with Some _ => idtac | None => idtac end; change (assoc_opt infix_table a) with v
  | |- context [infix_lookup cfg ?a] =>
      let v := eval vm_compute in (infix_lookup cfg a) in
      match v with Some _ => idtac | None => idtac end; change (infix_lookup cfg a) with v
  | |- context [precedence_of cfg ?a] =>
      let v := eval vm_compute in (precedence_of cfg a) in
      match v with Zpos _ => idtac end; change (precedence_of cfg a) with v
  | |- context [binop_level ?a] =>
      let v := eval vm_compute in (binop_level a) in
      match v with Some _ => idtac | None => idtac end; change (binop_level a) with v
  end.

Ltac ev_in H :=
  repeat match type of H with
  | context [Z.eqb ?a ?b] =>
      let v := eval vm_compute in (Z.eqb a b) in
      match v with true => idtac | false => idtac end; change (Z.eqb a b) with v in H
  | context [Z.ltb ?a ?b] =>
      let v := eval vm_compute in (Z.ltb a b) in
      match v with true => idtac | false => idtac end; change (Z.ltb a b) with v in H
  | context [Z.leb ?a ?b] =>
      let v := eval vm_compute in (Z.leb a b) in
      match v with true => idtac | false => idtac end; change (Z.leb a b) with v in H
  | context [assoc_opt prefix_table ?a] =>
      let v := eval vm_compute in (assoc_opt prefix_table a) in
      match v with Some _ => idtac | None => idtac end; change (assoc_opt prefix_table a) with v in H
  | context [assoc_opt infix_table ?a] =>
      let v := eval vm_compute in (assoc_opt infix_table a) in
      match v with Some _ => idtac | None => idtac end; change (assoc_opt infix_table a) with v in H
  | context [infix_lookup cfg ?a] =>
      let v := eval vm_compute in (infix_lookup cfg a) in
      match v with Some _ => idtac | None => idtac end; change (infix_lookup cfg a) with v in H
  | context [precedence_of cfg ?a] =>
      let v := eval vm_compute in (precedence_of cfg a) in
      match v with Zpos _ => idtac end; change (precedence_of cfg a) with v in H
  | context [binop_level ?a] =>
      let v := eval vm_compute in (binop_level a) in
      match v with Some _ => idtac | None => idtac end; change (binop_level a) with v in H
  end.

(* ---------- the defining equations of the matchers (cbn does not fold the mutual
   fixpoints of a section back) ---------- *)

Local Notation asiE := (asi_after_expressionM smart tolerant).
Local Notation asiL := (asi_after_let_nameM tolerant).

Lemma mE_ENil  ts : mE (ENil ) ts =
 None.
Proof. reflexivity. Qed.

Lemma mE_EIdent i ts : mE (EIdent i) ts =
 m_ident i ts.
Proof. reflexivity. Qed.

Lemma mE_EInt t ts : mE (EInt t) ts =
 if (t_type t =? T_INT) && go_int_ok (t_lit t) then eat_tok t ts else None.
Proof. reflexivity. Qed.

Lemma mE_EFloat t ts : mE (EFloat t) ts =
 if (t_type t =? T_FLOAT) && go_float_ok (t_lit t) then eat_tok t ts else None.
Proof. reflexivity. Qed.

Lemma mE_EString t v ts : mE (EString t v) ts =
 if (t_type t =? T_STRING) && str_eqb v (t_lit t) then eat_tok t ts else None.
Proof. reflexivity. Qed.

Lemma mE_ERaw t v ts : mE (ERaw t v) ts =
 if (t_type t =? T_RAW_STRING) && str_eqb v (t_lit t) then eat_tok t ts else None.
Proof. reflexivity. Qed.

Lemma mE_EBool t b ts : mE (EBool t b) ts =

      if ((t_type t =? T_TRUE) || (t_type t =? T_FALSE)) && Bool.eqb b (t_type t =? T_TRUE)
      then eat_tok t ts else None.
Proof. reflexivity. Qed.

Lemma mE_ENull t ts : mE (ENull t) ts =
 if t_type t =? T_NULL then eat_tok t ts else None.
Proof. reflexivity. Qed.

Lemma mE_ELet t name v ts : mE (ELet t name v) ts =

      if negb (t_type t =? T_LET) then None else
      match eat_tok t ts with
      | None => None
      | Some r1 =>
          match m_ident name r1 with
          | None => None
          | Some r2 =>
              match v with
              | ENil => Some r2
              | _ => match eat T_ASSIGN r2 with Some (_, r3) => mE v r3 | None => None end
              end
          end
      end.
Proof. reflexivity. Qed.

Lemma mE_EBinary t l op r ts : mE (EBinary t l op r) ts =

      match binop_level (t_type t) with
      | None => None
      | Some _ =>
          if negb (str_eqb op (t_lit t)) then None else
          match mE l ts with
          | None => None
          | Some r1 => match eat_tok t r1 with Some r2 => mE r r2 | None => None end
          end
      end.
Proof. reflexivity. Qed.

Lemma mE_EUnary t op r ts : mE (EUnary t op r) ts =

      if negb ((t_type t =? T_NOT) || (t_type t =? T_MINUS) || (t_type t =? T_INCREMENT) || (t_type t =? T_DECREMENT))
         || negb (str_eqb op (t_lit t)) then None
      else match eat_tok t ts with Some r1 => mE r r1 | None => None end.
Proof. reflexivity. Qed.

Lemma mE_EPostfix t l op ts : mE (EPostfix t l op) ts =

      if negb ((t_type t =? T_INCREMENT) || (t_type t =? T_DECREMENT)) || negb (str_eqb op (t_lit t))
         || t_nl t then None
      else match mE l ts with Some r1 => eat_tok t r1 | None => None end.
Proof. reflexivity. Qed.

Lemma mE_EGroup lp e rp ts : mE (EGroup lp e rp) ts =

      if negb (t_type lp =? T_LPAREN) || negb (t_type rp =? T_RPAREN) then None else
      match eat_tok lp ts with
      | None => None
      | Some r1 => match mE e r1 with Some r2 => eat_tok rp r2 | None => None end
      end.
Proof. reflexivity. Qed.

Lemma mE_ECall lp f args ts : mE (ECall lp f args) ts =

      if negb (t_type lp =? T_LPAREN) || (smart && t_nl lp) then None else
      match mE f ts with
      | None => None
      | Some r1 =>
          match eat_tok lp r1 with
          | None => None
          | Some r2 =>
              match mEs args r2 with
              | Some r3 => match eat T_RPAREN r3 with Some (_, r4) => Some r4 | None => None end
              | None => None
              end
          end
      end.
Proof. reflexivity. Qed.

Lemma mE_EMember t o p computed ts : mE (EMember t o p computed) ts =

      match mE o ts with
      | None => None
      | Some r1 =>
          if computed then
            if negb (t_type t =? T_LBRACKET) || (smart && t_nl t) then None else
            match eat_tok t r1 with
            | None => None
            | Some r2 =>
                match mE p r2 with
                | Some r3 => match eat T_RBRACKET r3 with Some (_, r4) => Some r4 | None => None end
                | None => None
                end
            end
          else
            if negb (t_type t =? T_DOT) then None else
            match eat_tok t r1, p with
            | Some r2, EIdent i => m_ident i r2
            | _, _ => None
            end
      end.
Proof. reflexivity. Qed.

Lemma mE_EAssign t l v ts : mE (EAssign t l v) ts =

      if negb (t_type t =? T_ASSIGN) then None else
      match mE l ts with
      | None => None
      | Some r1 => match eat_tok t r1 with Some r2 => mE v r2 | None => None end
      end.
Proof. reflexivity. Qed.

Lemma mE_ECompound t l op v ts : mE (ECompound t l op v) ts =

      let want := if t_type t =? T_PLUS_ASSIGN then Some [43%N]
                  else if t_type t =? T_MINUS_ASSIGN then Some [45%N] else None in
      match want with
      | None => None
      | Some w =>
          if negb (str_eqb op w) then None else
          match mE l ts with
          | None => None
          | Some r1 => match eat_tok t r1 with Some r2 => mE v r2 | None => None end
          end
      end.
Proof. reflexivity. Qed.

Lemma mE_EFunc t name params body ts : mE (EFunc t name params body) ts =

      if negb (t_type t =? T_FUNCTION) then None else
      match eat_tok t ts with
      | None => None
      | Some r1 =>
          match (match name with Some n => m_ident n r1 | None => Some r1 end) with
          | None => None
          | Some r2 =>
              match eat T_LPAREN r2 with
              | None => None
              | Some (_, r3) =>
                  match m_params params r3 with
                  | None => None
                  | Some r4 =>
                      match eat T_RPAREN r4 with
                      | None => None
                      | Some (_, r5) =>
                          (* the body block does not look at its follower *)
                          match body with
                          | SBlock _ _ _ => mS body zero_token r5
                          | _ => None
                          end
                      end
                  end
              end
          end
      end.
Proof. reflexivity. Qed.

Lemma mE_EArray lb es rb ts : mE (EArray lb es rb) ts =

      if negb (t_type lb =? T_LBRACKET) || negb (t_type rb =? T_RBRACKET) then None else
      match eat_tok lb ts with
      | None => None
      | Some r1 => match mEs es r1 with Some r2 => eat_tok rb r2 | None => None end
      end.
Proof. reflexivity. Qed.

Lemma mE_EObject lb ps rb ts : mE (EObject lb ps rb) ts =

      if negb (t_type lb =? T_LBRACE) then None else
      match eat_tok lb ts with
      | None => None
      | Some r1 =>
          match ps with
          | [] => (* the parser does not keep the closing brace of an empty literal *)
              if tok_eqb rb zero_token then
                match eat T_RBRACE r1 with Some (_, r2) => Some r2 | None => None end
              else None
          | _ =>
              if negb (t_type rb =? T_RBRACE) then None else
              match mPs ps r1 with Some r2 => eat_tok rb r2 | None => None end
          end
      end.
Proof. reflexivity. Qed.

Lemma mS_SNil  next ts : mS (SNil ) next ts =
 None.
Proof. reflexivity. Qed.

Lemma mS_SLet t name v next ts : mS (SLet t name v) next ts =

      if negb (t_type t =? T_LET) then None else
      match eat_tok t ts with
      | None => None
      | Some r1 =>
          match m_ident name r1 with
          | None => None
          | Some r2 =>
              match v with
              | ENil => m_endM asiL next r2
              | _ =>
                  match eat T_ASSIGN r2 with
                  | Some (_, r3) =>
                      match mE v r3 with
                      | Some r4 => m_endM asiE next r4
                      | None => None
                      end
                  | None => None
                  end
              end
          end
      end.
Proof. reflexivity. Qed.

Lemma mS_SReturn t v next ts : mS (SReturn t v) next ts =

      if negb (t_type t =? T_RETURN) then None else
      match eat_tok t ts with
      | None => None
      | Some r1 =>
          match v with
          | ENil => m_endM asi_after_returnM next r1
          | _ =>
              (* restricted production: the operand starts on the same line *)
              match r1 with
              | f :: _ =>
                  if t_nl f then None else
                  match mE v r1 with
                  | Some r2 => m_endM asiE next r2
                  | None => None
                  end
              | [] => None
              end
          end
      end.
Proof. reflexivity. Qed.

Lemma mS_SExpr e next ts : mS (SExpr e) next ts =

      match ts with
      | f :: _ =>
          if statement_keyword (t_type f) then None else
          match mE e ts with
          | Some r => m_endM asiE next r
          | None => None
          end
      | [] => None
      end.
Proof. reflexivity. Qed.

Lemma mS_SFunc t name params body next ts : mS (SFunc t name params body) next ts =

      if negb (t_type t =? T_FUNCTION) then None else
      match eat_tok t ts with
      | None => None
      | Some r1 =>
          match m_ident name r1 with
          | None => None
          | Some r2 =>
              match eat T_LPAREN r2 with
              | None => None
              | Some (_, r3) =>
                  match m_params params r3 with
                  | None => None
                  | Some r4 =>
                      match eat T_RPAREN r4 with
                      | None => None
                      | Some (_, r5) =>
                          match body with
                          | SBlock _ _ _ => mS body zero_token r5
                          | _ => None
                          end
                      end
                  end
              end
          end
      end.
Proof. reflexivity. Qed.

Lemma mS_SBlock lb ss rb next ts : mS (SBlock lb ss rb) next ts =

      if negb (t_type lb =? T_LBRACE) then None else
      if t_type rb =? T_RBRACE then
        match eat_tok lb ts with
        | None => None
        | Some r1 =>
            match mSs ss rb r1 with
            | Some r2 => eat_tok rb r2
            | None => None
            end
        end
      else if tolerant && (t_type rb =? T_EOF) then
        (* tolerant mode: a block left open at the end of the input; its closing token is
           the end-of-input token, which stays for the enclosing constructs - as the lexer
           answers it when asked again: without its trivia (C10_eof_stable) *)
        match eat_tok lb ts with
        | None => None
        | Some r1 =>
            match mSs ss rb r1 with
            | Some [e] => if tok_eqb e rb then Some [eof_again e] else None
            | _ => None
            end
        end
      else None.
Proof. reflexivity. Qed.

Lemma mS_SIf t c thn els next ts : mS (SIf t c thn els) next ts =

      if negb (t_type t =? T_IF) then None else
      match eat_tok t ts with
      | None => None
      | Some r1 =>
          match eat T_LPAREN r1 with
          | None => None
          | Some (_, r2) =>
              match mE c r2 with
              | None => None
              | Some r3 =>
                  match eat T_RPAREN r3 with
                  | None => None
                  | Some (_, r4) =>
                      match mS thn next r4 with
                      | None => None
                      | Some r5 =>
                          match els with
                          | SNil => Some r5
                          | _ =>
                              match eat T_ELSE r5 with
                              | Some (_, r6) => mS els next r6
                              | None => None
                              end
                          end
                      end
                  end
              end
          end
      end.
Proof. reflexivity. Qed.

Lemma mS_SWhile t c body next ts : mS (SWhile t c body) next ts =

      if negb (t_type t =? T_WHILE) then None else
      match eat_tok t ts with
      | None => None
      | Some r1 =>
          match eat T_LPAREN r1 with
          | None => None
          | Some (_, r2) =>
              match mE c r2 with
              | None => None
              | Some r3 =>
                  match eat T_RPAREN r3 with
                  | Some (_, r4) => mS body next r4
                  | None => None
                  end
              end
          end
      end.
Proof. reflexivity. Qed.

Lemma mS_SFor t init cond upd body next ts : mS (SFor t init cond upd body) next ts =

      if negb (t_type t =? T_FOR) then None else
      match eat_tok t ts with
      | None => None
      | Some r1 =>
          match eat T_LPAREN r1 with
          | None => None
          | Some (_, r2) =>
              match (match init with ENil => Some r2 | _ => mE init r2 end) with
              | None => None
              | Some r3 =>
                  match eat T_SEMICOLON r3 with
                  | None => None
                  | Some (_, r4) =>
                      match (match cond with ENil => Some r4 | _ => mE cond r4 end) with
                      | None => None
                      | Some r5 =>
                          match eat T_SEMICOLON r5 with
                          | None => None
                          | Some (_, r6) =>
                              match (match upd with ENil => Some r6 | _ => mE upd r6 end) with
                              | None => None
                              | Some r7 =>
                                  match eat T_RPAREN r7 with
                                  | Some (_, r8) => mS body next r8
                                  | None => None
                                  end
                              end
                          end
                      end
                  end
              end
          end
      end.
Proof. reflexivity. Qed.

Ltac mE_in H := first [rewrite mE_ENil in H | rewrite mE_EIdent in H | rewrite mE_EInt in H | rewrite mE_EFloat in H | rewrite mE_EString in H | rewrite mE_ERaw in H | rewrite mE_EBool in H | rewrite mE_ENull in H | rewrite mE_ELet in H | rewrite mE_EBinary in H | rewrite mE_EUnary in H | rewrite mE_EPostfix in H | rewrite mE_EGroup in H | rewrite mE_ECall in H | rewrite mE_EMember in H | rewrite mE_EAssign in H | rewrite mE_ECompound in H | rewrite mE_EFunc in H | rewrite mE_EArray in H | rewrite mE_EObject in H]; cbv beta iota zeta in H.
Ltac mS_in H := first [rewrite mS_SNil in H | rewrite mS_SLet in H | rewrite mS_SReturn in H | rewrite mS_SExpr in H | rewrite mS_SFunc in H | rewrite mS_SBlock in H | rewrite mS_SIf in H | rewrite mS_SWhile in H | rewrite mS_SFor in H]; cbv beta iota zeta in H.
Ltac mE_goal := first [rewrite mE_ENil | rewrite mE_EIdent | rewrite mE_EInt | rewrite mE_EFloat | rewrite mE_EString | rewrite mE_ERaw | rewrite mE_EBool | rewrite mE_ENull | rewrite mE_ELet | rewrite mE_EBinary | rewrite mE_EUnary | rewrite mE_EPostfix | rewrite mE_EGroup | rewrite mE_ECall | rewrite mE_EMember | rewrite mE_EAssign | rewrite mE_ECompound | rewrite mE_EFunc | rewrite mE_EArray | rewrite mE_EObject]; cbv zeta.
Ltac mS_goal := first [rewrite mS_SNil | rewrite mS_SLet | rewrite mS_SReturn | rewrite mS_SExpr | rewrite mS_SFunc | rewrite mS_SBlock | rewrite mS_SIf | rewrite mS_SWhile | rewrite mS_SFor].

(* ---------- where the Pratt loop stops ---------- *)

Notation SF f := (stmt_fn cfg f).
Notation EF f := (expr_fn cfg f).
Notation RL f n := (remaining_loop cfg (expr_fn cfg f) f n).
Notation PP f := (parse_prefix_expression cfg (stmt_fn cfg f) (expr_fn cfg f) f).

(* the loop running at level [lvl] does not consume [t] *)
Definition stops (lvl : Z) (t : token) : bool :=
  (t_type t =? T_SEMICOLON) || (precedence_of cfg (t_type t) <=? lvl)
  || (t_nl t && ((t_type t =? T_INCREMENT) || (t_type t =? T_DECREMENT)))
  || (smart && t_nl t && ((t_type t =? T_LPAREN) || (t_type t =? T_LBRACKET))).

Lemma stops_mono a b t : a <= b -> stops a t = true -> stops b t = true.
Proof. unfold stops. intros Hab H. lia. Qed.

Lemma stops_INF t : stops INF t = true.
Proof. unfold stops, INF. pose proof (prec_range_cfg (t_type t)). lia. Qed.

Lemma RL_stop f n left prec x c t l : stops prec t = true ->
  RL f (S n) left prec (St x c (t :: l)) = Some (left, St x c (t :: l)).
Proof.
  intro H. cbn [remaining_loop]. unfold peek_precedence. rewrite !peek_is_St, peek_St.
  cbn [c_smart]. unfold stops in H.
  destruct (t_type t =? T_SEMICOLON); [reflexivity|]. cbn [negb andb orb] in *.
  destruct (prec <? precedence_of cfg (t_type t)) eqn:E; [|reflexivity].
  replace (precedence_of cfg (t_type t) <=? prec) with false in H by lia.
  cbn [orb] in H.
  destruct (t_nl t && ((t_type t =? T_INCREMENT) || (t_type t =? T_DECREMENT))); [reflexivity|].
  cbn [orb] in H. rewrite H. reflexivity.
Qed.

Lemma RL_0 f left prec s : RL f 0 left prec s = None.
Proof. reflexivity. Qed.

(* ---------- inverting the matcher ---------- *)

Lemma m_expr_nil e : mE e [] = None.
Proof.
  induction e; cbn [m_exprM m_ident eat_tok eat]; rewrite ?IHe, ?IHe1, ?IHe2;
    repeat match goal with |- context [if ?b then _ else _] => destruct b end; try reflexivity.
  unfold m_ident. destruct (ident_ok i); reflexivity.
Qed.

Lemma m_expr_start e : forall c l r, mE e (c :: l) = Some r -> wf_expr e = true ->
  expr_start (t_type c) = true.
Proof.
  induction e; intros c l r H W; cbn [m_exprM wf_expr] in H, W; try discriminate.
  all: minv H; tinv.
  all: try (match goal with Ht : t_type _ = _ |- _ => rewrite Ht end; reflexivity).
  all: try (match goal with Ht : t_type ?t = _ |- expr_start (t_type ?t) = true => rewrite Ht end; reflexivity).
  all: try (eapply IHe; eassumption).
  all: try (eapply IHe1; eassumption).
  all: repeat match goal with H : orb _ _ = true |- _ => apply orb_true_iff in H; destruct H as [H|H] end; tinv.
  all: match goal with Ht : t_type ?t = _ |- expr_start (t_type ?t) = true => rewrite Ht end; reflexivity.
Qed.

(* ---------- unfolding the knot ---------- *)

Lemma EF_S f prec s : EF (S f) prec s = (do (left, s1) <- PP f s; RL f f left prec s1).
Proof. reflexivity. Qed.

Lemma SF_S f s : SF (S f) s = base_parse_statement cfg (SF f) (EF f) f s.
Proof. reflexivity. Qed.

Lemma PP_eq f x c l : PP f (St x c l) =
  match assoc_opt prefix_table (t_type c) with
  | Some h => prefix_handler_run cfg (SF f) (EF f) f h (St x c l)
  | None => Some (ENil, add_error (St x c l) EK_UNEXPECTED 0)
  end.
Proof. reflexivity. Qed.

(* ---------- expression lists, as head and tail ---------- *)

Definition m_tail (es : list expr) (l : list token) : option (list token) :=
  match es with
  | [] => Some l
  | _ => match eat T_COMMA l with Some (_, l') => mEs es l' | None => None end
  end.

Lemma m_exprs_cons e es ts :
  mEs (e :: es) ts = match mE e ts with Some r => m_tail es r | None => None end.
Proof. destruct es; cbn [m_exprsM m_tail]; destruct (mE e ts); reflexivity. Qed.

(* ---------- every matcher returns a list that ends as its input ends ---------- *)

Lemma eat_tok_lk t ts r : eat_tok t ts = Some r -> lk r ts.
Proof. intro H. apply lk_suf. eapply eat_tok_suf; eassumption. Qed.
Lemma eat_lk ty ts t r : eat ty ts = Some (t, r) -> lk r ts.
Proof. intro H. apply lk_suf. eapply eat_suf; eassumption. Qed.
Lemma m_ident_lk i ts r : m_ident i ts = Some r -> lk r ts.
Proof. intro H. apply lk_suf. eapply m_ident_suf; eassumption. Qed.
Lemma m_params_lk ps ts r : m_params ps ts = Some r -> lk r ts.
Proof. intro H. apply lk_suf. eapply m_params_suf; eassumption. Qed.
Lemma m_end_lk asi next ts r : m_endM asi next ts = Some r -> lk r ts.
Proof.
  intro H. apply lk_suf.
  destruct ts as [|t ts]; cbn [m_endM] in H; minv H; injection H as H; subst;
    first [apply suf_refl | apply suf_cons].
Qed.

Ltac lk_solve :=
  repeat first [eassumption | apply lk_refl | eapply lk_trans; [eassumption|]].

Section Lk.
  Variable n : nat.
  Hypothesis IHe : forall e, (esize e <= n)%nat -> forall ts r, mE e ts = Some r -> lk r ts.
  Hypothesis IHs : forall s, (ssize s <= n)%nat -> forall next ts r, mS s next ts = Some r -> lk r ts.

  Lemma m_exprs_lk es : (fold_right (fun a n => esize a + n) 0 es <= n)%nat ->
    forall ts r, mEs es ts = Some r -> lk r ts.
  Proof.
    induction es as [|e es IH]; intros Hn ts r H.
    - injection H as H. subst. apply lk_refl.
    - cbn [fold_right] in Hn. rewrite m_exprs_cons in H. minv H. apply IHe in E; [|lia].
      destruct es as [|q es]; cbn [m_tail] in H.
      + injection H as H. subst. assumption.
      + minv H. apply eat_lk in E0. apply IH in H; [|lia]. lk_solve.
  Qed.

  Lemma m_props_lk ps : (fold_right (fun kv n => esize (fst kv) + esize (snd kv) + n) 0 ps <= n)%nat ->
    forall ts r, mPs ps ts = Some r -> lk r ts.
  Proof.
    induction ps as [|[k v] ps IH]; intros Hn ts r H.
    - injection H as H. subst. apply lk_refl.
    - cbn [fold_right fst snd] in Hn. cbn [m_propsM] in H.
      destruct (negb (key_ok k)); [discriminate|].
      destruct (mE k ts) as [r1|] eqn:E1; [|discriminate]. apply IHe in E1; [|lia].
      destruct (eat T_COLON r1) as [[? r2]|] eqn:E2; [|discriminate]. apply eat_lk in E2.
      destruct (mE v r2) as [r3|] eqn:E3; [|discriminate]. apply IHe in E3; [|lia].
      destruct ps as [|kv ps].
      + injection H as H. subst. lk_solve.
      + destruct (eat T_COMMA r3) as [[? r4]|] eqn:E4; [|discriminate]. apply eat_lk in E4.
        apply IH in H; [|lia]. lk_solve.
  Qed.

  Lemma m_stmts_lk ss : (fold_right (fun a n => ssize a + n) 0 ss <= n)%nat ->
    forall next ts r, mSs ss next ts = Some r -> lk r ts.
  Proof.
    induction ss as [|s ss IH]; intros Hn next ts r H.
    - injection H as H. subst. apply lk_refl.
    - cbn [fold_right] in Hn. cbn [m_stmtsM] in H.
      destruct (mS s next ts) as [r1|] eqn:E1; [|discriminate]. apply IHs in E1; [|lia].
      apply IH in H; [|lia]. lk_solve.
  Qed.
End Lk.

Ltac lk_hyps IHe IHs :=
  repeat match goal with
  | H : eat_tok _ _ = Some _ |- _ => apply eat_tok_lk in H
  | H : eat _ _ = Some (_, _) |- _ => apply eat_lk in H
  | H : eat _ _ = Some ?p |- _ => destruct p
  | H : m_ident _ _ = Some _ |- _ => apply m_ident_lk in H
  | H : m_endM _ _ _ = Some _ |- _ => apply m_end_lk in H
  | H : m_params _ _ = Some _ |- _ => apply m_params_lk in H
  | H : match ?nm with Some _ => _ | None => _ end = Some _ |- _ => destruct nm
  | H : mE _ _ = Some _ |- _ => apply IHe in H; [|cbn [esize ssize] in *; lia]
  | H : mS _ _ _ = Some _ |- _ => apply IHs in H; [|cbn [esize ssize] in *; lia]
  | H : mEs _ _ = Some _ |- _ => eapply m_exprs_lk in H; [|exact IHe|cbn [esize ssize] in *; lia]
  | H : mPs _ _ = Some _ |- _ => eapply m_props_lk in H; [|exact IHe|cbn [esize ssize] in *; lia]
  | H : mSs _ _ _ = Some _ |- _ => eapply m_stmts_lk in H; [|exact IHs|cbn [esize ssize] in *; lia]
  | H : Some _ = Some _ |- _ => injection H as H; subst
  end.

Lemma all_lk : forall n,
  (forall e, (esize e <= n)%nat -> forall ts r, mE e ts = Some r -> lk r ts) /\
  (forall s, (ssize s <= n)%nat -> forall next ts r, mS s next ts = Some r -> lk r ts).
Proof.
  induction n as [|n [IHe IHs]].
  - split; [intros e H; destruct e; cbn [esize] in H; lia | intros s H; destruct s; cbn [ssize] in H; lia].
  - split.
    + intros e0 Hn ts r H. destruct e0; mE_in H; try discriminate.
      all: minv H.
      all: try (match type of H with context [match ?v with ENil => _ | _ => _ end] => destruct v end;
                try discriminate; minv H).
      all: try (match goal with H : context [match ?v with SBlock _ _ _ => _ | _ => _ end] |- _ => destruct v end;
                try discriminate).
      all: try (match goal with H : context [match ?v with EIdent _ => _ | _ => _ end] |- _ => destruct v end;
                try discriminate).
      all: lk_hyps IHe IHs; lk_solve.
    + intros s0 Hn next ts r H. destruct s0; mS_in H; try discriminate.
      all: minv H.
      all: repeat match goal with
           | H : context [match _ with ENil => _ | _ => _ end] |- _ => rewrite enil_match in H
           | H : context [match _ with SNil => _ | _ => _ end] |- _ => rewrite snil_match in H
           | H : match ?l with [] => _ | _ :: _ => _ end = Some _ |- _ => destruct l; [discriminate H|]
           | H : _ = Some _ |- _ => progress (minv H)
           end.
      all: try (match goal with H : context [match ?v with SBlock _ _ _ => _ | _ => _ end] |- _ => destruct v end;
                try discriminate).
      all: lk_hyps IHe IHs; lk_solve.
      eapply lk_trans; [apply lk_eof|]. lk_solve.
Qed.

(* ---------- the invariant on the end-of-input token ---------- *)

Lemma mE_lk e ts r : mE e ts = Some r -> lk r ts.
Proof. apply (proj1 (all_lk (esize e)) e). lia. Qed.
Lemma mS_lk s next ts r : mS s next ts = Some r -> lk r ts.
Proof. apply (proj2 (all_lk (ssize s)) s). lia. Qed.
Lemma mEs_lk es ts r : mEs es ts = Some r -> lk r ts.
Proof.
  eapply (m_exprs_lk (fold_right (fun a n => esize a + n)%nat 0%nat es)); [|lia].
  intros e He. apply (proj1 (all_lk _) e He).
Qed.
Lemma mPs_lk ps ts r : mPs ps ts = Some r -> lk r ts.
Proof.
  eapply (m_props_lk (fold_right (fun kv n => esize (fst kv) + esize (snd kv) + n)%nat 0%nat ps)); [|lia].
  intros e He. apply (proj1 (all_lk _) e He).
Qed.
Lemma mSs_lk ss next ts r : mSs ss next ts = Some r -> lk r ts.
Proof.
  eapply (m_stmts_lk (fold_right (fun a n => ssize a + n)%nat 0%nat ss)); [|lia].
  intros s Hs. apply (proj2 (all_lk _) s Hs).
Qed.
Lemma m_tail_lk es ts r : m_tail es ts = Some r -> lk r ts.
Proof.
  destruct es as [|e es]; unfold m_tail; intro H.
  - injection H as H. subst. apply lk_refl.
  - minv H. apply eat_lk in E. apply mEs_lk in H. eapply lk_trans; eassumption.
Qed.
Lemma m_ptail_lk ps ts r : m_ptail ps ts = Some r -> lk r ts.
Proof.
  destruct ps as [|e es]; unfold m_ptail; intro H.
  - injection H as H. subst. apply lk_refl.
  - minv H. apply eat_lk in E. apply m_params_lk in H. eapply lk_trans; eassumption.
Qed.

Lemma opt_lk e l r : (if is_enil e then Some l else mE e l) = Some r -> lk r l.
Proof. destruct (is_enil e); intro H; [injection H as H; subst; apply lk_refl|apply mE_lk in H; exact H]. Qed.

(* the token the lexer answers after the end of the list *)
Variable EOFT : token.

(* GrammarProofs.tinv, which must not eliminate the section variable *)
Ltac tinv :=
  repeat match goal with
  | H : andb _ _ = true |- _ => apply andb_true_iff in H; destruct H
  | H : orb _ _ = false |- _ => apply orb_false_iff in H; destruct H
  | H : negb _ = true |- _ => apply negb_true_iff in H
  | H : negb _ = false |- _ => apply negb_false_iff in H
  | H : (_ =? _) = true |- _ => apply Z.eqb_eq in H
  | H : str_eqb _ _ = true |- _ => apply str_eqb_spec in H
  | H : tok_eqb _ _ = true |- _ => apply tok_eqb_eq in H
  | H : Bool.eqb _ _ = true |- _ => apply Bool.eqb_prop in H
  | H : eat_tok _ _ = Some _ |- _ => apply eat_tok_inv in H
  | H : eat _ _ = Some (_, _) |- _ => apply eat_inv in H; destruct H
  | H : eat _ _ = Some ?p |- _ => destruct p
  | H : m_ident _ _ = Some _ |- _ => apply m_ident_inv in H; destruct H as (H & ? & ?)
  | H : Some _ = Some _ |- _ => injection H as H
  | H : _ :: _ = _ :: _ |- _ => injection H as ? H
  | H : ?x = _ :: _ |- _ => is_var x; subst x
  | H : _ :: _ = ?x |- _ => is_var x; subst x
  | H : ?x = _ |- _ => is_var x; lazymatch x with EOFT => fail | _ => subst x end
  | H : _ = ?x |- _ => is_var x; lazymatch x with EOFT => fail | _ => subst x end
  end.

Ltac el_norm :=
  repeat match goal with
  | K : context [elast (_ :: _ :: _)] |- _ => rewrite elast_tl in K
  | |- context [elast (_ :: _ :: _)] => rewrite elast_tl
  end.

Ltac el_lk H :=
  lazymatch type of H with
  | m_exprM _ _ _ _ = Some _ => constr:(mE_lk _ _ _ H)
  | m_stmtM _ _ _ _ _ = Some _ => constr:(mS_lk _ _ _ _ H)
  | m_exprsM _ _ _ = Some _ => constr:(mEs_lk _ _ _ H)
  | m_propsM _ _ _ = Some _ => constr:(mPs_lk _ _ _ H)
  | m_stmtsM _ _ _ _ = Some _ => constr:(mSs_lk _ _ _ _ H)
  | m_tail _ _ = Some _ => constr:(m_tail_lk _ _ _ H)
  | m_ptail _ _ = Some _ => constr:(m_ptail_lk _ _ _ H)
  | m_params _ _ = Some _ => constr:(m_params_lk _ _ _ H)
  | (if is_enil _ then Some _ else _) = Some _ => constr:(opt_lk _ _ _ H)
  end.

(* [elast l = EOFT] for a list [l] related to the list of the invariant through the matcher
   facts of the context *)
Ltac el :=
  repeat match goal with
  | H : ?f ?ts = Some (_ :: _) |- _ =>
      is_var ts;
      destruct ts as [|? ?];
      [exfalso; let p := el_lk H in exact (lk_nonnil _ _ _ p eq_refl)|]
  | H : (if is_enil _ then Some ?ts else _) = Some (_ :: _) |- _ =>
      is_var ts;
      destruct ts as [|? ?];
      [exfalso; let p := el_lk H in exact (lk_nonnil _ _ _ p eq_refl)|]
  end;
  repeat match goal with
  | H : _ = Some (_ :: _) |- _ =>
      let p := el_lk H in pose proof (lk_eq _ _ _ p); revert H
  end;
  intros; el_norm; congruence.

(* ---------- the statements proved by induction on the size of the tree ---------- *)

Definition Pe (e : expr) : Prop :=
  forall c l t rest, mE e (c :: l) = Some (t :: rest) -> wf_expr e = true ->
  forall x prec f r, ps_eof x = EOFT -> elast (c :: l) = EOFT ->
    prec < need e -> stops (follow e) t = true ->
    EF f prec (St x c l) = Some r ->
    exists f' n c', RL f' n e prec (St x c' (t :: rest)) = Some r.

Definition Ps (s : stmt) : Prop :=
  forall next c l t rest, mS s next (c :: l) = Some (t :: rest) -> wf_stmt s = true ->
  t_type t <> T_MINUS_ASSIGN -> (ends_in_open_if s = true -> t_type t <> T_ELSE) ->
  forall x f r, ps_eof x = EOFT -> elast (c :: l) = EOFT ->
    SF f (St x c l) = Some r -> exists c', r = (s, St x c' (t :: rest)).

Lemma Pe_closed e : Pe e -> forall c l t rest, mE e (c :: l) = Some (t :: rest) -> wf_expr e = true ->
  forall x prec f r, ps_eof x = EOFT -> elast (c :: l) = EOFT ->
  prec < need e -> stops (follow e) t = true -> stops prec t = true ->
  EF f prec (St x c l) = Some r -> exists c', r = (e, St x c' (t :: rest)).
Proof.
  intros HP c l t rest Hm Hw x prec f r HxE HlE Hn Hf Hs HE.
  destruct (HP c l t rest Hm Hw x prec f r HxE HlE Hn Hf HE) as (f' & n & c' & HR).
  destruct n; [discriminate|]. rewrite RL_stop in HR by assumption.
  inversion HR. eauto.
Qed.

Lemma Pe_lowest e : Pe e -> forall c l t rest, mE e (c :: l) = Some (t :: rest) -> wf_expr e = true ->
  forall x f r, ps_eof x = EOFT -> elast (c :: l) = EOFT -> stops 1 t = true ->
  EF f P_LOWEST (St x c l) = Some r -> exists c', r = (e, St x c' (t :: rest)).
Proof.
  intros HP c l t rest Hm Hw x f r HxE HlE Hs HE.
  eapply Pe_closed; try eassumption.
  - pose proof (need_ge2 e Hw). unfold P_LOWEST. lia.
  - eapply stops_mono; [|eassumption]. apply follow_ge1; assumption.
Qed.

Ltac open_EF HE :=
  match type of HE with
  | expr_fn cfg ?f _ _ = Some _ =>
      destruct f as [|f]; [discriminate HE|]; rewrite EF_S, PP_eq in HE
  end.

Ltac rwt_in HE :=
  repeat match goal with Ht : t_type ?t = _ |- _ => rewrite Ht in HE end.

Lemma Pe_atoms e : (match e with EIdent _ | EInt _ | EFloat _ | EString _ _ | ERaw _ _ | EBool _ _ | ENull _ => True | _ => False end) -> Pe e.
Proof.
  intros He c l t rest Hm Hw x prec f r HxE HlE Hn Hf HE.
  destruct e; try contradiction; mE_in Hm; minv Hm; tinv; open_EF HE.
  all: repeat match goal with H : orb _ _ = true |- _ => apply orb_true_iff in H; destruct H as [H|H] end; tinv.
  all: rwt_in HE; ev_in HE; cbn [prefix_handler_run] in HE.
  all: rewrite ?cur_St in HE.
  all: try match goal with H : go_int_ok _ = true |- _ => rewrite H in HE end.
  all: try match goal with H : go_float_ok _ = true |- _ => rewrite H in HE end.
  all: try match goal with H : mk_ident _ = _ |- _ => rewrite H in HE end.
  all: rwt_in HE; ev_in HE.
  all: try (do 3 eexists; exact HE).
  all: match goal with H : t_type _ = _ |- _ => rewrite H end; ev_goal; do 3 eexists; exact HE.
Qed.


(* ---------- one iteration of the Pratt loop ---------- *)

Lemma RL_step f n left prec x c t0 l h :
  t_type t0 <> T_SEMICOLON -> prec < precedence_of cfg (t_type t0) ->
  (t_nl t0 && ((t_type t0 =? T_INCREMENT) || (t_type t0 =? T_DECREMENT))) = false ->
  (smart && t_nl t0 && ((t_type t0 =? T_LPAREN) || (t_type t0 =? T_LBRACKET))) = false ->
  assoc_opt infix_table (t_type t0) = Some h ->
  RL f (S n) left prec (St x c (t0 :: l)) =
  (do (left', s1) <- infix_handler_run cfg (EF f) f h left (St x t0 l); RL f n left' prec s1).
Proof.
  intros H1 H2 H3 H5 H4. cbn [remaining_loop]. unfold peek_precedence, parse_infix_expression.
  cbn [c_smart]. rewrite !peek_is_St, peek_St, next_St, infix_cfg, H4, H3, H5.
  apply Z.eqb_neq in H1. apply Z.ltb_lt in H2. rewrite H1, H2. reflexivity.
Qed.

Lemma RL_binary f n left prec x c t0 c2 l2 lv :
  binop_level (t_type t0) = Some lv -> prec < lv ->
  RL f (S n) left prec (St x c (t0 :: c2 :: l2)) =
  (do (r, s1) <- EF f lv (St x c2 l2); RL f n (EBinary t0 left (t_lit t0) r) prec s1).
Proof.
  intros Hb Hp. destruct (binop_facts_cfg _ _ Hb) as (H1 & H2 & H3 & H4 & H5 & H6 & H7 & H8).
  rewrite infix_cfg in H2.
  destruct (assoc_opt infix_table (t_type t0)) as [h|] eqn:Eh; [|discriminate].
  injection H2 as H2. subst h.
  apply Z.eqb_neq in H7, H8.
  rewrite (RL_step _ _ _ _ _ _ _ _ IH_ParseBinaryExpression); try assumption; try lia.
  cbn [infix_handler_run]. unfold parse_binary_expression, current_precedence.
  rewrite cur_St, next_St, H1. destruct (EF f lv (St x c2 l2)) as [[r s1]|]; reflexivity.
Qed.

Ltac rl_simple Ht :=
  rewrite Ht; ev_goal; first [lia | discriminate | reflexivity | apply andb_false_r].

Lemma RL_assign f n left prec x c t0 c2 l2 :
  t_type t0 = T_ASSIGN -> prec < 2 ->
  RL f (S n) left prec (St x c (t0 :: c2 :: l2)) =
  (do (v, s1) <- EF f P_LOWEST (St x c2 l2); RL f n (EAssign t0 left v) prec s1).
Proof.
  intros Ht Hp.
  rewrite (RL_step _ _ _ _ _ _ _ _ IH_ParseAssignmentExpression); try (rl_simple Ht).
  cbn [infix_handler_run]. unfold parse_expression. rewrite cur_St, next_St.
  destruct (EF f P_LOWEST (St x c2 l2)) as [[r s1]|]; reflexivity.
Qed.

Lemma RL_compound f n left prec x c t0 c2 l2 :
  t_type t0 = T_PLUS_ASSIGN \/ t_type t0 = T_MINUS_ASSIGN -> prec < 2 ->
  RL f (S n) left prec (St x c (t0 :: c2 :: l2)) =
  (do (v, s1) <- EF f P_LOWEST (St x c2 l2);
   RL f n (ECompound t0 left (if t_type t0 =? T_PLUS_ASSIGN then [43%N] else [45%N]) v) prec s1).
Proof.
  intros [Ht|Ht] Hp.
  all: rewrite (RL_step _ _ _ _ _ _ _ _ IH_ParseCompoundAssignmentExpression); try (rl_simple Ht).
  all: cbn [infix_handler_run]; unfold parse_expression; rewrite cur_St, next_St, Ht; ev_goal.
  all: destruct (EF f P_LOWEST (St x c2 l2)) as [[r s1]|]; reflexivity.
Qed.

Lemma RL_postfix f n left prec x c t0 l :
  t_type t0 = T_INCREMENT \/ t_type t0 = T_DECREMENT -> t_nl t0 = false -> prec < 10 ->
  RL f (S n) left prec (St x c (t0 :: l)) = RL f n (EPostfix t0 left (t_lit t0)) prec (St x t0 l).
Proof.
  intros [Ht|Ht] Hnl Hp.
  all: rewrite (RL_step _ _ _ _ _ _ _ _ IH_ParsePostfixExpression); try (rl_simple Ht).
  all: try (rewrite Hnl; reflexivity).
  all: cbn [infix_handler_run]; rewrite cur_St; reflexivity.
Qed.

Lemma RL_call f n left prec x c t0 l :
  t_type t0 = T_LPAREN -> (smart && t_nl t0) = false -> prec < 11 ->
  RL f (S n) left prec (St x c (t0 :: l)) =
  (do (args, s1) <- parse_expression_list (EF f) f T_RPAREN (St x t0 l);
   RL f n (ECall t0 left args) prec s1).
Proof.
  intros Ht Hsm Hp.
  rewrite (RL_step _ _ _ _ _ _ _ _ IH_ParseCallExpression); try (rl_simple Ht).
  cbn [infix_handler_run]. rewrite cur_St.
  destruct (parse_expression_list (EF f) f T_RPAREN (St x t0 l)) as [[r s1]|]; reflexivity.
Qed.

Lemma RL_dot f n left prec x c t0 c2 l2 :
  t_type t0 = T_DOT -> prec < 12 ->
  RL f (S n) left prec (St x c (t0 :: c2 :: l2)) =
  (do (p, s1) <- EF f P_MEMBER (St x c2 l2); RL f n (EMember t0 left p false) prec s1).
Proof.
  intros Ht Hp.
  rewrite (RL_step _ _ _ _ _ _ _ _ IH_ParseMemberExpression); try (rl_simple Ht).
  cbn [infix_handler_run]. rewrite cur_St, next_St.
  destruct (EF f P_MEMBER (St x c2 l2)) as [[r s1]|]; reflexivity.
Qed.

Lemma RL_index f n left prec x c t0 c2 l2 :
  t_type t0 = T_LBRACKET -> (smart && t_nl t0) = false -> prec < 12 ->
  RL f (S n) left prec (St x c (t0 :: c2 :: l2)) =
  (do (p, s1) <- EF f P_LOWEST (St x c2 l2);
   let '(ok, s2) := expect s1 T_RBRACKET in
   if negb ok then RL f n ENil prec s2 else RL f n (EMember t0 left p true) prec s2).
Proof.
  intros Ht Hsm Hp.
  rewrite (RL_step _ _ _ _ _ _ _ _ IH_ParseComputedMemberExpression); try (rl_simple Ht).
  cbn [infix_handler_run]. unfold parse_expression. rewrite cur_St, next_St.
  destruct (EF f P_LOWEST (St x c2 l2)) as [[r s1]|]; [|reflexivity].
  destruct (expect s1 T_RBRACKET) as [[|] s2]; reflexivity.
Qed.

(* ---------- expression cases ---------- *)

Ltac innermost E :=
  match E with
  | match ?E' with _ => _ end => innermost E'
  | _ => E
  end.

Ltac dparse HR :=
  match type of HR with
  | (match ?E with _ => _ end) = Some _ =>
      let E' := innermost E in
      let a := fresh "a" in let s := fresh "s" in let Ea := fresh "Ea" in
      destruct E' as [[a s]|] eqn:Ea; [|discriminate HR]; cbv beta iota in HR
  end.

Ltac stops_tac :=
  unfold stops;
  match goal with Ht : t_type ?t = _ |- context [t_type ?t] => rewrite Ht end; reflexivity.

Ltac nonnil l H :=
  destruct l as [|? ?]; [rewrite m_expr_nil in H; discriminate H|].

Ltac nn :=
  repeat match goal with
  | H : mE _ ?l = Some _ |- _ =>
      is_var l; destruct l as [|? ?]; [rewrite m_expr_nil in H; discriminate H|]
  end.

Lemma Pe_binary t l op r : Pe l -> Pe r -> Pe (EBinary t l op r).
Proof.
  intros Hl Hr c l0 t1 rest Hm Hw x prec f res HxE HlE Hn Hf HE.
  mE_in Hm. cbn [wf_expr need follow] in *.
  destruct (binop_level (t_type t)) as [lv|] eqn:Eb; [|discriminate].
  minv Hm. tinv. nonnil l2 Hm.
  destruct (binop_facts_cfg _ _ Eb) as (B1 & _ & B3 & _).
  assert (N1 : lv <= need l /\ lv <= follow l) by (pose proof (level_nf l); lia).
  assert (N2 : lv < need r /\ lv <= follow r) by (pose proof (level_nf r); lia).
  eapply Hl in HE; [|eassumption|assumption|assumption|el|lia|].
  2:{ unfold stops. rewrite B1. lia. }
  destruct HE as (f' & n & c' & HR). destruct n; [discriminate|].
  rewrite (RL_binary _ _ _ _ _ _ _ _ _ lv) in HR by (assumption || lia).
  dparse HR. eapply (Pe_closed r Hr) in Ea; [|eassumption|assumption|assumption|el|lia| |assumption].
  2:{ eapply stops_mono; [|eassumption]. lia. }
  destruct Ea as (c'' & Ea). inversion Ea; subst. eauto.
Qed.

Lemma Pe_assign t l v : Pe l -> Pe v -> Pe (EAssign t l v).
Proof.
  intros Hl Hv c l0 t1 rest Hm Hw x prec f res HxE HlE Hn Hf HE.
  mE_in Hm. cbn [wf_expr need follow] in *.
  minv Hm. tinv. nonnil l2 Hm.
  destruct (assignable_nf l) as [A1 A2]; [assumption|].
  eapply Hl in HE; [|eassumption|assumption|assumption|el|lia|rewrite A2; apply stops_INF].
  destruct HE as (f' & n & c' & HR). destruct n; [discriminate|].
  rewrite RL_assign in HR by (assumption || lia).
  dparse HR. eapply (Pe_lowest v Hv) in Ea; [|eassumption|assumption|assumption|el|assumption].
  destruct Ea as (c'' & Ea). inversion Ea; subst. eauto.
Qed.

Lemma Pe_compound t l op v : Pe l -> Pe v -> Pe (ECompound t l op v).
Proof.
  intros Hl Hv c l0 t1 rest Hm Hw x prec f res HxE HlE Hn Hf HE.
  mE_in Hm. cbn [wf_expr need follow] in *.
  assert (Ht : (t_type t = T_PLUS_ASSIGN \/ t_type t = T_MINUS_ASSIGN) /\
               op = (if t_type t =? T_PLUS_ASSIGN then [43%N] else [45%N])).
  { destruct (t_type t =? T_PLUS_ASSIGN) eqn:E1; [|destruct (t_type t =? T_MINUS_ASSIGN) eqn:E2; [|discriminate]].
    all: minv Hm; tinv; auto. }
  destruct Ht as [Ht Hop].
  assert (Hm' : exists l1, mE l (c :: l0) = Some (t :: l1) /\ mE v l1 = Some (t1 :: rest)).
  { destruct (t_type t =? T_PLUS_ASSIGN); [|destruct (t_type t =? T_MINUS_ASSIGN); [|discriminate]].
    all: minv Hm; tinv; eauto. }
  clear Hm. destruct Hm' as (l1 & Hm1 & Hm2). tinv. nonnil l1 Hm2.
  destruct (assignable_nf l) as [A1 A2]; [assumption|].
  eapply Hl in HE; [|eassumption|assumption|assumption|el|lia|rewrite A2; apply stops_INF].
  destruct HE as (f' & n & c' & HR). destruct n; [discriminate|].
  rewrite RL_compound in HR by (assumption || lia).
  dparse HR. eapply (Pe_lowest v Hv) in Ea; [|eassumption|assumption|assumption|el|assumption].
  destruct Ea as (c'' & Ea). inversion Ea; subst. eauto.
Qed.

Lemma Pe_postfix t l op : Pe l -> Pe (EPostfix t l op).
Proof.
  intros Hl c l0 t1 rest Hm Hw x prec f res HxE HlE Hn Hf HE.
  mE_in Hm. cbn [wf_expr need follow] in *.
  minv Hm. tinv.
  destruct (assignable_nf l) as [A1 A2]; [assumption|].
  eapply Hl in HE; [|eassumption|assumption|assumption|el|lia|rewrite A2; apply stops_INF].
  destruct HE as (f' & n & c' & HR). destruct n; [discriminate|].
  rewrite RL_postfix in HR by (assumption || lia).
  eauto.
Qed.

Ltac osplit :=
  repeat match goal with H : orb _ _ = true |- _ => apply orb_true_iff in H; destruct H as [H|H] end.

Ltac open_prefix HE :=
  open_EF HE; rwt_in HE; ev_in HE; cbn [prefix_handler_run] in HE.

Lemma Pe_unary t op r : Pe r -> Pe (EUnary t op r).
Proof.
  intros Hr c l0 t1 rest Hm Hw x prec f res HxE HlE Hn Hf HE.
  mE_in Hm. cbn [wf_expr need follow] in *.
  minv Hm. tinv. nn.
  assert (N : 9 < need r /\ 9 <= follow r).
  { destruct ((t_type t =? T_INCREMENT) || (t_type t =? T_DECREMENT)).
    - destruct (assignable_nf r) as [A1 A2]; [assumption|]. rewrite A2. unfold INF. lia.
    - pose proof (unary_need r). pose proof (level_nf r). unfold L_UNARY in *. lia. }
  osplit; tinv.
  all: open_prefix HE; unfold parse_unary_expression in HE; rewrite cur_St, next_St in HE.
  all: dparse HE; eapply (Pe_closed r Hr) in Ea; [|eassumption|assumption|assumption|el|unfold P_UNARY; lia| |assumption];
    [|eapply stops_mono; [|eassumption]; lia].
  all: destruct Ea as (c'' & Ea); inversion Ea; subst; eauto.
Qed.

Lemma Pe_group t e rp : Pe e -> Pe (EGroup t e rp).
Proof.
  intros He c l0 t1 rest Hm Hw x prec f res HxE HlE Hn Hf HE.
  mE_in Hm. cbn [wf_expr need follow] in *.
  minv Hm. tinv. nn.
  open_prefix HE. unfold parse_grouped_expression, parse_expression in HE.
  rewrite cur_St, next_St in HE.
  dparse HE. eapply (Pe_lowest e He) in Ea; [|eassumption|assumption|assumption|el|stops_tac].
  destruct Ea as (c'' & Ea). inversion Ea; subst.
  rewrite expect_St in HE by assumption. cbn [negb] in HE. rewrite cur_St in HE. eauto.
Qed.

Lemma level_follow_INF e : 10 <= level e -> follow e = INF.
Proof.
  destruct e; cbn [level follow]; unfold L_ASSIGN, L_UNARY, L_POSTFIX, L_LHS, L_PRIMARY, INF; try lia.
  destruct (binop_level (t_type t)) as [lv|] eqn:E; [|lia].
  apply binop_facts_cfg in E. lia.
Qed.

Lemma stops_12 t : stops P_MEMBER t = true.
Proof. unfold stops, P_MEMBER. pose proof (prec_range_cfg (t_type t)). lia. Qed.

Lemma Pe_member t o p computed : Pe o -> Pe p -> Pe (EMember t o p computed).
Proof.
  intros Ho Hp c l0 t1 rest Hm Hw x prec f res HxE HlE Hn Hf HE.
  mE_in Hm. cbn [wf_expr need follow] in *. unfold L_LHS in *.
  destruct computed.
  - minv Hm. tinv. nn.
    assert (N : 11 <= need o) by (pose proof (level_nf o); lia).
    eapply Ho in HE; [|eassumption|assumption|assumption|el|lia|].
    2:{ rewrite level_follow_INF by lia. apply stops_INF. }
    destruct HE as (f' & n & c' & HR). destruct n; [discriminate|].
    rewrite RL_index in HR by (assumption || lia).
    dparse HR. eapply (Pe_lowest p Hp) in Ea; [|eassumption|assumption|assumption|el|stops_tac].
    destruct Ea as (c'' & Ea). inversion Ea; subst.
    rewrite expect_St in HR by assumption. cbn [negb] in HR. eauto.
  - minv Hm. destruct p; try discriminate. tinv.
    assert (N : 11 <= need o) by (pose proof (level_nf o); lia).
    eapply Ho in HE; [|eassumption|assumption|assumption|el|lia|].
    2:{ rewrite level_follow_INF by lia. apply stops_INF. }
    destruct HE as (f' & n & c' & HR). destruct n; [discriminate|].
    rewrite RL_dot in HR by (assumption || lia).
    assert (Hmi : mE (EIdent i) (id_tok i :: t1 :: rest) = Some (t1 :: rest))
      by (rewrite mE_EIdent; apply m_ident_intro; assumption).
    dparse HR.
    eapply (Pe_closed (EIdent i) (Pe_atoms (EIdent i) I)) in Ea;
      [|exact Hmi|reflexivity|assumption|el|cbn [need]; unfold P_MEMBER, INF; lia|apply stops_INF|apply stops_12].
    destruct Ea as (c'' & Ea). inversion Ea; subst. eauto.
Qed.

(* ---------- expression lists ---------- *)

Lemma m_tail_head es l t rest : m_tail es l = Some (t :: rest) -> stops 1 t = true ->
  exists t' l', l = t' :: l' /\ stops 1 t' = true.
Proof.
  destruct es as [|e es]; unfold m_tail.
  - intros H Hs. injection H as H. subst. eauto.
  - intros H Hs. minv H. tinv. eexists _, _. split; [reflexivity|stops_tac].
Qed.

Lemma ell_inv f end_ty : forall es n acc x c' l t rest r,
  (forall e, In e es -> Pe e) -> wf_exprs wf_expr es = true ->
  m_tail es l = Some (t :: rest) -> t_type t = end_ty -> end_ty <> T_COMMA -> stops 1 t = true ->
  ps_eof x = EOFT -> elast l = EOFT ->
  expr_list_loop (EF f) n acc (St x c' l) = Some r ->
  exists c'', r = (acc ++ es, St x c'' (t :: rest)).
Proof.
  induction es as [|e es IH]; intros n acc x c' l t rest r HP Hw Hm Ht Hne Hs HxE HlE HL.
  - cbn [m_tail] in Hm. injection Hm as Hm. subst l.
    destruct n; [discriminate|]. cbn [expr_list_loop] in HL.
    rewrite peek_is_St, Ht in HL. apply Z.eqb_neq in Hne. rewrite Hne in HL.
    injection HL as HL. subst r. rewrite app_nil_r. eauto.
  - unfold m_tail in Hm. minv Hm. tinv. rewrite m_exprs_cons in Hm. minv Hm. nn.
    cbn [wf_exprs] in Hw. tinv.
    destruct n; [discriminate|]. cbn [expr_list_loop] in HL.
    rewrite peek_is_St in HL. rwt_in HL. ev_in HL. rewrite !next_St in HL. unfold parse_expression in HL.
    destruct (m_tail_head _ _ _ _ Hm Hs) as (t' & l' & -> & Hs').
    dparse HL. eapply (Pe_lowest e) in Ea; [|apply HP; left; reflexivity|eassumption|assumption|assumption|el|assumption].
    destruct Ea as (c'' & Ea). inversion Ea; subst.
    assert (HP' : forall e', In e' es -> Pe e') by (intros; apply HP; right; assumption).
    eapply (IH _ _ _ _ _ t rest _ HP' ltac:(assumption) Hm eq_refl Hne Hs) in HL; [|assumption|el].
    destruct HL as (c3 & HL). rewrite <- app_assoc in HL. eauto.
Qed.

Lemma pel_inv f end_ty es x c0 l t rest r :
  (forall e, In e es -> Pe e) -> wf_exprs wf_expr es = true ->
  mEs es l = Some (t :: rest) -> t_type t = end_ty ->
  end_ty = T_RPAREN \/ end_ty = T_RBRACKET ->
  ps_eof x = EOFT -> elast l = EOFT ->
  parse_expression_list (EF f) f end_ty (St x c0 l) = Some r -> r = (es, St x t rest).
Proof.
  intros HP Hw Hm Ht Hend HxE HlE HL.
  assert (Hs : stops 1 t = true) by (unfold stops; rewrite Ht; destruct Hend as [-> | ->]; reflexivity).
  assert (Hne : end_ty <> T_COMMA) by (destruct Hend as [-> | ->]; discriminate).
  unfold parse_expression_list in HL. destruct es as [|e es].
  - cbn [m_exprsM] in Hm. injection Hm as Hm. subst l.
    rewrite peek_is_St, Ht, Z.eqb_refl, next_St in HL. congruence.
  - rewrite m_exprs_cons in Hm. minv Hm. cbn [wf_exprs] in Hw. tinv.
    destruct l as [|c1 l1]; [rewrite m_expr_nil in E; discriminate|].
    pose proof (m_expr_start _ _ _ _ E H) as Hst. apply expr_start_neq in Hst.
    rewrite peek_is_St in HL.
    replace (t_type c1 =? t_type t) with false in HL
      by (symmetry; apply Z.eqb_neq; destruct Hend as [Hx|Hx]; rewrite Hx; tauto).
    rewrite next_St in HL. unfold parse_expression in HL.
    destruct (m_tail_head _ _ _ _ Hm Hs) as (t' & l' & -> & Hs').
    dparse HL. eapply (Pe_lowest e) in Ea; [|apply HP; left; reflexivity|eassumption|assumption|assumption|el|assumption].
    destruct Ea as (c'' & Ea). inversion Ea; subst.
    assert (HP' : forall e', In e' es -> Pe e') by (intros; apply HP; right; assumption).
    dparse HL. eapply (ell_inv f (t_type t) es _ _ _ _ _ t rest _ HP' ltac:(assumption) Hm eq_refl Hne Hs) in Ea0; [|assumption|el].
    destruct Ea0 as (c3 & Ea0). inversion Ea0; subst.
    rewrite expect_St in HL by reflexivity. cbn [app] in HL. congruence.
Qed.

Lemma Pe_call t fn args : Pe fn -> (forall a, In a args -> Pe a) -> Pe (ECall t fn args).
Proof.
  intros Hfn Hargs c l0 t1 rest Hm Hw x prec f res HxE HlE Hn Hf HE.
  mE_in Hm. cbn [wf_expr need follow] in *. unfold L_LHS in *.
  minv Hm. tinv.
  assert (N : 11 <= need fn) by (pose proof (level_nf fn); lia).
  eapply Hfn in HE; [|eassumption|assumption|assumption|el|lia|].
  2:{ rewrite level_follow_INF by lia. apply stops_INF. }
  destruct HE as (f' & n & c' & HR). destruct n; [discriminate|].
  rewrite RL_call in HR by (assumption || lia).
  dparse HR.
  eapply pel_inv in Ea; [|eassumption|eassumption|eassumption|eassumption|left; reflexivity|assumption|el].
  inversion Ea; subst. eauto.
Qed.

Lemma Pe_array t es rb : (forall a, In a es -> Pe a) -> Pe (EArray t es rb).
Proof.
  intros Hes c l0 t1 rest Hm Hw x prec f res HxE HlE Hn Hf HE.
  mE_in Hm. cbn [wf_expr need follow] in *.
  minv Hm. tinv.
  open_prefix HE. rewrite cur_St in HE.
  dparse HE.
  eapply pel_inv in Ea; [|eassumption|eassumption|eassumption|eassumption|right; reflexivity|assumption|el].
  inversion Ea; subst. rewrite cur_St in HE. eauto.
Qed.

(* ---------- object literals ---------- *)

Lemma obj_inv f : forall ps n acc x c l t rest r,
  ps <> [] ->
  (forall k v, In (k, v) ps -> Pe k /\ Pe v) -> wf_props wf_expr ps = true ->
  mPs ps (c :: l) = Some (t :: rest) -> t_type t = T_RBRACE ->
  ps_eof x = EOFT -> elast (c :: l) = EOFT ->
  object_loop (EF f) n acc (St x c l) = Some r ->
  exists c', r = (Some (acc ++ ps), St x c' (t :: rest)).
Proof.
  induction ps as [|[k v] ps IH]; intros n acc x c l t rest r Hne HP Hw Hm Ht HxE HlE HL; [congruence|].
  cbn [m_propsM] in Hm. cbn [wf_props] in Hw. minv Hm; tinv; nn.
  all: destruct (HP k v (or_introl eq_refl)) as [Pk Pv].
  all: destruct n; [discriminate|]; cbn [object_loop] in HL; unfold parse_expression in HL.
  all: dparse HL; eapply (Pe_lowest k Pk) in Ea; [|eassumption|assumption|assumption|el|stops_tac].
  all: destruct Ea as (c1 & Ea); inversion Ea; subst.
  all: rewrite expect_St in HL by assumption; cbn [negb] in HL; rewrite next_St in HL.
  all: dparse HL; eapply (Pe_lowest v Pv) in Ea0; [|eassumption|assumption|assumption|el|stops_tac].
  all: destruct Ea0 as (c2 & Ea0); inversion Ea0; subst.
  all: rewrite peek_is_St in HL; rwt_in HL; ev_in HL; cbn [negb] in HL.
  - injection HL as HL. eauto.
  - match goal with Hm : mPs _ ?l4 = Some _ |- _ =>
      destruct l4 as [|c3 l4];
      [destruct p as [k' v']; cbn [m_propsM] in Hm; rewrite m_expr_nil in Hm; minv Hm|];
      rewrite !next_St in HL;
      eapply (IH _ _ _ _ _ _ _ _ ltac:(discriminate)) in HL;
        [| intros; apply HP; right; assumption | assumption | exact Hm | assumption | assumption | el]
    end.
    destruct HL as (c4 & HL). rewrite <- app_assoc in HL. eauto.
Qed.

Lemma Pe_object t ps rb : (forall k v, In (k, v) ps -> Pe k /\ Pe v) -> Pe (EObject t ps rb).
Proof.
  intros Hps c l0 t1 rest Hm Hw x prec f res HxE HlE Hn Hf HE.
  mE_in Hm. cbn [wf_expr need follow] in *.
  destruct ps as [|[k v] ps].
  - minv Hm. tinv. open_prefix HE. unfold parse_object_literal in HE.
    rewrite peek_is_St, cur_St in HE. rwt_in HE. ev_in HE. rewrite next_St in HE. eauto.
  - minv Hm. tinv.
    assert (Hst : exists c2 l2, l = c2 :: l2 /\ t_type c2 <> T_RBRACE).
    { cbn [wf_props] in Hw.
      match goal with E2 : m_propsM _ _ _ = Some _ |- _ => cbn [m_propsM] in E2; minv E2; tinv end.
      all: match goal with Hk : mE ?k ?l = Some _, Hwk : wf_expr ?k = true |- exists _ _, ?l = _ /\ _ =>
        destruct l as [|c2 l2]; [rewrite m_expr_nil in Hk; discriminate|];
        pose proof (m_expr_start _ _ _ _ Hk Hwk) as Hst; apply expr_start_neq in Hst;
        eexists _, _; split; [reflexivity|tauto] end. }
    destruct Hst as (c2 & l2 & -> & Hst).
    open_prefix HE. unfold parse_object_literal in HE.
    rewrite peek_is_St, cur_St in HE. apply Z.eqb_neq in Hst. rewrite Hst in HE. rewrite next_St in HE.
    dparse HE.
    eapply (obj_inv f ((k, v) :: ps)) in Ea; [|discriminate|eassumption|eassumption|eassumption|assumption|assumption|el].
    destruct Ea as (c3 & Ea). inversion Ea; subst.
    rewrite expect_St in HE by assumption. cbn [negb app] in HE. rewrite cur_St in HE. eauto.
Qed.

(* ---------- statement ends ---------- *)

Lemma not_continues_stops t : continues_expressionM smart t = false -> stops 1 t = true.
Proof.
  intro H. unfold stops.
  destruct (precedence_of cfg (t_type t) <=? 1) eqn:E; [rewrite orb_true_r; reflexivity|].
  rewrite prec_cfg in E. unfold parser_precedences in E. cbn [assoc_opt] in E.
  unfold continues_expressionM in H.
  repeat match type of E with
  | context [t_type t =? ?K] =>
      let Ek := fresh "Ek" in
      destruct (t_type t =? K) eqn:Ek;
      [apply Z.eqb_eq in Ek; rewrite Ek in H |- *; ev_in H; ev_goal; cbn [orb andb negb] in H |- *;
       first [discriminate H | lia]|]
  end.
  discriminate E.
Qed.

Lemma asi_expr_stops t : asiE t = true -> stops 1 t = true.
Proof.
  unfold asi_after_expressionM. intro H. osplit; tinv.
  - stops_tac.
  - stops_tac.
  - apply not_continues_stops. assumption.
  - apply not_continues_stops. assumption.
Qed.

Lemma semi_stops t : t_type t = T_SEMICOLON -> stops 1 t = true.
Proof. intro. stops_tac. Qed.

Lemma asi_St_semi x c t l : t_type t = T_SEMICOLON ->
  expect_semicolon_asi cfg (St x c (t :: l)) = (true, St x t l).
Proof. intro H. unfold expect_semicolon_asi. rewrite peek_is_St, H, Z.eqb_refl, next_St. reflexivity. Qed.

Lemma asi_St_insert x c t l : t_type t <> T_SEMICOLON ->
  t_type t = T_EOF \/ t_type t = T_RBRACE \/ (t_nl t = true /\ t_type t <> T_MINUS_ASSIGN) \/ tolerant = true ->
  expect_semicolon_asi cfg (St x c (t :: l)) = (true, St x c (t :: l)).
Proof.
  intros H1 H2. unfold expect_semicolon_asi, should_insert_semicolon. rewrite !peek_is_St, peek_St.
  cbn [c_tolerant].
  apply Z.eqb_neq in H1. rewrite H1.
  destruct H2 as [H2|[H2|[[H2 H3]|H2]]].
  - rewrite H2. reflexivity.
  - rewrite H2. reflexivity.
  - rewrite H2. cbn [negb]. unfold asi_switch_false. cbn [memZ]. apply Z.eqb_neq in H3. rewrite H3.
    destruct (t_type t =? T_EOF); [reflexivity|]. destruct (t_type t =? T_RBRACE); reflexivity.
  - rewrite H2.
    repeat match goal with |- context [if ?b then _ else _] => destruct b end; reflexivity.
Qed.

(* what a successful statement end looks like to the parser *)
Lemma m_end_inv asi next r t rest :
  m_endM asi next r = Some (t :: rest) -> t_type t <> T_MINUS_ASSIGN ->
  (forall u, asi u = true -> t_type u = T_EOF \/ t_type u = T_RBRACE \/ t_nl u = true \/ tolerant = true) ->
  exists t' r', r = t' :: r' /\ (t_type t' = T_SEMICOLON \/ asi t' = true) /\
    forall x c, exists c'', expect_semicolon_asi cfg (St x c r) = (true, St x c'' (t :: rest)).
Proof.
  intros H Hne Hasi. destruct r as [|t' r']; cbn [m_endM] in H.
  - destruct (asi next); discriminate.
  - exists t', r'. split; [reflexivity|].
    destruct (t_type t' =? T_SEMICOLON) eqn:E.
    + apply Z.eqb_eq in E. injection H as H. subst r'. split; [left; assumption|].
      intros x c. exists t'. apply asi_St_semi. assumption.
    + apply Z.eqb_neq in E. destruct (asi t') eqn:Ea; [|discriminate]. injection H as H1 H2. subst.
      split; [right; reflexivity|]. intros x c. exists c. apply asi_St_insert; [assumption|].
      destruct (Hasi _ Ea) as [H|[H|[H|H]]]; auto.
Qed.

Lemma asi_expr_cases u : asiE u = true ->
  t_type u = T_EOF \/ t_type u = T_RBRACE \/ t_nl u = true \/ tolerant = true.
Proof. unfold asi_after_expressionM. intro H. osplit; tinv; auto. Qed.
Lemma asi_let_cases u : asiL u = true ->
  t_type u = T_EOF \/ t_type u = T_RBRACE \/ t_nl u = true \/ tolerant = true.
Proof. unfold asi_after_let_nameM. intro H. osplit; tinv; auto. Qed.
Lemma asi_return_cases u : asi_after_returnM u = true ->
  t_type u = T_EOF \/ t_type u = T_RBRACE \/ t_nl u = true \/ tolerant = true.
Proof. unfold asi_after_returnM. intro H. osplit; tinv; auto. Qed.

Lemma asi_let_not_assign u : t_type u = T_SEMICOLON \/ asiL u = true -> (t_type u =? T_ASSIGN) = false.
Proof.
  intros [H|H]; [rewrite H; reflexivity|].
  apply Z.eqb_neq. intro Eq. unfold asi_after_let_nameM in H. rewrite Eq in H. ev_in H.
  cbn [orb andb negb] in H. rewrite !andb_false_r in H. discriminate.
Qed.

(* ---------- first tokens of statements ---------- *)

Lemma m_stmt_nil s next : mS s next [] = None.
Proof.
  destruct s; mS_goal; cbn [eat_tok]; repeat match goal with |- context [if ?b then _ else _] => destruct b end; reflexivity.
Qed.

Lemma m_stmt_start s next c l r : mS s next (c :: l) = Some r -> wf_stmt s = true ->
  stmt_start (t_type c) = true.
Proof.
  intros H W. unfold stmt_start. destruct s; mS_in H; try discriminate.
  all: try (minv H; tinv;
            match goal with Ht : t_type ?t = _ |- context [t_type ?t] => rewrite Ht end; reflexivity).
  destruct (statement_keyword (t_type c)); [discriminate|]. minv H. cbn [wf_stmt] in W.
  cbn [orb]. eapply m_expr_start; eassumption.
Qed.

(* ---------- blocks ---------- *)

Lemma m_stmts_head ss next l t rest : mSs ss next l = Some (t :: rest) ->
  wf_stmts wf_stmt ss = true ->
  exists t' l', l = t' :: l' /\ (ss = [] \/ stmt_start (t_type t') = true).
Proof.
  destruct ss as [|s ss]; cbn [m_stmtsM wf_stmts]; intros H W.
  - injection H as H. subst. eauto.
  - destruct l as [|t' l']; [rewrite m_stmt_nil in H; discriminate|].
    destruct (mS s next (t' :: l')) eqn:E; [|discriminate]. tinv.
    eexists _, _. split; [reflexivity|]. right. eapply m_stmt_start; eassumption.
Qed.

Lemma m_stmt_not_nil s next ts r : mS s next ts = Some r -> is_snil s = false.
Proof. destruct s; intro H; [mS_in H; discriminate|..]; reflexivity. Qed.

(* the loop of a block: it ends at the closing brace - or, a block left open, at the end
   of the input *)
Lemma block_inv f : forall ss n acc x c l next t rest r,
  (forall s, In s ss -> Ps s) -> wf_stmts wf_stmt ss = true ->
  mSs ss next (c :: l) = Some (t :: rest) -> t_type t = T_RBRACE \/ t_type t = T_EOF ->
  ps_eof x = EOFT -> elast (c :: l) = EOFT ->
  block_loop (SF f) n acc (St x c l) = Some r -> r = (acc ++ ss, St x t rest).
Proof.
  induction ss as [|s ss IH]; intros n acc x c l next t rest r HP Hw Hm Ht HxE HlE HL.
  - cbn [m_stmtsM] in Hm. injection Hm as Hm1 Hm2. subst.
    destruct n; [discriminate|]. cbn [block_loop] in HL. rewrite !cur_is_St in HL.
    replace (negb (t_type t =? T_RBRACE) && negb (t_type t =? T_EOF)) with false in HL
      by (destruct Ht as [Ht|Ht]; rewrite Ht; reflexivity).
    rewrite app_nil_r. congruence.
  - cbn [m_stmtsM] in Hm. cbn [wf_stmts] in Hw. tinv.
    destruct (mS s next (c :: l)) as [r1|] eqn:E; [|discriminate].
    destruct (m_stmts_head _ _ _ _ _ Hm ltac:(assumption)) as (t' & l' & -> & Hhd).
    pose proof (m_stmt_start _ _ _ _ _ E ltac:(assumption)) as Hst. apply stmt_start_neq in Hst.
    destruct Hst as (S1 & S2 & _).
    destruct n; [discriminate|]. cbn [block_loop] in HL. rewrite !cur_is_St in HL.
    apply Z.eqb_neq in S1, S2. rewrite S1, S2 in HL. cbn [negb andb] in HL.
    dparse HL.
    assert (Hfol : t_type t' <> T_MINUS_ASSIGN /\ t_type t' <> T_ELSE).
    { destruct Hhd as [-> | Hhd].
      - cbn [m_stmtsM] in Hm. injection Hm as Hm1 Hm2. subst.
        destruct Ht as [Ht|Ht]; rewrite Ht; split; discriminate.
      - apply stmt_start_neq in Hhd. tauto. }
    eapply (HP s (or_introl eq_refl)) in Ea; [|eassumption|assumption|tauto|tauto|assumption|el].
    destruct Ea as (c2 & Ea). inversion Ea; subst.
    rewrite (m_stmt_not_nil _ _ _ _ E), next_St in HL.
    eapply IH in HL; [|intros; apply HP; right; assumption|assumption|eassumption|assumption|assumption|el].
    rewrite <- app_assoc in HL. exact HL.
Qed.

Lemma St_eof x e : ps_eof x = eof_again e -> St x e [] = St x e [eof_again e].
Proof. intro H. unfold St. cbn [hd tl]. rewrite H. reflexivity. Qed.

Lemma block_stmt_inv f lb ss rb next x c l rest r :
  (forall s, In s ss -> Ps s) -> wf_stmt (SBlock lb ss rb) = true ->
  mS (SBlock lb ss rb) next (c :: l) = Some rest ->
  ps_eof x = EOFT -> elast (c :: l) = EOFT ->
  parse_block_statement cfg (SF f) f (St x c l) = Some r ->
  r = (SBlock lb ss rb, St x rb rest).
Proof.
  intros HP Hw Hm HxE HlE HL. mS_in Hm. cbn [wf_stmt] in *.
  destruct (negb (t_type lb =? T_LBRACE)) eqn:Elb; [discriminate|].
  unfold parse_block_statement in HL. cbv zeta in HL. rewrite push_St, cur_St in HL.
  destruct (t_type rb =? T_RBRACE) eqn:Erb.
  - minv Hm. tinv.
    match goal with H : m_stmtsM _ _ _ ?l1 = Some _ |- _ =>
      destruct (m_stmts_head _ _ _ _ _ H Hw) as (t' & l' & -> & _) end.
    rewrite next_St in HL. dparse HL.
    eapply block_inv in Ea; [|eassumption|assumption|eassumption|left; assumption|assumption|el].
    inversion Ea; subst. rewrite cur_is_St in HL. rwt_in HL. ev_in HL. cbn [negb andb app] in HL.
    rewrite cur_St, pop_push_St in HL. congruence.
  - destruct (tolerant && (t_type rb =? T_EOF)) eqn:Etol; [|discriminate].
    apply andb_true_iff in Etol as [Etol Eeof].
    destruct (eat_tok lb (c :: l)) as [r1|] eqn:E1; [|discriminate].
    destruct (mSs ss rb r1) as [[|e [|? ?]]|] eqn:E2; try discriminate.
    destruct (tok_eqb e rb) eqn:E3; [|discriminate].
    tinv.
    match goal with H : m_stmtsM _ _ _ ?l1 = Some _ |- _ =>
      destruct (m_stmts_head _ _ _ _ _ H Hw) as (t' & l' & -> & _) end.
    rewrite next_St in HL. dparse HL.
    eapply block_inv in Ea; [|eassumption|assumption|eassumption|right; assumption|assumption|el].
    inversion Ea; subst. rewrite cur_is_St, Erb in HL. cbn [c_tolerant] in HL. rewrite Etol in HL.
    cbn [negb andb app] in HL.
    rewrite cur_St, pop_push_St in HL.
    rewrite St_eof in HL; [congruence|].
    rewrite HxE. symmetry. change (eof_again rb) with (elast [rb]). el.
Qed.

Lemma block_first lb ss rb next c l r : mS (SBlock lb ss rb) next (c :: l) = Some r -> t_type c = T_LBRACE.
Proof. intro H. mS_in H. minv H; tinv; assumption. Qed.

Ltac nn_stmt :=
  repeat match goal with
  | H : mS _ _ ?l = Some _ |- _ =>
      is_var l; destruct l as [|? ?]; [rewrite m_stmt_nil in H; discriminate H|]
  end.

Lemma asi_return_cases3 u : asi_after_returnM u = true -> t_type u = T_EOF \/ t_type u = T_RBRACE \/ t_nl u = true.
Proof. unfold asi_after_returnM. intro H. osplit; tinv; auto. Qed.

Lemma Pe_func t name params lb ss rb :
  (forall s, In s ss -> Ps s) -> Pe (EFunc t name params (SBlock lb ss rb)).
Proof.
  intros Hss c l0 t1 rest Hm Hw x prec f res HxE HlE Hn Hf HE.
  mE_in Hm. cbn [wf_expr need follow] in *.
  destruct name as [nm|].
  - minv Hm. tinv. nn_stmt.
    open_prefix HE. unfold parse_function_expression in HE.
    rewrite peek_is_St, cur_St in HE. rwt_in HE. ev_in HE. cbv beta iota zeta in HE.
    rewrite next_St, cur_St in HE. rewrite expect_St in HE by assumption. cbn [negb] in HE.
    dparse HE. eapply params_inv in Ea; [|eassumption|assumption]. inversion Ea; subst.
    match goal with H : mS (SBlock _ _ _) _ _ = Some _ |- _ => pose proof (block_first _ _ _ _ _ _ _ H) as Hlb end.
    rewrite expect_St in HE by assumption. cbn [negb] in HE. rewrite push_St in HE.
    dparse HE. eapply block_stmt_inv in Ea0; [|eassumption|assumption|eassumption|assumption|el].
    inversion Ea0; subst. rewrite pop_push_St in HE.
    match goal with H : mk_ident _ = _ |- _ => rewrite H in HE end. eauto.
  - minv Hm. tinv. nn_stmt.
    open_prefix HE. unfold parse_function_expression in HE.
    rewrite peek_is_St, cur_St in HE. rwt_in HE. ev_in HE. cbv beta iota zeta in HE.
    rewrite expect_St in HE by assumption. cbn [negb] in HE.
    dparse HE. eapply params_inv in Ea; [|eassumption|assumption]. inversion Ea; subst.
    match goal with H : mS (SBlock _ _ _) _ _ = Some _ |- _ => pose proof (block_first _ _ _ _ _ _ _ H) as Hlb end.
    rewrite expect_St in HE by assumption. cbn [negb] in HE. rewrite push_St in HE.
    dparse HE. eapply block_stmt_inv in Ea0; [|eassumption|assumption|eassumption|assumption|el].
    inversion Ea0; subst. rewrite pop_push_St in HE. eauto.
Qed.

(* ---------- statement cases ---------- *)




Ltac open_SF HS :=
  match type of HS with
  | stmt_fn cfg ?f _ = Some _ =>
      destruct f as [|f]; [discriminate HS|]; rewrite SF_S in HS;
      unfold base_parse_statement in HS; cbv zeta in HS; rewrite cur_St in HS; rwt_in HS; ev_in HS
  end.

Ltac dparse1 HR :=
  match type of HR with
  | (match ?E with _ => _ end) = Some _ =>
      let a := fresh "a" in let s := fresh "s" in let Ea := fresh "Ea" in
      destruct E as [[a s]|] eqn:Ea; [|discriminate HR]; cbv beta iota in HR
  end.

Ltac use_asi HS Hend :=
  let t' := fresh "t'" in let r' := fresh "r'" in let Hk := fresh "Hk" in let Hx := fresh "Hx" in
  let c2 := fresh "c" in
  destruct Hend as (t' & r' & -> & Hk & Hx).

Lemma Ps_let t name v : Pe v -> Ps (SLet t name v).
Proof.
  intros Hv next c l t1 rest Hm Hw Hma Hel x f r HxE HlE HS.
  mS_in Hm. cbn [wf_stmt] in *. minv Hm. tinv. rewrite enil_match in Hm. rewrite enil_match in Hw.
  destruct (is_enil v) eqn:Ev.
  - apply is_enil_true in Ev. subst v.
    apply m_end_inv in Hm; [|assumption|apply asi_let_cases].
    destruct Hm as (t' & r' & -> & Hk & Hx).
    open_SF HS. unfold parse_let_statement in HS. cbv zeta in HS. rewrite cur_St in HS.
    rewrite expect_St in HS by assumption. cbn [negb] in HS. rewrite cur_St, peek_is_St in HS.
    rewrite (asi_let_not_assign _ Hk) in HS.
    destruct (Hx x (id_tok name)) as (c'' & Hasi). rewrite Hasi in HS. cbn [negb] in HS.
    match goal with H : mk_ident _ = _ |- _ => rewrite H in HS end.
    injection HS as HS. subst r. eauto.
  - minv Hm. tinv. nn.
    apply m_end_inv in Hm; [|assumption|apply asi_expr_cases].
    destruct Hm as (t' & r' & -> & Hk & Hx).
    open_SF HS. unfold parse_let_statement, parse_expression in HS. cbv zeta in HS. rewrite cur_St in HS.
    rewrite expect_St in HS by assumption. cbn [negb] in HS. rewrite cur_St, peek_is_St in HS.
    rwt_in HS. ev_in HS. rewrite !next_St in HS.
    dparse1 HS. eapply (Pe_lowest v Hv) in Ea; [|eassumption|assumption|assumption|el|].
    2:{ destruct Hk as [Hk|Hk]; [apply semi_stops|apply asi_expr_stops]; assumption. }
    destruct Ea as (c2 & Ea). inversion Ea; subst.
    destruct (Hx x c2) as (c'' & Hasi). rewrite Hasi in HS. cbn [negb] in HS.
    match goal with H : mk_ident _ = _ |- _ => rewrite H in HS end.
    injection HS as HS. subst r. eauto.
Qed.

Lemma Ps_return t v : Pe v -> Ps (SReturn t v).
Proof.
  intros Hv next c l t1 rest Hm Hw Hma Hel x f r HxE HlE HS.
  mS_in Hm. cbn [wf_stmt] in *. minv Hm. tinv. rewrite enil_match in Hm. rewrite enil_match in Hw.
  destruct (is_enil v) eqn:Ev.
  - apply is_enil_true in Ev. subst v.
    apply m_end_inv in Hm; [|assumption|apply asi_return_cases].
    destruct Hm as (t' & r' & -> & Hk & Hx).
    open_SF HS. unfold parse_return_statement in HS. cbv zeta in HS. rewrite cur_St in HS.
    rewrite !peek_is_St, peek_St in HS.
    replace (negb (t_type t' =? T_SEMICOLON) && negb (t_type t' =? T_EOF) &&
             negb (t_type t' =? T_RBRACE) && negb (t_nl t')) with false in HS.
    2:{ destruct Hk as [Hk|Hk]; [rewrite Hk; reflexivity|].
        apply asi_return_cases3 in Hk. destruct Hk as [Hk|[Hk|Hk]]; rewrite Hk; ev_goal;
          cbn [negb andb]; rewrite ?andb_false_r; reflexivity. }
    destruct (Hx x t) as (c'' & Hasi). rewrite Hasi in HS. cbn [negb] in HS.
    injection HS as HS. subst r. eauto.
  - match type of Hm with match ?l0 with [] => _ | _ :: _ => _ end = _ =>
      destruct l0 as [|f0 l0]; [discriminate Hm|] end.
    minv Hm.
    apply m_end_inv in Hm; [|assumption|apply asi_expr_cases].
    destruct Hm as (t' & r' & -> & Hk & Hx).
    match goal with Hv' : mE v (?c2 :: _) = Some _ |- _ =>
      pose proof (m_expr_start _ _ _ _ Hv' Hw) as Hst; apply expr_start_neq in Hst end.
    open_SF HS. unfold parse_return_statement, parse_expression in HS. cbv zeta in HS. rewrite cur_St in HS.
    rewrite !peek_is_St, peek_St in HS.
    match goal with Hnl : t_nl _ = false |- _ => rewrite Hnl in HS end.
    repeat match type of HS with context [t_type ?c2 =? ?K] =>
      replace (t_type c2 =? K) with false in HS by (symmetry; apply Z.eqb_neq; tauto) end.
    cbn [negb andb] in HS. rewrite next_St in HS.
    dparse1 HS. eapply (Pe_lowest v Hv) in Ea; [|eassumption|assumption|assumption|el|].
    2:{ destruct Hk as [Hk|Hk]; [apply semi_stops|apply asi_expr_stops]; assumption. }
    destruct Ea as (c2 & Ea). inversion Ea; subst.
    destruct (Hx x c2) as (c'' & Hasi). rewrite Hasi in HS. cbn [negb] in HS.
    injection HS as HS. subst r. eauto.
Qed.

Lemma Ps_expr e : Pe e -> Ps (SExpr e).
Proof.
  intros He next c l t1 rest Hm Hw Hma Hel x f r HxE HlE HS.
  mS_in Hm. cbn [wf_stmt] in *.
  destruct (statement_keyword (t_type c)) eqn:Ek; [discriminate|]. minv Hm.
  apply m_end_inv in Hm; [|assumption|apply asi_expr_cases].
  destruct Hm as (t' & r' & -> & Hk & Hx).
  unfold statement_keyword in Ek. repeat (apply orb_false_iff in Ek; destruct Ek as [Ek ?]).
  destruct f as [|f]; [discriminate HS|]. rewrite SF_S in HS.
  unfold base_parse_statement in HS. cbv zeta in HS. rewrite cur_St in HS.
  repeat match goal with H : (_ =? _) = false |- _ => rewrite H in HS; clear H end.
  unfold parse_expression_statement, parse_expression in HS.
  dparse1 HS. eapply (Pe_lowest e He) in Ea; [|eassumption|assumption|assumption|el|].
  2:{ destruct Hk as [Hk|Hk]; [apply semi_stops|apply asi_expr_stops]; assumption. }
  destruct Ea as (c2 & Ea). inversion Ea; subst.
  destruct (Hx x c2) as (c'' & Hasi). rewrite Hasi in HS. cbn [negb] in HS.
  injection HS as HS. subst r. eauto.
Qed.

Lemma Ps_block lb ss rb : (forall s, In s ss -> Ps s) -> Ps (SBlock lb ss rb).
Proof.
  intros Hss next c l t1 rest Hm Hw Hma Hel x f r HxE HlE HS.
  pose proof (block_first _ _ _ _ _ _ _ Hm) as Hlb.
  open_SF HS. eapply block_stmt_inv in HS; [|eassumption|assumption|eassumption|assumption|el].
  subst r. eauto.
Qed.

Lemma Ps_func t name params lb ss rb :
  (forall s, In s ss -> Ps s) -> Ps (SFunc t name params (SBlock lb ss rb)).
Proof.
  intros Hss next c l t1 rest Hm Hw Hma Hel x f r HxE HlE HS.
  mS_in Hm. cbn [wf_stmt] in Hw. minv Hm. tinv. nn_stmt.
  open_SF HS. unfold parse_function_statement in HS. cbv zeta in HS. rewrite cur_St in HS.
  rewrite expect_St in HS by assumption. cbn [negb] in HS. rewrite cur_St in HS.
  rewrite expect_St in HS by assumption. cbn [negb] in HS.
  dparse1 HS. eapply params_inv in Ea; [|eassumption|assumption]. inversion Ea; subst.
  match goal with H : mS (SBlock _ _ _) _ _ = Some _ |- _ => pose proof (block_first _ _ _ _ _ _ _ H) as Hlb end.
  rewrite expect_St in HS by assumption. cbn [negb] in HS. rewrite push_St in HS.
  dparse1 HS. eapply block_stmt_inv in Ea0; [|eassumption|assumption|eassumption|assumption|el].
  inversion Ea0; subst. rewrite pop_push_St in HS.
  match goal with H : mk_ident _ = _ |- _ => rewrite H in HS end.
  injection HS as HS. subst r. eauto.
Qed.



Lemma Ps_while t c body : Pe c -> Ps body -> Ps (SWhile t c body).
Proof.
  intros Hc Hb next c0 l t1 rest Hm Hw Hma Hel x f r HxE HlE HS.
  mS_in Hm. cbn [wf_stmt ends_in_open_if] in *. minv Hm. tinv. nn. nn_stmt.
  open_SF HS. unfold parse_while_statement, parse_expression in HS. cbv zeta in HS. rewrite cur_St in HS.
  rewrite expect_St in HS by assumption. cbn [negb] in HS. rewrite next_St in HS.
  dparse1 HS. eapply (Pe_lowest c Hc) in Ea; [|eassumption|assumption|assumption|el|stops_tac].
  destruct Ea as (c2 & Ea). inversion Ea; subst.
  rewrite expect_St in HS by assumption. cbn [negb] in HS. rewrite next_St in HS.
  dparse1 HS. eapply Hb in Ea0; [|eassumption|assumption|assumption|assumption|assumption|el].
  destruct Ea0 as (c3 & Ea0). inversion Ea0; subst.
  injection HS as HS. subst r. eauto.
Qed.

Lemma Ps_if t c thn els : Pe c -> Ps thn -> Ps els -> Ps (SIf t c thn els).
Proof.
  intros Hc Hthn Hels next c0 l t1 rest Hm Hw Hma Hel x f r HxE HlE HS.
  mS_in Hm. cbn [wf_stmt] in Hw. minv Hm. tinv. nn. nn_stmt.
  rewrite snil_match in Hm. rewrite snil_match in H0.
  open_SF HS. unfold parse_if_statement, parse_expression in HS. cbv zeta in HS. rewrite cur_St in HS.
  rewrite expect_St in HS by assumption. cbn [negb] in HS. rewrite next_St in HS.
  dparse1 HS. eapply (Pe_lowest c Hc) in Ea; [|eassumption|assumption|assumption|el|stops_tac].
  destruct Ea as (c2 & Ea). inversion Ea; subst.
  rewrite expect_St in HS by assumption. cbn [negb] in HS. rewrite next_St in HS.
  dparse1 HS.
  destruct (is_snil els) eqn:Es.
  - apply is_snil_true in Es. subst els. injection Hm as Hm. subst.
    eapply Hthn in Ea0; [|eassumption|assumption|assumption| |assumption|el].
    2:{ intros _. apply Hel. reflexivity. }
    destruct Ea0 as (c3 & Ea0). inversion Ea0; subst.
    rewrite peek_is_St in HS.
    replace (t_type t1 =? T_ELSE) with false in HS
      by (symmetry; apply Z.eqb_neq; apply Hel; reflexivity).
    injection HS as HS. subst r. eauto.
  - minv Hm. tinv. nn_stmt.
    eapply Hthn in Ea0; [|eassumption|assumption| | |assumption|el].
    2:{ match goal with H : t_type _ = T_ELSE |- _ => rewrite H end. discriminate. }
    2:{ intro Ho. rewrite Ho in *. discriminate. }
    destruct Ea0 as (c3 & Ea0). inversion Ea0; subst.
    rewrite peek_is_St in HS. rwt_in HS. ev_in HS. rewrite !next_St in HS.
    dparse1 HS. rewrite open_if_else in Hel by assumption.
    eapply Hels in Ea1; [|eassumption|assumption|assumption|assumption|assumption|el].
    destruct Ea1 as (c4 & Ea1). inversion Ea1; subst.
    injection HS as HS. subst r. eauto.
Qed.

(* an optional expression of the for header, closed by a token of type [ety] *)
Lemma opt_parse f e x c0 l t' r' ety r :
  (is_enil e = false -> Pe e) ->
  (if is_enil e then Some l else mE e l) = Some (t' :: r') ->
  (if is_enil e then true else wf_expr e) = true ->
  t_type t' = ety -> ety = T_SEMICOLON \/ ety = T_RPAREN ->
  ps_eof x = EOFT -> elast l = EOFT ->
  (if negb (peek_is (St x c0 l) ety) then parse_expression (EF f) (ps_next (St x c0 l))
   else Some (ENil, St x c0 l)) = Some r ->
  exists c', r = (e, St x c' (t' :: r')).
Proof.
  intros HP Hm Hw Ht Hety HxE HlE HS. destruct (is_enil e) eqn:Ee.
  - apply is_enil_true in Ee. subst e. injection Hm as Hm. subst l.
    rewrite peek_is_St, Ht, Z.eqb_refl in HS. cbn [negb] in HS. injection HS as HS. subst r. eauto.
  - nn. pose proof (m_expr_start _ _ _ _ Hm Hw) as Hst. apply expr_start_neq in Hst.
    rewrite peek_is_St in HS.
    replace (t_type t =? ety) with false in HS
      by (symmetry; apply Z.eqb_neq; destruct Hety as [-> | ->]; tauto).
    cbn [negb] in HS. rewrite next_St in HS. unfold parse_expression in HS.
    eapply (Pe_lowest e (HP eq_refl)) in HS; [|eassumption|assumption|assumption|el|].
    + exact HS.
    + unfold stops. rewrite Ht. destruct Hety as [-> | ->]; reflexivity.
Qed.

Definition init_Pe (i : expr) : Prop :=
  match i with ELet _ _ v => is_enil v = false -> Pe v | ENil => True | _ => Pe i end.

Lemma init_parse f e x c0 l t' r' r :
  init_Pe e ->
  (if is_enil e then Some l else mE e l) = Some (t' :: r') ->
  init_wf e = true -> t_type t' = T_SEMICOLON ->
  ps_eof x = EOFT -> elast l = EOFT ->
  (if negb (peek_is (St x c0 l) T_SEMICOLON)
   then let sn := ps_next (St x c0 l) in
        if cur_is sn T_LET then parse_let_expression (EF f) sn else parse_expression (EF f) sn
   else Some (ENil, St x c0 l)) = Some r ->
  exists c', r = (e, St x c' (t' :: r')).
Proof.
  intros HP Hm Hw Ht HxE HlE HS.
  assert (Hsemi : stops 1 t' = true) by (apply semi_stops; assumption).
  destruct e; cbn [is_enil init_Pe init_wf] in *.
  1:{ injection Hm as Hm. subst l.
      rewrite peek_is_St, Ht, Z.eqb_refl in HS. cbn [negb] in HS. injection HS as HS. subst r. eauto. }
  8:{ (* let *)
      mE_in Hm. minv Hm. tinv. rewrite enil_match in Hm. rewrite enil_match in Hw.
      rewrite peek_is_St in HS. rwt_in HS. ev_in HS. cbn [negb] in HS. cbv zeta in HS.
      rewrite next_St, cur_is_St in HS. rwt_in HS. ev_in HS.
      unfold parse_let_expression, parse_expression in HS. rewrite cur_St in HS.
      rewrite expect_St in HS by assumption. cbn [negb] in HS. rewrite cur_St in HS.
      match goal with H : mk_ident _ = _ |- _ => rewrite H in HS end.
      destruct (is_enil e) eqn:Ee.
      - apply is_enil_true in Ee. subst e. injection Hm as Hm. subst.
        rewrite peek_is_St, Ht in HS. ev_in HS. injection HS as HS. subst r. eauto.
      - minv Hm. tinv. nn. rewrite peek_is_St in HS. rwt_in HS. ev_in HS. rewrite !next_St in HS.
        dparse1 HS. eapply (Pe_lowest e (HP eq_refl)) in Ea; [|eassumption|assumption|assumption|el|assumption].
        destruct Ea as (c2 & Ea). inversion Ea; subst. injection HS as HS. subst r. eauto. }
  all: match type of Hm with mE ?e ?l = Some _ =>
         destruct l as [|c1 l1]; [rewrite m_expr_nil in Hm; discriminate|];
         pose proof (m_expr_start _ _ _ _ Hm Hw) as Hst; apply expr_start_neq in Hst;
         rewrite peek_is_St in HS;
         replace (t_type c1 =? T_SEMICOLON) with false in HS by (symmetry; apply Z.eqb_neq; tauto);
         cbn [negb] in HS; cbv zeta in HS; rewrite next_St, cur_is_St in HS;
         replace (t_type c1 =? T_LET) with false in HS by (symmetry; apply Z.eqb_neq; tauto);
         unfold parse_expression in HS;
         eapply (Pe_lowest e HP) in HS; [exact HS|eassumption|assumption|assumption|el|assumption]
       end.
Qed.



Lemma Ps_for t init cond upd body :
  init_Pe init -> (is_enil cond = false -> Pe cond) -> (is_enil upd = false -> Pe upd) -> Ps body ->
  Ps (SFor t init cond upd body).
Proof.
  intros Hi Hc Hu Hb next c0 l t1 rest Hm Hw Hma Hel x f r HxE HlE HS.
  mS_in Hm. cbn [wf_stmt ends_in_open_if] in Hw, Hel. rewrite init_wf_eq in Hw.
  rewrite !enil_match in Hw. tinv.
  minv Hm. tinv.
  repeat match goal with H : context [match _ with ENil => _ | _ => _ end] |- _ => rewrite enil_match in H end.
  nn_stmt.
  open_SF HS. unfold parse_for_statement in HS. rewrite cur_St in HS.
  rewrite expect_St in HS by assumption. cbn [negb] in HS.
  dparse1 HS. eapply (init_parse f init) in Ea; [|eassumption|eassumption|assumption|assumption|assumption|el].
  destruct Ea as (c2 & Ea). inversion Ea; subst.
  rewrite expect_St in HS by assumption. cbn [negb] in HS.
  dparse1 HS. eapply (opt_parse f cond) in Ea0; [|eassumption|eassumption|assumption|eassumption|left; reflexivity|assumption|el].
  destruct Ea0 as (c3 & Ea0). inversion Ea0; subst.
  rewrite expect_St in HS by assumption. cbn [negb] in HS.
  dparse1 HS. eapply (opt_parse f upd) in Ea1; [|eassumption|eassumption|assumption|eassumption|right; reflexivity|assumption|el].
  destruct Ea1 as (c4 & Ea1). inversion Ea1; subst.
  rewrite expect_St in HS by assumption. cbn [negb] in HS. rewrite next_St in HS.
  dparse1 HS. eapply Hb in Ea2; [|eassumption|assumption|assumption|assumption|assumption|el].
  destruct Ea2 as (c5 & Ea2). inversion Ea2; subst.
  injection HS as HS. subst r. eauto.
Qed.
(* ---------- the induction on size ---------- *)

Lemma Pe_trivial e : (forall ts, mE e ts = None) \/ wf_expr e = false -> Pe e.
Proof.
  intros [H|H] c l t rest Hm Hw; [rewrite H in Hm; discriminate|rewrite H in Hw; discriminate].
Qed.

Lemma Ps_trivial s : (forall next ts, mS s next ts = None) -> Ps s.
Proof. intros H next c l t rest Hm. rewrite H in Hm. discriminate. Qed.

Lemma all_P : forall n, (forall e, (esize e <= n)%nat -> Pe e) /\ (forall s, (ssize s <= n)%nat -> Ps s).
Proof.
  induction n as [|n [IHe IHs]].
  - split; [intros e H; destruct e; cbn [esize] in H; lia | intros s H; destruct s; cbn [ssize] in H; lia].
  - split.
    + intros e0 H. destruct e0; cbn [esize] in H.
      * apply Pe_trivial. left. reflexivity.
      * apply Pe_atoms. exact I.
      * apply Pe_atoms. exact I.
      * apply Pe_atoms. exact I.
      * apply Pe_atoms. exact I.
      * apply Pe_atoms. exact I.
      * apply Pe_atoms. exact I.
      * apply Pe_atoms. exact I.
      * apply Pe_trivial. right. reflexivity.
      * apply Pe_binary; apply IHe; lia.
      * apply Pe_unary; apply IHe; lia.
      * apply Pe_postfix; apply IHe; lia.
      * apply Pe_group; apply IHe; lia.
      * apply Pe_call; [apply IHe; lia|]. intros a Ha. apply IHe. apply esize_in in Ha. lia.
      * apply Pe_member; apply IHe; lia.
      * apply Pe_assign; apply IHe; lia.
      * apply Pe_compound; apply IHe; lia.
      * destruct body; try (apply Pe_trivial; left; intro ts; rewrite mE_EFunc;
          repeat match goal with |- context [match ?x with _ => _ end] => destruct x end; reflexivity).
        apply Pe_func. intros s Hs. apply IHs. apply ssize_in in Hs. cbn [ssize] in H. lia.
      * apply Pe_array. intros a Ha. apply IHe. apply esize_in in Ha. lia.
      * apply Pe_object. intros k v Hkv. apply psize_in in Hkv. split; apply IHe; lia.
    + intros s0 H. destruct s0; cbn [ssize] in H.
      * apply Ps_trivial. reflexivity.
      * apply Ps_let. apply IHe. lia.
      * apply Ps_return. apply IHe. lia.
      * apply Ps_expr. apply IHe. lia.
      * match goal with |- Ps (SFunc _ _ _ ?b) => destruct b end;
          try (apply Ps_trivial; intros next ts; rewrite mS_SFunc;
          repeat match goal with |- context [match ?x with _ => _ end] => destruct x end; reflexivity).
        apply Ps_func. intros s Hs. apply IHs. apply ssize_in in Hs. cbn [ssize] in H. lia.
      * apply Ps_block. intros s Hs. apply IHs. apply ssize_in in Hs. lia.
      * apply Ps_if; [apply IHe|apply IHs|apply IHs]; lia.
      * apply Ps_while; [apply IHe|apply IHs]; lia.
      * apply Ps_for; [| intros _; apply IHe; lia | intros _; apply IHe; lia | apply IHs; lia].
        destruct init; cbn [init_Pe]; try exact I; try (apply IHe; cbn [esize] in *; lia).
        intros _. apply IHe. cbn [esize] in *. lia.
Qed.

Lemma Pe_all e : Pe e. Proof. apply (proj1 (all_P (esize e))). lia. Qed.
Lemma Ps_all s : Ps s. Proof. apply (proj2 (all_P (ssize s))). lia. Qed.

(* ---------- the program loop ---------- *)

Lemma program_inv fuel : forall ss n acc x c l next t rest r,
  wf_stmts wf_stmt ss = true ->
  mSs ss next (c :: l) = Some (t :: rest) -> t_type t = T_EOF ->
  ps_eof x = EOFT -> elast (c :: l) = EOFT ->
  program_loop cfg fuel n acc (St x c l) = Some r -> r = (acc ++ ss, St x t rest).
Proof.
  pose proof Ps_all as HPs.   (* a hypothesis about EOFT: [subst] then keeps the section variable *)
  induction ss as [|s ss IH]; intros n acc x c l next t rest r Hw Hm Ht HxE HlE HL.
  - cbn [m_stmtsM] in Hm. injection Hm as Hm1 Hm2. subst.
    destruct n; [discriminate|]. cbn [program_loop] in HL. rewrite cur_is_St, Ht in HL. ev_in HL.
    cbn [negb] in HL. rewrite app_nil_r. congruence.
  - cbn [m_stmtsM] in Hm. cbn [wf_stmts] in Hw. tinv.
    destruct (mS s next (c :: l)) as [r1|] eqn:E; [|discriminate].
    destruct (m_stmts_head _ _ _ _ _ Hm ltac:(assumption)) as (t' & l' & -> & Hhd).
    pose proof (m_stmt_start _ _ _ _ _ E ltac:(assumption)) as Hst. apply stmt_start_neq in Hst.
    destruct Hst as (_ & S2 & _).
    destruct n; [discriminate|]. cbn [program_loop] in HL. rewrite cur_is_St in HL.
    apply Z.eqb_neq in S2. rewrite S2 in HL. cbn [negb] in HL.
    dparse1 HL.
    assert (Hfol : t_type t' <> T_MINUS_ASSIGN /\ t_type t' <> T_ELSE).
    { destruct Hhd as [-> | Hhd].
      - cbn [m_stmtsM] in Hm. injection Hm as Hm1 Hm2. subst. rewrite Ht. split; discriminate.
      - apply stmt_start_neq in Hhd. tauto. }
    eapply (HPs s) in Ea; [|eassumption|assumption|tauto|tauto|assumption|el].
    destruct Ea as (c2 & Ea). inversion Ea; subst.
    rewrite (m_stmt_not_nil _ _ _ _ E), next_St in HL.
    eapply IH in HL; [|assumption|eassumption|assumption|assumption|el].
    rewrite <- app_assoc in HL. exact HL.
Qed.

End Modes.

(* ---------- the top level ---------- *)

Lemma ops_sane_modes smart tolerant : ops_sane (mkpcfg tolerant smart [] [] [] [] []).
Proof. repeat split. Qed.

Theorem modes_complete : forall smart tolerant p toks,
  m_programM smart tolerant p toks = true -> wf_program p = true ->
  exists r, parse_tokens (mkpcfg tolerant smart [] [] [] [] []) toks = Some r /\
            pr_program r = p /\ pr_errors r = [] /\ pr_err_returned r = false.
Proof.
  intros smart tolerant [ss eof] toks Hm Hw. unfold m_programM, wf_program in *. cbn [p_stmts p_eof] in *.
  apply andb_true_iff in Hm as [Heof Hm]. apply Z.eqb_eq in Heof.
  destruct (m_stmtsM (m_stmtM smart tolerant) ss eof toks) as [[|e [|? ?]]|] eqn:Em; try discriminate.
  apply tok_eqb_eq in Hm. subst e.
  pose proof (mSs_lk _ _ _ _ _ _ Em) as Hlk.
  assert (Hne : toks <> []) by (intro Hn; exact (lk_nonnil _ _ _ Hlk Hn)).
  apply lk_eq in Hlk.
  assert (Hlast : t_type (last toks zero_token) = T_EOF).
  { change (t_type (elast toks) = T_EOF). rewrite <- Hlk. exact Heof. }
  destruct (parse_total _ toks (ops_sane_modes smart tolerant) Hlast) as [r Hr].
  exists r. split; [exact Hr|].
  change (parse_program_from (mkpcfg tolerant smart [] [] [] [] []) (parse_fuel toks)
            (ps_init toks (elast toks)) = Some r) in Hr.
  generalize dependent (parse_fuel toks). intros fu Hr.
  destruct toks as [|c l]; [congruence|].
  rewrite ps_init_St in Hr. unfold parse_program_from in Hr.
  destruct (program_loop _ fu fu [] (St (x_init (elast (c :: l))) c l)) as [[stmts s1]|] eqn:EL; [|discriminate].
  eapply (program_inv smart tolerant (elast (c :: l))) in EL; [|eassumption|eassumption|assumption|reflexivity|reflexivity].
  injection EL as EL1 EL2. subst stmts s1. injection Hr as Hr. subst r.
  cbn [pr_program pr_errors pr_err_returned app]. repeat split; reflexivity.
Qed.

Print Assumptions modes_complete.

(* ====================================================================================== *)
(* ---------- with both modes off the mode grammar is the grammar of Grammar.v ---------- *)

Ltac mE_in' H := first [rewrite mE_ENil in H | rewrite mE_EIdent in H | rewrite mE_EInt in H | rewrite mE_EFloat in H | rewrite mE_EString in H | rewrite mE_ERaw in H | rewrite mE_EBool in H | rewrite mE_ENull in H | rewrite mE_ELet in H | rewrite mE_EBinary in H | rewrite mE_EUnary in H | rewrite mE_EPostfix in H | rewrite mE_EGroup in H | rewrite mE_ECall in H | rewrite mE_EMember in H | rewrite mE_EAssign in H | rewrite mE_ECompound in H | rewrite mE_EFunc in H | rewrite mE_EArray in H | rewrite mE_EObject in H]; cbv beta iota zeta in H.
Ltac mS_in' H := first [rewrite mS_SNil in H | rewrite mS_SLet in H | rewrite mS_SReturn in H | rewrite mS_SExpr in H | rewrite mS_SFunc in H | rewrite mS_SBlock in H | rewrite mS_SIf in H | rewrite mS_SWhile in H | rewrite mS_SFor in H]; cbv beta iota zeta in H.
Ltac mE_goal' := first [rewrite mE_ENil | rewrite mE_EIdent | rewrite mE_EInt | rewrite mE_EFloat | rewrite mE_EString | rewrite mE_ERaw | rewrite mE_EBool | rewrite mE_ENull | rewrite mE_ELet | rewrite mE_EBinary | rewrite mE_EUnary | rewrite mE_EPostfix | rewrite mE_EGroup | rewrite mE_ECall | rewrite mE_EMember | rewrite mE_EAssign | rewrite mE_ECompound | rewrite mE_EFunc | rewrite mE_EArray | rewrite mE_EObject]; cbv beta iota zeta.
Ltac mS_goal' := first [rewrite mS_SNil | rewrite mS_SLet | rewrite mS_SReturn | rewrite mS_SExpr | rewrite mS_SFunc | rewrite mS_SBlock | rewrite mS_SIf | rewrite mS_SWhile | rewrite mS_SFor]; cbv beta iota zeta.


Lemma continues_off t : continues_expressionM false t = continues_expression t.
Proof.
  unfold continues_expressionM, continues_expression. destruct (binop_level (t_type t)); [reflexivity|].
  cbn [andb negb]. rewrite andb_true_r, !orb_assoc. reflexivity.
Qed.

Lemma asi_expr_off t : asi_after_expressionM false false t = asi_after_expression t.
Proof.
  unfold asi_after_expressionM, asi_after_expression. rewrite continues_off. cbn [andb].
  rewrite orb_false_r. reflexivity.
Qed.

Lemma asi_let_off t : asi_after_let_nameM false t = asi_after_let_name t.
Proof. unfold asi_after_let_nameM, asi_after_let_name. cbn [andb]. rewrite orb_false_r. reflexivity. Qed.

Lemma asi_return_off t : asi_after_returnM t = asi_after_return t.
Proof. reflexivity. Qed.

Lemma m_end_off asi asi' next ts : (forall t, asi t = asi' t) -> m_endM asi next ts = m_end asi' next ts.
Proof. intro H. destruct ts as [|t r]; cbn [m_endM m_end]; rewrite H; reflexivity. Qed.

Lemma m_exprs_off f g es : (forall e, In e es -> forall ts, f e ts = g e ts) ->
  forall ts, m_exprsM f es ts = m_exprs g es ts.
Proof.
  induction es as [|e es IH]; intros H ts; [reflexivity|].
  cbn [m_exprsM m_exprs]. rewrite (H e (or_introl eq_refl)).
  destruct es as [|e' es]; [reflexivity|].
  destruct (g e ts) as [r|]; [|reflexivity]. destruct (eat T_COMMA r) as [[? r']|]; [|reflexivity].
  apply IH. intros e0 H0. apply H. right. exact H0.
Qed.

Lemma m_props_off f g ps : (forall k v, In (k, v) ps -> forall ts, f k ts = g k ts /\ f v ts = g v ts) ->
  forall ts, m_propsM f ps ts = m_props g ps ts.
Proof.
  induction ps as [|[k v] ps IH]; intros H ts; [reflexivity|].
  cbn [m_propsM m_props]. destruct (negb (key_ok k)); [reflexivity|].
  rewrite (proj1 (H k v (or_introl eq_refl) ts)).
  destruct (g k ts) as [r1|]; [|reflexivity]. destruct (eat T_COLON r1) as [[? r2]|]; [|reflexivity].
  rewrite (proj2 (H k v (or_introl eq_refl) r2)).
  destruct (g v r2) as [r3|]; [|reflexivity].
  destruct ps as [|p ps]; [reflexivity|].
  destruct (eat T_COMMA r3) as [[? r4]|]; [|reflexivity].
  apply IH. intros k0 v0 H0. apply H. right. exact H0.
Qed.

Lemma m_stmts_off f g ss : (forall s, In s ss -> forall next ts, f s next ts = g s next ts) ->
  forall next ts, m_stmtsM f ss next ts = m_stmts g ss next ts.
Proof.
  induction ss as [|s ss IH]; intros H next ts; [reflexivity|].
  cbn [m_stmtsM m_stmts]. rewrite (H s (or_introl eq_refl)).
  destruct (g s next ts) as [r|]; [|reflexivity].
  apply IH. intros s0 H0. apply H. right. exact H0.
Qed.

(* both sides are the same chain of matches once the sub-trees are rewritten *)
Ltac off_sz := cbn [esize ssize] in *; lia.

Ltac off_chain IHe IHs :=
  repeat first
  [ reflexivity
  | rewrite IHe by off_sz
  | rewrite IHs by off_sz
  | rewrite (m_exprs_off _ m_expr) by (intros ? Ha; apply IHe; apply esize_in in Ha; off_sz)
  | rewrite (m_props_off _ m_expr) by
      (intros ? ? Hkv ?; apply psize_in in Hkv; split; apply IHe; off_sz)
  | rewrite (m_stmts_off _ m_stmt) by (intros ? Hs; apply IHs; apply ssize_in in Hs; off_sz)
  | rewrite (m_end_off _ _ _ _ asi_expr_off)
  | rewrite (m_end_off _ _ _ _ asi_let_off)
  | match goal with
    | |- (match ?x with _ => _ end) = (match ?x with _ => _ end) => destruct x
    | |- (if ?x then _ else _) = (if ?x then _ else _) => destruct x
    end ].

Lemma all_off : forall n,
  (forall e, (esize e <= n)%nat -> forall ts, m_exprM false false e ts = m_expr e ts) /\
  (forall s, (ssize s <= n)%nat -> forall next ts, m_stmtM false false s next ts = m_stmt s next ts).
Proof.
  induction n as [|n [IHe IHs]].
  - split; [intros e H; destruct e; cbn [esize] in H; lia | intros s H; destruct s; cbn [ssize] in H; lia].
  - split.
    + intros e0 Hn ts. destruct e0; mE_goal'; cbn [m_expr andb]; rewrite ?orb_false_r.
      all: off_chain IHe IHs.
    + intros s0 Hn next ts. destruct s0; mS_goal'; cbn [m_stmt andb]; rewrite ?orb_false_r.
      6:{ (* block *)
        destruct (t_type t =? T_LBRACE); cbn [negb orb]; [|reflexivity].
        destruct (t_type rb =? T_RBRACE); cbn [negb]; [|reflexivity].
        off_chain IHe IHs. }
      all: off_chain IHe IHs.
Qed.

Theorem modes_off : forall p toks, m_programM false false p toks = m_program p toks.
Proof.
  intros p toks. unfold m_programM, m_program.
  rewrite (m_stmts_off _ m_stmt); [reflexivity|].
  intros s _. apply (proj2 (all_off (ssize s))). lia.
Qed.

Print Assumptions modes_off.

(* ====================================================================================== *)
(* ---------- the tolerant grammar contains the strict one ---------- *)

Section Mono.
Variable smart : bool.

Lemma asi_expr_mono t : asi_after_expressionM smart false t = true -> asi_after_expressionM smart true t = true.
Proof.
  unfold asi_after_expressionM. cbn [andb]. rewrite orb_false_r. intro H. rewrite H. reflexivity.
Qed.

Lemma asi_let_mono t : asi_after_let_nameM false t = true -> asi_after_let_nameM true t = true.
Proof.
  unfold asi_after_let_nameM. cbn [andb]. rewrite orb_false_r. intro H. rewrite H. reflexivity.
Qed.

Lemma m_end_mono (asi asi' : token -> bool) next ts r : (forall t, asi t = true -> asi' t = true) ->
  m_endM asi next ts = Some r -> m_endM asi' next ts = Some r.
Proof.
  intros Ha H. destruct ts as [|t r0]; cbn [m_endM] in *.
  - destruct (asi next) eqn:E; [|discriminate]. rewrite (Ha _ E). exact H.
  - destruct (t_type t =? T_SEMICOLON); [exact H|].
    destruct (asi t) eqn:E; [|discriminate]. rewrite (Ha _ E). exact H.
Qed.

Section MonoLists.
  Variables f g : expr -> list token -> option (list token).
  Variables fs gs : stmt -> token -> list token -> option (list token).

  Lemma m_exprs_mono es : (forall e, In e es -> forall ts r, f e ts = Some r -> g e ts = Some r) ->
    forall ts r, m_exprsM f es ts = Some r -> m_exprsM g es ts = Some r.
  Proof.
    induction es as [|e es IH]; intros H ts r Hm; [exact Hm|].
    cbn [m_exprsM] in *. destruct es as [|e' es].
    - apply H; [left; reflexivity|exact Hm].
    - destruct (f e ts) as [r1|] eqn:E; [|discriminate]. rewrite (H e (or_introl eq_refl) _ _ E).
      destruct (eat T_COMMA r1) as [[? r']|]; [|discriminate].
      apply IH; [|exact Hm]. intros e0 H0. apply H. right. exact H0.
  Qed.

  Lemma m_props_mono ps :
    (forall k v, In (k, v) ps -> forall ts r, (f k ts = Some r -> g k ts = Some r) /\ (f v ts = Some r -> g v ts = Some r)) ->
    forall ts r, m_propsM f ps ts = Some r -> m_propsM g ps ts = Some r.
  Proof.
    induction ps as [|[k v] ps IH]; intros H ts r Hm; [exact Hm|].
    cbn [m_propsM] in *. destruct (negb (key_ok k)); [discriminate|].
    destruct (f k ts) as [r1|] eqn:E1; [|discriminate].
    rewrite (proj1 (H k v (or_introl eq_refl) _ _) E1).
    destruct (eat T_COLON r1) as [[? r2]|]; [|discriminate].
    destruct (f v r2) as [r3|] eqn:E3; [|discriminate].
    rewrite (proj2 (H k v (or_introl eq_refl) _ _) E3).
    destruct ps as [|p ps]; [exact Hm|].
    destruct (eat T_COMMA r3) as [[? r4]|]; [|discriminate].
    apply IH; [|exact Hm]. intros k0 v0 H0. apply H. right. exact H0.
  Qed.

  Lemma m_stmts_mono ss :
    (forall s, In s ss -> forall next ts r, fs s next ts = Some r -> gs s next ts = Some r) ->
    forall next ts r, m_stmtsM fs ss next ts = Some r -> m_stmtsM gs ss next ts = Some r.
  Proof.
    induction ss as [|s ss IH]; intros H next ts r Hm; [exact Hm|].
    cbn [m_stmtsM] in *. destruct (fs s next ts) as [r1|] eqn:E; [|discriminate].
    rewrite (H s (or_introl eq_refl) _ _ _ E).
    apply IH; [|exact Hm]. intros s0 H0. apply H. right. exact H0.
  Qed.
End MonoLists.

Ltac mono_sz := cbn [esize ssize] in *; lia.

Ltac mono_chain H IHe IHs :=
  repeat first
  [ exact H
  | discriminate H
  | apply IHe; [mono_sz | exact H]
  | apply IHs; [mono_sz | exact H]
  | eapply m_end_mono; [|exact H]; first [exact asi_expr_mono | exact asi_let_mono | (intros ? Hq; assumption)]
  | progress (rewrite enil_match in H); rewrite enil_match
  | progress (rewrite snil_match in H); rewrite snil_match
  | match type of H with
    | (if ?b then _ else _) = Some _ => let E := fresh "E" in destruct b eqn:E
    | (match ?x with _ => _ end) = Some _ =>
        lazymatch x with
        | m_exprM _ false _ _ =>
            let E := fresh "E" in
            destruct x as [?|] eqn:E; [apply IHe in E; [rewrite E | mono_sz] | discriminate H]
        | m_stmtM _ false _ _ _ =>
            let E := fresh "E" in
            destruct x as [?|] eqn:E; [apply IHs in E; [rewrite E | mono_sz] | discriminate H]
        | m_exprsM _ _ _ =>
            let E := fresh "E" in
            destruct x as [?|] eqn:E;
            [eapply (m_exprs_mono _ (m_exprM smart true)) in E;
               [rewrite E | intros ? Ha ? ? Hq; apply esize_in in Ha; apply IHe; [mono_sz | assumption]]
            | discriminate H]
        | m_propsM _ _ _ =>
            let E := fresh "E" in
            destruct x as [?|] eqn:E;
            [eapply (m_props_mono _ (m_exprM smart true)) in E;
               [rewrite E
               | intros ? ? Hkv ? ?; apply psize_in in Hkv; split; intro Hq; (apply IHe; [mono_sz | assumption])]
            | discriminate H]
        | m_stmtsM _ _ _ _ =>
            let E := fresh "E" in
            destruct x as [?|] eqn:E;
            [eapply (m_stmts_mono _ (m_stmtM smart true)) in E;
               [rewrite E | intros ? Hs ? ? ? Hq; apply ssize_in in Hs; apply IHs; [mono_sz | assumption]]
            | discriminate H]
        | _ => first [is_var x; destruct x
                     | lazymatch x with if ?b then _ else _ => let E := fresh "E" in destruct b eqn:E end
                     | lazymatch x with match ?v with _ => _ end => is_var v; destruct v end
                     | let E := fresh "E" in destruct x eqn:E]
        end
    end ].

Lemma all_mono : forall n,
  (forall e, (esize e <= n)%nat -> forall ts r,
     m_exprM smart false e ts = Some r -> m_exprM smart true e ts = Some r) /\
  (forall s, (ssize s <= n)%nat -> forall next ts r,
     m_stmtM smart false s next ts = Some r -> m_stmtM smart true s next ts = Some r).
Proof.
  induction n as [|n [IHe IHs]].
  - split; [intros e H; destruct e; cbn [esize] in H; lia | intros s H; destruct s; cbn [ssize] in H; lia].
  - split.
    + intros e0 Hn ts r H. destruct e0; mE_in' H; mE_goal'; cbn [andb] in H; cbv beta iota in H.
      all: mono_chain H IHe IHs.
    + intros s0 Hn next ts r H. destruct s0; mS_in' H; mS_goal'; cbn [andb] in H; cbv beta iota in H.
      all: mono_chain H IHe IHs.
Qed.

End Mono.

Theorem tolerant_contains_strict : forall smart p toks,
  m_programM smart false p toks = true -> m_programM smart true p toks = true.
Proof.
  intros smart p toks H. unfold m_programM in *.
  apply andb_true_iff in H as [H1 H2]. rewrite H1. cbn [andb].
  destruct (m_stmtsM (m_stmtM smart false) (p_stmts p) (p_eof p) toks) as [l|] eqn:E; [|discriminate].
  eapply (m_stmts_mono _ (m_stmtM smart true)) in E; [rewrite E; exact H2|].
  intros s _ next ts r Hq. apply (proj2 (all_mono smart (ssize s)) s); [lia|exact Hq].
Qed.

Print Assumptions tolerant_contains_strict.
