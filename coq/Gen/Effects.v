(* GENERATED stub *)
