(* VLQProofs.v -- encode_vlq / decode_vlq round trip, prefix-freeness, alphabet. *)
Require Import Base VLQ.
Require Import Gen.Tables.
From Coq Require Import ZifyBool ZifyN ZifyNat.

Lemma range_forallb (f : Z -> bool) (n : nat) :
  forallb f (map Z.of_nat (seq 0 n)) = true ->
  forall d, 0 <= d < Z.of_nat n -> f d = true.
Proof.
  intros H d Hd. rewrite forallb_forall in H. apply H.
  apply in_map_iff. exists (Z.to_nat d). split; [lia|].
  apply in_seq. lia.
Qed.

(* every fact about single digits that the proofs need, checked on all 64 *)
Definition digit_facts (d : Z) : bool :=
  match b64_value (b64char d) with Some d' => d' =? d | None => false end.

Lemma digit_facts_all : forall d, 0 <= d < 64 -> digit_facts d = true.
Proof. apply (range_forallb digit_facts 64). vm_compute. reflexivity. Qed.

Lemma b64_roundtrip d : 0 <= d < 64 -> b64_value (b64char d) = Some d.
Proof.
  intro H. pose proof (digit_facts_all d H) as F. unfold digit_facts in F.
  destruct (b64_value (b64char d)) as [d'|]; [|discriminate].
  apply Z.eqb_eq in F. congruence.
Qed.

Definition low_facts (d : Z) : bool :=
  (Z.lor d 32 =? d + 32) && Z.testbit (d + 32) 5 && (Z.land (d + 32) 31 =? d)
  && negb (Z.testbit d 5) && (Z.land d 31 =? d).

Lemma low_facts_all : forall d, 0 <= d < 32 -> low_facts d = true.
Proof. apply (range_forallb low_facts 32). vm_compute. reflexivity. Qed.

Lemma land31 n : Z.land n 31 = n mod 32.
Proof. change 31 with (Z.ones 5). rewrite Z.land_ones by lia. reflexivity. Qed.

Lemma shiftr5 n : Z.shiftr n 5 = n / 32.
Proof. rewrite Z.shiftr_div_pow2 by lia. reflexivity. Qed.

Definition vlq_finish (x : Z) : Z := if Z.testbit x 0 then - Z.shiftr x 1 else Z.shiftr x 1.

Lemma vlq_digits_decode fuel : forall v acc shift rest,
  0 <= v < 32 ^ Z.of_nat (S fuel) -> 0 <= shift ->
  decode_vlq_aux (map b64char (vlq_digits (S fuel) v) ++ rest) acc shift
  = Some (vlq_finish (acc + v * 2 ^ shift), rest).
Proof.
  induction fuel as [|fuel IH]; intros v acc shift rest Hv Hs.
  - (* one digit of fuel: v < 32 *)
    cbn [vlq_digits]. rewrite land31, shiftr5.
    assert (v / 32 = 0) as -> by (apply Z.div_small; lia).
    replace (0 <? 0) with false by reflexivity.
    cbn [map app decode_vlq_aux].
    assert (Hd : 0 <= v mod 32 < 32) by (apply Z.mod_pos_bound; lia).
    rewrite b64_roundtrip by lia.
    pose proof (low_facts_all _ Hd) as F. unfold low_facts in F.
    apply andb_true_iff in F as [F F5]. apply andb_true_iff in F as [F F4].
    apply andb_true_iff in F as [F F3]. apply andb_true_iff in F as [F1 F2].
    apply negb_true_iff in F4. rewrite F4.
    apply Z.eqb_eq in F5. rewrite F5.
    rewrite Z.shiftl_mul_pow2 by lia.
    rewrite Z.mod_small by lia. reflexivity.
  - remember (S fuel) as f eqn:Ef.
    cbn [vlq_digits]. rewrite land31, shiftr5.
    assert (Hd : 0 <= v mod 32 < 32) by (apply Z.mod_pos_bound; lia).
    pose proof (low_facts_all _ Hd) as F. unfold low_facts in F.
    apply andb_true_iff in F as [F F5]. apply andb_true_iff in F as [F F4].
    apply andb_true_iff in F as [F F3]. apply andb_true_iff in F as [F1 F2].
    apply Z.eqb_eq in F1, F3, F5. apply negb_true_iff in F4.
    destruct (0 <? v / 32) eqn:Hq.
    + cbn [map app decode_vlq_aux]. rewrite F1.
      rewrite b64_roundtrip by lia. rewrite F2, F3.
      rewrite Z.shiftl_mul_pow2 by lia.
      subst f. rewrite IH.
      * f_equal. f_equal. f_equal.
        rewrite Z.pow_add_r by lia.
        pose proof (Z.div_mod v 32 ltac:(lia)) as E.
        change (2 ^ 5) with 32. nia.
      * split; [apply Z.div_pos; lia|].
        apply Z.div_lt_upper_bound; [lia|].
        replace (Z.of_nat (S (S fuel))) with (1 + Z.of_nat (S fuel)) in Hv by lia.
        rewrite Z.pow_add_r in Hv by lia. change (32 ^ 1) with 32 in Hv. lia.
      * lia.
    + cbn [map app decode_vlq_aux].
      rewrite b64_roundtrip by lia. rewrite F4, F5.
      rewrite Z.shiftl_mul_pow2 by lia.
      assert (v / 32 = 0) as Hz by (pose proof (Z.div_pos v 32); lia).
      assert (v mod 32 = v) as -> by (pose proof (Z.div_mod v 32 ltac:(lia)); lia).
      reflexivity.
Qed.

Lemma lor_even_1 a : Z.lor (2 * a) 1 = 2 * a + 1.
Proof.
  assert (L : Z.land (2 * a) 1 = 0).
  { change 1 with (Z.ones 1). rewrite Z.land_ones by lia. change (2 ^ 1) with 2.
    rewrite Z.mul_comm. apply Z.mod_mul. lia. }
  rewrite <- Z.lxor_lor by exact L. rewrite <- Z.add_nocarry_lxor by exact L. reflexivity.
Qed.

Lemma vlq_signed_odd n : n < 0 -> vlq_signed n = 2 * (- n) + 1.
Proof.
  intro Hn. unfold vlq_signed. replace (n <? 0) with true by lia.
  rewrite Z.shiftl_mul_pow2 by lia. change (2 ^ 1) with 2.
  replace (- n * 2) with (2 * - n) by lia. apply lor_even_1.
Qed.

Lemma vlq_signed_range n : vlq_guard n = true -> 0 <= vlq_signed n < 2 ^ 63.
Proof.
  unfold vlq_guard. intro G.
  destruct (Z_lt_dec n 0) as [Hn|Hn].
  - rewrite vlq_signed_odd by lia. lia.
  - unfold vlq_signed. replace (n <? 0) with false by lia.
    rewrite Z.shiftl_mul_pow2 by lia. lia.
Qed.

Lemma vlq_finish_signed n : vlq_finish (vlq_signed n) = n.
Proof.
  unfold vlq_finish. destruct (Z_lt_dec n 0) as [Hn|Hn].
  - rewrite vlq_signed_odd by lia.
    rewrite Z.testbit_odd_0. rewrite Z.shiftr_div_pow2 by lia. change (2 ^ 1) with 2.
    replace ((2 * - n + 1) / 2) with (- n); [lia|].
    apply Z.div_unique with (r := 1); lia.
  - unfold vlq_signed. replace (n <? 0) with false by lia.
    rewrite Z.shiftl_mul_pow2 by lia. change (2 ^ 1) with 2.
    replace (n * 2) with (2 * n) by lia.
    rewrite Z.testbit_even_0. rewrite Z.shiftr_div_pow2 by lia. change (2 ^ 1) with 2.
    rewrite Z.mul_comm, Z.div_mul by lia. reflexivity.
Qed.

Theorem vlq_roundtrip n rest :
  vlq_guard n = true -> decode_vlq (encode_vlq n ++ rest) = Some (n, rest).
Proof.
  intro G. unfold decode_vlq, encode_vlq, vlq_fuel.
  pose proof (vlq_signed_range n G) as R.
  rewrite vlq_digits_decode.
  - rewrite Z.add_0_l. change (2 ^ 0) with 1. rewrite Z.mul_1_r.
    rewrite vlq_finish_signed. reflexivity.
  - split; [lia|]. eapply Z.lt_trans; [apply R|]. vm_compute. reflexivity.
  - lia.
Qed.

(* digits are always base64 digits, for every n *)
Lemma vlq_digits_range fuel : forall v, Forall (fun d => 0 <= d < 64) (vlq_digits fuel v).
Proof.
  induction fuel as [|fuel IH]; intro v; cbn [vlq_digits]; [constructor|].
  rewrite land31.
  assert (Hd : 0 <= v mod 32 < 32) by (apply Z.mod_pos_bound; lia).
  pose proof (low_facts_all _ Hd) as F. unfold low_facts in F.
  apply andb_true_iff in F as [F _]. apply andb_true_iff in F as [F _].
  apply andb_true_iff in F as [F _]. apply andb_true_iff in F as [F1 _].
  apply Z.eqb_eq in F1.
  destruct (0 <? Z.shiftr v 5).
  - constructor; [rewrite F1; lia|apply IH].
  - constructor; [lia|constructor].
Qed.

Theorem vlq_alphabet n : Forall base64_char (encode_vlq n).
Proof.
  unfold encode_vlq. apply Forall_map.
  eapply Forall_impl; [|apply vlq_digits_range].
  intros d Hd. unfold base64_char. rewrite b64_roundtrip by exact Hd. discriminate.
Qed.

(* an encoding is never empty, and none of its characters is a separator *)
Lemma vlq_nonempty n : encode_vlq n <> [].
Proof.
  unfold encode_vlq, vlq_fuel. cbn [vlq_digits].
  destruct (0 <? _); discriminate.
Qed.

Lemma base64_char_not_sep c : base64_char c -> c <> 59%N /\ c <> 44%N.
Proof.
  unfold base64_char, b64_value. intro H.
  split; intro E; subst c; apply H; reflexivity.
Qed.
