(* SourceMap.v -- model of sourcemap/sourcemap.go (SourceMapper) and an
   independent decoder of the Source Map v3 "mappings" string (specification). *)
Require Import Base VLQ.

(* ---------- model ---------- *)

Record mapping := mkmapping {
  m_gl : Z; m_gc : Z; m_sl : Z; m_sc : Z; m_ni : Z; m_has : bool }.

Record mapper := mkmapper {
  sm_maps : list mapping;   (* in recording order *)
  sm_names : list str;
  sm_line : Z;
  sm_col : Z }.

Definition mapper_new : mapper := mkmapper [] [] 0 0.

Inductive mop :=
| MAddMapping (sl sc : Z)
| MAddNamed (sl sc : Z) (name : str)
| MAdvanceColumn (n : Z)
| MAdvanceString (s : str)
| MAdvanceLine.

(* AdvanceString (sourcemap.go:95-114): a byte loop; CR LF, CR and LF each one break.
   The index skip over the LF of a CR LF pair is a flag. *)
Fixpoint advance_str (s : str) (skip_lf : bool) (line col : Z) : Z * Z :=
  match s with
  | [] => (line, col)
  | c :: s' =>
      if skip_lf && N.eqb c LF then advance_str s' false line col
      else if N.eqb c CR then advance_str s' true (line + 1) 0
      else if N.eqb c LF then advance_str s' false (line + 1) 0
      else advance_str s' false line (col + 1)
  end.

Definition mapper_step (m : mapper) (o : mop) : mapper :=
  match o with
  | MAddMapping sl sc =>
      mkmapper (sm_maps m ++ [mkmapping (sm_line m) (sm_col m) sl sc 0 false])
               (sm_names m) (sm_line m) (sm_col m)
  | MAddNamed sl sc name =>
      match index_of name (sm_names m) 0 with
      | Some i =>
          mkmapper (sm_maps m ++ [mkmapping (sm_line m) (sm_col m) sl sc i true])
                   (sm_names m) (sm_line m) (sm_col m)
      | None =>
          mkmapper (sm_maps m ++ [mkmapping (sm_line m) (sm_col m) sl sc (Z.of_nat (length (sm_names m))) true])
                   (sm_names m ++ [name]) (sm_line m) (sm_col m)
      end
  | MAdvanceColumn n => mkmapper (sm_maps m) (sm_names m) (sm_line m) (sm_col m + n)
  | MAdvanceString s =>
      let '(l, c) := advance_str s false (sm_line m) (sm_col m) in
      mkmapper (sm_maps m) (sm_names m) l c
  | MAdvanceLine => mkmapper (sm_maps m) (sm_names m) (sm_line m + 1) 0
  end.

Definition run_mapper (ops : list mop) : mapper := fold_left mapper_step ops mapper_new.

(* encodeMappings (sourcemap.go:132-193).  The strings.Builder is append-only, so
   the loop body is modelled as returning the chunk it appends. *)
Record enc_state := mkenc {
  e_pgc : Z; e_psl : Z; e_psc : Z; e_pni : Z; e_line : Z; e_segs : Z }.

Definition SEMI : N := 59%N.
Definition COMMA : N := 44%N.

(* the inner loop [for currentLine < mapping.GeneratedLine] *)
Definition enc_advance_lines (st : enc_state) (gl : Z) : str * enc_state :=
  if e_line st <? gl then
    (repeat SEMI (Z.to_nat (gl - e_line st)),
     mkenc 0 (e_psl st) (e_psc st) (e_pni st) gl 0)
  else ([], st).

Definition enc_mapping (st : enc_state) (m : mapping) : str * enc_state :=
  let '(semis, st1) := enc_advance_lines st (m_gl m) in
  let sep := if 0 <? e_segs st1 then [COMMA] else [] in
  let seg := encode_vlq (m_gc m - e_pgc st1) ++ encode_vlq 0
             ++ encode_vlq (m_sl m - e_psl st1) ++ encode_vlq (m_sc m - e_psc st1)
             ++ (if m_has m then encode_vlq (m_ni m - e_pni st1) else []) in
  (semis ++ sep ++ seg,
   mkenc (m_gc m) (m_sl m) (m_sc m)
         (if m_has m then m_ni m else e_pni st1) (e_line st1) (e_segs st1 + 1)).

Definition enc_init : enc_state := mkenc 0 0 0 0 0 0.

Fixpoint enc_all (st : enc_state) (ms : list mapping) : str :=
  match ms with
  | [] => []
  | m :: ms' => let '(chunk, st') := enc_mapping st m in chunk ++ enc_all st' ms'
  end.

Definition encode_mappings (ms : list mapping) : str := enc_all enc_init ms.

Record source_map := mksm { smv_version : Z; smv_names : list str; smv_mappings : str }.

Definition mapper_source_map (m : mapper) : source_map :=
  mksm 3 (sm_names m) (encode_mappings (sm_maps m)).

(* ---------- specification: decoding a "mappings" string ----------
   Source Map v3: groups separated by ';' (one per generated line); segments in
   a group separated by ','; a segment has 4 or 5 VLQ fields:
   generated column (relative to the previous segment of the same line, absolute
   for the first), source index, original line, original column, name index
   (each relative to the previous occurrence of that field in the whole map). *)

Record segment := mkseg {
  g_line : Z; g_col : Z; s_src : Z; s_line : Z; s_col : Z; s_name : option Z }.

Record dec_state := mkdec { d_line : Z; d_pgc : Z; d_psrc : Z; d_psl : Z; d_psc : Z; d_pni : Z }.

Definition is_sep (c : N) : bool := N.eqb c SEMI || N.eqb c COMMA.

(* decode one segment from the head of [s] *)
Definition decode_segment (st : dec_state) (s : str) : option (segment * dec_state * str) :=
  match decode_vlq s with None => None | Some (f1, s1) =>
  match decode_vlq s1 with None => None | Some (f2, s2) =>
  match decode_vlq s2 with None => None | Some (f3, s3) =>
  match decode_vlq s3 with None => None | Some (f4, s4) =>
    let gc := d_pgc st + f1 in let src := d_psrc st + f2 in
    let sl := d_psl st + f3 in let sc := d_psc st + f4 in
    match s4 with
    | c :: _ =>
        if is_sep c then
          Some (mkseg (d_line st) gc src sl sc None, mkdec (d_line st) gc src sl sc (d_pni st), s4)
        else
          match decode_vlq s4 with None => None | Some (f5, s5) =>
            let ni := d_pni st + f5 in
            Some (mkseg (d_line st) gc src sl sc (Some ni), mkdec (d_line st) gc src sl sc ni, s5)
          end
    | [] => Some (mkseg (d_line st) gc src sl sc None, mkdec (d_line st) gc src sl sc (d_pni st), s4)
    end
  end end end end.

(* [at_start]: true at the beginning of a group (a segment, ';' or the end may follow);
   false just after a segment (',' ';' or the end may follow). *)
Fixpoint decode_groups (fuel : nat) (st : dec_state) (at_start : bool) (s : str) : option (list segment) :=
  match fuel with
  | O => None
  | S f =>
      match s with
      | [] => Some []
      | c :: s' =>
          if N.eqb c SEMI then
            decode_groups f (mkdec (d_line st + 1) 0 (d_psrc st) (d_psl st) (d_psc st) (d_pni st)) true s'
          else if N.eqb c COMMA then
            if at_start then None
            else match decode_segment st s' with
                 | None => None
                 | Some (seg, st', rest) =>
                     match decode_groups f st' false rest with
                     | None => None | Some l => Some (seg :: l) end
                 end
          else if at_start then
            match decode_segment st s with
            | None => None
            | Some (seg, st', rest) =>
                match decode_groups f st' false rest with
                | None => None | Some l => Some (seg :: l) end
            end
          else None
      end
  end.

Definition decode_mappings (s : str) : option (list segment) :=
  decode_groups (S (length s)) (mkdec 0 0 0 0 0 0) true s.

(* what was recorded, as absolute segments *)
Definition absolute (m : mapping) : segment :=
  mkseg (m_gl m) (m_gc m) 0 (m_sl m) (m_sc m) (if m_has m then Some (m_ni m) else None).

(* specification of position advance: number of line breaks (CR LF, CR, LF each
   one) and the length of the text after the last one *)
Fixpoint breaks (s : str) : Z :=
  match s with
  | [] => 0
  | c :: s' =>
      if N.eqb c CR then
        match s' with
        | c2 :: _ => if N.eqb c2 LF then breaks s' else 1 + breaks s'
        | [] => 1
        end
      else if N.eqb c LF then 1 + breaks s'
      else breaks s'
  end.

Definition is_break_char (c : N) : bool := N.eqb c CR || N.eqb c LF.

(* length of the suffix after the last CR or LF *)
Fixpoint tail_len (s : str) (acc : Z) : Z :=
  match s with
  | [] => acc
  | c :: s' => if is_break_char c then tail_len s' 0 else tail_len s' (acc + 1)
  end.
