(* ClimbProofs3.v -- C05, every level, third part (ClimbSpec3.v): member / index access,
   calls, built-in ++ --, assignments.  Same proof shape as ClimbProofs2.v: total
   correctness with explicit fuel, the loop-continuation lemma [climby], by strong
   induction on the size of the tree (the arguments of a call are a nested list). *)
From Coq Require Import ZifyBool ZifyN ZifyNat Lia.
Require Import Base GoOps Token Tree Parser Registry ParserSpec ClimbSpec ClimbSpec2 ClimbSpec3.
Require Import InterceptProofs RenameProofs GrammarProofs ClimbProofs ClimbProofs2.
Require Import Gen.Tables.

Ltac plia := unfold P_LOWEST, P_ASSIGNMENT, P_UNARY, P_POSTFIX, P_CALL, P_MEMBER in *; lia.

(* lia in a small context (the contexts of the main induction are large) *)
Ltac nlia :=
  repeat match goal with
  | H : ?T |- _ =>
      lazymatch T with
      | (_ <= _)%nat => fail
      | (_ < _)%nat => fail
      | _ => clear H
      end
  end; lia.
Ltac zlia :=
  repeat match goal with
  | H : ?T |- _ =>
      lazymatch T with
      | (_ <? _) = true => fail
      | (_ <=? _) = true => fail
      | (_ < _)%Z => fail
      | (_ <= _)%Z => fail
      | _ => clear H
      end
  end; lia.

(* ---------- trees ---------- *)

Definition argtoks (p : token * ytree) : list token := fst p :: yyield (snd p).

Fixpoint ysize (c : ytree) : nat :=
  match c with
  | YAtom _ => O
  | YGroup _ e _ | YPre _ e | YPost e _ => S (ysize e)
  | YBin l _ r | YMember l _ r | YAssign l _ r => S (ysize l + ysize r)
  | YIndex o _ e _ => S (ysize o + ysize e)
  | YCall f _ first rest _ =>
      S (ysize f + match first with None => 0 | Some a => S (ysize a) end
         + fold_right (fun p n => S (ysize (snd p) + n)) 0 rest)%nat
  end.

Lemma ytree_size_ind (P : ytree -> Prop) :
  (forall c, (forall c', (ysize c' < ysize c)%nat -> P c') -> P c) -> forall c, P c.
Proof.
  intros H c. assert (G : forall n c, (ysize c < n)%nat -> P c).
  { induction n as [|n IH]; intros c0 Hc; [lia|]. apply H. intros c' Hc'. apply IH. lia. }
  apply (G (S (ysize c))). lia.
Qed.

Lemma size_in (rest : list (token * ytree)) p : In p rest ->
  (ysize (snd p) < fold_right (fun p n => S (ysize (snd p) + n)) 0 rest)%nat.
Proof.
  induction rest as [|q rest IH]; cbn [In fold_right]; [tauto|]. intros [->|H]; [lia|].
  apply IH in H. lia.
Qed.

Lemma size_len (rest : list (token * ytree)) :
  (length rest <= fold_right (fun p n => S (ysize (snd p) + n)) 0 rest)%nat.
Proof. induction rest as [|q rest IH]; cbn [length fold_right]; lia. Qed.

Lemma yyield_cons c : exists a l, yyield c = a :: l.
Proof.
  induction c as [t|lp e IH rp|op e IH|e [a [l1 IH]] op|cl [a [l1 IH]] op cr _
                 |o [a [l1 IH]] d p _|o [a [l1 IH]] lb e _ rb|fn [a [l1 IH]] lp first rest rp
                 |cl [a [l1 IH]] op cr _]; cbn [yyield]; eauto; rewrite IH; cbn [app]; eauto.
Qed.

Lemma yyield_length : forall c, (ysize c + 1 <= length (yyield c))%nat.
Proof.
  apply ytree_size_ind. intros c IH.
  destruct c as [t|lp e rp|op e|e op|cl op cr|o d p|o lb e rb|fn lp first rest rp|cl op cr];
    cbn [yyield ysize length] in *; rewrite ?app_length; cbn [length]; rewrite ?app_length; cbn [length].
  - lia.
  - pose proof (IH e ltac:(lia)). lia.
  - pose proof (IH e ltac:(lia)). lia.
  - pose proof (IH e ltac:(lia)). lia.
  - pose proof (IH cl ltac:(lia)). pose proof (IH cr ltac:(lia)). lia.
  - pose proof (IH o ltac:(lia)). pose proof (IH p ltac:(lia)). lia.
  - pose proof (IH o ltac:(lia)). pose proof (IH e ltac:(lia)). lia.
  - pose proof (IH fn ltac:(lia)) as Hf.
    assert (Hfirst : (match first with None => 0 | Some a => S (ysize a) end
                      <= length (match first with None => [] | Some a => yyield a end))%nat).
    { destruct first as [a|]; [|cbn [length]; lia]. pose proof (IH a ltac:(lia)). lia. }
    assert (Hrest : (fold_right (fun p n => S (ysize (snd p) + n)) 0 rest
                     <= length (flat_map (fun p => fst p :: yyield (snd p)) rest))%nat).
    { assert (HA : forall p, In p rest -> (ysize (snd p) + 1 <= length (yyield (snd p)))%nat).
      { intros p Hp. apply IH. pose proof (size_in rest p Hp). lia. }
      clear IH Hf Hfirst. induction rest as [|q rest IHr]; cbn [fold_right flat_map length]; [lia|].
      rewrite app_length. pose proof (HA q (or_introl eq_refl)).
      assert (forall p, In p rest -> (ysize (snd p) + 1 <= length (yyield (snd p)))%nat)
        by (intros p Hp; apply HA; right; exact Hp).
      specialize (IHr H0). cbn [length]. lia. }
    lia.
  - pose proof (IH cl ltac:(lia)). pose proof (IH cr ltac:(lia)). lia.
Qed.

(* ---------- the parser ---------- *)

Section ClimbY.
  Variable cfg : pcfg.

  Notation SFc f := (stmt_fn cfg f).
  Notation EFc f := (expr_fn cfg f).
  Notation RLc f n := (remaining_loop cfg (expr_fn cfg f) f n).
  Notation PPc f := (parse_prefix_expression cfg (stmt_fn cfg f) (expr_fn cfg f) f).
  Notation stops := (stopsc cfg).

  Lemma untouched_facts ty : infix_untouched cfg ty = true ->
    precedence_of cfg ty = match assoc_opt parser_precedences ty with Some p => p | None => P_LOWEST end /\
    infix_lookup cfg ty = match assoc_opt infix_table ty with Some h => Some (IK_Builtin h) | None => None end.
  Proof.
    unfold infix_untouched, precedence_of, infix_lookup. intro H. bsplit.
    destruct (memZ ty (c_postfix_ops cfg)); [discriminate|].
    destruct (assoc_opt (c_infix_ops cfg) ty); [discriminate|]. split; reflexivity.
  Qed.

  (* one step of the loop through a built-in infix handler *)
  Lemma RLy_step f n left prec x c t0 l h p :
    infix_untouched cfg (t_type t0) = true ->
    assoc_opt infix_table (t_type t0) = Some h ->
    assoc_opt parser_precedences (t_type t0) = Some p -> prec < p ->
    (t_nl t0 && ((t_type t0 =? T_INCREMENT) || (t_type t0 =? T_DECREMENT))) = false ->
    (c_smart cfg && t_nl t0 && ((t_type t0 =? T_LPAREN) || (t_type t0 =? T_LBRACKET))) = false ->
    RLc f (S n) left prec (St x c (t0 :: l)) =
    (do (left', s1) <- infix_handler_run cfg (EFc f) f h left (St x t0 l); RLc f n left' prec s1).
  Proof.
    intros Hu Hh Hp Hlt Hnl Hsm. destruct (untouched_facts _ Hu) as [F1 F2].
    rewrite Hp in F1. rewrite Hh in F2.
    cbn [remaining_loop]. unfold peek_precedence, parse_infix_expression.
    rewrite !peek_is_St, peek_St, next_St, F1, F2, Hnl, Hsm.
    replace (t_type t0 =? T_SEMICOLON) with false.
    2:{ symmetry. apply Z.eqb_neq. intro E. rewrite E in Hh. vm_compute in Hh. discriminate. }
    apply Z.ltb_lt in Hlt. rewrite Hlt. reflexivity.
  Qed.

  Lemma RLy_member f n left prec x c d c2 l2 :
    t_type d = T_DOT -> infix_untouched cfg T_DOT = true -> prec < P_MEMBER ->
    RLc f (S n) left prec (St x c (d :: c2 :: l2)) =
    (do (p, s1) <- EFc f P_MEMBER (St x c2 l2); RLc f n (EMember d left p false) prec s1).
  Proof.
    intros Ht Hu Hp.
    rewrite (RLy_step _ _ _ _ _ _ _ _ IH_ParseMemberExpression P_MEMBER);
      try (rewrite Ht; first [assumption | reflexivity | (ev_goal; apply andb_false_r)]); [|assumption].
    cbn [infix_handler_run]. rewrite cur_St, next_St.
    destruct (EFc f P_MEMBER (St x c2 l2)) as [[r s1]|]; reflexivity.
  Qed.

  Lemma RLy_index f n left prec x c lb c2 l2 :
    opens_ok cfg lb T_LBRACKET = true -> prec < P_MEMBER ->
    RLc f (S n) left prec (St x c (lb :: c2 :: l2)) =
    (do (p, s1) <- EFc f P_LOWEST (St x c2 l2);
     let '(ok, s2) := expect s1 T_RBRACKET in
     if negb ok then RLc f n ENil prec s2 else RLc f n (EMember lb left p true) prec s2).
  Proof.
    intros Ho Hp. unfold opens_ok in Ho. bsplit.
    match goal with H : (t_type lb =? _) = true |- _ => apply Z.eqb_eq in H; rename H into Ht end.
    rewrite (RLy_step _ _ _ _ _ _ _ _ IH_ParseComputedMemberExpression P_MEMBER);
      try (rewrite Ht; first [assumption | reflexivity | (ev_goal; apply andb_false_r)]); [|assumption|].
    - cbn [infix_handler_run]. unfold parse_expression. rewrite cur_St, next_St.
      destruct (EFc f P_LOWEST (St x c2 l2)) as [[r s1]|]; [|reflexivity].
      destruct (expect s1 T_RBRACKET) as [[|] s2]; reflexivity.
    - rewrite Ht. ev_goal. cbn [orb]. rewrite andb_true_r. apply negb_true_iff. assumption.
  Qed.

  Lemma RLy_call f n left prec x c lp l :
    opens_ok cfg lp T_LPAREN = true -> prec < P_CALL ->
    RLc f (S n) left prec (St x c (lp :: l)) =
    (do (args, s1) <- parse_expression_list (EFc f) f T_RPAREN (St x lp l);
     RLc f n (ECall lp left args) prec s1).
  Proof.
    intros Ho Hp. unfold opens_ok in Ho. bsplit.
    match goal with H : (t_type lp =? _) = true |- _ => apply Z.eqb_eq in H; rename H into Ht end.
    rewrite (RLy_step _ _ _ _ _ _ _ _ IH_ParseCallExpression P_CALL);
      try (rewrite Ht; first [assumption | reflexivity | (ev_goal; apply andb_false_r)]); [|assumption|].
    - cbn [infix_handler_run]. rewrite cur_St.
      destruct (parse_expression_list (EFc f) f T_RPAREN (St x lp l)) as [[r s1]|]; reflexivity.
    - rewrite Ht. ev_goal. cbn [orb]. rewrite andb_true_r. apply negb_true_iff. assumption.
  Qed.

  Lemma RLy_assign f n left prec x c op c2 l2 :
    assign_ok cfg (t_type op) = true -> prec < P_ASSIGNMENT ->
    RLc f (S n) left prec (St x c (op :: c2 :: l2)) =
    (do (v, s1) <- EFc f P_LOWEST (St x c2 l2);
     RLc f n (if t_type op =? T_ASSIGN then EAssign op left v
              else ECompound op left (if t_type op =? T_PLUS_ASSIGN then [43%N] else [45%N]) v) prec s1).
  Proof.
    intros Ha Hp. unfold assign_ok in Ha. apply andb_true_iff in Ha as [Ht Hu].
    apply orb_true_iff in Ht as [Ht|Ht]; [apply orb_true_iff in Ht as [Ht|Ht]|]; apply Z.eqb_eq in Ht.
    - rewrite (RLy_step _ _ _ _ _ _ _ _ IH_ParseAssignmentExpression P_ASSIGNMENT);
        try (rewrite Ht; first [reflexivity | (ev_goal; apply andb_false_r)]); [|assumption..].
      cbn [infix_handler_run]. unfold parse_expression. rewrite cur_St, next_St, Ht. ev_goal.
      destruct (EFc f P_LOWEST (St x c2 l2)) as [[r s1]|]; reflexivity.
    - rewrite (RLy_step _ _ _ _ _ _ _ _ IH_ParseCompoundAssignmentExpression P_ASSIGNMENT);
        try (rewrite Ht; first [reflexivity | (ev_goal; apply andb_false_r)]); [|assumption..].
      cbn [infix_handler_run]. unfold parse_expression. rewrite cur_St, next_St, Ht. ev_goal.
      destruct (EFc f P_LOWEST (St x c2 l2)) as [[r s1]|]; reflexivity.
    - rewrite (RLy_step _ _ _ _ _ _ _ _ IH_ParseCompoundAssignmentExpression P_ASSIGNMENT);
        try (rewrite Ht; first [reflexivity | (ev_goal; apply andb_false_r)]); [|assumption..].
      cbn [infix_handler_run]. unfold parse_expression. rewrite cur_St, next_St, Ht. ev_goal.
      destruct (EFc f P_LOWEST (St x c2 l2)) as [[r s1]|]; reflexivity.
  Qed.

  Lemma post_level_facts op j : post_level cfg op = Some j ->
    precedence_of cfg (t_type op) = j /\ (j = P_CALL \/ j = P_POSTFIX).
  Proof.
    unfold post_level. destruct (post_ok cfg (t_type op)) eqn:E.
    - intro H. injection H as <-. destruct (post_facts _ _ E) as [F _]. auto.
    - destruct (((t_type op =? T_INCREMENT) || (t_type op =? T_DECREMENT))
                && infix_untouched cfg (t_type op) && negb (t_nl op)) eqn:E2; [|discriminate].
      intro H. injection H as <-. bsplit.
      match goal with H : infix_untouched _ _ = true |- _ => destruct (untouched_facts _ H) as [F _] end.
      rewrite F. split; [|auto].
      match goal with H : orb _ _ = true |- _ => apply orb_true_iff in H as [H|H]; apply Z.eqb_eq in H; rewrite H end;
        reflexivity.
  Qed.

  Lemma RLy_post f n left prec x c t0 l j :
    post_level cfg t0 = Some j -> prec < j ->
    RLc f (S n) left prec (St x c (t0 :: l)) = RLc f n (EPostfix t0 left (t_lit t0)) prec (St x t0 l).
  Proof.
    unfold post_level. destruct (post_ok cfg (t_type t0)) eqn:E.
    - intro H. injection H as <-. intro Hp. apply RLx_post; assumption.
    - destruct (((t_type t0 =? T_INCREMENT) || (t_type t0 =? T_DECREMENT))
                && infix_untouched cfg (t_type t0) && negb (t_nl t0)) eqn:E2; [|discriminate].
      intro H. injection H as <-. intro Hp. bsplit.
      match goal with H : negb _ = true |- _ => apply negb_true_iff in H; rename H into Hnl end.
      match goal with H : orb _ _ = true |- _ => apply orb_true_iff in H as [Ht|Ht]; apply Z.eqb_eq in Ht end.
      + rewrite (RLy_step _ _ _ _ _ _ _ _ IH_ParsePostfixExpression P_POSTFIX);
          try (rewrite Ht; first [assumption | reflexivity]); try assumption.
        * cbn [infix_handler_run]. rewrite cur_St. reflexivity.
        * rewrite Hnl. reflexivity.
        * rewrite Hnl, andb_false_r. reflexivity.
      + rewrite (RLy_step _ _ _ _ _ _ _ _ IH_ParsePostfixExpression P_POSTFIX);
          try (rewrite Ht; first [assumption | reflexivity]); try assumption.
        * cbn [infix_handler_run]. rewrite cur_St. reflexivity.
        * rewrite Hnl. reflexivity.
        * rewrite Hnl, andb_false_r. reflexivity.
  Qed.

  (* ---------- the follow condition ---------- *)

  Fixpoint fstopy (c : ytree) (t : token) : bool :=
    match c with
    | YAtom _ | YGroup _ _ _ | YPost _ _ | YIndex _ _ _ _ | YCall _ _ _ _ _ => true
    | YPre _ e => stops P_UNARY t && fstopy e t
    | YBin _ op r =>
        match op_level cfg (t_type op) with
        | Some k => stops k t && fstopy r t
        | None => false
        end
    | YMember _ _ p => stops P_MEMBER t && fstopy p t
    | YAssign _ _ r => stops P_LOWEST t && fstopy r t
    end.

  Ltac ysplit := apply andb_true_iff; split.

  Lemma yright_ok_mono e : forall k k', k <= k' -> yright_ok cfg k' e = true -> yright_ok cfg k e = true.
  Proof.
    induction e; intros k k' Hk H; cbn [yright_ok] in *; try reflexivity.
    - destruct (post_level cfg op); [|discriminate]. bsplit. ysplit; [lia|eauto].
    - destruct (op_level cfg (t_type op)); [|discriminate]. bsplit. ysplit; [lia|eauto].
    - bsplit. ysplit; [lia|eauto].
    - bsplit. ysplit; [lia|eauto].
    - bsplit. ysplit; [lia|eauto].
    - bsplit. ysplit; [lia|eauto].
  Qed.

  Lemma wgy_right_low e : well_grouped_y cfg e = true -> yright_ok cfg P_LOWEST e = true.
  Proof.
    induction e; intro H; cbn [yright_ok well_grouped_y] in *; try reflexivity.
    - destruct (post_level cfg op) as [j|] eqn:E; [|discriminate]. bsplit.
      destruct (post_level_facts _ _ E) as [_ Hj]. ysplit; [plia|auto].
    - destruct (op_level cfg (t_type op)); [|discriminate]. bsplit. ysplit; [assumption|auto].
    - bsplit. ysplit; [reflexivity|auto].
    - bsplit. ysplit; [reflexivity|auto].
    - bsplit. ysplit; [reflexivity|auto].
    - bsplit. ysplit; [reflexivity|auto].
  Qed.

  Lemma fstopy_low e : forall t, well_grouped_y cfg e = true -> stops P_LOWEST t = true -> fstopy e t = true.
  Proof.
    induction e; intros t0 Hw Hs; cbn [well_grouped_y fstopy] in *; try reflexivity.
    - bsplit. ysplit; [eapply stops_mono; [|exact Hs]; plia|auto].
    - destruct (op_level cfg (t_type op)) as [j|]; [|discriminate]. bsplit.
      ysplit; [eapply stops_mono; [|exact Hs]; lia|auto].
    - bsplit. ysplit; [eapply stops_mono; [|exact Hs]; plia|auto].
    - bsplit. ysplit; [exact Hs|auto].
  Qed.

  Lemma fstopy_right e : forall k t, k <= P_UNARY -> well_grouped_y cfg e = true ->
    yright_ok cfg k e = true -> stops k t = true -> fstopy e t = true.
  Proof.
    induction e; intros k t0 Hk Hw Hr Hs; cbn [yright_ok well_grouped_y fstopy] in *; try reflexivity.
    - bsplit. ysplit; [eapply stops_mono; [|exact Hs]; exact Hk|].
      eapply IHe; [exact Hk|assumption| |exact Hs]. eapply yright_ok_mono; [exact Hk|assumption].
    - destruct (op_level cfg (t_type op)) as [j|]; [|discriminate]. bsplit.
      ysplit; [eapply stops_mono; [|exact Hs]; lia|].
      eapply IHe2; [exact Hk|assumption| |exact Hs]. eapply yright_ok_mono; [|eassumption]. lia.
    - bsplit. ysplit; [eapply stops_mono; [|exact Hs]; plia|].
      eapply IHe2; [exact Hk|assumption| |exact Hs]. eapply yright_ok_mono; [|eassumption]. plia.
    - bsplit.
      assert (Hs1 : stops P_LOWEST t0 = true) by (eapply stops_mono; [|exact Hs]; plia).
      ysplit; [exact Hs1|]. apply fstopy_low; assumption.
  Qed.

  Lemma fstopy_spine e : forall k t, well_grouped_y cfg e = true ->
    yspine_ge cfg k e = true -> stops k t = true -> fstopy e t = true.
  Proof.
    induction e; intros k t0 Hw Hg Hs; cbn [yspine_ge well_grouped_y fstopy] in *;
      try reflexivity; try discriminate.
    - bsplit. apply Z.leb_le in Hg. ysplit; [eapply stops_mono; [|exact Hs]; exact Hg|].
      eapply fstopy_right; [exact Hg|assumption| |exact Hs]. eapply yright_ok_mono; [exact Hg|assumption].
    - destruct (op_level cfg (t_type op)) as [j|]; [|discriminate]. bsplit.
      ysplit; [eapply stops_mono; [|exact Hs]; lia|]. eapply IHe2; eassumption.
    - bsplit. ysplit; [eapply stops_mono; [|exact Hs]; lia|]. eapply IHe2; eassumption.
  Qed.

  Lemma first_toky c : forall a l, well_grouped_y cfg c = true -> yyield c = a :: l ->
    start_ok (t_type a) = true.
  Proof.
    induction c; intros a l Hw Hy; cbn [yyield well_grouped_y] in *.
    - injection Hy as <- _. unfold atom_ok in Hw. unfold start_ok. lia.
    - injection Hy as <- _. bsplit. unfold start_ok. lia.
    - injection Hy as <- _. bsplit. unfold pre_ok in *. unfold start_ok. lia.
    - destruct (post_level cfg op); [|discriminate]. bsplit.
      destruct (yyield_cons c) as (a1 & l1 & E). rewrite E in Hy. injection Hy as <- _. eapply IHc; eauto.
    - destruct (op_level cfg (t_type op)); [|discriminate]. bsplit.
      destruct (yyield_cons c1) as (a1 & l1 & E). rewrite E in Hy. injection Hy as <- _. eapply IHc1; eauto.
    - bsplit. destruct (yyield_cons c1) as (a1 & l1 & E). rewrite E in Hy. injection Hy as <- _. eapply IHc1; eauto.
    - bsplit. destruct (yyield_cons c1) as (a1 & l1 & E). rewrite E in Hy. injection Hy as <- _. eapply IHc1; eauto.
    - bsplit. destruct (yyield_cons c) as (a1 & l1 & E). rewrite E in Hy. injection Hy as <- _. eapply IHc; eauto.
    - bsplit. destruct (yyield_cons c1) as (a1 & l1 & E). rewrite E in Hy. injection Hy as <- _. eapply IHc1; eauto.
  Qed.

  Hypothesis Hsi : c_stmt_ics cfg = [].
  Hypothesis Hei : c_expr_ics cfg = [].
  Hypothesis Hid : memZ T_IDENT (c_prefix_ops cfg) = false.
  Hypothesis Hint : memZ T_INT (c_prefix_ops cfg) = false.
  Hypothesis Hlp : memZ T_LPAREN (c_prefix_ops cfg) = false.
  Hypothesis Hrp : precedence_of cfg T_RPAREN <= P_LOWEST.
  Hypothesis Hrb : precedence_of cfg T_RBRACKET <= P_LOWEST.
  Hypothesis Hcm : precedence_of cfg T_COMMA <= P_LOWEST.

  Lemma ty_stops t ty k : t_type t = ty -> precedence_of cfg ty <= P_LOWEST -> P_LOWEST <= k -> stops k t = true.
  Proof. intros H Hp Hk. unfold stopsc. rewrite H. lia. Qed.

  (* ---------- the key lemma ---------- *)

  Definition Climb (c : ytree) : Prop := forall prec x a l t rest f,
    well_grouped_y cfg c = true -> yright_ok cfg prec c = true -> yyield c = a :: l ->
    fstopy c t = true -> (ysize c < f)%nat ->
    exists m a', (f <= m + ysize c)%nat /\
      EFc (S f) prec (St x a (l ++ t :: rest)) = RLc f m (yexpr c) prec (St x a' (t :: rest)).

  (* the whole expression: at LOWEST, followed by a token that stops the loop at LOWEST *)
  Definition Top (f : nat) (c : ytree) : Prop := forall x a l t rest,
    yyield c = a :: l -> stops P_LOWEST t = true ->
    exists a', EFc (S f) P_LOWEST (St x a (l ++ t :: rest)) = Some (yexpr c, St x a' (t :: rest)).

  Lemma climb_top c f : Climb c -> well_grouped_y cfg c = true -> (ysize c < f)%nat -> Top f c.
  Proof.
    intros HC Hw Hf x a l t rest Hy Hst.
    destruct (HC P_LOWEST x a l t rest f Hw (wgy_right_low c Hw) Hy) as (m & a' & Hm & E);
      [apply fstopy_low; assumption|assumption|].
    rewrite E. destruct m as [|m]; [lia|]. rewrite RLx_stop by assumption. eauto.
  Qed.

  (* the (comma, argument) pairs of a call *)
  Lemma args_loop f' rest : forall n acc x c rp tl,
    Forall (fun p => t_type (fst p) = T_COMMA /\ Top f' (snd p)) rest ->
    (length rest < n)%nat -> t_type rp = T_RPAREN ->
    exists c', expr_list_loop (EFc (S f')) n acc (St x c (flat_map argtoks rest ++ rp :: tl))
               = Some (acc ++ map (fun p => yexpr (snd p)) rest, St x c' (rp :: tl)).
  Proof.
    induction rest as [|[cm a] rest IH]; intros n acc x c rp tl HF Hn Hrpt.
    - destruct n as [|n]; [cbn [length] in Hn; nlia|]. cbn [flat_map app map expr_list_loop].
      rewrite peek_is_St, Hrpt. ev_goal. rewrite app_nil_r. eauto.
    - inversion HF as [|? ? [Hc HT] HF']; subst. cbn [fst snd] in *.
      destruct n as [|n]; [cbn [length] in Hn; nlia|]. cbn [length] in Hn.
      cbn [flat_map map]. unfold argtoks at 1. cbn [fst snd].
      destruct (yyield_cons a) as (a1 & l1 & Ea). rewrite Ea.
      assert (Hnext : exists t r, flat_map argtoks rest ++ rp :: tl = t :: r /\ stops P_LOWEST t = true).
      { destruct rest as [|[cm2 a2] rest2].
        - exists rp, tl. split; [reflexivity|]. eapply ty_stops; [exact Hrpt|exact Hrp|apply Z.le_refl].
        - inversion HF' as [|? ? [Hc2 _] _]; subst. cbn [fst] in Hc2.
          cbn [flat_map]. unfold argtoks at 1. cbn [fst snd app]. eexists _, _. split; [reflexivity|].
          eapply ty_stops; [exact Hc2|exact Hcm|apply Z.le_refl]. }
      destruct Hnext as (t & r & Et & Hst).
      replace (((cm :: a1 :: l1) ++ flat_map argtoks rest) ++ rp :: tl)
        with (cm :: a1 :: l1 ++ t :: r)
        by (rewrite <- Et; cbn [app]; rewrite <- app_assoc; reflexivity).
      cbn [expr_list_loop]. rewrite peek_is_St, Hc. ev_goal. rewrite !next_St. unfold parse_expression.
      destruct (HT x a1 l1 t r Ea Hst) as (a' & E). rewrite E, <- Et.
      destruct (IH n (acc ++ [yexpr a]) x a' rp tl HF' ltac:(nlia) Hrpt) as (c' & E2).
      rewrite E2, <- app_assoc. eauto.
  Qed.

  Lemma climb_all : forall c, Climb c.
  Proof.
    apply ytree_size_ind. intros c IHc.
    destruct c as [t0|lp e rp|op e|e op|cl op cr|o d p|o lb e rb|fn lp first args rp|cl op cr];
      intros prec x a l t rest f Hw Hg Hy Hfol Hf;
      cbn [yyield well_grouped_y yright_ok fstopy ysize yexpr] in *.
    - (* atom *)
      injection Hy as <- <-. cbn [app].
      rewrite (EFc_S cfg Hei), (PPc_atom cfg Hid Hint) by assumption.
      exists f, t0. split; [nlia|reflexivity].
    - (* group *)
      bsplit. injection Hy as <- <-.
      destruct (yyield_cons e) as (a1 & l1 & Ee). rewrite Ee.
      replace (((a1 :: l1) ++ [rp]) ++ t :: rest) with (a1 :: l1 ++ rp :: t :: rest)
        by (cbn [app]; rewrite <- app_assoc; reflexivity).
      rewrite (EFc_S cfg Hei), (PPx_group cfg Hlp) by (apply Z.eqb_eq; assumption).
      destruct f as [|f']; [nlia|].
      assert (Hrps : stops P_LOWEST rp = true)
        by (eapply ty_stops; [apply Z.eqb_eq; eassumption|exact Hrp|apply Z.le_refl]).
      destruct (climb_top e f' (IHc e ltac:(nlia)) ltac:(assumption) ltac:(nlia) x a1 l1 rp (t :: rest) Ee Hrps)
        as (a1' & E1).
      rewrite E1, expect_St by (apply Z.eqb_eq; assumption). cbn [negb]. rewrite cur_St.
      exists (S f'), rp. split; [nlia|reflexivity].
    - (* prefix operator *)
      bsplit. injection Hy as <- <-.
      destruct (yyield_cons e) as (a1 & l1 & Ee). rewrite Ee. cbn [app].
      rewrite (EFc_S cfg Hei), PPx_pre by assumption.
      destruct f as [|f']; [nlia|].
      destruct (IHc e ltac:(nlia) P_UNARY x a1 l1 t rest f') as (m1 & a1' & Hm1 & E1);
        [assumption|assumption|exact Ee|assumption|nlia|].
      rewrite E1. destruct m1 as [|m1]; [nlia|]. rewrite RLx_stop by assumption.
      exists (S f'), a1'. split; [nlia|reflexivity].
    - (* postfix operator *)
      destruct (post_level cfg op) as [j|] eqn:Ej; [|discriminate]. bsplit.
      destruct (yyield_cons e) as (a1 & l1 & Ee). rewrite Ee in Hy. cbn [app] in Hy.
      injection Hy as <- <-.
      replace ((l1 ++ [op]) ++ t :: rest) with (l1 ++ op :: t :: rest)
        by (rewrite <- app_assoc; reflexivity).
      destruct (post_level_facts _ _ Ej) as [F1 _].
      destruct (IHc e ltac:(nlia) prec x a1 l1 op (t :: rest) f) as (m & a' & Hm & E1);
        [assumption|assumption|exact Ee| |nlia|].
      { eapply fstopy_spine; [assumption|eassumption|]. unfold stopsc. rewrite F1. zlia. }
      rewrite E1. destruct m as [|m]; [nlia|].
      rewrite (RLy_post _ _ _ _ _ _ _ _ j) by (assumption || (apply Z.ltb_lt; assumption)).
      exists m, op. split; [nlia|reflexivity].
    - (* binary operator *)
      destruct (op_level cfg (t_type op)) as [k|] eqn:Ek; [|discriminate]. bsplit.
      destruct (op_facts _ _ _ Ek) as (F1 & _).
      destruct (yyield_cons cl) as (a1 & l1 & El). destruct (yyield_cons cr) as (b & lr & Er).
      rewrite El, Er in Hy. cbn [app] in Hy. injection Hy as <- <-.
      replace ((l1 ++ op :: b :: lr) ++ t :: rest) with (l1 ++ op :: b :: lr ++ t :: rest)
        by (rewrite <- app_assoc; reflexivity).
      destruct (IHc cl ltac:(nlia) prec x a1 l1 op (b :: lr ++ t :: rest) f) as (m & a' & Hm & E1);
        [assumption|assumption|exact El| |nlia|].
      { eapply fstopy_spine; [assumption|eassumption|]. unfold stopsc. rewrite F1. zlia. }
      rewrite E1. destruct m as [|m]; [nlia|].
      rewrite (RLc_bin cfg _ _ _ _ _ _ _ _ _ k) by (assumption || (apply Z.ltb_lt; assumption)).
      destruct f as [|f']; [nlia|].
      destruct (IHc cr ltac:(nlia) k x b lr t rest f') as (m2 & b' & Hm2 & E2);
        [assumption|assumption|exact Er|assumption|nlia|].
      rewrite E2. destruct m2 as [|m2]; [nlia|]. rewrite RLx_stop by assumption.
      exists m, b'. split; [nlia|reflexivity].
    - (* member access *)
      bsplit.
      match goal with H : (t_type d =? _) = true |- _ => apply Z.eqb_eq in H; rename H into Hd end.
      match goal with H : infix_untouched _ _ = true |- _ => rename H into Hu end.
      assert (F1 : precedence_of cfg (t_type d) = P_MEMBER)
        by (rewrite Hd; destruct (untouched_facts _ Hu) as [F _]; rewrite F; reflexivity).
      destruct (yyield_cons o) as (a1 & l1 & El). destruct (yyield_cons p) as (b & lr & Er).
      rewrite El, Er in Hy. cbn [app] in Hy. injection Hy as <- <-.
      replace ((l1 ++ d :: b :: lr) ++ t :: rest) with (l1 ++ d :: b :: lr ++ t :: rest)
        by (rewrite <- app_assoc; reflexivity).
      destruct (IHc o ltac:(nlia) prec x a1 l1 d (b :: lr ++ t :: rest) f) as (m & a' & Hm & E1);
        [assumption|assumption|exact El| |nlia|].
      { eapply fstopy_spine; [assumption|eassumption|]. unfold stopsc. rewrite F1. zlia. }
      rewrite E1. destruct m as [|m]; [nlia|].
      rewrite RLy_member by (assumption || (apply Z.ltb_lt; assumption)).
      destruct f as [|f']; [nlia|].
      destruct (IHc p ltac:(nlia) P_MEMBER x b lr t rest f') as (m2 & b' & Hm2 & E2);
        [assumption|assumption|exact Er|assumption|nlia|].
      rewrite E2. destruct m2 as [|m2]; [nlia|]. rewrite RLx_stop by assumption.
      exists m, b'. split; [nlia|reflexivity].
    - (* index access *)
      bsplit.
      match goal with H : opens_ok _ _ _ = true |- _ => rename H into Ho end.
      assert (F1 : precedence_of cfg (t_type lb) = P_MEMBER).
      { unfold opens_ok in Ho. bsplit.
        match goal with H : (t_type lb =? _) = true |- _ => apply Z.eqb_eq in H; rewrite H end.
        match goal with H : infix_untouched _ _ = true |- _ => destruct (untouched_facts _ H) as [F _]; rewrite F end.
        reflexivity. }
      destruct (yyield_cons o) as (a1 & l1 & El). destruct (yyield_cons e) as (b & lr & Er).
      rewrite El, Er in Hy. cbn [app] in Hy. injection Hy as <- <-.
      replace ((l1 ++ lb :: b :: lr ++ [rb]) ++ t :: rest) with (l1 ++ lb :: b :: lr ++ rb :: t :: rest)
        by (rewrite <- app_assoc; cbn [app]; rewrite <- app_assoc; reflexivity).
      destruct (IHc o ltac:(nlia) prec x a1 l1 lb (b :: lr ++ rb :: t :: rest) f) as (m & a' & Hm & E1);
        [assumption|assumption|exact El| |nlia|].
      { eapply fstopy_spine; [assumption|eassumption|]. unfold stopsc. rewrite F1. zlia. }
      rewrite E1. destruct m as [|m]; [nlia|].
      rewrite RLy_index by (assumption || (apply Z.ltb_lt; assumption)).
      destruct f as [|f']; [nlia|].
      assert (Hrbs : stops P_LOWEST rb = true)
        by (eapply ty_stops; [apply Z.eqb_eq; eassumption|exact Hrb|apply Z.le_refl]).
      destruct (climb_top e f' (IHc e ltac:(nlia)) ltac:(assumption) ltac:(nlia) x b lr rb (t :: rest) Er Hrbs)
        as (b' & E2).
      rewrite E2, expect_St by (apply Z.eqb_eq; assumption). cbn [negb].
      exists m, rb. split; [nlia|reflexivity].
    - (* call *)
      bsplit.
      match goal with H : opens_ok _ _ _ = true |- _ => rename H into Ho end.
      match goal with H : (t_type rp =? _) = true |- _ => apply Z.eqb_eq in H; rename H into Hrpt end.
      match goal with H : forallb _ _ = true |- _ => rename H into Hall end.
      assert (F1 : precedence_of cfg (t_type lp) = P_CALL).
      { unfold opens_ok in Ho. bsplit.
        match goal with H : (t_type lp =? _) = true |- _ => apply Z.eqb_eq in H; rewrite H end.
        match goal with H : infix_untouched _ _ = true |- _ => destruct (untouched_facts _ H) as [F _]; rewrite F end.
        reflexivity. }
      destruct (yyield_cons fn) as (a1 & l1 & El). rewrite El in Hy. cbn [app] in Hy. injection Hy as <- <-.
      set (ft := match first with None => [] | Some a0 => yyield a0 end) in *.
      change (flat_map (fun p => fst p :: yyield (snd p)) args) with (flat_map argtoks args).
      replace ((l1 ++ lp :: ft ++ flat_map argtoks args ++ [rp]) ++ t :: rest)
        with (l1 ++ lp :: ft ++ flat_map argtoks args ++ rp :: t :: rest)
        by (rewrite <- app_assoc; cbn [app]; rewrite <- !app_assoc; reflexivity).
      destruct (IHc fn ltac:(nlia) prec x a1 l1 lp (ft ++ flat_map argtoks args ++ rp :: t :: rest) f)
        as (m & a' & Hm & E1); [assumption|assumption|exact El| |nlia|].
      { eapply fstopy_spine; [assumption|eassumption|]. unfold stopsc. rewrite F1. zlia. }
      rewrite E1. destruct m as [|m]; [nlia|].
      rewrite RLy_call by (assumption || (apply Z.ltb_lt; assumption)).
      unfold parse_expression_list. subst ft.
      destruct first as [a0|].
      + (* at least one argument *)
        destruct (yyield_cons a0) as (b & lr & Er). rewrite Er.
        destruct f as [|f']; [nlia|].
        assert (HF : Forall (fun p => t_type (fst p) = T_COMMA /\ Top f' (snd p)) args).
        { apply Forall_forall. intros q Hq. rewrite forallb_forall in Hall. specialize (Hall q Hq).
          bsplit. split; [apply Z.eqb_eq; assumption|].
          pose proof (size_in args q Hq).
          apply climb_top; [apply IHc; nlia|assumption|nlia]. }
        assert (Hnext : exists t1 r1, flat_map argtoks args ++ rp :: t :: rest = t1 :: r1 /\
                                      stops P_LOWEST t1 = true).
        { destruct args as [|[cm2 a2] args2].
          - exists rp, (t :: rest). split; [reflexivity|]. eapply ty_stops; [exact Hrpt|exact Hrp|apply Z.le_refl].
          - inversion HF as [|? ? [Hc2 _] _]; subst. cbn [fst] in Hc2.
            cbn [flat_map]. unfold argtoks at 1. cbn [fst snd app]. eexists _, _. split; [reflexivity|].
            eapply ty_stops; [exact Hc2|exact Hcm|apply Z.le_refl]. }
        destruct Hnext as (t1 & r1 & Et & Hst).
        replace ((b :: lr) ++ flat_map argtoks args ++ rp :: t :: rest) with (b :: lr ++ t1 :: r1)
          by (rewrite <- Et; reflexivity).
        rewrite peek_is_St.
        rewrite (start_not _ _ (first_toky a0 b lr ltac:(assumption) Er)) by reflexivity.
        rewrite next_St. unfold parse_expression.
        destruct (climb_top a0 f' (IHc a0 ltac:(nlia)) ltac:(assumption) ltac:(nlia) x b lr t1 r1 Er Hst)
          as (b' & E2).
        rewrite E2, <- Et.
        pose proof (size_len args) as Hlen.
        destruct (args_loop f' args (S f') [yexpr a0] x b' rp (t :: rest) HF ltac:(nlia) Hrpt) as (c' & E3).
        rewrite E3, expect_St by assumption.
        exists m, rp. split; [nlia|reflexivity].
      + (* no argument *)
        destruct args as [|? ?]; [|discriminate]. cbn [flat_map app map].
        rewrite peek_is_St, Hrpt, Z.eqb_refl, next_St.
        exists m, rp. split; [nlia|reflexivity].
    - (* assignment *)
      bsplit.
      match goal with H : assign_ok _ _ = true |- _ => rename H into Ha end.
      assert (F1 : precedence_of cfg (t_type op) = P_ASSIGNMENT).
      { unfold assign_ok in Ha. apply andb_true_iff in Ha as [Ht Hu].
        destruct (untouched_facts _ Hu) as [F _]. rewrite F.
        apply orb_true_iff in Ht as [Ht|Ht]; [apply orb_true_iff in Ht as [Ht|Ht]|];
          apply Z.eqb_eq in Ht; rewrite Ht; reflexivity. }
      destruct (yyield_cons cl) as (a1 & l1 & El). destruct (yyield_cons cr) as (b & lr & Er).
      rewrite El, Er in Hy. cbn [app] in Hy. injection Hy as <- <-.
      replace ((l1 ++ op :: b :: lr) ++ t :: rest) with (l1 ++ op :: b :: lr ++ t :: rest)
        by (rewrite <- app_assoc; reflexivity).
      destruct (IHc cl ltac:(nlia) prec x a1 l1 op (b :: lr ++ t :: rest) f) as (m & a' & Hm & E1);
        [assumption|assumption|exact El| |nlia|].
      { eapply fstopy_spine; [assumption|eassumption|]. unfold stopsc. rewrite F1. zlia. }
      rewrite E1. destruct m as [|m]; [nlia|].
      rewrite RLy_assign by (assumption || (apply Z.ltb_lt; assumption)).
      destruct f as [|f']; [nlia|].
      destruct (climb_top cr f' (IHc cr ltac:(nlia)) ltac:(assumption) ltac:(nlia) x b lr t rest Er ltac:(assumption))
        as (b' & E2).
      rewrite E2. exists m, b'. split; [nlia|reflexivity].
  Qed.

  (* ---------- the statement, the program ---------- *)

  Lemma stmt_ok_y c x a l semi eof f :
    well_grouped_y cfg c = true -> yyield c = a :: l -> semi_ok semi = true ->
    t_type eof = T_EOF -> precedence_of cfg T_EOF <= P_LOWEST -> (ysize c < f)%nat ->
    exists a', SFc (S (S f)) (St x a (l ++ semi ++ [eof])) = Some (SExpr (yexpr c), St x a' [eof]).
  Proof.
    intros Hw Hy Hs He Hpe Hf.
    rewrite (SFc_S cfg Hsi). unfold base_parse_statement. rewrite cur_St. cbv zeta.
    pose proof (first_toky c a l Hw Hy) as Hst.
    rewrite !(start_not _ _ Hst) by reflexivity.
    unfold parse_expression_statement, parse_expression.
    pose proof (climb_top c f (climb_all c) Hw Hf) as HT.
    destruct semi as [|ts [|? ?]]; cbn [semi_ok] in Hs; try discriminate; cbn [app].
    - destruct (HT x a l eof [] Hy) as (a' & E).
      { unfold stopsc. rewrite He. lia. }
      rewrite E. unfold expect_semicolon_asi, should_insert_semicolon. rewrite !peek_is_St, He.
      ev_goal. cbn [negb]. eauto.
    - apply Z.eqb_eq in Hs.
      destruct (HT x a l ts [eof] Hy) as (a' & E).
      { unfold stopsc. rewrite Hs. reflexivity. }
      rewrite E. unfold expect_semicolon_asi. rewrite !peek_is_St, Hs, next_St.
      ev_goal. cbn [negb]. eauto.
  Qed.

  Lemma program_ok_y c semi eof eof' fuel :
    well_grouped_y cfg c = true -> semi_ok semi = true ->
    t_type eof = T_EOF -> precedence_of cfg T_EOF <= P_LOWEST -> (ysize c + 3 <= fuel)%nat ->
    exists r, parse_program_from cfg fuel (ps_init (yyield c ++ semi ++ [eof]) eof') = Some r /\
              p_stmts (pr_program r) = [SExpr (yexpr c)] /\
              pr_errors r = [] /\ pr_err_returned r = false.
  Proof.
    intros Hw Hs He Hpe Hf.
    destruct (yyield_cons c) as (a & l & Hy). rewrite Hy. cbn [app]. rewrite ps_init_St.
    unfold parse_program_from.
    destruct fuel as [|[|f]]; try lia.
    destruct (stmt_ok_y c (x_init eof') a l semi eof f Hw Hy Hs He Hpe) as (a' & E); [lia|].
    rewrite program_loop_S, cur_is_St.
    rewrite (start_not _ _ (first_toky c a l Hw Hy)) by reflexivity.
    cbn [negb]. rewrite E. cbn [is_snil app]. rewrite next_St.
    rewrite program_loop_S, cur_is_St, He. ev_goal. cbn [negb].
    eexists. split; [reflexivity|]. cbn [pr_program pr_errors pr_err_returned p_stmts].
    rewrite errors_St. repeat split; reflexivity.
  Qed.
End ClimbY.


(* ---------- any configuration ---------- *)

Lemma yspine_ge_strip cfg k e : yspine_ge (strip_ics cfg) k e = yspine_ge cfg k e.
Proof. induction e; cbn [yspine_ge]; rewrite ?IHe, ?IHe1, ?IHe2; reflexivity. Qed.

Lemma yright_ok_strip cfg k e : yright_ok (strip_ics cfg) k e = yright_ok cfg k e.
Proof. induction e; cbn [yright_ok]; rewrite ?IHe, ?IHe1, ?IHe2; reflexivity. Qed.

Lemma forallb_ext_in {A} (f g : A -> bool) l : (forall p, In p l -> f p = g p) -> forallb f l = forallb g l.
Proof.
  induction l as [|q l IH]; intro H; cbn [forallb]; [reflexivity|].
  rewrite (H q (or_introl eq_refl)), IH; [reflexivity|]. intros p Hp. apply H. right. exact Hp.
Qed.

Lemma wgy_strip cfg : forall c, well_grouped_y (strip_ics cfg) c = well_grouped_y cfg c.
Proof.
  apply ytree_size_ind. intros c IH.
  destruct c as [t|lp e rp|op e|e op|cl op cr|o d p|o lb e rb|fn lp first rest rp|cl op cr];
    cbn [well_grouped_y]; cbn [ysize] in IH; rewrite ?yspine_ge_strip, ?yright_ok_strip.
  - reflexivity.
  - rewrite (IH e) by lia. reflexivity.
  - rewrite (IH e) by lia. reflexivity.
  - change (post_level (strip_ics cfg) op) with (post_level cfg op).
    destruct (post_level cfg op); [|reflexivity].
    rewrite yspine_ge_strip, (IH e) by lia. reflexivity.
  - change (op_level (strip_ics cfg) (t_type op)) with (op_level cfg (t_type op)).
    destruct (op_level cfg (t_type op)); [|reflexivity].
    rewrite yspine_ge_strip, yright_ok_strip, (IH cl), (IH cr) by lia. reflexivity.
  - rewrite (IH o), (IH p) by lia. reflexivity.
  - rewrite (IH o), (IH e) by lia. reflexivity.
  - rewrite (IH fn) by lia.
    replace (match first with None => match rest with [] => true | _ :: _ => false end
             | Some a => well_grouped_y (strip_ics cfg) a end)
      with (match first with None => match rest with [] => true | _ :: _ => false end
            | Some a => well_grouped_y cfg a end)
      by (destruct first as [a|]; [rewrite (IH a) by lia; reflexivity|reflexivity]).
    rewrite (forallb_ext_in _ (fun p => (t_type (fst p) =? T_COMMA) && well_grouped_y cfg (snd p))); [reflexivity|].
    intros q Hq. pose proof (size_in rest q Hq). rewrite (IH (snd q)) by lia. reflexivity.
  - rewrite (IH cl), (IH cr) by lia. reflexivity.
Qed.

Lemma parse_fuel_enough_y c semi eof :
  (ysize c + 3 <= parse_fuel (ystmt_tokens c semi eof))%nat.
Proof.
  unfold parse_fuel, ystmt_tokens. rewrite app_length. pose proof (yyield_length c). lia.
Qed.

Lemma groups_by_level_y : forall cfg c semi eof,
  cfg_ok_y cfg = true ->
  well_grouped_y cfg c = true -> semi_ok semi = true -> t_type eof = T_EOF ->
  exists r, parse_tokens cfg (ystmt_tokens c semi eof) = Some r /\
            p_stmts (pr_program r) = [SExpr (yexpr c)] /\
            pr_errors r = [] /\ pr_err_returned r = false.
Proof.
  intros cfg c semi eof Hc Hw Hs He.
  unfold cfg_ok_y, cfg_ok_x, cfg_ok in Hc. bsplit.
  repeat match goal with H : negb _ = true |- _ => apply negb_true_iff in H end.
  repeat match goal with H : (_ <=? _) = true |- _ => apply Z.leb_le in H end.
  rewrite <- wgy_strip in Hw.
  destruct (program_ok_y (strip_ics cfg) eq_refl eq_refl ltac:(assumption) ltac:(assumption)
              ltac:(assumption) ltac:(assumption) ltac:(assumption) ltac:(assumption) c semi eof
              (eof_again (last (ystmt_tokens c semi eof) zero_token))
              (parse_fuel (ystmt_tokens c semi eof)) Hw Hs He ltac:(assumption)
              (parse_fuel_enough_y c semi eof))
    as (r0 & Hr0 & P1 & P2 & P3).
  change (parse_tokens (strip_ics cfg) (ystmt_tokens c semi eof) = Some r0) in Hr0.
  pose proof (interceptors_transparent cfg (ystmt_tokens c semi eof)) as HT.
  rewrite Hr0 in HT. cbn [option_map] in HT.
  destruct (parse_tokens cfg (ystmt_tokens c semi eof)) as [r|]; [|discriminate].
  cbn [option_map] in HT. unfold core_of_result in HT.
  assert (Q1 : pr_program r = pr_program r0) by congruence.
  assert (Q2 : pr_errors r = pr_errors r0) by congruence.
  assert (Q3 : pr_err_returned r = pr_err_returned r0) by congruence.
  exists r. rewrite Q1, Q2, Q3. auto.
Qed.

Print Assumptions groups_by_level_y.

(* ---------- [cfg_ok_y] for every configuration a builder produces ---------- *)

Definition no_stop_op (o : bop) : Prop :=
  match o with
  | BRegInfix ty _ | BRegPostfix ty => ty <> T_EOF /\ ty <> T_RPAREN /\ ty <> T_RBRACKET /\ ty <> T_COMMA
  | _ => True
  end.

Definition reg_inv_y (b : pbuilder) : Prop :=
  reg_inv_x b /\
  memZ T_RBRACKET (pb_postfix_ops b) = false /\ assoc_opt (pb_infix_ops b) T_RBRACKET = None /\
  memZ T_COMMA (pb_postfix_ops b) = false /\ assoc_opt (pb_infix_ops b) T_COMMA = None.

Lemma reg_inv_y_new : reg_inv_y pbuilder_new.
Proof. split; [exact reg_inv_x_new|repeat split]. Qed.

Lemma no_stop_weaken o : no_stop_op o -> no_eof_rp_op o.
Proof. destruct o; cbn [no_stop_op no_eof_rp_op]; tauto. Qed.

Lemma reg_inv_y_step b o : no_stop_op o -> reg_inv_y b -> reg_inv_y (snd (pb_step b o)).
Proof.
  intros Ho (I0 & I1 & I2 & I3 & I4).
  split; [apply reg_inv_x_step; [apply no_stop_weaken; exact Ho|exact I0]|].
  destruct o as [ty|ty prec|ty| | | |]; cbn [pb_step no_stop_op] in *.
  - destruct (memZ ty (pb_prefix_set b)); cbn [snd]; repeat split; assumption.
  - destruct (memZ ty (pb_infix_set b)); cbn [snd]; [repeat split; assumption|].
    cbn [pb_postfix_ops pb_infix_ops]. destruct Ho as (_ & _ & N1 & N2).
    rewrite !assoc_opt_app_ne by congruence. repeat split; assumption.
  - destruct (memZ ty (pb_postfix_set b)); cbn [snd]; [repeat split; assumption|].
    cbn [pb_postfix_ops pb_infix_ops]. destruct Ho as (_ & _ & N1 & N2).
    rewrite !memZ_app_ne by congruence. repeat split; assumption.
  - repeat split; assumption.
  - repeat split; assumption.
  - repeat split; assumption.
  - repeat split; assumption.
Qed.

Lemma reg_inv_y_run ops : forall b, Forall no_stop_op ops -> reg_inv_y b -> reg_inv_y (snd (pb_run b ops)).
Proof.
  induction ops as [|o ops IH]; intros b HF Hb; [exact Hb|].
  inversion HF as [|? ? Ho HF']; subst. rewrite pb_run_cons.
  apply IH; [assumption|]. apply reg_inv_y_step; assumption.
Qed.

Lemma reg_inv_y_cfg_ok b : reg_inv_y b -> cfg_ok_y (pb_build b) = true.
Proof.
  intros (I0 & I1 & I2 & I3 & I4). unfold cfg_ok_y. rewrite (reg_inv_x_cfg_ok b I0).
  unfold precedence_of, pb_build. cbn [c_prefix_ops c_postfix_ops c_infix_ops].
  rewrite I1, I2, I3, I4. reflexivity.
Qed.

Lemma cfg_ok_y_reachable : forall ops,
  Forall (fun o => match o with
                   | BRegInfix ty _ | BRegPostfix ty =>
                       ty <> T_EOF /\ ty <> T_RPAREN /\ ty <> T_RBRACKET /\ ty <> T_COMMA
                   | _ => True end) ops ->
  cfg_ok_y (pb_build (snd (pb_run pbuilder_new ops))) = true.
Proof.
  intros ops HF. apply reg_inv_y_cfg_ok. apply reg_inv_y_run; [exact HF|exact reg_inv_y_new].
Qed.

Print Assumptions cfg_ok_y_reachable.
