(* C05, every level, second part: operator trees that also contain prefix operators (the
   built-in ! and -, registered prefix operators), registered postfix operators and
   parenthesised subtrees, next to infix operators of ANY level (built-in or registered).
   The grouping rules are those of a precedence grammar in which a prefix operator has the
   level of the built-in unary operators (9) and a registered postfix operator is a
   call-level suffix (11).  Specification only; theorem: Props/C05.v : C05_groups_by_level_x. *)
Require Import Base Token Tree Parser ClimbSpec.
Require Import Gen.Tables.

Inductive xtree :=
| XAtom (t : token)
| XGroup (lp : token) (e : xtree) (rp : token)
| XPre (op : token) (e : xtree)
| XPost (e : xtree) (op : token)
| XBin (l : xtree) (op : token) (r : xtree).

Fixpoint xyield (c : xtree) : list token :=
  match c with
  | XAtom t => [t]
  | XGroup lp e rp => lp :: xyield e ++ [rp]
  | XPre op e => op :: xyield e
  | XPost e op => xyield e ++ [op]
  | XBin l op r => xyield l ++ op :: xyield r
  end.

Fixpoint xexpr (c : xtree) : expr :=
  match c with
  | XAtom t => if t_type t =? T_IDENT then EIdent (mkident t (t_lit t)) else EInt t
  | XGroup lp e rp => EGroup lp (xexpr e) rp
  | XPre op e => EUnary op (t_lit op) (xexpr e)
  | XPost e op => EPostfix op (xexpr e) (t_lit op)
  | XBin l op r => EBinary op (xexpr l) (t_lit op) (xexpr r)
  end.

(* prefix operators: the built-in ! and -, or a registered one on a dynamic token type;
   postfix operators: registered on a dynamic token type *)
Definition pre_ok (cfg : pcfg) (ty : Z) : bool :=
  (ty =? T_NOT) || (ty =? T_MINUS) || (memZ ty (c_prefix_ops cfg) && (T_DYNAMIC_TOKENS_START <=? ty)).
Definition post_ok (cfg : pcfg) (ty : Z) : bool :=
  memZ ty (c_postfix_ops cfg) && (T_DYNAMIC_TOKENS_START <=? ty).

(* [spine_ge k e]: e can be the LEFT operand of an operator of level k: every operator on
   its right spine (the operators still "open" at its right end) has level >= k; a prefix
   operator counts as level 9; a postfix operator application is complete, like an atom *)
Fixpoint spine_ge (cfg : pcfg) (k : Z) (e : xtree) : bool :=
  match e with
  | XAtom _ | XGroup _ _ _ | XPost _ _ => true
  | XPre _ _ => k <=? P_UNARY
  | XBin _ op r =>
      match op_level cfg (t_type op) with
      | Some j => (k <=? j) && spine_ge cfg k r
      | None => false
      end
  end.

(* [right_ok k e]: e can be the operand to the RIGHT of an operator of level k (or of a
   prefix operator, k = 9): it starts with an atom, a group or a prefix operator, and every
   infix / postfix operator on its LEFT spine (the operators the loop running at level k
   applies one after another) has a level > k.  (For infix operators below an infix operator
   this follows from spine_ge; the recursion matters for a postfix application on the left
   spine when k >= 11: with @ at 11 and ^ at 12, `x @ a # ^ b` is `((x @ a) #) ^ b`, not
   `x @ ((a #) ^ b)`: ClimbProofs2.right_ok_root_only_wrong.) *)
Fixpoint right_ok (cfg : pcfg) (k : Z) (e : xtree) : bool :=
  match e with
  | XBin l op _ =>
      match op_level cfg (t_type op) with Some j => (k <? j) && right_ok cfg k l | None => false end
  | XPost e' _ => (k <? P_CALL) && right_ok cfg k e'
  | _ => true
  end.

Fixpoint well_grouped_x (cfg : pcfg) (c : xtree) : bool :=
  match c with
  | XAtom t => atom_ok t
  | XGroup lp e rp => (t_type lp =? T_LPAREN) && (t_type rp =? T_RPAREN) && well_grouped_x cfg e
  | XPre op e => pre_ok cfg (t_type op) && right_ok cfg P_UNARY e && well_grouped_x cfg e
  | XPost e op => post_ok cfg (t_type op) && spine_ge cfg P_CALL e && well_grouped_x cfg e
  | XBin l op r =>
      match op_level cfg (t_type op) with
      | None => false
      | Some k => (P_LOWEST <? k) && spine_ge cfg k l && right_ok cfg k r
                  && well_grouped_x cfg l && well_grouped_x cfg r
      end
  end.

Definition xstmt_tokens (c : xtree) (semi : list token) (eof : token) : list token :=
  xyield c ++ semi ++ [eof].

(* what the theorem needs of the configuration: the atoms' and the parenthesis' token
   types keep their built-in prefix role (the builder refuses a prefix registration on them),
   and neither the end of input nor a closing parenthesis continues the Pratt loop *)
Definition cfg_ok_x (cfg : pcfg) : bool :=
  cfg_ok cfg && negb (memZ T_LPAREN (c_prefix_ops cfg))
  && (precedence_of cfg T_RPAREN <=? P_LOWEST).
