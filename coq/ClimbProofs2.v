(* ClimbProofs2.v -- C05, every level, second part (ClimbSpec2.v): operator trees with prefix
   operators, registered postfix operators and parenthesised subtrees.  Same proof shape as
   ClimbProofs.v: total correctness with explicit fuel; parsing the tokens of a tree [c] at
   a level [prec] with [right_ok prec c] IS the Pratt loop at that level continued from
   [xexpr c] ([climbx]), provided the token that follows stops every loop still open at the
   right end of [c] ([fstop]). *)
From Coq Require Import ZifyBool ZifyN ZifyNat Lia.
Require Import Base GoOps Token Tree Parser Registry ParserSpec ClimbSpec ClimbSpec2.
Require Import InterceptProofs RenameProofs GrammarProofs ClimbProofs.
Require Import Gen.Tables.

Ltac bsplit :=
  repeat match goal with
  | H : andb _ _ = true |- _ => apply andb_true_iff in H; destruct H
  end.

(* lia in a small context (the contexts of the main induction are large) *)
Ltac nlia :=
  repeat match goal with
  | H : ?T |- _ =>
      lazymatch T with
      | (_ <= _)%nat => fail
      | (_ < _)%nat => fail
      | _ => clear H
      end
  end; lia.
Ltac zlia :=
  repeat match goal with
  | H : ?T |- _ =>
      lazymatch T with
      | (_ <? _) = true => fail
      | (_ <=? _) = true => fail
      | (_ < _)%Z => fail
      | (_ <= _)%Z => fail
      | _ => clear H
      end
  end; lia.

(* ---------- trees ---------- *)

Fixpoint xsize (c : xtree) : nat :=
  match c with
  | XAtom _ => O
  | XGroup _ e _ | XPre _ e | XPost e _ => S (xsize e)
  | XBin l _ r => S (xsize l + xsize r)
  end.

Lemma xyield_cons c : exists a l, xyield c = a :: l.
Proof.
  induction c as [t|lp e IH rp|op e IH|e [a [l1 IH]] op|cl [a [l1 IH]] op cr _]; cbn [xyield]; eauto.
  - rewrite IH. cbn [app]. eauto.
  - rewrite IH. cbn [app]. eauto.
Qed.

Lemma xyield_length c : (xsize c + 1 <= length (xyield c))%nat.
Proof.
  induction c; cbn [xyield xsize length]; rewrite ?app_length; cbn [length]; lia.
Qed.

Lemma xexpr_inj c1 : forall c2, xexpr c1 = xexpr c2 -> c1 = c2.
Proof.
  induction c1 as [t1|lp1 e1 IH rp1|op1 e1 IH|e1 IH op1|l1 IHl op1 r1 IHr];
    intros [t2|lp2 e2 rp2|op2 e2|e2 op2|l2 op2 r2] H; cbn [xexpr] in H;
    try (destruct (t_type t1 =? T_IDENT)); try (destruct (t_type t2 =? T_IDENT));
    try discriminate.
  - congruence.
  - congruence.
  - injection H as H1 H2 H3. apply IH in H2. congruence.
  - injection H as H1 _ H3. apply IH in H3. congruence.
  - injection H as H1 H2 _. apply IH in H2. congruence.
  - injection H as H1 H2 _ H4. apply IHl in H2. apply IHr in H4. congruence.
Qed.

(* ---------- the spec predicates only depend on the three classifications ---------- *)

Section Ext.
  Variables cfg1 cfg2 : pcfg.
  Hypothesis Hop : forall ty, op_level cfg1 ty = op_level cfg2 ty.
  Hypothesis Hpre : forall ty, pre_ok cfg1 ty = pre_ok cfg2 ty.
  Hypothesis Hpost : forall ty, post_ok cfg1 ty = post_ok cfg2 ty.

  Lemma spine_ge_ext k e : spine_ge cfg1 k e = spine_ge cfg2 k e.
  Proof.
    induction e as [t|lp e IH rp|op e IH|e IH op|l IHl op r IHr]; cbn [spine_ge]; try reflexivity.
    rewrite Hop, IHr. reflexivity.
  Qed.

  Lemma right_ok_ext k e : right_ok cfg1 k e = right_ok cfg2 k e.
  Proof.
    induction e as [t|lp e IH rp|op e IH|e IH op|l IHl op r IHr]; cbn [right_ok]; try reflexivity.
    - rewrite IH. reflexivity.
    - rewrite Hop, IHl. reflexivity.
  Qed.

  Lemma wgx_ext c : well_grouped_x cfg1 c = well_grouped_x cfg2 c.
  Proof.
    induction c as [t|lp e IH rp|op e IH|e IH op|l IHl op r IHr]; cbn [well_grouped_x]; try reflexivity.
    - rewrite IH. reflexivity.
    - rewrite Hpre, right_ok_ext, IH. reflexivity.
    - rewrite Hpost, spine_ge_ext, IH. reflexivity.
    - rewrite Hop, IHl, IHr. destruct (op_level cfg2 (t_type op)); [|reflexivity].
      rewrite spine_ge_ext, right_ok_ext. reflexivity.
  Qed.
End Ext.

(* ---------- the parser ---------- *)

Section ClimbX.
  Variable cfg : pcfg.

  Notation SFc f := (stmt_fn cfg f).
  Notation EFc f := (expr_fn cfg f).
  Notation RLc f n := (remaining_loop cfg (expr_fn cfg f) f n).
  Notation PPc f := (parse_prefix_expression cfg (stmt_fn cfg f) (expr_fn cfg f) f).
  Notation stops := (stopsc cfg).

  Lemma stops_mono a b t : a <= b -> stops a t = true -> stops b t = true.
  Proof. unfold stopsc. intros Hab H. lia. Qed.

  Lemma RLx_stop f n left prec x c t l : stops prec t = true ->
    RLc f (S n) left prec (St x c (t :: l)) = Some (left, St x c (t :: l)).
  Proof.
    intro H. cbn [remaining_loop]. unfold peek_precedence. rewrite !peek_is_St, peek_St.
    unfold stopsc in H.
    destruct (t_type t =? T_SEMICOLON); [reflexivity|]. cbn [negb andb orb] in *.
    replace (prec <? precedence_of cfg (t_type t)) with false by lia. reflexivity.
  Qed.

  Lemma dyn_neq ty c : (T_DYNAMIC_TOKENS_START <=? ty) = true ->
    (T_DYNAMIC_TOKENS_START <=? c) = false -> (ty =? c) = false.
  Proof. intros H1 H2. apply Z.eqb_neq. intro E. subst. congruence. Qed.

  Lemma post_facts ty : post_ok cfg ty = true ->
    precedence_of cfg ty = P_CALL /\ infix_lookup cfg ty = Some IK_Postfix.
  Proof.
    unfold post_ok, precedence_of, infix_lookup. intro H. bsplit.
    match goal with H : memZ _ _ = true |- _ => rewrite H end. split; reflexivity.
  Qed.

  (* one postfix step of the loop *)
  Lemma RLx_post f n left prec x c t0 l :
    post_ok cfg (t_type t0) = true -> prec < P_CALL ->
    RLc f (S n) left prec (St x c (t0 :: l)) = RLc f n (EPostfix t0 left (t_lit t0)) prec (St x t0 l).
  Proof.
    intros Hpo Hp. destruct (post_facts _ Hpo) as [F1 F2].
    unfold post_ok in Hpo. apply andb_true_iff in Hpo as [_ Hd].
    cbn [remaining_loop]. unfold peek_precedence, parse_infix_expression.
    rewrite !peek_is_St, peek_St, next_St, F1, F2.
    rewrite !(dyn_neq _ _ Hd) by reflexivity.
    apply Z.ltb_lt in Hp. rewrite Hp. cbn [negb andb orb]. rewrite !andb_false_r.
    rewrite cur_St. reflexivity.
  Qed.

  (* a prefix operator *)
  Lemma PPx_pre f x op c2 l : pre_ok cfg (t_type op) = true ->
    PPc f (St x op (c2 :: l)) =
    (do (r, s1) <- EFc f P_UNARY (St x c2 l); Some (EUnary op (t_lit op) r, s1)).
  Proof.
    intro H. unfold parse_prefix_expression. rewrite cur_St. cbv zeta.
    assert (HU : parse_unary_expression (EFc f) (St x op (c2 :: l)) =
                 (do (r, s1) <- EFc f P_UNARY (St x c2 l); Some (EUnary op (t_lit op) r, s1))).
    { unfold parse_unary_expression. rewrite cur_St, next_St. reflexivity. }
    destruct (memZ (t_type op) (c_prefix_ops cfg)) eqn:E; [exact HU|].
    unfold pre_ok in H. rewrite E in H. cbn [andb] in H. rewrite orb_false_r in H.
    apply orb_true_iff in H as [H|H]; apply Z.eqb_eq in H; rewrite H.
    - change (assoc_opt prefix_table T_NOT) with (Some PH_ParseUnaryExpression).
      cbn [prefix_handler_run]. exact HU.
    - change (assoc_opt prefix_table T_MINUS) with (Some PH_ParseUnaryExpression).
      cbn [prefix_handler_run]. exact HU.
  Qed.

  Hypothesis Hsi : c_stmt_ics cfg = [].
  Hypothesis Hei : c_expr_ics cfg = [].
  Hypothesis Hid : memZ T_IDENT (c_prefix_ops cfg) = false.
  Hypothesis Hint : memZ T_INT (c_prefix_ops cfg) = false.
  Hypothesis Hlp : memZ T_LPAREN (c_prefix_ops cfg) = false.
  Hypothesis Hrp : precedence_of cfg T_RPAREN <= P_LOWEST.

  (* a parenthesised expression *)
  Lemma PPx_group f x lp c2 l : t_type lp = T_LPAREN ->
    PPc f (St x lp (c2 :: l)) =
    (do (e, s1) <- EFc f P_LOWEST (St x c2 l);
     let '(ok, s2) := expect s1 T_RPAREN in
     if negb ok then Some (ENil, s2) else Some (EGroup lp e (ps_cur s2), s2)).
  Proof.
    intro H. unfold parse_prefix_expression. rewrite cur_St. cbv zeta. rewrite H, Hlp.
    change (assoc_opt prefix_table T_LPAREN) with (Some PH_ParseGroupedExpression).
    cbn [prefix_handler_run]. unfold parse_grouped_expression, parse_expression.
    rewrite cur_St, next_St. reflexivity.
  Qed.

  (* ---------- the follow condition ---------- *)

  (* [t] stops every loop that is still running at the right end of [c] *)
  Fixpoint fstop (c : xtree) (t : token) : bool :=
    match c with
    | XAtom _ | XGroup _ _ _ | XPost _ _ => true
    | XPre _ e => stops P_UNARY t && fstop e t
    | XBin _ op r =>
        match op_level cfg (t_type op) with
        | Some k => stops k t && fstop r t
        | None => false
        end
    end.

  Lemma right_ok_mono e : forall k k', k <= k' -> right_ok cfg k' e = true -> right_ok cfg k e = true.
  Proof.
    induction e as [t|lp e IH rp|op e IH|e IH op|l IHl op r IHr]; intros k k' Hk H;
      cbn [right_ok] in *; try reflexivity.
    - bsplit. apply andb_true_iff. split; [lia|eauto].
    - destruct (op_level cfg (t_type op)); [|discriminate]. bsplit.
      apply andb_true_iff. split; [lia|eauto].
  Qed.

  Lemma wg_right_low e : well_grouped_x cfg e = true -> right_ok cfg P_LOWEST e = true.
  Proof.
    induction e as [t|lp e IH rp|op e IH|e IH op|l IHl op r IHr]; intro H;
      cbn [right_ok well_grouped_x] in *; try reflexivity.
    - bsplit. apply andb_true_iff. split; [reflexivity|auto].
    - destruct (op_level cfg (t_type op)); [|discriminate]. bsplit.
      apply andb_true_iff. split; [assumption|auto].
  Qed.

  Lemma fstop_right e : forall k t, k <= P_UNARY -> well_grouped_x cfg e = true ->
    right_ok cfg k e = true -> stops k t = true -> fstop e t = true.
  Proof.
    induction e as [t0|lp e IH rp|op e IH|e IH op|l IHl op r IHr]; intros k t Hk Hw Hr Hs;
      cbn [right_ok well_grouped_x fstop] in *; try reflexivity.
    - bsplit. apply andb_true_iff. split.
      + eapply stops_mono; [|exact Hs]. exact Hk.
      + eapply IH; [exact Hk|assumption| |exact Hs]. eapply right_ok_mono; [exact Hk|assumption].
    - destruct (op_level cfg (t_type op)) as [j|]; [|discriminate]. bsplit.
      apply andb_true_iff. split.
      + eapply stops_mono; [|exact Hs]. lia.
      + eapply IHr; [exact Hk|assumption| |exact Hs].
        eapply right_ok_mono; [|eassumption]. lia.
  Qed.

  Lemma fstop_spine e : forall k t, well_grouped_x cfg e = true ->
    spine_ge cfg k e = true -> stops k t = true -> fstop e t = true.
  Proof.
    induction e as [t0|lp e IH rp|op e IH|e IH op|l IHl op r IHr]; intros k t Hw Hg Hs;
      cbn [spine_ge well_grouped_x fstop] in *; try reflexivity.
    - bsplit. apply Z.leb_le in Hg. apply andb_true_iff. split.
      + eapply stops_mono; [|exact Hs]. exact Hg.
      + eapply fstop_right; [exact Hg|assumption| |exact Hs].
        eapply right_ok_mono; [exact Hg|assumption].
    - destruct (op_level cfg (t_type op)) as [j|]; [|discriminate]. bsplit.
      apply andb_true_iff. split.
      + eapply stops_mono; [|exact Hs]. lia.
      + eapply IHr; eassumption.
  Qed.

  Lemma rp_stops rp k : t_type rp = T_RPAREN -> P_LOWEST <= k -> stops k rp = true.
  Proof. intros H Hk. unfold stopsc. rewrite H. lia. Qed.

  (* ---------- the key lemma ---------- *)

  Lemma climbx c : forall prec x a l t rest f,
    well_grouped_x cfg c = true -> right_ok cfg prec c = true -> xyield c = a :: l ->
    fstop c t = true -> (xsize c < f)%nat ->
    exists m a', (f <= m + xsize c)%nat /\
      EFc (S f) prec (St x a (l ++ t :: rest)) = RLc f m (xexpr c) prec (St x a' (t :: rest)).
  Proof.
    induction c as [t0|lp e IH rp|op e IH|e IH op|cl IHl op cr IHr];
      intros prec x a l t rest f Hw Hg Hy Hfol Hf;
      cbn [xyield well_grouped_x right_ok fstop xsize xexpr] in *.
    - (* atom *)
      injection Hy as <- <-. cbn [app].
      rewrite (EFc_S cfg Hei), (PPc_atom cfg Hid Hint) by assumption.
      exists f, t0. split; [nlia|reflexivity].
    - (* group *)
      bsplit. injection Hy as <- <-.
      destruct (xyield_cons e) as (a1 & l1 & Ee). rewrite Ee.
      replace (((a1 :: l1) ++ [rp]) ++ t :: rest) with (a1 :: l1 ++ rp :: t :: rest)
        by (cbn [app]; rewrite <- app_assoc; reflexivity).
      rewrite (EFc_S cfg Hei), PPx_group by (apply Z.eqb_eq; assumption).
      destruct f as [|f']; [nlia|].
      assert (Hrps : stops P_LOWEST rp = true) by (apply rp_stops; [apply Z.eqb_eq; assumption|apply Z.le_refl]).
      destruct (IH P_LOWEST x a1 l1 rp (t :: rest) f') as (m1 & a1' & Hm1 & E1);
        [assumption|apply wg_right_low; assumption|exact Ee| |nlia|].
      { eapply fstop_right; [|eassumption|apply wg_right_low; assumption|exact Hrps].
        unfold P_LOWEST, P_UNARY. lia. }
      rewrite E1. destruct m1 as [|m1]; [nlia|]. rewrite RLx_stop by assumption.
      rewrite expect_St by (apply Z.eqb_eq; assumption). cbn [negb]. rewrite cur_St.
      exists (S f'), rp. split; [nlia|reflexivity].
    - (* prefix operator *)
      bsplit. injection Hy as <- <-.
      destruct (xyield_cons e) as (a1 & l1 & Ee). rewrite Ee. cbn [app].
      rewrite (EFc_S cfg Hei), PPx_pre by assumption.
      destruct f as [|f']; [nlia|].
      destruct (IH P_UNARY x a1 l1 t rest f') as (m1 & a1' & Hm1 & E1);
        [assumption|assumption|exact Ee|assumption|nlia|].
      rewrite E1. destruct m1 as [|m1]; [nlia|]. rewrite RLx_stop by assumption.
      exists (S f'), a1'. split; [nlia|reflexivity].
    - (* postfix operator *)
      bsplit.
      destruct (xyield_cons e) as (a1 & l1 & Ee). rewrite Ee in Hy. cbn [app] in Hy.
      injection Hy as <- <-.
      replace ((l1 ++ [op]) ++ t :: rest) with (l1 ++ op :: t :: rest)
        by (rewrite <- app_assoc; reflexivity).
      destruct (post_facts _ ltac:(eassumption)) as [F1 _].
      destruct (IH prec x a1 l1 op (t :: rest) f) as (m & a' & Hm & E1);
        [assumption|assumption|exact Ee| |nlia|].
      { eapply fstop_spine; [assumption|eassumption|]. unfold stopsc. rewrite F1. zlia. }
      rewrite E1. destruct m as [|m]; [nlia|].
      rewrite RLx_post by (assumption || (apply Z.ltb_lt; assumption) || lia).
      exists m, op. split; [nlia|reflexivity].
    - (* binary operator *)
      destruct (op_level cfg (t_type op)) as [k|] eqn:Ek; [|discriminate]. bsplit.
      destruct (op_facts _ _ _ Ek) as (F1 & _).
      destruct (xyield_cons cl) as (a1 & l1 & El). destruct (xyield_cons cr) as (b & lr & Er).
      rewrite El, Er in Hy. cbn [app] in Hy. injection Hy as <- <-.
      replace ((l1 ++ op :: b :: lr) ++ t :: rest) with (l1 ++ op :: b :: lr ++ t :: rest)
        by (rewrite <- app_assoc; reflexivity).
      destruct (IHl prec x a1 l1 op (b :: lr ++ t :: rest) f) as (m & a' & Hm & E1);
        [assumption|assumption|exact El| |nlia|].
      { eapply fstop_spine; [assumption|eassumption|]. unfold stopsc. rewrite F1. zlia. }
      rewrite E1. destruct m as [|m]; [nlia|].
      rewrite (RLc_bin cfg _ _ _ _ _ _ _ _ _ k) by (assumption || (apply Z.ltb_lt; assumption) || lia).
      destruct f as [|f']; [nlia|].
      destruct (IHr k x b lr t rest f') as (m2 & b' & Hm2 & E2);
        [assumption|assumption|exact Er|assumption|nlia|].
      rewrite E2. destruct m2 as [|m2]; [nlia|]. rewrite RLx_stop by assumption.
      exists m, b'. split; [nlia|reflexivity].
  Qed.

  Lemma expr_top_x c x a l t rest f :
    well_grouped_x cfg c = true -> xyield c = a :: l -> stops P_LOWEST t = true -> (xsize c < f)%nat ->
    exists a', EFc (S f) P_LOWEST (St x a (l ++ t :: rest)) = Some (xexpr c, St x a' (t :: rest)).
  Proof.
    intros Hw Hy Hst Hf.
    destruct (climbx c P_LOWEST x a l t rest f Hw (wg_right_low c Hw) Hy) as (m & a' & Hm & E);
      [|assumption|].
    { eapply fstop_right; [|exact Hw|apply wg_right_low; exact Hw|exact Hst].
      unfold P_LOWEST, P_UNARY. lia. }
    rewrite E. destruct m as [|m]; [nlia|]. rewrite RLx_stop by assumption. eauto.
  Qed.

  (* ---------- the statement, the program ---------- *)

  Definition start_ok (ty : Z) : bool :=
    (ty =? T_IDENT) || (ty =? T_INT) || (ty =? T_LPAREN) || (ty =? T_NOT) || (ty =? T_MINUS)
    || (T_DYNAMIC_TOKENS_START <=? ty).

  Lemma first_tok c : forall a l, well_grouped_x cfg c = true -> xyield c = a :: l ->
    start_ok (t_type a) = true.
  Proof.
    induction c as [t0|lp e IH rp|op e IH|e IH op|cl IHl op cr IHr]; intros a l Hw Hy;
      cbn [xyield well_grouped_x] in *.
    - injection Hy as <- _. unfold atom_ok in Hw. unfold start_ok. lia.
    - injection Hy as <- _. bsplit. unfold start_ok. lia.
    - injection Hy as <- _. bsplit. unfold pre_ok in *. unfold start_ok. lia.
    - bsplit. destruct (xyield_cons e) as (a1 & l1 & E). rewrite E in Hy. cbn [app] in Hy.
      injection Hy as <- _. eapply IH; eauto.
    - destruct (op_level cfg (t_type op)); [|discriminate]. bsplit.
      destruct (xyield_cons cl) as (a1 & l1 & E). rewrite E in Hy. cbn [app] in Hy.
      injection Hy as <- _. eapply IHl; eauto.
  Qed.

  Lemma start_not ty c : start_ok ty = true -> start_ok c = false -> (ty =? c) = false.
  Proof. intros H1 H2. apply Z.eqb_neq. intro E. subst. congruence. Qed.

  Lemma stmt_ok_x c x a l semi eof f :
    well_grouped_x cfg c = true -> xyield c = a :: l -> semi_ok semi = true ->
    t_type eof = T_EOF -> precedence_of cfg T_EOF <= P_LOWEST -> (xsize c < f)%nat ->
    exists a', SFc (S (S f)) (St x a (l ++ semi ++ [eof])) = Some (SExpr (xexpr c), St x a' [eof]).
  Proof.
    intros Hw Hy Hs He Hpe Hf.
    rewrite (SFc_S cfg Hsi). unfold base_parse_statement. rewrite cur_St. cbv zeta.
    pose proof (first_tok c a l Hw Hy) as Hst.
    rewrite !(start_not _ _ Hst) by reflexivity.
    unfold parse_expression_statement, parse_expression.
    destruct semi as [|ts [|? ?]]; cbn [semi_ok] in Hs; try discriminate; cbn [app].
    - destruct (expr_top_x c x a l eof [] f Hw Hy) as (a' & E); [|assumption|].
      { unfold stopsc. rewrite He. lia. }
      rewrite E. unfold expect_semicolon_asi, should_insert_semicolon. rewrite !peek_is_St, He.
      ev_goal. cbn [negb]. eauto.
    - apply Z.eqb_eq in Hs.
      destruct (expr_top_x c x a l ts [eof] f Hw Hy) as (a' & E); [|assumption|].
      { unfold stopsc. rewrite Hs. reflexivity. }
      rewrite E. unfold expect_semicolon_asi. rewrite !peek_is_St, Hs, next_St.
      ev_goal. cbn [negb]. eauto.
  Qed.

  Lemma program_ok_x c semi eof eof' fuel :
    well_grouped_x cfg c = true -> semi_ok semi = true ->
    t_type eof = T_EOF -> precedence_of cfg T_EOF <= P_LOWEST -> (xsize c + 3 <= fuel)%nat ->
    exists r, parse_program_from cfg fuel (ps_init (xyield c ++ semi ++ [eof]) eof') = Some r /\
              p_stmts (pr_program r) = [SExpr (xexpr c)] /\
              pr_errors r = [] /\ pr_err_returned r = false.
  Proof.
    intros Hw Hs He Hpe Hf.
    destruct (xyield_cons c) as (a & l & Hy). rewrite Hy. cbn [app]. rewrite ps_init_St.
    unfold parse_program_from.
    destruct fuel as [|[|f]]; try lia.
    destruct (stmt_ok_x c (x_init eof') a l semi eof f Hw Hy Hs He Hpe) as (a' & E); [lia|].
    rewrite program_loop_S, cur_is_St.
    rewrite (start_not _ _ (first_tok c a l Hw Hy)) by reflexivity.
    cbn [negb]. rewrite E. cbn [is_snil app]. rewrite next_St.
    rewrite program_loop_S, cur_is_St, He. ev_goal. cbn [negb].
    eexists. split; [reflexivity|]. cbn [pr_program pr_errors pr_err_returned p_stmts].
    rewrite errors_St. repeat split; reflexivity.
  Qed.
End ClimbX.

(* ---------- any configuration ---------- *)

Lemma wgx_strip cfg c : well_grouped_x (strip_ics cfg) c = well_grouped_x cfg c.
Proof. apply wgx_ext; reflexivity. Qed.

Lemma parse_fuel_enough_x c semi eof :
  (xsize c + 3 <= parse_fuel (xstmt_tokens c semi eof))%nat.
Proof.
  unfold parse_fuel, xstmt_tokens. rewrite app_length. pose proof (xyield_length c). lia.
Qed.

Lemma groups_by_level_x : forall cfg c semi eof,
  cfg_ok_x cfg = true ->
  well_grouped_x cfg c = true -> semi_ok semi = true -> t_type eof = T_EOF ->
  exists r, parse_tokens cfg (xstmt_tokens c semi eof) = Some r /\
            p_stmts (pr_program r) = [SExpr (xexpr c)] /\
            pr_errors r = [] /\ pr_err_returned r = false.
Proof.
  intros cfg c semi eof Hc Hw Hs He.
  unfold cfg_ok_x, cfg_ok in Hc. bsplit.
  repeat match goal with H : negb _ = true |- _ => apply negb_true_iff in H end.
  repeat match goal with H : (_ <=? _) = true |- _ => apply Z.leb_le in H end.
  rewrite <- wgx_strip in Hw.
  destruct (program_ok_x (strip_ics cfg) eq_refl eq_refl ltac:(assumption) ltac:(assumption)
              ltac:(assumption) ltac:(assumption) c semi eof
              (eof_again (last (xstmt_tokens c semi eof) zero_token))
              (parse_fuel (xstmt_tokens c semi eof)) Hw Hs He ltac:(assumption)
              (parse_fuel_enough_x c semi eof))
    as (r0 & Hr0 & P1 & P2 & P3).
  change (parse_tokens (strip_ics cfg) (xstmt_tokens c semi eof) = Some r0) in Hr0.
  pose proof (interceptors_transparent cfg (xstmt_tokens c semi eof)) as HT.
  rewrite Hr0 in HT. cbn [option_map] in HT.
  destruct (parse_tokens cfg (xstmt_tokens c semi eof)) as [r|]; [|discriminate].
  cbn [option_map] in HT. unfold core_of_result in HT.
  assert (Q1 : pr_program r = pr_program r0) by congruence.
  assert (Q2 : pr_errors r = pr_errors r0) by congruence.
  assert (Q3 : pr_err_returned r = pr_err_returned r0) by congruence.
  exists r. rewrite Q1, Q2, Q3. auto.
Qed.

Print Assumptions groups_by_level_x.

(* ---------- the left-spine recursion of [right_ok] is necessary ---------- *)

(* with infix @ at level 11, infix ^ at level 12 and a postfix #: the tokens x @ a # ^ b
   are ((x @ a) #) ^ b; the tree x @ ((a #) ^ b) satisfies every condition of
   well_grouped_x except the left-spine check of right_ok (a # is on the left spine of the
   right operand of @, and P_CALL = 11 is not above the level 11 of @) *)
Definition rx_cfg : pcfg := mkpcfg false false [] [] [] [(1000, 11); (1001, 12)] [1002].
Definition rx_x : token := cx_tok T_IDENT [120%N].
Definition rx_b : token := cx_tok T_IDENT [98%N].
Definition rx_at : token := cx_tok 1000 [64%N].
Definition rx_hat : token := cx_tok 1001 [94%N].
Definition rx_hash : token := cx_tok 1002 [35%N].
Definition rx_A : xtree := XBin (XPost (XBin (XAtom rx_x) rx_at (XAtom cx_a)) rx_hash) rx_hat (XAtom rx_b).
Definition rx_B : xtree := XBin (XAtom rx_x) rx_at (XBin (XPost (XAtom cx_a) rx_hash) rx_hat (XAtom rx_b)).

Lemma right_ok_root_only_wrong :
  cfg_ok_x rx_cfg = true /\ xyield rx_A = xyield rx_B /\
  well_grouped_x rx_cfg rx_A = true /\ well_grouped_x rx_cfg rx_B = false /\
  (* B fails only through the left-spine check *)
  right_ok rx_cfg 11 (XBin (XPost (XAtom cx_a) rx_hash) rx_hat (XAtom rx_b)) = false /\
  option_map (fun r => (p_stmts (pr_program r), pr_errors r))
    (parse_tokens rx_cfg (xstmt_tokens rx_B [cx_semi] cx_eof)) = Some ([SExpr (xexpr rx_A)], []).
Proof. vm_compute. repeat split; reflexivity. Qed.

(* ---------- [cfg_ok_x] for every configuration a builder produces ---------- *)

Definition no_eof_rp_op (o : bop) : Prop :=
  match o with BRegInfix ty _ | BRegPostfix ty => ty <> T_EOF /\ ty <> T_RPAREN | _ => True end.

Definition reg_inv_x (b : pbuilder) : Prop :=
  reg_inv b /\
  memZ T_LPAREN (pb_prefix_set b) = true /\ memZ T_LPAREN (pb_prefix_ops b) = false /\
  memZ T_RPAREN (pb_postfix_ops b) = false /\ assoc_opt (pb_infix_ops b) T_RPAREN = None.

Lemma reg_inv_x_new : reg_inv_x pbuilder_new.
Proof. split; [exact reg_inv_new|repeat split]. Qed.

Lemma no_eof_rp_weaken o : no_eof_rp_op o -> no_eof_op o.
Proof. destruct o; cbn [no_eof_rp_op no_eof_op]; tauto. Qed.

Lemma reg_inv_x_step b o : no_eof_rp_op o -> reg_inv_x b -> reg_inv_x (snd (pb_step b o)).
Proof.
  intros Ho (I0 & I1 & I2 & I3 & I4).
  split; [apply reg_inv_step; [apply no_eof_rp_weaken; exact Ho|exact I0]|].
  destruct o as [ty|ty prec|ty| | | |]; cbn [pb_step no_eof_rp_op] in *.
  - destruct (memZ ty (pb_prefix_set b)) eqn:E; cbn [snd]; [repeat split; assumption|].
    assert (N1 : T_LPAREN <> ty) by (intros <-; congruence).
    cbn [pb_prefix_set pb_prefix_ops pb_postfix_ops pb_infix_ops memZ].
    rewrite I1, memZ_app_ne, orb_true_r by assumption. repeat split; assumption.
  - destruct (memZ ty (pb_infix_set b)); cbn [snd]; [repeat split; assumption|].
    cbn [pb_prefix_set pb_prefix_ops pb_postfix_ops pb_infix_ops].
    rewrite assoc_opt_app_ne by (intro; apply (proj2 Ho); congruence). repeat split; assumption.
  - destruct (memZ ty (pb_postfix_set b)); cbn [snd]; [repeat split; assumption|].
    cbn [pb_prefix_set pb_prefix_ops pb_postfix_ops pb_infix_ops].
    rewrite memZ_app_ne by (intro; apply (proj2 Ho); congruence). repeat split; assumption.
  - repeat split; assumption.
  - repeat split; assumption.
  - repeat split; assumption.
  - repeat split; assumption.
Qed.

Lemma reg_inv_x_run ops : forall b, Forall no_eof_rp_op ops -> reg_inv_x b -> reg_inv_x (snd (pb_run b ops)).
Proof.
  induction ops as [|o ops IH]; intros b HF Hb; [exact Hb|].
  inversion HF as [|? ? Ho HF']; subst. rewrite pb_run_cons.
  apply IH; [assumption|]. apply reg_inv_x_step; assumption.
Qed.

Lemma reg_inv_x_cfg_ok b : reg_inv_x b -> cfg_ok_x (pb_build b) = true.
Proof.
  intros (I0 & _ & I2 & I3 & I4). unfold cfg_ok_x. rewrite (reg_inv_cfg_ok b I0).
  unfold precedence_of, pb_build. cbn [c_prefix_ops c_postfix_ops c_infix_ops].
  rewrite I2, I3, I4. reflexivity.
Qed.

Lemma cfg_ok_x_reachable : forall ops,
  Forall (fun o => match o with
                   | BRegInfix ty _ | BRegPostfix ty => ty <> T_EOF /\ ty <> T_RPAREN
                   | _ => True end) ops ->
  cfg_ok_x (pb_build (snd (pb_run pbuilder_new ops))) = true.
Proof.
  intros ops HF. apply reg_inv_x_cfg_ok. apply reg_inv_x_run; [exact HF|exact reg_inv_x_new].
Qed.

Print Assumptions cfg_ok_x_reachable.

(* ---------- uniqueness of the grouping ---------- *)

(* the same operators; no prefix operator on the atoms' types or the parenthesis, nothing
   registered on the closing parenthesis, no interceptors *)
Definition unshadow_x (cfg : pcfg) : pcfg :=
  mkpcfg (c_tolerant cfg) (c_smart cfg) [] []
         (filter (fun ty => negb ((ty =? T_IDENT) || (ty =? T_INT) || (ty =? T_LPAREN))) (c_prefix_ops cfg))
         (filter (fun p => negb (fst p =? T_RPAREN)) (c_infix_ops cfg))
         (filter (fun ty => negb (ty =? T_RPAREN)) (c_postfix_ops cfg)).

Lemma assoc_opt_filter {B} (l : list (Z * B)) c k :
  assoc_opt (filter (fun p => negb (fst p =? c)) l) k = if k =? c then None else assoc_opt l k.
Proof.
  induction l as [|[k' v] l IH]; cbn [filter assoc_opt fst]; [destruct (k =? c); reflexivity|].
  destruct (k' =? c) eqn:E1; cbn [negb assoc_opt]; rewrite IH.
  - apply Z.eqb_eq in E1. destruct (k =? c) eqn:E2; [reflexivity|].
    replace (k =? k') with false by lia. reflexivity.
  - destruct (k =? k') eqn:E2; [|reflexivity].
    replace (k =? c) with false by lia. reflexivity.
Qed.

(* a built-in token type that is not a binary operator never has an operator level *)
Lemma op_level_small cfg ty : (T_DYNAMIC_TOKENS_START <=? ty) = false ->
  builtin_binary_level ty = None -> op_level cfg ty = None.
Proof.
  intros H1 H2. unfold op_level. rewrite H1, H2.
  destruct (memZ ty (c_postfix_ops cfg) || memZ ty (c_prefix_ops cfg)); [reflexivity|].
  destruct (assoc_opt (c_infix_ops cfg) ty); reflexivity.
Qed.

Lemma op_level_unshadow_x cfg ty : op_level (unshadow_x cfg) ty = op_level cfg ty.
Proof.
  destruct (Z.eqb_spec ty T_IDENT) as [->|N1]; [rewrite !op_level_small by reflexivity; reflexivity|].
  destruct (Z.eqb_spec ty T_INT) as [->|N2]; [rewrite !op_level_small by reflexivity; reflexivity|].
  destruct (Z.eqb_spec ty T_LPAREN) as [->|N3]; [rewrite !op_level_small by reflexivity; reflexivity|].
  destruct (Z.eqb_spec ty T_RPAREN) as [->|N4]; [rewrite !op_level_small by reflexivity; reflexivity|].
  apply Z.eqb_neq in N1, N2, N3, N4.
  unfold op_level, unshadow_x. cbn [c_postfix_ops c_prefix_ops c_infix_ops].
  rewrite !memZ_filter, assoc_opt_filter, N1, N2, N3, N4. cbn [negb orb]. rewrite !andb_true_r.
  reflexivity.
Qed.

Lemma pre_ok_unshadow_x cfg ty : pre_ok (unshadow_x cfg) ty = pre_ok cfg ty.
Proof.
  unfold pre_ok, unshadow_x. cbn [c_prefix_ops]. rewrite memZ_filter.
  destruct (T_DYNAMIC_TOKENS_START <=? ty) eqn:E; [|rewrite !andb_false_r; reflexivity].
  rewrite !(dyn_neq _ _ E) by reflexivity. cbn [negb orb]. rewrite !andb_true_r. reflexivity.
Qed.

Lemma post_ok_unshadow_x cfg ty : post_ok (unshadow_x cfg) ty = post_ok cfg ty.
Proof.
  unfold post_ok, unshadow_x. cbn [c_postfix_ops]. rewrite memZ_filter.
  destruct (T_DYNAMIC_TOKENS_START <=? ty) eqn:E; [|rewrite !andb_false_r; reflexivity].
  rewrite !(dyn_neq _ _ E) by reflexivity. cbn [negb]. rewrite !andb_true_r. reflexivity.
Qed.

Lemma wgx_unshadow cfg c : well_grouped_x (unshadow_x cfg) c = well_grouped_x cfg c.
Proof.
  apply wgx_ext; [apply op_level_unshadow_x|apply pre_ok_unshadow_x|apply post_ok_unshadow_x].
Qed.

Lemma unshadow_x_prefix cfg ty :
  ((ty =? T_IDENT) || (ty =? T_INT) || (ty =? T_LPAREN)) = true ->
  memZ ty (c_prefix_ops (unshadow_x cfg)) = false.
Proof.
  intro H. unfold unshadow_x. cbn [c_prefix_ops]. rewrite memZ_filter, H. apply andb_false_r.
Qed.

Lemma unshadow_x_rparen cfg : precedence_of (unshadow_x cfg) T_RPAREN <= P_LOWEST.
Proof.
  unfold precedence_of, unshadow_x. cbn [c_postfix_ops c_infix_ops].
  rewrite memZ_filter, assoc_opt_filter, Z.eqb_refl. cbn [negb]. rewrite andb_false_r.
  vm_compute. discriminate.
Qed.

Lemma xgroup_unique : forall cfg c1 c2,
  well_grouped_x cfg c1 = true -> well_grouped_x cfg c2 = true ->
  xyield c1 = xyield c2 -> c1 = c2.
Proof.
  intros cfg c1 c2 H1 H2 Hy.
  rewrite <- wgx_unshadow in H1, H2.
  destruct (xyield_cons c1) as (a & l & Y1). assert (Y2 : xyield c2 = a :: l) by congruence.
  set (f := S (xsize c1 + xsize c2)).
  assert (Hst : stopsc (unshadow_x cfg) P_LOWEST cx_semi = true) by reflexivity.
  pose proof (expr_top_x (unshadow_x cfg) eq_refl
                (unshadow_x_prefix cfg T_IDENT eq_refl) (unshadow_x_prefix cfg T_INT eq_refl)
                (unshadow_x_prefix cfg T_LPAREN eq_refl) (unshadow_x_rparen cfg)) as HT.
  destruct (HT c1 (x_init cx_eof) a l cx_semi [] f H1 Y1 Hst ltac:(lia)) as (a1 & E1).
  destruct (HT c2 (x_init cx_eof) a l cx_semi [] f H2 Y2 Hst ltac:(lia)) as (a2 & E2).
  rewrite E1 in E2. injection E2 as E2 _. apply xexpr_inj. exact E2.
Qed.

Print Assumptions xgroup_unique.
