(* PrintProofs.v -- proofs for C03 (tree-level clauses): the printer's precedences are the
   ECMAScript levels, and the parentheses it writes (PrintSpec.groupify) yield a
   well-formed tree with the same content and the same compact text. *)
Require Import Base GoOps Token Tree Writer PrinterLib Compile Parser Grammar PrintSpec.
Require Import Gen.Tables Gen.Printer.
From Coq Require Import ZifyBool ZifyN ZifyNat Lia.

(* ---------- induction over expressions with the nested lists ---------- *)

Section ExprInd.
  Variable P : expr -> Prop.
  Hypothesis Hnil : P ENil.
  Hypothesis Hident : forall i, P (EIdent i).
  Hypothesis Hint : forall t, P (EInt t).
  Hypothesis Hfloat : forall t, P (EFloat t).
  Hypothesis Hstring : forall t v, P (EString t v).
  Hypothesis Hraw : forall t v, P (ERaw t v).
  Hypothesis Hbool : forall t b, P (EBool t b).
  Hypothesis Hnull : forall t, P (ENull t).
  Hypothesis Hlet : forall t n v, P v -> P (ELet t n v).
  Hypothesis Hbinary : forall t l op r, P l -> P r -> P (EBinary t l op r).
  Hypothesis Hunary : forall t op r, P r -> P (EUnary t op r).
  Hypothesis Hpostfix : forall t l op, P l -> P (EPostfix t l op).
  Hypothesis Hgroup : forall t e rp, P e -> P (EGroup t e rp).
  Hypothesis Hcall : forall t f args, P f -> Forall P args -> P (ECall t f args).
  Hypothesis Hmember : forall t o p c, P o -> P p -> P (EMember t o p c).
  Hypothesis Hassign : forall t l v, P l -> P v -> P (EAssign t l v).
  Hypothesis Hcompound : forall t l op v, P l -> P v -> P (ECompound t l op v).
  Hypothesis Hfunc : forall t n ps b, P (EFunc t n ps b).
  Hypothesis Harray : forall t es rb, Forall P es -> P (EArray t es rb).
  Hypothesis Hobject : forall t ps rb, Forall (fun kv => P (fst kv) /\ P (snd kv)) ps -> P (EObject t ps rb).

  Fixpoint expr_ind' (e : expr) : P e :=
    match e with
    | ENil => Hnil
    | EIdent i => Hident i
    | EInt t => Hint t
    | EFloat t => Hfloat t
    | EString t v => Hstring t v
    | ERaw t v => Hraw t v
    | EBool t b => Hbool t b
    | ENull t => Hnull t
    | ELet t n v => Hlet t n v (expr_ind' v)
    | EBinary t l op r => Hbinary t l op r (expr_ind' l) (expr_ind' r)
    | EUnary t op r => Hunary t op r (expr_ind' r)
    | EPostfix t l op => Hpostfix t l op (expr_ind' l)
    | EGroup t e' rp => Hgroup t e' rp (expr_ind' e')
    | ECall t f args =>
        Hcall t f args (expr_ind' f)
          ((fix go (l : list expr) : Forall P l :=
              match l with
              | [] => Forall_nil P
              | x :: l' => Forall_cons x (expr_ind' x) (go l')
              end) args)
    | EMember t o p c => Hmember t o p c (expr_ind' o) (expr_ind' p)
    | EAssign t l v => Hassign t l v (expr_ind' l) (expr_ind' v)
    | ECompound t l op v => Hcompound t l op v (expr_ind' l) (expr_ind' v)
    | EFunc t n ps b => Hfunc t n ps b
    | EArray t es rb =>
        Harray t es rb
          ((fix go (l : list expr) : Forall P l :=
              match l with
              | [] => Forall_nil P
              | x :: l' => Forall_cons x (expr_ind' x) (go l')
              end) es)
    | EObject t ps rb =>
        Hobject t ps rb
          ((fix go (l : list (expr * expr)) : Forall (fun kv => P (fst kv) /\ P (snd kv)) l :=
              match l with
              | [] => Forall_nil _
              | kv :: l' => Forall_cons kv (conj (expr_ind' (fst kv)) (expr_ind' (snd kv))) (go l')
              end) ps)
    end.
End ExprInd.

(* ---------- list helpers ---------- *)

Lemma map_ext_Forall {A B} (f g : A -> B) l :
  Forall (fun x => f x = g x) l -> map f l = map g l.
Proof. induction 1 as [|x l Hx _ IH]; cbn [map]; [reflexivity | rewrite Hx, IH; reflexivity]. Qed.

Lemma Forall_forallb_imp {A} (P : A -> Prop) (p : A -> bool) l :
  Forall (fun x => p x = true -> P x) l -> forallb p l = true -> Forall P l.
Proof.
  induction 1 as [|x l Hx _ IH]; cbn [forallb]; intro Hp; constructor;
    apply andb_true_iff in Hp as [Hp1 Hp2]; auto.
Qed.

(* ---------- printer precedences = ECMAScript levels ---------- *)

Lemma binop_prec ty l : binop_level ty = Some l -> operator_precedence ty = l.
Proof.
  unfold binop_level.
  repeat match goal with
         | |- context [ ty =? ?b ] =>
             destruct (Z.eqb_spec ty b) as [->|_];
             [ vm_compute; intro H; inversion H; reflexivity | ]
         end.
  cbn. discriminate.
Qed.

Lemma binop_level_range ty l : binop_level ty = Some l -> 3 <= l <= 8.
Proof.
  unfold binop_level.
  repeat match goal with
         | |- context [ if ?c then _ else _ ] => destruct c
         end; intro H; inversion H; lia.
Qed.

(* ast.go has Call = 11 < Member = 12 while ECMAScript (Grammar.level) has one
   LeftHandSide level 11: the middle disjunct.  No test of the printer separates 11
   from 12, see [prec_of_level] and the comparison lemmas below. *)
Lemma printer_levels_agree : forall e, e <> ENil -> prec_opt e = Some (level e) \/
  (exists t o p c, e = EMember t o p c /\ prec_opt e = Some A_PrecedenceMember /\ level e = L_LHS) \/
  (exists t l op r, e = EBinary t l op r /\ binop_level (t_type t) = None).
Proof.
  intros e Hne. destruct e; try (left; reflexivity).
  - contradiction.
  - destruct (binop_level (t_type t)) as [lv|] eqn:Hb.
    + left. cbn [prec_opt level]. rewrite Hb. rewrite (binop_prec _ _ Hb). reflexivity.
    + right; right. exists t, e1, op, e2. split; [reflexivity | exact Hb].
  - right; left. exists t, e1, e2, computed. repeat split.
Qed.

Lemma prec_of_level e : printable e = true ->
  prec_of e = level e \/ (prec_of e = 12 /\ level e = 11).
Proof.
  intro Hp. unfold prec_of.
  destruct (printer_levels_agree e)
    as [H | [(t & o & p & c & -> & H1 & H2) | (t & l & op & r & -> & Hb)]].
  - intros ->. discriminate Hp.
  - rewrite H. left; reflexivity.
  - right. split; reflexivity.
  - cbn [printable] in Hp. rewrite Hb in Hp. discriminate Hp.
Qed.

(* the comparisons the printer makes are comparisons of levels *)
Lemma prec_of_ltb e k : printable e = true -> k <= 11 -> (prec_of e <? k) = (level e <? k).
Proof. intros Hp Hk. destruct (prec_of_level e Hp) as [->|[-> ->]]; [reflexivity|lia]. Qed.

Lemma prec_of_leb e k : printable e = true -> k < 11 -> (prec_of e <=? k) = (level e <=? k).
Proof. intros Hp Hk. destruct (prec_of_level e Hp) as [->|[-> ->]]; [reflexivity|lia]. Qed.

Lemma prec_of_geb e k : printable e = true -> k <= 11 -> (k <=? prec_of e) = (k <=? level e).
Proof. intros Hp Hk. destruct (prec_of_level e Hp) as [->|[-> ->]]; [reflexivity|lia]. Qed.

(* ---------- groupify keeps the root ---------- *)

Lemma prec_opt_groupify e : prec_opt (groupify e) = prec_opt e.
Proof. destruct e; reflexivity. Qed.

Lemma prec_of_groupify e : prec_of (groupify e) = prec_of e.
Proof. unfold prec_of. rewrite prec_opt_groupify. reflexivity. Qed.

Lemma level_groupify e : level (groupify e) = level e.
Proof. destruct e; reflexivity. Qed.

Lemma prec_of_grp x : prec_of (grp x) = 13.
Proof. reflexivity. Qed.

Lemma level_grp x : level (grp x) = 13.
Proof. reflexivity. Qed.

Lemma groupify_grp x : groupify (grp x) = grp (groupify x).
Proof. reflexivity. Qed.

(* ---------- same tree up to grouping nodes ---------- *)

Lemma groupify_strip : forall e, strip_groups (groupify e) = strip_groups e.
Proof.
  induction e using expr_ind'; try reflexivity.
  - cbn [groupify strip_groups]. rewrite IHe. reflexivity.
  - cbn [groupify].
    destruct (prec_of e1 <? _); destruct (prec_of e2 <=? _);
      cbn [strip_groups grp]; rewrite IHe1, IHe2; reflexivity.
  - cbn [groupify]. destruct (prec_of e <? _); cbn [strip_groups grp]; rewrite IHe; reflexivity.
  - cbn [groupify]. destruct (prec_of e <? _); cbn [strip_groups grp]; rewrite IHe; reflexivity.
  - cbn [groupify strip_groups]. rewrite IHe. reflexivity.
  - cbn [groupify strip_groups]. rewrite IHe, map_map.
    f_equal. apply map_ext_Forall. exact H.
  - cbn [groupify strip_groups]. rewrite IHe1. destruct c; [rewrite IHe2|]; reflexivity.
  - cbn [groupify strip_groups]. rewrite IHe1, IHe2. reflexivity.
  - cbn [groupify strip_groups]. rewrite IHe1, IHe2. reflexivity.
  - cbn [groupify strip_groups]. rewrite map_map.
    f_equal. apply map_ext_Forall. exact H.
  - cbn [groupify strip_groups]. rewrite map_map.
    f_equal. apply map_ext_Forall.
    eapply Forall_impl; [|exact H]. intros [k v] [_ Hv]. cbn [fst snd] in *. rewrite Hv. reflexivity.
Qed.

(* ---------- the parenthesised tree respects the level discipline ---------- *)

Lemma wf_grp x : wf_expr (grp x) = wf_expr x.
Proof. reflexivity. Qed.

Lemma assignable_groupify e : simple_target e = true -> assignable (groupify e) = true.
Proof. destruct e; try discriminate; reflexivity. Qed.

Lemma simple_target_level e : simple_target e = true -> 11 <= level e.
Proof. destruct e; try discriminate; intros _; cbn; lia. Qed.

Lemma key_ok_wf k : key_ok k = true -> wf_expr k = true.
Proof. destruct k; try discriminate; reflexivity. Qed.

Lemma prec_of_binary t l op r lv : binop_level (t_type t) = Some lv -> prec_of (EBinary t l op r) = lv.
Proof. intro Hb. unfold prec_of. cbn [prec_opt]. apply binop_prec. exact Hb. Qed.

Lemma wf_exprs_groupify l :
  Forall (fun x => printable x = true -> wf_expr (groupify x) = true) l ->
  forallb printable l = true -> wf_exprs wf_expr (map groupify l) = true.
Proof.
  induction 1 as [|x l Hx _ IH]; cbn [forallb map wf_exprs]; intro Hp; [reflexivity|].
  apply andb_true_iff in Hp as [Hp1 Hp2]. rewrite (Hx Hp1), (IH Hp2). reflexivity.
Qed.

Lemma wf_props_groupify l :
  Forall (fun kv : expr * expr => (printable (fst kv) = true -> wf_expr (groupify (fst kv)) = true) /\
                    (printable (snd kv) = true -> wf_expr (groupify (snd kv)) = true)) l ->
  forallb (fun kv => key_ok (fst kv) && printable (snd kv)) l = true ->
  wf_props wf_expr (map (fun kv => (fst kv, groupify (snd kv))) l) = true.
Proof.
  induction 1 as [|[k v] l [_ Hv] _ IH]; cbn [forallb map wf_props fst snd] in *; intro Hp; [reflexivity|].
  apply andb_true_iff in Hp as [Hp1 Hp2]. apply andb_true_iff in Hp1 as [Hk Hpv].
  rewrite (key_ok_wf _ Hk), (Hv Hpv), (IH Hp2). reflexivity.
Qed.

Lemma groupify_wf : forall e, printable e = true -> wf_expr (groupify e) = true.
Proof.
  induction e using expr_ind'; intro Hp; try reflexivity; try discriminate Hp.
  - (* EBinary *)
    cbn [printable] in Hp. destruct (binop_level (t_type t)) as [lv|] eqn:Hb; [|discriminate Hp].
    cbn [andb] in Hp. apply andb_true_iff in Hp as [Hp1 Hp2].
    specialize (IHe1 Hp1). specialize (IHe2 Hp2).
    pose proof (binop_level_range _ _ Hb) as Hr.
    cbn [groupify]. rewrite (prec_of_binary _ _ _ _ _ Hb).
    rewrite (prec_of_ltb e1 lv Hp1), (prec_of_leb e2 lv Hp2) by lia.
    cbn [wf_expr]. rewrite Hb.
    destruct (Z.ltb_spec (level e1) lv); destruct (Z.leb_spec (level e2) lv);
      rewrite ?wf_grp, ?level_grp, ?level_groupify, IHe1, IHe2;
      repeat (apply andb_true_iff; split); try reflexivity; lia.
  - (* EUnary *)
    cbn [printable] in Hp. apply andb_true_iff in Hp as [Hp1 Hp2]. specialize (IHe Hp2).
    cbn [groupify]. rewrite (prec_of_ltb e A_PrecedenceUnary Hp2) by (unfold A_PrecedenceUnary; lia).
    cbn [wf_expr].
    destruct ((t_type t =? T_INCREMENT) || (t_type t =? T_DECREMENT)).
    + pose proof (simple_target_level _ Hp1) as Hl.
      destruct (Z.ltb_spec (level e) A_PrecedenceUnary) as [Hlt|_];
        [unfold A_PrecedenceUnary in Hlt; lia|].
      rewrite (assignable_groupify _ Hp1), IHe. reflexivity.
    + unfold L_UNARY.
      destruct (Z.ltb_spec (level e) A_PrecedenceUnary) as [Hlt|Hge]; unfold A_PrecedenceUnary in *;
        rewrite ?wf_grp, ?level_grp, ?level_groupify, IHe;
        apply andb_true_iff; split; try reflexivity; lia.
  - (* EPostfix *)
    cbn [printable] in Hp. apply andb_true_iff in Hp as [Hp1 Hp2].
    apply andb_true_iff in Hp1 as [_ Hst]. specialize (IHe Hp2).
    cbn [groupify]. rewrite (prec_of_ltb e A_PrecedencePostfix Hp2) by (unfold A_PrecedencePostfix; lia).
    pose proof (simple_target_level _ Hst) as Hl.
    destruct (Z.ltb_spec (level e) A_PrecedencePostfix) as [Hlt|_];
      [unfold A_PrecedencePostfix in Hlt; lia|].
    cbn [wf_expr]. rewrite (assignable_groupify _ Hst), IHe. reflexivity.
  - (* EGroup *)
    cbn [printable] in Hp. cbn [groupify wf_expr]. exact (IHe Hp).
  - (* ECall *)
    cbn [printable] in Hp. apply andb_true_iff in Hp as [Hp1 Hp3].
    apply andb_true_iff in Hp1 as [Hp1 Hp2].
    rewrite (prec_of_geb e A_PrecedenceCall Hp2) in Hp1 by (unfold A_PrecedenceCall; lia).
    cbn [groupify wf_expr]. rewrite level_groupify, (IHe Hp2), (wf_exprs_groupify _ H Hp3).
    unfold L_LHS. unfold A_PrecedenceCall in Hp1. rewrite Hp1. reflexivity.
  - (* EMember *)
    cbn [printable] in Hp. apply andb_true_iff in Hp as [Hp1 Hp3].
    apply andb_true_iff in Hp1 as [Hp1 Hp2].
    rewrite (prec_of_geb e1 A_PrecedenceCall Hp2) in Hp1 by (unfold A_PrecedenceCall; lia).
    cbn [groupify wf_expr]. rewrite level_groupify, (IHe1 Hp2).
    unfold L_LHS. unfold A_PrecedenceCall in Hp1. rewrite Hp1.
    destruct c; [rewrite (IHe2 Hp3)|]; reflexivity.
  - (* EAssign *)
    cbn [printable] in Hp. apply andb_true_iff in Hp as [Hp1 Hp3].
    apply andb_true_iff in Hp1 as [Hp1 Hp2].
    cbn [groupify wf_expr]. rewrite (assignable_groupify _ Hp1), (IHe1 Hp2), (IHe2 Hp3). reflexivity.
  - (* ECompound *)
    cbn [printable] in Hp. apply andb_true_iff in Hp as [Hp1 Hp3].
    apply andb_true_iff in Hp1 as [Hp1 Hp2].
    cbn [groupify wf_expr]. rewrite (assignable_groupify _ Hp1), (IHe1 Hp2), (IHe2 Hp3). reflexivity.
  - (* EArray *)
    cbn [printable] in Hp. cbn [groupify wf_expr]. exact (wf_exprs_groupify _ H Hp).
  - (* EObject *)
    cbn [printable] in Hp. cbn [groupify wf_expr]. exact (wf_props_groupify _ H Hp).
Qed.

(* ---------- parenthesisation is idempotent ---------- *)

Lemma operand_idem_lt x k : groupify (groupify x) = groupify x -> k <= 13 ->
  (if prec_of (if prec_of x <? k then grp (groupify x) else groupify x) <? k
   then grp (groupify (if prec_of x <? k then grp (groupify x) else groupify x))
   else groupify (if prec_of x <? k then grp (groupify x) else groupify x))
  = (if prec_of x <? k then grp (groupify x) else groupify x).
Proof.
  intros Hx Hk. destruct (prec_of x <? k) eqn:E.
  - rewrite prec_of_grp, groupify_grp, Hx. destruct (Z.ltb_spec 13 k); [lia | reflexivity].
  - rewrite prec_of_groupify, E, Hx. reflexivity.
Qed.

Lemma operand_idem_le x k : groupify (groupify x) = groupify x -> k < 13 ->
  (if prec_of (if prec_of x <=? k then grp (groupify x) else groupify x) <=? k
   then grp (groupify (if prec_of x <=? k then grp (groupify x) else groupify x))
   else groupify (if prec_of x <=? k then grp (groupify x) else groupify x))
  = (if prec_of x <=? k then grp (groupify x) else groupify x).
Proof.
  intros Hx Hk. destruct (prec_of x <=? k) eqn:E.
  - rewrite prec_of_grp, groupify_grp, Hx. destruct (Z.leb_spec 13 k); [lia | reflexivity].
  - rewrite prec_of_groupify, E, Hx. reflexivity.
Qed.

Lemma map_groupify_idem l :
  Forall (fun x => printable x = true -> groupify (groupify x) = groupify x) l ->
  forallb printable l = true -> map groupify (map groupify l) = map groupify l.
Proof.
  induction 1 as [|x l Hx _ IH]; cbn [forallb map]; intro Hp; [reflexivity|].
  apply andb_true_iff in Hp as [Hp1 Hp2]. rewrite (Hx Hp1), (IH Hp2). reflexivity.
Qed.

Lemma groupify_idem : forall e, printable e = true -> groupify (groupify e) = groupify e.
Proof.
  induction e using expr_ind'; intro Hp; try reflexivity; try discriminate Hp.
  - (* EBinary *)
    cbn [printable] in Hp. destruct (binop_level (t_type t)) as [lv|] eqn:Hb; [|discriminate Hp].
    cbn [andb] in Hp. apply andb_true_iff in Hp as [Hp1 Hp2].
    specialize (IHe1 Hp1). specialize (IHe2 Hp2).
    pose proof (binop_level_range _ _ Hb) as Hr.
    cbn [groupify]. rewrite !(prec_of_binary _ _ _ _ _ Hb).
    rewrite (operand_idem_lt e1 lv IHe1), (operand_idem_le e2 lv IHe2) by lia. reflexivity.
  - (* EUnary *)
    cbn [printable] in Hp. apply andb_true_iff in Hp as [_ Hp2]. specialize (IHe Hp2).
    cbn [groupify]. rewrite (operand_idem_lt e A_PrecedenceUnary IHe) by (unfold A_PrecedenceUnary; lia).
    reflexivity.
  - (* EPostfix *)
    cbn [printable] in Hp. apply andb_true_iff in Hp as [_ Hp2]. specialize (IHe Hp2).
    cbn [groupify]. rewrite (operand_idem_lt e A_PrecedencePostfix IHe) by (unfold A_PrecedencePostfix; lia).
    reflexivity.
  - (* EGroup *)
    cbn [printable] in Hp. cbn [groupify]. rewrite (IHe Hp). reflexivity.
  - (* ECall *)
    cbn [printable] in Hp. apply andb_true_iff in Hp as [Hp1 Hp3].
    apply andb_true_iff in Hp1 as [_ Hp2].
    cbn [groupify]. rewrite (IHe Hp2), (map_groupify_idem _ H Hp3). reflexivity.
  - (* EMember *)
    cbn [printable] in Hp. apply andb_true_iff in Hp as [Hp1 Hp3].
    apply andb_true_iff in Hp1 as [_ Hp2].
    cbn [groupify]. rewrite (IHe1 Hp2). destruct c; [rewrite (IHe2 Hp3)|]; reflexivity.
  - (* EAssign *)
    cbn [printable] in Hp. apply andb_true_iff in Hp as [Hp1 Hp3].
    apply andb_true_iff in Hp1 as [_ Hp2].
    cbn [groupify]. rewrite (IHe1 Hp2), (IHe2 Hp3). reflexivity.
  - (* ECompound *)
    cbn [printable] in Hp. apply andb_true_iff in Hp as [Hp1 Hp3].
    apply andb_true_iff in Hp1 as [_ Hp2].
    cbn [groupify]. rewrite (IHe1 Hp2), (IHe2 Hp3). reflexivity.
  - (* EArray *)
    cbn [printable] in Hp. cbn [groupify]. rewrite (map_groupify_idem _ H Hp). reflexivity.
  - (* EObject *)
    cbn [printable] in Hp. cbn [groupify]. f_equal. rewrite map_map. apply map_ext_Forall.
    clear - H Hp. induction H as [|[k v] l [_ Hv] _ IH]; [constructor|].
    cbn [forallb fst snd] in *. apply andb_true_iff in Hp as [Hp1 Hp2].
    apply andb_true_iff in Hp1 as [_ Hpv]. constructor; [|exact (IH Hp2)].
    cbn [fst snd]. rewrite (Hv Hpv). reflexivity.
Qed.

(* ---------- same compact text ---------- *)

Definition ccfg : wcfg := cfg_compact false.
Definition run (st : wstate) (ops : list wop) : wstate := fold_left (wstep ccfg) ops st.

Lemma run_app st a b : run st (a ++ b) = run (run st a) b.
Proof. unfold run. apply fold_left_app. Qed.
Lemma run_cons st o a : run st (o :: a) = run (wstep ccfg st o) a.
Proof. reflexivity. Qed.
Lemma run_nil st : run st [] = st.
Proof. reflexivity. Qed.

(* layout operations do nothing in compact mode *)
Lemma step_comments st cs : wstep ccfg st (WComments cs) = st.
Proof. unfold wstep. destruct (w_panic st); reflexivity. Qed.
Lemma step_inc st : wstep ccfg st WIncIndent = st.
Proof. unfold wstep. destruct (w_panic st); reflexivity. Qed.
Lemma step_dec st : wstep ccfg st WDecIndent = st.
Proof. unfold wstep. destruct (w_panic st); reflexivity. Qed.

Lemma panic_flush_fold q : forall st,
  w_panic (fold_left (fun s c => if N.eqb c TAB then write_indent ccfg s else write_raw ccfg s [c]) q st)
  = w_panic st.
Proof.
  induction q as [|c q IH]; intro st; cbn [fold_left]; [reflexivity|].
  rewrite IH. destruct (N.eqb c TAB); reflexivity.
Qed.

Lemma panic_flush st : w_panic (flush_pending ccfg st) = w_panic st.
Proof. unfold flush_pending. cbn [w_panic]. apply panic_flush_fold. Qed.

Lemma flush_flush st : flush_pending ccfg (flush_pending ccfg st) = flush_pending ccfg st.
Proof. reflexivity. Qed.

(* without a source map, a mapping before a rune only flushes what the rune flushes *)
Lemma step_mapping_rune st p c :
  wstep ccfg (wstep ccfg st (WMapping p)) (WRune c) = wstep ccfg st (WRune c).
Proof.
  destruct (w_panic st) eqn:E.
  - unfold wstep. rewrite E. cbn iota. rewrite E. reflexivity.
  - unfold wstep. rewrite E. cbn [w_map ccfg cfg_compact]. cbn iota.
    rewrite panic_flush, E. unfold write_rune. rewrite flush_flush. reflexivity.
Qed.

Lemma run_grp st x :
  run st (write_expr (grp x)) = wstep ccfg (run (wstep ccfg st (WRune 40)) (write_expr x)) (WRune 41).
Proof.
  unfold grp. cbn [write_expr].
  rewrite !run_cons, run_app, !run_cons, run_nil.
  rewrite !step_comments, step_inc, step_dec, step_mapping_rune. reflexivity.
Qed.

Lemma prec_opt_grp x : prec_opt (grp x) = Some 13.
Proof. reflexivity. Qed.

Lemma printable_prec_opt e : printable e = true -> prec_opt e = Some (prec_of e).
Proof. destruct e; try discriminate; reflexivity. Qed.

Lemma run_sep_map {A} sep (f : A -> list wop) (g : A -> A) (p : A -> bool) l :
  Forall (fun x => p x = true -> forall st, run st (f (g x)) = run st (f x)) l ->
  forallb p l = true ->
  forall st, run st (sep_map sep f (map g l)) = run st (sep_map sep f l).
Proof.
  induction 1 as [|x l Hx _ IH]; cbn [forallb]; intros Hp st; [reflexivity|].
  apply andb_true_iff in Hp as [Hp1 Hp2]. specialize (IH Hp2).
  cbn [map sep_map]. rewrite !run_app, (Hx Hp1).
  destruct l as [|y l']; [reflexivity|].
  cbn [map] in *. rewrite !run_app. apply IH.
Qed.

Ltac norm_run :=
  repeat (rewrite run_grp || rewrite run_app || rewrite run_cons || rewrite run_nil);
  rewrite ?step_inc, ?step_dec.

Lemma is_decimal_int_groupify e : is_decimal_int (groupify e) = is_decimal_int e.
Proof. destruct e; reflexivity. Qed.

Lemma groupify_run : forall e, printable e = true ->
  forall st, run st (write_expr (groupify e)) = run st (write_expr e).
Proof.
  induction e using expr_ind'; intros Hp st; try reflexivity; try discriminate Hp.
  - (* EBinary *)
    cbn [printable] in Hp. destruct (binop_level (t_type t)) as [lv|] eqn:Hb; [|discriminate Hp].
    cbn [andb] in Hp. apply andb_true_iff in Hp as [Hp1 Hp2].
    specialize (IHe1 Hp1). specialize (IHe2 Hp2).
    pose proof (binop_level_range _ _ Hb) as Hr.
    cbn [groupify]. rewrite (prec_of_binary _ _ _ _ _ Hb).
    destruct (prec_of e1 <? lv) eqn:E1; destruct (prec_of e2 <=? lv) eqn:E2;
      cbn [write_expr prec_opt];
      rewrite ?prec_opt_grp, ?prec_opt_groupify, (printable_prec_opt _ Hp1), (printable_prec_opt _ Hp2),
        (binop_prec _ _ Hb), ?E1, ?E2;
      replace (13 <? lv) with false by lia; replace (13 <=? lv) with false by lia;
      cbn iota; norm_run; rewrite ?IHe1, ?IHe2; reflexivity.
  - (* EUnary *)
    cbn [printable] in Hp. apply andb_true_iff in Hp as [_ Hp2]. specialize (IHe Hp2).
    cbn [groupify].
    destruct (prec_of e <? A_PrecedenceUnary) eqn:E;
      cbn [write_expr];
      rewrite ?prec_opt_grp, ?prec_opt_groupify, (printable_prec_opt _ Hp2), ?E;
      change (13 <? A_PrecedenceUnary) with false;
      cbn iota; norm_run; rewrite ?IHe; reflexivity.
  - (* EPostfix *)
    cbn [printable] in Hp. apply andb_true_iff in Hp as [_ Hp2]. specialize (IHe Hp2).
    cbn [groupify].
    destruct (prec_of e <? A_PrecedencePostfix) eqn:E;
      cbn [write_expr];
      rewrite ?prec_opt_grp, ?prec_opt_groupify, (printable_prec_opt _ Hp2), ?E;
      change (13 <? A_PrecedencePostfix) with false;
      cbn iota; norm_run; rewrite ?IHe; reflexivity.
  - (* EGroup *)
    cbn [printable] in Hp. cbn [groupify write_expr]. norm_run. rewrite (IHe Hp). reflexivity.
  - (* ECall *)
    cbn [printable] in Hp. apply andb_true_iff in Hp as [Hp1 Hp3].
    apply andb_true_iff in Hp1 as [_ Hp2].
    cbn [groupify write_expr]. norm_run. rewrite (IHe Hp2).
    rewrite (run_sep_map _ (fun arg => write_expr arg ++ []) groupify printable args); [reflexivity| |exact Hp3].
    eapply Forall_impl; [|exact H]. cbn beta. intros a Ha Hpa st'. rewrite !run_app, (Ha Hpa). reflexivity.
  - (* EMember *)
    cbn [printable] in Hp. apply andb_true_iff in Hp as [Hp1 Hp3].
    apply andb_true_iff in Hp1 as [_ Hp2].
    cbn [groupify write_expr]. rewrite is_decimal_int_groupify.
    destruct c; norm_run; rewrite (IHe1 Hp2), ?(IHe2 Hp3); reflexivity.
  - (* EAssign *)
    cbn [printable] in Hp. apply andb_true_iff in Hp as [Hp1 Hp3].
    apply andb_true_iff in Hp1 as [_ Hp2].
    cbn [groupify write_expr]. norm_run. rewrite (IHe1 Hp2), (IHe2 Hp3). reflexivity.
  - (* ECompound *)
    cbn [printable] in Hp. apply andb_true_iff in Hp as [Hp1 Hp3].
    apply andb_true_iff in Hp1 as [_ Hp2].
    cbn [groupify write_expr]. norm_run. rewrite (IHe1 Hp2), (IHe2 Hp3). reflexivity.
  - (* EArray *)
    cbn [printable] in Hp. cbn [groupify write_expr]. norm_run.
    rewrite (run_sep_map _ (fun elem => write_expr elem ++ []) groupify printable es); [reflexivity| |exact Hp].
    eapply Forall_impl; [|exact H]. cbn beta. intros a Ha Hpa st'. rewrite !run_app, (Ha Hpa). reflexivity.
  - (* EObject *)
    cbn [printable] in Hp. cbn [groupify write_expr]. norm_run.
    rewrite (run_sep_map _ (fun prop : expr * expr => write_expr (fst prop) ++ WRune 58 :: WSpace :: write_expr (snd prop) ++ [])
               (fun kv => (fst kv, groupify (snd kv)))
               (fun kv => key_ok (fst kv) && printable (snd kv)) ps); [reflexivity| |exact Hp].
    eapply Forall_impl; [|exact H]. cbn beta. intros [k v] [_ Hv] Hpa st'. cbn [fst snd] in *.
    apply andb_true_iff in Hpa as [_ Hpv].
    rewrite !run_app, !run_cons, !run_app, (Hv Hpv). reflexivity.
Qed.

Lemma groupify_text : forall e, printable e = true -> compact_text (groupify e) = compact_text e.
Proof.
  intros e Hp. unfold compact_text, run_wops.
  change (w_buf (run wstate_init (write_expr (groupify e))) = w_buf (run wstate_init (write_expr e))).
  rewrite (groupify_run e Hp). reflexivity.
Qed.
