(* RefutedStrict.v -- recorded findings as theorems about the model: where a clause of a property is
   FALSE of the faithful model, a concrete witness is exhibited and checked by evaluation inside
   the kernel ([vm_compute]).  The same witnesses, replayed on the implementation, are entries
   of known_findings.json (the direct oracles replay them on every run).  Each statement is the
   negation of the corresponding property theorem with the excluding hypothesis dropped, so
   the hypotheses of the positive theorems are necessary. *)
Require Import Base Token Lexer Tree Parser Grammar GrammarProofs RefutedBase.
Require Import Gen.Tables.
From Coq Require Import String Ascii.

(* ---- KF6, KF7, KF11, KF12: strict mode accepts token lists outside the grammar ---- *)
Lemma accepted_outside_grammar toks r :
  parse_tokens cfg_default toks = Some r ->
  m_program (pr_program r) toks && wf_program (pr_program r) = false ->
  forall p, m_program p toks = true -> wf_program p = true -> False.
Proof.
  intros Hp Hf p Hm Hw.
  destruct (parse_complete p toks Hm Hw) as (r' & Hr' & Hpp & _).
  rewrite Hp in Hr'. injection Hr' as Hr'. subst r'. rewrite Hpp, Hm, Hw in Hf. discriminate.
Qed.

Definition strict_accepts_outside (src : str) : Prop :=
  exists toks r, tokenize src = Some toks /\ parse_tokens cfg_default toks = Some r /\
                 pr_errors r = [] /\ pr_err_returned r = false /\
                 forall p, m_program p toks = true -> wf_program p = true -> False.

Ltac outside :=
  eexists; eexists; split; [vm_compute; reflexivity|]; split; [vm_compute; reflexivity|];
  split; [reflexivity|]; split; [reflexivity|];
  eapply accepted_outside_grammar; [vm_compute; reflexivity | vm_compute; reflexivity].

Definition kf6_src : str := bs "a+b=c".
Definition kf6b_src : str := bs "1++".
Definition kf7_src : str := bs "a.'x'".
Definition kf11_src : str := bs "a++(b)".
Definition kf12_src : str := bs "if(a)let x=1".
Lemma kf6_assignment_target_refuted : strict_accepts_outside kf6_src.  Proof. outside. Qed.
Lemma kf6_increment_target_refuted : strict_accepts_outside kf6b_src.  Proof. outside. Qed.
Lemma kf7_member_name_refuted : strict_accepts_outside kf7_src.        Proof. outside. Qed.
Lemma kf11_postfix_callee_refuted : strict_accepts_outside kf11_src.   Proof. outside. Qed.
Lemma kf12_declaration_body_refuted : strict_accepts_outside kf12_src. Proof. outside. Qed.

