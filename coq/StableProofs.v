(* StableProofs.v -- proofs for Props/C07s.v: the literal scanned from a VALID string
   literal (its body has a string value, StringValue.SV) re-scans to itself once written
   between double quotes, so [strings_stable] holds for every source whose string literals
   are all valid.

   Validity has to be asked of the SOURCE literal, not of the scanned one: the invalid
   literal "\x\x41\x42" is scanned to \xAB, which is valid between double quotes (value
   U+00AB) but is re-scanned to the two UTF-8 bytes C2 AB. *)
Require Import Base GoOps Token Lexer LexSpec Tree StringValue RelexSpec.
Require Import Gen.Tables Gen.Preds.
Require Import LexerProofs RelexProofs RoundTripProofs StringProofs.
From Coq Require Import ZifyBool ZifyN ZifyNat Lia.

(* ------------------------------------------------------------------ *)
(* 1. stable chunks                                                    *)
(* ------------------------------------------------------------------ *)

(* the body [s] is scanned (under delimiter d) to an output which, under delimiter 34,
   is scanned to itself -- in front of any following text *)
Definition nf (d : N) (s : str) : Prop :=
  exists out, scan_ok d s out /\ scan_ok 34 out out.

Lemma scan_nil d : scan_ok d [] [].
Proof.
  exists 0%nat. split; [cbn [length]; lia|].
  intros F l0 acc X _ _. cbn [length StringProofs.adv]. rewrite Nat.sub_0_r, app_nil_r. reflexivity.
Qed.

Lemma nf_nil d : nf d [].
Proof. exists []. split; apply scan_nil. Qed.

Lemma nf_glue d tok o r' :
  scan_ok d tok o -> scan_ok 34 o o -> nf d r' -> nf d (tok ++ r').
Proof.
  intros H1 H2 (out & H3 & H4). exists (o ++ out).
  split; apply scan_ok_app; assumption.
Qed.

Lemma plain34 d c : plain d c -> N.eqb c 34 = false -> plain 34 c.
Proof. unfold plain. intros (H1 & _ & H3) _. auto. Qed.

Lemma plain_to34 d c : plain d c -> plain 34 c.
Proof. unfold plain. intros (H1 & _ & H3). auto. Qed.

Lemma Forall_plain_to34 d cs : Forall (plain d) cs -> Forall (plain 34) cs.
Proof. intro H. eapply Forall_impl; [|exact H]. intros a Ha. exact (plain_to34 d a Ha). Qed.

(* the UTF-8 encoding of a decoded escape is copied byte by byte *)
Lemma enc_plains v : 0 <= v <= 1114111 -> mustStayEscaped v = false ->
  Forall (plain 34) (encodeUTF8 v).
Proof.
  intros Hr Hm. destruct (enc_head v Hr Hm) as (b0 & t & He & E1 & _ & _ & E4 & _).
  pose proof (mse_false v Hm) as (_ & _ & _ & _ & _ & M6).
  pose proof (utf8_roundtrip v [] Hr M6) as Hrt. rewrite app_nil_r in Hrt.
  apply decode_split in Hrt. destruct Hrt as (b0' & cs & Heq & Hcs & _).
  rewrite app_nil_r in Heq. rewrite He in Heq. injection Heq as <- ->. rewrite He.
  constructor.
  - unfold plain. auto.
  - apply Forall_plain_cont; [left; reflexivity|exact Hcs].
Qed.

Lemma nf_glue_enc d tok v r' :
  0 <= v <= 1114111 ->
  (forall d', scan_ok d' tok (if mustStayEscaped v then tok else encodeUTF8 v)) ->
  nf d r' -> nf d (tok ++ r').
Proof.
  intros Hv Hs Hr.
  apply (nf_glue d tok (if mustStayEscaped v then tok else encodeUTF8 v)); [apply Hs| |exact Hr].
  destruct (mustStayEscaped v) eqn:Em.
  - exact (Hs 34%N).
  - apply scan_plains. apply enc_plains; assumption.
Qed.

Ltac esc_case IH Hd Hl :=
  match goal with |- nf ?d (92%N :: ?e :: ?r) =>
    apply (nf_glue d [92%N; e] [92%N; e] r) end;
  [ apply scan_esc; reflexivity | apply scan_esc; reflexivity | apply (IH _ _ _ Hd Hl) ].

(* ------------------------------------------------------------------ *)
(* 2. valid bodies consist of stable chunks                            *)
(* ------------------------------------------------------------------ *)

Lemma sv_nf : forall f d s v, (d = 34 \/ d = 39)%N -> sv_fuel f d s = Some v -> nf d s.
Proof.
  induction f as [|f IH]; intros d s v Hd H; [discriminate|].
  destruct s as [|c r].
  { apply nf_nil. }
  pose proof H as H0. cbn [sv_fuel] in H.
  destruct (N.eqb c d) eqn:Ecd; [discriminate|].
  destruct (N.eqb c 10 || N.eqb c 13) eqn:Enl; [discriminate|].
  destruct (N.eqb c 92) eqn:Ebs.
  { apply N.eqb_eq in Ebs. subst c. destruct r as [|e r']; [discriminate|].
    destruct (N.eqb e 110) eqn:E1.
    { apply N.eqb_eq in E1. subst e. fin H l Hl. esc_case IH Hd Hl. }
    destruct (N.eqb e 116) eqn:E2.
    { apply N.eqb_eq in E2. subst e. fin H l Hl. esc_case IH Hd Hl. }
    destruct (N.eqb e 114) eqn:E3.
    { apply N.eqb_eq in E3. subst e. fin H l Hl. esc_case IH Hd Hl. }
    destruct (N.eqb e 98) eqn:E4.
    { apply N.eqb_eq in E4. subst e. fin H l Hl. esc_case IH Hd Hl. }
    destruct (N.eqb e 102) eqn:E5.
    { apply N.eqb_eq in E5. subst e. fin H l Hl. esc_case IH Hd Hl. }
    destruct (N.eqb e 118) eqn:E6.
    { apply N.eqb_eq in E6. subst e. fin H l Hl. esc_case IH Hd Hl. }
    destruct (N.eqb e 39 || N.eqb e 34 || N.eqb e 92) eqn:E7.
    { fin H l Hl.
      assert (He : e = 39%N \/ e = 34%N \/ e = 92%N) by lia.
      destruct He as [->|[->| ->]]; esc_case IH Hd Hl. }
    destruct (N.eqb e 48) eqn:E8.
    { apply N.eqb_eq in E8. subst e.
      assert (Hr' : exists l, sv_fuel f d r' = Some l).
      { destruct r' as [|n r''].
        - fin H l Hl. exists l. reflexivity.
        - destruct (is_dec n) eqn:En; [discriminate|]. fin H l Hl. exists l. reflexivity. }
      destruct Hr' as (l & Hl). esc_case IH Hd Hl. }
    destruct (is_dec e) eqn:E9; [discriminate|].
    destruct (N.eqb e 120) eqn:E10.
    { (* \xHH *)
      apply N.eqb_eq in E10. subst e.
      destruct r' as [|h1 [|h2 r'']]; try discriminate.
      destruct (is_hex h1) eqn:X1; [|discriminate]. destruct (is_hex h2) eqn:X2; [|discriminate].
      cbn [andb] in H. fin H l Hl.
      pose proof (hex_val_range h1 X1) as R1. pose proof (hex_val_range h2 X2) as R2.
      change (nf d ([92%N; 120%N; h1; h2] ++ r'')).
      apply (nf_glue_enc d _ (hex_val h1 * 16 + hex_val h2)).
      - lia.
      - intro d'. apply scan_x; assumption.
      - apply (IH _ _ _ Hd Hl). }
    destruct (N.eqb e 117) eqn:E11.
    { (* \u *)
      apply N.eqb_eq in E11. subst e. clear H. rewrite sv_u in H0 by exact Ecd.
      destruct r' as [|x t]; [discriminate|].
      destruct (N.eqb x 123) eqn:Ex.
      { (* \u{...} *)
        apply N.eqb_eq in Ex. subst x.
        destruct (brace_hex t 0 0) as [[cp r'']|] eqn:Hb; [|discriminate]. fin H0 l Hl.
        destruct (brace_hex_inv _ _ _ _ _ Hb) as (ds & -> & Hh & Hcp & Hn & Hmax & Hpos & HX).
        specialize (Hmax ltac:(lia)). specialize (Hpos ltac:(lia)). cbn [Nat.add] in Hn.
        replace (92%N :: 117%N :: 123%N :: ds ++ 125%N :: r'')
          with (([92%N; 117%N; 123%N] ++ ds ++ [125%N]) ++ r'')
          by (rewrite <- !app_assoc; reflexivity).
        destruct (Nat.leb (length ds) 6) eqn:Elen.
        - (* at most six digits *)
          apply (nf_glue_enc d _ cp).
          + lia.
          + intro d'. rewrite Hcp. apply scan_ub_short; [exact Hh|lia|lia].
          + apply (IH _ _ _ Hd Hl).
        - (* seven or more: copied verbatim, the tail as ordinary characters *)
          assert (Hsplit : exists ds6 h T, ds = ds6 ++ h :: T /\ length ds6 = 6%nat).
          { exists (firstn 6 ds). destruct (skipn 6 ds) as [|h T] eqn:Es.
            - apply (f_equal (@length N)) in Es. rewrite skipn_length in Es. cbn [length] in Es. lia.
            - exists h, T. split; [rewrite <- Es; symmetry; apply firstn_skipn|].
              apply firstn_length_le. lia. }
          destruct Hsplit as (ds6 & h & T & -> & Hl6).
          apply Forall_app in Hh. destruct Hh as (Hh6 & HhT).
          inversion HhT as [|? ? Hxh HT]; subst.
          assert (Hsc : forall d', (d' = 34 \/ d' = 39)%N ->
                    scan_ok d' ([92%N; 117%N; 123%N] ++ (ds6 ++ h :: T) ++ [125%N])
                               ([92%N; 117%N; 123%N] ++ (ds6 ++ h :: T) ++ [125%N])).
          { intros d' Hd'. rewrite <- !app_assoc. cbn [app].
            apply (scan_ub_long d' ds6 h (T ++ [125%N]) Hh6 Hl6 Hxh).
            constructor; [apply hex_plain; assumption|].
            apply Forall_app. split; [apply Forall_plain_hex; assumption|].
            constructor; [|constructor]. unfold plain. lia. }
          apply (nf_glue d _ _ _ (Hsc d Hd) (Hsc 34%N (or_introl eq_refl))).
          apply (IH _ _ _ Hd Hl). }
      (* \uHHHH *)
      destruct t as [|h2 [|h3 [|h4 r'']]]; try discriminate.
      destruct (is_hex x) eqn:X1; [|discriminate]. destruct (is_hex h2) eqn:X2; [|discriminate].
      destruct (is_hex h3) eqn:X3; [|discriminate]. destruct (is_hex h4) eqn:X4; [|discriminate].
      cbn [andb] in H0. fin H0 l Hl.
      pose proof (hex_val_range x X1) as R1. pose proof (hex_val_range h2 X2) as R2.
      pose proof (hex_val_range h3 X3) as R3. pose proof (hex_val_range h4 X4) as R4.
      change (nf d ([92%N; 117%N; x; h2; h3; h4] ++ r'')).
      apply (nf_glue_enc d _ (hex_val x * 4096 + hex_val h2 * 256 + hex_val h3 * 16 + hex_val h4)).
      - lia.
      - intro d'. apply scan_u4; assumption.
      - apply (IH _ _ _ Hd Hl). }
    destruct (N.eqb e 10) eqn:E12.
    { (* line continuation: backslash LF *)
      apply N.eqb_eq in E12. subst e. esc_case IH Hd H. }
    destruct (N.eqb e 13) eqn:E13.
    { (* line continuation: backslash CR [LF] *)
      apply N.eqb_eq in E13. subst e. clear H. rewrite sv_cr in H0 by exact Ecd.
      assert (Hcases : (exists r'', r' = 10%N :: r'' /\ sv_fuel f d r'' = Some v) \/
                       sv_fuel f d r' = Some v).
      { destruct r' as [|x t]; [right; auto|]. destruct (N.eqb x 10) eqn:Ex.
        - apply N.eqb_eq in Ex. subst x. left. exists t. auto.
        - right. auto. }
      destruct Hcases as [(r'' & -> & Hl)|Hl].
      - assert (Hsc : forall d', (d' = 34 \/ d' = 39)%N ->
                  scan_ok d' [92%N; 13%N; 10%N] [92%N; 13%N; 10%N]).
        { intros d' Hd'.
          apply (scan_ok_app d' [92%N; 13%N] [92%N; 13%N] [10%N] [10%N]); [apply scan_esc; reflexivity|].
          apply scan_plains. constructor; [|constructor]. unfold plain. lia. }
        apply (nf_glue d [92%N; 13%N; 10%N] _ _ (Hsc d Hd) (Hsc 34%N (or_introl eq_refl))).
        apply (IH _ _ _ Hd Hl).
      - esc_case IH Hd Hl. }
    (* identity escape / LS, PS continuation *)
    destruct (utf8_decode1 (e :: r')) as [[cp r'']|] eqn:Hdec; [|discriminate].
    destruct (decode_split _ _ _ Hdec) as (b0 & cs & Heq & Hcs & HX & _ & _).
    injection Heq as <- ->.
    assert (Hscan : forall d', (d' = 34 \/ d' = 39)%N ->
              scan_ok d' ([92%N; e] ++ cs) ([92%N; e] ++ cs)).
    { intros d' Hd'. apply scan_ok_app; [apply scan_esc; assumption|].
      apply scan_plains. apply Forall_plain_cont; assumption. }
    assert (Hl : exists l, sv_fuel f d r'' = Some l).
    { destruct ((cp =? 8232) || (cp =? 8233)); [exists v; exact H|].
      fin H l Hl. exists l. reflexivity. }
    destruct Hl as (l & Hl).
    change (92%N :: e :: cs ++ r'') with (([92%N; e] ++ cs) ++ r'').
    apply (nf_glue d _ _ _ (Hscan d Hd) (Hscan 34%N (or_introl eq_refl))).
    apply (IH _ _ _ Hd Hl). }
  (* an ordinary source character *)
  clear H0.
  destruct (utf8_decode1 (c :: r)) as [[cp r'']|] eqn:Hdec; [|discriminate]. fin H l Hl.
  destruct (decode_split _ _ _ Hdec) as (b0 & cs & Heq & Hcs & HX & Hsmall & _).
  injection Heq as <- ->.
  destruct (N.eqb c 34) eqn:Edq.
  - (* a double quote inside single quotes gets a backslash *)
    apply N.eqb_eq in Edq. subst c. destruct (Hsmall eq_refl) as (-> & ->).
    apply (nf_glue d [34%N] [92%N; 34%N]).
    + apply scan_dq. exact Ecd.
    + apply scan_esc; reflexivity.
    + apply (IH _ _ _ Hd Hl).
  - change (c :: cs ++ r'') with ((c :: cs) ++ r'').
    apply (nf_glue d (c :: cs) (c :: cs)).
    + apply scan_plains. constructor; [unfold plain; auto|]. apply Forall_plain_cont; assumption.
    + apply scan_plains. constructor; [unfold plain; auto|].
      apply Forall_plain_cont; [left; reflexivity|assumption].
    + apply (IH _ _ _ Hd Hl).
Qed.

Lemma SV_nf d body : (d = 34 \/ d = 39)%N -> SV d body <> None -> nf d body.
Proof.
  intros Hd H. destruct (SV d body) as [v|] eqn:E; [|congruence].
  exact (sv_nf _ d body v Hd E).
Qed.

(* ------------------------------------------------------------------ *)
(* 3. from chunks to [read_string] and [relex_string]                  *)
(* ------------------------------------------------------------------ *)

Lemma read_string_of_scan d body out rest l0 :
  N.eqb d 92 = false -> scan_ok d body out -> inp l0 = body ++ d :: rest ->
  exists l', read_string d l0 = (out, true, l') /\ l_rest l' = d :: rest.
Proof.
  intros Hd (k & Hk & Hs) Hi. unfold read_string.
  assert (Hlen : length (l_rest l0) = S (length (body ++ d :: rest))).
  { unfold inp in Hi. destruct (l_rest l0) as [|c0 r0]; cbn [tl] in Hi.
    - destruct body; discriminate Hi.
    - rewrite Hi. reflexivity. }
  rewrite Hlen, app_length. cbn [length].
  rewrite (Hs _ l0 [] (d :: rest) Hi) by lia. cbn [app].
  replace (S (S (length body + S (length rest))) - k)%nat
    with (S (S (length body + S (length rest)) - k))%nat by lia.
  assert (Hi' : inp (StringProofs.adv (length body) l0) = d :: rest).
  { rewrite inp_adv, Hi. apply skipn_len_app. }
  rewrite (it_delim _ d _ out rest Hi' Hd).
  eexists. split; [reflexivity|]. rewrite rest_rc. exact Hi'.
Qed.

Lemma relex_string_of_scan lit : scan_ok 34 lit lit -> relex_string lit = true.
Proof.
  intro Hs. unfold relex_string. cbn [app].
  set (T := 34%N :: lit ++ [34%N]).
  set (la := clean (lx_init T)).
  assert (TS : tstart T) by (split; [reflexivity|discriminate]).
  destruct (read_string_of_scan 34 lit lit [] la eq_refl Hs eq_refl) as (l1 & Hr & Hl1).
  assert (Nx : next_token (lx_init T) =
               (new_token_at l1 T_STRING lit (cur_pos la), read_char l1)).
  { unfold next_token, next_token_with. rewrite rlc_stop by exact TS. fold la.
    rewrite (base_dquote la eq_refl). unfold DQUOTE. rewrite Hr. reflexivity. }
  destruct (tokenize_two T _ _ ltac:(discriminate) Nx ltac:(discriminate)) as (e & -> & Te).
  { rewrite read_char_rest, Hl1. reflexivity. }
  cbn [t_type t_lit new_token_at]. rewrite Te, str_eqb_refl. reflexivity.
Qed.

(* ------------------------------------------------------------------ *)
(* 4. one token of a lexed source                                      *)
(* ------------------------------------------------------------------ *)

(* the source text of a string literal: a quote, a body that has a string value, and the
   same quote again *)
Definition string_lexeme_valid (x : str) : Prop :=
  exists d body, (d = 34%N \/ d = 39%N) /\ x = d :: body ++ [d] /\ SV d body <> None.

Lemma base_squote l : cur l = 39%N ->
  base_next_token l = string_token l T_STRING (read_string SQUOTE l) (cur_pos l).
Proof. intro H. unfold base_next_token. cbv zeta. rewrite H. reflexivity. Qed.

Lemma base_quote l d : (d = 34 \/ d = 39)%N -> cur l = d ->
  base_next_token l = string_token l T_STRING (read_string d l) (cur_pos l).
Proof.
  intros [-> | ->] H; [exact (base_dquote l H)|exact (base_squote l H)].
Qed.

Lemma step_string_stable l g x t l' :
  step_span l = (g, x, t, l') -> string_lexeme_valid x -> string_stable t = true.
Proof.
  intros H (d & body & Hd & Hx & Hv). unfold step_span in H. cbv zeta in H.
  set (l1 := read_leading_comments l) in *.
  destruct (at_eof l1) eqn:EOF.
  { rewrite (base_next_token_eof l1 EOF) in H. apply at_eof_true in EOF.
    rewrite EOF in H. injection H as _ E2 _ _. rewrite <- E2 in Hx. discriminate Hx. }
  pose proof (base_next_token_P l1 EOF) as (x0 & (A1 & _) & _).
  destruct (base_next_token l1) as [t0 l2] eqn:B. cbn [fst snd] in A1.
  injection H as _ E2 <- _. rewrite <- E2 in Hx. clear E2.
  rewrite A1, consumed_app in Hx. subst x0.
  assert (Hi : inp l1 = body ++ d :: l_rest l2).
  { unfold inp. rewrite A1. cbn [app tl]. rewrite <- app_assoc. reflexivity. }
  assert (Hc : cur l1 = d) by (unfold cur; rewrite A1; reflexivity).
  destruct (SV_nf d body Hd Hv) as (out & S1 & S2).
  destruct (read_string_of_scan d body out (l_rest l2) l1 ltac:(lia) S1 Hi) as (l3 & Hr & _).
  rewrite (base_quote l1 d Hd Hc), Hr in B. unfold string_token in B.
  inversion B; subst t0 l2.
  unfold string_stable, new_token_at. cbn [t_type t_lit].
  rewrite (relex_string_of_scan out S2). apply orb_true_r.
Qed.

Lemma spans_from_stable : forall f l ss,
  spans_from f l = Some ss ->
  (forall s, In s ss -> t_type (sp_tok s) = T_STRING -> string_lexeme_valid (sp_lexeme s)) ->
  strings_stable (map sp_tok ss) = true.
Proof.
  induction f as [|f IH]; intros l ss H Hv; cbn [spans_from] in H; [discriminate H|].
  destruct (step_span l) as [[[g x] t] l'] eqn:S.
  assert (Ht : (forall s, In s ss -> t_type (sp_tok s) = T_STRING -> string_lexeme_valid (sp_lexeme s)) ->
               In (mkspan g x t) ss -> string_stable t = true).
  { intros Hv' Hin. destruct (t_type t =? T_STRING) eqn:Ety.
    - apply Z.eqb_eq in Ety. apply (step_string_stable l g x t l' S).
      exact (Hv' (mkspan g x t) Hin Ety).
    - unfold string_stable. rewrite Ety. reflexivity. }
  destruct (t_type t =? T_EOF).
  - inversion H; subst ss. unfold strings_stable. cbn [map forallb sp_tok].
    rewrite (Ht Hv (or_introl eq_refl)). reflexivity.
  - destruct (spans_from f l') as [ss'|] eqn:R; [|discriminate H]. inversion H; subst ss.
    unfold strings_stable. cbn [map forallb sp_tok].
    rewrite (Ht Hv (or_introl eq_refl)). cbn [andb].
    apply (IH l' ss' R). intros s Hin. apply Hv. right. exact Hin.
Qed.

(* ------------------------------------------------------------------ *)
(* 5. the theorem                                                      *)
(* ------------------------------------------------------------------ *)

Theorem valid_strings_stable : forall src ss toks,
  spans src = Some ss -> tokenize src = Some toks ->
  (forall s, In s ss -> t_type (sp_tok s) = T_STRING -> string_lexeme_valid (sp_lexeme s)) ->
  strings_stable toks = true.
Proof.
  intros src ss toks Hs Ht Hv.
  unfold tokenize in Ht. rewrite tokenize_from_spans in Ht.
  unfold spans in Hs. rewrite Hs in Ht. cbn [option_map] in Ht. injection Ht as <-.
  exact (spans_from_stable _ _ _ Hs Hv).
Qed.

Print Assumptions valid_strings_stable.

(* the counterexample to the same statement with validity of the scanned literal in place
   of validity of the source literal *)
Example literal_validity_is_not_enough :
  let src := [34; 92; 120; 92; 120; 52; 49; 92; 120; 52; 50; 34]%N in   (* "\x\x41\x42" *)
  option_map (map (fun t => (t_type t, t_lit t, SV 34 (t_lit t), string_stable t))) (tokenize src)
  = Some [(T_STRING, [92; 120; 65; 66]%N, Some [171], false); (T_EOF, [], Some [], true)].
Proof. vm_compute. reflexivity. Qed.
