(* CommentSpec.v -- vocabulary for C15: the comments a tree carries, and trees without them. *)
Require Import Base GoOps Token Tree SourceMap Writer PrinterLib Compile.
Require Import Gen.Printer.

(* apply a function to every token stored in a tree *)
Definition tmap_ident (f : token -> token) (i : ident) : ident := mkident (f (id_tok i)) (id_value i).

Fixpoint tmap_expr (f : token -> token) (e : expr) : expr :=
  match e with
  | ENil => ENil
  | EIdent i => EIdent (tmap_ident f i)
  | EInt t => EInt (f t)
  | EFloat t => EFloat (f t)
  | EString t v => EString (f t) v
  | ERaw t v => ERaw (f t) v
  | EBool t v => EBool (f t) v
  | ENull t => ENull (f t)
  | ELet t n v => ELet (f t) (tmap_ident f n) (tmap_expr f v)
  | EBinary t l op r => EBinary (f t) (tmap_expr f l) op (tmap_expr f r)
  | EUnary t op r => EUnary (f t) op (tmap_expr f r)
  | EPostfix t l op => EPostfix (f t) (tmap_expr f l) op
  | EGroup t e rp => EGroup (f t) (tmap_expr f e) (f rp)
  | ECall t fn args => ECall (f t) (tmap_expr f fn) (map (tmap_expr f) args)
  | EMember t o p c => EMember (f t) (tmap_expr f o) (tmap_expr f p) c
  | EAssign t l v => EAssign (f t) (tmap_expr f l) (tmap_expr f v)
  | ECompound t l op v => ECompound (f t) (tmap_expr f l) op (tmap_expr f v)
  | EFunc t n ps body => EFunc (f t) (option_map (tmap_ident f) n) (map (tmap_ident f) ps) (tmap_stmt f body)
  | EArray t es rb => EArray (f t) (map (tmap_expr f) es) (f rb)
  | EObject t ps rb => EObject (f t) (map (fun kv => (tmap_expr f (fst kv), tmap_expr f (snd kv))) ps) (f rb)
  end
with tmap_stmt (f : token -> token) (s : stmt) : stmt :=
  match s with
  | SNil => SNil
  | SLet t n v => SLet (f t) (tmap_ident f n) (tmap_expr f v)
  | SReturn t v => SReturn (f t) (tmap_expr f v)
  | SExpr e => SExpr (tmap_expr f e)
  | SFunc t n ps body => SFunc (f t) (tmap_ident f n) (map (tmap_ident f) ps) (tmap_stmt f body)
  | SBlock t ss rb => SBlock (f t) (map (tmap_stmt f) ss) (f rb)
  | SIf t c x y => SIf (f t) (tmap_expr f c) (tmap_stmt f x) (tmap_stmt f y)
  | SWhile t c x => SWhile (f t) (tmap_expr f c) (tmap_stmt f x)
  | SFor t i c u x => SFor (f t) (tmap_expr f i) (tmap_expr f c) (tmap_expr f u) (tmap_stmt f x)
  end.

Definition tmap_program (f : token -> token) (p : program) : program :=
  mkprogram (map (tmap_stmt f) (p_stmts p)) (f (p_eof p)).

(* a token without its leading trivia *)
Definition erase_comments (t : token) : token :=
  mktoken (t_type t) (t_lit t) (t_start t) (t_end t) (t_nl t) [].

(* the trivia lists handed to the writer, in the order the operations are issued *)
Definition emitted_comments (ops : list wop) : list (list str) :=
  flat_map (fun o => match o with WComments cs => [cs] | _ => [] end) ops.

(* what WriteLeadingComments appends for a trivia list [cs] at a given indentation text:
   the first entry on the current line (" //text", nothing for a blank-line marker), every
   further entry on its own line: line feed, indentation, then "//text" or nothing *)
Fixpoint render_comments (indent : str) (first : bool) (cs : list str) : str :=
  match cs with
  | [] => []
  | c :: cs' =>
      let body := match c with [] => [] | _ => [47; 47]%N ++ c end in
      (if first then (match c with [] => [] | _ => [32%N] end) else LF :: indent)
      ++ body ++ render_comments indent false cs'
  end.

Definition indent_text (cfg : wcfg) (level : Z) : str :=
  repeat_app (Z.to_nat level) (match w_indent cfg with [] => default_indent | i => i end).

(* ---- comments at statement boundaries (C15) ---- *)

(* the first token the parser reads of an expression / a statement *)
Fixpoint first_tok_expr (e : expr) : option token :=
  match e with
  | ENil => None
  | EIdent i => Some (id_tok i)
  | EInt t | EFloat t | EString t _ | ERaw t _ | EBool t _ | ENull t => Some t
  | ELet t _ _ | EUnary t _ _ | EGroup t _ _ | EFunc t _ _ _ | EArray t _ _ | EObject t _ _ => Some t
  | EBinary _ l _ _ | EPostfix _ l _ | ECall _ l _ | EMember _ l _ _ | EAssign _ l _ | ECompound _ l _ _ => first_tok_expr l
  end.

Definition first_tok_stmt (s : stmt) : option token :=
  match s with
  | SNil => None
  | SLet t _ _ | SReturn t _ | SFunc t _ _ _ | SBlock t _ _ | SIf t _ _ _ | SWhile t _ _ | SFor t _ _ _ _ => Some t
  | SExpr e => first_tok_expr e
  end.

Definition trivia_of (o : option token) : list (list str) :=
  match o with Some t => [t_comments t] | None => [] end.

(* the trivia lists found at the statement boundaries of a tree, in source order: in front
   of every statement of every statement list (program, blocks, function bodies, at any
   depth), in front of every closing brace of a block, and in front of the end of input.
   An item of a trivia list is a comment's text, or [] for a blank line; the first item of a
   list is what follows the previous token on its line (a trailing comment). *)
Fixpoint bnd_expr (e : expr) : list (list str) :=
  let fix exprs (es : list expr) := match es with [] => [] | x :: r => bnd_expr x ++ exprs r end in
  let fix props (ps : list (expr * expr)) :=
    match ps with [] => [] | (k, v) :: r => bnd_expr k ++ bnd_expr v ++ props r end in
  match e with
  | ENil | EIdent _ | EInt _ | EFloat _ | EString _ _ | ERaw _ _ | EBool _ _ | ENull _ => []
  | ELet _ _ v => bnd_expr v
  | EBinary _ l _ r => bnd_expr l ++ bnd_expr r
  | EUnary _ _ r => bnd_expr r
  | EPostfix _ l _ => bnd_expr l
  | EGroup _ x _ => bnd_expr x
  | ECall _ f args => bnd_expr f ++ exprs args
  | EMember _ o p _ => bnd_expr o ++ bnd_expr p
  | EAssign _ l v => bnd_expr l ++ bnd_expr v
  | ECompound _ l _ v => bnd_expr l ++ bnd_expr v
  | EFunc _ _ _ body => bnd_stmt body
  | EArray _ es _ => exprs es
  | EObject _ ps _ => props ps
  end
with bnd_stmt (s : stmt) : list (list str) :=
  let fix stmts (ss : list stmt) :=
    match ss with [] => [] | x :: r => trivia_of (first_tok_stmt x) ++ bnd_stmt x ++ stmts r end in
  match s with
  | SNil => []
  | SLet _ _ v => bnd_expr v
  | SReturn _ v => bnd_expr v
  | SExpr e => bnd_expr e
  | SFunc _ _ _ body => bnd_stmt body
  | SBlock _ ss rb => stmts ss ++ [t_comments rb]
  | SIf _ c a b => bnd_expr c ++ bnd_stmt a ++ bnd_stmt b
  | SWhile _ c b => bnd_expr c ++ bnd_stmt b
  | SFor _ i c u b => bnd_expr i ++ bnd_expr c ++ bnd_expr u ++ bnd_stmt b
  end.

Fixpoint bnd_stmts (ss : list stmt) : list (list str) :=
  match ss with [] => [] | x :: r => trivia_of (first_tok_stmt x) ++ bnd_stmt x ++ bnd_stmts r end.

Definition boundary_trivia (p : program) : list (list str) := bnd_stmts (p_stmts p) ++ [t_comments (p_eof p)].

(* what pretty printing keeps of the boundary trivia: every statement starts a line of its
   own, so an empty list (same line) becomes a plain line break; blank lines before the
   first statement and after the last item of the input are trimmed with the text *)
Definition is_blank_item (c : str) : bool := match c with [] => true | _ => false end.
Fixpoint drop_blank_items (l : list str) : list str :=
  match l with c :: r => if is_blank_item c then drop_blank_items r else l | [] => [] end.
Definition own_line (tr : list str) : list str := match tr with [] => [[]] | _ => tr end.
Definition trim_first (tr : list str) : list str := own_line (drop_blank_items tr).
Definition trim_last (tr : list str) : list str := own_line (rev (drop_blank_items (rev tr))).

Fixpoint norm_middle (l : list (list str)) : list (list str) :=
  match l with
  | [] => []
  | [e] => [trim_last e]
  | x :: r => own_line x :: norm_middle r
  end.
Definition norm_boundaries (l : list (list str)) : list (list str) :=
  match l with
  | [] => []
  | [e] => [trim_last (trim_first e)]
  | x :: r => trim_first x :: norm_middle r
  end.
