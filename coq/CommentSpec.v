(* CommentSpec.v -- vocabulary for C15: the comments a tree carries, and trees without them. *)
Require Import Base GoOps Token Tree SourceMap Writer PrinterLib Compile.
Require Import Gen.Printer.

(* apply a function to every token stored in a tree *)
Definition tmap_ident (f : token -> token) (i : ident) : ident := mkident (f (id_tok i)) (id_value i).

Fixpoint tmap_expr (f : token -> token) (e : expr) : expr :=
  match e with
  | ENil => ENil
  | EIdent i => EIdent (tmap_ident f i)
  | EInt t => EInt (f t)
  | EFloat t => EFloat (f t)
  | EString t v => EString (f t) v
  | ERaw t v => ERaw (f t) v
  | EBool t v => EBool (f t) v
  | ENull t => ENull (f t)
  | ELet t n v => ELet (f t) (tmap_ident f n) (tmap_expr f v)
  | EBinary t l op r => EBinary (f t) (tmap_expr f l) op (tmap_expr f r)
  | EUnary t op r => EUnary (f t) op (tmap_expr f r)
  | EPostfix t l op => EPostfix (f t) (tmap_expr f l) op
  | EGroup t e rp => EGroup (f t) (tmap_expr f e) (f rp)
  | ECall t fn args => ECall (f t) (tmap_expr f fn) (map (tmap_expr f) args)
  | EMember t o p c => EMember (f t) (tmap_expr f o) (tmap_expr f p) c
  | EAssign t l v => EAssign (f t) (tmap_expr f l) (tmap_expr f v)
  | ECompound t l op v => ECompound (f t) (tmap_expr f l) op (tmap_expr f v)
  | EFunc t n ps body => EFunc (f t) (option_map (tmap_ident f) n) (map (tmap_ident f) ps) (tmap_stmt f body)
  | EArray t es rb => EArray (f t) (map (tmap_expr f) es) (f rb)
  | EObject t ps rb => EObject (f t) (map (fun kv => (tmap_expr f (fst kv), tmap_expr f (snd kv))) ps) (f rb)
  end
with tmap_stmt (f : token -> token) (s : stmt) : stmt :=
  match s with
  | SNil => SNil
  | SLet t n v => SLet (f t) (tmap_ident f n) (tmap_expr f v)
  | SReturn t v => SReturn (f t) (tmap_expr f v)
  | SExpr e => SExpr (tmap_expr f e)
  | SFunc t n ps body => SFunc (f t) (tmap_ident f n) (map (tmap_ident f) ps) (tmap_stmt f body)
  | SBlock t ss rb => SBlock (f t) (map (tmap_stmt f) ss) (f rb)
  | SIf t c x y => SIf (f t) (tmap_expr f c) (tmap_stmt f x) (tmap_stmt f y)
  | SWhile t c x => SWhile (f t) (tmap_expr f c) (tmap_stmt f x)
  | SFor t i c u x => SFor (f t) (tmap_expr f i) (tmap_expr f c) (tmap_expr f u) (tmap_stmt f x)
  end.

Definition tmap_program (f : token -> token) (p : program) : program :=
  mkprogram (map (tmap_stmt f) (p_stmts p)) (f (p_eof p)).

(* a token without its leading trivia *)
Definition erase_comments (t : token) : token :=
  mktoken (t_type t) (t_lit t) (t_start t) (t_end t) (t_nl t) [].

(* the trivia lists handed to the writer, in the order the operations are issued *)
Definition emitted_comments (ops : list wop) : list (list str) :=
  flat_map (fun o => match o with WComments cs => [cs] | _ => [] end) ops.

(* what WriteLeadingComments appends for a trivia list [cs] at a given indentation text:
   the first entry on the current line (" //text", nothing for a blank-line marker), every
   further entry on its own line: line feed, indentation, then "//text" or nothing *)
Fixpoint render_comments (indent : str) (first : bool) (cs : list str) : str :=
  match cs with
  | [] => []
  | c :: cs' =>
      let body := match c with [] => [] | _ => [47; 47]%N ++ c end in
      (if first then (match c with [] => [] | _ => [32%N] end) else LF :: indent)
      ++ body ++ render_comments indent false cs'
  end.

Definition indent_text (cfg : wcfg) (level : Z) : str :=
  repeat_app (Z.to_nat level) (match w_indent cfg with [] => default_indent | i => i end).
