(* Lexer.v -- executable model of lexer/lexer.go and lexer/base_functions.go
   (after the fix: commits; see DESIGN.md section 6).
   The cursor is the unread suffix of the input plus line/column; CurrentChar is the
   head of the suffix (0 at the end of input), so "NUL" and "end of input" are
   distinguished by [at_eof] exactly as the code now does with atEOF(). *)
Require Import Base GoOps Token.
Require Import Gen.Tables Gen.Preds.

Record lx := mklx {
  l_rest : str;          (* input[position:] *)
  l_line : Z;
  l_col : Z;
  l_had_nl : bool;       (* hadNewlineBefore *)
  l_comments : list str  (* leadingComments *)
}.

Definition lx_init (src : str) : lx := mklx src 0 0 false [].

Definition cur (l : lx) : N := hd 0%N (l_rest l).
Definition peek (l : lx) : N := match l_rest l with _ :: c :: _ => c | _ => 0%N end.
Definition at_eof (l : lx) : bool := match l_rest l with [] => true | _ => false end.

(* ReadChar (lexer.go): no-op at the end of input *)
Definition read_char (l : lx) : lx :=
  match l_rest l with
  | [] => l
  | c :: r =>
      if N.eqb c LF then mklx r (l_line l + 1) 0 (l_had_nl l) (l_comments l)
      else mklx r (l_line l) (l_col l + 1) (l_had_nl l) (l_comments l)
  end.

Definition cur_pos (l : lx) : pos := mkpos (l_line l) (l_col l).

Definition SPACE : N := 32%N.
Definition SLASH : N := 47%N.
Definition BACKSLASH : N := 92%N.
Definition DQUOTE : N := 34%N.
Definition SQUOTE : N := 39%N.
Definition BACKTICK : N := 96%N.

(* strings.TrimRightFunc(s, unicode.IsSpace): white space is removed from the end, rune by
   rune as utf8.DecodeLastRune reads them: the ASCII white space bytes and the UTF-8
   encodings of U+0085, U+00A0, U+1680, U+2000..U+200A, U+2028, U+2029, U+202F, U+205F,
   U+3000 (an encoding is the last rune exactly when it is a suffix: its first byte is never
   a continuation byte).  The string is handled reversed. *)
Definition ascii_uspace (c : N) : bool := (((9 <=? c) && (c <=? 13)) || (c =? 32))%N.

Definition uspace_tails : list str :=
  [[133; 194]; [160; 194]; [128; 154; 225];
   [128; 128; 226]; [129; 128; 226]; [130; 128; 226]; [131; 128; 226]; [132; 128; 226]; [133; 128; 226];
   [134; 128; 226]; [135; 128; 226]; [136; 128; 226]; [137; 128; 226]; [138; 128; 226];
   [168; 128; 226]; [169; 128; 226]; [175; 128; 226]; [159; 129; 226]; [128; 128; 227]]%N.

Fixpoint strip_prefix (p s : str) : option str :=
  match p, s with
  | [], _ => Some s
  | x :: p', y :: s' => if N.eqb x y then strip_prefix p' s' else None
  | _ :: _, [] => None
  end.

Fixpoint first_strip (ps : list str) (s : str) : option str :=
  match ps with
  | [] => None
  | p :: ps' => match strip_prefix p s with Some r => Some r | None => first_strip ps' s end
  end.

Fixpoint trim_rev (fuel : nat) (r : str) : str :=
  match fuel with
  | O => r
  | S f =>
      match r with
      | [] => []
      | c :: r' =>
          if ascii_uspace c then trim_rev f r'
          else match first_strip uspace_tails r with
               | Some r'' => trim_rev f r''
               | None => r
               end
      end
  end.

Definition trim_right_spaces (s : str) : str := rev (trim_rev (length s) (rev s)).

(* readLeadingComments (lexer.go): one automaton over the input.
   mode: TWs = between items; TSlash = first '/' of "//" consumed;
         TComment acc = inside a comment. *)
Inductive tmode := TWs | TSlash | TComment (acc : str).

Fixpoint trivia (mode : tmode) (rest : str) (line col : Z) (had : bool) (cs : list str)
  : str * Z * Z * bool * list str :=
  match rest with
  | [] =>
      match mode with
      | TComment acc => ([], line, col, had, cs ++ [trim_right_spaces acc])
      | _ => ([], line, col, had, cs)
      end
  | c :: r =>
      match mode with
      | TComment acc =>
          if N.eqb c LF then trivia TWs r (line + 1) 0 true (cs ++ [trim_right_spaces acc])
          else trivia (TComment (acc ++ [c])) r line (col + 1) had cs
      | TSlash => (* c is the second '/' *)
          trivia (TComment []) r line (col + 1) had cs
      | TWs =>
          if isWhitespace c then
            if N.eqb c LF then trivia TWs r (line + 1) 0 true (cs ++ [[]])
            else trivia TWs r line (col + 1) had cs
          else if N.eqb c SLASH && N.eqb (hd 0%N r) SLASH then
            trivia TSlash r line (col + 1) had cs
          else (rest, line, col, had, cs)
      end
  end.

Definition read_leading_comments (l : lx) : lx :=
  let '(r, line, col, had, cs) := trivia TWs (l_rest l) (l_line l) (l_col l) false [] in
  mklx r line col had cs.

(* for isX(l.CurrentChar) { l.ReadChar() }: returns the characters consumed *)
Fixpoint read_while (p : N -> bool) (rest : str) (col : Z) : str * str * Z :=
  match rest with
  | [] => ([], [], col)
  | c :: r => if p c then let '(s, r', col') := read_while p r (col + 1) in (c :: s, r', col')
              else ([], rest, col)
  end.

(* none of the predicates used with read_while accepts LF, so the line never changes *)
Definition lx_read_while (p : N -> bool) (l : lx) : str * lx :=
  let '(s, r, col) := read_while p (l_rest l) (l_col l) in
  (s, mklx r (l_line l) col (l_had_nl l) (l_comments l)).

Definition is_ident_char (c : N) : bool := isLetter c || isDigit c.

Definition read_identifier (l : lx) : str * lx := lx_read_while is_ident_char l.

Definition ch (c : N) (l : lx) : bool := N.eqb (cur l) c.

(* readHexNumber / readBinaryNumber / readOctalNumber: consume "0" and the base
   letter, then the digits (none = "invalid, return what we have") *)
Definition read_based_number (isd : N -> bool) (l : lx) : str * lx :=
  let c0 := cur l in
  let l1 := read_char l in
  let c1 := cur l1 in
  let l2 := read_char l1 in
  let '(ds, l3) := lx_read_while isd l2 in
  (c0 :: c1 :: ds, l3).

(* readNumber *)
Definition read_number (l : lx) : str * Z * lx :=
  let p := peek l in
  if ch 48 l && (N.eqb p 120 || N.eqb p 88) then
    let '(s, l') := read_based_number isHexDigit l in (s, T_INT, l')
  else if ch 48 l && (N.eqb p 98 || N.eqb p 66) then
    let '(s, l') := read_based_number isBinaryDigit l in (s, T_INT, l')
  else if ch 48 l && (N.eqb p 111 || N.eqb p 79) then
    let '(s, l') := read_based_number isOctalDigit l in (s, T_INT, l')
  else
    let '(ip, l1) := lx_read_while isDigit l in
    (* fraction: a '.' after the integer digits belongs to the numeral, with or without
       fraction digits *)
    let '(fp, ty1, l2) :=
      if ch 46 l1 then
        let ldot := read_char l1 in
        let '(fd, l2) := lx_read_while isDigit ldot in
        (46%N :: fd, T_FLOAT, l2)
      else ([], T_INT, l1) in
    (* exponent *)
    if ch 101 l2 || ch 69 l2 then
      let e := cur l2 in
      let l3 := read_char l2 in
      let '(sg, l4) := if ch 43 l3 || ch 45 l3 then ([cur l3], read_char l3) else ([], l3) in
      if negb (isDigit (cur l4)) then (ip ++ fp ++ [e] ++ sg, T_FLOAT, l4)
      else
        let '(ed, l5) := lx_read_while isDigit l4 in
        (ip ++ fp ++ [e] ++ sg ++ ed, T_FLOAT, l5)
    else (ip ++ fp, ty1, l2).

(* the \u{...} digit loop: peeks; consumes up to 6 hex digits and a closing brace.
   Returns (digits, isValid, lexer).  On exit the current character is the '}' (valid)
   or the last character consumed (invalid: the offending character is not consumed). *)
Fixpoint read_ubrace (fuel : nat) (l : lx) (ds : str) : str * bool * lx :=
  match fuel with
  | O => (ds, false, l)
  | S f =>
      let nx := peek l in
      if N.eqb nx 125 then (ds, true, read_char l)
      else if negb (isHexDigit nx) || (6 <=? length ds)%nat then (ds, false, l)
      else let l' := read_char l in read_ubrace f l' (ds ++ [cur l'])
  end.

Definition hex_value (ds : str) : Z := fold_left (fun v d => v * 16 + hexDigitValue d) ds 0.

(* readString: the [for] loop, one iteration per unit of fuel (each consumes >= 1 byte) *)
Fixpoint read_string_loop (fuel : nat) (delim : N) (l0 : lx) (acc : str) : str * bool * lx :=
  match fuel with
  | O => (acc, false, l0)
  | S f =>
      let l := read_char l0 in
      if at_eof l then (acc, false, l) else
      let c := cur l in
      if N.eqb c BACKSLASH then
        let l := read_char l in
        if at_eof l then (acc ++ [BACKSLASH], false, l) else
        let e := cur l in
        if N.eqb e 120 then (* \x *)
          let h1 := peek l in
          if isHexDigit h1 then
            let l1 := read_char l in
            let h2 := peek l1 in
            if isHexDigit h2 then
              let l2 := read_char l1 in
              let v := hexDigitValue h1 * 16 + hexDigitValue h2 in
              if mustStayEscaped v then read_string_loop f delim l2 (acc ++ [BACKSLASH; 120%N; h1; h2])
              else read_string_loop f delim l2 (acc ++ encodeUTF8 v)
            else read_string_loop f delim l1 (acc ++ [BACKSLASH; 120%N])
          else read_string_loop f delim l (acc ++ [BACKSLASH; 120%N])
        else if N.eqb e 117 then (* \u *)
          if N.eqb (peek l) 123 then
            let lb := read_char l in
            let '(ds, valid, l1) := read_ubrace 8 lb [] in
            if negb valid || (length ds =? 0)%nat || (6 <? length ds)%nat then
              read_string_loop f delim l1
                (acc ++ [BACKSLASH; 117%N; 123%N] ++ ds ++ (if valid then [125%N] else []))
            else
              let v := hex_value ds in
              if 1114111 <? v then
                read_string_loop f delim l1 (acc ++ [BACKSLASH; 117%N; 123%N] ++ ds ++ [125%N])
              else if mustStayEscaped v then
                read_string_loop f delim l1 (acc ++ [BACKSLASH; 117%N; 123%N] ++ ds ++ [125%N])
              else read_string_loop f delim l1 (acc ++ encodeUTF8 v)
          else
            let h1 := peek l in
            if isHexDigit h1 then
              let l1 := read_char l in let h2 := peek l1 in
              if isHexDigit h2 then
                let l2 := read_char l1 in let h3 := peek l2 in
                if isHexDigit h3 then
                  let l3 := read_char l2 in let h4 := peek l3 in
                  if isHexDigit h4 then
                    let l4 := read_char l3 in
                    let v := hexDigitValue h1 * 4096 + hexDigitValue h2 * 256
                             + hexDigitValue h3 * 16 + hexDigitValue h4 in
                    if mustStayEscaped v then
                      read_string_loop f delim l4 (acc ++ [BACKSLASH; 117%N; h1; h2; h3; h4])
                    else read_string_loop f delim l4 (acc ++ encodeUTF8 v)
                  else read_string_loop f delim l3 (acc ++ [BACKSLASH; 117%N])
                else read_string_loop f delim l2 (acc ++ [BACKSLASH; 117%N])
              else read_string_loop f delim l1 (acc ++ [BACKSLASH; 117%N])
            else read_string_loop f delim l (acc ++ [BACKSLASH; 117%N])
        else read_string_loop f delim l (acc ++ [BACKSLASH; e])
      else if N.eqb c delim then (acc, true, l)
      else if N.eqb c DQUOTE then read_string_loop f delim l (acc ++ [BACKSLASH; c])
      else read_string_loop f delim l (acc ++ [c])
  end.

Definition read_string (delim : N) (l : lx) : str * bool * lx :=
  read_string_loop (S (length (l_rest l))) delim l [].

(* readRawString *)
Fixpoint read_raw_loop (fuel : nat) (l0 : lx) (acc : str) : str * bool * lx :=
  match fuel with
  | O => (acc, false, l0)
  | S f =>
      let l := read_char l0 in
      if at_eof l then (acc, false, l) else
      let c := cur l in
      if N.eqb c BACKSLASH then
        if N.eqb (peek l) BACKTICK then read_raw_loop f (read_char l) (acc ++ [BACKTICK])
        else
          let l1 := read_char l in
          if at_eof l1 then (acc ++ [BACKSLASH], false, l1)
          else read_raw_loop f l1 (acc ++ [BACKSLASH; cur l1])
      else if N.eqb c BACKTICK then (acc, true, l)
      else read_raw_loop f l (acc ++ [c])
  end.

Definition read_raw_string (l : lx) : str * bool * lx :=
  read_raw_loop (S (length (l_rest l))) l [].

(* NewToken / NewTokenAt *)
Definition new_token (l : lx) (ty : Z) (lit : str) : token :=
  mktoken ty lit (cur_pos l) (cur_pos l) (l_had_nl l) (l_comments l).

Definition new_token_at (l : lx) (ty : Z) (lit : str) (start : pos) : token :=
  mktoken ty lit start (cur_pos l) (l_had_nl l) (l_comments l).

(* newTwoCharToken *)
Definition two_char (l : lx) (ty : Z) : token * lx :=
  let start := cur_pos l in
  let c := cur l in
  let l1 := read_char l in
  (new_token_at l1 ty (go_string_of_byte c ++ go_string_of_byte (cur l1)) start, read_char l1).

Definition one_char (l : lx) (ty : Z) : token * lx :=
  (new_token l ty (go_string_of_byte (cur l)), read_char l).

Fixpoint lookup_ident (kws : list (str * Z)) (s : str) : Z :=
  match kws with
  | [] => T_IDENT
  | (k, t) :: kws' => if str_eqb s k then t else lookup_ident kws' s
  end.

Definition string_token (l : lx) (ty : Z) (r : str * bool * lx) (start : pos) : token * lx :=
  let '(lit, terminated, l') := r in
  (new_token_at l' (if terminated then ty else T_ILLEGAL) lit start, read_char l').

(* baseNextToken *)
Definition base_next_token (l : lx) : token * lx :=
  let c := cur l in
  let p := peek l in
  if N.eqb c 61 then (* = *)
    if N.eqb p 61 then two_char l T_EQ else one_char l T_ASSIGN
  else if N.eqb c 33 then (* ! *)
    if N.eqb p 61 then two_char l T_NOT_EQ else one_char l T_NOT
  else if N.eqb c 60 then (* < *)
    if N.eqb p 61 then two_char l T_LTE else one_char l T_LT
  else if N.eqb c 62 then (* > *)
    if N.eqb p 61 then two_char l T_GTE else one_char l T_GT
  else if N.eqb c 38 then (* & *)
    if N.eqb p 38 then two_char l T_AND else one_char l T_ILLEGAL
  else if N.eqb c 124 then (* | *)
    if N.eqb p 124 then two_char l T_OR else one_char l T_ILLEGAL
  else if N.eqb c 43 then (* + *)
    if N.eqb p 43 then two_char l T_INCREMENT
    else if N.eqb p 61 then two_char l T_PLUS_ASSIGN else one_char l T_PLUS
  else if N.eqb c 45 then (* - *)
    if N.eqb p 45 then two_char l T_DECREMENT
    else if N.eqb p 61 then two_char l T_MINUS_ASSIGN else one_char l T_MINUS
  else if N.eqb c 42 then one_char l T_MULTIPLY
  else if N.eqb c 47 then one_char l T_DIVIDE
  else if N.eqb c 37 then one_char l T_MODULO
  else if N.eqb c 44 then one_char l T_COMMA
  else if N.eqb c 59 then one_char l T_SEMICOLON
  else if N.eqb c 58 then one_char l T_COLON
  else if N.eqb c 46 then one_char l T_DOT
  else if N.eqb c 40 then one_char l T_LPAREN
  else if N.eqb c 41 then one_char l T_RPAREN
  else if N.eqb c 123 then one_char l T_LBRACE
  else if N.eqb c 125 then one_char l T_RBRACE
  else if N.eqb c 91 then one_char l T_LBRACKET
  else if N.eqb c 93 then one_char l T_RBRACKET
  else if N.eqb c DQUOTE then string_token l T_STRING (read_string DQUOTE l) (cur_pos l)
  else if N.eqb c SQUOTE then string_token l T_STRING (read_string SQUOTE l) (cur_pos l)
  else if N.eqb c BACKTICK then string_token l T_RAW_STRING (read_raw_string l) (cur_pos l)
  else if N.eqb c 0 then
    if at_eof l then (new_token l T_EOF [], read_char l)
    else one_char l T_ILLEGAL
  else if isLetter c then
    let start := cur_pos l in
    let '(lit, l') := read_identifier l in
    (new_token_at l' (lookup_ident token_keywords lit) lit start, l')
  else if isDigit c then
    let start := cur_pos l in
    let '(lit, ty, l') := read_number l in
    (new_token_at l' ty lit start, l')
  else one_char l T_ILLEGAL.

(* token interceptors: Interceptor func(l *Lexer, next func() token.Token) token.Token,
   shallowly embedded *)
Definition tok_fn := lx -> token * lx.
Definition tok_interceptor := tok_fn -> tok_fn.

(* useTokenInterceptor is applied in installation order, each wrapping the previous
   chain: the LAST installed runs first *)
Definition build_tok_chain (ics : list tok_interceptor) : tok_fn :=
  fold_left (fun next ic => ic next) ics base_next_token.

(* NextToken *)
Definition next_token_with (chain : tok_fn) (l : lx) : token * lx :=
  chain (read_leading_comments l).

Definition next_token : lx -> token * lx := next_token_with base_next_token.

(* the first n tokens *)
Fixpoint next_tokens (n : nat) (l : lx) : list token :=
  match n with
  | O => []
  | S n' => let '(t, l') := next_token l in t :: next_tokens n' l'
  end.

(* all tokens up to and including the first end-of-input token *)
Fixpoint tokenize_from (fuel : nat) (l : lx) : option (list token) :=
  match fuel with
  | O => None
  | S f =>
      let '(t, l') := next_token l in
      if t_type t =? T_EOF then Some [t]
      else match tokenize_from f l' with
           | Some ts => Some (t :: ts)
           | None => None
           end
  end.

Definition tokenize (src : str) : option (list token) :=
  tokenize_from (S (length src)) (lx_init src).
