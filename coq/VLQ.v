(* VLQ.v -- model of sourcemap/vlq.go:encodeVLQ, and an independent Base64-VLQ
   decoder written from the Source Map v3 text (the specification side). *)
Require Import Base.
Require Import Gen.Tables.

(* ---- model of encodeVLQ (sourcemap/vlq.go:10-34) ----
   Go's [int] is int64; the model works on unbounded Z and is faithful exactly
   when [vlq_guard n] holds (|n| < 2^62): outside it [-n << 1] wraps and the Go
   loop does not terminate.  *)

Definition vlq_guard (n : Z) : bool := (- 2 ^ 62 <? n) && (n <? 2 ^ 62).

Definition vlq_signed (n : Z) : Z :=
  if n <? 0 then Z.lor (Z.shiftl (- n) 1) 1 else Z.shiftl n 1.

(* the [for] loop, on explicit fuel (13 digits suffice below 2^63) *)
Fixpoint vlq_digits (fuel : nat) (n : Z) : list Z :=
  match fuel with
  | O => []
  | S f =>
      let digit := Z.land n 31 in
      let n' := Z.shiftr n 5 in
      if 0 <? n' then Z.lor digit 32 :: vlq_digits f n'
      else [digit]
  end.

Definition b64char (d : Z) : N := nthZ base64Chars d 0%N.

Definition vlq_fuel : nat := 14.

Definition encode_vlq (n : Z) : str := map b64char (vlq_digits vlq_fuel (vlq_signed n)).

(* ---- specification: Base64 VLQ as the Source Map v3 proposal defines it ----
   Each character is a base64 digit (RFC 4648 alphabet, no padding) worth 6 bits;
   bit 5 is the continuation flag, bits 0..4 are data, least significant group
   first; the least significant bit of the assembled value is the sign. *)

Definition b64_value (c : N) : option Z :=
  if ((65 <=? c) && (c <=? 90))%N then Some (Z.of_N c - 65)          (* A-Z *)
  else if ((97 <=? c) && (c <=? 122))%N then Some (Z.of_N c - 97 + 26) (* a-z *)
  else if ((48 <=? c) && (c <=? 57))%N then Some (Z.of_N c - 48 + 52)  (* 0-9 *)
  else if (c =? 43)%N then Some 62                                   (* + *)
  else if (c =? 47)%N then Some 63                                   (* / *)
  else None.

(* [acc] = value assembled so far, [shift] = number of data bits consumed *)
Fixpoint decode_vlq_aux (s : str) (acc shift : Z) : option (Z * str) :=
  match s with
  | [] => None
  | c :: s' =>
      match b64_value c with
      | None => None
      | Some d =>
          let acc' := acc + Z.shiftl (Z.land d 31) shift in
          if Z.testbit d 5 then decode_vlq_aux s' acc' (shift + 5)
          else Some ((if Z.testbit acc' 0 then - Z.shiftr acc' 1 else Z.shiftr acc' 1), s')
      end
  end.

Definition decode_vlq (s : str) : option (Z * str) := decode_vlq_aux s 0 0.

Definition base64_char (c : N) : Prop := b64_value c <> None.
