(* C05, every level: operator trees over identifiers and integer literals, mixing built-in
   binary operators with registered infix operators of ANY level, and what it means for
   such a tree to be grouped "like left-associative operators of those levels".
   Specification only (no proofs); the theorem is Props/C05.v : C05_groups_by_level. *)
Require Import Base Token Tree Parser.
Require Import Gen.Tables.

Inductive ctree :=
| CAtom (t : token)
| CBin (l : ctree) (op : token) (r : ctree).

(* the tokens of the tree from left to right *)
Fixpoint cyield (c : ctree) : list token :=
  match c with
  | CAtom t => [t]
  | CBin l op r => cyield l ++ op :: cyield r
  end.

(* the tree the parser is expected to build *)
Fixpoint cexpr (c : ctree) : expr :=
  match c with
  | CAtom t => if t_type t =? T_IDENT then EIdent (mkident t (t_lit t)) else EInt t
  | CBin l op r => EBinary op (cexpr l) (t_lit op) (cexpr r)
  end.

(* the level of a binary operator in a configuration: the level it was registered at, or
   the level of the built-in binary operator (|| 3, && 4, == != 5, < > <= >= 6, + - 7,
   * / % 8); None = not a (usable) binary operator.  A registered type must be a dynamic
   token type without another registered role. *)
Definition builtin_binary_level (ty : Z) : option Z :=
  if ty =? T_OR then Some 3
  else if ty =? T_AND then Some 4
  else if (ty =? T_EQ) || (ty =? T_NOT_EQ) then Some 5
  else if (ty =? T_LT) || (ty =? T_GT) || (ty =? T_LTE) || (ty =? T_GTE) then Some 6
  else if (ty =? T_PLUS) || (ty =? T_MINUS) then Some 7
  else if (ty =? T_MULTIPLY) || (ty =? T_DIVIDE) || (ty =? T_MODULO) then Some 8
  else None.

Definition op_level (cfg : pcfg) (ty : Z) : option Z :=
  if memZ ty (c_postfix_ops cfg) || memZ ty (c_prefix_ops cfg) then None
  else match assoc_opt (c_infix_ops cfg) ty with
       | Some k => if T_DYNAMIC_TOKENS_START <=? ty then Some k else None
       | None => builtin_binary_level ty
       end.

(* the level of the operator at the root; atoms are above every level *)
Definition croot (cfg : pcfg) (c : ctree) : option Z :=
  match c with
  | CAtom _ => None
  | CBin _ op _ => op_level cfg (t_type op)
  end.
Definition root_ge (cfg : pcfg) (c : ctree) (k : Z) : bool :=
  match c with CAtom _ => true | CBin _ op _ =>
    match op_level cfg (t_type op) with Some j => k <=? j | None => false end end.
Definition root_gt (cfg : pcfg) (c : ctree) (k : Z) : bool :=
  match c with CAtom _ => true | CBin _ op _ =>
    match op_level cfg (t_type op) with Some j => k <? j | None => false end end.

(* decimal integer literals the parser converts without error, or identifiers *)
Definition atom_ok (t : token) : bool :=
  (t_type t =? T_IDENT) || ((t_type t =? T_INT) && go_int_ok (t_lit t)).

(* grouped like left-associative operators of their levels: the left operand of an
   operator of level k is an atom or an operator tree of level >= k, the right operand an
   atom or an operator tree of level > k; every level is above LOWEST (an operator
   registered at level 1 is never applied: recorded finding KF18) *)
Fixpoint well_grouped (cfg : pcfg) (c : ctree) : bool :=
  match c with
  | CAtom t => atom_ok t
  | CBin l op r =>
      match op_level cfg (t_type op) with
      | None => false
      | Some k => (P_LOWEST <? k) && root_ge cfg l k && root_gt cfg r k
                  && well_grouped cfg l && well_grouped cfg r
      end
  end.

(* the statement's tokens: the expression, an optional semicolon, the end of input *)
Definition cstmt_tokens (c : ctree) (semi : list token) (eof : token) : list token :=
  cyield c ++ semi ++ [eof].
Definition semi_ok (semi : list token) : bool :=
  match semi with [] => true | [t] => t_type t =? T_SEMICOLON | _ => false end.

(* what the theorem needs of the configuration (each conjunct is necessary, see the
   counterexamples in ClimbProofs.v):
   - no PREFIX operator is registered on the atoms' token types: a registered prefix operator
     shadows the built-in prefix table, so `a` would parse as a unary operator application
     (the builder refuses such a registration: IDENT / INT already have the prefix role);
   - the end-of-input token does not continue the Pratt loop: no postfix operator and no
     infix operator of a level above LOWEST is registered on EOF (implied by ops_sane). *)
Definition cfg_ok (cfg : pcfg) : bool :=
  negb (memZ T_IDENT (c_prefix_ops cfg)) && negb (memZ T_INT (c_prefix_ops cfg))
  && (precedence_of cfg T_EOF <=? P_LOWEST).
