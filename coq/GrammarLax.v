(* GrammarLax.v -- SPECIFICATION: what the strict parser ACCEPTS, as a relaxation of the
   ECMAScript grammar of Grammar.v.  It is Grammar.v with exactly these relaxations
   (each a way in which xjs accepts text that is not valid JavaScript; recorded findings
   KF6, KF7, KF11, KF12):
     1. assignment / compound assignment targets: any expression above assignment level;
        prefix ++/-- operands: any unary-level expression; postfix ++/-- operands: any
        postfix-level expression (Grammar.v: simple targets only);
     2. the name after '.' : any expression a prefix parse can build (Grammar.v: identifier);
     3. object keys: any expression (Grammar.v: identifier, string or number);
     4. the single statement of if / while / for: any statement (Grammar.v: no declaration);
     5. callee / object of call and member access: postfix level (Grammar.v: call level).
   (Function parameters are identifiers, as in Grammar.v: the former relaxation "any token
   as a parameter", KF15, was removed when ParseFunctionParameters was repaired.)
   C12 (soundness): whatever strict mode accepts without error is in this grammar. *)
Require Import Base GoOps Token Tree Parser Grammar.
Require Import Gen.Tables.

(* ---------- matching a tree against a token list ---------- *)

(* consume one token of a given type *)
Definition eat (ty : Z) (ts : list token) : option (token * list token) :=
  match ts with t :: r => if t_type t =? ty then Some (t, r) else None | [] => None end.

(* consume exactly this token *)
Definition eat_tok (t : token) (ts : list token) : option (list token) :=
  match ts with t' :: r => if tok_eqb t t' then Some r else None | [] => None end.

Definition ident_okL (i : ident) : bool :=
  (t_type (id_tok i) =? T_IDENT) && str_eqb (id_value i) (t_lit (id_tok i)).

Definition m_identL (i : ident) (ts : list token) : option (list token) :=
  if ident_okL i then eat_tok (id_tok i) ts else None.

(* identifiers separated by commas *)
Fixpoint m_paramsL (ps : list ident) (ts : list token) : option (list token) :=
  match ps with
  | [] => Some ts
  | [p] => m_identL p ts
  | p :: ps' =>
      match m_identL p ts with
      | Some r => match eat T_COMMA r with Some (_, r') => m_paramsL ps' r' | None => None end
      | None => None
      end
  end.

Section MatchL.
  (* open recursion on the tree, closed below with the nested lists *)
  Variable m_exprL : expr -> list token -> option (list token).
  Variable m_stmtL : stmt -> token -> list token -> option (list token).

  Fixpoint m_exprsL (es : list expr) (ts : list token) : option (list token) :=
    match es with
    | [] => Some ts
    | [e] => m_exprL e ts
    | e :: es' =>
        match m_exprL e ts with
        | Some r => match eat T_COMMA r with Some (_, r') => m_exprsL es' r' | None => None end
        | None => None
        end
    end.

  Definition key_okL (k : expr) : bool := true.

  Fixpoint m_propsL (ps : list (expr * expr)) (ts : list token) : option (list token) :=
    match ps with
    | [] => Some ts
    | (k, v) :: ps' =>
        if negb (key_okL k) then None else
        match m_exprL k ts with
        | None => None
        | Some r1 =>
            match eat T_COLON r1 with
            | None => None
            | Some (_, r2) =>
                match m_exprL v r2 with
                | None => None
                | Some r3 =>
                    match ps' with
                    | [] => Some r3
                    | _ => match eat T_COMMA r3 with Some (_, r4) => m_propsL ps' r4 | None => None end
                    end
                end
            end
        end
    end.

  (* a statement list; [next] is the token that follows the list (closing brace or end
     of input); each statement sees the token that follows IT *)
  Fixpoint m_stmtsL (ss : list stmt) (next : token) (ts : list token) : option (list token) :=
    match ss with
    | [] => Some ts
    | s :: ss' =>
        (* the statement needs to know its follower: match it against every split is not
           needed - the statement matcher takes the follower lazily from what remains *)
        match m_stmtL s next ts with
        | Some r => m_stmtsL ss' next r
        | None => None
        end
    end.
End MatchL.

(* the token that follows a statement: the head of what remains, or [next] when the
   statement is the last of its list *)
Definition follower (next : token) (rest : list token) : token :=
  match rest with t :: _ => t | [] => next end.

(* statement end: explicit ';' or automatic insertion judged by [asi] on the follower *)
Definition m_end (asi : token -> bool) (next : token) (ts : list token) : option (list token) :=
  match ts with
  | t :: r => if t_type t =? T_SEMICOLON then Some r
              else if asi t then Some ts else None
  | [] => if asi next then Some [] else None
  end.

(* what a prefix parse can build: everything except the nodes the infix loop builds *)
Definition prefix_built (p : expr) : bool :=
  match p with
  | ENil | ELet _ _ _ | EBinary _ _ _ _ | EPostfix _ _ _ | ECall _ _ _ | EMember _ _ _ _
  | EAssign _ _ _ | ECompound _ _ _ _ => false
  | _ => true
  end.

Fixpoint m_exprL (e : expr) (ts : list token) {struct e} : option (list token) :=
  match e with
  | ENil => None
  | EIdent i => m_identL i ts
  | EInt t => if (t_type t =? T_INT) && go_int_ok (t_lit t) then eat_tok t ts else None
  | EFloat t => if (t_type t =? T_FLOAT) && go_float_ok (t_lit t) then eat_tok t ts else None
  | EString t v => if (t_type t =? T_STRING) && str_eqb v (t_lit t) then eat_tok t ts else None
  | ERaw t v => if (t_type t =? T_RAW_STRING) && str_eqb v (t_lit t) then eat_tok t ts else None
  | EBool t b =>
      if ((t_type t =? T_TRUE) || (t_type t =? T_FALSE)) && Bool.eqb b (t_type t =? T_TRUE)
      then eat_tok t ts else None
  | ENull t => if t_type t =? T_NULL then eat_tok t ts else None
  | ELet t name v =>
      if negb (t_type t =? T_LET) then None else
      match eat_tok t ts with
      | None => None
      | Some r1 =>
          match m_identL name r1 with
          | None => None
          | Some r2 =>
              match v with
              | ENil => Some r2
              | _ => match eat T_ASSIGN r2 with Some (_, r3) => m_exprL v r3 | None => None end
              end
          end
      end
  | EBinary t l op r =>
      match binop_level (t_type t) with
      | None => None
      | Some _ =>
          if negb (str_eqb op (t_lit t)) then None else
          match m_exprL l ts with
          | None => None
          | Some r1 => match eat_tok t r1 with Some r2 => m_exprL r r2 | None => None end
          end
      end
  | EUnary t op r =>
      if negb ((t_type t =? T_NOT) || (t_type t =? T_MINUS) || (t_type t =? T_INCREMENT) || (t_type t =? T_DECREMENT))
         || negb (str_eqb op (t_lit t)) then None
      else match eat_tok t ts with Some r1 => m_exprL r r1 | None => None end
  | EPostfix t l op =>
      if negb ((t_type t =? T_INCREMENT) || (t_type t =? T_DECREMENT)) || negb (str_eqb op (t_lit t))
         || t_nl t then None
      else match m_exprL l ts with Some r1 => eat_tok t r1 | None => None end
  | EGroup lp e rp =>
      if negb (t_type lp =? T_LPAREN) || negb (t_type rp =? T_RPAREN) then None else
      match eat_tok lp ts with
      | None => None
      | Some r1 => match m_exprL e r1 with Some r2 => eat_tok rp r2 | None => None end
      end
  | ECall lp f args =>
      if negb (t_type lp =? T_LPAREN) then None else
      match m_exprL f ts with
      | None => None
      | Some r1 =>
          match eat_tok lp r1 with
          | None => None
          | Some r2 =>
              match m_exprsL m_exprL args r2 with
              | Some r3 => match eat T_RPAREN r3 with Some (_, r4) => Some r4 | None => None end
              | None => None
              end
          end
      end
  | EMember t o p computed =>
      match m_exprL o ts with
      | None => None
      | Some r1 =>
          if computed then
            if negb (t_type t =? T_LBRACKET) then None else
            match eat_tok t r1 with
            | None => None
            | Some r2 =>
                match m_exprL p r2 with
                | Some r3 => match eat T_RBRACKET r3 with Some (_, r4) => Some r4 | None => None end
                | None => None
                end
            end
          else
            if negb (t_type t =? T_DOT) then None else
            match eat_tok t r1 with
            | Some r2 => if prefix_built p then m_exprL p r2 else None
            | None => None
            end
      end
  | EAssign t l v =>
      if negb (t_type t =? T_ASSIGN) then None else
      match m_exprL l ts with
      | None => None
      | Some r1 => match eat_tok t r1 with Some r2 => m_exprL v r2 | None => None end
      end
  | ECompound t l op v =>
      let want := if t_type t =? T_PLUS_ASSIGN then Some [43%N]
                  else if t_type t =? T_MINUS_ASSIGN then Some [45%N] else None in
      match want with
      | None => None
      | Some w =>
          if negb (str_eqb op w) then None else
          match m_exprL l ts with
          | None => None
          | Some r1 => match eat_tok t r1 with Some r2 => m_exprL v r2 | None => None end
          end
      end
  | EFunc t name params body =>
      if negb (t_type t =? T_FUNCTION) then None else
      match eat_tok t ts with
      | None => None
      | Some r1 =>
          match (match name with Some n => m_identL n r1 | None => Some r1 end) with
          | None => None
          | Some r2 =>
              match eat T_LPAREN r2 with
              | None => None
              | Some (_, r3) =>
                  match m_paramsL params r3 with
                  | None => None
                  | Some r4 =>
                      match eat T_RPAREN r4 with
                      | None => None
                      | Some (_, r5) =>
                          (* the body block does not look at its follower *)
                          match body with
                          | SBlock _ _ _ => m_stmtL body zero_token r5
                          | _ => None
                          end
                      end
                  end
              end
          end
      end
  | EArray lb es rb =>
      if negb (t_type lb =? T_LBRACKET) || negb (t_type rb =? T_RBRACKET) then None else
      match eat_tok lb ts with
      | None => None
      | Some r1 => match m_exprsL m_exprL es r1 with Some r2 => eat_tok rb r2 | None => None end
      end
  | EObject lb ps rb =>
      if negb (t_type lb =? T_LBRACE) then None else
      match eat_tok lb ts with
      | None => None
      | Some r1 =>
          match ps with
          | [] => (* the parser does not keep the closing brace of an empty literal *)
              if tok_eqb rb zero_token then
                match eat T_RBRACE r1 with Some (_, r2) => Some r2 | None => None end
              else None
          | _ =>
              if negb (t_type rb =? T_RBRACE) then None else
              match m_propsL m_exprL ps r1 with Some r2 => eat_tok rb r2 | None => None end
          end
      end
  end
(* [next] = the token after the enclosing statement list (used when the statement is
   the last thing before it) *)
with m_stmtL (s : stmt) (next : token) (ts : list token) {struct s} : option (list token) :=
  match s with
  | SNil => None
  | SLet t name v =>
      if negb (t_type t =? T_LET) then None else
      match eat_tok t ts with
      | None => None
      | Some r1 =>
          match m_identL name r1 with
          | None => None
          | Some r2 =>
              match v with
              | ENil => m_end asi_after_let_name next r2
              | _ =>
                  match eat T_ASSIGN r2 with
                  | Some (_, r3) =>
                      match m_exprL v r3 with
                      | Some r4 => m_end asi_after_expression next r4
                      | None => None
                      end
                  | None => None
                  end
              end
          end
      end
  | SReturn t v =>
      if negb (t_type t =? T_RETURN) then None else
      match eat_tok t ts with
      | None => None
      | Some r1 =>
          match v with
          | ENil => m_end asi_after_return next r1
          | _ =>
              (* restricted production: the operand starts on the same line *)
              match r1 with
              | f :: _ =>
                  if t_nl f then None else
                  match m_exprL v r1 with
                  | Some r2 => m_end asi_after_expression next r2
                  | None => None
                  end
              | [] => None
              end
          end
      end
  | SExpr e =>
      match ts with
      | f :: _ =>
          if statement_keyword (t_type f) then None else
          match m_exprL e ts with
          | Some r => m_end asi_after_expression next r
          | None => None
          end
      | [] => None
      end
  | SFunc t name params body =>
      if negb (t_type t =? T_FUNCTION) then None else
      match eat_tok t ts with
      | None => None
      | Some r1 =>
          match m_identL name r1 with
          | None => None
          | Some r2 =>
              match eat T_LPAREN r2 with
              | None => None
              | Some (_, r3) =>
                  match m_paramsL params r3 with
                  | None => None
                  | Some r4 =>
                      match eat T_RPAREN r4 with
                      | None => None
                      | Some (_, r5) =>
                          match body with
                          | SBlock _ _ _ => m_stmtL body zero_token r5
                          | _ => None
                          end
                      end
                  end
              end
          end
      end
  | SBlock lb ss rb =>
      if negb (t_type lb =? T_LBRACE) || negb (t_type rb =? T_RBRACE) then None else
      match eat_tok lb ts with
      | None => None
      | Some r1 =>
          match m_stmtsL m_stmtL ss rb r1 with
          | Some r2 => eat_tok rb r2
          | None => None
          end
      end
  | SIf t c thn els =>
      if negb (t_type t =? T_IF) then None else
      match eat_tok t ts with
      | None => None
      | Some r1 =>
          match eat T_LPAREN r1 with
          | None => None
          | Some (_, r2) =>
              match m_exprL c r2 with
              | None => None
              | Some r3 =>
                  match eat T_RPAREN r3 with
                  | None => None
                  | Some (_, r4) =>
                      match m_stmtL thn next r4 with
                      | None => None
                      | Some r5 =>
                          match els with
                          | SNil => Some r5
                          | _ =>
                              match eat T_ELSE r5 with
                              | Some (_, r6) => m_stmtL els next r6
                              | None => None
                              end
                          end
                      end
                  end
              end
          end
      end
  | SWhile t c body =>
      if negb (t_type t =? T_WHILE) then None else
      match eat_tok t ts with
      | None => None
      | Some r1 =>
          match eat T_LPAREN r1 with
          | None => None
          | Some (_, r2) =>
              match m_exprL c r2 with
              | None => None
              | Some r3 =>
                  match eat T_RPAREN r3 with
                  | Some (_, r4) => m_stmtL body next r4
                  | None => None
                  end
              end
          end
      end
  | SFor t init cond upd body =>
      if negb (t_type t =? T_FOR) then None else
      match eat_tok t ts with
      | None => None
      | Some r1 =>
          match eat T_LPAREN r1 with
          | None => None
          | Some (_, r2) =>
              match (match init with ENil => Some r2 | _ => m_exprL init r2 end) with
              | None => None
              | Some r3 =>
                  match eat T_SEMICOLON r3 with
                  | None => None
                  | Some (_, r4) =>
                      match (match cond with ENil => Some r4 | _ => m_exprL cond r4 end) with
                      | None => None
                      | Some r5 =>
                          match eat T_SEMICOLON r5 with
                          | None => None
                          | Some (_, r6) =>
                              match (match upd with ENil => Some r6 | _ => m_exprL upd r6 end) with
                              | None => None
                              | Some r7 =>
                                  match eat T_RPAREN r7 with
                                  | Some (_, r8) => m_stmtL body next r8
                                  | None => None
                                  end
                              end
                          end
                      end
                  end
              end
          end
      end
  end.

(* a program: the statements, then exactly the end-of-input token *)
Definition m_programL (p : program) (toks : list token) : bool :=
  (t_type (p_eof p) =? T_EOF) &&
  match m_stmtsL m_stmtL (p_stmts p) (p_eof p) toks with
  | Some [e] => tok_eqb e (p_eof p)
  | _ => false
  end.

(* ---------- the level discipline ---------- *)

Section WfL.
  Variable wf_exprL : expr -> bool.
  Fixpoint wf_exprsL (es : list expr) : bool :=
    match es with [] => true | e :: es' => wf_exprL e && wf_exprsL es' end.
  Fixpoint wf_propsL (ps : list (expr * expr)) : bool :=
    match ps with [] => true | (k, v) :: ps' => wf_exprL k && wf_exprL v && wf_propsL ps' end.
End WfL.

Section WfSL.
  Variable wf_stmtL : stmt -> bool.
  Fixpoint wf_stmtsL (ss : list stmt) : bool :=
    match ss with [] => true | s :: ss' => wf_stmtL s && wf_stmtsL ss' end.
End WfSL.

(* declarations are not allowed as the single statement of if / while / for *)
Definition single_statement_okL (s : stmt) : bool :=
  match s with SNil => false | _ => true end.

Fixpoint wf_exprL (e : expr) : bool :=
  match e with
  | ENil => false
  | EIdent _ | EInt _ | EFloat _ | EString _ _ | ERaw _ _ | EBool _ _ | ENull _ => true
  | ELet _ _ _ => false      (* only as the initializer of a for statement, see wf_stmtL *)
  | EBinary t l _ r =>
      match binop_level (t_type t) with
      | Some lv => (lv <=? level l) && (lv <? level r) && wf_exprL l && wf_exprL r
      | None => false
      end
  | EUnary t _ r =>
      (L_UNARY <=? level r) && wf_exprL r
  | EPostfix _ l _ => (L_POSTFIX <=? level l) && wf_exprL l
  | EGroup _ e _ => wf_exprL e
  | ECall _ f args => (L_POSTFIX <=? level f) && wf_exprL f && wf_exprsL wf_exprL args
  | EMember _ o p computed => (L_POSTFIX <=? level o) && wf_exprL o && wf_exprL p
  | EAssign _ l v => (L_ASSIGN <? level l) && wf_exprL l && wf_exprL v
  | ECompound _ l _ v => (L_ASSIGN <? level l) && wf_exprL l && wf_exprL v
  | EFunc _ _ _ body => wf_stmtL body
  | EArray _ es _ => wf_exprsL wf_exprL es
  | EObject _ ps _ => wf_propsL wf_exprL ps
  end
with wf_stmtL (s : stmt) : bool :=
  match s with
  | SNil => false
  | SLet _ _ v => match v with ENil => true | _ => wf_exprL v end
  | SReturn _ v => match v with ENil => true | _ => wf_exprL v end
  | SExpr e => wf_exprL e
  | SFunc _ _ _ body => wf_stmtL body
  | SBlock _ ss _ => wf_stmtsL wf_stmtL ss
  | SIf _ c thn els =>
      wf_exprL c && single_statement_okL thn && wf_stmtL thn &&
      match els with
      | SNil => true
      | _ => single_statement_okL els && wf_stmtL els && negb (ends_in_open_if thn)
      end
  | SWhile _ c b => wf_exprL c && single_statement_okL b && wf_stmtL b
  | SFor _ i c u b =>
      (match i with
       | ENil => true
       | ELet _ _ v => match v with ENil => true | _ => wf_exprL v end
       | _ => wf_exprL i end) &&
      (match c with ENil => true | _ => wf_exprL c end) &&
      (match u with ENil => true | _ => wf_exprL u end) &&
      single_statement_okL b && wf_stmtL b
  end.

Definition wf_programL (p : program) : bool := wf_stmtsL wf_stmtL (p_stmts p).
