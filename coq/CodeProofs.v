(* CodeProofs.v -- C01 (code-level clause): the code of every configuration consists of
   exactly the bytes the printer wrote, in order, separated by layout only. *)
Require Import Base GoOps Token Tree SourceMap Writer PrinterLib Compile WriterSpec TokenSpec.
Require Import Gen.Printer.
Require Import WriterProofs.

(* ------------------------------------------------------------------ *)
(* nolayout                                                            *)
(* ------------------------------------------------------------------ *)

Lemma nl_app a b : nolayout (a ++ b) = nolayout a ++ nolayout b.
Proof. unfold nolayout. apply filter_app. Qed.

Lemma nl_cons_layout c s : layout_byte c = true -> nolayout (c :: s) = nolayout s.
Proof. intro H. unfold nolayout. cbn [filter]. rewrite H. reflexivity. Qed.

Lemma nl_cons_keep c s : layout_byte c = false -> nolayout (c :: s) = c :: nolayout s.
Proof. intro H. unfold nolayout. cbn [filter]. rewrite H. reflexivity. Qed.

Lemma nl_all_layout s : forallb layout_byte s = true -> nolayout s = [].
Proof.
  induction s as [|c s IH]; cbn [forallb]; intro H; [reflexivity|].
  apply andb_true_iff in H as [Hc Hs]. rewrite (nl_cons_layout c s Hc). exact (IH Hs).
Qed.

Lemma nl_single_layout c : layout_byte c = true -> nolayout [c] = [].
Proof. intro H. apply (nl_cons_layout c [] H). Qed.

Lemma space_is_layout c : is_space_go c = true -> layout_byte c = true.
Proof. unfold is_space_go, layout_byte. intro H. rewrite H. reflexivity. Qed.

Lemma blank_is_layout c : is_blank c = true -> layout_byte c = true.
Proof. intro H. apply space_is_layout, blank_is_space, H. Qed.

Lemma sp_is_layout c : N.eqb 32 c = true -> layout_byte c = true.
Proof. intro H. apply blank_is_layout, sp_is_blank, H. Qed.

Lemma nl_blank s : blank_str s -> nolayout s = [].
Proof.
  unfold blank_str. intro H. apply nl_all_layout.
  induction s as [|c s IH]; cbn [forallb] in *; [reflexivity|].
  apply andb_true_iff in H as [Hc Hs]. rewrite (blank_is_layout c Hc), (IH Hs). reflexivity.
Qed.

Lemma nl_drop_while p s : (forall c, p c = true -> layout_byte c = true) ->
  nolayout (drop_while p s) = nolayout s.
Proof.
  intro Hp. induction s as [|c s IH]; cbn [drop_while]; [reflexivity|].
  destruct (p c) eqn:E; [|reflexivity].
  rewrite (nl_cons_layout c s (Hp c E)). exact IH.
Qed.

Lemma nl_dwe p s : (forall c, p c = true -> layout_byte c = true) ->
  nolayout (dwe p s) = nolayout s.
Proof.
  intro Hp. induction s as [|c s IH]; cbn [dwe]; [reflexivity|].
  destruct (dwe p s) as [|x r] eqn:E.
  - destruct (p c) eqn:Ec.
    + rewrite (nl_cons_layout c s (Hp c Ec)). exact IH.
    + destruct (layout_byte c) eqn:El.
      * rewrite !(nl_cons_layout c _ El). exact IH.
      * rewrite !(nl_cons_keep c _ El). rewrite <- IH. reflexivity.
  - destruct (layout_byte c) eqn:El.
    + rewrite !(nl_cons_layout c _ El). exact IH.
    + rewrite !(nl_cons_keep c _ El). rewrite IH. reflexivity.
Qed.

Lemma nl_trim_space s : nolayout (trim_space s) = nolayout s.
Proof.
  rewrite trim_space_dwe, (nl_dwe _ _ space_is_layout). apply nl_drop_while, space_is_layout.
Qed.

Lemma nl_trim_right_sp s : nolayout (trim_right_sp s) = nolayout s.
Proof. rewrite trim_right_sp_dwe. apply nl_dwe, sp_is_layout. Qed.

Lemma layout_LF : layout_byte LF = true.
Proof. reflexivity. Qed.

Lemma nl_join ls : nolayout (join_lines ls) = concat (map nolayout ls).
Proof.
  induction ls as [|l ls IH]; [reflexivity|].
  destruct ls as [|l2 ls].
  - cbn [join_lines map concat]. rewrite app_nil_r. reflexivity.
  - change (join_lines (l :: l2 :: ls)) with (l ++ [LF] ++ join_lines (l2 :: ls)).
    rewrite !nl_app, (nl_single_layout LF layout_LF), IH. reflexivity.
Qed.

Lemma nl_split s : forall cur,
  concat (map nolayout (split_lines s cur)) = nolayout cur ++ nolayout s.
Proof.
  induction s as [|c s IH]; intro cur; cbn [split_lines].
  - cbn [map concat]. reflexivity.
  - destruct (N.eqb_spec c LF) as [E|E].
    + subst c. cbn [map concat]. rewrite (IH []), (nl_cons_layout LF s layout_LF). reflexivity.
    + rewrite (IH (cur ++ [c])), nl_app, <- app_assoc. rewrite <- nl_app. reflexivity.
Qed.

Lemma nl_clean s : nolayout (clean_empty_lines s) = nolayout s.
Proof.
  unfold clean_empty_lines. rewrite nl_join, map_map.
  rewrite (map_ext _ nolayout) by (intro x; apply nl_trim_right_sp).
  rewrite (nl_split (trim_space s) []). cbn [app]. apply nl_trim_space.
Qed.

(* ------------------------------------------------------------------ *)
(* the writer primitives                                               *)
(* ------------------------------------------------------------------ *)

Definition pend_ok (c : N) : Prop := layout_byte c = true.

Lemma nl_write_indent cfg st : blank_str (w_indent cfg) ->
  nolayout (w_buf (write_indent cfg st)) = nolayout (w_buf st).
Proof.
  intro Hb. unfold write_indent, write_raw. cbn [w_buf]. rewrite nl_app.
  rewrite (nl_blank (repeat_app _ _)); [apply app_nil_r|].
  apply blank_repeat_app. destruct (w_indent cfg) as [|x r]; [reflexivity|exact Hb].
Qed.

Lemma write_indent_panic cfg st : w_panic (write_indent cfg st) = w_panic st.
Proof. reflexivity. Qed.

Lemma write_indent_pend cfg st : w_pend (write_indent cfg st) = w_pend st.
Proof. reflexivity. Qed.

Lemma flush_fold cfg : blank_str (w_indent cfg) -> forall q st, Forall pend_ok q ->
  let st' := fold_left (fun s c => if N.eqb c TAB then write_indent cfg s else write_raw cfg s [c]) q st in
  nolayout (w_buf st') = nolayout (w_buf st) /\ w_panic st' = w_panic st.
Proof.
  intros Hb q. induction q as [|c q IH]; intros st Hq; cbn [fold_left].
  - split; reflexivity.
  - inversion Hq as [|? ? Hc Hq']; subst.
    destruct (IH (if N.eqb c TAB then write_indent cfg st else write_raw cfg st [c]) Hq') as [H1 H2].
    cbv zeta. rewrite H1, H2. destruct (N.eqb c TAB).
    + split; [apply nl_write_indent, Hb|reflexivity].
    + split; [|reflexivity]. cbn [write_raw w_buf]. rewrite nl_app, (nl_single_layout c Hc).
      apply app_nil_r.
Qed.

Lemma flush_spec cfg st : blank_str (w_indent cfg) -> Forall pend_ok (w_pend st) ->
  nolayout (w_buf (flush_pending cfg st)) = nolayout (w_buf st) /\
  w_pend (flush_pending cfg st) = [] /\
  w_panic (flush_pending cfg st) = w_panic st.
Proof.
  intros Hb Hq. destruct (flush_fold cfg Hb (w_pend st) st Hq) as [H1 H2].
  unfold flush_pending. cbn [w_buf w_pend w_panic]. auto.
Qed.

Lemma write_rune_spec cfg st c : blank_str (w_indent cfg) -> Forall pend_ok (w_pend st) ->
  nolayout (w_buf (write_rune cfg st c)) = nolayout (w_buf st) ++ nolayout [c] /\
  w_pend (write_rune cfg st c) = [] /\
  w_panic (write_rune cfg st c) = w_panic st.
Proof.
  intros Hb Hq. destruct (flush_spec cfg st Hb Hq) as (H1 & H2 & H3).
  unfold write_rune. cbn [w_buf w_pend w_panic]. rewrite nl_app, H1. auto.
Qed.

Lemma write_string_spec cfg st s : blank_str (w_indent cfg) -> Forall pend_ok (w_pend st) ->
  nolayout (w_buf (write_string cfg st s)) = nolayout (w_buf st) ++ nolayout s /\
  w_pend (write_string cfg st s) = [] /\
  w_panic (write_string cfg st s) = w_panic st.
Proof.
  intros Hb Hq. destruct (flush_spec cfg st Hb Hq) as (H1 & H2 & H3).
  unfold write_string, write_raw. cbn [w_buf w_pend w_panic]. rewrite nl_app, H1. auto.
Qed.

Lemma comment_items_spec cfg : blank_str (w_indent cfg) -> forall cs st first,
  nolayout (w_buf (write_comment_items cfg st first cs)) =
    nolayout (w_buf st) ++ nolayout (concat (map comment_bytes cs)) /\
  w_panic (write_comment_items cfg st first cs) = w_panic st.
Proof.
  intros Hb cs. induction cs as [|c cs IH]; intros st first; cbn [write_comment_items map concat].
  - rewrite app_nil_r. split; reflexivity.
  - match goal with |- context [write_comment_items cfg ?s false cs] =>
      destruct (IH s false) as [H1 H2]; rewrite H1, H2 end.
    split.
    + rewrite nl_app, app_assoc. f_equal.
      destruct c as [|x r].
      * destruct first; cbn [write_raw w_buf comment_bytes]; rewrite ?app_nil_r; [reflexivity|].
        rewrite nl_write_indent by exact Hb. cbn [write_raw w_buf].
        rewrite nl_app, (nl_single_layout LF layout_LF). apply app_nil_r.
      * destruct first; cbn [write_raw w_buf comment_bytes].
        -- rewrite !nl_app, (nl_single_layout 32%N eq_refl), app_nil_r, app_assoc. reflexivity.
        -- rewrite !nl_app, nl_write_indent by exact Hb. cbn [write_raw w_buf].
           rewrite nl_app, (nl_single_layout LF layout_LF), app_nil_r, app_assoc. reflexivity.
    + destruct c as [|x r]; destruct first; reflexivity.
Qed.

(* ------------------------------------------------------------------ *)
(* one step                                                            *)
(* ------------------------------------------------------------------ *)

Lemma Forall_pend_snoc q c : Forall pend_ok q -> pend_ok c -> Forall pend_ok (q ++ [c]).
Proof. intros Hq Hc. apply Forall_app. split; [exact Hq|constructor; [exact Hc|constructor]]. Qed.

Lemma wstep_spec cfg st o : blank_str (w_indent cfg) ->
  w_panic st = false -> Forall pend_ok (w_pend st) ->
  w_panic (wstep cfg st o) = false ->
  nolayout (w_buf (wstep cfg st o)) = nolayout (w_buf st) ++ nolayout (wop_bytes cfg o) /\
  Forall pend_ok (w_pend (wstep cfg st o)).
Proof.
  intros Hb Hp Hq Hf. unfold wstep in *. rewrite Hp in *.
  pose proof (flush_spec cfg st Hb Hq) as (F1 & F2 & F3).
  assert (Hnil : Forall pend_ok []) by constructor.
  assert (Hsame : nolayout (w_buf st) = nolayout (w_buf st) ++ nolayout [])
    by (symmetry; apply app_nil_r).
  destruct o as [s|c| | | | | | |cs|p|line col name|op|]; cbn [wop_bytes].
  - destruct (write_string_spec cfg st s Hb Hq) as (H1 & H2 & H3). rewrite H2. auto.
  - destruct (write_rune_spec cfg st c Hb Hq) as (H1 & H2 & H3). rewrite H2. auto.
  - destruct (write_rune_spec cfg st 59%N Hb Hq) as (H1 & H2 & H3).
    destruct (negb (w_pretty cfg)); [rewrite H2; auto|].
    destruct (w_semis cfg); [rewrite H2; auto|]. auto.
  - destruct (negb (w_pretty cfg)); [auto|].
    destruct (last_is (w_pend st) 32); [auto|]. cbn [set_pend w_buf w_pend].
    split; [exact Hsame|]. apply Forall_pend_snoc; [exact Hq|reflexivity].
  - destruct (negb (w_pretty cfg)); [auto|]. cbn [set_pend w_buf w_pend].
    split; [exact Hsame|]. constructor; [reflexivity|constructor].
  - destruct (negb (w_pretty cfg)); [auto|].
    destruct (last_is (w_pend st) TAB); [auto|]. cbn [set_pend w_buf w_pend].
    split; [exact Hsame|]. apply Forall_pend_snoc; [exact Hq|reflexivity].
  - destruct (negb (w_pretty cfg)); auto.
  - destruct (negb (w_pretty cfg)); [auto|]. destruct (0 <? w_level st); auto.
  - destruct (w_pretty cfg); cbn [negb]; [|auto].
    destruct cs as [|c cs]; [auto|].
    destruct (comment_items_spec cfg Hb (c :: cs) st true) as [H1 H2].
    cbn [set_pend w_buf w_pend]. split; [exact H1|].
    constructor; [reflexivity|constructor; [reflexivity|constructor]].
  - destruct (w_map cfg); cbn [w_buf w_pend]; rewrite F1, F2; auto.
  - destruct (w_map cfg); cbn [w_buf w_pend]; rewrite F1, F2; auto.
  - assert (Hq1 : Forall pend_ok (w_pend (flush_pending cfg st))) by (rewrite F2; exact Hnil).
    destruct (write_rune_spec cfg (flush_pending cfg st) 32%N Hb Hq1) as (H1 & H2 & H3).
    assert (Hrune : nolayout (w_buf (write_rune cfg (flush_pending cfg st) 32)) =
                    nolayout (w_buf st) ++ nolayout [] /\
                    Forall pend_ok (w_pend (write_rune cfg (flush_pending cfg st) 32))).
    { rewrite H1, H2, F1. split; [reflexivity|exact Hnil]. }
    assert (Hst1 : nolayout (w_buf (flush_pending cfg st)) = nolayout (w_buf st) ++ nolayout [] /\
                   Forall pend_ok (w_pend (flush_pending cfg st))).
    { rewrite F1, F2. auto. }
    destruct op as [|c op]; [exact Hst1|].
    destruct (rev (w_buf (flush_pending cfg st))) as [|last r]; [exact Hst1|].
    match goal with |- context [if ?b then _ else _] => destruct b end; [exact Hrune|exact Hst1].
  - cbn [w_panic] in Hf. discriminate Hf.
Qed.

(* ------------------------------------------------------------------ *)
(* the operation list                                                  *)
(* ------------------------------------------------------------------ *)

Lemma fold_panicked cfg ops : forall st, w_panic st = true -> fold_left (wstep cfg) ops st = st.
Proof.
  induction ops as [|o ops IH]; intros st H; cbn [fold_left]; [reflexivity|].
  rewrite (wstep_panicked cfg st o H). exact (IH st H).
Qed.

Lemma fold_not_panicked cfg ops st :
  w_panic (fold_left (wstep cfg) ops st) = false -> w_panic st = false.
Proof.
  intro H. destruct (w_panic st) eqn:E; [|reflexivity].
  rewrite (fold_panicked cfg ops st E) in H. congruence.
Qed.

Lemma wops_bytes_cons cfg o ops : wops_bytes cfg (o :: ops) = wop_bytes cfg o ++ wops_bytes cfg ops.
Proof. reflexivity. Qed.

Lemma fold_is_pieces cfg : blank_str (w_indent cfg) -> forall ops st,
  Forall pend_ok (w_pend st) ->
  w_panic (fold_left (wstep cfg) ops st) = false ->
  nolayout (w_buf (fold_left (wstep cfg) ops st)) =
  nolayout (w_buf st) ++ nolayout (wops_bytes cfg ops).
Proof.
  intros Hb ops. induction ops as [|o ops IH]; intros st Hq Hf; cbn [fold_left] in *.
  - symmetry. apply app_nil_r.
  - pose proof (fold_not_panicked cfg ops _ Hf) as Hf1.
    pose proof (fold_not_panicked cfg [o] st Hf1) as Hp.
    destruct (wstep_spec cfg st o Hb Hp Hq Hf1) as [H1 H2].
    rewrite (IH _ H2 Hf), H1, wops_bytes_cons, nl_app, app_assoc. reflexivity.
Qed.

Theorem wops_is_pieces : forall cfg ops,
  blank_str (w_indent cfg) -> w_panic (run_wops cfg ops) = false ->
  nolayout (w_buf (run_wops cfg ops)) = nolayout (wops_bytes cfg ops).
Proof.
  intros cfg ops Hb Hf. unfold run_wops in *.
  rewrite (fold_is_pieces cfg Hb ops wstate_init (Forall_nil _) Hf). reflexivity.
Qed.

Theorem code_is_pieces : forall cfg p,
  blank_str (w_indent cfg) -> r_panic (compile cfg p) = false ->
  nolayout (r_code (compile cfg p)) = nolayout (wops_bytes cfg (write_program p)).
Proof.
  intros cfg p Hb Hf. unfold compile, finish in *. cbn [r_code r_panic] in *.
  rewrite <- (wops_is_pieces cfg (write_program p) Hb Hf).
  destruct (w_pretty cfg); [apply nl_clean|reflexivity].
Qed.
