(* TotalProofs.v -- the linear fuel of Parser.parse_tokens is never exhausted (C11_total).

   Measure [M s]: the number of token positions the window can still advance over.
   Window invariant [W s]: the lexer's end token and the last token of the stream are
   EOF-typed.  Every Parse* function returns a state that satisfies [W], whose measure
   did not grow, and whose scratch register ps_cep is restored.  Nested calls through
   stmt_fn / expr_fn happen only on states of strictly smaller measure, except the one
   free transition statement -> expression; hence fuel 2 * M s + 3 is enough. *)
From Coq Require Import ZifyBool ZifyN ZifyNat Lia.
Require Import Base GoOps Token Tree Parser ParserSpec.
Require Import Gen.Tables.

(* ---------- window invariant and measure ---------- *)

Definition W (s : pstate) : Prop :=
  t_type (ps_eof s) = T_EOF /\ t_type (last (ps_rest s) (ps_peek s)) = T_EOF.

Definition M (s : pstate) : nat :=
  match ps_rest s with
  | [] => if t_type (ps_cur s) =? T_EOF then 0%nat else 1%nat
  | _ :: r => S (S (length r))
  end.

Lemma last_cons {A} (t : A) r d : last (t :: r) d = last r t.
Proof.
  revert t d; induction r as [|a r IH]; intros t d; [reflexivity|].
  change (last (t :: a :: r) d) with (last (a :: r) d).
  rewrite (IH a d), (IH a t). reflexivity.
Qed.

Lemma next_facts s : W s ->
  W (ps_next s) /\ (M (ps_next s) <= pred (M s))%nat /\
  ps_cep (ps_next s) = ps_cep s /\ ps_cur (ps_next s) = ps_peek s.
Proof.
  intros [He Hl]. unfold W, M, ps_next.
  destruct (ps_rest s) as [|t r] eqn:Er; cbn [ps_eof ps_rest ps_peek ps_cur ps_cep].
  - cbn [last] in Hl |- *. rewrite Hl, Z.eqb_refl.
    repeat split; auto. destruct (t_type (ps_cur s) =? T_EOF); cbn [pred]; lia.
  - rewrite last_cons in Hl. repeat split; auto.
    destruct r as [|t' r']; cbn [length pred].
    + destruct (t_type (ps_peek s) =? T_EOF); lia.
    + lia.
Qed.

Lemma M_pos_cur s : t_type (ps_cur s) <> T_EOF -> (1 <= M s)%nat.
Proof.
  intro H. unfold M. destruct (ps_rest s); [|lia].
  destruct (t_type (ps_cur s) =? T_EOF) eqn:E; [|lia]. apply Z.eqb_eq in E. contradiction.
Qed.

Lemma M_pos_peek s : W s -> t_type (ps_peek s) <> T_EOF -> (1 <= M s)%nat.
Proof.
  intros [_ Hl] H. unfold M. destruct (ps_rest s); [|lia].
  cbn [last] in Hl. contradiction.
Qed.

Lemma M_zero_peek s : W s -> M s = 0%nat -> t_type (ps_peek s) = T_EOF.
Proof.
  intros HW H0. destruct (Z.eq_dec (t_type (ps_peek s)) T_EOF) as [E|E]; [exact E|].
  pose proof (M_pos_peek s HW E). lia.
Qed.

(* ---------- state modifiers that do not move the window ---------- *)

Lemma W_add_error_at s k a t : W (add_error_at s k a t) <-> W s. Proof. reflexivity. Qed.
Lemma W_add_error s k a : W (add_error s k a) <-> W s. Proof. reflexivity. Qed.
Lemma W_set_ctx s c : W (set_ctx s c) <-> W s. Proof. reflexivity. Qed.
Lemma W_push_ctx s c : W (push_ctx s c) <-> W s. Proof. reflexivity. Qed.
Lemma W_pop_ctx s : W (pop_ctx s) <-> W s. Proof. reflexivity. Qed.
Lemma W_set_cep s p : W (set_cep s p) <-> W s. Proof. reflexivity. Qed.
Lemma W_log_event s i k : W (log_event s i k) <-> W s. Proof. reflexivity. Qed.

Lemma M_add_error_at s k a t : M (add_error_at s k a t) = M s. Proof. reflexivity. Qed.
Lemma M_add_error s k a : M (add_error s k a) = M s. Proof. reflexivity. Qed.
Lemma M_set_ctx s c : M (set_ctx s c) = M s. Proof. reflexivity. Qed.
Lemma M_push_ctx s c : M (push_ctx s c) = M s. Proof. reflexivity. Qed.
Lemma M_pop_ctx s : M (pop_ctx s) = M s. Proof. reflexivity. Qed.
Lemma M_set_cep s p : M (set_cep s p) = M s. Proof. reflexivity. Qed.
Lemma M_log_event s i k : M (log_event s i k) = M s. Proof. reflexivity. Qed.

Lemma cep_add_error_at s k a t : ps_cep (add_error_at s k a t) = ps_cep s. Proof. reflexivity. Qed.
Lemma cep_add_error s k a : ps_cep (add_error s k a) = ps_cep s. Proof. reflexivity. Qed.
Lemma cep_set_ctx s c : ps_cep (set_ctx s c) = ps_cep s. Proof. reflexivity. Qed.
Lemma cep_push_ctx s c : ps_cep (push_ctx s c) = ps_cep s. Proof. reflexivity. Qed.
Lemma cep_pop_ctx s : ps_cep (pop_ctx s) = ps_cep s. Proof. reflexivity. Qed.
Lemma cep_set_cep s p : ps_cep (set_cep s p) = p. Proof. reflexivity. Qed.
Lemma cep_log_event s i k : ps_cep (log_event s i k) = ps_cep s. Proof. reflexivity. Qed.

Lemma cur_push_ctx s c : ps_cur (push_ctx s c) = ps_cur s. Proof. reflexivity. Qed.
Lemma peek_push_ctx s c : ps_peek (push_ctx s c) = ps_peek s. Proof. reflexivity. Qed.
Lemma cur_set_cep s c : ps_cur (set_cep s c) = ps_cur s. Proof. reflexivity. Qed.
Lemma peek_set_cep s c : ps_peek (set_cep s c) = ps_peek s. Proof. reflexivity. Qed.
Lemma cur_log_event s i k : ps_cur (log_event s i k) = ps_cur s. Proof. reflexivity. Qed.
Lemma peek_log_event s i k : ps_peek (log_event s i k) = ps_peek s. Proof. reflexivity. Qed.

Global Hint Rewrite W_add_error_at W_add_error W_set_ctx W_push_ctx W_pop_ctx W_set_cep W_log_event
  M_add_error_at M_add_error M_set_ctx M_push_ctx M_pop_ctx M_set_cep M_log_event
  cep_add_error_at cep_add_error cep_set_ctx cep_push_ctx cep_pop_ctx cep_set_cep cep_log_event
  cur_push_ctx peek_push_ctx cur_set_cep peek_set_cep cur_log_event peek_log_event : pst.

(* ---------- the postcondition: a result, in a good state, with bounded measure ---------- *)

Definition okm {A} (c : Z) (b : nat) (r : res A) : Prop :=
  exists x s', r = Some (x, s') /\ W s' /\ (M s' <= b)%nat /\ ps_cep s' = c.

Notation ok s r := (okm (ps_cep s) (M s) r).

Lemma okm_ret {A} c b (x : A) s' : W s' -> (M s' <= b)%nat -> ps_cep s' = c -> okm c b (Some (x, s')).
Proof. intros. exists x, s'. auto. Qed.

Lemma okm_weaken {A} c b b' (r : res A) : okm c b r -> (b <= b')%nat -> okm c b' r.
Proof. intros (x & s' & E & HW & HM & HC) Hb. exists x, s'. split; [|split; [|split]]; auto; lia. Qed.

(* ExpectToken / ExpectSemicolonASI *)
Lemma expect_cases s ty : W s ->
  exists b s1, expect s ty = (b, s1) /\ W s1 /\ (M s1 <= M s)%nat /\ ps_cep s1 = ps_cep s /\
               (b = true -> (M s1 <= pred (M s))%nat).
Proof.
  intros HW. unfold expect. destruct (peek_is s ty).
  - destruct (next_facts s HW) as (H1 & H2 & H3 & _).
    exists true, (ps_next s). split; [|split; [|split; [|split]]]; auto; lia.
  - eexists false, _. split; [reflexivity|]. autorewrite with pst.
    split; [|split; [|split]]; auto; discriminate.
Qed.

Lemma asi_cases cfg s : W s ->
  exists b s1, expect_semicolon_asi cfg s = (b, s1) /\ W s1 /\ (M s1 <= M s)%nat /\ ps_cep s1 = ps_cep s.
Proof.
  intros HW. unfold expect_semicolon_asi. destruct (peek_is s T_SEMICOLON).
  - destruct (next_facts s HW) as (H1 & H2 & H3 & _).
    exists true, (ps_next s). split; [|split; [|split]]; auto; lia.
  - destruct (should_insert_semicolon s); [exists true, s; auto|].
    destruct (c_tolerant cfg); [exists true, s; auto|].
    eexists false, _. split; [reflexivity|]. autorewrite with pst. auto.
Qed.

(* ---------- precedences ---------- *)

Lemma memZ_In x l : memZ x l = true <-> In x l.
Proof.
  induction l as [|y l IH]; cbn [memZ In]; [split; [discriminate|tauto]|].
  rewrite orb_true_iff, IH, Z.eqb_eq. split; intros [H|H]; auto.
Qed.

Lemma assoc_none_mem {B} (l : list (Z * B)) k : assoc_opt l k = None <-> memZ k (map fst l) = false.
Proof.
  induction l as [|[k' v] l IH]; cbn [assoc_opt map memZ fst]; [tauto|].
  destruct (k =? k'); cbn [orb]; [split; discriminate|exact IH].
Qed.

Lemma memZ_incl l1 l2 k : forallb (fun x => memZ x l2) l1 = true -> memZ k l1 = true -> memZ k l2 = true.
Proof.
  intros Hall Hk. rewrite forallb_forall in Hall. apply Hall. apply memZ_In. exact Hk.
Qed.

Lemma prec_table_infix ty : assoc_opt infix_table ty = None -> assoc_opt parser_precedences ty = None.
Proof.
  rewrite !assoc_none_mem. intro H.
  destruct (memZ ty (map fst parser_precedences)) eqn:E; [|reflexivity].
  rewrite (memZ_incl (map fst parser_precedences) (map fst infix_table) ty) in H;
    [discriminate| vm_compute; reflexivity | exact E].
Qed.

Lemma prec_nohandler cfg ty : infix_lookup cfg ty = None -> precedence_of cfg ty = P_LOWEST.
Proof.
  unfold infix_lookup, precedence_of.
  destruct (memZ ty (c_postfix_ops cfg)); [discriminate|].
  destruct (assoc_opt (c_infix_ops cfg) ty); [discriminate|].
  destruct (assoc_opt infix_table ty) eqn:E; [discriminate|].
  intros _. rewrite (prec_table_infix ty E). reflexivity.
Qed.

Lemma prec_eof cfg : ops_sane cfg -> precedence_of cfg T_EOF = P_LOWEST.
Proof.
  intros (_ & H2 & H3). unfold precedence_of. rewrite H2, H3. reflexivity.
Qed.

Lemma memZ_neq x y l : memZ x l = true -> memZ y l = false -> x <> y.
Proof. intros H1 H2 E. subst. congruence. Qed.

Lemma prefix_table_neq ty h : assoc_opt prefix_table ty = Some h -> ty <> T_EOF.
Proof. intros H E. subst. vm_compute in H. discriminate. Qed.

Lemma low_low : P_LOWEST <= P_LOWEST. Proof. vm_compute; discriminate. Qed.
Lemma low_unary : P_LOWEST <= P_UNARY. Proof. vm_compute; discriminate. Qed.
Lemma low_member : P_LOWEST <= P_MEMBER. Proof. vm_compute; discriminate. Qed.

Lemma okm_conv {A} c b c' b' (r : res A) : okm c b r -> c = c' -> (b <= b')%nat -> okm c' b' r.
Proof. intros H <- Hb. eapply okm_weaken; eauto. Qed.

Lemma peek_is_pos s ty : W s -> peek_is s ty = true -> ty <> T_EOF -> (1 <= M s)%nat.
Proof.
  intros HW Hp Hne. apply M_pos_peek; [exact HW|]. unfold peek_is in Hp. apply Z.eqb_eq in Hp. congruence.
Qed.

Lemma cur_is_pos s ty : cur_is s ty = true -> ty <> T_EOF -> (1 <= M s)%nat.
Proof.
  intros Hp Hne. apply M_pos_cur. unfold cur_is in Hp. apply Z.eqb_eq in Hp. congruence.
Qed.

Lemma peek_prec_pos cfg s : ops_sane cfg -> W s -> P_LOWEST < peek_precedence cfg s ->
  t_type (ps_peek s) <> T_EOF /\ (1 <= M s)%nat.
Proof.
  intros Hsane HW Hp.
  assert (Hne : t_type (ps_peek s) <> T_EOF).
  { intro E. unfold peek_precedence in Hp. rewrite E, (prec_eof cfg Hsane) in Hp. lia. }
  split; [exact Hne|]. apply M_pos_peek; assumption.
Qed.

(* ---------- tactics ---------- *)

(* establish [W st] and the relations of [M st], [ps_cep st] to those of the state
   [st] was built from *)
Ltac prep st :=
  first
    [ match goal with H : W st |- _ => idtac end
    | lazymatch st with
      | ps_next ?s0 =>
          prep s0;
          let a := fresh "HW" in let b := fresh "HM" in let c := fresh "HC" in let d := fresh "HU" in
          match goal with H0 : W s0 |- _ => destruct (next_facts s0 H0) as (a & b & c & d) end
      | push_ctx ?s0 ?c =>
          prep s0; let a := fresh "HW" in
          match goal with H0 : W s0 |- _ =>
            assert (a : W (push_ctx s0 c)) by exact H0;
            pose proof (M_push_ctx s0 c); pose proof (cep_push_ctx s0 c) end
      | pop_ctx ?s0 =>
          prep s0; let a := fresh "HW" in
          match goal with H0 : W s0 |- _ =>
            assert (a : W (pop_ctx s0)) by exact H0;
            pose proof (M_pop_ctx s0); pose proof (cep_pop_ctx s0) end
      | add_error ?s0 ?k ?x =>
          prep s0; let a := fresh "HW" in
          match goal with H0 : W s0 |- _ =>
            assert (a : W (add_error s0 k x)) by exact H0;
            pose proof (M_add_error s0 k x); pose proof (cep_add_error s0 k x) end
      | add_error_at ?s0 ?k ?x ?t =>
          prep s0; let a := fresh "HW" in
          match goal with H0 : W s0 |- _ =>
            assert (a : W (add_error_at s0 k x t)) by exact H0;
            pose proof (M_add_error_at s0 k x t); pose proof (cep_add_error_at s0 k x t) end
      | log_event ?s0 ?i ?k =>
          prep s0; let a := fresh "HW" in
          match goal with H0 : W s0 |- _ =>
            assert (a : W (log_event s0 i k)) by exact H0;
            pose proof (M_log_event s0 i k); pose proof (cep_log_event s0 i k) end
      | set_cep ?s0 ?p =>
          prep s0; let a := fresh "HW" in
          match goal with H0 : W s0 |- _ =>
            assert (a : W (set_cep s0 p)) by exact H0;
            pose proof (M_set_cep s0 p); pose proof (cep_set_cep s0 p) end
      end ].

Ltac fin :=
  lazymatch goal with
  | |- okm _ _ (Some (_, ?st)) => prep st; apply okm_ret; [assumption | lia | congruence]
  end.

Ltac destr_ok Hx :=
  let x := fresh "x" in let s1 := fresh "s" in let E := fresh "E" in
  let a := fresh "HW" in let b := fresh "HM" in let c := fresh "HC" in
  destruct Hx as (x & s1 & E & a & b & c); rewrite E; clear E; cbv beta match.

Ltac dexp :=
  match goal with
  | |- context [expect ?s ?t] =>
      prep s;
      match goal with HWs : W s |- _ =>
        let b := fresh "b" in let s1 := fresh "s" in let E := fresh "E" in
        let HW1 := fresh "HW" in let HM := fresh "HM" in let HC := fresh "HC" in let HP := fresh "HP" in
        destruct (expect_cases s t HWs) as (b & s1 & E & HW1 & HM & HC & HP);
        rewrite E; clear E; cbv beta match;
        destruct b; [specialize (HP eq_refl) | clear HP]; cbn [negb]
      end
  end.

Ltac dasi :=
  match goal with
  | |- context [expect_semicolon_asi ?c ?s] =>
      prep s;
      match goal with HWs : W s |- _ =>
        let b := fresh "b" in let s1 := fresh "s" in let E := fresh "E" in
        let HW1 := fresh "HW" in let HM := fresh "HM" in let HC := fresh "HC" in
        destruct (asi_cases c s HWs) as (b & s1 & E & HW1 & HM & HC);
        rewrite E; clear E; cbv beta match; destruct b; cbn [negb]
      end
  end.

Ltac peekpos Hp :=
  match type of Hp with
  | peek_is ?s ?t = true =>
      match goal with H : W s |- _ =>
        pose proof (peek_is_pos s t H Hp ltac:(vm_compute; discriminate)) end
  end.

Ltac solve_prec := first [assumption | exact low_low | exact low_unary | exact low_member].

(* ---------- the Parse* methods under hypotheses on the open recursion ---------- *)

Section Sub.
  Variable cfg : pcfg.
  Hypothesis Hsane : ops_sane cfg.
  Variable sfn : pstate -> res stmt.
  Variable efn : Z -> pstate -> res expr.
  Variable lf : nat.
  Variable K : nat.
  Hypothesis Hs : forall s, W s -> (M s < K)%nat -> ok s (sfn s).
  Hypothesis He : forall prec s, P_LOWEST <= prec -> W s -> (M s < K)%nat -> ok s (efn prec s).
  (* the one free transition statement -> expression needs the expression parser at the same measure *)
  Definition He'_t : Prop := forall prec s, P_LOWEST <= prec -> W s -> (M s <= K)%nat -> ok s (efn prec s).
  Hypothesis Hl : (K < lf)%nat.

  Ltac use_e :=
    match goal with
    | |- context [efn ?p ?st] =>
        prep st;
        let Hx := fresh "Hx" in
        assert (Hx : ok st (efn p st)) by (apply He; [solve_prec | assumption | lia]);
        destr_ok Hx
    end.

  Ltac use_s :=
    match goal with
    | |- context [sfn ?st] =>
        prep st;
        let Hx := fresh "Hx" in
        assert (Hx : ok st (sfn st)) by (apply Hs; [assumption | lia]);
        destr_ok Hx
    end.

  Lemma params_loop_ok n : forall acc s, W s -> (M s < n)%nat -> ok s (params_loop n acc s).
  Proof.
    induction n as [|n IH]; intros acc s HW Hn; [lia|].
    cbn [params_loop]. destruct (peek_is s T_COMMA) eqn:Hp.
    - prep (ps_next s). peekpos Hp. dexp; [|fin].
      eapply okm_conv; [apply IH; [assumption|lia] | congruence | lia].
    - dexp; fin.
  Qed.

  Lemma parse_function_parameters_ok s : W s -> (M s < lf)%nat -> ok s (parse_function_parameters lf s).
  Proof.
    intros HW Hn. unfold parse_function_parameters.
    destruct (peek_is s T_RPAREN); [fin|]. dexp; [|fin].
    eapply okm_conv; [apply params_loop_ok; [assumption|lia] | congruence | lia].
  Qed.

  Lemma block_loop_ok n : forall acc s, W s -> (M s < n)%nat -> (M s < K)%nat -> ok s (block_loop sfn n acc s).
  Proof.
    induction n as [|n IH]; intros acc s HW Hn HK; [lia|].
    cbn [block_loop].
    destruct (negb (cur_is s T_RBRACE) && negb (cur_is s T_EOF)) eqn:Hc; [|fin].
    apply andb_true_iff in Hc as [_ Hc]. apply negb_true_iff in Hc.
    unfold cur_is in Hc. apply Z.eqb_neq in Hc. pose proof (M_pos_cur s Hc).
    use_s. prep (ps_next s0).
    eapply okm_conv; [apply IH; [assumption|lia|lia] | congruence | lia].
  Qed.

  Lemma parse_block_statement_ok s : W s -> (pred (M s) < K)%nat -> ok s (parse_block_statement cfg sfn lf s).
  Proof.
    intros HW HK. unfold parse_block_statement. cbv zeta.
    prep (ps_next (push_ctx s P_BlockContext)).
    assert (Hx : ok (ps_next (push_ctx s P_BlockContext))
                    (block_loop sfn lf [] (ps_next (push_ctx s P_BlockContext))))
      by (apply block_loop_ok; [assumption|lia|lia]).
    destr_ok Hx.
    destruct (negb (cur_is s0 T_RBRACE) && negb (c_tolerant cfg)); fin.
  Qed.

  Lemma expr_list_loop_ok n : forall acc s, W s -> (M s < n)%nat -> (M s <= K)%nat ->
    ok s (expr_list_loop efn n acc s).
  Proof.
    induction n as [|n IH]; intros acc s HW Hn HK; [lia|].
    cbn [expr_list_loop]. destruct (peek_is s T_COMMA) eqn:Hp; [|fin].
    peekpos Hp.
    unfold parse_expression. use_e.
    eapply okm_conv; [apply IH; [assumption|lia|lia] | congruence | lia].
  Qed.

  Lemma parse_expression_list_ok e s : W s -> (pred (M s) < K)%nat ->
    ok s (parse_expression_list efn lf e s).
  Proof.
    intros HW HK. unfold parse_expression_list, parse_expression.
    destruct (peek_is s e); [fin|]. use_e.
    assert (Hx : ok s0 (expr_list_loop efn lf [x] s0)) by (apply expr_list_loop_ok; [assumption|lia|lia]).
    destr_ok Hx. dexp; fin.
  Qed.

  Lemma object_loop_ok n : forall acc s, W s -> (M s < n)%nat -> (M s < K)%nat ->
    ok s (object_loop efn n acc s).
  Proof.
    induction n as [|n IH]; intros acc s HW Hn HK; [lia|].
    cbn [object_loop]. unfold parse_expression. use_e. dexp; [|fin]. use_e. cbv zeta.
    destruct (peek_is s2 T_COMMA) eqn:Hp; cbn [negb]; [|fin].
    peekpos Hp.
    prep (ps_next (ps_next s2)).
    eapply okm_conv; [apply IH; [assumption|lia|lia] | congruence | lia].
  Qed.

  Lemma parse_object_literal_ok s : W s -> (pred (M s) < K)%nat -> ok s (parse_object_literal efn lf s).
  Proof.
    intros HW HK. unfold parse_object_literal. cbv zeta.
    destruct (peek_is s T_RBRACE); [fin|]. prep (ps_next s).
    assert (Hx : ok (ps_next s) (object_loop efn lf [] (ps_next s)))
      by (apply object_loop_ok; [assumption|lia|lia]).
    destr_ok Hx. destruct x; [|fin]. dexp; fin.
  Qed.

  Lemma parse_function_expression_ok s : W s -> (pred (M s) < K)%nat ->
    ok s (parse_function_expression cfg sfn lf s).
  Proof.
    intros HW HK. unfold parse_function_expression. cbv zeta.
    destruct (peek_is s T_IDENT); cbv beta match.
    - dexp; [|fin].
      assert (Hx : ok s0 (parse_function_parameters lf s0))
        by (apply parse_function_parameters_ok; [assumption|lia]).
      destr_ok Hx. dexp; [|fin].
      prep (push_ctx s2 P_FunctionContext).
      assert (Hx : ok (push_ctx s2 P_FunctionContext)
                      (parse_block_statement cfg sfn lf (push_ctx s2 P_FunctionContext)))
        by (apply parse_block_statement_ok; [assumption|lia]).
      destr_ok Hx. fin.
    - dexp; [|fin].
      assert (Hx : ok s0 (parse_function_parameters lf s0))
        by (apply parse_function_parameters_ok; [assumption|lia]).
      destr_ok Hx. dexp; [|fin].
      prep (push_ctx s2 P_FunctionContext).
      assert (Hx : ok (push_ctx s2 P_FunctionContext)
                      (parse_block_statement cfg sfn lf (push_ctx s2 P_FunctionContext)))
        by (apply parse_block_statement_ok; [assumption|lia]).
      destr_ok Hx. fin.
  Qed.

  Lemma parse_grouped_expression_ok s : W s -> (pred (M s) < K)%nat ->
    ok s (parse_grouped_expression efn s).
  Proof.
    intros HW HK. unfold parse_grouped_expression, parse_expression. cbv zeta.
    use_e. dexp; fin.
  Qed.

  Lemma parse_unary_expression_ok s : W s -> (pred (M s) < K)%nat ->
    ok s (parse_unary_expression efn s).
  Proof.
    intros HW HK. unfold parse_unary_expression. cbv zeta. use_e. fin.
  Qed.

  Lemma prefix_handler_run_ok h s : W s -> (pred (M s) < K)%nat ->
    ok s (prefix_handler_run cfg sfn efn lf h s).
  Proof.
    intros HW HK. unfold prefix_handler_run. cbv zeta. destruct h.
    - assert (Hx : ok s (parse_expression_list efn lf T_RBRACKET s))
        by (apply parse_expression_list_ok; assumption).
      destr_ok Hx. fin.
    - fin.
    - destruct (go_float_ok _); fin.
    - apply parse_function_expression_ok; assumption.
    - apply parse_grouped_expression_ok; assumption.
    - fin.
    - destruct (go_int_ok _); fin.
    - fin.
    - fin.
    - apply parse_object_literal_ok; assumption.
    - fin.
    - apply parse_unary_expression_ok; assumption.
  Qed.

  Lemma parse_prefix_expression_ok s : W s -> (M s <= K)%nat ->
    ok s (parse_prefix_expression cfg sfn efn lf s).
  Proof.
    intros HW HK. unfold parse_prefix_expression. cbv zeta.
    destruct (memZ (t_type (ps_cur s)) (c_prefix_ops cfg)) eqn:Hm.
    - pose proof (M_pos_cur s (memZ_neq _ _ _ Hm (proj1 Hsane))).
      apply parse_unary_expression_ok; [assumption|lia].
    - destruct (assoc_opt prefix_table (t_type (ps_cur s))) as [h|] eqn:Hh; [|fin].
      pose proof (M_pos_cur s (prefix_table_neq _ _ Hh)).
      apply prefix_handler_run_ok; [assumption|lia].
  Qed.

  Lemma parse_binary_expression_ok left s : W s -> P_LOWEST <= current_precedence cfg s ->
    (pred (M s) < K)%nat -> ok s (parse_binary_expression cfg efn left s).
  Proof.
    intros HW Hp HK. unfold parse_binary_expression. cbv zeta. use_e. fin.
  Qed.

  Lemma infix_handler_run_ok h left s : W s -> P_LOWEST <= current_precedence cfg s ->
    (pred (M s) < K)%nat -> ok s (infix_handler_run cfg efn lf h left s).
  Proof.
    intros HW Hp HK. unfold infix_handler_run, parse_expression. cbv zeta. destruct h.
    - use_e. fin.
    - apply parse_binary_expression_ok; assumption.
    - assert (Hx : ok s (parse_expression_list efn lf T_RPAREN s))
        by (apply parse_expression_list_ok; assumption).
      destr_ok Hx. fin.
    - use_e. fin.
    - use_e. dexp; fin.
    - use_e. fin.
    - fin.
  Qed.

  Lemma parse_infix_expression_ok left s : W s -> P_LOWEST < peek_precedence cfg s ->
    (M s <= K)%nat -> okm (ps_cep s) (pred (M s)) (parse_infix_expression cfg efn lf left s).
  Proof.
    intros HW Hp HK. unfold parse_infix_expression.
    destruct (peek_prec_pos cfg s Hsane HW Hp) as [Hne Hpos].
    destruct (infix_lookup cfg (t_type (ps_peek s))) as [k|] eqn:Hk.
    2:{ apply prec_nohandler in Hk. unfold peek_precedence in Hp. lia. }
    cbv zeta. prep (ps_next s).
    assert (Hcp : P_LOWEST <= current_precedence cfg (ps_next s)).
    { unfold current_precedence. rewrite HU. unfold peek_precedence in Hp. lia. }
    destruct k.
    - apply okm_ret; [assumption | lia | congruence].
    - eapply okm_conv; [apply parse_binary_expression_ok; [assumption|assumption|lia] | congruence | lia].
    - eapply okm_conv; [apply infix_handler_run_ok; [assumption|assumption|lia] | congruence | lia].
  Qed.

  Lemma remaining_loop_ok prec : P_LOWEST <= prec -> forall n left s, W s -> (M s < n)%nat -> (M s <= K)%nat ->
    ok s (remaining_loop cfg efn lf n left prec s).
  Proof.
    intros Hprec. induction n as [|n IH]; intros left s HW Hn HK; [lia|].
    cbn [remaining_loop].
    destruct (negb (peek_is s T_SEMICOLON) && (prec <? peek_precedence cfg s)) eqn:Hc; [|fin].
    apply andb_true_iff in Hc as [_ Hc]. apply Z.ltb_lt in Hc.
    destruct (t_nl (ps_peek s) && (peek_is s T_INCREMENT || peek_is s T_DECREMENT)); [fin|].
    destruct (c_smart cfg && t_nl (ps_peek s) && (peek_is s T_LPAREN || peek_is s T_LBRACKET)); [fin|].
    assert (Hp : P_LOWEST < peek_precedence cfg s) by lia.
    destruct (peek_prec_pos cfg s Hsane HW Hp) as [Hne Hpos].
    pose proof (parse_infix_expression_ok left s HW Hp HK) as Hx. destr_ok Hx.
    eapply okm_conv; [apply IH; [assumption|lia|lia] | congruence | lia].
  Qed.

  Lemma base_parse_expression_ok prec s : P_LOWEST <= prec -> W s -> (M s <= K)%nat ->
    ok s (base_parse_expression cfg sfn efn lf prec s).
  Proof.
    intros Hprec HW HK. unfold base_parse_expression, parse_remaining_with_precedence.
    pose proof (parse_prefix_expression_ok s HW HK) as Hx. destr_ok Hx.
    eapply okm_conv; [apply remaining_loop_ok; [assumption|assumption|lia|lia] | congruence | lia].
  Qed.

  Lemma run_expr_chain_ok ics : forall prec s, P_LOWEST <= prec -> W s -> (M s <= K)%nat ->
    ok s (run_expr_chain cfg sfn efn lf ics prec s).
  Proof.
    induction ics as [|ic ics IH]; intros prec s Hprec HW HK; cbn [run_expr_chain].
    - apply base_parse_expression_ok; assumption.
    - cbv zeta.
      assert (Hx : okm prec (M s)
                (match ic with
                 | EI_Pass => run_expr_chain cfg sfn efn lf ics prec (set_cep s prec)
                 | EI_Probe id => run_expr_chain cfg sfn efn lf ics prec (log_event (set_cep s prec) id 1)
                 | EI_Reentrant =>
                     do (left, s') <- parse_prefix_expression cfg sfn efn lf (set_cep s prec);
                     parse_remaining_with_precedence cfg efn lf left (ps_cep s') s'
                 end)).
      { destruct ic as [|id|].
        - prep (set_cep s prec).
          eapply okm_conv; [apply IH; [assumption|assumption|lia] | congruence | lia].
        - prep (log_event (set_cep s prec) id 1).
          eapply okm_conv; [apply IH; [assumption|assumption|lia] | congruence | lia].
        - prep (set_cep s prec).
          assert (Hx : ok (set_cep s prec) (parse_prefix_expression cfg sfn efn lf (set_cep s prec)))
            by (apply parse_prefix_expression_ok; [assumption|lia]).
          destr_ok Hx. unfold parse_remaining_with_precedence.
          eapply okm_conv; [apply remaining_loop_ok; [|assumption|lia|lia] | congruence | lia].
          congruence. }
      destr_ok Hx. fin.
  Qed.

  Lemma parse_let_statement_ok s : W s -> (pred (M s) < K)%nat -> ok s (parse_let_statement cfg efn s).
  Proof.
    intros HW HK. unfold parse_let_statement, parse_expression. cbv zeta.
    dexp; [|fin]. destruct (peek_is s0 T_ASSIGN).
    - use_e. dasi; fin.
    - cbv beta match. dasi; fin.
  Qed.

  Lemma parse_let_expression_ok s : W s -> (pred (M s) < K)%nat -> ok s (parse_let_expression efn s).
  Proof.
    intros HW HK. unfold parse_let_expression, parse_expression. cbv zeta.
    dexp; [|fin]. destruct (peek_is s0 T_ASSIGN).
    - use_e. fin.
    - cbv beta match. fin.
  Qed.

  Lemma parse_function_statement_ok s : W s -> (pred (M s) < K)%nat ->
    ok s (parse_function_statement cfg sfn lf s).
  Proof.
    intros HW HK. unfold parse_function_statement. cbv zeta.
    dexp; [|fin]. dexp; [|fin].
    assert (Hx : ok s1 (parse_function_parameters lf s1))
      by (apply parse_function_parameters_ok; [assumption|lia]).
    destr_ok Hx. dexp; [|fin].
    prep (push_ctx s3 P_FunctionContext).
    assert (Hx : ok (push_ctx s3 P_FunctionContext)
                    (parse_block_statement cfg sfn lf (push_ctx s3 P_FunctionContext)))
      by (apply parse_block_statement_ok; [assumption|lia]).
    destr_ok Hx. fin.
  Qed.

  Lemma parse_return_statement_ok s : W s -> (pred (M s) < K)%nat ->
    ok s (parse_return_statement cfg efn s).
  Proof.
    intros HW HK. unfold parse_return_statement, parse_expression. cbv zeta.
    destruct (negb (peek_is s T_SEMICOLON) && negb (peek_is s T_EOF) && negb (peek_is s T_RBRACE)
              && negb (t_nl (ps_peek s))).
    - use_e. dasi; fin.
    - cbv beta match. dasi; fin.
  Qed.

  Lemma parse_if_statement_ok s : W s -> (pred (M s) < K)%nat -> ok s (parse_if_statement sfn efn s).
  Proof.
    intros HW HK. unfold parse_if_statement, parse_expression. cbv zeta.
    dexp; [|fin]. use_e. dexp; [|fin]. use_s.
    destruct (peek_is s3 T_ELSE); [|fin]. use_s. fin.
  Qed.

  Lemma parse_while_statement_ok s : W s -> (pred (M s) < K)%nat -> ok s (parse_while_statement sfn efn s).
  Proof.
    intros HW HK. unfold parse_while_statement, parse_expression. cbv zeta.
    dexp; [|fin]. use_e. dexp; [|fin]. use_s. fin.
  Qed.

  (* an optional sub-parse: [if c then r else Some (d, s)] *)
  Ltac dopt tac :=
    match goal with
    | |- context [if ?c then ?r else Some (?d, ?s)] =>
        prep s;
        let Hx := fresh "Hx" in
        assert (Hx : okm (ps_cep s) (M s) (if c then r else Some (d, s)))
          by (destruct c; [tac | fin]);
        destr_ok Hx
    end.

  Lemma parse_for_statement_ok s : W s -> (pred (M s) < K)%nat -> ok s (parse_for_statement sfn efn s).
  Proof.
    intros HW HK. unfold parse_for_statement, parse_expression.
    dexp; [|fin].
    dopt ltac:(cbv zeta; prep (ps_next s0); destruct (cur_is (ps_next s0) T_LET);
               [ eapply okm_conv; [apply parse_let_expression_ok; [assumption|lia] | congruence | lia]
               | use_e; fin ]).
    dexp; [|fin]. dopt ltac:(use_e; fin).
    dexp; [|fin]. dopt ltac:(use_e; fin).
    dexp; [|fin]. use_s. fin.
  Qed.

  Lemma parse_expression_statement_ok s : He'_t -> W s -> (M s <= K)%nat ->
    ok s (parse_expression_statement cfg efn s).
  Proof.
    intros He' HW HK. unfold parse_expression_statement, parse_expression.
    pose proof (He' P_LOWEST s low_low HW HK) as Hx. destr_ok Hx. dasi; fin.
  Qed.

  Lemma base_parse_statement_ok s : He'_t -> W s -> (M s <= K)%nat ->
    ok s (base_parse_statement cfg sfn efn lf s).
  Proof.
    intros He' HW HK. unfold base_parse_statement. cbv zeta.
    repeat match goal with
    | |- context [t_type (ps_cur s) =? ?c] =>
        let E := fresh "E" in
        destruct (t_type (ps_cur s) =? c) eqn:E;
        [ pose proof (cur_is_pos s c E ltac:(vm_compute; discriminate)) | clear E ]
    end.
    - apply parse_let_statement_ok; [assumption|lia].
    - apply parse_function_statement_ok; [assumption|lia].
    - apply parse_return_statement_ok; [assumption|lia].
    - apply parse_if_statement_ok; [assumption|lia].
    - apply parse_while_statement_ok; [assumption|lia].
    - apply parse_for_statement_ok; [assumption|lia].
    - apply parse_block_statement_ok; [assumption|lia].
    - apply parse_expression_statement_ok; assumption.
  Qed.

  Lemma run_stmt_chain_ok ics : He'_t -> forall s, W s -> (M s <= K)%nat ->
    ok s (run_stmt_chain cfg sfn efn lf ics s).
  Proof.
    intros He'. induction ics as [|ic ics IH]; intros s HW HK; cbn [run_stmt_chain].
    - apply base_parse_statement_ok; assumption.
    - destruct ic as [|id].
      + apply IH; assumption.
      + prep (log_event s id 0).
        eapply okm_conv; [apply IH; [assumption|lia] | congruence | lia].
  Qed.
End Sub.

(* ---------- closing the knot: fuel 2 * M s + 3 is enough ---------- *)

Lemma fuel_ok cfg : ops_sane cfg -> forall f,
  (forall s, W s -> (2 * M s + 3 <= f)%nat -> ok s (stmt_fn cfg f s)) /\
  (forall prec s, P_LOWEST <= prec -> W s -> (2 * M s + 2 <= f)%nat -> ok s (expr_fn cfg f prec s)).
Proof.
  intros Hsane. induction f as [|f [IHs IHe]]; [split; intros; lia|].
  split.
  - intros s HW Hf. cbn [stmt_fn].
    apply (run_stmt_chain_ok cfg (stmt_fn cfg f) (expr_fn cfg f) f (M s)).
    + intros s' HW' HM'. apply IHs; [assumption|lia].
    + intros prec s' Hp HW' HM'. apply IHe; [assumption|assumption|lia].
    + lia.
    + intros prec s' Hp HW' HM'. apply IHe; [assumption|assumption|lia].
    + assumption.
    + lia.
  - intros prec s Hp HW Hf. cbn [expr_fn].
    apply (run_expr_chain_ok cfg Hsane (stmt_fn cfg f) (expr_fn cfg f) f (M s)).
    + intros s' HW' HM'. apply IHs; [assumption|lia].
    + intros prec' s' Hp' HW' HM'. apply IHe; [assumption|assumption|lia].
    + lia.
    + assumption.
    + assumption.
    + lia.
Qed.

Lemma program_loop_ok cfg fuel : ops_sane cfg -> forall n acc s, W s -> (M s < n)%nat ->
  (2 * M s + 3 <= fuel)%nat -> ok s (program_loop cfg fuel n acc s).
Proof.
  intros Hsane. induction n as [|n IH]; intros acc s HW Hn Hf; [lia|].
  cbn [program_loop]. destruct (negb (cur_is s T_EOF)) eqn:Hc; [|fin].
  apply negb_true_iff in Hc. unfold cur_is in Hc. apply Z.eqb_neq in Hc.
  pose proof (M_pos_cur s Hc).
  pose proof (proj1 (fuel_ok cfg Hsane fuel) s HW Hf) as Hx. destr_ok Hx.
  prep (ps_next s0).
  eapply okm_conv; [apply IH; [assumption|lia|lia] | congruence | lia].
Qed.

Lemma ps_init_facts toks : t_type (last toks zero_token) = T_EOF ->
  W (ps_init toks (eof_again (last toks zero_token))) /\
  (M (ps_init toks (eof_again (last toks zero_token))) <= length toks)%nat.
Proof.
  intros H. destruct toks as [|a [|b r]].
  - vm_compute in H. discriminate.
  - cbn [last] in H |- *. unfold ps_init, ps_next, W, M.
    cbn [ps_rest ps_peek ps_eof ps_cur last eof_again t_type length].
    split; [split; assumption|]. rewrite H, Z.eqb_refl. lia.
  - rewrite !last_cons in H. unfold ps_init, ps_next, W, M.
    cbn [ps_rest ps_peek ps_eof ps_cur eof_again t_type length].
    rewrite !last_cons. split; [split; assumption|].
    destruct r; cbn [length]; [destruct (t_type a =? T_EOF)|]; lia.
Qed.

Lemma parse_total : forall cfg toks,
  ops_sane cfg -> t_type (last toks zero_token) = T_EOF -> exists r, parse_tokens cfg toks = Some r.
Proof.
  intros cfg toks Hsane H. unfold parse_tokens, parse_program_from. cbv zeta.
  destruct (ps_init_facts toks H) as [HW HM].
  set (s := ps_init toks (eof_again (last toks zero_token))) in *.
  assert (Hf : (parse_fuel toks = 4 * length toks + 16)%nat) by reflexivity.
  destruct (program_loop_ok cfg (parse_fuel toks) Hsane (parse_fuel toks) [] s HW
              ltac:(lia) ltac:(lia)) as (x & s1 & E & _).
  rewrite E. eexists. reflexivity.
Qed.

Print Assumptions parse_total.
