(* SourceMapProofs.v -- the mappings string decodes to the recorded mappings;
   position advance; name interning. *)
Require Import Base VLQ VLQProofs SourceMap.
From Coq Require Import ZifyBool ZifyN ZifyNat.

Definition dec_of (e : enc_state) : dec_state :=
  mkdec (e_line e) (e_pgc e) 0 (e_psl e) (e_psc e) (e_pni e).

Fixpoint guards_ok (st : enc_state) (ms : list mapping) : Prop :=
  match ms with
  | [] => True
  | m :: ms' =>
      vlq_guard (m_gc m - e_pgc (snd (enc_advance_lines st (m_gl m)))) = true /\
      vlq_guard (m_sl m - e_psl (snd (enc_advance_lines st (m_gl m)))) = true /\
      vlq_guard (m_sc m - e_psc (snd (enc_advance_lines st (m_gl m)))) = true /\
      (m_has m = true -> vlq_guard (m_ni m - e_pni (snd (enc_advance_lines st (m_gl m)))) = true) /\
      guards_ok (snd (enc_mapping st m)) ms'
  end.

Fixpoint lines_between (lo : Z) (ms : list mapping) (hi : Z) : Prop :=
  match ms with
  | [] => lo <= hi
  | m :: ms' => lo <= m_gl m /\ lines_between (m_gl m) ms' hi
  end.

Lemma lines_between_weaken lo ms hi hi' : lines_between lo ms hi -> hi <= hi' -> lines_between lo ms hi'.
Proof.
  revert lo; induction ms as [|m ms IH]; simpl; intros lo H Hh; [lia|].
  destruct H as [H1 H2]. split; [exact H1|]. apply IH; assumption.
Qed.

Lemma lines_between_snoc lo ms hi m hi' :
  lines_between lo ms hi -> m_gl m = hi -> hi <= hi' -> lines_between lo (ms ++ [m]) hi'.
Proof.
  revert lo; induction ms as [|m0 ms IH]; simpl; intros lo H Hm Hh.
  - split; lia.
  - destruct H as [H1 H2]. split; [exact H1|]. apply IH; assumption.
Qed.

(* --- separators and VLQ heads --- *)

Lemma encode_vlq_head n : exists c tl, encode_vlq n = c :: tl /\ is_sep c = false.
Proof.
  pose proof (vlq_alphabet n) as A. pose proof (vlq_nonempty n) as NE.
  destruct (encode_vlq n) as [|c tl]; [congruence|].
  exists c, tl. split; [reflexivity|].
  inversion A as [|? ? Hc _]; subst.
  apply base64_char_not_sep in Hc as [H1 H2].
  unfold is_sep, SEMI, COMMA.
  apply orb_false_iff. split; apply N.eqb_neq; assumption.
Qed.

Definition sep_or_end (s : str) : Prop :=
  s = [] \/ exists c r, s = c :: r /\ is_sep c = true.

Lemma enc_all_sep st ms :
  0 < e_segs st -> sep_or_end (enc_all st ms).
Proof.
  intros Hs. destruct ms as [|m ms]; [left; reflexivity|].
  right. cbn [enc_all]. unfold enc_mapping, enc_advance_lines.
  destruct (e_line st <? m_gl m) eqn:Hl.
  - destruct (Z.to_nat (m_gl m - e_line st)) as [|k] eqn:Hk; [lia|].
    cbn [repeat app]. eexists _, _. split; [reflexivity|].
    unfold is_sep. rewrite N.eqb_refl. reflexivity.
  - replace (0 <? e_segs st) with true by lia.
    cbn [app]. eexists _, _. split; [reflexivity|].
    unfold is_sep. rewrite N.eqb_refl. apply orb_true_r.
Qed.

(* --- decoding a run of semicolons --- *)

Definition dec_adv (k : nat) (d : dec_state) : dec_state :=
  match k with
  | O => d
  | S _ => mkdec (d_line d + Z.of_nat k) 0 (d_psrc d) (d_psl d) (d_psc d) (d_pni d)
  end.

Lemma decode_semis k : forall fuel d b rest,
  decode_groups (k + fuel) d b (repeat SEMI k ++ rest)
  = decode_groups fuel (dec_adv k d) (match k with O => b | S _ => true end) rest.
Proof.
  induction k as [|k IH]; intros fuel d b rest; [reflexivity|].
  cbn [repeat app Nat.add decode_groups]. unfold SEMI at 1. rewrite N.eqb_refl.
  rewrite IH. destruct k as [|k]; cbn [dec_adv d_line d_psrc d_psl d_psc d_pni].
  - reflexivity.
  - f_equal. f_equal. lia.
Qed.

(* --- decoding one encoded segment --- *)

Ltac fix_sums :=
  repeat match goal with
         | |- context [?a + (?b - ?a)] => replace (a + (b - a)) with b by lia
         end; reflexivity.

Lemma decode_segment_enc st1 m rest :
  vlq_guard (m_gc m - e_pgc st1) = true ->
  vlq_guard (m_sl m - e_psl st1) = true ->
  vlq_guard (m_sc m - e_psc st1) = true ->
  (m_has m = true -> vlq_guard (m_ni m - e_pni st1) = true) ->
  sep_or_end rest ->
  decode_segment (dec_of st1)
    ((encode_vlq (m_gc m - e_pgc st1) ++ encode_vlq 0
      ++ encode_vlq (m_sl m - e_psl st1) ++ encode_vlq (m_sc m - e_psc st1)
      ++ (if m_has m then encode_vlq (m_ni m - e_pni st1) else [])) ++ rest)
  = Some (mkseg (e_line st1) (m_gc m) 0 (m_sl m) (m_sc m) (if m_has m then Some (m_ni m) else None),
          dec_of (mkenc (m_gc m) (m_sl m) (m_sc m) (if m_has m then m_ni m else e_pni st1)
                        (e_line st1) (e_segs st1 + 1)),
          rest).
Proof.
  intros G1 G3 G4 G5 Hrest. unfold decode_segment.
  repeat rewrite <- app_assoc.
  rewrite vlq_roundtrip by exact G1.
  rewrite vlq_roundtrip by reflexivity.
  rewrite vlq_roundtrip by exact G3.
  rewrite vlq_roundtrip by exact G4.
  unfold dec_of; cbn [d_line d_pgc d_psrc d_psl d_psc d_pni e_line e_pgc e_psl e_psc e_pni].
  destruct (m_has m) eqn:Hh.
  - destruct (encode_vlq_head (m_ni m - e_pni st1)) as (c & tl & E & Hc).
    pose proof (vlq_roundtrip (m_ni m - e_pni st1) rest (G5 eq_refl)) as R.
    rewrite E in *. cbn [app] in *. rewrite Hc. rewrite R.
    fix_sums.
  - cbn [app].
    destruct Hrest as [->|(c & r & -> & Hc)].
    + fix_sums.
    + rewrite Hc. fix_sums.
Qed.

(* --- the main induction --- *)

Definition enc_seg (st1 : enc_state) (m : mapping) : str :=
  encode_vlq (m_gc m - e_pgc st1) ++ encode_vlq 0
  ++ encode_vlq (m_sl m - e_psl st1) ++ encode_vlq (m_sc m - e_psc st1)
  ++ (if m_has m then encode_vlq (m_ni m - e_pni st1) else []).

Definition enc_next (st1 : enc_state) (m : mapping) : enc_state :=
  mkenc (m_gc m) (m_sl m) (m_sc m) (if m_has m then m_ni m else e_pni st1)
        (e_line st1) (e_segs st1 + 1).

Definition seg_guards (st1 : enc_state) (m : mapping) : Prop :=
  vlq_guard (m_gc m - e_pgc st1) = true /\
  vlq_guard (m_sl m - e_psl st1) = true /\
  vlq_guard (m_sc m - e_psc st1) = true /\
  (m_has m = true -> vlq_guard (m_ni m - e_pni st1) = true).

Definition seg_of (st1 : enc_state) (m : mapping) : segment :=
  mkseg (e_line st1) (m_gc m) 0 (m_sl m) (m_sc m) (if m_has m then Some (m_ni m) else None).

Lemma decode_segment_enc' st1 m rest :
  seg_guards st1 m -> sep_or_end rest ->
  decode_segment (dec_of st1) (enc_seg st1 m ++ rest) = Some (seg_of st1 m, dec_of (enc_next st1 m), rest).
Proof. intros (G1 & G3 & G4 & G5) Hr. apply decode_segment_enc; assumption. Qed.

Lemma enc_seg_head st1 m : exists c tl, enc_seg st1 m = c :: tl /\ is_sep c = false.
Proof.
  unfold enc_seg. destruct (encode_vlq_head (m_gc m - e_pgc st1)) as (c & tl & E & Hc).
  rewrite E. cbn [app]. eexists _, _. split; [reflexivity|exact Hc].
Qed.

Lemma decode_start_segment f st1 m rest :
  seg_guards st1 m -> sep_or_end rest ->
  decode_groups (S f) (dec_of st1) true (enc_seg st1 m ++ rest)
  = match decode_groups f (dec_of (enc_next st1 m)) false rest with
    | None => None | Some l => Some (seg_of st1 m :: l) end.
Proof.
  intros G Hr. destruct (enc_seg_head st1 m) as (c & tl & E & Hc).
  pose proof (decode_segment_enc' st1 m rest G Hr) as D.
  rewrite E in *. cbn [app decode_groups] in *.
  unfold is_sep in Hc. apply orb_false_iff in Hc as [Hc1 Hc2].
  rewrite Hc1, Hc2. rewrite D. reflexivity.
Qed.

Lemma decode_comma_segment f st1 m rest :
  seg_guards st1 m -> sep_or_end rest ->
  decode_groups (S f) (dec_of st1) false (COMMA :: enc_seg st1 m ++ rest)
  = match decode_groups f (dec_of (enc_next st1 m)) false rest with
    | None => None | Some l => Some (seg_of st1 m :: l) end.
Proof.
  intros G Hr. cbn [decode_groups].
  replace (COMMA =? SEMI)%N with false by reflexivity. rewrite N.eqb_refl.
  rewrite (decode_segment_enc' st1 m rest G Hr). reflexivity.
Qed.

Lemma decode_semis1 k fuel d b rest : (1 <= k)%nat ->
  decode_groups (k + fuel) d b (repeat SEMI k ++ rest) = decode_groups fuel (dec_adv k d) true rest.
Proof. intro H. rewrite decode_semis. destruct k; [lia|reflexivity]. Qed.

Fixpoint lines_sorted (lo : Z) (ms : list mapping) : Prop :=
  match ms with [] => True | m :: ms' => lo <= m_gl m /\ lines_sorted (m_gl m) ms' end.

Lemma enc_all_cons st m ms :
  enc_all st (m :: ms) =
  (fst (enc_advance_lines st (m_gl m))
   ++ (if 0 <? e_segs (snd (enc_advance_lines st (m_gl m))) then [COMMA] else [])
   ++ enc_seg (snd (enc_advance_lines st (m_gl m))) m)
  ++ enc_all (enc_next (snd (enc_advance_lines st (m_gl m))) m) ms.
Proof.
  cbn [enc_all]. unfold enc_mapping. destruct (enc_advance_lines st (m_gl m)) as [semis st1].
  reflexivity.
Qed.

Lemma enc_mapping_snd st m :
  snd (enc_mapping st m) = enc_next (snd (enc_advance_lines st (m_gl m))) m.
Proof. unfold enc_mapping. destruct (enc_advance_lines st (m_gl m)); reflexivity. Qed.

Lemma decode_enc_all : forall ms st fuel,
  0 <= e_segs st ->
  lines_sorted (e_line st) ms ->
  guards_ok st ms ->
  (length (enc_all st ms) < fuel)%nat ->
  decode_groups fuel (dec_of st) (e_segs st =? 0) (enc_all st ms) = Some (map absolute ms).
Proof.
  induction ms as [|m ms IH]; intros st fuel Hsegs Hlines Hg Hfuel.
  - cbn [enc_all map]. destruct fuel; [cbn in Hfuel; lia|]. reflexivity.
  - destruct Hlines as [Hl Hlines].
    cbn [guards_ok] in Hg. destruct Hg as (G1 & G3 & G4 & G5 & Hg).
    rewrite enc_mapping_snd in Hg.
    rewrite enc_all_cons in *.
    set (st1 := snd (enc_advance_lines st (m_gl m))) in *.
    assert (G : seg_guards st1 m) by (repeat split; assumption).
    clear G1 G3 G4 G5.
    set (st' := enc_next st1 m) in *.
    assert (Hst1 : e_line st1 = m_gl m /\ 0 <= e_segs st1).
    { subst st1. unfold enc_advance_lines. destruct (e_line st <? m_gl m) eqn:Hlt;
        cbn [snd e_line e_segs]; lia. }
    destruct Hst1 as [Hline1 Hsegs1].
    assert (Hsep : sep_or_end (enc_all st' ms)).
    { apply enc_all_sep; subst st'; cbn [enc_next e_segs]; lia. }
    assert (Hrec : forall f, (length (enc_all st' ms) < f)%nat ->
              decode_groups f (dec_of st') false (enc_all st' ms) = Some (map absolute ms)).
    { intros f Hf. specialize (IH st' f).
      replace (e_segs st' =? 0) with false in IH by (subst st'; cbn [enc_next e_segs]; lia).
      apply IH; [subst st'; cbn [enc_next e_segs]; lia| |exact Hg|exact Hf].
      subst st'; cbn [enc_next e_line]. rewrite Hline1. exact Hlines. }
    assert (Habs : seg_of st1 m = absolute m).
    { unfold absolute, seg_of. rewrite Hline1. reflexivity. }
    destruct (enc_seg_head st1 m) as (c0 & tl0 & Eseg0 & _).
    assert (Hseglen : (1 <= length (enc_seg st1 m))%nat) by (rewrite Eseg0; cbn [length]; lia).
    clear c0 tl0 Eseg0.
    repeat rewrite app_length in Hfuel.
    unfold enc_advance_lines in *.
    destruct (e_line st <? m_gl m) eqn:Hlt.
    + (* new line(s): k >= 1 semicolons, then a segment at group start *)
      cbn [fst snd] in *.
      set (k := Z.to_nat (m_gl m - e_line st)) in *.
      assert (Hk : (1 <= k)%nat) by (subst k; lia).
      rewrite repeat_length in Hfuel.
      assert (Es : e_segs st1 = 0) by (subst st1; reflexivity).
      rewrite Es in *. replace (0 <? 0) with false in * by reflexivity.
      cbn [app length] in *.
      rewrite <- app_assoc.
      replace fuel with (k + S (fuel - k - 1))%nat by lia.
      rewrite decode_semis1 by exact Hk.
      assert (Ed : dec_adv k (dec_of st) = dec_of st1).
      { subst st1. unfold dec_adv, dec_of. destruct k as [|k'] eqn:Ek; [lia|].
        cbn [d_line d_psrc d_psl d_psc d_pni e_line e_pgc e_psl e_psc e_pni].
        f_equal. lia. }
      rewrite Ed. rewrite decode_start_segment by assumption.
      fold st'. rewrite Hrec by lia. rewrite Habs. reflexivity.
    + (* same line *)
      cbn [fst snd] in *. subst st1. cbn [app length] in *.
      destruct fuel as [|f]; [lia|].
      destruct (0 <? e_segs st) eqn:Hs0.
      * replace (e_segs st =? 0) with false by lia.
        cbn [app length] in *.
        rewrite decode_comma_segment by assumption.
        fold st'. rewrite Hrec by lia. rewrite Habs. reflexivity.
      * replace (e_segs st =? 0) with true by lia.
        cbn [app length] in *.
        rewrite decode_start_segment by assumption.
        fold st'. rewrite Hrec by lia. rewrite Habs. reflexivity.
Qed.

Lemma lines_between_sorted lo ms hi : lines_between lo ms hi -> lines_sorted lo ms.
Proof.
  revert lo; induction ms as [|m ms IH]; simpl; intros lo H; [exact I|].
  destruct H as [H1 H2]. split; [exact H1|apply IH; exact H2].
Qed.

Theorem decode_encode_mappings ms :
  lines_sorted 0 ms -> guards_ok enc_init ms ->
  decode_mappings (encode_mappings ms) = Some (map absolute ms).
Proof.
  intros Hl Hg. unfold decode_mappings, encode_mappings.
  change (mkdec 0 0 0 0 0 0) with (dec_of enc_init).
  change true with (e_segs enc_init =? 0).
  apply decode_enc_all; try assumption.
  - cbn. lia.
  - lia.
Qed.

(* --- invariants of the mapper over every operation history --- *)

Lemma advance_str_line s : forall skip l c, l <= fst (advance_str s skip l c).
Proof.
  induction s as [|x s IH]; intros skip l c; cbn [advance_str fst]; [lia|].
  destruct (skip && (x =? LF)%N); [apply IH|].
  destruct (x =? CR)%N; [eapply Z.le_trans; [|apply IH]; lia|].
  destruct (x =? LF)%N; [eapply Z.le_trans; [|apply IH]; lia|apply IH].
Qed.

Definition mapper_inv (m : mapper) : Prop := lines_between 0 (sm_maps m) (sm_line m).

Lemma mapper_step_inv m o : mapper_inv m -> mapper_inv (mapper_step m o).
Proof.
  unfold mapper_inv. intro H. destruct o as [sl sc|sl sc name|n|s|]; cbn [mapper_step].
  - cbn [sm_maps sm_line]. eapply lines_between_snoc; [exact H|reflexivity|lia].
  - destruct (index_of name (sm_names m) 0); cbn [sm_maps sm_line];
      (eapply lines_between_snoc; [exact H|reflexivity|lia]).
  - exact H.
  - destruct (advance_str s false (sm_line m) (sm_col m)) as [l c] eqn:E.
    cbn [sm_maps sm_line]. eapply lines_between_weaken; [exact H|].
    pose proof (advance_str_line s false (sm_line m) (sm_col m)) as L. rewrite E in L. exact L.
  - cbn [sm_maps sm_line]. eapply lines_between_weaken; [exact H|lia].
Qed.

Lemma run_mapper_inv_from ops : forall m, mapper_inv m -> mapper_inv (fold_left mapper_step ops m).
Proof.
  induction ops as [|o ops IH]; intros m H; [exact H|].
  cbn [fold_left]. apply IH. apply mapper_step_inv. exact H.
Qed.

Lemma run_mapper_inv ops : mapper_inv (run_mapper ops).
Proof. apply run_mapper_inv_from. unfold mapper_inv, mapper_new; cbn. lia. Qed.

Theorem mappings_roundtrip ops :
  let m := run_mapper ops in
  guards_ok enc_init (sm_maps m) ->
  smv_version (mapper_source_map m) = 3 /\
  decode_mappings (smv_mappings (mapper_source_map m)) = Some (map absolute (sm_maps m)).
Proof.
  intros m Hg. split; [reflexivity|].
  unfold mapper_source_map; cbn [smv_mappings].
  apply decode_encode_mappings; [|exact Hg].
  eapply lines_between_sorted. apply (run_mapper_inv ops).
Qed.

(* a sufficient condition for the guards: every recorded field is below 2^61 in magnitude *)
Definition small (z : Z) : Prop := - 2 ^ 61 < z < 2 ^ 61.
Definition mapping_small (m : mapping) : Prop :=
  small (m_gc m) /\ small (m_sl m) /\ small (m_sc m) /\ small (m_ni m).
Definition enc_small (st : enc_state) : Prop :=
  small (e_pgc st) /\ small (e_psl st) /\ small (e_psc st) /\ small (e_pni st).

Lemma guard_of_small a b : small a -> small b -> vlq_guard (a - b) = true.
Proof. unfold small, vlq_guard. lia. Qed.

Lemma small_guards ms : forall st, enc_small st -> Forall mapping_small ms -> guards_ok st ms.
Proof.
  induction ms as [|m ms IH]; intros st Hst Hms; [exact I|].
  inversion Hms as [|? ? Hm Hms']; subst.
  destruct Hst as (S1 & S2 & S3 & S4). destruct Hm as (M1 & M2 & M3 & M4).
  assert (Z0 : small 0) by (unfold small; lia).
  assert (Hst1 : enc_small (snd (enc_advance_lines st (m_gl m)))).
  { unfold enc_advance_lines. destruct (e_line st <? m_gl m); cbn [snd];
      unfold enc_small; cbn [e_pgc e_psl e_psc e_pni]; auto. }
  destruct Hst1 as (T1 & T2 & T3 & T4).
  cbn [guards_ok]. rewrite enc_mapping_snd.
  split; [apply guard_of_small; assumption|].
  split; [apply guard_of_small; assumption|].
  split; [apply guard_of_small; assumption|].
  split; [intros _; apply guard_of_small; assumption|].
  apply IH; [|assumption]. unfold enc_small, enc_next; cbn [e_pgc e_psl e_psc e_pni].
  destruct (m_has m); auto.
Qed.

(* --- position advance --- *)

Definition drop_lf (s : str) : str :=
  match s with x :: s' => if (x =? LF)%N then s' else s | [] => s end.

Definition nonbreak (s : str) : bool := forallb (fun x => negb (is_break_char x)) s.

Lemma breaks_nonneg s : 0 <= breaks s.
Proof.
  induction s as [|z s IHs]; cbn [breaks]; [lia|].
  destruct (z =? CR)%N; [destruct s as [|w s]; [lia|destruct (w =? LF)%N; lia]|].
  destruct (z =? LF)%N; lia.
Qed.

Lemma breaks_cons_cr s : breaks (CR :: s) = 1 + breaks (drop_lf s).
Proof.
  cbn [breaks]. rewrite N.eqb_refl. destruct s as [|y s]; [reflexivity|].
  cbn [drop_lf]. destruct (y =? LF)%N eqn:E; [|reflexivity].
  cbn [breaks]. assert ((y =? CR)%N = false) as -> by (unfold LF, CR in *; lia).
  rewrite E. reflexivity.
Qed.

Lemma nonbreak_breaks0 s : nonbreak s = true -> breaks s = 0.
Proof.
  induction s as [|x s IH]; intro H; [reflexivity|].
  cbn [nonbreak forallb] in H. apply andb_true_iff in H as [H1 H2].
  unfold is_break_char in H1. apply negb_true_iff, orb_false_iff in H1 as [E1 E2].
  cbn [breaks]. rewrite E1, E2. apply IH. exact H2.
Qed.

Lemma breaks0_nonbreak s : breaks s = 0 -> nonbreak s = true.
Proof.
  induction s as [|x s IH]; intro H; [reflexivity|].
  cbn [breaks] in H. cbn [nonbreak forallb]. unfold is_break_char.
  pose proof (breaks_nonneg s) as Bs.
  destruct (x =? CR)%N eqn:E1.
  - destruct s as [|y s]; [lia|]. destruct (y =? LF)%N eqn:E2; [|lia].
    cbn [breaks] in H. assert ((y =? CR)%N = false) as E3 by (unfold LF, CR in *; lia).
    rewrite E3, E2 in H. pose proof (breaks_nonneg s). lia.
  - destruct (x =? LF)%N eqn:E2; [lia|]. cbn [orb negb andb]. apply IH. exact H.
Qed.

Lemma tail_nonbreak s : forall a, nonbreak s = true -> tail_len s a = a + Z.of_nat (length s).
Proof.
  induction s as [|x s IH]; intros a H; cbn [tail_len length]; [lia|].
  cbn [nonbreak forallb] in H. apply andb_true_iff in H as [H1 H2].
  apply negb_true_iff in H1. rewrite H1. rewrite IH by exact H2. lia.
Qed.

Lemma tail_reset s : forall a, nonbreak s = false -> tail_len s a = tail_len s 0.
Proof.
  induction s as [|x s IH]; intros a H; [discriminate|].
  cbn [nonbreak forallb] in H. cbn [tail_len].
  destruct (is_break_char x) eqn:E; [reflexivity|].
  cbn [negb andb] in H. rewrite (IH (a + 1)) by exact H. rewrite (IH (0 + 1)) by exact H. reflexivity.
Qed.

Definition adv_spec (s : str) (l c : Z) : Z * Z :=
  (l + breaks s, if breaks s =? 0 then c + Z.of_nat (length s) else tail_len s 0).

(* the column after a string that is known to contain a break, seen from column 0 *)
Lemma adv_spec_col0 s : (if breaks s =? 0 then 0 + Z.of_nat (length s) else tail_len s 0) = tail_len s 0.
Proof.
  destruct (breaks s =? 0) eqn:B; [|reflexivity].
  rewrite tail_nonbreak by (apply breaks0_nonbreak; lia). reflexivity.
Qed.

Lemma advance_str_gen s : forall skip l c,
  advance_str s skip l c = adv_spec (if skip then drop_lf s else s) l c.
Proof.
  induction s as [|x s IH]; intros skip l c.
  - destruct skip; cbn [advance_str drop_lf]; unfold adv_spec; cbn [breaks length];
      change (0 =? 0) with true; cbn iota; f_equal; lia.
  - cbn [advance_str].
    destruct (skip && (x =? LF)%N) eqn:Esk.
    + apply andb_true_iff in Esk as [-> E]. cbn [drop_lf]. rewrite E. rewrite IH. reflexivity.
    + assert (Hs : (if skip then drop_lf (x :: s) else x :: s) = x :: s).
      { destruct skip; [|reflexivity]. cbn [drop_lf]. cbn [andb] in Esk. rewrite Esk. reflexivity. }
      rewrite Hs. clear Hs Esk skip.
      destruct (x =? CR)%N eqn:E1.
      * apply N.eqb_eq in E1. subst x. rewrite IH. unfold adv_spec.
        rewrite breaks_cons_cr. pose proof (breaks_nonneg (drop_lf s)).
        replace (1 + breaks (drop_lf s) =? 0) with false by lia.
        f_equal; [lia|]. rewrite adv_spec_col0.
        cbn [tail_len]. unfold is_break_char. rewrite N.eqb_refl. cbn [orb].
        destruct s as [|y s]; [reflexivity|]. cbn [drop_lf].
        destruct (y =? LF)%N eqn:E2; [|reflexivity].
        cbn [tail_len]. unfold is_break_char. rewrite E2. rewrite orb_true_r. reflexivity.
      * destruct (x =? LF)%N eqn:E2.
        -- rewrite IH. unfold adv_spec. cbn [breaks]. rewrite E1, E2.
           pose proof (breaks_nonneg s). replace (1 + breaks s =? 0) with false by lia.
           f_equal; [lia|]. rewrite adv_spec_col0.
           cbn [tail_len]. unfold is_break_char. rewrite E2, orb_true_r. reflexivity.
        -- rewrite IH. unfold adv_spec. cbn [breaks length tail_len]. rewrite E1, E2.
           unfold is_break_char. rewrite E1, E2. cbn [orb].
           destruct (breaks s =? 0) eqn:B; f_equal; [lia|].
           symmetry. apply tail_reset.
           destruct (nonbreak s) eqn:NB; [|reflexivity].
           apply nonbreak_breaks0 in NB. lia.
Qed.

Theorem advance_string_spec s l c :
  advance_str s false l c =
  (l + breaks s, if breaks s =? 0 then c + Z.of_nat (length s) else tail_len s 0).
Proof. apply (advance_str_gen s false). Qed.

(* --- names: interned once, in first-seen order, indices stable --- *)

Fixpoint names_of (ops : list mop) : list str :=
  match ops with
  | [] => []
  | MAddNamed _ _ n :: ops' => n :: names_of ops'
  | _ :: ops' => names_of ops'
  end.

(* first occurrences, in order *)
Fixpoint dedup_from (seen : list str) (l : list str) : list str :=
  match l with
  | [] => seen
  | x :: l' => match index_of x seen 0 with
               | Some _ => dedup_from seen l'
               | None => dedup_from (seen ++ [x]) l'
               end
  end.

Lemma names_fold ops : forall m,
  sm_names (fold_left mapper_step ops m) = dedup_from (sm_names m) (names_of ops).
Proof.
  induction ops as [|o ops IH]; intro m; [reflexivity|].
  cbn [fold_left]. rewrite IH.
  destruct o as [sl sc|sl sc name|n|s|]; cbn [mapper_step names_of dedup_from]; try reflexivity.
  - destruct (index_of name (sm_names m) 0); reflexivity.
  - destruct (advance_str s false (sm_line m) (sm_col m)); reflexivity.
Qed.

Lemma index_of_range x l : forall i j, index_of x l i = Some j ->
  i <= j /\ nth_error l (Z.to_nat (j - i)) = Some x.
Proof.
  induction l as [|y l IH]; intros i j H; [discriminate|].
  cbn [index_of] in H. destruct (str_eqb x y) eqn:E.
  - inversion H; subst. apply str_eqb_spec in E. subst. split; [lia|].
    replace (j - j) with 0 by lia. reflexivity.
  - apply IH in H as [H1 H2]. split; [lia|].
    replace (Z.to_nat (j - i)) with (S (Z.to_nat (j - (i + 1)))) by lia. exact H2.
Qed.

Lemma index_of_none x l : forall i, index_of x l i = None -> ~ In x l.
Proof.
  induction l as [|y l IH]; intros i H [] .
  - subst. cbn [index_of] in H. rewrite str_eqb_refl in H. discriminate.
  - cbn [index_of] in H. destruct (str_eqb x y); [discriminate|]. eapply IH; eauto.
Qed.

Lemma NoDup_snoc {A} (l : list A) x : NoDup l -> ~ In x l -> NoDup (l ++ [x]).
Proof.
  induction l as [|y l IH]; intros H Hx; cbn [app].
  - constructor; [intros []|constructor].
  - inversion H as [|? ? Hy Hl]; subst. constructor.
    + intro Hin. apply in_app_or in Hin as [Hin|[->|[]]]; [contradiction|]. apply Hx. left. reflexivity.
    + apply IH; [exact Hl|]. intro. apply Hx. right. assumption.
Qed.

Lemma dedup_nodup l : forall seen, NoDup seen -> NoDup (dedup_from seen l).
Proof.
  induction l as [|x l IH]; intros seen H; [exact H|].
  cbn [dedup_from]. destruct (index_of x seen 0) eqn:E; [apply IH; exact H|].
  apply IH. apply NoDup_snoc; [exact H|]. eapply index_of_none; eauto.
Qed.

Lemma dedup_prefix l : forall seen, exists tl, dedup_from seen l = seen ++ tl.
Proof.
  induction l as [|x l IH]; intro seen; [exists []; rewrite app_nil_r; reflexivity|].
  cbn [dedup_from]. destruct (index_of x seen 0); [apply IH|].
  destruct (IH (seen ++ [x])) as [tl E]. exists ([x] ++ tl). rewrite E, <- app_assoc. reflexivity.
Qed.

Theorem names_nodup ops : NoDup (sm_names (run_mapper ops)).
Proof. unfold run_mapper. rewrite names_fold. apply dedup_nodup. constructor. Qed.

Theorem names_first_seen ops : sm_names (run_mapper ops) = dedup_from [] (names_of ops).
Proof. unfold run_mapper. rewrite names_fold. reflexivity. Qed.

(* the segment recorded by AddNamedMapping carries an index that points at its
   name in the final names table, whatever happens afterwards *)
Theorem named_index_points ops1 sl sc name ops2 :
  let m1 := run_mapper ops1 in
  let m := run_mapper (ops1 ++ MAddNamed sl sc name :: ops2) in
  exists mp, sm_maps (mapper_step m1 (MAddNamed sl sc name)) = sm_maps m1 ++ [mp] /\
             m_has mp = true /\ m_sl mp = sl /\ m_sc mp = sc /\ 0 <= m_ni mp /\
             nth_error (sm_names m) (Z.to_nat (m_ni mp)) = Some name.
Proof.
  intros m1 m. subst m. unfold run_mapper. rewrite fold_left_app. fold (run_mapper ops1). fold m1.
  cbn [fold_left]. rewrite names_fold.
  destruct (dedup_prefix (names_of ops2) (sm_names (mapper_step m1 (MAddNamed sl sc name)))) as [tl ->].
  cbn [mapper_step]. destruct (index_of name (sm_names m1) 0) as [i|] eqn:E.
  - eexists. split; [reflexivity|]. cbn [m_has m_sl m_sc m_ni sm_names].
    apply index_of_range in E as [E1 E2]. rewrite Z.sub_0_r in E2.
    repeat split; try lia. rewrite nth_error_app1; [exact E2|].
    apply nth_error_Some. congruence.
  - eexists. split; [reflexivity|]. cbn [m_has m_sl m_sc m_ni sm_names].
    repeat split; try lia. rewrite Nat2Z.id.
    rewrite <- app_assoc. rewrite nth_error_app2 by lia. rewrite Nat.sub_diag. reflexivity.
Qed.

(* recording never disturbs earlier segments *)
Theorem maps_append_only ops o : exists tl,
  sm_maps (run_mapper (ops ++ [o])) = sm_maps (run_mapper ops) ++ tl.
Proof.
  unfold run_mapper. rewrite fold_left_app. cbn [fold_left].
  set (m := fold_left mapper_step ops mapper_new).
  destruct o as [sl sc|sl sc name|n|s|]; cbn [mapper_step].
  - eexists; reflexivity.
  - destruct (index_of name (sm_names m) 0); eexists; reflexivity.
  - exists []. rewrite app_nil_r. reflexivity.
  - destruct (advance_str s false (sm_line m) (sm_col m)). exists []. rewrite app_nil_r. reflexivity.
  - exists []. rewrite app_nil_r. reflexivity.
Qed.
