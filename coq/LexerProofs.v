(* LexerProofs.v -- proofs about the executable lexer model (Lexer.v) against the
   specification vocabulary of LexSpec.v.  Used by Props/C10.v. *)
Require Import Base GoOps Token Lexer LexSpec.
Require Import Gen.Tables Gen.Preds.
From Coq Require Import ZifyBool ZifyN ZifyNat.

(* ------------------------------------------------------------------ *)
(* comment trimming keeps a prefix                                      *)
(* ------------------------------------------------------------------ *)

Lemma strip_prefix_suffix : forall p s r, strip_prefix p s = Some r -> exists q, s = q ++ r.
Proof.
  induction p as [|x p IH]; intros s r H; cbn [strip_prefix] in H.
  - inversion H; subst. exists []. reflexivity.
  - destruct s as [|y s]; [discriminate|]. destruct (N.eqb x y); [|discriminate].
    destruct (IH _ _ H) as [q Hq]. exists (y :: q). cbn [app]. rewrite Hq. reflexivity.
Qed.

Lemma first_strip_suffix : forall ps s r, first_strip ps s = Some r -> exists q, s = q ++ r.
Proof.
  induction ps as [|p ps IH]; intros s r H; cbn [first_strip] in H; [discriminate|].
  destruct (strip_prefix p s) as [r0|] eqn:E.
  - inversion H; subst. exact (strip_prefix_suffix _ _ _ E).
  - exact (IH _ _ H).
Qed.

Lemma trim_rev_suffix : forall fuel r, exists q, r = q ++ trim_rev fuel r.
Proof.
  induction fuel as [|f IH]; intro r; cbn [trim_rev]; [exists []; reflexivity|].
  destruct r as [|c r']; [exists []; reflexivity|].
  destruct (ascii_uspace c).
  - destruct (IH r') as [q Hq]. exists (c :: q). cbn [app]. rewrite <- Hq. reflexivity.
  - destruct (first_strip uspace_tails (c :: r')) as [r''|] eqn:E; [|exists []; reflexivity].
    destruct (first_strip_suffix _ _ _ E) as [q1 H1]. destruct (IH r'') as [q2 H2].
    exists (q1 ++ q2). rewrite <- app_assoc, <- H2. exact H1.
Qed.

(* the trimmed comment text is a prefix of the text read *)
Lemma trim_right_spaces_prefix s : exists t, s = trim_right_spaces s ++ t.
Proof.
  unfold trim_right_spaces. destruct (trim_rev_suffix (length s) (rev s)) as [q Hq].
  exists (rev q). rewrite <- rev_app_distr, <- Hq, rev_involutive. reflexivity.
Qed.

(* ------------------------------------------------------------------ *)
(* 0. end of input is a fixed point (direct computation)               *)
(* ------------------------------------------------------------------ *)

Lemma lex_eof_stable : forall l, at_eof l = true ->
  let '(t, l') := next_token l in
  t = mktoken T_EOF [] (cur_pos l) (cur_pos l) false [] /\
  at_eof l' = true /\ cur_pos l' = cur_pos l /\ next_token l' = (t, l').
Proof.
  intros [r line col had cs] H. destruct r as [|c r]; [|discriminate H].
  vm_compute. repeat split; reflexivity.
Qed.

(* ------------------------------------------------------------------ *)
(* 1. lists, [consumed]                                                *)
(* ------------------------------------------------------------------ *)

Lemma firstn_length_app {A} (p r : list A) : firstn (length p) (p ++ r) = p.
Proof.
  induction p as [|a p IH]; cbn [length app firstn].
  - destruct r; reflexivity.
  - f_equal. exact IH.
Qed.

Lemma consumed_app q r : consumed (q ++ r) r = q.
Proof.
  unfold consumed. rewrite app_length.
  replace (length q + length r - length r)%nat with (length q) by lia.
  apply firstn_length_app.
Qed.

(* ------------------------------------------------------------------ *)
(* 2. cursor movement: [adv l q l'] = "l' is l after reading exactly q" *)
(* ------------------------------------------------------------------ *)

Definition adv (l : lx) (q : str) (l' : lx) : Prop :=
  l_rest l = q ++ l_rest l' /\
  cur_pos l' = pos_after (cur_pos l) q /\
  l_had_nl l' = l_had_nl l.

Lemma adv_refl l : adv l [] l.
Proof. repeat split. Qed.

Lemma adv_trans l q l' q' l'' : adv l q l' -> adv l' q' l'' -> adv l (q ++ q') l''.
Proof.
  intros (A1 & A2 & A3) (B1 & B2 & B3). repeat split.
  - rewrite A1, B1, app_assoc. reflexivity.
  - rewrite B2, A2, pos_after_app. reflexivity.
  - congruence.
Qed.

Lemma read_char_cons l c r : l_rest l = c :: r ->
  adv l [c] (read_char l) /\ l_rest (read_char l) = r.
Proof.
  intro H. unfold read_char, adv, cur_pos. rewrite H. cbn [pos_after app pline pcol].
  destruct (N.eqb c LF); cbn [l_rest l_line l_col l_had_nl]; repeat split.
Qed.

Lemma read_char_nil l : l_rest l = [] -> read_char l = l.
Proof. intro H. unfold read_char. rewrite H. reflexivity. Qed.

Lemma cur_nz l : cur l <> 0%N -> exists r, l_rest l = cur l :: r.
Proof. unfold cur. destruct (l_rest l) as [|a r]; cbn [hd]; intro H; [congruence|eauto]. Qed.

Lemma peek_nz l : peek l <> 0%N -> exists r, l_rest l = cur l :: peek l :: r.
Proof.
  unfold peek, cur. destruct (l_rest l) as [|a [|b r]]; cbn [hd]; intro H;
    try congruence; eauto.
Qed.

Lemma at_eof_false l : at_eof l = false -> exists r, l_rest l = cur l :: r.
Proof. unfold at_eof, cur. destruct (l_rest l) as [|a r]; cbn [hd]; intro H; [discriminate|eauto]. Qed.

Lemma at_eof_true l : at_eof l = true -> l_rest l = [].
Proof. unfold at_eof. destruct (l_rest l); [reflexivity|discriminate]. Qed.

Lemma at_eof_nil l : l_rest l = [] -> at_eof l = true.
Proof. unfold at_eof. intros ->. reflexivity. Qed.

Lemma cur_of_rest l c r : l_rest l = c :: r -> cur l = c.
Proof. unfold cur. intros ->. reflexivity. Qed.

Lemma read_char_cur l : cur l <> 0%N -> adv l [cur l] (read_char l).
Proof. intro H. destruct (cur_nz l H) as [r Hr]. apply (read_char_cons l _ _ Hr). Qed.

(* reachability: some text was read *)
Definition reach (l l' : lx) : Prop := exists q, adv l q l'.

Lemma reach_refl l : reach l l.
Proof. exists []. apply adv_refl. Qed.

Lemma reach_trans l l' l'' : reach l l' -> reach l' l'' -> reach l l''.
Proof. intros [q A] [q' B]. exists (q ++ q'). eapply adv_trans; eassumption. Qed.

Lemma reach_read_char l : reach l (read_char l).
Proof.
  destruct (l_rest l) as [|c r] eqn:E.
  - rewrite (read_char_nil l E). apply reach_refl.
  - exists [c]. apply (read_char_cons l c r E).
Qed.

Ltac solve_reach :=
  repeat first
    [ apply reach_refl
    | assumption
    | (eapply reach_trans; [| apply reach_read_char])
    | (eapply reach_trans; [| eassumption]) ].

(* ------------------------------------------------------------------ *)
(* 3. read_while and the number scanner                                *)
(* ------------------------------------------------------------------ *)

Lemma read_while_spec p : p LF = false -> forall rest col s r' col' line,
  read_while p rest col = (s, r', col') ->
  rest = s ++ r' /\ pos_after (mkpos line col) s = mkpos line col'.
Proof.
  intros HLF. induction rest as [|c r IH]; intros col s r' col' line H; cbn [read_while] in H.
  - inversion H; subst. split; reflexivity.
  - destruct (p c) eqn:Pc.
    + destruct (read_while p r (col + 1)) as [[s1 r1] c1] eqn:R. inversion H; subst.
      apply (IH _ _ _ _ line) in R as [R1 R2]. split.
      * cbn [app]. f_equal. exact R1.
      * cbn [pos_after]. destruct (N.eqb c LF) eqn:L.
        -- apply N.eqb_eq in L. subst c. congruence.
        -- cbn [pline pcol]. exact R2.
    + inversion H; subst. split; reflexivity.
Qed.

Lemma lx_read_while_adv p l s l' : p LF = false -> lx_read_while p l = (s, l') -> adv l s l'.
Proof.
  intros HLF H. unfold lx_read_while in H.
  destruct (read_while p (l_rest l) (l_col l)) as [[s1 r1] c1] eqn:R.
  inversion H; subst.
  apply (read_while_spec p HLF _ _ _ _ _ (l_line l)) in R as [R1 R2].
  unfold adv, cur_pos. cbn [l_rest l_line l_col l_had_nl]. repeat split; [exact R1 | symmetry; exact R2].
Qed.

Lemma lx_read_while_nonempty p l s l' c r :
  lx_read_while p l = (s, l') -> l_rest l = c :: r -> p c = true -> s <> [].
Proof.
  intros H Hr Pc. unfold lx_read_while in H. rewrite Hr in H. cbn [read_while] in H.
  rewrite Pc in H. destruct (read_while p r (l_col l + 1)) as [[s1 r1] c1].
  inversion H; subst. discriminate.
Qed.

Lemma isDigit_LF : isDigit LF = false. Proof. reflexivity. Qed.
Lemma isHexDigit_LF : isHexDigit LF = false. Proof. reflexivity. Qed.
Lemma isBinaryDigit_LF : isBinaryDigit LF = false. Proof. reflexivity. Qed.
Lemma isOctalDigit_LF : isOctalDigit LF = false. Proof. reflexivity. Qed.
Lemma is_ident_char_LF : is_ident_char LF = false. Proof. reflexivity. Qed.

Lemma read_based_adv isd l s l' : isd LF = false -> peek l <> 0%N ->
  read_based_number isd l = (s, l') -> adv l s l' /\ s <> [].
Proof.
  intros HLF Hp H. unfold read_based_number in H.
  destruct (peek_nz l Hp) as [r Hr].
  destruct (read_char_cons l _ _ Hr) as [A1 R1].
  assert (C1 : cur (read_char l) = peek l) by (apply (cur_of_rest _ _ _ R1)).
  destruct (read_char_cons (read_char l) _ _ R1) as [A2 R2].
  destruct (lx_read_while isd (read_char (read_char l))) as [ds l3] eqn:W.
  apply (lx_read_while_adv _ _ _ _ HLF) in W.
  inversion H; subst. split; [|discriminate].
  rewrite C1. change (cur l :: peek l :: ds) with ([cur l] ++ [peek l] ++ ds).
  eapply adv_trans; [exact A1|]. eapply adv_trans; [exact A2| exact W].
Qed.

(* the exponent part of readNumber *)
Lemma read_exp_spec ip fp ty1 l2 s ty l' :
  (if ch 101 l2 || ch 69 l2 then
      let e := cur l2 in
      let l3 := read_char l2 in
      let '(sg, l4) := if ch 43 l3 || ch 45 l3 then ([cur l3], read_char l3) else ([], l3) in
      if negb (isDigit (cur l4)) then (ip ++ fp ++ [e] ++ sg, T_FLOAT, l4)
      else
        let '(ed, l5) := lx_read_while isDigit l4 in
        (ip ++ fp ++ [e] ++ sg ++ ed, T_FLOAT, l5)
    else (ip ++ fp, ty1, l2)) = (s, ty, l') ->
  exists q, s = ip ++ fp ++ q /\ adv l2 q l' /\ (ty = ty1 \/ ty = T_FLOAT).
Proof.
  intro H. destruct (ch 101 l2 || ch 69 l2) eqn:E.
  - cbv zeta in H.
    assert (Hc : cur l2 <> 0%N) by (unfold ch in E; lia).
    pose proof (read_char_cur l2 Hc) as A3.
    set (l3 := read_char l2) in *.
    assert (S : exists sg l4, (if ch 43 l3 || ch 45 l3 then ([cur l3], read_char l3) else ([], l3)) = (sg, l4)
                               /\ adv l3 sg l4).
    { destruct (ch 43 l3 || ch 45 l3) eqn:E2.
      - exists [cur l3], (read_char l3). split; [reflexivity|].
        apply read_char_cur. unfold ch in E2. lia.
      - exists [], l3. split; [reflexivity|apply adv_refl]. }
    destruct S as (sg & l4 & Sg & A4). rewrite Sg in H.
    destruct (negb (isDigit (cur l4))).
    + inversion H; subst. exists ([cur l2] ++ sg). split; [reflexivity|]. split; [|right; reflexivity].
      eapply adv_trans; eassumption.
    + destruct (lx_read_while isDigit l4) as [ed l5] eqn:W.
      apply (lx_read_while_adv _ _ _ _ isDigit_LF) in W.
      inversion H; subst. exists ([cur l2] ++ sg ++ ed). split; [reflexivity|]. split; [|right; reflexivity].
      eapply adv_trans; [eassumption|]. eapply adv_trans; eassumption.
  - inversion H; subst. exists []. rewrite app_nil_r. split; [reflexivity|]. split; [apply adv_refl|left; reflexivity].
Qed.

Lemma read_number_spec l s ty l' : at_eof l = false -> isDigit (cur l) = true ->
  read_number l = (s, ty, l') ->
  adv l s l' /\ s <> [] /\ (ty = T_INT \/ ty = T_FLOAT).
Proof.
  intros Hne Hd H. unfold read_number in H. cbv zeta in H.
  destruct (ch 48 l && (N.eqb (peek l) 120 || N.eqb (peek l) 88)) eqn:E1.
  { destruct (read_based_number isHexDigit l) as [s1 l1] eqn:R. inversion H; subst.
    apply read_based_adv in R; [|reflexivity|lia]. destruct R; auto. }
  destruct (ch 48 l && (N.eqb (peek l) 98 || N.eqb (peek l) 66)) eqn:E2.
  { destruct (read_based_number isBinaryDigit l) as [s1 l1] eqn:R. inversion H; subst.
    apply read_based_adv in R; [|reflexivity|lia]. destruct R; auto. }
  destruct (ch 48 l && (N.eqb (peek l) 111 || N.eqb (peek l) 79)) eqn:E3.
  { destruct (read_based_number isOctalDigit l) as [s1 l1] eqn:R. inversion H; subst.
    apply read_based_adv in R; [|reflexivity|lia]. destruct R; auto. }
  destruct (lx_read_while isDigit l) as [ip l1] eqn:W1.
  destruct (at_eof_false l Hne) as [r Hr].
  pose proof (lx_read_while_nonempty _ _ _ _ _ _ W1 Hr Hd) as Nip.
  apply (lx_read_while_adv _ _ _ _ isDigit_LF) in W1.
  destruct (ch 46 l1) eqn:F.
  - assert (Hc : cur l1 <> 0%N) by (unfold ch in F; lia).
    assert (C46 : cur l1 = 46%N) by (unfold ch in F; lia).
    pose proof (read_char_cur l1 Hc) as A2. rewrite C46 in A2.
    destruct (lx_read_while isDigit (read_char l1)) as [fd l2] eqn:W2.
    apply (lx_read_while_adv _ _ _ _ isDigit_LF) in W2.
    apply read_exp_spec in H. destruct H as (q & -> & A3 & Ty).
    split; [|split].
    + eapply adv_trans; [exact W1|]. eapply adv_trans; [|exact A3].
      change (46%N :: fd) with ([46%N] ++ fd). eapply adv_trans; eassumption.
    + destruct ip; [congruence|discriminate].
    + destruct Ty; auto.
  - apply read_exp_spec in H. destruct H as (q & -> & A3 & Ty).
    split; [|split].
    + eapply adv_trans; [exact W1|]. exact A3.
    + destruct ip; [congruence|discriminate].
    + destruct Ty; auto.
Qed.

(* ------------------------------------------------------------------ *)
(* 4. string scanners only ever move forward                           *)
(* ------------------------------------------------------------------ *)

Lemma read_ubrace_reach : forall f l ds ds' v l',
  read_ubrace f l ds = (ds', v, l') -> reach l l'.
Proof.
  induction f as [|f IH]; intros l ds ds' v l' H; cbn [read_ubrace] in H.
  - inversion H; subst. apply reach_refl.
  - destruct (N.eqb (peek l) 125).
    { inversion H; subst. apply reach_read_char. }
    destruct (negb (isHexDigit (peek l)) || (6 <=? length ds)%nat).
    { inversion H; subst. apply reach_refl. }
    apply IH in H. eapply reach_trans; [apply reach_read_char | exact H].
Qed.

Ltac loop_leaf IH H :=
  first
    [ solve [apply IH in H; destruct H as [H _]; eapply reach_trans; [|exact H]; solve_reach]
    | solve [inversion H; subst; solve_reach] ].

Lemma read_string_loop_reach : forall f d l0 acc lit term l1,
  read_string_loop f d l0 acc = (lit, term, l1) ->
  reach l0 l1 /\ (f <> O -> reach (read_char l0) l1).
Proof.
  induction f as [|f IH]; intros d l0 acc lit term l1 H.
  - cbn [read_string_loop] in H. inversion H; subst. split; [apply reach_refl | congruence].
  - assert (R : reach (read_char l0) l1).
    { cbn [read_string_loop] in H.
      repeat match type of H with
      | (if ?c then _ else _) = _ => destruct c
      | context [read_ubrace ?a ?b ?c] =>
          let U := fresh "U" in
          destruct (read_ubrace a b c) as [[? ?] ?] eqn:U; apply read_ubrace_reach in U
      end; loop_leaf IH H. }
    split; [eapply reach_trans; [apply reach_read_char | exact R] | intros _; exact R].
Qed.

Lemma read_raw_loop_reach : forall f l0 acc lit term l1,
  read_raw_loop f l0 acc = (lit, term, l1) ->
  reach l0 l1 /\ (f <> O -> reach (read_char l0) l1).
Proof.
  induction f as [|f IH]; intros l0 acc lit term l1 H.
  - cbn [read_raw_loop] in H. inversion H; subst. split; [apply reach_refl | congruence].
  - assert (R : reach (read_char l0) l1).
    { cbn [read_raw_loop] in H.
      repeat match type of H with
      | (if ?c then _ else _) = _ => destruct c
      end; loop_leaf IH H. }
    split; [eapply reach_trans; [apply reach_read_char | exact R] | intros _; exact R].
Qed.

(* ------------------------------------------------------------------ *)
(* 5. the trivia automaton                                             *)
(* ------------------------------------------------------------------ *)

Definition mode_ok (m : tmode) (rest : str) : Prop :=
  match m with TSlash => hd 0%N rest = SLASH | _ => True end.

Definition trivia_ok (m : tmode) (rest g : str) : Prop :=
  match m with
  | TWs => is_trivia_aux false g = true
  | TComment _ => is_trivia_aux true g = true
  | TSlash => match rest with
              | [] => True
              | c2 :: _ => exists g2, g = c2 :: g2 /\ is_trivia_aux true g2 = true
              end
  end.

Lemma has_lf_cons c g : has_lf (c :: g) = N.eqb c LF || has_lf g.
Proof. unfold has_lf. cbn [existsb]. rewrite (N.eqb_sym LF c). reflexivity. Qed.

Lemma trivia_spec : forall rest mode line col had cs r' line' col' had' cs',
  mode_ok mode rest ->
  trivia mode rest line col had cs = (r', line', col', had', cs') ->
  exists g, rest = g ++ r' /\
            mkpos line' col' = pos_after (mkpos line col) g /\
            had' = had || has_lf g /\
            trivia_ok mode rest g.
Proof.
  induction rest as [|c r IH]; intros mode line col had cs r' line' col' had' cs' MO H.
  - exists []. cbn [trivia] in H.
    destruct mode; inversion H; subst; cbn; rewrite orb_false_r; repeat split.
  - destruct mode as [| |acc]; cbn [trivia] in H.
    + (* TWs *)
      destruct (isWhitespace c) eqn:W.
      * destruct (N.eqb c LF) eqn:L.
        -- apply IH in H; [|exact I]. destruct H as (g & Hr & Hp & Hh & Ht).
           exists (c :: g). cbn [app pos_after trivia_ok]. rewrite L, has_lf_cons, L. cbn [pline pcol].
           split; [f_equal; exact Hr|]. split; [exact Hp|]. split; [subst had'; cbn; rewrite orb_true_r; reflexivity|].
           cbn [is_trivia_aux]. unfold isWhitespace in W. rewrite W. exact Ht.
        -- apply IH in H; [|exact I]. destruct H as (g & Hr & Hp & Hh & Ht).
           exists (c :: g). cbn [app pos_after trivia_ok]. rewrite L, has_lf_cons, L. cbn [pline pcol].
           split; [f_equal; exact Hr|]. split; [exact Hp|]. split; [exact Hh|].
           cbn [is_trivia_aux]. unfold isWhitespace in W. rewrite W. exact Ht.
      * destruct (N.eqb c SLASH && N.eqb (hd 0%N r) SLASH) eqn:S.
        -- apply andb_true_iff in S as [S1 S2]. apply N.eqb_eq in S1, S2.
           apply IH in H; [|exact S2]. destruct H as (g & Hr & Hp & Hh & Ht).
           destruct r as [|c2 r2]; [cbn in S2; discriminate S2|].
           cbn [hd] in S2. cbn [trivia_ok] in Ht. destruct Ht as (g2 & -> & Ht).
           exists (c :: c2 :: g2). cbn [app pos_after trivia_ok].
           assert (L : N.eqb c LF = false) by (subst c; reflexivity).
           rewrite L, has_lf_cons, L. cbn [pline pcol].
           split; [f_equal; exact Hr|]. split; [exact Hp|]. split; [exact Hh|].
           cbn [is_trivia_aux]. unfold isWhitespace in W. rewrite W.
           subst c c2. exact Ht.
        -- inversion H; subst. exists []. cbn. rewrite orb_false_r. repeat split.
    + (* TSlash *)
      cbn [mode_ok hd] in MO.
      apply IH in H; [|exact I]. destruct H as (g & Hr & Hp & Hh & Ht).
      exists (c :: g). cbn [app pos_after trivia_ok].
      assert (L : N.eqb c LF = false) by (subst c; reflexivity).
      rewrite L, has_lf_cons, L. cbn [pline pcol].
      split; [f_equal; exact Hr|]. split; [exact Hp|]. split; [exact Hh|].
      exists g. split; [reflexivity|exact Ht].
    + (* TComment *)
      destruct (N.eqb c LF) eqn:L.
      * apply IH in H; [|exact I]. destruct H as (g & Hr & Hp & Hh & Ht).
        exists (c :: g). cbn [app pos_after trivia_ok]. rewrite L, has_lf_cons, L. cbn [pline pcol].
        split; [f_equal; exact Hr|]. split; [exact Hp|]. split; [subst had'; cbn; rewrite orb_true_r; reflexivity|].
        cbn [is_trivia_aux]. rewrite L. exact Ht.
      * apply IH in H; [|exact I]. destruct H as (g & Hr & Hp & Hh & Ht).
        exists (c :: g). cbn [app pos_after trivia_ok]. rewrite L, has_lf_cons, L. cbn [pline pcol].
        split; [f_equal; exact Hr|]. split; [exact Hp|]. split; [exact Hh|].
        cbn [is_trivia_aux]. rewrite L. exact Ht.
Qed.

Lemma read_leading_comments_spec l :
  exists g, l_rest l = g ++ l_rest (read_leading_comments l) /\
            cur_pos (read_leading_comments l) = pos_after (cur_pos l) g /\
            l_had_nl (read_leading_comments l) = has_lf g /\
            is_trivia g = true.
Proof.
  unfold read_leading_comments.
  destruct (trivia TWs (l_rest l) (l_line l) (l_col l) false []) as [[[[r line] col] had] cs] eqn:T.
  apply trivia_spec in T; [|exact I]. destruct T as (g & Hr & Hp & Hh & Ht).
  exists g. unfold cur_pos. cbn [l_rest l_line l_col l_had_nl].
  repeat split; assumption.
Qed.

(* ------------------------------------------------------------------ *)
(* 6. one token from a state that is not at the end of input           *)
(* ------------------------------------------------------------------ *)

Definition tok_ok (l : lx) (t : token) (l' : lx) (x : str) : Prop :=
  adv l x l' /\
  x <> [] /\
  t_type t <> T_EOF /\
  t_start t = cur_pos l /\
  (t_end t = cur_pos l' \/ exists x0 c, x = x0 ++ [c] /\ t_end t = pos_after (cur_pos l) x0) /\
  t_nl t = l_had_nl l /\
  (is_word_type (t_type t) = true -> t_lit t = x) /\
  (isLetter (cur l) = true -> t_type t = lookup_ident token_keywords x).

Definition tokP (l : lx) (r : token * lx) : Prop := exists x, tok_ok l (fst r) (snd r) x.

Lemma one_char_P l ty : at_eof l = false -> isLetter (cur l) = false ->
  is_word_type ty = false -> ty <> T_EOF -> tokP l (one_char l ty).
Proof.
  intros Hne HL HW HE. destruct (at_eof_false l Hne) as [r Hr].
  destruct (read_char_cons l _ _ Hr) as [A R].
  exists [cur l]. unfold one_char, tok_ok, new_token. cbn [fst snd t_type t_start t_end t_nl t_lit].
  split; [exact A|]. split; [discriminate|]. split; [exact HE|]. split; [reflexivity|].
  split; [right; exists [], (cur l); split; reflexivity|]. split; [reflexivity|].
  split; intro H; congruence.
Qed.

Lemma two_char_P l ty : peek l <> 0%N -> isLetter (cur l) = false ->
  is_word_type ty = false -> ty <> T_EOF -> tokP l (two_char l ty).
Proof.
  intros Hp HL HW HE. destruct (peek_nz l Hp) as [r Hr].
  destruct (read_char_cons l _ _ Hr) as [A1 R1].
  destruct (read_char_cons (read_char l) _ _ R1) as [A2 R2].
  exists ([cur l] ++ [peek l]). unfold two_char, tok_ok, new_token_at.
  cbn [fst snd t_type t_start t_end t_nl t_lit].
  split; [eapply adv_trans; eassumption|]. split; [discriminate|]. split; [exact HE|].
  split; [reflexivity|].
  split; [right; exists [cur l], (peek l); split; [reflexivity|apply A1]|].
  split; [apply A1|].
  split; intro H; congruence.
Qed.

Lemma string_token_P l ty lit term l1 : at_eof l = false -> isLetter (cur l) = false ->
  is_word_type ty = false -> ty <> T_EOF ->
  reach (read_char l) l1 ->
  tokP l (string_token l ty (lit, term, l1) (cur_pos l)).
Proof.
  intros Hne HL HW HE [q A2]. destruct (at_eof_false l Hne) as [r Hr].
  destruct (read_char_cons l _ _ Hr) as [A1 R1].
  pose proof (adv_trans _ _ _ _ _ A1 A2) as A.
  assert (TY : (if term then ty else T_ILLEGAL) <> T_EOF /\
               is_word_type (if term then ty else T_ILLEGAL) = false).
  { destruct term; split; try assumption; [discriminate|reflexivity]. }
  destruct TY as [TY1 TY2].
  unfold string_token, tokP, tok_ok, new_token_at. cbn [fst snd t_type t_start t_end t_nl t_lit].
  destruct (l_rest l1) as [|c r1] eqn:E1.
  - rewrite (read_char_nil l1 E1). exists ([cur l] ++ q).
    split; [exact A|]. split; [discriminate|]. split; [exact TY1|]. split; [reflexivity|].
    split; [left; reflexivity|]. split; [apply A|]. split; intro H; congruence.
  - destruct (read_char_cons l1 _ _ E1) as [A3 R3].
    exists (([cur l] ++ q) ++ [c]).
    split; [eapply adv_trans; eassumption|]. split; [discriminate|]. split; [exact TY1|].
    split; [reflexivity|].
    split; [right; exists ([cur l] ++ q), c; split; [reflexivity|apply A]|].
    split; [apply A|]. split; intro H; congruence.
Qed.

Lemma lookup_ident_ne t : forall kws s,
  Forall (fun kv : str * Z => snd kv <> t) kws -> T_IDENT <> t -> lookup_ident kws s <> t.
Proof.
  induction kws as [|[k ty] kws IH]; intros s F Hi; cbn [lookup_ident].
  - exact Hi.
  - inversion F; subst. destruct (str_eqb s k); [assumption|apply IH; assumption].
Qed.

Lemma lookup_keywords_not_eof s : lookup_ident token_keywords s <> T_EOF.
Proof.
  apply lookup_ident_ne; [|discriminate].
  unfold token_keywords. repeat constructor; discriminate.
Qed.

Lemma ident_P l : at_eof l = false -> isLetter (cur l) = true ->
  tokP l (let '(lit, l') := read_identifier l in
          (new_token_at l' (lookup_ident token_keywords lit) lit (cur_pos l), l')).
Proof.
  intros Hne HL. destruct (at_eof_false l Hne) as [r Hr].
  unfold read_identifier. destruct (lx_read_while is_ident_char l) as [lit l'] eqn:W.
  assert (Nz : lit <> []).
  { eapply lx_read_while_nonempty; [exact W|exact Hr|]. unfold is_ident_char. rewrite HL. reflexivity. }
  apply (lx_read_while_adv _ _ _ _ is_ident_char_LF) in W.
  exists lit. unfold tok_ok, new_token_at. cbn [fst snd t_type t_start t_end t_nl t_lit].
  split; [exact W|]. split; [exact Nz|]. split; [apply lookup_keywords_not_eof|].
  split; [reflexivity|]. split; [left; reflexivity|]. split; [apply W|].
  split; intro H; reflexivity.
Qed.

Lemma number_P l : at_eof l = false -> isLetter (cur l) = false -> isDigit (cur l) = true ->
  tokP l (let '(lit, ty, l') := read_number l in (new_token_at l' ty lit (cur_pos l), l')).
Proof.
  intros Hne HL HD. destruct (read_number l) as [[lit ty] l'] eqn:R.
  apply read_number_spec in R; [|assumption|assumption]. destruct R as (A & Nz & Ty).
  exists lit. unfold tok_ok, new_token_at. cbn [fst snd t_type t_start t_end t_nl t_lit].
  split; [exact A|]. split; [exact Nz|].
  split; [destruct Ty; subst ty; discriminate|].
  split; [reflexivity|]. split; [left; reflexivity|]. split; [apply A|].
  split; intro H; [reflexivity|congruence].
Qed.

Lemma read_string_P l d ty : at_eof l = false -> isLetter (cur l) = false ->
  is_word_type ty = false -> ty <> T_EOF ->
  tokP l (string_token l ty (read_string d l) (cur_pos l)).
Proof.
  intros Hne HL HW HE. unfold read_string.
  destruct (read_string_loop (S (length (l_rest l))) d l []) as [[lit term] l1] eqn:R.
  apply read_string_loop_reach in R. destruct R as [_ R].
  apply string_token_P; try assumption. apply R. discriminate.
Qed.

Lemma read_raw_P l ty : at_eof l = false -> isLetter (cur l) = false ->
  is_word_type ty = false -> ty <> T_EOF ->
  tokP l (string_token l ty (read_raw_string l) (cur_pos l)).
Proof.
  intros Hne HL HW HE. unfold read_raw_string.
  destruct (read_raw_loop (S (length (l_rest l))) l []) as [[lit term] l1] eqn:R.
  apply read_raw_loop_reach in R. destruct R as [_ R].
  apply string_token_P; try assumption. apply R. discriminate.
Qed.

Ltac not_letter E := (rewrite E; reflexivity).

Ltac leaf E :=
  first
    [ apply one_char_P; [assumption | not_letter E | reflexivity | discriminate]
    | apply two_char_P; [lia | not_letter E | reflexivity | discriminate]
    | apply read_string_P; [assumption | not_letter E | reflexivity | discriminate]
    | apply read_raw_P; [assumption | not_letter E | reflexivity | discriminate] ].

Ltac chain_step :=
  match goal with
  | |- tokP _ (if N.eqb (cur ?l) ?k then _ else _) =>
      let E := fresh "E" in
      destruct (N.eqb (cur l) k) eqn:E;
      [ apply N.eqb_eq in E;
        repeat match goal with
        | |- tokP _ (if N.eqb (peek ?l) ?k2 then _ else _) =>
            let P := fresh "P" in destruct (N.eqb (peek l) k2) eqn:P
        end; leaf E
      | ]
  end.

Lemma base_next_token_P l : at_eof l = false -> tokP l (base_next_token l).
Proof.
  intro Hne. unfold base_next_token. cbv zeta.
  repeat chain_step.
  destruct (N.eqb (cur l) 0) eqn:E0z.
  - rewrite Hne. apply N.eqb_eq in E0z. leaf E0z.
  - destruct (isLetter (cur l)) eqn:HL.
    + apply ident_P; assumption.
    + destruct (isDigit (cur l)) eqn:HD.
      * apply number_P; assumption.
      * apply one_char_P; [assumption|assumption|reflexivity|discriminate].
Qed.

Lemma base_next_token_eof l : at_eof l = true ->
  base_next_token l = (new_token l T_EOF [], l).
Proof.
  intro H. apply at_eof_true in H. destruct l as [r line col had cs]. cbn [l_rest] in H. subst r.
  reflexivity.
Qed.

(* ------------------------------------------------------------------ *)
(* 7. one instrumented NextToken step                                  *)
(* ------------------------------------------------------------------ *)

Record step_ok (l : lx) (g x : str) (t : token) (l' : lx) : Prop := {
  so_rest : l_rest l = g ++ x ++ l_rest l';
  so_pos : cur_pos l' = pos_after (cur_pos l) (g ++ x);
  so_start : t_start t = pos_after (cur_pos l) g;
  so_end : t_end t = pos_after (cur_pos l) (g ++ x) \/
           (exists x0 c, x = x0 ++ [c] /\ t_end t = pos_after (cur_pos l) (g ++ x0));
  so_triv : is_trivia g = true;
  so_nl : t_nl t = has_lf g;
  so_eof : t_type t = T_EOF -> x = [] /\ l_rest l' = [];
  so_prog : t_type t <> T_EOF -> x <> [];
  so_word : is_word_type (t_type t) = true -> t_lit t = x;
  so_kw : forall c r, x = c :: r -> isLetter c = true ->
          t_type t = lookup_ident token_keywords x
}.

Lemma step_span_ok l g x t l' : step_span l = (g, x, t, l') -> step_ok l g x t l'.
Proof.
  intro H. unfold step_span in H. cbv zeta in H.
  destruct (read_leading_comments_spec l) as (g0 & Hr & Hp & Hh & Ht).
  set (l1 := read_leading_comments l) in *.
  destruct (at_eof l1) eqn:EOF.
  - rewrite (base_next_token_eof l1 EOF) in H. apply at_eof_true in EOF.
    inversion H; subst g x t l'. clear H.
    rewrite EOF in Hr. rewrite Hr. rewrite EOF. rewrite (consumed_app g0 []).
    change (consumed [] []) with (@nil N).
    constructor; unfold new_token; cbn [t_type t_start t_end t_nl t_lit app]; try rewrite app_nil_r; auto.
    + rewrite EOF. exact Hr.
    + intros c r C. discriminate C.
  - pose proof (base_next_token_P l1 EOF) as (x0 & A & Nz & Ty & St & En & Nl & Wd & Kw).
    destruct (base_next_token l1) as [t0 l2]. cbn [fst snd] in *.
    inversion H; subst g x t l'. clear H.
    destruct A as (A1 & A2 & A3).
    rewrite Hr, A1. rewrite (consumed_app g0), (consumed_app x0).
    constructor.
    + rewrite Hr, A1. reflexivity.
    + rewrite pos_after_app, <- Hp. exact A2.
    + rewrite St. exact Hp.
    + destruct En as [En|(y & c & -> & En)].
      * left. rewrite pos_after_app, <- Hp, <- A2. exact En.
      * right. exists y, c. split; [reflexivity|]. rewrite pos_after_app, <- Hp. exact En.
    + exact Ht.
    + rewrite Nl. exact Hh.
    + intro C. contradiction.
    + intros _. exact Nz.
    + exact Wd.
    + intros c r C HL. apply Kw. rewrite (cur_of_rest l1 c (r ++ l_rest l2)); [exact HL|].
      rewrite A1, C. reflexivity.
Qed.

(* ------------------------------------------------------------------ *)
(* 8. whole runs                                                       *)
(* ------------------------------------------------------------------ *)

Inductive run : lx -> list span -> Prop :=
| run_eof l g x t l' :
    step_ok l g x t l' -> t_type t = T_EOF -> run l [mkspan g x t]
| run_cons l g x t l' ss :
    step_ok l g x t l' -> t_type t <> T_EOF -> run l' ss -> run l (mkspan g x t :: ss).

Lemma spans_from_run : forall f l ss, spans_from f l = Some ss -> run l ss.
Proof.
  induction f as [|f IH]; intros l ss H; cbn [spans_from] in H; [discriminate H|].
  destruct (step_span l) as [[[g x] t] l'] eqn:S. apply step_span_ok in S.
  destruct (t_type t =? T_EOF) eqn:E.
  - inversion H; subst. eapply run_eof; [exact S|]. apply Z.eqb_eq. exact E.
  - destruct (spans_from f l') as [ss'|] eqn:R; [|discriminate H]. inversion H; subst.
    eapply run_cons; [exact S| |apply IH; exact R]. apply Z.eqb_neq. exact E.
Qed.

Lemma spans_from_total : forall f l, (length (l_rest l) < f)%nat ->
  exists ss, spans_from f l = Some ss.
Proof.
  induction f as [|f IH]; intros l Hlt; [lia|]. cbn [spans_from].
  destruct (step_span l) as [[[g x] t] l'] eqn:S.
  pose proof (step_span_ok _ _ _ _ _ S) as K.
  destruct (t_type t =? T_EOF) eqn:E; [eexists; reflexivity|].
  apply Z.eqb_neq in E.
  pose proof (so_prog _ _ _ _ _ K E) as Nz.
  pose proof (so_rest _ _ _ _ _ K) as Hr.
  assert (Hlt' : (length (l_rest l') < f)%nat).
  { rewrite Hr in Hlt. rewrite !app_length in Hlt. destruct x; [congruence|]. cbn [length] in Hlt. lia. }
  destruct (IH l' Hlt') as [ss Hs]. rewrite Hs. eexists; reflexivity.
Qed.

Lemma tokenize_from_spans : forall f l,
  tokenize_from f l = option_map (map sp_tok) (spans_from f l).
Proof.
  induction f as [|f IH]; intro l; cbn [tokenize_from spans_from]; [reflexivity|].
  unfold next_token, next_token_with, step_span. cbv zeta.
  destruct (base_next_token (read_leading_comments l)) as [t l2].
  destruct (t_type t =? T_EOF); [reflexivity|].
  rewrite IH. destruct (spans_from f l2); reflexivity.
Qed.

Definition dspan : span := mkspan [] [] (mktoken 0 [] (mkpos 0 0) (mkpos 0 0) false []).

Lemma run_shape l ss : run l ss ->
  ss <> [] /\ t_type (sp_tok (last ss dspan)) = T_EOF /\
  Forall (fun s => t_type (sp_tok s) <> T_EOF) (removelast ss).
Proof.
  induction 1 as [l g x t l' K E | l g x t l' ss K E R (Nn & La & Fa)].
  - split; [discriminate|]. split; [exact E|constructor].
  - split; [discriminate|]. destruct ss as [|s ss]; [congruence|].
    split; [exact La|]. cbn [removelast] in *. constructor; [exact E|exact Fa].
Qed.

Lemma lex_total : forall src, exists ss,
  spans src = Some ss /\ tokenize src = Some (map sp_tok ss) /\
  ss <> [] /\ t_type (sp_tok (last ss (mkspan [] [] (mktoken 0 [] (mkpos 0 0) (mkpos 0 0) false []))))
               = T_EOF /\
  Forall (fun s => t_type (sp_tok s) <> T_EOF) (removelast ss).
Proof.
  intro src. unfold spans, tokenize.
  destruct (spans_from_total (S (length src)) (lx_init src)) as [ss Hs]; [cbn [lx_init l_rest]; lia|].
  exists ss. split; [exact Hs|]. split; [rewrite tokenize_from_spans, Hs; reflexivity|].
  apply spans_from_run in Hs. apply (run_shape _ _ Hs).
Qed.

Lemma spans_text_cons s ss : spans_text (s :: ss) = (sp_gap s ++ sp_lexeme s) ++ spans_text ss.
Proof. reflexivity. Qed.

Lemma run_tiling l ss : run l ss ->
  spans_text ss = l_rest l /\
  Forall (fun s => is_trivia (sp_gap s) = true) ss /\
  Forall (fun s => t_type (sp_tok s) <> T_EOF -> sp_lexeme s <> []) ss.
Proof.
  induction 1 as [l g x t l' K E | l g x t l' ss K E R (Tx & Tr & Pr)].
  - destruct (so_eof _ _ _ _ _ K E) as [-> Hn].
    split; [|split].
    + rewrite spans_text_cons. cbn [sp_gap sp_lexeme]. rewrite (so_rest _ _ _ _ _ K), Hn.
      change (spans_text []) with (@nil N). rewrite !app_nil_r. reflexivity.
    + constructor; [exact (so_triv _ _ _ _ _ K)|constructor].
    + constructor; [|constructor]. cbn [sp_tok]. intro C. contradiction.
  - split; [|split].
    + rewrite spans_text_cons, Tx. cbn [sp_gap sp_lexeme].
      rewrite (so_rest _ _ _ _ _ K), app_assoc. reflexivity.
    + constructor; [exact (so_triv _ _ _ _ _ K)|exact Tr].
    + constructor; [|exact Pr]. cbn [sp_tok sp_lexeme]. exact (so_prog _ _ _ _ _ K).
Qed.

Lemma lex_tiling : forall src ss, spans src = Some ss ->
  spans_text ss = src /\
  Forall (fun s => is_trivia (sp_gap s) = true) ss /\
  Forall (fun s => t_type (sp_tok s) <> T_EOF -> sp_lexeme s <> []) ss.
Proof.
  intros src ss H. unfold spans in H. apply spans_from_run in H.
  apply run_tiling in H. exact H.
Qed.

Lemma run_after_newline l ss : run l ss ->
  Forall (fun s => t_nl (sp_tok s) = has_lf (sp_gap s)) ss.
Proof.
  induction 1 as [l g x t l' K E | l g x t l' ss K E R IH].
  - constructor; [exact (so_nl _ _ _ _ _ K)|constructor].
  - constructor; [exact (so_nl _ _ _ _ _ K)|exact IH].
Qed.

Lemma lex_after_newline : forall src ss, spans src = Some ss ->
  Forall (fun s => t_nl (sp_tok s) = has_lf (sp_gap s)) ss.
Proof.
  intros src ss H. unfold spans in H. apply spans_from_run in H.
  apply run_after_newline in H. exact H.
Qed.

Lemma run_slices l ss : run l ss ->
  Forall (fun s => is_word_type (t_type (sp_tok s)) = true ->
                   t_lit (sp_tok s) = sp_lexeme s) ss /\
  Forall (fun s => forall c r, sp_lexeme s = c :: r -> Gen.Preds.isLetter c = true ->
                   t_type (sp_tok s) = lookup_ident token_keywords (sp_lexeme s)) ss.
Proof.
  induction 1 as [l g x t l' K E | l g x t l' ss K E R [IH1 IH2]].
  - split; (constructor; [|constructor]); cbn [sp_tok sp_lexeme].
    + exact (so_word _ _ _ _ _ K).
    + exact (so_kw _ _ _ _ _ K).
  - split; constructor; cbn [sp_tok sp_lexeme]; try assumption.
    + exact (so_word _ _ _ _ _ K).
    + exact (so_kw _ _ _ _ _ K).
Qed.

Lemma lex_slices : forall src ss, spans src = Some ss ->
  Forall (fun s => is_word_type (t_type (sp_tok s)) = true ->
                   t_lit (sp_tok s) = sp_lexeme s) ss /\
  Forall (fun s => forall c r, sp_lexeme s = c :: r -> Gen.Preds.isLetter c = true ->
                   t_type (sp_tok s) = lookup_ident token_keywords (sp_lexeme s)) ss.
Proof.
  intros src ss H. unfold spans in H. apply spans_from_run in H.
  apply run_slices in H. exact H.
Qed.

Lemma pos_of_offset_prefix p r n : n = length p ->
  pos_of_offset (p ++ r) n = pos_after (mkpos 0 0) p.
Proof. intros ->. unfold pos_of_offset. rewrite firstn_length_app. reflexivity. Qed.

Lemma run_positions : forall l ss, run l ss -> forall src before,
  src = before ++ l_rest l -> cur_pos l = pos_after (mkpos 0 0) before ->
  forall_spans (fun before s =>
    token_positions_ok src (lexeme_start before s) (lexeme_end before s) (sp_tok s)) before ss.
Proof.
  assert (ONE : forall l g x t l' src before, step_ok l g x t l' ->
            src = before ++ l_rest l -> cur_pos l = pos_after (mkpos 0 0) before ->
            token_positions_ok src (lexeme_start before (mkspan g x t))
              (lexeme_end before (mkspan g x t)) t).
  { intros l g x t l' src before K Hs Hp.
    pose proof (so_rest _ _ _ _ _ K) as Hr. rewrite Hr in Hs.
    unfold token_positions_ok, lexeme_end, lexeme_start. cbn [sp_gap sp_lexeme].
    split; [|split].
    - rewrite (so_start _ _ _ _ _ K), Hp, <- pos_after_app.
      replace src with ((before ++ g) ++ x ++ l_rest l') by (subst src; rewrite <- app_assoc; reflexivity).
      symmetry. apply pos_of_offset_prefix. rewrite app_length. reflexivity.
    - destruct (so_end _ _ _ _ _ K) as [En|(x0 & c & Hx & En)].
      + left. rewrite En, Hp, <- pos_after_app.
        replace src with ((before ++ g ++ x) ++ l_rest l')
          by (subst src; rewrite <- !app_assoc; reflexivity).
        symmetry. apply pos_of_offset_prefix. rewrite !app_length. lia.
      + right. subst x. rewrite app_length. cbn [length]. split; [lia|].
        rewrite En, Hp, <- pos_after_app.
        replace src with ((before ++ g ++ x0) ++ [c] ++ l_rest l')
          by (subst src; rewrite <- !app_assoc; reflexivity).
        symmetry. apply pos_of_offset_prefix. rewrite !app_length. lia.
    - subst src. rewrite !app_length. lia. }
  induction 1 as [l g x t l' K E | l g x t l' ss K E R IH]; intros src before Hs Hp; cbn [forall_spans sp_tok].
  - split; [|exact I]. eapply ONE; eassumption.
  - split; [eapply ONE; eassumption|].
    apply IH.
    + unfold span_text. cbn [sp_gap sp_lexeme]. subst src.
      rewrite (so_rest _ _ _ _ _ K), <- !app_assoc. reflexivity.
    + unfold span_text. cbn [sp_gap sp_lexeme].
      rewrite (so_pos _ _ _ _ _ K), Hp, <- pos_after_app. reflexivity.
Qed.

Lemma lex_positions : forall src ss, spans src = Some ss ->
  forall_spans (fun before s =>
    token_positions_ok src (lexeme_start before s) (lexeme_end before s) (sp_tok s)) [] ss.
Proof.
  intros src ss H. unfold spans in H. apply spans_from_run in H.
  apply (run_positions _ _ H src []); reflexivity.
Qed.

Lemma run_eof_position l ss : run l ss ->
  t_start (sp_tok (last ss dspan)) = pos_after (cur_pos l) (l_rest l).
Proof.
  induction 1 as [l g x t l' K E | l g x t l' ss K E R IH].
  - cbn [last sp_tok]. destruct (so_eof _ _ _ _ _ K E) as [-> Hn].
    rewrite (so_start _ _ _ _ _ K), (so_rest _ _ _ _ _ K), Hn, !app_nil_r. reflexivity.
  - pose proof (run_shape _ _ R) as (Nn & _ & _).
    destruct ss as [|s ss]; [congruence|].
    change (last (mkspan g x t :: s :: ss) dspan) with (last (s :: ss) dspan).
    rewrite IH, (so_pos _ _ _ _ _ K), <- pos_after_app, (so_rest _ _ _ _ _ K), <- app_assoc.
    reflexivity.
Qed.

Lemma lex_eof_position : forall src ss, spans src = Some ss ->
  t_start (sp_tok (last ss (mkspan [] [] (mktoken 0 [] (mkpos 0 0) (mkpos 0 0) false []))))
  = pos_of_offset src (length src).
Proof.
  intros src ss H. unfold spans in H. apply spans_from_run in H.
  apply run_eof_position in H. unfold dspan in H. rewrite H.
  unfold pos_of_offset. rewrite firstn_all. reflexivity.
Qed.
