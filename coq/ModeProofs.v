(* ModeProofs.v -- C13: the parser modes (tolerant, smart semicolons) differ only where
   documented.  One generic development (a preorder [R] on parser states that every run
   respects, a "good fragment" predicate [G] under which two configurations compute the
   same thing), instantiated three times. *)
Require Import Base GoOps Token Tree Parser ParserSpec.
Require Import Gen.Tables.
From Coq Require Import ZifyBool ZifyN ZifyNat Lia.

(* the unclosed-block step of ParseBlockStatement *)
Definition close_block (cfg : pcfg) (s : pstate) : pstate :=
  if negb (cur_is s T_RBRACE) && negb (c_tolerant cfg) then add_error s EK_UNCLOSED 0 else s.

(* the smart-semicolon test of ParseRemainingExpressionWithPrecedence *)
Definition smart_test (cfg : pcfg) (s : pstate) : bool :=
  c_smart cfg && t_nl (ps_peek s) && (peek_is s T_LPAREN || peek_is s T_LBRACKET).

Lemma parse_block_statement_eq cfg sf lf s :
  parse_block_statement cfg sf lf s =
  (do (stmts, s2) <- block_loop sf lf [] (ps_next (push_ctx s P_BlockContext));
   Some (SBlock (ps_cur s) stmts (ps_cur (close_block cfg s2)), pop_ctx (close_block cfg s2))).
Proof. reflexivity. Qed.

Create HintDb monodb.
Create HintDb xferdb.

Section Generic.
  Variables cfg1 cfg2 : pcfg.
  Variable R : pstate -> pstate -> Prop.
  Variable G : pstate -> Prop.

  Hypothesis R_refl : forall s, R s s.
  Hypothesis R_trans : forall a b c, R a b -> R b c -> R a c.
  Hypothesis R_next : forall s, R s (ps_next s).
  Hypothesis R_setctx : forall s c, R s (set_ctx s c).
  Hypothesis R_cep : forall s p, R s (set_cep s p).
  Hypothesis R_log : forall s i k, R s (log_event s i k).
  Hypothesis R_err : forall s k a t,
    k <> EK_SEMICOLON -> k <> EK_UNCLOSED -> R s (add_error_at s k a t).
  Hypothesis R_semi : forall s, R s (snd (expect_semicolon_asi cfg1 s)).
  Hypothesis R_close : forall s, R s (close_block cfg1 s).

  Hypothesis G_convex : forall a b c, R a b -> R b c -> G a -> G c -> G b.
  Hypothesis G_semi : forall s, G s -> G (snd (expect_semicolon_asi cfg1 s)) ->
    expect_semicolon_asi cfg2 s = expect_semicolon_asi cfg1 s.
  Hypothesis G_close : forall s, G s -> G (close_block cfg1 s) ->
    close_block cfg2 s = close_block cfg1 s.
  Hypothesis G_smart : forall s, G s -> smart_test cfg2 s = smart_test cfg1 s.
  Hypothesis same_sics : c_stmt_ics cfg2 = c_stmt_ics cfg1.
  Hypothesis same_eics : c_expr_ics cfg2 = c_expr_ics cfg1.
  Hypothesis same_prefix : c_prefix_ops cfg2 = c_prefix_ops cfg1.
  Hypothesis same_infix : c_infix_ops cfg2 = c_infix_ops cfg1.
  Hypothesis same_postfix : c_postfix_ops cfg2 = c_postfix_ops cfg1.

  Inductive mono {A} (f : pstate -> res A) : Prop :=
    mono_intro : (forall s r s', f s = Some (r, s') -> R s s') -> mono f.
  Inductive xfer {A} (f1 f2 : pstate -> res A) : Prop :=
    xfer_intro : (forall s r s', f1 s = Some (r, s') -> G s -> G s' -> f2 s = Some (r, s')) ->
                 xfer f1 f2.

  Lemma mono_elim {A} (f : pstate -> res A) :
    mono f -> forall s r s', f s = Some (r, s') -> R s s'.
  Proof. intros [H]; exact H. Qed.
  Lemma xfer_elim {A} (f1 f2 : pstate -> res A) :
    xfer f1 f2 -> forall s r s', f1 s = Some (r, s') -> G s -> G s' -> f2 s = Some (r, s').
  Proof. intros [H]; exact H. Qed.

  Lemma R_push s c : R s (push_ctx s c).
  Proof. apply R_setctx. Qed.
  Lemma R_pop s : R s (pop_ctx s).
  Proof. apply R_setctx. Qed.
  Lemma R_adderr s k a : k <> EK_SEMICOLON -> k <> EK_UNCLOSED -> R s (add_error s k a).
  Proof. intros; apply R_err; assumption. Qed.
  Lemma R_expect s ty : R s (snd (expect s ty)).
  Proof.
    unfold expect. destruct (peek_is s ty); cbn [snd]; [apply R_next|].
    apply R_err; unfold EK_EXPECTED, EK_SEMICOLON, EK_UNCLOSED; lia.
  Qed.

  Lemma prec_same ty : precedence_of cfg2 ty = precedence_of cfg1 ty.
  Proof. unfold precedence_of. rewrite same_postfix, same_infix. reflexivity. Qed.
  Lemma infix_lookup_same ty : infix_lookup cfg2 ty = infix_lookup cfg1 ty.
  Proof. unfold infix_lookup. rewrite same_postfix, same_infix. reflexivity. Qed.

  (* ---- tactics ---- *)

  (* strip state operations on the left of a fact *)
  Ltac normR M :=
    lazymatch type of M with
    | R (ps_next ?x) ?y =>
        let M' := fresh "M" in pose proof (R_trans _ _ _ (R_next x) M) as M'; normR M'
    | R (push_ctx ?x ?c) ?y =>
        let M' := fresh "M" in pose proof (R_trans _ _ _ (R_push x c) M) as M'; normR M'
    | R (pop_ctx ?x) ?y =>
        let M' := fresh "M" in pose proof (R_trans _ _ _ (R_pop x) M) as M'; normR M'
    | R (set_cep ?x ?p) ?y =>
        let M' := fresh "M" in pose proof (R_trans _ _ _ (R_cep x p) M) as M'; normR M'
    | R (log_event ?x ?i ?k) ?y =>
        let M' := fresh "M" in pose proof (R_trans _ _ _ (R_log x i k) M) as M'; normR M'
    | _ => idtac
    end.

  Ltac ek := unfold EK_EXPECTED, EK_SEMICOLON, EK_UNEXPECTED, EK_UNCLOSED, EK_INT, EK_FLOAT; lia.

  Ltac solveR :=
    solve
      [ apply R_refl
      | assumption
      | match goal with
        | H : R ?a ?b |- R ?a ?c => apply (R_trans a b c H); solveR
        end
      | lazymatch goal with
        | |- R ?a (ps_next ?c) => apply (R_trans a c _); [solveR | apply R_next]
        | |- R ?a (push_ctx ?c _) => apply (R_trans a c _); [solveR | apply R_push]
        | |- R ?a (pop_ctx ?c) => apply (R_trans a c _); [solveR | apply R_pop]
        | |- R ?a (set_cep ?c _) => apply (R_trans a c _); [solveR | apply R_cep]
        | |- R ?a (log_event ?c _ _) => apply (R_trans a c _); [solveR | apply R_log]
        | |- R ?a (close_block cfg1 ?c) => apply (R_trans a c _); [solveR | apply R_close]
        | |- R ?a (add_error ?c _ _) => apply (R_trans a c _); [solveR | apply R_adderr; ek]
        end ].

  Ltac solveG :=
    solve
      [ assumption
      | match goal with
        | Ha : G ?a, Hc : G ?c |- G ?b =>
            apply (G_convex a b c); [solveR | solveR | exact Ha | exact Hc]
        end ].

  (* record the R fact of a finished sub-run *)
  Ltac addR E :=
    lazymatch type of E with
    | ?f ?a = Some (_, ?s2) =>
        let M := fresh "M" in
        assert (M : R a s2) by (refine (mono_elim f _ a _ s2 E); auto with monodb);
        normR M
    end.

  Ltac addRp E :=
    lazymatch type of E with
    | expect ?a ?ty = (_, ?s1) =>
        let M := fresh "M" in
        pose proof (R_expect a ty) as M; rewrite E in M; cbn [snd] in M; normR M
    | expect_semicolon_asi cfg1 ?a = (_, ?s1) =>
        let M := fresh "M" in
        pose proof (R_semi a) as M; rewrite E in M; cbn [snd] in M; normR M
    end.

  (* one step through the run in the premise of the goal *)
  Ltac head_scrut t :=
    lazymatch t with
    | match ?e with _ => _ end => head_scrut e
    | _ => t
    end.

  Ltac step :=
    lazymatch goal with
    | |- Some _ = Some _ -> _ =>
        let H := fresh "H" in intro H; inversion H; subst; clear H
    | |- None = Some _ -> _ => intro; discriminate
    | |- (match ?e0 with _ => _ end) = Some _ -> _ =>
        let e := head_scrut e0 in
        lazymatch e with
        | negb ?b => first [ is_var b; destruct b | destruct b eqn:? ]; cbn [negb]
        | _ =>
            let T := type of e in
            let T' := eval cbv [res] in T in
            lazymatch T' with
            | option (_ * pstate) =>
                let E := fresh "E" in
                destruct e as [[? ?]|] eqn:E; [ addR E | intro; discriminate ]
            | (_ * pstate)%type =>
                let E := fresh "E" in
                destruct e as [? ?] eqn:E; addRp E
            | _ => first [ is_var e; destruct e | destruct e eqn:? ]
            end
        end
    | |- ?f ?a = Some _ -> _ => let E := fresh "E" in intro E; addR E
    end.

  (* replay the run in the conclusion *)
  Ltac xsub :=
    match goal with
    | |- context [match ?f2 ?a with _ => _ end] =>
        match goal with
        | E : ?f1 a = Some (?x, ?s2) |- _ =>
            let X := fresh "X" in
            assert (X : f2 a = Some (x, s2))
              by (refine (xfer_elim f1 f2 _ a x s2 E _ _); [auto with xferdb | solveG | solveG]);
            rewrite X; clear X
        end
    end.

  Ltac xtail :=
    lazymatch goal with
    | |- ?f2 ?a = Some (?x, ?s2) =>
        match goal with
        | E : ?f1 a = Some (x, s2) |- _ =>
            refine (xfer_elim f1 f2 _ a x s2 E _ _); [auto with xferdb | solveG | solveG]
        end
    end.

  Ltac xstep :=
    first
      [ match goal with
        | E : ?l = ?r |- _ =>
            lazymatch r with
            | true => idtac | false => idtac | (_, _) => idtac
            | Some _ => lazymatch l with assoc_opt _ _ => idtac | infix_lookup _ _ => idtac end
            | None => lazymatch l with assoc_opt _ _ => idtac | infix_lookup _ _ => idtac end
            end;
            rewrite E
        end
      | match goal with
        | |- context [expect_semicolon_asi cfg2 ?a] =>
            rewrite (G_semi a)
              by first [ solveG
                       | match goal with
                         | E : expect_semicolon_asi cfg1 a = _ |- _ =>
                             rewrite E; cbn [snd]; solveG
                         end ]
        end
      | match goal with
        | |- context [close_block cfg2 ?a] => rewrite (G_close a) by solveG
        end
      | xsub ];
    cbv beta iota; cbn [negb].

  Ltac xfer_start := constructor; intros s r s' H G0 G1; revert H.
  Ltac xfer_go := repeat step; repeat xstep; first [ reflexivity | xtail ].

  Section Inner.
    Variables sf1 sf2 : pstate -> res stmt.
    Variables ef1 ef2 : Z -> pstate -> res expr.
    Variable lf : nat.
    Hypothesis sf1_mono : mono sf1.
    Hypothesis ef1_mono : forall p, mono (ef1 p).
    Hypothesis sf_xfer : xfer sf1 sf2.
    Hypothesis ef_xfer : forall p, xfer (ef1 p) (ef2 p).

    Lemma params_loop_mono n : forall acc, mono (params_loop n acc).
    Proof.
      induction n as [|n IH]; intro acc; constructor; intros s r s'; cbn [params_loop].
      - intro; discriminate.
      - pose proof (IH (acc ++ [mk_ident (ps_cur (ps_next (ps_next s)))])) as IH'.
        repeat step; solveR.
    Qed.
    Hint Resolve params_loop_mono : monodb.

    Lemma parse_function_parameters_mono : mono (parse_function_parameters lf).
    Proof.
      constructor; intros s r s'; unfold parse_function_parameters.
      repeat step; solveR.
    Qed.
    Hint Resolve parse_function_parameters_mono : monodb.

    Lemma block_loop_mono n : forall acc, mono (block_loop sf1 n acc).
    Proof.
      induction n as [|n IH]; intro acc; constructor; intros s r s'; cbn [block_loop].
      - intro; discriminate.
      - repeat step; solveR.
    Qed.
    Hint Resolve block_loop_mono : monodb.

    Lemma parse_block_statement_mono : mono (parse_block_statement cfg1 sf1 lf).
    Proof.
      constructor; intros s r s'; rewrite parse_block_statement_eq.
      repeat step; solveR.
    Qed.
    Hint Resolve parse_block_statement_mono : monodb.

    Ltac mono_simple := constructor; intros s r s'; repeat step; solveR.

    Lemma parse_let_statement_mono : mono (parse_let_statement cfg1 ef1).
    Proof. unfold parse_let_statement, parse_expression. mono_simple. Qed.
    Hint Resolve parse_let_statement_mono : monodb.

    Lemma parse_let_expression_mono : mono (parse_let_expression ef1).
    Proof. unfold parse_let_expression, parse_expression. mono_simple. Qed.
    Hint Resolve parse_let_expression_mono : monodb.

    Lemma parse_function_statement_mono : mono (parse_function_statement cfg1 sf1 lf).
    Proof. unfold parse_function_statement. mono_simple. Qed.
    Hint Resolve parse_function_statement_mono : monodb.

    Lemma parse_return_statement_mono : mono (parse_return_statement cfg1 ef1).
    Proof. unfold parse_return_statement, parse_expression. mono_simple. Qed.
    Hint Resolve parse_return_statement_mono : monodb.

    Lemma parse_if_statement_mono : mono (parse_if_statement sf1 ef1).
    Proof. unfold parse_if_statement, parse_expression. mono_simple. Qed.
    Hint Resolve parse_if_statement_mono : monodb.

    Lemma parse_while_statement_mono : mono (parse_while_statement sf1 ef1).
    Proof. unfold parse_while_statement, parse_expression. mono_simple. Qed.
    Hint Resolve parse_while_statement_mono : monodb.

    Lemma parse_for_statement_mono : mono (parse_for_statement sf1 ef1).
    Proof. unfold parse_for_statement, parse_expression. mono_simple. Qed.
    Hint Resolve parse_for_statement_mono : monodb.

    Lemma parse_expression_statement_mono : mono (parse_expression_statement cfg1 ef1).
    Proof. unfold parse_expression_statement, parse_expression. mono_simple. Qed.
    Hint Resolve parse_expression_statement_mono : monodb.

    Lemma base_parse_statement_mono : mono (base_parse_statement cfg1 sf1 ef1 lf).
    Proof. unfold base_parse_statement. mono_simple. Qed.
    Hint Resolve base_parse_statement_mono : monodb.

    Lemma expr_list_loop_mono n : forall acc, mono (expr_list_loop ef1 n acc).
    Proof.
      induction n as [|n IH]; intro acc; constructor; intros s r s';
        cbn [expr_list_loop]; unfold parse_expression.
      - intro; discriminate.
      - repeat step; solveR.
    Qed.
    Hint Resolve expr_list_loop_mono : monodb.

    Lemma parse_expression_list_mono end_ty : mono (parse_expression_list ef1 lf end_ty).
    Proof. unfold parse_expression_list, parse_expression. mono_simple. Qed.
    Hint Resolve parse_expression_list_mono : monodb.

    Lemma object_loop_mono n : forall acc, mono (object_loop ef1 n acc).
    Proof.
      induction n as [|n IH]; intro acc; constructor; intros s r s';
        cbn [object_loop]; unfold parse_expression.
      - intro; discriminate.
      - repeat step; solveR.
    Qed.
    Hint Resolve object_loop_mono : monodb.

    Lemma parse_object_literal_mono : mono (parse_object_literal ef1 lf).
    Proof. unfold parse_object_literal. mono_simple. Qed.
    Hint Resolve parse_object_literal_mono : monodb.

    Lemma parse_function_expression_mono : mono (parse_function_expression cfg1 sf1 lf).
    Proof. unfold parse_function_expression. mono_simple. Qed.
    Hint Resolve parse_function_expression_mono : monodb.

    Lemma parse_grouped_expression_mono : mono (parse_grouped_expression ef1).
    Proof. unfold parse_grouped_expression, parse_expression. mono_simple. Qed.
    Hint Resolve parse_grouped_expression_mono : monodb.

    Lemma parse_unary_expression_mono : mono (parse_unary_expression ef1).
    Proof. unfold parse_unary_expression. mono_simple. Qed.
    Hint Resolve parse_unary_expression_mono : monodb.

    Lemma prefix_handler_run_mono h : mono (prefix_handler_run cfg1 sf1 ef1 lf h).
    Proof. unfold prefix_handler_run. mono_simple. Qed.
    Hint Resolve prefix_handler_run_mono : monodb.

    Lemma parse_prefix_expression_mono : mono (parse_prefix_expression cfg1 sf1 ef1 lf).
    Proof. unfold parse_prefix_expression. mono_simple. Qed.
    Hint Resolve parse_prefix_expression_mono : monodb.

    Lemma parse_binary_expression_mono left : mono (parse_binary_expression cfg1 ef1 left).
    Proof. unfold parse_binary_expression. mono_simple. Qed.
    Hint Resolve parse_binary_expression_mono : monodb.

    Lemma infix_handler_run_mono h left : mono (infix_handler_run cfg1 ef1 lf h left).
    Proof. unfold infix_handler_run, parse_expression. mono_simple. Qed.
    Hint Resolve infix_handler_run_mono : monodb.

    Lemma parse_infix_expression_mono left : mono (parse_infix_expression cfg1 ef1 lf left).
    Proof. unfold parse_infix_expression. mono_simple. Qed.
    Hint Resolve parse_infix_expression_mono : monodb.

    Lemma remaining_loop_mono n : forall left prec, mono (remaining_loop cfg1 ef1 lf n left prec).
    Proof.
      induction n as [|n IH]; intros left prec; constructor; intros s r s'; cbn [remaining_loop].
      - intro; discriminate.
      - repeat step; solveR.
    Qed.
    Hint Resolve remaining_loop_mono : monodb.

    Lemma parse_remaining_mono left prec :
      mono (parse_remaining_with_precedence cfg1 ef1 lf left prec).
    Proof. unfold parse_remaining_with_precedence. auto with monodb. Qed.
    Hint Resolve parse_remaining_mono : monodb.

    Lemma base_parse_expression_mono prec : mono (base_parse_expression cfg1 sf1 ef1 lf prec).
    Proof. unfold base_parse_expression. mono_simple. Qed.
    Hint Resolve base_parse_expression_mono : monodb.

    Lemma run_stmt_chain_mono ics : mono (run_stmt_chain cfg1 sf1 ef1 lf ics).
    Proof.
      induction ics as [|ic ics IH]; cbn [run_stmt_chain]; [auto with monodb|].
      destruct ic; [exact IH|]. mono_simple.
    Qed.

    Lemma run_expr_chain_mono ics : forall prec, mono (run_expr_chain cfg1 sf1 ef1 lf ics prec).
    Proof.
      induction ics as [|ic ics IH]; intro prec; cbn [run_expr_chain]; [auto with monodb|].
      destruct ic; mono_simple.
    Qed.

    (* ---- the same run under the second configuration ---- *)

    Lemma params_loop_xfer n : forall acc, xfer (params_loop n acc) (params_loop n acc).
    Proof. intro acc; constructor; intros; assumption. Qed.

    Lemma block_loop_xfer n : forall acc, xfer (block_loop sf1 n acc) (block_loop sf2 n acc).
    Proof.
      induction n as [|n IH]; intro acc; xfer_start; cbn [block_loop].
      - intro; discriminate.
      - xfer_go.
    Qed.
    Hint Resolve block_loop_xfer : xferdb.

    Lemma parse_block_statement_xfer :
      xfer (parse_block_statement cfg1 sf1 lf) (parse_block_statement cfg2 sf2 lf).
    Proof. xfer_start; rewrite !parse_block_statement_eq. xfer_go. Qed.
    Hint Resolve parse_block_statement_xfer : xferdb.

    Lemma parse_let_statement_xfer :
      xfer (parse_let_statement cfg1 ef1) (parse_let_statement cfg2 ef2).
    Proof. xfer_start; unfold parse_let_statement, parse_expression. xfer_go. Qed.
    Hint Resolve parse_let_statement_xfer : xferdb.

    Lemma parse_let_expression_xfer : xfer (parse_let_expression ef1) (parse_let_expression ef2).
    Proof. xfer_start; unfold parse_let_expression, parse_expression. xfer_go. Qed.
    Hint Resolve parse_let_expression_xfer : xferdb.

    Lemma parse_function_statement_xfer :
      xfer (parse_function_statement cfg1 sf1 lf) (parse_function_statement cfg2 sf2 lf).
    Proof. xfer_start; unfold parse_function_statement. xfer_go. Qed.
    Hint Resolve parse_function_statement_xfer : xferdb.

    Lemma parse_return_statement_xfer :
      xfer (parse_return_statement cfg1 ef1) (parse_return_statement cfg2 ef2).
    Proof. xfer_start; unfold parse_return_statement, parse_expression. xfer_go. Qed.
    Hint Resolve parse_return_statement_xfer : xferdb.

    Lemma parse_if_statement_xfer : xfer (parse_if_statement sf1 ef1) (parse_if_statement sf2 ef2).
    Proof. xfer_start; unfold parse_if_statement, parse_expression. xfer_go. Qed.
    Hint Resolve parse_if_statement_xfer : xferdb.

    Lemma parse_while_statement_xfer :
      xfer (parse_while_statement sf1 ef1) (parse_while_statement sf2 ef2).
    Proof. xfer_start; unfold parse_while_statement, parse_expression. xfer_go. Qed.
    Hint Resolve parse_while_statement_xfer : xferdb.

    Lemma parse_for_statement_xfer :
      xfer (parse_for_statement sf1 ef1) (parse_for_statement sf2 ef2).
    Proof. xfer_start; unfold parse_for_statement, parse_expression. xfer_go. Qed.
    Hint Resolve parse_for_statement_xfer : xferdb.

    Lemma parse_expression_statement_xfer :
      xfer (parse_expression_statement cfg1 ef1) (parse_expression_statement cfg2 ef2).
    Proof. xfer_start; unfold parse_expression_statement, parse_expression. xfer_go. Qed.
    Hint Resolve parse_expression_statement_xfer : xferdb.

    Lemma base_parse_statement_xfer :
      xfer (base_parse_statement cfg1 sf1 ef1 lf) (base_parse_statement cfg2 sf2 ef2 lf).
    Proof. xfer_start; unfold base_parse_statement. xfer_go. Qed.
    Hint Resolve base_parse_statement_xfer : xferdb.

    Lemma expr_list_loop_xfer n :
      forall acc, xfer (expr_list_loop ef1 n acc) (expr_list_loop ef2 n acc).
    Proof.
      induction n as [|n IH]; intro acc; xfer_start; cbn [expr_list_loop]; unfold parse_expression.
      - intro; discriminate.
      - xfer_go.
    Qed.
    Hint Resolve expr_list_loop_xfer : xferdb.

    Lemma parse_expression_list_xfer end_ty :
      xfer (parse_expression_list ef1 lf end_ty) (parse_expression_list ef2 lf end_ty).
    Proof. xfer_start; unfold parse_expression_list, parse_expression. xfer_go. Qed.
    Hint Resolve parse_expression_list_xfer : xferdb.

    Lemma object_loop_xfer n :
      forall acc, xfer (object_loop ef1 n acc) (object_loop ef2 n acc).
    Proof.
      induction n as [|n IH]; intro acc; xfer_start; cbn [object_loop]; unfold parse_expression.
      - intro; discriminate.
      - xfer_go.
    Qed.
    Hint Resolve object_loop_xfer : xferdb.

    Lemma parse_object_literal_xfer :
      xfer (parse_object_literal ef1 lf) (parse_object_literal ef2 lf).
    Proof. xfer_start; unfold parse_object_literal. xfer_go. Qed.
    Hint Resolve parse_object_literal_xfer : xferdb.

    Lemma parse_function_expression_xfer :
      xfer (parse_function_expression cfg1 sf1 lf) (parse_function_expression cfg2 sf2 lf).
    Proof. xfer_start; unfold parse_function_expression. xfer_go. Qed.
    Hint Resolve parse_function_expression_xfer : xferdb.

    Lemma parse_grouped_expression_xfer :
      xfer (parse_grouped_expression ef1) (parse_grouped_expression ef2).
    Proof. xfer_start; unfold parse_grouped_expression, parse_expression. xfer_go. Qed.
    Hint Resolve parse_grouped_expression_xfer : xferdb.

    Lemma parse_unary_expression_xfer :
      xfer (parse_unary_expression ef1) (parse_unary_expression ef2).
    Proof. xfer_start; unfold parse_unary_expression. xfer_go. Qed.
    Hint Resolve parse_unary_expression_xfer : xferdb.

    Lemma prefix_handler_run_xfer h :
      xfer (prefix_handler_run cfg1 sf1 ef1 lf h) (prefix_handler_run cfg2 sf2 ef2 lf h).
    Proof. xfer_start; unfold prefix_handler_run. xfer_go. Qed.
    Hint Resolve prefix_handler_run_xfer : xferdb.

    Lemma parse_prefix_expression_xfer :
      xfer (parse_prefix_expression cfg1 sf1 ef1 lf) (parse_prefix_expression cfg2 sf2 ef2 lf).
    Proof. xfer_start; unfold parse_prefix_expression; rewrite same_prefix. xfer_go. Qed.
    Hint Resolve parse_prefix_expression_xfer : xferdb.

    Lemma parse_binary_expression_xfer left :
      xfer (parse_binary_expression cfg1 ef1 left) (parse_binary_expression cfg2 ef2 left).
    Proof.
      xfer_start; unfold parse_binary_expression, current_precedence; rewrite prec_same. xfer_go.
    Qed.
    Hint Resolve parse_binary_expression_xfer : xferdb.

    Lemma infix_handler_run_xfer h left :
      xfer (infix_handler_run cfg1 ef1 lf h left) (infix_handler_run cfg2 ef2 lf h left).
    Proof. xfer_start; unfold infix_handler_run, parse_expression. xfer_go. Qed.
    Hint Resolve infix_handler_run_xfer : xferdb.

    Lemma parse_infix_expression_xfer left :
      xfer (parse_infix_expression cfg1 ef1 lf left) (parse_infix_expression cfg2 ef2 lf left).
    Proof.
      xfer_start; unfold parse_infix_expression; rewrite infix_lookup_same. xfer_go.
    Qed.
    Hint Resolve parse_infix_expression_xfer : xferdb.

    Lemma remaining_loop_xfer n : forall left prec,
      xfer (remaining_loop cfg1 ef1 lf n left prec) (remaining_loop cfg2 ef2 lf n left prec).
    Proof.
      induction n as [|n IH]; intros left prec; xfer_start; cbn [remaining_loop].
      - intro; discriminate.
      - change (c_smart cfg1 && t_nl (ps_peek s) && (peek_is s T_LPAREN || peek_is s T_LBRACKET))
          with (smart_test cfg1 s).
        change (c_smart cfg2 && t_nl (ps_peek s) && (peek_is s T_LPAREN || peek_is s T_LBRACKET))
          with (smart_test cfg2 s).
        rewrite (G_smart s G0). unfold peek_precedence. rewrite prec_same.
        xfer_go.
    Qed.
    Hint Resolve remaining_loop_xfer : xferdb.

    Lemma parse_remaining_xfer left prec :
      xfer (parse_remaining_with_precedence cfg1 ef1 lf left prec)
           (parse_remaining_with_precedence cfg2 ef2 lf left prec).
    Proof. unfold parse_remaining_with_precedence. auto with xferdb. Qed.
    Hint Resolve parse_remaining_xfer : xferdb.

    Lemma base_parse_expression_xfer prec :
      xfer (base_parse_expression cfg1 sf1 ef1 lf prec) (base_parse_expression cfg2 sf2 ef2 lf prec).
    Proof. xfer_start; unfold base_parse_expression. xfer_go. Qed.
    Hint Resolve base_parse_expression_xfer : xferdb.

    Lemma run_stmt_chain_xfer ics :
      xfer (run_stmt_chain cfg1 sf1 ef1 lf ics) (run_stmt_chain cfg2 sf2 ef2 lf ics).
    Proof.
      induction ics as [|ic ics IH]; cbn [run_stmt_chain]; [auto with xferdb|].
      destruct ic; [exact IH|].
      pose proof (run_stmt_chain_mono ics) as IHm.
      xfer_start. xfer_go.
    Qed.

    Lemma run_expr_chain_xfer ics : forall prec,
      xfer (run_expr_chain cfg1 sf1 ef1 lf ics prec) (run_expr_chain cfg2 sf2 ef2 lf ics prec).
    Proof.
      induction ics as [|ic ics IH]; intro prec; cbn [run_expr_chain]; [auto with xferdb|].
      pose proof (run_expr_chain_mono ics) as IHm.
      destruct ic; xfer_start; xfer_go.
    Qed.
  End Inner.

  (* ---- closing the recursion on fuel ---- *)

  Lemma fn_mono : forall fuel,
    mono (stmt_fn cfg1 fuel) /\ (forall p, mono (expr_fn cfg1 fuel p)).
  Proof.
    induction fuel as [|f [IHs IHe]]; split; try intro p;
      constructor; intros s r s' H; cbn [stmt_fn expr_fn] in H; try discriminate.
    - exact (mono_elim _ (run_stmt_chain_mono _ _ f IHs IHe _) _ _ _ H).
    - exact (mono_elim _ (run_expr_chain_mono _ _ f IHs IHe _ _) _ _ _ H).
  Qed.

  Lemma fn_xfer : forall fuel,
    xfer (stmt_fn cfg1 fuel) (stmt_fn cfg2 fuel) /\
    (forall p, xfer (expr_fn cfg1 fuel p) (expr_fn cfg2 fuel p)).
  Proof.
    induction fuel as [|f [IHs IHe]]; split; try intro p;
      constructor; intros s r s' H G0 G1; cbn [stmt_fn expr_fn] in H |- *; try discriminate.
    - destruct (fn_mono f) as [Ms Me]. rewrite same_sics.
      exact (xfer_elim _ _ (run_stmt_chain_xfer _ _ _ _ f Ms Me IHs IHe _) _ _ _ H G0 G1).
    - destruct (fn_mono f) as [Ms Me]. rewrite same_eics.
      exact (xfer_elim _ _ (run_expr_chain_xfer _ _ _ _ f Ms Me IHs IHe _ _) _ _ _ H G0 G1).
  Qed.

  Lemma program_loop_mono fuel n : forall acc, mono (program_loop cfg1 fuel n acc).
  Proof.
    pose proof (proj1 (fn_mono fuel)) as Ms.
    induction n as [|n IH]; intro acc; constructor; intros s r s'; cbn [program_loop].
    - intro; discriminate.
    - repeat step; solveR.
  Qed.

  Lemma program_loop_xfer fuel n :
    forall acc, xfer (program_loop cfg1 fuel n acc) (program_loop cfg2 fuel n acc).
  Proof.
    pose proof (proj1 (fn_mono fuel)) as Ms.
    pose proof (proj1 (fn_xfer fuel)) as Xs.
    pose proof (program_loop_mono fuel) as Mp.
    induction n as [|n IH]; intro acc; xfer_start; cbn [program_loop].
    - intro; discriminate.
    - xfer_go.
  Qed.

  Lemma parse_program_from_mono fuel s r :
    parse_program_from cfg1 fuel s = Some r -> R s (pr_final r).
  Proof.
    unfold parse_program_from.
    destruct (program_loop cfg1 fuel fuel [] s) as [[stmts s1]|] eqn:E; [|discriminate].
    intro H; inversion H; subst; clear H; cbn [pr_final].
    exact (mono_elim _ (program_loop_mono fuel fuel []) _ _ _ E).
  Qed.

  Lemma parse_program_from_xfer fuel s r :
    parse_program_from cfg1 fuel s = Some r -> G s -> G (pr_final r) ->
    parse_program_from cfg2 fuel s = Some r.
  Proof.
    unfold parse_program_from.
    destruct (program_loop cfg1 fuel fuel [] s) as [[stmts s1]|] eqn:E; [|discriminate].
    intro H; inversion H; subst; clear H; cbn [pr_final]. intros G0 G1.
    rewrite (xfer_elim _ _ (program_loop_xfer fuel fuel []) _ _ _ E G0 G1). reflexivity.
  Qed.
End Generic.

Lemma parse_program_from_errors cfg fuel s r :
  parse_program_from cfg fuel s = Some r -> pr_errors r = ps_errors (pr_final r).
Proof.
  unfold parse_program_from.
  destruct (program_loop cfg fuel fuel [] s) as [[stmts s1]|]; [|discriminate].
  intro H; inversion H; reflexivity.
Qed.

Lemma ps_init_errors toks eof : ps_errors (ps_init toks eof) = [].
Proof. unfold ps_init, ps_next; cbn. destruct toks as [|a [|b l]]; reflexivity. Qed.

Lemma ps_next_errors s : ps_errors (ps_next s) = ps_errors s.
Proof. unfold ps_next. destruct (ps_rest s); reflexivity. Qed.

(* ---------- 1. errors only grow ---------- *)

Definition errs_ext (s s' : pstate) : Prop := exists l, ps_errors s' = ps_errors s ++ l.

Lemma errs_ext_refl s : errs_ext s s.
Proof. exists []. symmetry; apply app_nil_r. Qed.
Lemma errs_ext_trans a b c : errs_ext a b -> errs_ext b c -> errs_ext a c.
Proof. intros [l1 H1] [l2 H2]. exists (l1 ++ l2). rewrite H2, H1, app_assoc. reflexivity. Qed.
Lemma errs_ext_same s s' : ps_errors s' = ps_errors s -> errs_ext s s'.
Proof. intro H. exists []. rewrite H. symmetry; apply app_nil_r. Qed.
Lemma errs_ext_add s k a t : errs_ext s (add_error_at s k a t).
Proof. eexists. reflexivity. Qed.
Lemma errs_ext_semi cfg s : errs_ext s (snd (expect_semicolon_asi cfg s)).
Proof.
  unfold expect_semicolon_asi.
  destruct (peek_is s T_SEMICOLON); cbn [snd]; [apply errs_ext_same, ps_next_errors|].
  destruct (should_insert_semicolon s); cbn [snd]; [apply errs_ext_refl|].
  destruct (c_tolerant cfg); cbn [snd]; [apply errs_ext_refl|apply errs_ext_add].
Qed.
Lemma errs_ext_close cfg s : errs_ext s (close_block cfg s).
Proof.
  unfold close_block.
  destruct (negb (cur_is s T_RBRACE) && negb (c_tolerant cfg));
    [apply errs_ext_add|apply errs_ext_refl].
Qed.

Lemma app_eq_self {A} (l l1 : list A) : l = l ++ l1 -> l1 = [].
Proof.
  intro H. apply (f_equal (@length A)) in H. rewrite app_length in H.
  destruct l1; [reflexivity|cbn in H; lia].
Qed.

(* ---------- 2. tolerant mode never reports a missing separator / unclosed block ---------- *)

Definition nosep (l : list perror) : Prop :=
  Forall (fun e => e_kind e <> EK_SEMICOLON /\ e_kind e <> EK_UNCLOSED) l.

Lemma tolerant_no_separator_errors : forall cfg toks r,
  c_tolerant cfg = true -> parse_tokens cfg toks = Some r ->
  Forall (fun e => e_kind e <> EK_SEMICOLON /\ e_kind e <> EK_UNCLOSED) (pr_errors r).
Proof.
  intros cfg toks r Ht H. unfold parse_tokens in H.
  rewrite (parse_program_from_errors _ _ _ _ H).
  pose (R := fun s s' : pstate => nosep (ps_errors s) -> nosep (ps_errors s')).
  assert (HR : R (ps_init toks (eof_again (last toks zero_token))) (pr_final r)).
  { apply (parse_program_from_mono cfg cfg R (fun _ => True)) with (fuel := parse_fuel toks);
      try exact H; unfold R; try (intros; exact I); try reflexivity.
    - intros s X; exact X.
    - intros a b c H1 H2 X; exact (H2 (H1 X)).
    - intros s. rewrite ps_next_errors. intro X; exact X.
    - intros s c X; exact X.
    - intros s p' X; exact X.
    - intros s i k X; exact X.
    - intros s k a t' K1 K2 X. cbn [add_error_at ps_errors]. unfold nosep.
      apply Forall_app; split; [exact X|]. constructor; [|constructor]. cbn. split; assumption.
    - intros s. unfold expect_semicolon_asi.
      destruct (peek_is s T_SEMICOLON); cbn [snd]; [rewrite ps_next_errors; intro X; exact X|].
      destruct (should_insert_semicolon s); cbn [snd]; [intro X; exact X|].
      rewrite Ht; cbn [snd]. intro X; exact X.
    - intros s. unfold close_block. rewrite Ht, andb_false_r. intro X; exact X. }
  apply HR. rewrite ps_init_errors. constructor.
Qed.

(* ---------- 3. whatever strict mode accepts, tolerant mode parses identically ---------- *)

Lemma tolerant_conservative : forall cfg toks r,
  c_tolerant cfg = false -> parse_tokens cfg toks = Some r -> pr_errors r = [] ->
  exists r', parse_tokens (set_tolerant cfg true) toks = Some r' /\
             pr_program r' = pr_program r /\ pr_errors r' = [].
Proof.
  intros cfg toks r _ H He. exists r. split; [|split; [reflexivity|exact He]].
  unfold parse_tokens in *.
  rewrite (parse_program_from_errors _ _ _ _ H) in He.
  apply (parse_program_from_xfer cfg (set_tolerant cfg true) errs_ext (fun s => ps_errors s = []));
    try exact H; try exact He; try reflexivity.
  - apply errs_ext_refl.
  - apply errs_ext_trans.
  - intro s; apply errs_ext_same, ps_next_errors.
  - intros s c; apply errs_ext_same; reflexivity.
  - intros s p'; apply errs_ext_same; reflexivity.
  - intros s i k; apply errs_ext_same; reflexivity.
  - intros s k a t' _ _; apply errs_ext_add.
  - intro s; apply errs_ext_semi.
  - intro s; apply errs_ext_close.
  - intros a b c [l1 H1] [l2 H2] Ga Gc. rewrite H2, H1, Ga in Gc. cbn in Gc.
    apply app_eq_nil in Gc as [Gc _]. rewrite H1, Ga, Gc. reflexivity.
  - intros s Gs. unfold expect_semicolon_asi.
    destruct (peek_is s T_SEMICOLON); [reflexivity|].
    destruct (should_insert_semicolon s); [reflexivity|].
    cbn [set_tolerant c_tolerant]. destruct (c_tolerant cfg); [reflexivity|].
    cbn [snd add_error_at ps_errors]. rewrite Gs. cbn. discriminate.
  - intros s Gs. unfold close_block. cbn [set_tolerant c_tolerant].
    rewrite andb_false_r.
    destruct (negb (cur_is s T_RBRACE) && negb (c_tolerant cfg)); [|reflexivity].
    unfold add_error; cbn [add_error_at ps_errors]. rewrite Gs. cbn. discriminate.
  - apply ps_init_errors.
Qed.

(* ---------- 4. smart semicolons change nothing unless '(' or '[' starts a line ---------- *)

Definition tok_ok (t : token) : Prop :=
  t_nl t = true -> t_type t <> T_LPAREN /\ t_type t <> T_LBRACKET.

Definition win_ok (s : pstate) : Prop :=
  tok_ok (ps_peek s) /\ Forall tok_ok (ps_rest s) /\ tok_ok (ps_eof s).

Lemma win_ok_next s : win_ok s -> win_ok (ps_next s).
Proof.
  intros (Hp & Hr & He). unfold ps_next, win_ok.
  destruct (ps_rest s) as [|t l] eqn:E; cbn.
  - split; [|split]; auto.
  - inversion Hr; subst. split; [|split]; auto.
Qed.

Lemma smart_test_false cfg s : win_ok s -> smart_test cfg s = false.
Proof.
  intros (Hp & _). unfold smart_test, peek_is.
  destruct (t_nl (ps_peek s)) eqn:En; [|rewrite andb_false_r; reflexivity].
  destruct (Hp En) as [H1 H2].
  apply Z.eqb_neq in H1, H2. rewrite H1, H2. cbn. rewrite andb_false_r. reflexivity.
Qed.

Lemma smart_xfer cfg b1 b2 fuel s r :
  win_ok s ->
  parse_program_from (set_smart cfg b1) fuel s = Some r ->
  parse_program_from (set_smart cfg b2) fuel s = Some r.
Proof.
  intros W H.
  pose (R := fun s s' : pstate => win_ok s -> win_ok s').
  assert (HR : forall (P : Prop), (
    (forall s, R s s) ->
    (forall a b c, R a b -> R b c -> R a c) ->
    (forall s, R s (ps_next s)) ->
    (forall s c, R s (set_ctx s c)) ->
    (forall s p, R s (set_cep s p)) ->
    (forall s i k, R s (log_event s i k)) ->
    (forall s k a t, k <> EK_SEMICOLON -> k <> EK_UNCLOSED -> R s (add_error_at s k a t)) ->
    (forall s, R s (snd (expect_semicolon_asi (set_smart cfg b1) s))) ->
    (forall s, R s (close_block (set_smart cfg b1) s)) -> P) -> P).
  { intros P K; apply K; unfold R.
    - intros s0 X; exact X.
    - intros a b c H1 H2 X; exact (H2 (H1 X)).
    - apply win_ok_next.
    - intros s0 c X; exact X.
    - intros s0 p' X; exact X.
    - intros s0 i k X; exact X.
    - intros s0 k a t' _ _ X; exact X.
    - intros s0. unfold expect_semicolon_asi.
      destruct (peek_is s0 T_SEMICOLON); cbn [snd]; [apply win_ok_next|].
      destruct (should_insert_semicolon s0); cbn [snd]; [intro X; exact X|].
      destruct (c_tolerant (set_smart cfg b1)); cbn [snd]; intro X; exact X.
    - intros s0. unfold close_block.
      destruct (negb (cur_is s0 T_RBRACE) && negb (c_tolerant (set_smart cfg b1)));
        intro X; exact X. }
  apply HR; intros R1 R2 R3 R4 R5 R6 R7 R8 R9.
  assert (Wf : win_ok (pr_final r)).
  { refine (parse_program_from_mono (set_smart cfg b1) (set_smart cfg b1) R (fun _ => True)
              R1 R2 R3 R4 R5 R6 R7 R8 R9 _ _ _ _ fuel s r H W); intros; try exact I; reflexivity. }
  refine (parse_program_from_xfer (set_smart cfg b1) (set_smart cfg b2) R win_ok
            R1 R2 R3 R4 R5 R6 R7 R8 R9 _ _ _ _ _ _ _ _ _ fuel s r H W Wf); try reflexivity.
  - intros a b c H1 _ Ga _. exact (H1 Ga).
  - intros s0 Gs. rewrite !smart_test_false by exact Gs. reflexivity.
Qed.

Lemma zero_token_ok : tok_ok zero_token.
Proof. unfold tok_ok, zero_token; cbn. discriminate. Qed.
Lemma eof_again_ok t : tok_ok (eof_again t).
Proof. unfold tok_ok, eof_again; cbn. discriminate. Qed.

Lemma smart_neutral : forall cfg toks,
  (forall t, In t toks -> t_nl t = true -> t_type t <> T_LPAREN /\ t_type t <> T_LBRACKET) ->
  parse_tokens (set_smart cfg true) toks = parse_tokens (set_smart cfg false) toks.
Proof.
  intros cfg toks Hok. unfold parse_tokens.
  set (eof := eof_again (last toks zero_token)).
  assert (W : win_ok (ps_init toks eof)).
  { unfold ps_init. apply win_ok_next, win_ok_next. unfold win_ok; cbn.
    split; [|split].
    - apply zero_token_ok.
    - apply Forall_forall. exact Hok.
    - apply eof_again_ok. }
  destruct (parse_program_from (set_smart cfg true) (parse_fuel toks) (ps_init toks eof))
    as [r|] eqn:E1.
  - symmetry. exact (smart_xfer cfg true false _ _ _ W E1).
  - destruct (parse_program_from (set_smart cfg false) (parse_fuel toks) (ps_init toks eof))
      as [r|] eqn:E2; [|reflexivity].
    rewrite (smart_xfer cfg false true _ _ _ W E2) in E1. discriminate.
Qed.
