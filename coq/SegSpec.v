(* SegSpec -- what "a source map segment links identical lexemes" means (C08), stated on
   the mappings the mapper recorded (C09 proves that the encoded "mappings" string decodes
   to exactly these).  Specification only; proofs are in SegProofs.v. *)
Require Import Base GoOps Token Tree SourceMap Writer Compile TokenSpec.
Require Import Gen.Tables Gen.Printer.

(* the suffix of a text that starts at line/column (lines end with LF, columns count bytes) *)
Fixpoint suffix_at (s : str) (line col : Z) : option str :=
  if (line =? 0)%Z && (col =? 0)%Z then Some s else
  match s with
  | [] => None
  | c :: s' =>
      if (line =? 0)%Z then (if N.eqb c LF then None else suffix_at s' 0 (col - 1))
      else if N.eqb c LF then suffix_at s' (line - 1) col
      else suffix_at s' line col
  end.

Fixpoint is_prefix (a b : str) : bool :=
  match a, b with
  | [], _ => true
  | x :: a', y :: b' => N.eqb x y && is_prefix a' b'
  | _ :: _, [] => false
  end.

(* segment m links the generated text at its generated position to the token that starts
   at its source position: the code there begins with that token's text (strings re-quoted,
   C07); a named segment carries an identifier's spelling *)
Definition seg_links (code : str) (names : list str) (toks : list token) (m : mapping) : bool :=
  existsb (fun t =>
    pos_eqb (t_start t) (mkpos (m_sl m) (m_sc m)) &&
    match suffix_at code (m_gl m) (m_gc m) with
    | Some suf => is_prefix (tok_text t) suf
    | None => false
    end &&
    (if m_has m
     then (t_type t =? T_IDENT)%Z &&
          match nth_error names (Z.to_nat (m_ni m)) with Some n => str_eqb n (t_lit t) | None => false end
     else true)) toks.

Definition recorded (cfg : wcfg) (p : program) : mapper := w_mapper (run_wops cfg (write_program p)).

Definition segments_link (cfg : wcfg) (p : program) (toks : list token) : bool :=
  forallb (seg_links (r_code (compile cfg p)) (sm_names (recorded cfg p)) toks) (sm_maps (recorded cfg p)).

(* every identifier occurrence of the source is covered by a named segment *)
Definition idents_covered (cfg : wcfg) (p : program) (toks : list token) : bool :=
  forallb (fun t => negb (t_type t =? T_IDENT)%Z ||
                    existsb (fun m => m_has m && pos_eqb (t_start t) (mkpos (m_sl m) (m_sc m)))
                            (sm_maps (recorded cfg p))) toks.
