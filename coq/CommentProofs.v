(* CommentProofs.v -- proofs for C15: comments in the printer / writer. *)
Require Import Base GoOps Token Tree SourceMap Writer PrinterLib Compile CommentSpec WriterProofs.
Require Import Gen.Tables Gen.Printer.
From Coq Require Import ZifyBool ZifyN ZifyNat Lia.

(* the operation list transformer of C15: empty every trivia argument *)
Definition ec (o : wop) : wop := match o with WComments _ => WComments [] | _ => o end.

(* ---- erase_comments keeps everything the printer reads except the trivia ---- *)

Lemma erase_t_comments t : t_comments (erase_comments t) = [].
Proof. reflexivity. Qed.
Lemma erase_t_start t : t_start (erase_comments t) = t_start t.
Proof. reflexivity. Qed.
Lemma erase_t_lit t : t_lit (erase_comments t) = t_lit t.
Proof. reflexivity. Qed.
Lemma erase_t_type t : t_type (erase_comments t) = t_type t.
Proof. reflexivity. Qed.

Lemma prec_opt_erase e : prec_opt (tmap_expr erase_comments e) = prec_opt e.
Proof. destruct e; reflexivity. Qed.

Lemma is_enil_erase e : is_enil (tmap_expr erase_comments e) = is_enil e.
Proof. destruct e; reflexivity. Qed.

Lemma is_decimal_int_erase e : is_decimal_int (tmap_expr erase_comments e) = is_decimal_int e.
Proof. destruct e; reflexivity. Qed.

Lemma is_snil_erase s : is_snil (tmap_stmt erase_comments s) = is_snil s.
Proof. destruct s; reflexivity. Qed.

Lemma write_ident_erase i : write_ident (tmap_ident erase_comments i) = map ec (write_ident i).
Proof. reflexivity. Qed.

(* ---- map over sep_map ---- *)

Lemma map_sep_map {A} (g : wop -> wop) (sep : list wop) (f : A -> list wop) (l : list A) :
  map g (sep_map sep f l) = sep_map (map g sep) (fun x => map g (f x)) l.
Proof.
  induction l as [|x l IH]; [reflexivity|].
  cbn [sep_map]. rewrite map_app. destruct l as [|y l]; [reflexivity|].
  rewrite map_app, IH. reflexivity.
Qed.

Lemma sep_map_ext_in {A} (sep : list wop) (f g : A -> list wop) (l : list A) :
  (forall x, In x l -> f x = g x) -> sep_map sep f l = sep_map sep g l.
Proof.
  induction l as [|x l IH]; intro H; [reflexivity|].
  cbn [sep_map]. rewrite (H x (or_introl eq_refl)).
  destruct l as [|y l]; [reflexivity|].
  rewrite IH; [reflexivity|]. intros z Hz. apply H. right. exact Hz.
Qed.

Lemma sep_map_map {A B} (sep : list wop) (f : B -> list wop) (h : A -> B) (l : list A) :
  sep_map sep f (map h l) = sep_map sep (fun x => f (h x)) l.
Proof.
  induction l as [|x l IH]; [reflexivity|].
  cbn [map sep_map]. destruct l as [|y l]; [reflexivity|].
  cbn [map] in *. rewrite IH. reflexivity.
Qed.

(* the shape in which the lemma is used: [sep] is fixed by [ec] *)
Lemma sep_map_erase {A} (sep : list wop) (f : A -> list wop) (h : A -> A) (l : list A) :
  map ec sep = sep ->
  (forall x, In x l -> f (h x) = map ec (f x)) ->
  sep_map sep f (map h l) = map ec (sep_map sep f l).
Proof.
  intros Hsep H. rewrite sep_map_map, map_sep_map, Hsep.
  apply sep_map_ext_in. exact H.
Qed.

Lemma sep_map_idents_erase sep (ps : list ident) :
  map ec sep = sep ->
  sep_map sep (fun param => write_ident param ++ []) (map (tmap_ident erase_comments) ps)
  = map ec (sep_map sep (fun param => write_ident param ++ []) ps).
Proof.
  intro Hsep. apply sep_map_erase; [exact Hsep|]. intros x _. reflexivity.
Qed.

(* ---- the printer: erasing trivia only changes the WComments arguments ---- *)

Ltac erase_norm :=
  repeat (rewrite ?prec_opt_erase, ?is_enil_erase, ?is_snil_erase,
                  ?erase_t_comments, ?erase_t_start, ?erase_t_lit, ?erase_t_type).

Ltac case_tests :=
  repeat match goal with
  | |- context [is_enil ?x] => destruct (is_enil x)
  | |- context [is_snil ?x] => destruct (is_snil x)
  | |- context [match prec_opt ?x with _ => _ end] => destruct (prec_opt x)
  | |- context [if (?a <? ?b) then _ else _] => destruct (a <? b)
  | |- context [if (?a <=? ?b) then _ else _] => destruct (a <=? b)
  end.

Ltac push_map :=
  repeat first [ rewrite map_app | rewrite map_cons | rewrite write_ident_erase ];
  cbn [map ec].

Lemma erase_printer n :
  (forall e, (esize e < n)%nat ->
     write_expr (tmap_expr erase_comments e) = map ec (write_expr e)) /\
  (forall s, (ssize s < n)%nat ->
     write_stmt (tmap_stmt erase_comments s) = map ec (write_stmt s)).
Proof.
  induction n as [|n [IHe IHs]]; [split; intros; lia|].
  split.
  - intros e H. destruct e; cbn [tmap_expr write_expr]; cbn [esize] in H.
    + reflexivity.
    + reflexivity.
    + reflexivity.
    + reflexivity.
    + reflexivity.
    + reflexivity.
    + reflexivity.
    + reflexivity.
    + (* ELet *) erase_norm. case_tests; cbn [negb]; push_map;
        rewrite ?IHe by lia; reflexivity.
    + (* EBinary *) erase_norm. cbn [prec_opt]. erase_norm.
      case_tests; push_map; rewrite ?IHe by lia; reflexivity.
    + (* EUnary *) erase_norm. case_tests; push_map; rewrite ?IHe by lia; reflexivity.
    + (* EPostfix *) erase_norm. case_tests; push_map; rewrite ?IHe by lia; reflexivity.
    + (* EGroup *) erase_norm. push_map. rewrite ?IHe by lia. reflexivity.
    + (* ECall *) erase_norm. push_map. rewrite IHe by lia.
      rewrite sep_map_erase; [reflexivity|reflexivity|].
      intros x Hx. apply esize_in_list in Hx. push_map. rewrite IHe by lia. reflexivity.
    + (* EMember *) erase_norm. rewrite is_decimal_int_erase.
      destruct computed, (is_decimal_int e1); cbn [negb andb]; push_map; rewrite ?IHe by lia; reflexivity.
    + (* EAssign *) erase_norm. push_map. rewrite ?IHe by lia. reflexivity.
    + (* ECompound *) erase_norm. push_map. rewrite ?IHe by lia. reflexivity.
    + (* EFunc *) erase_norm. push_map. rewrite IHs by lia.
      rewrite sep_map_idents_erase by reflexivity.
      match goal with |- context [option_map _ ?o] => destruct o end; cbn [option_map]; push_map; reflexivity.
    + (* EArray *) erase_norm. push_map.
      rewrite sep_map_erase; [reflexivity|reflexivity|].
      intros x Hx. apply esize_in_list in Hx. push_map. rewrite IHe by lia. reflexivity.
    + (* EObject *) erase_norm. push_map.
      rewrite (sep_map_erase _ (fun prop => write_expr (fst prop) ++ WRune 58%N :: WSpace :: write_expr (snd prop) ++ []));
        [reflexivity|reflexivity|].
      intros x Hx. apply esize_in_props in Hx. cbn [fst snd]. push_map.
      rewrite !IHe by lia. reflexivity.
  - intros s H. destruct s; cbn [tmap_stmt write_stmt]; cbn [ssize] in H.
    + reflexivity.
    + (* SLet *) erase_norm. case_tests; cbn [negb]; push_map;
        rewrite ?IHe by lia; reflexivity.
    + (* SReturn *) erase_norm. case_tests; cbn [negb]; push_map;
        rewrite ?IHe by lia; reflexivity.
    + (* SExpr *) erase_norm. case_tests; [reflexivity|].
      push_map. rewrite IHe by lia. reflexivity.
    + (* SFunc *) erase_norm. push_map. rewrite IHs by lia.
      rewrite sep_map_idents_erase by reflexivity. reflexivity.
    + (* SBlock *) erase_norm. push_map.
      rewrite sep_map_erase; [reflexivity|reflexivity|].
      intros x Hx. apply ssize_in_list in Hx. push_map. rewrite IHs by lia. reflexivity.
    + (* SIf *) erase_norm. case_tests; cbn [negb]; push_map;
        rewrite ?IHe by lia; rewrite ?IHs by lia; reflexivity.
    + (* SWhile *) erase_norm. push_map. rewrite ?IHe by lia; rewrite ?IHs by lia. reflexivity.
    + (* SFor *) erase_norm. case_tests; cbn [negb]; push_map;
        rewrite ?IHe by lia; rewrite ?IHs by lia; reflexivity.
Qed.

Lemma write_stmt_erase s : write_stmt (tmap_stmt erase_comments s) = map ec (write_stmt s).
Proof. apply (proj2 (erase_printer (S (ssize s)))). lia. Qed.

Lemma write_expr_erase e : write_expr (tmap_expr erase_comments e) = map ec (write_expr e).
Proof. apply (proj1 (erase_printer (S (esize e)))). lia. Qed.

Lemma erase_changes_only_comment_ops : forall p,
  write_program (tmap_program erase_comments p)
  = map (fun o => match o with WComments _ => WComments [] | _ => o end) (write_program p).
Proof.
  intro p. change (fun o => match o with WComments _ => WComments [] | _ => o end) with ec.
  unfold write_program, tmap_program. cbn [p_stmts p_eof].
  rewrite map_app. cbn [map ec]. rewrite erase_t_comments.
  rewrite sep_map_erase; [reflexivity|reflexivity|].
  intros s _. rewrite map_app. rewrite write_stmt_erase. reflexivity.
Qed.

(* ---- compact mode ignores comments ---- *)

Lemma wstep_ec_compact cfg st o : w_pretty cfg = false -> wstep cfg st (ec o) = wstep cfg st o.
Proof.
  intro Hp. destruct o; try reflexivity.
  unfold wstep, ec. destruct (w_panic st); [reflexivity|]. rewrite Hp. reflexivity.
Qed.

Lemma fold_ec_compact cfg : w_pretty cfg = false -> forall ops st,
  fold_left (wstep cfg) (map ec ops) st = fold_left (wstep cfg) ops st.
Proof.
  intros Hp ops. induction ops as [|o ops IH]; intro st; [reflexivity|].
  cbn [map fold_left]. rewrite wstep_ec_compact by exact Hp. apply IH.
Qed.

Lemma compact_ignores_comments : forall m p,
  compile (cfg_compact m) p = compile (cfg_compact m) (tmap_program erase_comments p).
Proof.
  intros m p. unfold compile. rewrite erase_changes_only_comment_ops.
  change (fun o => match o with WComments _ => WComments [] | _ => o end) with ec.
  unfold run_wops. rewrite fold_ec_compact by reflexivity. reflexivity.
Qed.

(* ---- WriteLeadingComments ---- *)

Lemma write_comment_items_spec cfg : forall cs st first,
  let st' := write_comment_items cfg st first cs in
  w_buf st' = w_buf st ++ render_comments (indent_text cfg (w_level st)) first cs /\
  w_pend st' = w_pend st /\ w_level st' = w_level st /\ w_panic st' = w_panic st.
Proof.
  induction cs as [|c cs IH]; intros st first.
  - cbn [write_comment_items render_comments]. rewrite app_nil_r. repeat split.
  - destruct first; destruct c as [|c0 c]; cbn [write_comment_items render_comments]; cbv zeta;
      match goal with |- context [write_comment_items cfg ?s false cs] =>
        destruct (IH s false) as (Hb & Hq & Hl & Hx); rewrite Hb, Hq, Hl, Hx; clear Hb Hq Hl Hx end;
      cbn [write_raw write_indent w_buf w_pend w_level w_panic app];
      unfold indent_text; repeat split; rewrite <- ?app_assoc; cbn [app]; rewrite ?app_nil_r;
      reflexivity.
Qed.

Lemma comments_written_verbatim : forall indent semis m st cs,
  w_panic st = false -> cs <> [] ->
  let cfg := cfg_pretty indent semis m in
  let st' := wstep cfg st (WComments cs) in
  w_buf st' = w_buf st ++ render_comments (indent_text cfg (w_level st)) true cs /\
  w_pend st' = [LF; TAB] /\ w_level st' = w_level st.
Proof.
  intros indent semis m st cs Hp Hne cfg st'.
  subst st'. unfold wstep. rewrite Hp. cbn [cfg cfg_pretty w_pretty negb].
  destruct cs as [|c cs]; [congruence|].
  destruct (write_comment_items_spec cfg (c :: cs) st true) as (Hb & _ & Hl & _).
  cbn [set_pend w_buf w_pend w_level]. fold cfg. repeat split; assumption.
Qed.

Lemma comment_content_inert : forall indent semis m st cs1 cs2,
  w_panic st = false ->
  map (fun c => match c with [] => true | _ => false end) cs1
  = map (fun c => match c with [] => true | _ => false end) cs2 ->
  let cfg := cfg_pretty indent semis m in
  let st1 := wstep cfg st (WComments cs1) in
  let st2 := wstep cfg st (WComments cs2) in
  w_pend st1 = w_pend st2 /\ w_level st1 = w_level st2 /\ w_panic st1 = w_panic st2 /\
  exists x1 x2, w_buf st1 = w_buf st ++ x1 /\ w_buf st2 = w_buf st ++ x2 /\
                (cs1 = [] -> x1 = [] /\ x2 = []).
Proof.
  intros indent semis m st cs1 cs2 Hp Hshape cfg st1 st2.
  subst st1 st2. unfold wstep. rewrite Hp. cbn [cfg cfg_pretty w_pretty negb]. fold cfg.
  destruct cs1 as [|c1 cs1]; destruct cs2 as [|c2 cs2]; try discriminate Hshape.
  - repeat split. exists [], []. rewrite app_nil_r. repeat split.
  - destruct (write_comment_items_spec cfg (c1 :: cs1) st true) as (Hb1 & _ & Hl1 & Hx1).
    destruct (write_comment_items_spec cfg (c2 :: cs2) st true) as (Hb2 & _ & Hl2 & Hx2).
    cbn [set_pend w_buf w_pend w_level w_panic].
    split; [reflexivity|]. split; [congruence|]. split; [congruence|].
    eexists _, _. split; [exact Hb1|]. split; [exact Hb2|]. intro H; discriminate H.
Qed.
