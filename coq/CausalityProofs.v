(* CausalityProofs.v -- causality of the one-token-lookahead parser (C12):
   if a token list agrees with an accepted one on its first k tokens, every error
   reported for it is located at a token of index >= k-1.

   Structure:
   1. one run over a token stream: the window sits at an index of the stream, it only
      moves forward, errors are appended, every new error sits on the current or the
      peek token ([Inv], one lemma [i_*] per Parse* function);
   2. two runs over streams with a common prefix: [Sync] (same window inside the common
      prefix, equal non-token components) or [Div] (the second window has reached index
      k-1; the error lists are a common part followed by private parts, the private part
      of run 2 located from k-1 on); one lemma [l_*] per Parse* function;
   3. the two runs may use different fuels: the lockstep lemmas relate
      [stmt_fn cfg f1] with [stmt_fn cfg f2] directly, no fuel monotonicity is needed. *)
From Coq Require Import ZifyBool ZifyN ZifyNat Lia.
Require Import Base GoOps Token Tree Parser ParserSpec.
Require Import Gen.Tables.

(* ---------- generic tactics for walking through the Parse* bodies ---------- *)

Ltac cbrk1 :=
  match goal with
  | H : Some _ = Some _ |- _ => inversion H; subst; clear H
  | H : None = Some _ |- _ => discriminate H
  | H : (_, _) = (_, _) |- _ => inversion H; subst; clear H
  | H : (match ?e with _ => _ end) = _ |- _ =>
      first [ is_var e; destruct e
            | let E := fresh "E" in destruct e eqn:E ]
  | p : (_ * _)%type |- _ => destruct p
  end.
Ltac cbrk := repeat cbrk1.

(* ---------- lists ---------- *)

Lemma skipn_cons_nth {A} (d : A) : forall n (l : list A) t r,
  skipn n l = t :: r -> nth n l d = t /\ skipn (S n) l = r.
Proof.
  induction n as [|n IH]; intros l t r H.
  - cbn in H. subst l. split; reflexivity.
  - destruct l as [|x l]; [discriminate H|]. cbn [skipn] in H.
    apply IH in H. exact H.
Qed.

Lemma skipn_nil_len {A} : forall n (l : list A), skipn n l = [] -> (length l <= n)%nat.
Proof.
  induction n as [|n IH]; intros l H.
  - cbn in H. subst l. cbn. lia.
  - destruct l as [|x l]; cbn; [lia|]. cbn [skipn] in H. apply IH in H. lia.
Qed.

Lemma nth_firstn_lt {A} (d : A) : forall k j (l : list A), (j < k)%nat ->
  nth j (firstn k l) d = nth j l d.
Proof.
  induction k as [|k IH]; intros j l Hj; [lia|].
  destruct l as [|x l]; [reflexivity|]. cbn [firstn].
  destruct j as [|j]; [reflexivity|]. cbn [nth]. apply IH. lia.
Qed.

(* ================================================================== *)
(* 1. one run over a token stream                                      *)
(* ================================================================== *)

Section Stream.
  Variable toks : list token.
  Variable eof : token.

  (* the padded stream: toks, then eof for ever *)
  Definition tok_at (j : nat) : token := nth j toks eof.

  (* the window of [s] sits at index [i] of the stream *)
  Definition at_ix (i : nat) (s : pstate) : Prop :=
    ps_cur s = tok_at i /\ ps_peek s = tok_at (S i) /\
    ps_rest s = skipn (S (S i)) toks /\ ps_eof s = eof.

  Lemma at_ix_next i s : at_ix i s -> at_ix (S i) (ps_next s).
  Proof.
    intros (Hc & Hp & Hr & He). unfold ps_next.
    destruct (ps_rest s) as [|t r] eqn:E; unfold at_ix; cbn [ps_cur ps_peek ps_rest ps_eof].
    - symmetry in Hr. apply skipn_nil_len in Hr.
      repeat split; auto.
      + unfold tok_at. rewrite nth_overflow by lia. exact He.
      + symmetry. apply skipn_all2. lia.
    - symmetry in Hr. apply (skipn_cons_nth eof) in Hr. destruct Hr as [Hn Hs].
      repeat split; auto.
  Qed.

  Variable i0 : nat.            (* a lower bound of the window index *)
  Variable E0 : list perror.    (* the errors recorded before *)

  (* the error sits on a token of index >= i0 *)
  Definition loc_ge (e : perror) : Prop :=
    exists m, (i0 <= m)%nat /\ e_start e = t_start (tok_at m) /\ e_end e = t_end (tok_at m).

  Definition Inv (s : pstate) : Prop :=
    exists i, (i0 <= i)%nat /\ at_ix i s /\
              exists n, ps_errors s = E0 ++ n /\ Forall loc_ge n.

  Definition ispec {A} (f : pstate -> res A) : Prop :=
    forall s r s', f s = Some (r, s') -> Inv s -> Inv s'.

  Lemma Inv_next s : Inv s -> Inv (ps_next s).
  Proof.
    intros (i & Hi & Ha & n & Hn & Hf). exists (S i). split; [lia|].
    split; [apply at_ix_next; exact Ha|]. exists n. split; [|exact Hf].
    unfold ps_next. destruct (ps_rest s); exact Hn.
  Qed.

  Lemma Inv_add_error_peek s k a : Inv s -> Inv (add_error_at s k a (ps_peek s)).
  Proof.
    intros (i & Hi & Ha & n & Hn & Hf). exists i. split; [exact Hi|].
    split; [exact Ha|]. exists (n ++ [mkerr k a (t_start (ps_peek s)) (t_end (ps_peek s))]).
    split.
    - cbn. rewrite Hn, app_assoc. reflexivity.
    - apply Forall_app. split; [exact Hf|]. constructor; [|constructor].
      destruct Ha as (_ & Hp & _). exists (S i). cbn. rewrite Hp. repeat split; auto; lia.
  Qed.

  Lemma Inv_add_error s k a : Inv s -> Inv (add_error s k a).
  Proof.
    intros (i & Hi & Ha & n & Hn & Hf). exists i. split; [exact Hi|].
    split; [exact Ha|]. exists (n ++ [mkerr k a (t_start (ps_cur s)) (t_end (ps_cur s))]).
    split.
    - cbn. rewrite Hn, app_assoc. reflexivity.
    - apply Forall_app. split; [exact Hf|]. constructor; [|constructor].
      destruct Ha as (Hc & _). exists i. cbn. rewrite Hc. repeat split; auto; lia.
  Qed.

  Lemma Inv_set_ctx s c : Inv s -> Inv (set_ctx s c).
  Proof. exact (fun H => H). Qed.
  Lemma Inv_push_ctx s c : Inv s -> Inv (push_ctx s c).
  Proof. exact (fun H => H). Qed.
  Lemma Inv_pop_ctx s : Inv s -> Inv (pop_ctx s).
  Proof. exact (fun H => H). Qed.
  Lemma Inv_set_cep s p : Inv s -> Inv (set_cep s p).
  Proof. exact (fun H => H). Qed.
  Lemma Inv_log_event s i k : Inv s -> Inv (log_event s i k).
  Proof. exact (fun H => H). Qed.

  Lemma Inv_expect s ty ok s1 : expect s ty = (ok, s1) -> Inv s -> Inv s1.
  Proof.
    unfold expect. intros H Hi. cbrk; auto using Inv_next, Inv_add_error_peek.
  Qed.

  Lemma Inv_expect_semicolon_asi cfg s ok s1 :
    expect_semicolon_asi cfg s = (ok, s1) -> Inv s -> Inv s1.
  Proof.
    unfold expect_semicolon_asi. intros H Hi. cbrk; auto using Inv_next, Inv_add_error_peek.
  Qed.
End Stream.

Create HintDb idb.
#[global] Hint Resolve Inv_next Inv_add_error_peek Inv_add_error Inv_push_ctx Inv_pop_ctx
  Inv_set_cep Inv_log_event : idb.

(* forward chaining: every recorded sub-call yields the invariant of its final state;
   the parameters of [Inv] are read off the goal *)
Ltac ifwd :=
  repeat match goal with
  | E : expect ?s _ = (_, ?s1) |- Inv ?T ?e ?i ?c _ =>
      assert (Inv T e i c s1) by (eapply Inv_expect; [exact E | eauto with idb]); clear E
  | E : expect_semicolon_asi _ ?s = (_, ?s1) |- Inv ?T ?e ?i ?c _ =>
      assert (Inv T e i c s1) by
        (eapply Inv_expect_semicolon_asi; [exact E | eauto with idb]); clear E
  | E : ?f ?s = Some (?r, ?s') |- Inv ?T ?e ?i ?c _ =>
      assert (Inv T e i c s') by
        (let X := fresh "X" in
         assert (X : ispec T e i c f) by (eauto with idb);
         eapply X; [exact E | eauto with idb]);
      clear E
  end.
Ltac ifin :=
  repeat match goal with |- context [if ?b then _ else _] => destruct b end;
  eauto with idb.
Ltac igo := cbrk; ifwd; ifin.

Section StreamOpen.
  Variable toks : list token.
  Variable eof : token.
  Variable i0 : nat.
  Variable E0 : list perror.
  Notation ispec' := (ispec toks eof i0 E0).

  Variable cfg : pcfg.
  Variable sf : pstate -> res stmt.
  Variable ef : Z -> pstate -> res expr.
  Variable lf : nat.
  Hypothesis sf_ok : ispec' sf.
  Hypothesis ef_ok : forall p, ispec' (ef p).
  Hint Resolve sf_ok ef_ok : idb.

  Lemma i_parse_expression : ispec' (parse_expression ef).
  Proof. unfold parse_expression. auto. Qed.
  Hint Resolve i_parse_expression : idb.

  Lemma i_params_loop n : forall acc, ispec' (params_loop n acc).
  Proof.
    induction n as [|n IH]; intros acc s r s' H Hi; cbn [params_loop] in H; [discriminate|].
    cbv zeta in H. igo.
  Qed.
  Hint Resolve i_params_loop : idb.

  Lemma i_parse_function_parameters : ispec' (parse_function_parameters lf).
  Proof. intros s r s' H Hi. unfold parse_function_parameters in H. cbv zeta in H. igo. Qed.
  Hint Resolve i_parse_function_parameters : idb.

  Lemma i_block_loop n : forall acc, ispec' (block_loop sf n acc).
  Proof.
    induction n as [|n IH]; intros acc s r s' H Hi; cbn [block_loop] in H; [discriminate|].
    cbrk.
    - ifwd. assumption.
    - assumption.
  Qed.
  Hint Resolve i_block_loop : idb.

  Lemma i_parse_block_statement : ispec' (parse_block_statement cfg sf lf).
  Proof. intros s r s' H Hi. unfold parse_block_statement in H. cbv zeta in H. igo. Qed.
  Hint Resolve i_parse_block_statement : idb.

  Lemma i_parse_let_statement : ispec' (parse_let_statement cfg ef).
  Proof. intros s r s' H Hi. unfold parse_let_statement in H. cbv zeta in H. igo. Qed.

  Lemma i_parse_let_expression : ispec' (parse_let_expression ef).
  Proof. intros s r s' H Hi. unfold parse_let_expression in H. cbv zeta in H. igo. Qed.
  Hint Resolve i_parse_let_expression : idb.

  Lemma i_parse_function_statement : ispec' (parse_function_statement cfg sf lf).
  Proof. intros s r s' H Hi. unfold parse_function_statement in H. cbv zeta in H. igo. Qed.

  Lemma i_parse_return_statement : ispec' (parse_return_statement cfg ef).
  Proof. intros s r s' H Hi. unfold parse_return_statement in H. cbv zeta in H. igo. Qed.

  Lemma i_parse_if_statement : ispec' (parse_if_statement sf ef).
  Proof. intros s r s' H Hi. unfold parse_if_statement in H. cbv zeta in H. igo. Qed.

  Lemma i_parse_while_statement : ispec' (parse_while_statement sf ef).
  Proof. intros s r s' H Hi. unfold parse_while_statement in H. cbv zeta in H. igo. Qed.

  Lemma i_parse_for_statement : ispec' (parse_for_statement sf ef).
  Proof. intros s r s' H Hi. unfold parse_for_statement in H. cbv zeta in H. igo. Qed.

  Lemma i_parse_expression_statement : ispec' (parse_expression_statement cfg ef).
  Proof. intros s r s' H Hi. unfold parse_expression_statement in H. cbv zeta in H. igo. Qed.

  Lemma i_base_parse_statement : ispec' (base_parse_statement cfg sf ef lf).
  Proof.
    intros s r s' H Hi. unfold base_parse_statement in H. cbv zeta in H.
    repeat match type of H with (if ?b then _ else _) = _ => destruct b end.
    - eapply i_parse_let_statement; eauto.
    - eapply i_parse_function_statement; eauto.
    - eapply i_parse_return_statement; eauto.
    - eapply i_parse_if_statement; eauto.
    - eapply i_parse_while_statement; eauto.
    - eapply i_parse_for_statement; eauto.
    - eapply i_parse_block_statement; eauto.
    - eapply i_parse_expression_statement; eauto.
  Qed.

  Lemma i_expr_list_loop n : forall acc, ispec' (expr_list_loop ef n acc).
  Proof.
    induction n as [|n IH]; intros acc s r s' H Hi; cbn [expr_list_loop] in H; [discriminate|].
    cbrk.
    - ifwd. assumption.
    - assumption.
  Qed.
  Hint Resolve i_expr_list_loop : idb.

  Lemma i_parse_expression_list ty : ispec' (parse_expression_list ef lf ty).
  Proof. intros s r s' H Hi. unfold parse_expression_list in H. cbv zeta in H. igo. Qed.
  Hint Resolve i_parse_expression_list : idb.

  Lemma i_object_loop n : forall acc, ispec' (object_loop ef n acc).
  Proof.
    induction n as [|n IH]; intros acc s r s' H Hi; cbn [object_loop] in H; [discriminate|].
    cbv zeta in H. igo.
  Qed.
  Hint Resolve i_object_loop : idb.

  Lemma i_parse_object_literal : ispec' (parse_object_literal ef lf).
  Proof. intros s r s' H Hi. unfold parse_object_literal in H. cbv zeta in H. igo. Qed.

  Lemma i_parse_function_expression : ispec' (parse_function_expression cfg sf lf).
  Proof. intros s r s' H Hi. unfold parse_function_expression in H. cbv zeta in H. igo. Qed.

  Lemma i_parse_grouped_expression : ispec' (parse_grouped_expression ef).
  Proof. intros s r s' H Hi. unfold parse_grouped_expression in H. cbv zeta in H. igo. Qed.

  Lemma i_parse_unary_expression : ispec' (parse_unary_expression ef).
  Proof. intros s r s' H Hi. unfold parse_unary_expression in H. cbv zeta in H. igo. Qed.

  Hint Resolve i_parse_object_literal i_parse_function_expression i_parse_grouped_expression
       i_parse_unary_expression : idb.

  Lemma i_prefix_handler_run h : ispec' (prefix_handler_run cfg sf ef lf h).
  Proof.
    intros s r s' H Hi. unfold prefix_handler_run in H. cbv zeta in H. destruct h; igo.
  Qed.
  Hint Resolve i_prefix_handler_run : idb.

  Lemma i_parse_prefix_expression : ispec' (parse_prefix_expression cfg sf ef lf).
  Proof. intros s r s' H Hi. unfold parse_prefix_expression in H. cbv zeta in H. igo. Qed.
  Hint Resolve i_parse_prefix_expression : idb.

  Lemma i_parse_binary_expression left : ispec' (parse_binary_expression cfg ef left).
  Proof. intros s r s' H Hi. unfold parse_binary_expression in H. cbv zeta in H. igo. Qed.
  Hint Resolve i_parse_binary_expression : idb.

  Lemma i_infix_handler_run h left : ispec' (infix_handler_run cfg ef lf h left).
  Proof.
    intros s r s' H Hi. unfold infix_handler_run in H. cbv zeta in H. destruct h; igo.
  Qed.
  Hint Resolve i_infix_handler_run : idb.

  Lemma i_parse_infix_expression left : ispec' (parse_infix_expression cfg ef lf left).
  Proof. intros s r s' H Hi. unfold parse_infix_expression in H. cbv zeta in H. igo. Qed.
  Hint Resolve i_parse_infix_expression : idb.

  Lemma i_remaining_loop n : forall left prec, ispec' (remaining_loop cfg ef lf n left prec).
  Proof.
    induction n as [|n IH]; intros left prec s r s' H Hi; cbn [remaining_loop] in H; [discriminate|].
    igo.
  Qed.
  Hint Resolve i_remaining_loop : idb.

  Lemma i_parse_remaining left prec : ispec' (parse_remaining_with_precedence cfg ef lf left prec).
  Proof. unfold parse_remaining_with_precedence. apply i_remaining_loop. Qed.
  Hint Resolve i_parse_remaining : idb.

  Lemma i_base_parse_expression prec : ispec' (base_parse_expression cfg sf ef lf prec).
  Proof. intros s r s' H Hi. unfold base_parse_expression in H. cbv zeta in H. igo. Qed.

  Lemma i_run_stmt_chain ics : ispec' (run_stmt_chain cfg sf ef lf ics).
  Proof.
    induction ics as [|ic ics IH]; intros s r s' H Hi; cbn [run_stmt_chain] in H.
    - eapply i_base_parse_statement; eauto.
    - destruct ic; eapply IH; eauto with idb.
  Qed.

  Lemma i_run_expr_chain ics : forall prec, ispec' (run_expr_chain cfg sf ef lf ics prec).
  Proof.
    induction ics as [|ic ics IH]; intros prec s r s' H Hi; cbn [run_expr_chain] in H.
    - eapply i_base_parse_expression; eauto.
    - cbv zeta in H. destruct ic; igo.
  Qed.
End StreamOpen.

Lemma i_knot toks eof i0 E0 cfg fuel :
  ispec toks eof i0 E0 (stmt_fn cfg fuel) /\ forall p, ispec toks eof i0 E0 (expr_fn cfg fuel p).
Proof.
  induction fuel as [|f [IHs IHe]]; (split; [intros s r s' H Hi | intros p s r s' H Hi]);
    cbn [stmt_fn expr_fn] in H; try discriminate.
  - eapply i_run_stmt_chain; eauto.
  - eapply i_run_expr_chain; eauto.
Qed.

Lemma i_program_loop toks eof i0 E0 cfg fuel n :
  forall acc, ispec toks eof i0 E0 (program_loop cfg fuel n acc).
Proof.
  induction n as [|n IH]; intros acc s r s' H Hi; cbn [program_loop] in H; [discriminate|].
  cbrk.
  - eapply IH; [exact H|]. apply Inv_next.
    eapply (proj1 (i_knot toks eof i0 E0 cfg fuel)); eauto.
  - assumption.
Qed.

Lemma i_stmt_fn toks eof i0 E0 cfg fuel : ispec toks eof i0 E0 (stmt_fn cfg fuel).
Proof. apply i_knot. Qed.
Lemma i_expr_fn toks eof i0 E0 cfg fuel p : ispec toks eof i0 E0 (expr_fn cfg fuel p).
Proof. apply i_knot. Qed.
#[global] Hint Resolve i_stmt_fn i_expr_fn i_program_loop : idb.

#[global] Hint Resolve i_parse_expression i_params_loop i_parse_function_parameters i_block_loop
  i_parse_block_statement i_parse_let_statement i_parse_let_expression
  i_parse_function_statement i_parse_return_statement i_parse_if_statement
  i_parse_while_statement i_parse_for_statement i_parse_expression_statement
  i_base_parse_statement i_expr_list_loop i_parse_expression_list i_object_loop
  i_parse_object_literal i_parse_function_expression i_parse_grouped_expression
  i_parse_unary_expression i_prefix_handler_run i_parse_prefix_expression
  i_parse_binary_expression i_infix_handler_run i_parse_infix_expression i_remaining_loop
  i_parse_remaining i_base_parse_expression i_run_stmt_chain i_run_expr_chain : idb.

(* ================================================================== *)
(* 2. two runs over streams with a common prefix                       *)
(* ================================================================== *)

Lemma ps_cur_next s : ps_cur (ps_next s) = ps_peek s.
Proof. unfold ps_next. destruct (ps_rest s); reflexivity. Qed.
Lemma cur_is_next s ty : cur_is (ps_next s) ty = peek_is s ty.
Proof. unfold cur_is, peek_is. rewrite ps_cur_next. reflexivity. Qed.
Lemma ps_cur_add_error s k a : ps_cur (add_error s k a) = ps_cur s.
Proof. reflexivity. Qed.
Lemma ps_errors_next s : ps_errors (ps_next s) = ps_errors s.
Proof. unfold ps_next. destruct (ps_rest s); reflexivity. Qed.
Lemma ps_ctx_next s : ps_ctx (ps_next s) = ps_ctx s.
Proof. unfold ps_next. destruct (ps_rest s); reflexivity. Qed.
Lemma ps_cep_next s : ps_cep (ps_next s) = ps_cep s.
Proof. unfold ps_next. destruct (ps_rest s); reflexivity. Qed.
Lemma ps_log_next s : ps_log (ps_next s) = ps_log s.
Proof. unfold ps_next. destruct (ps_rest s); reflexivity. Qed.

Create HintDb ldb.
Create HintDb sddb.

Section Two.
  Variable toks1 : list token.
  Variable eof1 : token.
  Variable toks2 : list token.
  Variable eof2 : token.
  Variable k : nat.
  Hypothesis Hpre : forall j, (j < k)%nat -> tok_at toks2 eof2 j = tok_at toks1 eof1 j.

  Notation InvA := (Inv toks1 eof1 0).
  Notation InvB := (Inv toks2 eof2 (k - 1)).

  (* both windows at the same index inside the common prefix, everything else equal *)
  Definition Sync (s1 s2 : pstate) : Prop :=
    exists i, (S i < k)%nat /\ at_ix toks1 eof1 i s1 /\ at_ix toks2 eof2 i s2 /\
      ps_errors s2 = ps_errors s1 /\ ps_ctx s2 = ps_ctx s1 /\
      ps_cep s2 = ps_cep s1 /\ ps_log s2 = ps_log s1.

  (* the runs have separated: the window of run 2 has reached index k-1; the error lists
     are a common part [c] followed by private parts, that of run 2 located from k-1 on *)
  Definition Div (s1 s2 : pstate) : Prop := exists c, InvA c s1 /\ InvB c s2.

  Definition SD (s1 s2 : pstate) : Prop := Sync s1 s2 \/ Div s1 s2.
  Definition SDR {A} (p1 p2 : A * pstate) : Prop :=
    (fst p1 = fst p2 /\ Sync (snd p1) (snd p2)) \/ Div (snd p1) (snd p2).

  Definition lspec {A} (f1 f2 : pstate -> res A) : Prop :=
    forall s1 s2 r1 s1' r2 s2', SD s1 s2 ->
      f1 s1 = Some (r1, s1') -> f2 s2 = Some (r2, s2') -> SDR (r1, s1') (r2, s2').

  (* --- what a synchronised pair of states lets the parser observe --- *)
  Lemma sync_cur s1 s2 : Sync s1 s2 -> ps_cur s2 = ps_cur s1.
  Proof.
    intros (i & Hi & (Hc1 & _) & (Hc2 & _) & _). rewrite Hc1, Hc2. apply Hpre. lia.
  Qed.
  Lemma sync_peek s1 s2 : Sync s1 s2 -> ps_peek s2 = ps_peek s1.
  Proof.
    intros (i & Hi & (_ & Hp1 & _) & (_ & Hp2 & _) & _). rewrite Hp1, Hp2. apply Hpre. lia.
  Qed.
  Lemma sync_cep s1 s2 : Sync s1 s2 -> ps_cep s2 = ps_cep s1.
  Proof. intros (i & Hi & _ & _ & _ & _ & Hp & _). exact Hp. Qed.
  Lemma sync_ctx s1 s2 : Sync s1 s2 -> ps_ctx s2 = ps_ctx s1.
  Proof. intros (i & Hi & _ & _ & _ & Hc & _). exact Hc. Qed.
  Lemma sync_cur_is s1 s2 : Sync s1 s2 -> forall ty, cur_is s2 ty = cur_is s1 ty.
  Proof. intros H ty. unfold cur_is. rewrite (sync_cur _ _ H). reflexivity. Qed.
  Lemma sync_peek_is s1 s2 : Sync s1 s2 -> forall ty, peek_is s2 ty = peek_is s1 ty.
  Proof. intros H ty. unfold peek_is. rewrite (sync_peek _ _ H). reflexivity. Qed.
  Lemma sync_peek_prec s1 s2 : Sync s1 s2 ->
    forall cfg, peek_precedence cfg s2 = peek_precedence cfg s1.
  Proof. intros H cfg. unfold peek_precedence. rewrite (sync_peek _ _ H). reflexivity. Qed.
  Lemma sync_cur_prec s1 s2 : Sync s1 s2 ->
    forall cfg, current_precedence cfg s2 = current_precedence cfg s1.
  Proof. intros H cfg. unfold current_precedence. rewrite (sync_cur _ _ H). reflexivity. Qed.
  Lemma sync_sis s1 s2 : Sync s1 s2 -> should_insert_semicolon s2 = should_insert_semicolon s1.
  Proof.
    intros H. unfold should_insert_semicolon.
    rewrite !(sync_peek_is _ _ H), (sync_peek _ _ H). reflexivity.
  Qed.

  (* --- the primitive state transformers --- *)
  Lemma SD_of_Sync s1 s2 : Sync s1 s2 -> SD s1 s2.
  Proof. intro H; left; exact H. Qed.
  Lemma SD_of_Div s1 s2 : Div s1 s2 -> SD s1 s2.
  Proof. intro H; right; exact H. Qed.

  Lemma SD_next s1 s2 : SD s1 s2 -> SD (ps_next s1) (ps_next s2).
  Proof.
    intros [(i & Hi & A1 & A2 & He & Hc & Hp & Hl) | (c & Ha & Hb)].
    - destruct (lt_dec (S (S i)) k) as [Hlt|Hge].
      + left. exists (S i). split; [exact Hlt|].
        split; [apply at_ix_next; exact A1|]. split; [apply at_ix_next; exact A2|].
        rewrite !ps_errors_next, !ps_ctx_next, !ps_cep_next, !ps_log_next. auto.
      + right. exists (ps_errors s1). split.
        * exists (S i). split; [lia|]. split; [apply at_ix_next; exact A1|].
          exists []. rewrite ps_errors_next, app_nil_r. split; [reflexivity|constructor].
        * exists (S i). split; [lia|]. split; [apply at_ix_next; exact A2|].
          exists []. rewrite ps_errors_next, app_nil_r. split; [exact He|constructor].
    - right. exists c. split; apply Inv_next; assumption.
  Qed.

  Lemma SD_set_ctx s1 s2 c : SD s1 s2 -> forall c1 c2, c1 = c -> c2 = c ->
    SD (set_ctx s1 c1) (set_ctx s2 c2).
  Proof.
    intros [(i & Hi & A1 & A2 & He & Hc & Hp & Hl) | (c' & Ha & Hb)] c1 c2 -> ->.
    - left. exists i. repeat split; try apply A1; try apply A2; auto.
    - right. exists c'. split; assumption.
  Qed.
  Lemma SD_push_ctx s1 s2 c : SD s1 s2 -> SD (push_ctx s1 c) (push_ctx s2 c).
  Proof.
    intros [H|H]; unfold push_ctx.
    - eapply SD_set_ctx; [left; exact H|reflexivity|]. rewrite (sync_ctx _ _ H). reflexivity.
    - right. destruct H as (c' & Ha & Hb). exists c'. split; assumption.
  Qed.
  Lemma SD_pop_ctx s1 s2 : SD s1 s2 -> SD (pop_ctx s1) (pop_ctx s2).
  Proof.
    intros [H|H]; unfold pop_ctx.
    - eapply SD_set_ctx; [left; exact H|reflexivity|]. rewrite (sync_ctx _ _ H). reflexivity.
    - right. destruct H as (c' & Ha & Hb). exists c'. split; assumption.
  Qed.
  Lemma SD_set_cep s1 s2 p : SD s1 s2 -> SD (set_cep s1 p) (set_cep s2 p).
  Proof.
    intros [(i & Hi & A1 & A2 & He & Hc & Hp & Hl) | (c' & Ha & Hb)].
    - left. exists i. repeat split; try apply A1; try apply A2; auto.
    - right. exists c'. split; assumption.
  Qed.
  Lemma SD_log_event s1 s2 id kind : SD s1 s2 -> SD (log_event s1 id kind) (log_event s2 id kind).
  Proof.
    intros [H | (c' & Ha & Hb)].
    - pose proof (sync_cur _ _ H) as Hcur.
      destruct H as (i & Hi & A1 & A2 & He & Hc & Hp & Hl).
      left. exists i. repeat split; try apply A1; try apply A2; auto.
      cbn. unfold current_context, is_in_function. rewrite Hl, Hc, Hcur. reflexivity.
    - right. exists c'. split; assumption.
  Qed.
  Lemma SD_add_error s1 s2 kd a : SD s1 s2 -> SD (add_error s1 kd a) (add_error s2 kd a).
  Proof.
    intros [H | (c' & Ha & Hb)].
    - pose proof (sync_cur _ _ H) as Hcur.
      destruct H as (i & Hi & A1 & A2 & He & Hc & Hp & Hl).
      left. exists i. repeat split; try apply A1; try apply A2; auto.
      cbn. rewrite He, Hcur. reflexivity.
    - right. exists c'. split; apply Inv_add_error; assumption.
  Qed.
  Lemma SD_add_error_peek s1 s2 kd a : SD s1 s2 ->
    SD (add_error_at s1 kd a (ps_peek s1)) (add_error_at s2 kd a (ps_peek s2)).
  Proof.
    intros [H | (c' & Ha & Hb)].
    - pose proof (sync_peek _ _ H) as Hpk.
      destruct H as (i & Hi & A1 & A2 & He & Hc & Hp & Hl).
      left. exists i. repeat split; try apply A1; try apply A2; auto.
      cbn. rewrite He, Hpk. reflexivity.
    - right. exists c'. split; apply Inv_add_error_peek; assumption.
  Qed.

  Lemma SDR_of_SD {A} (v : A) e1 e2 : SD e1 e2 -> SDR (v, e1) (v, e2).
  Proof. intros [H|H]; [left; split; [reflexivity|exact H] | right; exact H]. Qed.

  Lemma L_expect s1 s2 ty ok1 s1' ok2 s2' : SD s1 s2 ->
    expect s1 ty = (ok1, s1') -> expect s2 ty = (ok2, s2') -> SDR (ok1, s1') (ok2, s2').
  Proof.
    intros [H|H] H1 H2.
    - unfold expect in H1, H2. rewrite (sync_peek_is _ _ H) in H2.
      destruct (peek_is s1 ty); inversion H1; inversion H2; subst; apply SDR_of_SD.
      + apply SD_next. left; exact H.
      + apply SD_add_error_peek. left; exact H.
    - right. destruct H as (c & Ha & Hb). exists c. cbn [snd].
      split; eapply Inv_expect; eassumption.
  Qed.

  Lemma L_expect_semicolon_asi cfg s1 s2 ok1 s1' ok2 s2' : SD s1 s2 ->
    expect_semicolon_asi cfg s1 = (ok1, s1') -> expect_semicolon_asi cfg s2 = (ok2, s2') ->
    SDR (ok1, s1') (ok2, s2').
  Proof.
    intros [H|H] H1 H2.
    - unfold expect_semicolon_asi in H1, H2.
      rewrite (sync_peek_is _ _ H), (sync_sis _ _ H) in H2.
      destruct (peek_is s1 T_SEMICOLON); [|destruct (should_insert_semicolon s1);
        [|destruct (c_tolerant cfg)]]; inversion H1; inversion H2; subst; apply SDR_of_SD;
        try (left; exact H).
      + apply SD_next. left; exact H.
      + apply SD_add_error_peek. left; exact H.
    - right. destruct H as (c & Ha & Hb). exists c. cbn [snd].
      split; eapply Inv_expect_semicolon_asi; eassumption.
  Qed.

  Hint Resolve SD_of_Sync SD_next SD_push_ctx SD_pop_ctx SD_set_cep SD_log_event SD_add_error
    : sddb.

  (* --- tactics for the lockstep walk --- *)

  (* rewrite what run 2 observes of a synchronised state into what run 1 observes *)
  Ltac sync_obs Hs H2 :=
    lazymatch type of Hs with
    | Sync ?s1 ?s2 =>
        repeat match type of H2 with
        | context [ps_cur s2] => rewrite (sync_cur _ _ Hs) in H2
        | context [ps_peek s2] => rewrite (sync_peek _ _ Hs) in H2
        | context [ps_cep s2] => rewrite (sync_cep _ _ Hs) in H2
        | context [cur_is s2 ?ty] => rewrite (sync_cur_is _ _ Hs ty) in H2
        | context [peek_is s2 ?ty] => rewrite (sync_peek_is _ _ Hs ty) in H2
        | context [peek_precedence ?c s2] => rewrite (sync_peek_prec _ _ Hs c) in H2
        | context [current_precedence ?c s2] => rewrite (sync_cur_prec _ _ Hs c) in H2
        end
    end.

  Ltac lnorm1 H :=
    repeat match type of H with
    | context [ps_cur (ps_next ?s)] => rewrite (ps_cur_next s) in H
    | context [cur_is (ps_next ?s) ?ty] => rewrite (cur_is_next s ty) in H
    | context [ps_cur (add_error ?s ?k ?a)] => rewrite (ps_cur_add_error s k a) in H
    end.

  Ltac lnorm H1 H2 :=
    lnorm1 H1; lnorm1 H2;
    repeat match goal with
    | Hs : Sync _ _ |- _ => progress (sync_obs Hs H2)
    end.

  (* the runs have separated: each one is followed on its own (part 1) *)
  Ltac div_finish Hd H1 H2 :=
    right; cbn [fst snd];
    let c := fresh "c" in let Ha := fresh "Ha" in let Hb := fresh "Hb" in
    destruct Hd as (c & Ha & Hb); exists c; split;
    [ clear H2 Hb; igo | clear H1 Ha; igo ].

  Ltac lsolve H1 H2 :=
    lnorm H1 H2;
    lazymatch type of H1 with
    | None = Some _ => discriminate H1
    | Some (_, _) = Some (_, _) =>
        repeat (match type of H1 with context [if ?b then _ else _] => destruct b eqn:? end;
                lnorm H1 H2);
        inversion H1; inversion H2; subst; apply SDR_of_SD; eauto with sddb
    | (_, _) = (_, _) =>
        inversion H1; inversion H2; subst; apply SDR_of_SD; eauto with sddb
    | expect _ _ = _ => eapply L_expect; [ | exact H1 | exact H2]; eauto with sddb
    | expect_semicolon_asi _ _ = _ =>
        eapply L_expect_semicolon_asi; [ | exact H1 | exact H2]; eauto with sddb
    | (match ?e1 with _ => _ end) = _ =>
        lazymatch type of H2 with
        | (match ?e2 with _ => _ end) = _ =>
            let T := type of e1 in
            let T' := eval cbv beta delta [res] in T in
            lazymatch T' with
            | option (_ * pstate)%type =>
                let x1 := fresh "x" in let sa := fresh "sa" in let E1 := fresh "E" in
                let x2 := fresh "y" in let sb := fresh "sb" in let E2 := fresh "F" in
                destruct e1 as [[x1 sa]|] eqn:E1; [|discriminate H1];
                destruct e2 as [[x2 sb]|] eqn:E2; [|discriminate H2];
                let X := fresh "X" in
                assert (X : SDR (x1, sa) (x2, sb)) by (clear H1 H2; lsolve E1 E2);
                clear E1 E2;
                let Hx := fresh "Hx" in let Hs' := fresh "Hs" in let Hd := fresh "Hd" in
                destruct X as [[Hx Hs']|Hd]; cbn [fst snd] in *;
                [ subst x2; lsolve H1 H2 | div_finish Hd H1 H2 ]
            | (_ * pstate)%type =>
                let x1 := fresh "x" in let sa := fresh "sa" in let E1 := fresh "E" in
                let x2 := fresh "y" in let sb := fresh "sb" in let E2 := fresh "F" in
                destruct e1 as [x1 sa] eqn:E1;
                destruct e2 as [x2 sb] eqn:E2;
                let X := fresh "X" in
                assert (X : SDR (x1, sa) (x2, sb)) by (clear H1 H2; lsolve E1 E2);
                clear E1 E2;
                let Hx := fresh "Hx" in let Hs' := fresh "Hs" in let Hd := fresh "Hd" in
                destruct X as [[Hx Hs']|Hd]; cbn [fst snd] in *;
                [ subst x2; lsolve H1 H2 | div_finish Hd H1 H2 ]
            | _ =>
                first [ constr_eq e1 e2 | fail 1 "tests differ:" e1 "vs" e2 ];
                destruct e1 eqn:?; lsolve H1 H2
            end
        end
    | ?f1 ?a1 = Some _ =>
        lazymatch type of H2 with
        | ?f2 ?a2 = Some _ =>
            let L := fresh "L" in
            eassert (L : lspec f1 f2) by (eauto with ldb);
            eapply L; [ | exact H1 | exact H2]; eauto with sddb
        end
    end.

  (* start of a lockstep lemma: the separated case is part 1, the synchronised case
     walks through the unfolded bodies *)
  Ltac lstart :=
    let Hsd := fresh "Hsd" in let H1 := fresh "H1" in let H2 := fresh "H2" in
    let Hs := fresh "Hs" in let Hd := fresh "Hd" in
    intros ? ? ? ? ? ? Hsd H1 H2; destruct Hsd as [Hs|Hd]; [|div_finish Hd H1 H2].

  Section TwoOpen.
    Variable cfg : pcfg.
    Variable sf1 sf2 : pstate -> res stmt.
    Variable ef1 ef2 : Z -> pstate -> res expr.
    Variable lf1 lf2 : nat.
    Hypothesis sf_l : lspec sf1 sf2.
    Hypothesis ef_l : forall p, lspec (ef1 p) (ef2 p).
    Hypothesis sf1_i : forall c, ispec toks1 eof1 0 c sf1.
    Hypothesis sf2_i : forall c, ispec toks2 eof2 (k - 1) c sf2.
    Hypothesis ef1_i : forall c p, ispec toks1 eof1 0 c (ef1 p).
    Hypothesis ef2_i : forall c p, ispec toks2 eof2 (k - 1) c (ef2 p).
    Hint Resolve sf_l ef_l : ldb.
    Hint Resolve sf1_i sf2_i ef1_i ef2_i : idb.

    Lemma l_parse_expression : lspec (parse_expression ef1) (parse_expression ef2).
    Proof. unfold parse_expression. auto. Qed.
    Hint Resolve l_parse_expression : ldb.

    Lemma l_parse_let_statement :
      lspec (parse_let_statement cfg ef1) (parse_let_statement cfg ef2).
    Proof.
      lstart. unfold parse_let_statement in H1, H2. cbv zeta in H1, H2. lsolve H1 H2.
    Qed.

    Lemma l_params_loop n1 : forall n2 acc, lspec (params_loop n1 acc) (params_loop n2 acc).
    Proof.
      induction n1 as [|n1 IH]; intros n2 acc; lstart; [discriminate H1|].
      destruct n2; cbn [params_loop] in H1, H2; [discriminate H2|]. cbv zeta in H1, H2.
      sync_obs Hs H2. destruct (peek_is s1 T_COMMA).
      - lsolve H1 H2.
      - lsolve H1 H2.
    Qed.
    Hint Resolve l_params_loop : ldb.

    Lemma l_parse_function_parameters :
      lspec (parse_function_parameters lf1) (parse_function_parameters lf2).
    Proof.
      lstart. unfold parse_function_parameters in H1, H2. cbv zeta in H1, H2. lsolve H1 H2.
    Qed.
    Hint Resolve l_parse_function_parameters : ldb.

    Lemma l_block_loop n1 : forall n2 acc, lspec (block_loop sf1 n1 acc) (block_loop sf2 n2 acc).
    Proof.
      induction n1 as [|n1 IH]; intros n2 acc; lstart; [discriminate H1|].
      destruct n2; cbn [block_loop] in H1, H2; [discriminate H2|]. lsolve H1 H2.
    Qed.
    Hint Resolve l_block_loop : ldb.

    Lemma l_parse_block_statement :
      lspec (parse_block_statement cfg sf1 lf1) (parse_block_statement cfg sf2 lf2).
    Proof.
      lstart. unfold parse_block_statement in H1, H2. cbv zeta in H1, H2. lsolve H1 H2.
    Qed.
    Hint Resolve l_parse_block_statement : ldb.

    Lemma l_parse_let_expression :
      lspec (parse_let_expression ef1) (parse_let_expression ef2).
    Proof.
      lstart. unfold parse_let_expression in H1, H2. cbv zeta in H1, H2. lsolve H1 H2.
    Qed.
    Hint Resolve l_parse_let_expression : ldb.

    Lemma l_parse_function_statement :
      lspec (parse_function_statement cfg sf1 lf1) (parse_function_statement cfg sf2 lf2).
    Proof.
      lstart. unfold parse_function_statement in H1, H2. cbv zeta in H1, H2. lsolve H1 H2.
    Qed.

    Lemma l_parse_return_statement :
      lspec (parse_return_statement cfg ef1) (parse_return_statement cfg ef2).
    Proof.
      lstart. unfold parse_return_statement in H1, H2. cbv zeta in H1, H2. lsolve H1 H2.
    Qed.

    Lemma l_parse_if_statement :
      lspec (parse_if_statement sf1 ef1) (parse_if_statement sf2 ef2).
    Proof.
      lstart. unfold parse_if_statement in H1, H2. cbv zeta in H1, H2. lsolve H1 H2.
    Qed.

    Lemma l_parse_while_statement :
      lspec (parse_while_statement sf1 ef1) (parse_while_statement sf2 ef2).
    Proof.
      lstart. unfold parse_while_statement in H1, H2. cbv zeta in H1, H2. lsolve H1 H2.
    Qed.

    Lemma l_parse_for_statement :
      lspec (parse_for_statement sf1 ef1) (parse_for_statement sf2 ef2).
    Proof.
      lstart. unfold parse_for_statement in H1, H2. cbv zeta in H1, H2. lsolve H1 H2.
    Qed.

    Lemma l_parse_expression_statement :
      lspec (parse_expression_statement cfg ef1) (parse_expression_statement cfg ef2).
    Proof.
      lstart. unfold parse_expression_statement in H1, H2. cbv zeta in H1, H2. lsolve H1 H2.
    Qed.
    Hint Resolve l_parse_let_statement l_parse_function_statement l_parse_return_statement
      l_parse_if_statement l_parse_while_statement l_parse_for_statement
      l_parse_expression_statement : ldb.

    Lemma l_base_parse_statement :
      lspec (base_parse_statement cfg sf1 ef1 lf1) (base_parse_statement cfg sf2 ef2 lf2).
    Proof.
      lstart. unfold base_parse_statement in H1, H2. cbv zeta in H1, H2. lsolve H1 H2.
    Qed.

    Lemma l_expr_list_loop n1 : forall n2 acc,
      lspec (expr_list_loop ef1 n1 acc) (expr_list_loop ef2 n2 acc).
    Proof.
      induction n1 as [|n1 IH]; intros n2 acc; lstart; [discriminate H1|].
      destruct n2; cbn [expr_list_loop] in H1, H2; [discriminate H2|]. lsolve H1 H2.
    Qed.
    Hint Resolve l_expr_list_loop : ldb.

    Lemma l_parse_expression_list ty :
      lspec (parse_expression_list ef1 lf1 ty) (parse_expression_list ef2 lf2 ty).
    Proof.
      lstart. unfold parse_expression_list in H1, H2. cbv zeta in H1, H2. lsolve H1 H2.
    Qed.
    Hint Resolve l_parse_expression_list : ldb.

    Lemma l_object_loop n1 : forall n2 acc,
      lspec (object_loop ef1 n1 acc) (object_loop ef2 n2 acc).
    Proof.
      induction n1 as [|n1 IH]; intros n2 acc; lstart; [discriminate H1|].
      destruct n2; cbn [object_loop] in H1, H2; [discriminate H2|]. cbv zeta in H1, H2.
      lsolve H1 H2.
    Qed.
    Hint Resolve l_object_loop : ldb.

    Lemma l_parse_object_literal :
      lspec (parse_object_literal ef1 lf1) (parse_object_literal ef2 lf2).
    Proof.
      lstart. unfold parse_object_literal in H1, H2. cbv zeta in H1, H2. lsolve H1 H2.
    Qed.

    Lemma l_parse_function_expression :
      lspec (parse_function_expression cfg sf1 lf1) (parse_function_expression cfg sf2 lf2).
    Proof.
      lstart. unfold parse_function_expression in H1, H2. cbv zeta in H1, H2. lsolve H1 H2.
    Qed.

    Lemma l_parse_grouped_expression :
      lspec (parse_grouped_expression ef1) (parse_grouped_expression ef2).
    Proof.
      lstart. unfold parse_grouped_expression in H1, H2. cbv zeta in H1, H2. lsolve H1 H2.
    Qed.

    Lemma l_parse_unary_expression :
      lspec (parse_unary_expression ef1) (parse_unary_expression ef2).
    Proof.
      lstart. unfold parse_unary_expression in H1, H2. cbv zeta in H1, H2. lsolve H1 H2.
    Qed.
    Hint Resolve l_parse_object_literal l_parse_function_expression l_parse_grouped_expression
      l_parse_unary_expression : ldb.

    Lemma l_prefix_handler_run h :
      lspec (prefix_handler_run cfg sf1 ef1 lf1 h) (prefix_handler_run cfg sf2 ef2 lf2 h).
    Proof.
      lstart. unfold prefix_handler_run in H1, H2. cbv zeta in H1, H2. lsolve H1 H2.
    Qed.
    Hint Resolve l_prefix_handler_run : ldb.

    Lemma l_parse_prefix_expression :
      lspec (parse_prefix_expression cfg sf1 ef1 lf1) (parse_prefix_expression cfg sf2 ef2 lf2).
    Proof.
      lstart. unfold parse_prefix_expression in H1, H2. cbv zeta in H1, H2. lsolve H1 H2.
    Qed.
    Hint Resolve l_parse_prefix_expression : ldb.

    Lemma l_parse_binary_expression left :
      lspec (parse_binary_expression cfg ef1 left) (parse_binary_expression cfg ef2 left).
    Proof.
      lstart. unfold parse_binary_expression in H1, H2. cbv zeta in H1, H2. lsolve H1 H2.
    Qed.
    Hint Resolve l_parse_binary_expression : ldb.

    Lemma l_infix_handler_run h left :
      lspec (infix_handler_run cfg ef1 lf1 h left) (infix_handler_run cfg ef2 lf2 h left).
    Proof.
      lstart. unfold infix_handler_run in H1, H2. cbv zeta in H1, H2. lsolve H1 H2.
    Qed.
    Hint Resolve l_infix_handler_run : ldb.

    Lemma l_parse_infix_expression left :
      lspec (parse_infix_expression cfg ef1 lf1 left) (parse_infix_expression cfg ef2 lf2 left).
    Proof.
      lstart. unfold parse_infix_expression in H1, H2. cbv zeta in H1, H2. lsolve H1 H2.
    Qed.
    Hint Resolve l_parse_infix_expression : ldb.

    Lemma l_remaining_loop n1 : forall n2 left prec,
      lspec (remaining_loop cfg ef1 lf1 n1 left prec) (remaining_loop cfg ef2 lf2 n2 left prec).
    Proof.
      induction n1 as [|n1 IH]; intros n2 left prec; lstart; [discriminate H1|].
      destruct n2; cbn [remaining_loop] in H1, H2; [discriminate H2|]. lsolve H1 H2.
    Qed.
    Hint Resolve l_remaining_loop : ldb.

    Lemma l_parse_remaining left prec :
      lspec (parse_remaining_with_precedence cfg ef1 lf1 left prec)
            (parse_remaining_with_precedence cfg ef2 lf2 left prec).
    Proof. unfold parse_remaining_with_precedence. apply l_remaining_loop. Qed.
    Hint Resolve l_parse_remaining : ldb.

    Lemma l_base_parse_expression prec :
      lspec (base_parse_expression cfg sf1 ef1 lf1 prec) (base_parse_expression cfg sf2 ef2 lf2 prec).
    Proof.
      lstart. unfold base_parse_expression in H1, H2. cbv zeta in H1, H2. lsolve H1 H2.
    Qed.

    Lemma l_run_stmt_chain ics :
      lspec (run_stmt_chain cfg sf1 ef1 lf1 ics) (run_stmt_chain cfg sf2 ef2 lf2 ics).
    Proof.
      induction ics as [|ic ics IH]; lstart; cbn [run_stmt_chain] in H1, H2.
      - eapply l_base_parse_statement; [left; exact Hs | exact H1 | exact H2].
      - destruct ic; lsolve H1 H2.
    Qed.

    Lemma l_run_expr_chain ics : forall prec,
      lspec (run_expr_chain cfg sf1 ef1 lf1 ics prec) (run_expr_chain cfg sf2 ef2 lf2 ics prec).
    Proof.
      induction ics as [|ic ics IH]; intros prec; lstart; cbn [run_expr_chain] in H1, H2.
      - eapply l_base_parse_expression; [left; exact Hs | exact H1 | exact H2].
      - cbv zeta in H1, H2. destruct ic; lsolve H1 H2.
    Qed.
  End TwoOpen.

  (* --- closing the recursion: the two runs may have different fuels --- *)
  Lemma l_knot cfg : forall f1 f2,
    lspec (stmt_fn cfg f1) (stmt_fn cfg f2) /\
    forall p, lspec (expr_fn cfg f1 p) (expr_fn cfg f2 p).
  Proof.
    induction f1 as [|f1 IH]; intros f2.
    - split; [|intros p]; intros s1 s2 r1 s1' r2 s2' _ H1 _; discriminate H1.
    - destruct f2 as [|f2].
      + split; [|intros p]; intros s1 s2 r1 s1' r2 s2' _ _ H2; discriminate H2.
      + destruct (IH f2) as [IHs IHe]. split; [|intros p]; cbn [stmt_fn expr_fn].
        * apply l_run_stmt_chain; auto; intros; first [apply i_stmt_fn | apply i_expr_fn].
        * apply l_run_expr_chain; auto; intros; first [apply i_stmt_fn | apply i_expr_fn].
  Qed.

  Lemma l_stmt_fn cfg f1 f2 : lspec (stmt_fn cfg f1) (stmt_fn cfg f2).
  Proof. apply l_knot. Qed.
  Lemma l_expr_fn cfg f1 f2 p : lspec (expr_fn cfg f1 p) (expr_fn cfg f2 p).
  Proof. apply l_knot. Qed.
  Hint Resolve l_stmt_fn l_expr_fn : ldb.

  Lemma l_program_loop cfg f1 f2 n1 : forall n2 acc,
    lspec (program_loop cfg f1 n1 acc) (program_loop cfg f2 n2 acc).
  Proof.
    induction n1 as [|n1 IH]; intros n2 acc; lstart; [discriminate H1|].
    destruct n2; cbn [program_loop] in H1, H2; [discriminate H2|]. lsolve H1 H2.
  Qed.

  (* --- what the relation says at the end --- *)
  Lemma SD_final s1 s2 : SD s1 s2 -> ps_errors s1 = [] ->
    Forall (loc_ge toks2 eof2 (k - 1)) (ps_errors s2).
  Proof.
    intros [(i & Hi & _ & _ & He & _) | (c & Ha & Hb)] Hnil.
    - rewrite He, Hnil. constructor.
    - destruct Ha as (_ & _ & _ & a & Ea & _). destruct Hb as (_ & _ & _ & b & Eb & Hb).
      rewrite Hnil in Ea. symmetry in Ea. apply app_eq_nil in Ea. destruct Ea as [-> _].
      rewrite Eb. exact Hb.
  Qed.
End Two.

(* ================================================================== *)
(* 3. the theorem                                                      *)
(* ================================================================== *)

Lemma at_ix_init toks eof : at_ix toks eof 0 (ps_init toks eof).
Proof.
  unfold ps_init, at_ix, tok_at.
  destruct toks as [|a [|b l]]; cbn; repeat split; reflexivity.
Qed.

Lemma ps_init_fields toks eof :
  ps_errors (ps_init toks eof) = [] /\ ps_ctx (ps_init toks eof) = [P_GlobalContext] /\
  ps_cep (ps_init toks eof) = 0 /\ ps_log (ps_init toks eof) = [].
Proof.
  unfold ps_init. rewrite !ps_errors_next, !ps_ctx_next, !ps_cep_next, !ps_log_next.
  cbn. repeat split; reflexivity.
Qed.

Lemma SD_init toks1 eof1 toks2 eof2 k :
  SD toks1 eof1 toks2 eof2 k (ps_init toks1 eof1) (ps_init toks2 eof2).
Proof.
  destruct (ps_init_fields toks1 eof1) as (E1 & C1 & P1 & L1).
  destruct (ps_init_fields toks2 eof2) as (E2 & C2 & P2 & L2).
  destruct (lt_dec 1 k) as [Hk|Hk].
  - left. exists 0%nat. split; [exact Hk|].
    split; [apply at_ix_init|]. split; [apply at_ix_init|].
    rewrite E1, E2, C1, C2, P1, P2, L1, L2. auto.
  - right. exists []. split.
    + exists 0%nat. split; [lia|]. split; [apply at_ix_init|].
      exists []. rewrite E1. split; [reflexivity|constructor].
    + exists 0%nat. split; [lia|]. split; [apply at_ix_init|].
      exists []. rewrite E2. split; [reflexivity|constructor].
Qed.

Lemma common_prefix_tok_at (toks1 toks2 : list token) eof1 eof2 k :
  firstn k toks1 = firstn k toks2 -> (k <= length toks1)%nat -> (k <= length toks2)%nat ->
  forall j, (j < k)%nat -> tok_at toks2 eof2 j = tok_at toks1 eof1 j.
Proof.
  intros Hf H1 H2 j Hj. unfold tok_at.
  rewrite <- (nth_firstn_lt eof2 k j toks2 Hj), <- (nth_firstn_lt eof1 k j toks1 Hj).
  rewrite Hf. apply nth_indep. rewrite firstn_length. lia.
Qed.

Lemma error_not_early : forall cfg toks1 toks2 k r1 r2,
  ops_sane cfg ->
  firstn k toks1 = firstn k toks2 ->
  t_type (last toks1 zero_token) = T_EOF -> t_type (last toks2 zero_token) = T_EOF ->
  parse_tokens cfg toks1 = Some r1 -> pr_errors r1 = [] ->
  parse_tokens cfg toks2 = Some r2 ->
  Forall (fun e =>
            (exists i t, (k - 1 <= i)%nat /\ nth_error toks2 i = Some t /\
                         e_start e = t_start t /\ e_end e = t_end t)
            \/ (e_start e = t_start (eof_again (last toks2 zero_token)) /\
                e_end e = t_end (eof_again (last toks2 zero_token))))
         (pr_errors r2).
Proof.
  intros cfg toks1 toks2 k r1 r2 _ Hf _ _ P1 Hnil P2.
  (* if k exceeds one of the lengths the two lists are equal *)
  assert (Hcases : toks1 = toks2 \/ ((k <= length toks1)%nat /\ (k <= length toks2)%nat)).
  { destruct (le_lt_dec k (length toks1)) as [H1|H1];
      destruct (le_lt_dec k (length toks2)) as [H2|H2]; auto; left.
    - pose proof (f_equal (@length token) Hf) as Hl. rewrite !firstn_length in Hl.
      rewrite (firstn_all2 toks2) in Hf by lia. lia.
    - pose proof (f_equal (@length token) Hf) as Hl. rewrite !firstn_length in Hl.
      rewrite (firstn_all2 toks1) in Hf by lia. lia.
    - rewrite (firstn_all2 toks1), (firstn_all2 toks2) in Hf by lia. exact Hf. }
  destruct Hcases as [->|[Hk1 Hk2]].
  { rewrite P1 in P2. inversion P2; subst. rewrite Hnil. constructor. }
  set (eof1 := eof_again (last toks1 zero_token)).
  set (eof2 := eof_again (last toks2 zero_token)).
  pose proof (common_prefix_tok_at toks1 toks2 eof1 eof2 k Hf Hk1 Hk2) as Hpre.
  unfold parse_tokens, parse_program_from in P1, P2. fold eof1 in P1. fold eof2 in P2.
  destruct (program_loop cfg (parse_fuel toks1) (parse_fuel toks1) [] (ps_init toks1 eof1))
    as [[st1 s1]|] eqn:L1; [|discriminate P1].
  destruct (program_loop cfg (parse_fuel toks2) (parse_fuel toks2) [] (ps_init toks2 eof2))
    as [[st2 s2]|] eqn:L2; [|discriminate P2].
  inversion P1; subst r1; clear P1. inversion P2; subst r2; clear P2.
  cbn [pr_errors] in *.
  pose proof (l_program_loop toks1 eof1 toks2 eof2 k Hpre cfg _ _ _ _ _ _ _ _ _ _ _
                (SD_init toks1 eof1 toks2 eof2 k) L1 L2) as Hr.
  assert (Hsd : SD toks1 eof1 toks2 eof2 k s1 s2).
  { destruct Hr as [[_ H]|H]; [left|right]; exact H. }
  pose proof (SD_final toks1 eof1 toks2 eof2 k s1 s2 Hsd Hnil) as Hloc.
  eapply Forall_impl; [|exact Hloc].
  intros e (m & Hm & Hs & He). unfold tok_at in Hs, He.
  destruct (lt_dec m (length toks2)) as [Hlt|Hge].
  - left. exists m, (nth m toks2 eof2). split; [exact Hm|].
    split; [apply nth_error_nth'; exact Hlt|]. split; assumption.
  - right. rewrite nth_overflow in Hs, He by lia. split; assumption.
Qed.
