(* Tree.v -- the syntax tree of package ast, with Go's nil made explicit. *)
Require Import Base Token.

Record ident := mkident { id_tok : token; id_value : str }.

(* [ENil] is a nil ast.Expression; [SNil] a nil ast.Statement (interface nil or a nil
   pointer wrapped in the interface: printing either panics). *)
Inductive expr :=
| ENil
| EIdent (i : ident)
| EInt (t : token)
| EFloat (t : token)
| EString (t : token) (v : str)
| ERaw (t : token) (v : str)
| EBool (t : token) (b : bool)
| ENull (t : token)
| ELet (t : token) (name : ident) (value : expr)
| EBinary (t : token) (l : expr) (op : str) (r : expr)
| EUnary (t : token) (op : str) (r : expr)
| EPostfix (t : token) (l : expr) (op : str)
| EGroup (t : token) (e : expr) (rp : token)
| ECall (t : token) (fn : expr) (args : list expr)
| EMember (t : token) (obj : expr) (prop : expr) (computed : bool)
| EAssign (t : token) (l : expr) (v : expr)
| ECompound (t : token) (l : expr) (op : str) (v : expr)
| EFunc (t : token) (name : option ident) (params : list ident) (body : stmt)
| EArray (t : token) (elems : list expr) (rb : token)
| EObject (t : token) (props : list (expr * expr)) (rb : token)
with stmt :=
| SNil
| SLet (t : token) (name : ident) (value : expr)
| SReturn (t : token) (value : expr)
| SExpr (e : expr)
| SFunc (t : token) (name : ident) (params : list ident) (body : stmt)
| SBlock (t : token) (stmts : list stmt) (rb : token)
| SIf (t : token) (cond : expr) (thn : stmt) (els : stmt)
| SWhile (t : token) (cond : expr) (body : stmt)
| SFor (t : token) (init : expr) (cond : expr) (upd : expr) (body : stmt).

Record program := mkprogram { p_stmts : list stmt; p_eof : token }.

Definition is_enil (e : expr) : bool := match e with ENil => true | _ => false end.
Definition is_snil (s : stmt) : bool := match s with SNil => true | _ => false end.

(* size, for inductions over the nested lists *)
Fixpoint esize (e : expr) : nat :=
  match e with
  | ENil | EIdent _ | EInt _ | EFloat _ | EString _ _ | ERaw _ _ | EBool _ _ | ENull _ => 1
  | ELet _ _ v => S (esize v)
  | EBinary _ l _ r => S (esize l + esize r)
  | EUnary _ _ r => S (esize r)
  | EPostfix _ l _ => S (esize l)
  | EGroup _ e _ => S (esize e)
  | ECall _ f args => S (esize f + fold_right (fun a n => esize a + n) 0 args)
  | EMember _ o p _ => S (esize o + esize p)
  | EAssign _ l v => S (esize l + esize v)
  | ECompound _ l _ v => S (esize l + esize v)
  | EFunc _ _ _ b => S (ssize b)
  | EArray _ es _ => S (fold_right (fun a n => esize a + n) 0 es)
  | EObject _ ps _ => S (fold_right (fun kv n => esize (fst kv) + esize (snd kv) + n) 0 ps)
  end%nat
with ssize (s : stmt) : nat :=
  match s with
  | SNil => 1
  | SLet _ _ v => S (esize v)
  | SReturn _ v => S (esize v)
  | SExpr e => S (esize e)
  | SFunc _ _ _ b => S (ssize b)
  | SBlock _ ss _ => S (fold_right (fun a n => ssize a + n) 0 ss)
  | SIf _ c t e => S (esize c + ssize t + ssize e)
  | SWhile _ c b => S (esize c + ssize b)
  | SFor _ i c u b => S (esize i + esize c + esize u + ssize b)
  end%nat.
