(* InterceptProofs.v -- interceptors are transparent, ordered and re-entrant (Props/C04.v). *)
Require Import Base GoOps Token Lexer LexSpec LexerProofs Tree Parser Registry ParserSpec ParserProofs.
Require Import Gen.Tables.
From Coq Require Import ZifyBool ZifyN ZifyNat Lia.

(* ------------------------------------------------------------------ *)
(* 1. the state with its scratch register and probe log replaced       *)
(* ------------------------------------------------------------------ *)

Definition set_cl (s : pstate) (c : Z) (l : list pevent) : pstate :=
  mkps (ps_cur s) (ps_peek s) (ps_rest s) (ps_eof s) (ps_errors s) (ps_ctx s) c l.

Lemma scl_eta s : s = set_cl s (ps_cep s) (ps_log s).
Proof. destruct s; reflexivity. Qed.

Lemma next_scl s c l : ps_next (set_cl s c l) = set_cl (ps_next s) c l.
Proof. unfold ps_next, set_cl. cbn [ps_rest]. destruct (ps_rest s); reflexivity. Qed.
Lemma add_error_at_scl s c l k a t : add_error_at (set_cl s c l) k a t = set_cl (add_error_at s k a t) c l.
Proof. reflexivity. Qed.
Lemma add_error_scl s c l k a : add_error (set_cl s c l) k a = set_cl (add_error s k a) c l.
Proof. reflexivity. Qed.
Lemma push_scl s c l x : push_ctx (set_cl s c l) x = set_cl (push_ctx s x) c l.
Proof. reflexivity. Qed.
Lemma pop_scl s c l : pop_ctx (set_cl s c l) = set_cl (pop_ctx s) c l.
Proof. reflexivity. Qed.
Lemma set_cep_scl s c l p : set_cep (set_cl s c l) p = set_cl s p l.
Proof. reflexivity. Qed.
Lemma log_event_scl s c l i k :
  log_event (set_cl s c l) i k = set_cl s c (l ++ [mkev i k (ps_cur s) (current_context s) (is_in_function s)]).
Proof. reflexivity. Qed.
Lemma cur_scl s c l : ps_cur (set_cl s c l) = ps_cur s.
Proof. reflexivity. Qed.
Lemma peek_scl s c l : ps_peek (set_cl s c l) = ps_peek s.
Proof. reflexivity. Qed.
Lemma cep_scl s c l : ps_cep (set_cl s c l) = c.
Proof. reflexivity. Qed.
Lemma peek_is_scl s c l ty : peek_is (set_cl s c l) ty = peek_is s ty.
Proof. reflexivity. Qed.
Lemma cur_is_scl s c l ty : cur_is (set_cl s c l) ty = cur_is s ty.
Proof. reflexivity. Qed.
Lemma peek_precedence_scl cfg s c l : peek_precedence cfg (set_cl s c l) = peek_precedence cfg s.
Proof. reflexivity. Qed.
Lemma current_precedence_scl cfg s c l : current_precedence cfg (set_cl s c l) = current_precedence cfg s.
Proof. reflexivity. Qed.
Lemma sis_scl s c l : should_insert_semicolon (set_cl s c l) = should_insert_semicolon s.
Proof. reflexivity. Qed.

Lemma expect_scl s c l ty :
  expect (set_cl s c l) ty = let '(ok, s') := expect s ty in (ok, set_cl s' c l).
Proof.
  unfold expect. rewrite peek_is_scl, next_scl, peek_scl, add_error_at_scl.
  destruct (peek_is s ty); reflexivity.
Qed.

Lemma expect_asi_scl cfg s c l :
  expect_semicolon_asi cfg (set_cl s c l) = let '(ok, s') := expect_semicolon_asi cfg s in (ok, set_cl s' c l).
Proof.
  unfold expect_semicolon_asi. rewrite peek_is_scl, next_scl, peek_scl, add_error_at_scl, sis_scl.
  destruct (peek_is s T_SEMICOLON); [reflexivity|].
  destruct (should_insert_semicolon s); [reflexivity|].
  destruct (c_tolerant cfg); reflexivity.
Qed.

#[export] Hint Rewrite next_scl add_error_at_scl add_error_scl push_scl pop_scl set_cep_scl
  log_event_scl cur_scl peek_scl cep_scl peek_is_scl cur_is_scl expect_scl expect_asi_scl : scl.

(* [x] is [y] run from the same state with another register / log: same answer, and a
   final state that differs only in the log (the register is restored) *)
Definition simr {A} (c : Z) (x y : res A) : Prop :=
  match y with
  | None => x = None
  | Some (r, t) => exists l', x = Some (r, set_cl t c l')
  end.

(* ------------------------------------------------------------------ *)
(* 2. tactics                                                          *)
(* ------------------------------------------------------------------ *)

Ltac sim_bind :=
  lazymatch goal with
  | |- simr ?c (match ?e1 with None => None | Some _ => _ end)
               (match ?e2 with None => None | Some _ => _ end) =>
      let H := fresh "H" in
      assert (H : simr c e1 e2) by (eauto 3 with sim nocore);
      destruct e2 as [[? ?]|]; cbn [simr] in H; [destruct H as [? H]|];
      rewrite H; clear H; cbv beta iota
  end.

Ltac sim1 :=
  autorewrite with scl;
  first
  [ match goal with
    | |- simr _ _ ?Y =>
        match Y with
        | context [if ?c then _ else _] => destruct c; cbv beta iota
        end
    end
  | lazymatch goal with
    | |- simr _ _ (Some _) => cbn [simr]; eexists; reflexivity
    | |- simr _ _ None => reflexivity
    | |- simr _ _ (match ?e with None => None | Some _ => _ end) => sim_bind
    | |- simr _ _ (let '(_, _) := ?e in _) => destruct e as [? ?]; cbv beta iota
    end ].

Ltac sim := repeat sim1.

(* ------------------------------------------------------------------ *)
(* 3. every Parse* function run twice, the recursion being open        *)
(* ------------------------------------------------------------------ *)

Section Sim.
  Variable cfg : pcfg.
  Variables sf1 sf2 : pstate -> res stmt.
  Variables ef1 ef2 : Z -> pstate -> res expr.
  Variable n : nat.
  Hypothesis Hsf : forall s c l, simr c (sf1 (set_cl s c l)) (sf2 s).
  Hypothesis Hef : forall p s c l, simr c (ef1 p (set_cl s c l)) (ef2 p s).

  Hint Resolve Hsf Hef : sim.

  Lemma parse_expression_sim s c l :
    simr c (parse_expression ef1 (set_cl s c l)) (parse_expression ef2 s).
  Proof. unfold parse_expression. apply Hef. Qed.
  Hint Resolve parse_expression_sim : sim.

  Lemma params_loop_sim : forall k acc s c l,
    simr c (params_loop k acc (set_cl s c l)) (params_loop k acc s).
  Proof.
    induction k as [|k IH]; intros acc s c l; cbn [params_loop]; [reflexivity|].
    cbv zeta. autorewrite with scl. destruct (peek_is s T_COMMA); [|sim].
    destruct (expect (ps_next s) T_IDENT) as [[|] s2]; cbv beta iota; cbn [negb];
      autorewrite with scl; [apply IH|sim].
  Qed.
  Hint Resolve params_loop_sim : sim.

  Lemma parse_function_parameters_sim s c l :
    simr c (parse_function_parameters n (set_cl s c l)) (parse_function_parameters n s).
  Proof.
    unfold parse_function_parameters. cbv zeta. sim. apply params_loop_sim.
  Qed.
  Hint Resolve parse_function_parameters_sim : sim.

  Lemma block_loop_sim : forall k acc s c l,
    simr c (block_loop sf1 k acc (set_cl s c l)) (block_loop sf2 k acc s).
  Proof.
    induction k as [|k IH]; intros acc s c l; cbn [block_loop]; [reflexivity|].
    autorewrite with scl.
    destruct (negb (cur_is s T_RBRACE) && negb (cur_is s T_EOF)); [|sim].
    sim_bind; [|reflexivity]. autorewrite with scl. apply IH.
  Qed.
  Hint Resolve block_loop_sim : sim.

  Lemma parse_block_statement_sim s c l :
    simr c (parse_block_statement cfg sf1 n (set_cl s c l)) (parse_block_statement cfg sf2 n s).
  Proof. unfold parse_block_statement. cbv zeta. sim. Qed.
  Hint Resolve parse_block_statement_sim : sim.

  Lemma parse_let_statement_sim s c l :
    simr c (parse_let_statement cfg ef1 (set_cl s c l)) (parse_let_statement cfg ef2 s).
  Proof. unfold parse_let_statement. cbv zeta. sim. Qed.
  Hint Resolve parse_let_statement_sim : sim.

  Lemma parse_let_expression_sim s c l :
    simr c (parse_let_expression ef1 (set_cl s c l)) (parse_let_expression ef2 s).
  Proof. unfold parse_let_expression. cbv zeta. sim. Qed.
  Hint Resolve parse_let_expression_sim : sim.

  Lemma parse_function_statement_sim s c l :
    simr c (parse_function_statement cfg sf1 n (set_cl s c l)) (parse_function_statement cfg sf2 n s).
  Proof. unfold parse_function_statement. cbv zeta. sim. Qed.
  Hint Resolve parse_function_statement_sim : sim.

  Lemma parse_return_statement_sim s c l :
    simr c (parse_return_statement cfg ef1 (set_cl s c l)) (parse_return_statement cfg ef2 s).
  Proof. unfold parse_return_statement. cbv zeta. sim. Qed.
  Hint Resolve parse_return_statement_sim : sim.

  Lemma parse_if_statement_sim s c l :
    simr c (parse_if_statement sf1 ef1 (set_cl s c l)) (parse_if_statement sf2 ef2 s).
  Proof. unfold parse_if_statement. cbv zeta. sim. Qed.
  Hint Resolve parse_if_statement_sim : sim.

  Lemma parse_while_statement_sim s c l :
    simr c (parse_while_statement sf1 ef1 (set_cl s c l)) (parse_while_statement sf2 ef2 s).
  Proof. unfold parse_while_statement. cbv zeta. sim. Qed.
  Hint Resolve parse_while_statement_sim : sim.

  Lemma parse_for_statement_sim s c l :
    simr c (parse_for_statement sf1 ef1 (set_cl s c l)) (parse_for_statement sf2 ef2 s).
  Proof. unfold parse_for_statement. cbv zeta. sim. Qed.
  Hint Resolve parse_for_statement_sim : sim.

  Lemma parse_expression_statement_sim s c l :
    simr c (parse_expression_statement cfg ef1 (set_cl s c l)) (parse_expression_statement cfg ef2 s).
  Proof. unfold parse_expression_statement. cbv zeta. sim. Qed.
  Hint Resolve parse_expression_statement_sim : sim.

  Lemma base_parse_statement_sim s c l :
    simr c (base_parse_statement cfg sf1 ef1 n (set_cl s c l)) (base_parse_statement cfg sf2 ef2 n s).
  Proof.
    unfold base_parse_statement. cbv zeta. autorewrite with scl.
    repeat match goal with
    | |- simr _ _ (if ?b then _ else _) => destruct b; [eauto 2 with sim nocore|]
    end.
    eauto 2 with sim nocore.
  Qed.

  Lemma expr_list_loop_sim : forall k acc s c l,
    simr c (expr_list_loop ef1 k acc (set_cl s c l)) (expr_list_loop ef2 k acc s).
  Proof.
    induction k as [|k IH]; intros acc s c l; cbn [expr_list_loop]; [reflexivity|].
    autorewrite with scl. destruct (peek_is s T_COMMA); [|sim].
    sim_bind; [|reflexivity]. apply IH.
  Qed.
  Hint Resolve expr_list_loop_sim : sim.

  Lemma parse_expression_list_sim ty s c l :
    simr c (parse_expression_list ef1 n ty (set_cl s c l)) (parse_expression_list ef2 n ty s).
  Proof. unfold parse_expression_list. cbv zeta. sim. Qed.
  Hint Resolve parse_expression_list_sim : sim.

  Lemma object_loop_sim : forall k acc s c l,
    simr c (object_loop ef1 k acc (set_cl s c l)) (object_loop ef2 k acc s).
  Proof.
    induction k as [|k IH]; intros acc s c l; cbn [object_loop]; [reflexivity|].
    cbv zeta. sim; autorewrite with scl; apply IH.
  Qed.
  Hint Resolve object_loop_sim : sim.

  Lemma parse_object_literal_sim s c l :
    simr c (parse_object_literal ef1 n (set_cl s c l)) (parse_object_literal ef2 n s).
  Proof.
    unfold parse_object_literal. cbv zeta. autorewrite with scl.
    destruct (peek_is s T_RBRACE); [sim|].
    sim_bind; [|reflexivity].
    match goal with o : option _ |- _ => destruct o end; sim.
  Qed.
  Hint Resolve parse_object_literal_sim : sim.

  Lemma parse_function_expression_sim s c l :
    simr c (parse_function_expression cfg sf1 n (set_cl s c l)) (parse_function_expression cfg sf2 n s).
  Proof. unfold parse_function_expression. cbv zeta. sim. Qed.
  Hint Resolve parse_function_expression_sim : sim.

  Lemma parse_grouped_expression_sim s c l :
    simr c (parse_grouped_expression ef1 (set_cl s c l)) (parse_grouped_expression ef2 s).
  Proof. unfold parse_grouped_expression. cbv zeta. sim. Qed.
  Hint Resolve parse_grouped_expression_sim : sim.

  Lemma parse_unary_expression_sim s c l :
    simr c (parse_unary_expression ef1 (set_cl s c l)) (parse_unary_expression ef2 s).
  Proof. unfold parse_unary_expression. cbv zeta. sim. Qed.
  Hint Resolve parse_unary_expression_sim : sim.

  Lemma prefix_handler_run_sim h s c l :
    simr c (prefix_handler_run cfg sf1 ef1 n h (set_cl s c l)) (prefix_handler_run cfg sf2 ef2 n h s).
  Proof.
    unfold prefix_handler_run. cbv zeta.
    destruct h; try solve [eauto 2 with sim nocore]; sim.
  Qed.
  Hint Resolve prefix_handler_run_sim : sim.

  Lemma parse_prefix_expression_sim s c l :
    simr c (parse_prefix_expression cfg sf1 ef1 n (set_cl s c l)) (parse_prefix_expression cfg sf2 ef2 n s).
  Proof.
    unfold parse_prefix_expression. cbv zeta. autorewrite with scl.
    destruct (memZ (t_type (ps_cur s)) (c_prefix_ops cfg)); [eauto 2 with sim nocore|].
    destruct (assoc_opt prefix_table (t_type (ps_cur s))); [eauto 2 with sim nocore|sim].
  Qed.
  Hint Resolve parse_prefix_expression_sim : sim.

  Lemma parse_binary_expression_sim e s c l :
    simr c (parse_binary_expression cfg ef1 e (set_cl s c l)) (parse_binary_expression cfg ef2 e s).
  Proof. unfold parse_binary_expression. cbv zeta. rewrite current_precedence_scl. sim. Qed.
  Hint Resolve parse_binary_expression_sim : sim.

  Lemma infix_handler_run_sim h e s c l :
    simr c (infix_handler_run cfg ef1 n h e (set_cl s c l)) (infix_handler_run cfg ef2 n h e s).
  Proof.
    unfold infix_handler_run. cbv zeta.
    destruct h; try solve [eauto 2 with sim nocore]; sim.
  Qed.
  Hint Resolve infix_handler_run_sim : sim.

  Lemma parse_infix_expression_sim e s c l :
    simr c (parse_infix_expression cfg ef1 n e (set_cl s c l)) (parse_infix_expression cfg ef2 n e s).
  Proof.
    unfold parse_infix_expression. cbv zeta. autorewrite with scl.
    destruct (infix_lookup cfg (t_type (ps_peek s))) as [[| |h]|];
      try solve [eauto 2 with sim nocore]; sim.
  Qed.
  Hint Resolve parse_infix_expression_sim : sim.

  Lemma remaining_loop_sim : forall k e p s c l,
    simr c (remaining_loop cfg ef1 n k e p (set_cl s c l)) (remaining_loop cfg ef2 n k e p s).
  Proof.
    induction k as [|k IH]; intros e p s c l; cbn [remaining_loop]; [reflexivity|].
    rewrite peek_precedence_scl. autorewrite with scl.
    destruct (negb (peek_is s T_SEMICOLON) && (p <? peek_precedence cfg s)); [|sim].
    destruct (t_nl (ps_peek s) && (peek_is s T_INCREMENT || peek_is s T_DECREMENT)); [sim|].
    destruct (c_smart cfg && t_nl (ps_peek s) && (peek_is s T_LPAREN || peek_is s T_LBRACKET)); [sim|].
    sim_bind; [|reflexivity]. apply IH.
  Qed.
  Hint Resolve remaining_loop_sim : sim.

  Lemma parse_remaining_sim e p s c l :
    simr c (parse_remaining_with_precedence cfg ef1 n e p (set_cl s c l))
           (parse_remaining_with_precedence cfg ef2 n e p s).
  Proof. unfold parse_remaining_with_precedence. apply remaining_loop_sim. Qed.
  Hint Resolve parse_remaining_sim : sim.

  Lemma base_parse_expression_sim p s c l :
    simr c (base_parse_expression cfg sf1 ef1 n p (set_cl s c l)) (base_parse_expression cfg sf2 ef2 n p s).
  Proof.
    unfold base_parse_expression. sim_bind; [|reflexivity]. apply parse_remaining_sim.
  Qed.

  (* the statement chain only appends to the log *)
  Lemma run_stmt_chain_sim : forall ics s c l,
    simr c (run_stmt_chain cfg sf1 ef1 n ics (set_cl s c l)) (base_parse_statement cfg sf2 ef2 n s).
  Proof.
    induction ics as [|ic ics IH]; intros s c l; cbn [run_stmt_chain].
    - apply base_parse_statement_sim.
    - destruct ic; [apply IH|]. rewrite log_event_scl. apply IH.
  Qed.

  (* every expression wrapper sets the register to the binding power it was called
     with and restores it; the re-entrant one reads it back *)
  Lemma run_expr_chain_sim : forall ics p s c l,
    simr c (run_expr_chain cfg sf1 ef1 n ics p (set_cl s c l)) (base_parse_expression cfg sf2 ef2 n p s).
  Proof.
    induction ics as [|ic ics IH]; intros p s c l; cbn [run_expr_chain].
    - apply base_parse_expression_sim.
    - cbv zeta. rewrite cep_scl, set_cep_scl. destruct ic as [|id|].
      + pose proof (IH p s p l) as H.
        destruct (base_parse_expression cfg sf2 ef2 n p s) as [[r t]|]; cbn [simr] in H |- *.
        * destruct H as [l' H]. rewrite H. rewrite set_cep_scl. eexists; reflexivity.
        * rewrite H. reflexivity.
      + rewrite log_event_scl.
        pose proof (IH p s p (l ++ [mkev id 1 (ps_cur s) (current_context s) (is_in_function s)])) as H.
        destruct (base_parse_expression cfg sf2 ef2 n p s) as [[r t]|]; cbn [simr] in H |- *.
        * destruct H as [l' H]. rewrite H. rewrite set_cep_scl. eexists; reflexivity.
        * rewrite H. reflexivity.
      + unfold base_parse_expression.
        pose proof (parse_prefix_expression_sim s p l) as H.
        destruct (parse_prefix_expression cfg sf2 ef2 n s) as [[e t]|]; cbn [simr] in H.
        * destruct H as [l' H]. rewrite H. cbv beta iota. rewrite cep_scl.
          pose proof (parse_remaining_sim e p t p l') as H2.
          destruct (parse_remaining_with_precedence cfg ef2 n e p t) as [[r t2]|]; cbn [simr] in H2 |- *.
          -- destruct H2 as [l2 H2]. rewrite H2. rewrite set_cep_scl. eexists; reflexivity.
          -- rewrite H2. reflexivity.
        * rewrite H. reflexivity.
  Qed.
End Sim.

(* ------------------------------------------------------------------ *)
(* 4. closing the recursion                                            *)
(* ------------------------------------------------------------------ *)

Lemma base_stmt_strip cfg sf ef n s :
  base_parse_statement (strip_ics cfg) sf ef n s = base_parse_statement cfg sf ef n s.
Proof. reflexivity. Qed.

Lemma base_expr_strip cfg sf ef n p s :
  base_parse_expression (strip_ics cfg) sf ef n p s = base_parse_expression cfg sf ef n p s.
Proof. reflexivity. Qed.

Lemma fn_sim cfg : forall fuel,
  (forall s c l, simr c (stmt_fn cfg fuel (set_cl s c l)) (stmt_fn (strip_ics cfg) fuel s)) /\
  (forall p s c l, simr c (expr_fn cfg fuel p (set_cl s c l)) (expr_fn (strip_ics cfg) fuel p s)).
Proof.
  induction fuel as [|f [IHs IHe]]; (split; [intros s c l | intros p s c l]);
    cbn [stmt_fn expr_fn]; try reflexivity.
  - change (c_stmt_ics (strip_ics cfg)) with (@nil stmt_ic). cbn [run_stmt_chain].
    rewrite base_stmt_strip. apply run_stmt_chain_sim; assumption.
  - change (c_expr_ics (strip_ics cfg)) with (@nil expr_ic). cbn [run_expr_chain].
    rewrite base_expr_strip. apply run_expr_chain_sim; assumption.
Qed.

Lemma stmt_fn_cep_balanced : forall cfg fuel s r s',
  stmt_fn cfg fuel s = Some (r, s') -> ps_cep s' = ps_cep s.
Proof.
  intros cfg fuel s r s' H.
  pose proof (proj1 (fn_sim cfg fuel) s (ps_cep s) (ps_log s)) as S.
  rewrite <- scl_eta, H in S. unfold simr in S.
  destruct (stmt_fn (strip_ics cfg) fuel s) as [[r2 t]|]; [|discriminate S].
  destruct S as [l' S]. inversion S; subst. reflexivity.
Qed.

Lemma expr_fn_cep_balanced : forall cfg fuel prec s r s',
  expr_fn cfg fuel prec s = Some (r, s') -> ps_cep s' = ps_cep s.
Proof.
  intros cfg fuel prec s r s' H.
  pose proof (proj2 (fn_sim cfg fuel) prec s (ps_cep s) (ps_log s)) as S.
  rewrite <- scl_eta, H in S. unfold simr in S.
  destruct (expr_fn (strip_ics cfg) fuel prec s) as [[r2 t]|]; [|discriminate S].
  destruct S as [l' S]. inversion S; subst. reflexivity.
Qed.

Lemma program_loop_sim cfg fuel : forall k acc s c l,
  simr c (program_loop cfg fuel k acc (set_cl s c l)) (program_loop (strip_ics cfg) fuel k acc s).
Proof.
  induction k as [|k IH]; intros acc s c l; cbn [program_loop]; [reflexivity|].
  rewrite cur_is_scl. destruct (negb (cur_is s T_EOF)); [|cbn [simr]; eexists; reflexivity].
  pose proof (proj1 (fn_sim cfg fuel) s c l) as H.
  destruct (stmt_fn (strip_ics cfg) fuel s) as [[st t]|]; cbn [simr] in H.
  - destruct H as [l' H]. rewrite H. rewrite next_scl. apply IH.
  - rewrite H. reflexivity.
Qed.

Lemma interceptors_transparent : forall cfg toks,
  option_map core_of_result (parse_tokens cfg toks)
  = option_map core_of_result (parse_tokens (strip_ics cfg) toks).
Proof.
  intros cfg toks. unfold parse_tokens. cbv zeta.
  set (s0 := ps_init toks (eof_again (last toks zero_token))).
  set (fuel := parse_fuel toks).
  unfold parse_program_from.
  pose proof (program_loop_sim cfg fuel fuel [] s0 (ps_cep s0) (ps_log s0)) as H.
  rewrite <- scl_eta in H.
  destruct (program_loop (strip_ics cfg) fuel fuel [] s0) as [[stmts t]|]; cbn [simr] in H.
  - destruct H as [l' H]. rewrite H. reflexivity.
  - rewrite H. reflexivity.
Qed.

(* ------------------------------------------------------------------ *)
(* 5. order of the statement probes                                    *)
(* ------------------------------------------------------------------ *)

Lemma with_log_nil s : with_log s [] = s.
Proof. destruct s. unfold with_log. cbn. rewrite app_nil_r. reflexivity. Qed.

Lemma with_log_log_event s i k evs :
  with_log (log_event s i k) evs
  = with_log s (mkev i k (ps_cur s) (current_context s) (is_in_function s) :: evs).
Proof.
  unfold with_log, log_event. cbn [ps_cur ps_peek ps_rest ps_eof ps_errors ps_ctx ps_cep ps_log].
  rewrite <- app_assoc. reflexivity.
Qed.

Lemma run_stmt_chain_order cfg sf ef n : forall ics s,
  run_stmt_chain cfg sf ef n ics s =
  base_parse_statement cfg sf ef n
    (with_log s (map (fun id => mkev id 0 (ps_cur s) (current_context s) (is_in_function s))
                     (stmt_probe_ids ics))).
Proof.
  induction ics as [|ic ics IH]; intro s; cbn [run_stmt_chain].
  - cbn [stmt_probe_ids flat_map map]. rewrite with_log_nil. reflexivity.
  - destruct ic as [|id].
    + rewrite IH. reflexivity.
    + rewrite IH. rewrite with_log_log_event. reflexivity.
Qed.

Lemma stmt_chain_order : forall cfg f s,
  stmt_fn cfg (S f) s =
  base_parse_statement cfg (stmt_fn cfg f) (expr_fn cfg f) f
    (with_log s (map (fun id => mkev id 0 (ps_cur s) (current_context s) (is_in_function s))
                     (stmt_probe_ids (c_stmt_ics cfg)))).
Proof. intros cfg f s. cbn [stmt_fn]. apply run_stmt_chain_order. Qed.

(* ------------------------------------------------------------------ *)
(* 6. token interceptors                                               *)
(* ------------------------------------------------------------------ *)

Lemma tok_ics_transparent : forall tics t,
  forallb (fun ic => negb (is_retag ic)) tics = true -> apply_tok_ics tics t = t.
Proof.
  unfold apply_tok_ics.
  induction tics as [|ic tics IH]; intros t H; cbn [fold_left]; [reflexivity|].
  cbn [forallb] in H. apply andb_true_iff in H as [H1 H2].
  destruct ic; cbn [retag_one]; try (apply IH; exact H2).
  discriminate H1.
Qed.

Lemma base_token_starts_at_cursor : forall l,
  let l1 := read_leading_comments l in
  t_start (fst (base_next_token l1)) = cur_pos l1.
Proof.
  intro l. cbv zeta. generalize (read_leading_comments l). intro l1.
  destruct (at_eof l1) eqn:E.
  - rewrite (base_next_token_eof l1 E). reflexivity.
  - destruct (base_next_token_P l1 E) as (x & _ & _ & _ & St & _). exact St.
Qed.
