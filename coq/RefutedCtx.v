(* RefutedCtx.v -- recorded findings as theorems about the model: where a clause of a property is
   FALSE of the faithful model, a concrete witness is exhibited and checked by evaluation inside
   the kernel ([vm_compute]).  The same witnesses, replayed on the implementation, are entries
   of known_findings.json (the direct oracles replay them on every run).  Each statement is the
   negation of the corresponding property theorem with the excluding hypothesis dropped, so
   the hypotheses of the positive theorems are necessary. *)
Require Import Base Token Lexer Tree Parser Grammar NestSpec RefutedBase.
Require Import Gen.Tables.
From Coq Require Import String Ascii.

(* ---- KF8: a token directly inside a function body is answered Block, not Function ---- *)
Definition kf8_src : str := bs "function f(){let x=1}".

Lemma kf8_function_body_context_refuted :
  exists src toks p r ev,
    tokenize src = Some toks /\ m_program p toks = true /\ wf_program p = true /\
    parse_tokens (cfg_with [SI_Probe 7] []) toks = Some r /\ pr_program r = p /\
    In ev (ps_log (pr_final r)) /\ t_type (ev_tok ev) = T_LET /\
    ev_infn ev = true /\ ev_ctx ev = P_BlockContext /\ ev_ctx ev <> P_FunctionContext.
Proof.
  exists kf8_src, (toks_of kf8_src), (tree_of kf8_src).
  eexists. eexists.
  repeat (split; [vm_compute; reflexivity|]).
  split; [vm_compute; right; left; reflexivity|].
  repeat (split; [vm_compute; reflexivity|]). vm_compute. discriminate.
Qed.

