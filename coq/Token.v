(* Token.v -- token.Token *)
Require Import Base.

Record token := mktoken {
  t_type : Z;              (* token.Type *)
  t_lit : str;             (* Literal *)
  t_start : pos;
  t_end : pos;
  t_nl : bool;             (* AfterNewline *)
  t_comments : list str    (* LeadingComments: "" per blank line break, text per // comment *)
}.

(* what a grammar can see of a token *)
Record tcore := mkcore { c_type : Z; c_lit : str; c_nl : bool }.
Definition core_of (t : token) : tcore := mkcore (t_type t) (t_lit t) (t_nl t).
