(* SegProofs.v -- proof of C08 (segment clause, SegSpec.v): every recorded source map
   segment points from a generated position where the code spells a token to the source
   position where that token starts; every identifier token is covered by a named segment. *)
Require Import Base GoOps Token Lexer Tree SourceMap Writer PrinterLib Compile Parser Grammar
  WriterSpec TokenSpec SegSpec.
Require Import Gen.Tables Gen.Preds Gen.Printer.
Require Import SourceMapProofs LexerProofs ContractProofs WriterProofs StringProofs PrintProofs GrammarProofs
  CodeProofs TokenProofs C01Proofs.
From Coq Require Import ZifyBool ZifyN ZifyNat Lia.

(* ------------------------------------------------------------------ *)
(* 1. texts and positions                                              *)
(* ------------------------------------------------------------------ *)

Lemma is_prefix_app_l a : forall b, is_prefix a (a ++ b) = true.
Proof.
  induction a as [|x a IH]; intro b; cbn [is_prefix app]; [reflexivity|].
  rewrite N.eqb_refl, IH. reflexivity.
Qed.

Lemma is_prefix_ex a b : (exists r, b = a ++ r) -> is_prefix a b = true.
Proof. intros [r ->]. apply is_prefix_app_l. Qed.

Lemma is_prefix_inv a : forall b, is_prefix a b = true -> exists r, b = a ++ r.
Proof.
  induction a as [|x a IH]; intros b H; [exists b; reflexivity|].
  destruct b as [|y b]; cbn [is_prefix] in H; [discriminate|].
  apply andb_true_iff in H as [H1 H2]. apply N.eqb_eq in H1. subst y.
  destruct (IH b H2) as [r ->]. exists r. reflexivity.
Qed.

Lemma is_prefix_app a b c : is_prefix a b = true -> is_prefix a (b ++ c) = true.
Proof.
  intro H. apply is_prefix_inv in H as [r ->]. rewrite <- app_assoc. apply is_prefix_app_l.
Qed.

Lemma pos_after_nonneg s : forall p, 0 <= pline p -> 0 <= pcol p ->
  0 <= pline (pos_after p s) /\ 0 <= pcol (pos_after p s).
Proof.
  induction s as [|c s IH]; intros p H1 H2; cbn [pos_after]; [split; assumption|].
  apply IH; destruct (N.eqb c LF); cbn [pline pcol]; lia.
Qed.

Lemma pos_after_shift s : forall l c,
  pos_after (mkpos l c) s =
  mkpos (l + pline (pos_after (mkpos 0 0) s))
        (if pline (pos_after (mkpos 0 0) s) =? 0 then c + pcol (pos_after (mkpos 0 0) s)
         else pcol (pos_after (mkpos 0 0) s)).
Proof.
  induction s as [|x s IH]; intros l c; cbn [pos_after pline pcol].
  - cbn. f_equal; lia.
  - pose proof (pos_after_nonneg s (mkpos 0 0)) as Hnn. cbn [pline pcol] in Hnn.
    destruct Hnn as [Hl Hc]; [lia|lia|].
    destruct (N.eqb x LF).
    + rewrite (IH (l + 1) 0), (IH (0 + 1) 0). cbn [pline pcol].
      set (ql := pline (pos_after (mkpos 0 0) s)) in *.
      set (qc := pcol (pos_after (mkpos 0 0) s)) in *.
      destruct (Z.eqb_spec (0 + 1 + ql) 0) as [E|E]; [lia|].
      f_equal. lia.
    + rewrite (IH l (c + 1)), (IH 0 (0 + 1)). cbn [pline pcol].
      set (ql := pline (pos_after (mkpos 0 0) s)) in *.
      set (qc := pcol (pos_after (mkpos 0 0) s)) in *.
      replace (0 + ql) with ql by lia.
      destruct (ql =? 0); f_equal; lia.
Qed.

Lemma suffix_at_cons c s l k :
  suffix_at (c :: s) l k =
  if (l =? 0) && (k =? 0) then Some (c :: s) else
  if l =? 0 then (if N.eqb c LF then None else suffix_at s 0 (k - 1))
  else if N.eqb c LF then suffix_at s (l - 1) k else suffix_at s l k.
Proof. reflexivity. Qed.

Lemma suffix_at_zero s : suffix_at s 0 0 = Some s.
Proof. destruct s; reflexivity. Qed.

(* the text that starts at the position reached after [a] is what follows [a] *)
Lemma suffix_at_after a : forall b,
  suffix_at (a ++ b) (pline (pos_after (mkpos 0 0) a)) (pcol (pos_after (mkpos 0 0) a)) = Some b.
Proof.
  induction a as [|x a IH]; intro b.
  - cbn [app pos_after pline pcol]. apply suffix_at_zero.
  - pose proof (pos_after_nonneg a (mkpos 0 0)) as Hnn. cbn [pline pcol] in Hnn.
    destruct Hnn as [Hl Hc]; [lia|lia|].
    specialize (IH b).
    cbn [app pos_after pline pcol]. rewrite suffix_at_cons.
    destruct (N.eqb x LF) eqn:EL.
    + rewrite (pos_after_shift a (0 + 1) 0). cbn [pline pcol].
      set (ql := pline (pos_after (mkpos 0 0) a)) in *.
      set (qc := pcol (pos_after (mkpos 0 0) a)) in *.
      destruct (Z.eqb_spec (0 + 1 + ql) 0) as [E|E]; [lia|]. cbn [andb].
      replace (0 + 1 + ql - 1) with ql by lia.
      replace (if ql =? 0 then 0 + qc else qc) with qc by (destruct (ql =? 0); lia).
      exact IH.
    + rewrite (pos_after_shift a 0 (0 + 1)). cbn [pline pcol].
      set (ql := pline (pos_after (mkpos 0 0) a)) in *.
      set (qc := pcol (pos_after (mkpos 0 0) a)) in *.
      replace (0 + ql) with ql by lia.
      destruct (Z.eqb_spec ql 0) as [E|E].
      * destruct (Z.eqb_spec (0 + 1 + qc) 0) as [E2|E2]; [lia|]. cbn [andb].
        replace (0 + 1 + qc - 1) with qc by lia. rewrite E in IH. exact IH.
      * cbn [andb]. exact IH.
Qed.

(* ------------------------------------------------------------------ *)
(* 2. the writer: what a recorded mapping points at                    *)
(* ------------------------------------------------------------------ *)

(* the text of the string / rune operations that directly follow *)
Fixpoint lead_text (ops : list wop) : str :=
  match ops with
  | WString s :: r => s ++ lead_text r
  | WRune c :: r => c :: lead_text r
  | _ => []
  end.

Lemma lead_text_app a b : exists r, lead_text (a ++ b) = lead_text a ++ r.
Proof.
  induction a as [|o a [r IH]]; [exists (lead_text b); reflexivity|].
  destruct o; cbn [app lead_text]; try (eexists; reflexivity).
  - exists r. rewrite IH, app_assoc. reflexivity.
  - exists r. rewrite IH. reflexivity.
Qed.

(* buffer, names and mappings are append-only *)
Definition mgrow (a b : mapper) : Prop :=
  (exists r, sm_names b = sm_names a ++ r) /\ (exists r, sm_maps b = sm_maps a ++ r).

Definition grow (a b : wstate) : Prop :=
  (exists r, w_buf b = w_buf a ++ r) /\ mgrow (w_mapper a) (w_mapper b).

Lemma mgrow_refl a : mgrow a a.
Proof. split; exists []; rewrite app_nil_r; reflexivity. Qed.

Lemma mgrow_trans a b c : mgrow a b -> mgrow b c -> mgrow a c.
Proof.
  intros ([r1 H1] & [r2 H2]) ([s1 G1] & [s2 G2]). split.
  - exists (r1 ++ s1). rewrite G1, H1, app_assoc. reflexivity.
  - exists (r2 ++ s2). rewrite G2, H2, app_assoc. reflexivity.
Qed.

Lemma grow_refl a : grow a a.
Proof. split; [exists []; rewrite app_nil_r; reflexivity|apply mgrow_refl]. Qed.

Lemma grow_trans a b c : grow a b -> grow b c -> grow a c.
Proof.
  intros ([r1 H1] & H2) ([s1 G1] & G2). split.
  - exists (r1 ++ s1). rewrite G1, H1, app_assoc. reflexivity.
  - eapply mgrow_trans; eassumption.
Qed.

Lemma grow_eq a b b' : w_buf b = w_buf b' -> w_mapper b = w_mapper b' -> grow a b' -> grow a b.
Proof. unfold grow. intros -> ->. tauto. Qed.

Lemma mgrow_same a b : sm_names b = sm_names a -> sm_maps b = sm_maps a -> mgrow a b.
Proof. intros H1 H2. split; exists []; rewrite app_nil_r; assumption. Qed.

Lemma mgrow_step m o : mgrow m (mapper_step m o).
Proof.
  destruct o as [sl sc|sl sc name|n|s|]; cbn [mapper_step].
  - split; [exists []; rewrite app_nil_r; reflexivity|eexists; reflexivity].
  - destruct (index_of name (sm_names m) 0); cbn [sm_names sm_maps];
      (split; [|eexists; reflexivity]); [exists []; rewrite app_nil_r; reflexivity|eexists; reflexivity].
  - apply mgrow_same; reflexivity.
  - destruct (advance_str s false (sm_line m) (sm_col m)). apply mgrow_same; reflexivity.
  - apply mgrow_same; reflexivity.
Qed.

Section Writer.
  Variable cfg : wcfg.

  Lemma grow_write_raw st s : grow st (write_raw cfg st s).
  Proof.
    split; [exists s; reflexivity|]. unfold write_raw, map_adv_string. cbn [w_mapper].
    destruct (w_map cfg); [apply mgrow_step|apply mgrow_refl].
  Qed.

  Lemma grow_write_indent st : grow st (write_indent cfg st).
  Proof. apply grow_write_raw. Qed.

  Lemma grow_flush_fold : forall q st,
    grow st (fold_left (fun s c => if N.eqb c TAB then write_indent cfg s else write_raw cfg s [c]) q st).
  Proof.
    induction q as [|c q IH]; intro st; cbn [fold_left]; [apply grow_refl|].
    eapply grow_trans; [|apply IH].
    destruct (N.eqb c TAB); [apply grow_write_indent|apply grow_write_raw].
  Qed.

  Lemma grow_flush_pending st : grow st (flush_pending cfg st).
  Proof. unfold flush_pending. eapply grow_eq; [| |apply (grow_flush_fold (w_pend st) st)]; reflexivity. Qed.

  Lemma grow_write_rune st c : grow st (write_rune cfg st c).
  Proof.
    eapply grow_trans; [apply grow_flush_pending|]. unfold write_rune.
    split; cbn [w_buf w_mapper]; [eexists; reflexivity|].
    destruct (w_map cfg); [|apply mgrow_refl]. destruct (N.eqb c LF); apply mgrow_step.
  Qed.

  Lemma grow_write_string st s : grow st (write_string cfg st s).
  Proof. eapply grow_trans; [apply grow_flush_pending|apply grow_write_raw]. Qed.

  Lemma grow_comment_items : forall cs st first, grow st (write_comment_items cfg st first cs).
  Proof.
    induction cs as [|c cs IH]; intros st first; cbn [write_comment_items]; [apply grow_refl|].
    eapply grow_trans; [|apply IH]. eapply grow_trans; [|apply grow_write_raw].
    assert (H1 : grow st (if first then match c with [] => st | _ :: _ => write_raw cfg st [32%N] end
                          else write_indent cfg (write_raw cfg st [LF]))).
    { destruct first.
      - destruct c; [apply grow_refl|apply grow_write_raw].
      - eapply grow_trans; [apply grow_write_raw|apply grow_write_indent]. }
    destruct c as [|x c].
    - destruct first; exact H1.
    - eapply grow_trans; [|apply grow_write_raw]. destruct first; exact H1.
  Qed.

  Lemma grow_wstep st o : grow st (wstep cfg st o).
  Proof.
    assert (Hsame : forall b, w_buf b = w_buf st -> w_mapper b = w_mapper st -> grow st b).
    { intros b H1 H2. eapply grow_eq; [exact H1|exact H2|apply grow_refl]. }
    unfold wstep. destruct (w_panic st); [apply grow_refl|].
    destruct o.
    - apply grow_write_string.
    - apply grow_write_rune.
    - destruct (negb (w_pretty cfg)); [apply grow_write_rune|].
      destruct (w_semis cfg); [apply grow_write_rune|apply grow_refl].
    - destruct (negb (w_pretty cfg)); [apply grow_refl|].
      destruct (last_is (w_pend st) 32); apply Hsame; reflexivity.
    - destruct (negb (w_pretty cfg)); apply Hsame; reflexivity.
    - destruct (negb (w_pretty cfg)); [apply grow_refl|].
      destruct (last_is (w_pend st) TAB); apply Hsame; reflexivity.
    - destruct (negb (w_pretty cfg)); apply Hsame; reflexivity.
    - destruct (negb (w_pretty cfg)); [apply grow_refl|]. destruct (0 <? w_level st); apply Hsame; reflexivity.
    - destruct (negb (w_pretty cfg)); [apply grow_refl|]. destruct cs as [|c cs]; [apply grow_refl|].
      eapply grow_eq; [| |apply (grow_comment_items (c :: cs) st true)]; reflexivity.
    - eapply grow_trans; [apply grow_flush_pending|].
      destruct (w_map cfg); [|apply grow_refl].
      split; cbn [w_buf w_mapper]; [exists []; rewrite app_nil_r; reflexivity|apply mgrow_step].
    - eapply grow_trans; [apply grow_flush_pending|].
      destruct (w_map cfg); [|apply grow_refl].
      split; cbn [w_buf w_mapper]; [exists []; rewrite app_nil_r; reflexivity|apply mgrow_step].
    - eapply grow_trans; [apply grow_flush_pending|].
      destruct op as [|c op]; [apply grow_refl|].
      destruct (rev (w_buf (flush_pending cfg st))); [apply grow_refl|].
      match goal with |- grow _ (if ?c then _ else _) => destruct c end; [|apply grow_refl].
      apply grow_write_rune.
    - apply Hsame; reflexivity.
  Qed.

  Lemma grow_fold : forall ops st, grow st (fold_left (wstep cfg) ops st).
  Proof.
    induction ops as [|o ops IH]; intro st; cbn [fold_left]; [apply grow_refl|].
    eapply grow_trans; [apply grow_wstep|apply IH].
  Qed.

  (* with nothing pending, strings and runes go to the buffer as they are *)
  Lemma flush_nothing st : w_pend st = [] -> w_buf (flush_pending cfg st) = w_buf st /\
    w_panic (flush_pending cfg st) = w_panic st.
  Proof. intro H. unfold flush_pending. rewrite H. cbn [fold_left w_buf w_panic]. split; reflexivity. Qed.

  Lemma lead_run : forall ops st, w_pend st = [] -> w_panic st = false ->
    exists rest, w_buf (fold_left (wstep cfg) ops st) = w_buf st ++ lead_text ops ++ rest.
  Proof.
    induction ops as [|o ops IH]; intros st Hp Hn.
    - exists []. cbn [fold_left lead_text app]. rewrite app_nil_r. reflexivity.
    - cbn [fold_left].
      assert (Hdef : exists rest, w_buf (fold_left (wstep cfg) ops (wstep cfg st o)) = w_buf st ++ rest).
      { destruct (grow_trans _ _ _ (grow_wstep st o) (grow_fold ops (wstep cfg st o))) as [[r Hr] _].
        exists r. exact Hr. }
      destruct o; cbn [lead_text app]; try exact Hdef.
      + (* WString *)
        destruct (flush_nothing st Hp) as [Hb Hq].
        destruct (IH (wstep cfg st (WString s))) as [rest Hr].
        * unfold wstep. rewrite Hn. reflexivity.
        * unfold wstep. rewrite Hn. unfold write_string, write_raw. cbn [w_panic]. congruence.
        * exists rest. rewrite Hr. unfold wstep. rewrite Hn. unfold write_string, write_raw.
          cbn [w_buf]. rewrite Hb, <- !app_assoc. reflexivity.
      + (* WRune *)
        destruct (flush_nothing st Hp) as [Hb Hq].
        destruct (IH (wstep cfg st (WRune c))) as [rest Hr].
        * unfold wstep. rewrite Hn. reflexivity.
        * unfold wstep. rewrite Hn. unfold write_rune. cbn [w_panic]. congruence.
        * exists rest. rewrite Hr. unfold wstep. rewrite Hn. unfold write_rune.
          cbn [w_buf]. rewrite Hb, <- !app_assoc. reflexivity.
  Qed.

  Hypothesis Hmap : w_map cfg = true.
  Hypothesis Hind : no_cr (w_indent cfg).

  (* operations other than the two mapping operations record nothing *)
  Definition is_map_op (o : wop) : bool :=
    match o with WMapping _ | WNamedMapping _ _ _ => true | _ => false end.

  Lemma maps_write_rune st c : sm_maps (w_mapper (write_rune cfg st c)) = sm_maps (w_mapper st).
  Proof.
    unfold write_rune. cbn [w_mapper]. rewrite <- (maps_flush_pending cfg Hmap st).
    destruct (w_map cfg); [|reflexivity]. destruct (N.eqb c LF); reflexivity.
  Qed.

  Lemma maps_write_string st s : sm_maps (w_mapper (write_string cfg st s)) = sm_maps (w_mapper st).
  Proof. unfold write_string. rewrite (maps_write_raw cfg Hmap). apply (maps_flush_pending cfg Hmap). Qed.

  Lemma maps_comment_items : forall cs st first,
    sm_maps (w_mapper (write_comment_items cfg st first cs)) = sm_maps (w_mapper st).
  Proof.
    induction cs as [|c cs IH]; intros st first; cbn [write_comment_items]; [reflexivity|].
    rewrite IH, (maps_write_raw cfg Hmap).
    assert (H1 : sm_maps (w_mapper (if first then match c with [] => st | _ :: _ => write_raw cfg st [32%N] end
                          else write_indent cfg (write_raw cfg st [LF]))) = sm_maps (w_mapper st)).
    { destruct first.
      - destruct c; [reflexivity|apply (maps_write_raw cfg Hmap)].
      - rewrite (maps_write_indent cfg Hmap). apply (maps_write_raw cfg Hmap). }
    destruct c as [|x c].
    - destruct first; exact H1.
    - rewrite (maps_write_raw cfg Hmap). destruct first; exact H1.
  Qed.

  Lemma maps_wstep_other st o : is_map_op o = false ->
    sm_maps (w_mapper (wstep cfg st o)) = sm_maps (w_mapper st).
  Proof.
    intro Ho. unfold wstep. destruct (w_panic st); [reflexivity|].
    destruct o; try discriminate Ho.
    - apply maps_write_string.
    - apply maps_write_rune.
    - destruct (negb (w_pretty cfg)); [apply maps_write_rune|].
      destruct (w_semis cfg); [apply maps_write_rune|reflexivity].
    - destruct (negb (w_pretty cfg)); [reflexivity|].
      destruct (last_is (w_pend st) 32); reflexivity.
    - destruct (negb (w_pretty cfg)); reflexivity.
    - destruct (negb (w_pretty cfg)); [reflexivity|].
      destruct (last_is (w_pend st) TAB); reflexivity.
    - destruct (negb (w_pretty cfg)); reflexivity.
    - destruct (negb (w_pretty cfg)); [reflexivity|]. destruct (0 <? w_level st); reflexivity.
    - destruct (negb (w_pretty cfg)); [reflexivity|]. destruct cs as [|c cs]; [reflexivity|].
      unfold set_pend. cbn [w_mapper]. apply maps_comment_items.
    - destruct op as [|c op]; [apply (maps_flush_pending cfg Hmap)|].
      destruct (rev (w_buf (flush_pending cfg st))); [apply (maps_flush_pending cfg Hmap)|].
      match goal with |- context [if ?c then _ else _] => destruct c end; [|apply (maps_flush_pending cfg Hmap)].
      rewrite maps_write_rune. apply (maps_flush_pending cfg Hmap).
    - reflexivity.
  Qed.

  (* what a mapping recorded by operation [o] looks like *)
  Definition op_rec (names : list str) (o : wop) (m : mapping) : Prop :=
    match o with
    | WMapping p => m_sl m = pline p /\ m_sc m = pcol p /\ m_has m = false
    | WNamedMapping l c name =>
        m_sl m = l /\ m_sc m = c /\ m_has m = true /\
        nth_error names (Z.to_nat (m_ni m)) = Some name
    | _ => False
    end.

  Lemma op_rec_names names r o m : op_rec names o m -> op_rec (names ++ r) o m.
  Proof.
    destruct o; cbn [op_rec]; auto.
    intros (H1 & H2 & H3 & H4). repeat split; auto.
    rewrite nth_error_app1; [exact H4|]. apply nth_error_Some. congruence.
  Qed.

  Lemma step_record st o : good st -> w_panic st = false -> is_map_op o = true ->
    let st1 := wstep cfg st o in
    w_pend st1 = [] /\ w_panic st1 = false /\
    exists m0, sm_maps (w_mapper st1) = sm_maps (w_mapper st) ++ [m0] /\
               gen_pos m0 = pos_after (mkpos 0 0) (w_buf st1) /\
               op_rec (sm_names (w_mapper st1)) o m0.
  Proof.
    intros Hg Hn Ho st1. subst st1.
    pose proof (good_flush_pending cfg Hmap Hind st Hg) as (H1 & _ & _).
    assert (Hfp : w_panic (flush_pending cfg st) = false).
    { unfold flush_pending. cbn [w_panic].
      generalize (w_pend st). clear - Hn. intro q. revert st Hn.
      induction q as [|c q IH]; intros st Hn; cbn [fold_left]; [exact Hn|].
      apply IH. destruct (N.eqb c TAB); exact Hn. }
    destruct o; try discriminate Ho; unfold wstep; rewrite Hn, Hmap.
    - cbn [w_pend w_panic w_buf w_mapper mapper_step sm_maps sm_names].
      split; [reflexivity|]. split; [exact Hfp|].
      rewrite (maps_flush_pending cfg Hmap st).
      eexists. split; [reflexivity|]. split; [exact H1|].
      cbn [op_rec m_sl m_sc m_has]. repeat split.
    - cbn [w_pend w_panic w_buf w_mapper].
      split; [reflexivity|]. split; [exact Hfp|].
      cbn [mapper_step].
      destruct (index_of name (sm_names (w_mapper (flush_pending cfg st))) 0) as [i|] eqn:E;
        cbn [sm_maps sm_names]; rewrite (maps_flush_pending cfg Hmap st);
        (eexists; split; [reflexivity|]; split; [exact H1|]);
        cbn [op_rec m_sl m_sc m_has m_ni]; repeat split.
      + apply index_of_range in E as [E1 E2]. rewrite Z.sub_0_r in E2. exact E2.
      + rewrite Nat2Z.id, nth_error_app2 by lia. rewrite Nat.sub_diag. reflexivity.
  Qed.

  (* a recorded mapping: the operation that recorded it, and the text at its generated position *)
  Definition op_seg (names : list str) (code : str) (o : wop) (post : list wop) (m : mapping) : Prop :=
    (exists rest, suffix_at code (m_gl m) (m_gc m) = Some (lead_text post ++ rest)) /\
    op_rec names o m.

  Lemma fold_segments : forall ops st, good st -> Forall no_cr_op ops ->
    forall m, In m (sm_maps (w_mapper (fold_left (wstep cfg) ops st))) ->
    In m (sm_maps (w_mapper st)) \/
    exists pre o post, ops = pre ++ o :: post /\
      op_seg (sm_names (w_mapper (fold_left (wstep cfg) ops st)))
             (w_buf (fold_left (wstep cfg) ops st)) o post m.
  Proof.
    induction ops as [|a ops IH]; intros st Hg Hops m Hin; cbn [fold_left] in *; [left; exact Hin|].
    inversion Hops as [|? ? Ha Hops']; subst.
    pose proof (good_wstep cfg Hmap Hind st a Hg Ha) as Hg1.
    destruct (IH (wstep cfg st a) Hg1 Hops' m Hin) as [H|(pre & o & post & -> & H)].
    - destruct (w_panic st) eqn:Hn.
      { rewrite (wstep_panicked cfg st a Hn) in H. left. exact H. }
      destruct (is_map_op a) eqn:Ho.
      + destruct (step_record st a Hg Hn Ho) as (Hp1 & Hn1 & m0 & Hm0 & Hgp & Hrec).
        rewrite Hm0 in H. apply in_app_or in H as [H|[H|[]]]; [left; exact H|]. subst m0.
        right. exists [], a, ops. split; [reflexivity|].
        set (st1 := wstep cfg st a) in *.
        destruct (lead_run ops st1 Hp1 Hn1) as [rest Hrest].
        destruct (grow_fold ops st1) as (_ & [rn Hnames] & _).
        split.
        * exists rest. rewrite Hrest.
          unfold gen_pos in Hgp.
          assert (E1 : m_gl m = pline (pos_after (mkpos 0 0) (w_buf st1))) by (rewrite <- Hgp; reflexivity).
          assert (E2 : m_gc m = pcol (pos_after (mkpos 0 0) (w_buf st1))) by (rewrite <- Hgp; reflexivity).
          rewrite E1, E2. apply suffix_at_after.
        * rewrite Hnames. apply op_rec_names. exact Hrec.
      + rewrite (maps_wstep_other st a Ho) in H. left. exact H.
    - right. exists (a :: pre), o, post. split; [reflexivity|exact H].
  Qed.

  (* every named-mapping operation that is executed records a named mapping *)
  Lemma named_recorded l c n : forall ops st,
    w_panic (fold_left (wstep cfg) ops st) = false -> In (WNamedMapping l c n) ops ->
    exists m, In m (sm_maps (w_mapper (fold_left (wstep cfg) ops st))) /\
              m_has m = true /\ m_sl m = l /\ m_sc m = c.
  Proof.
    induction ops as [|a ops IH]; intros st Hn Hin; [destruct Hin|].
    cbn [fold_left] in *. destruct Hin as [->|Hin]; [|apply IH; assumption].
    pose proof (fold_not_panicked cfg ops _ Hn) as Hn1.
    assert (Hn0 : w_panic st = false).
    { destruct (w_panic st) eqn:E; [|reflexivity].
      rewrite (wstep_panicked cfg st _ E) in Hn1. congruence. }
    destruct (grow_fold ops (wstep cfg st (WNamedMapping l c n))) as (_ & _ & [r Hr]).
    assert (H0 : exists m, In m (sm_maps (w_mapper (wstep cfg st (WNamedMapping l c n)))) /\
                           m_has m = true /\ m_sl m = l /\ m_sc m = c).
    { unfold wstep. rewrite Hn0, Hmap. cbn [w_mapper mapper_step].
      destruct (index_of n (sm_names (w_mapper (flush_pending cfg st))) 0); cbn [sm_maps];
        (eexists; split; [apply in_or_app; right; left; reflexivity|]); cbn [m_has m_sl m_sc]; repeat split. }
    destruct H0 as (m & Hm & Hrest). exists m. split; [|exact Hrest].
    rewrite Hr. apply in_or_app. left. exact Hm.
  Qed.
End Writer.

(* ------------------------------------------------------------------ *)
(* 3. the printer: a mapping operation is followed by its token's text *)
(* ------------------------------------------------------------------ *)

Lemma no_cr_esc_bt s : no_cr s -> no_cr (esc_bt s).
Proof.
  induction s as [|c s IH]; intro H; cbn [esc_bt]; [exact H|].
  apply no_cr_inv in H as [Hc Hs].
  destruct (N.eqb c 96); repeat (apply no_cr_cons; [first [exact Hc|unfold CR; discriminate]|]); apply IH; exact Hs.
Qed.

Lemma tok_text_ident t : t_type t = T_IDENT -> tok_text t = t_lit t.
Proof. intro H. unfold tok_text. rewrite H. reflexivity. Qed.

Section Printer.
  Variable Tk : list token.

  Definition tok_good (t : token) : Prop :=
    tok_canonical t = true /\ no_cr (t_lit t) /\ Forall no_cr (t_comments t).

  Hypothesis HT : forall t, In t Tk -> tok_good t.

  Lemma tk_canon t : In t Tk -> tok_canonical t = true.
  Proof. intro H. apply (HT t H). Qed.
  Lemma tk_lit t : In t Tk -> no_cr (t_lit t).
  Proof. intro H. apply (HT t H). Qed.
  Lemma tk_comments t : In t Tk -> Forall no_cr (t_comments t).
  Proof. intro H. apply (HT t H). Qed.

  Definition head_ok (o : wop) (post : list wop) : Prop :=
    match o with
    | WMapping p =>
        exists t, In t Tk /\ t_start t = p /\ is_prefix (tok_text t) (lead_text post) = true
    | WNamedMapping l c n =>
        exists t, In t Tk /\ t_type t = T_IDENT /\ t_lit t = n /\ t_start t = mkpos l c /\
                  is_prefix (tok_text t) (lead_text post) = true
    | WString s => no_cr s
    | WComments cs => Forall no_cr cs
    | _ => True
    end.

  Fixpoint ops_ok (ops : list wop) : Prop :=
    match ops with
    | [] => True
    | o :: post => head_ok o post /\ ops_ok post
    end.

  Lemma head_ok_app o post b : head_ok o post -> head_ok o (post ++ b).
  Proof.
    destruct (lead_text_app post b) as [r Hr].
    destruct o; cbn [head_ok]; auto.
    - intros (t & H1 & H2 & H3). exists t. rewrite Hr. auto using is_prefix_app.
    - intros (t & H1 & H2 & H3 & H4 & H5). exists t. rewrite Hr. auto 6 using is_prefix_app.
  Qed.

  Lemma ops_ok_app a b : ops_ok a -> ops_ok b -> ops_ok (a ++ b).
  Proof.
    induction a as [|o a IH]; intros Ha Hb; cbn [app]; [exact Hb|].
    destruct Ha as [H1 H2]. split; [apply head_ok_app; exact H1|apply IH; assumption].
  Qed.

  Lemma ops_ok_split pre o post : ops_ok (pre ++ o :: post) -> head_ok o post.
  Proof.
    induction pre as [|x pre IH]; cbn [app ops_ok]; intros [H1 H2]; [exact H1|apply IH; exact H2].
  Qed.

  Lemma ops_ok_no_cr ops : ops_ok ops -> Forall no_cr_op ops.
  Proof.
    induction ops as [|o ops IH]; intro H; [constructor|].
    destruct H as [H1 H2]. constructor; [|apply IH; exact H2].
    destruct o; cbn [head_ok no_cr_op] in *; auto.
  Qed.

  Lemma ops_ok_sep_map {A} sep (f : A -> list wop) l :
    ops_ok sep -> Forall (fun x => ops_ok (f x)) l -> ops_ok (sep_map sep f l).
  Proof.
    intros Hs H. induction H as [|x l Hx Hl IH]; [exact I|].
    cbn [sep_map]. apply ops_ok_app; [exact Hx|].
    destruct l as [|y l]; [exact I|]. apply ops_ok_app; [exact Hs|exact IH].
  Qed.

  (* tokens the matchers consume belong to the token list *)
  Lemma suf_in r ts : suf r ts -> incl ts Tk -> incl r Tk.
  Proof. intros [pre ->] H x Hx. apply H. apply in_or_app. right. exact Hx. Qed.

  Lemma eat_tok_in t ts r : eat_tok t ts = Some r -> incl ts Tk -> In t Tk /\ incl r Tk.
  Proof.
    intros H Hi. apply eat_tok_inv in H. subst ts. split.
    - apply Hi. left. reflexivity.
    - intros x Hx. apply Hi. right. exact Hx.
  Qed.

  Lemma eat_in ty ts t r : eat ty ts = Some (t, r) -> incl ts Tk -> incl r Tk.
  Proof. intros H. apply suf_in. eapply eat_suf. exact H. Qed.

  Lemma m_end_in asi next ts r : m_end asi next ts = Some r -> incl ts Tk -> incl r Tk.
  Proof. intros H. apply suf_in. eapply m_end_suf. exact H. Qed.

  Lemma m_ident_ok i ts r : m_ident i ts = Some r -> incl ts Tk ->
    ops_ok (write_ident i) /\ incl r Tk.
  Proof.
    intros H Hi. apply m_ident_inv in H. destruct H as (-> & Hty & Hmk).
    assert (Hin : In (id_tok i) Tk) by (apply Hi; left; reflexivity).
    split; [|intros x Hx; apply Hi; right; exact Hx].
    unfold write_ident. cbn [ops_ok head_ok].
    assert (Hv : id_value i = t_lit (id_tok i)) by (rewrite <- Hmk at 1; reflexivity).
    rewrite Hv. repeat split.
    - apply tk_comments. exact Hin.
    - exists (id_tok i). repeat split; try assumption.
      + destruct (t_start (id_tok i)); reflexivity.
      + rewrite (tok_text_ident _ Hty). cbn [lead_text]. apply is_prefix_app_l.
    - apply tk_lit. exact Hin.
  Qed.

  Definition comma_ops : list wop := [WRune 44%N; WSpace].

  Lemma comma_ok : ops_ok comma_ops.
  Proof. cbn. tauto. Qed.

  Lemma m_params_ok ps : forall ts r, m_params ps ts = Some r -> incl ts Tk ->
    Forall (fun p => ops_ok (write_ident p ++ [])) ps /\ incl r Tk.
  Proof.
    induction ps as [|p ps IH]; intros ts r H Hi.
    - injection H as H. subst. split; [constructor|exact Hi].
    - rewrite m_params_cons in H. minv H. apply m_ident_ok in E; [|exact Hi]. destruct E as [E1 E2].
      destruct ps as [|q ps]; cbn [m_ptail] in H.
      + injection H as H. subst. split; [constructor; [rewrite app_nil_r; exact E1|constructor]|exact E2].
      + minv H. apply eat_in in E; [|exact E2]. apply IH in H; [|exact E]. destruct H as [H1 H2].
        split; [constructor; [rewrite app_nil_r; exact E1|exact H1]|exact H2].
  Qed.

  Section Lists.
    Variable n : nat.
    Hypothesis IHe : forall e, (esize e <= n)%nat ->
      forall ts r, m_expr e ts = Some r -> incl ts Tk -> ops_ok (write_expr e) /\ incl r Tk.
    Hypothesis IHs : forall s, (ssize s <= n)%nat ->
      forall next ts r, m_stmt s next ts = Some r -> incl ts Tk -> ops_ok (write_stmt s) /\ incl r Tk.

    Lemma m_exprs_ok es : (esizes es <= n)%nat ->
      forall ts r, m_exprs m_expr es ts = Some r -> incl ts Tk ->
      Forall (fun e => ops_ok (write_expr e ++ [])) es /\ incl r Tk.
    Proof.
      induction es as [|e es IH]; intros Hn ts r H Hi.
      - injection H as H. subst. split; [constructor|exact Hi].
      - cbn [esizes fold_right] in Hn. fold (esizes es) in Hn.
        rewrite m_exprs_cons in H. minv H. apply IHe in E; [|lia|exact Hi]. destruct E as [E1 E2].
        destruct es as [|q es]; cbn [m_tail] in H.
        + injection H as H. subst. split; [constructor; [rewrite app_nil_r; exact E1|constructor]|exact E2].
        + minv H. apply eat_in in E; [|exact E2]. apply IH in H; [|lia|exact E]. destruct H as [H1 H2].
          split; [constructor; [rewrite app_nil_r; exact E1|exact H1]|exact H2].
    Qed.

    Lemma m_props_ok ps : (psizes ps <= n)%nat ->
      forall ts r, m_props m_expr ps ts = Some r -> incl ts Tk ->
      Forall (fun kv => ops_ok (write_expr (fst kv) ++ WRune 58%N :: WSpace :: write_expr (snd kv) ++ [])) ps
      /\ incl r Tk.
    Proof.
      induction ps as [|[k v] ps IH]; intros Hn ts r H Hi.
      - injection H as H. subst. split; [constructor|exact Hi].
      - cbn [psizes fold_right fst snd] in Hn. fold (psizes ps) in Hn.
        cbn [m_props] in H.
        destruct (negb (key_ok k)); [discriminate|].
        destruct (m_expr k ts) as [r1|] eqn:E1; [|discriminate].
        apply IHe in E1; [|lia|exact Hi]. destruct E1 as [K1 I1].
        destruct (eat T_COLON r1) as [[tc r2]|] eqn:E2; [|discriminate]. apply eat_in in E2; [|exact I1].
        destruct (m_expr v r2) as [r3|] eqn:E3; [|discriminate].
        apply IHe in E3; [|lia|exact E2]. destruct E3 as [K3 I3].
        assert (Hkv : ops_ok (write_expr (fst (k, v)) ++ WRune 58%N :: WSpace :: write_expr (snd (k, v)) ++ [])).
        { cbn [fst snd]. apply ops_ok_app; [exact K1|]. cbn [ops_ok head_ok]. repeat split.
          rewrite app_nil_r. exact K3. }
        destruct ps as [|kv ps].
        + injection H as H. subst. split; [constructor; [exact Hkv|constructor]|exact I3].
        + destruct (eat T_COMMA r3) as [[tm r4]|] eqn:E4; [|discriminate]. apply eat_in in E4; [|exact I3].
          apply IH in H; [|lia|exact E4]. destruct H as [H1 H2].
          split; [constructor; [exact Hkv|exact H1]|exact H2].
    Qed.

    Lemma m_stmts_ok ss : (ssizes ss <= n)%nat ->
      forall next ts r, m_stmts m_stmt ss next ts = Some r -> incl ts Tk ->
      Forall (fun s => ops_ok (write_stmt s)) ss /\ incl r Tk.
    Proof.
      induction ss as [|s ss IH]; intros Hn next ts r H Hi.
      - injection H as H. subst. split; [constructor|exact Hi].
      - cbn [ssizes fold_right] in Hn. fold (ssizes ss) in Hn. cbn [m_stmts] in H.
        destruct (m_stmt s next ts) as [r1|] eqn:E1; [|discriminate].
        apply IHs in E1; [|lia|exact Hi]. destruct E1 as [K1 I1].
        apply IH in H; [|lia|exact I1]. destruct H as [H1 H2].
        split; [constructor; assumption|exact H2].
    Qed.
  End Lists.

  Ltac fwd IHe IHs :=
    repeat match goal with
    | H : eat_tok ?t ?ts = Some ?r, Hi : incl ?ts Tk |- _ =>
        let A := fresh "In_" in let B := fresh "Hi" in
        destruct (eat_tok_in t ts r H Hi) as [A B]; clear H
    | H : eat ?ty ?ts = Some (?t, ?r), Hi : incl ?ts Tk |- _ =>
        let B := fresh "Hi" in
        pose proof (eat_in ty ts t r H Hi) as B; apply eat_inv in H; destruct H as [_ H]
    | H : m_end ?a ?nx ?ts = Some ?r, Hi : incl ?ts Tk |- _ =>
        let B := fresh "Hi" in
        pose proof (m_end_in a nx ts r H Hi) as B; clear H
    | H : m_ident ?i ?ts = Some ?r, Hi : incl ?ts Tk |- _ =>
        let A := fresh "K" in let B := fresh "Hi" in
        destruct (m_ident_ok i ts r H Hi) as [A B]; clear H
    | H : m_params ?ps ?ts = Some ?r, Hi : incl ?ts Tk |- _ =>
        let A := fresh "K" in let B := fresh "Hi" in
        destruct (m_params_ok ps ts r H Hi) as [A B]; clear H
    | H : m_expr ?e ?ts = Some ?r, Hi : incl ?ts Tk |- _ =>
        let A := fresh "K" in let B := fresh "Hi" in
        destruct (IHe e ltac:(cbn [esize ssize] in *; lia) ts r H Hi) as [A B]; clear H
    | H : m_stmt ?s ?nx ?ts = Some ?r, Hi : incl ?ts Tk |- _ =>
        let A := fresh "K" in let B := fresh "Hi" in
        destruct (IHs s ltac:(cbn [esize ssize] in *; lia) nx ts r H Hi) as [A B]; clear H
    | H : Some _ = Some _ |- _ => injection H as H; subst
    end.

  Ltac mapped_tac :=
    match goal with
    | In_ : In ?t Tk |- exists t0, In t0 Tk /\ t_start t0 = t_start ?t /\ _ =>
        exists t; split; [exact In_|split; [reflexivity|]];
        rewrite <- (ctok_canonical t (tk_canon t In_)); tok_texts;
        cbn [lead_text app]; apply is_prefix_ex; eexists; cbn [app];
        first [reflexivity | rewrite <- !app_assoc; cbn [app]; reflexivity]
    end.

  Ltac leaf :=
    first [ exact I | assumption
          | apply tk_comments; assumption
          | apply tk_lit; assumption
          | solve_no_cr
          | mapped_tac
          | idtac ].

  Ltac okgo :=
    repeat first
      [ exact I
      | assumption
      | apply ops_ok_app
      | match goal with
        | |- ops_ok [] => exact I
        | |- ops_ok (_ :: _) => split; [cbn [head_ok]; leaf|]
        | |- ops_ok (if ?c then _ else _) => destruct c
        | |- ops_ok (match prec_opt ?r with _ => _ end) => destruct (prec_opt r)
        | |- ops_ok (sep_map _ _ _) => apply ops_ok_sep_map; [cbn; tauto|]
        end ].

  Lemma expr_ok_step n :
    (forall e, (esize e <= n)%nat ->
      forall ts r, m_expr e ts = Some r -> incl ts Tk -> ops_ok (write_expr e) /\ incl r Tk) ->
    (forall s, (ssize s <= n)%nat ->
      forall next ts r, m_stmt s next ts = Some r -> incl ts Tk -> ops_ok (write_stmt s) /\ incl r Tk) ->
    forall e, (esize e <= S n)%nat ->
      forall ts r, m_expr e ts = Some r -> incl ts Tk -> ops_ok (write_expr e) /\ incl r Tk.
  Proof.
    intros IHe IHs e0 Hn ts r H Hi.
    destruct e0; cbn [m_expr] in H; try discriminate.
    all: minv H.
    all: bsplit.
    all: cbn [write_expr prec_opt].
    all: fwd IHe IHs.
    all: subst.
    all: try (split; [|assumption]; solve [once okgo]).
    - (* ERaw *)
      split; [|assumption]. okgo.
      rewrite replace_bt. apply no_cr_esc_bt. apply tk_lit. assumption.
    - (* EBool *)
      split; [|assumption].
      apply orb_true_iff in H0. destruct H0 as [H0|H0]; apply Z.eqb_eq in H0; okgo.
    - (* ELet *)
      rewrite enil_match in H. destruct (is_enil e0) eqn:Ev; cbn [negb].
      + fwd IHe IHs. split; [|assumption]. okgo.
      + minv H. fwd IHe IHs. split; [|assumption]. okgo.
    - (* EUnary *)
      split; [|assumption].
      repeat (apply orb_true_iff in H0; destruct H0 as [H0|H0]); apply Z.eqb_eq in H0; okgo.
    - (* EPostfix *)
      split; [|assumption].
      apply orb_true_iff in H0; destruct H0 as [H0|H0]; apply Z.eqb_eq in H0; okgo.
    - (* ECall *)
      eapply (m_exprs_ok n IHe) in E2; [|cbn [esize] in Hn; fold (esizes args) in Hn; lia|eassumption].
      destruct E2 as [KL HiL]. fwd IHe IHs. split; [|assumption]. okgo.
    - (* EMember, not computed *)
      destruct e0_2; try discriminate. fwd IHe IHs. cbn [write_expr]. split; [|assumption]. okgo.
    - (* ECompound *)
      split; [|assumption].
      destruct (t_type t =? T_PLUS_ASSIGN) eqn:E3; [|destruct (t_type t =? T_MINUS_ASSIGN) eqn:E4; [|discriminate]];
        injection E as E; subst l; bsplit; okgo.
    - (* EFunc *)
      destruct body; try discriminate. destruct name as [nm|]; fwd IHe IHs; (split; [|assumption]); okgo.
    - (* EArray *)
      eapply (m_exprs_ok n IHe) in E1; [|cbn [esize] in Hn; fold (esizes elems) in Hn; lia|eassumption].
      destruct E1 as [KL HiL]. fwd IHe IHs. split; [|assumption]. okgo.
    - (* EObject, empty *)
      split; [|assumption]. okgo. constructor.
    - (* EObject *)
      cbn [esize] in Hn. fold (psizes (p :: l0)) in Hn.
      remember (p :: l0) as ps eqn:Eps. clear Eps.
      eapply (m_props_ok n IHe) in E3; [|lia|eassumption].
      destruct E3 as [KL HiL]. fwd IHe IHs. split; [|assumption]. okgo.
  Qed.

  Lemma stmt_ok_step n :
    (forall e, (esize e <= n)%nat ->
      forall ts r, m_expr e ts = Some r -> incl ts Tk -> ops_ok (write_expr e) /\ incl r Tk) ->
    (forall s, (ssize s <= n)%nat ->
      forall next ts r, m_stmt s next ts = Some r -> incl ts Tk -> ops_ok (write_stmt s) /\ incl r Tk) ->
    forall s, (ssize s <= S n)%nat ->
      forall next ts r, m_stmt s next ts = Some r -> incl ts Tk -> ops_ok (write_stmt s) /\ incl r Tk.
  Proof.
    intros IHe IHs s0 Hn next ts r H Hi.
    destruct s0; cbn [m_stmt] in H; try discriminate.
    all: minv H.
    all: repeat match goal with
         | H : context [match _ with ENil => _ | _ => _ end] |- _ => rewrite enil_match in H
         | H : context [match _ with SNil => _ | _ => _ end] |- _ => rewrite snil_match in H
         | H : match ?l with [] => _ | _ :: _ => _ end = Some _ |- _ => destruct l; [discriminate H|]
         | H : _ = Some _ |- _ => progress (minv H)
         end.
    all: cbn [write_stmt].
    all: repeat match goal with
         | E : is_enil ?v = _ |- _ => rewrite E in *
         | E : is_snil ?v = _ |- _ => rewrite E in *
         end.
    all: cbn [negb].
    all: bsplit.
    all: fwd IHe IHs.
    all: subst.
    all: try (split; [|assumption]; solve [once okgo]).
    - (* SFunc *)
      destruct s0; try discriminate. fwd IHe IHs. split; [|assumption]. okgo.
    - (* SBlock *)
      eapply (m_stmts_ok n IHs) in E1; [|cbn [ssize] in Hn; fold (ssizes stmts) in Hn; lia|eassumption].
      destruct E1 as [KL HiL]. fwd IHe IHs. split; [|assumption]. okgo.
      eapply Forall_impl; [|exact KL]. intros a Ha. cbn [ops_ok head_ok]. split; [exact I|].
      rewrite app_nil_r. exact Ha.
  Qed.

  Lemma all_ok : forall n,
    (forall e, (esize e <= n)%nat ->
      forall ts r, m_expr e ts = Some r -> incl ts Tk -> ops_ok (write_expr e) /\ incl r Tk) /\
    (forall s, (ssize s <= n)%nat ->
      forall next ts r, m_stmt s next ts = Some r -> incl ts Tk -> ops_ok (write_stmt s) /\ incl r Tk).
  Proof.
    induction n as [|n [IHe IHs]].
    - split; [intros e H; destruct e; cbn [esize] in H; lia | intros s H; destruct s; cbn [ssize] in H; lia].
    - split; [apply expr_ok_step | apply stmt_ok_step]; assumption.
  Qed.

  Lemma program_ok p : m_program p Tk = true -> ops_ok (write_program p).
  Proof.
    intro Hm. unfold m_program in Hm. apply andb_true_iff in Hm as [Heof Hm].
    destruct (m_stmts m_stmt (p_stmts p) (p_eof p) Tk) as [[|e [|? ?]]|] eqn:E; try discriminate.
    apply tok_eqb_eq in Hm. subst e.
    eapply (m_stmts_ok (ssizes (p_stmts p))) in E; [| |lia|apply incl_refl].
    2:{ intros s Hs. apply (proj2 (all_ok _) s Hs). }
    destruct E as [KL HiL]. unfold write_program.
    apply ops_ok_app.
    - apply ops_ok_sep_map; [cbn; tauto|].
      eapply Forall_impl; [|exact KL]. intros a Ha. rewrite app_nil_r. exact Ha.
    - cbn [ops_ok head_ok]. split; [|exact I]. apply tk_comments. apply HiL. left. reflexivity.
  Qed.
End Printer.

(* ------------------------------------------------------------------ *)
(* 4. the printer: every identifier token gets a named mapping          *)
(* ------------------------------------------------------------------ *)

(* source positions of the identifier tokens / of the named-mapping operations *)
Definition tid (t : token) : list pos := if t_type t =? T_IDENT then [t_start t] else [].
Definition TI (ts : list token) : list pos := concat (map tid ts).
Definition wid (o : wop) : list pos :=
  match o with WNamedMapping l c _ => [mkpos l c] | _ => [] end.
Definition WI (ws : list wop) : list pos := concat (map wid ws).

Lemma TI_nil : TI [] = []. Proof. reflexivity. Qed.
Lemma TI_cons t ts : TI (t :: ts) = tid t ++ TI ts. Proof. reflexivity. Qed.
Lemma WI_nil : WI [] = []. Proof. reflexivity. Qed.
Lemma WI_cons o ws : WI (o :: ws) = wid o ++ WI ws. Proof. reflexivity. Qed.
Lemma WI_app a b : WI (a ++ b) = WI a ++ WI b.
Proof. unfold WI. rewrite map_app, concat_app. reflexivity. Qed.

Global Opaque TI WI.

Lemma WI_sep_map {A} (sep : list wop) (f : A -> list wop) (l : list A) :
  WI sep = [] -> WI (sep_map sep f l) = concat (map (fun x => WI (f x)) l).
Proof.
  intro Hs. induction l as [|x l IH]; [reflexivity|].
  cbn [sep_map map concat]. rewrite WI_app. f_equal.
  destruct l as [|y l]; [reflexivity|]. rewrite WI_app, Hs. exact IH.
Qed.

Lemma tid_of_type ty t : t_type t = ty -> (ty =? T_IDENT) = false -> tid t = [].
Proof. intros <- H. unfold tid. rewrite H. reflexivity. Qed.

Lemma tid_binop t lv : binop_level (t_type t) = Some lv -> tid t = [].
Proof.
  unfold binop_level.
  repeat match goal with
         | |- context [ t_type t =? ?b ] =>
             destruct (Z.eqb_spec (t_type t) b) as [Heq|_];
             [ intros _; apply (tid_of_type _ _ Heq); reflexivity | ]
         end.
  cbn. discriminate.
Qed.

Lemma eat_tok_I t ts r : eat_tok t ts = Some r -> TI ts = tid t ++ TI r.
Proof. intro H. apply eat_tok_inv in H. subst. apply TI_cons. Qed.

Lemma eat_I ty ts t r : eat ty ts = Some (t, r) -> TI ts = tid t ++ TI r /\ t_type t = ty.
Proof. intro H. apply eat_inv in H. destruct H as [-> H]. split; [apply TI_cons | exact H]. Qed.

Lemma m_ident_I i ts r : m_ident i ts = Some r -> TI ts = WI (write_ident i) ++ TI r.
Proof.
  intro H. apply m_ident_inv in H. destruct H as (-> & Hty & Hmk).
  rewrite TI_cons. unfold write_ident. rewrite !WI_cons, WI_nil. cbn [wid app].
  unfold tid. rewrite Hty. rewrite Z.eqb_refl.
  destruct (t_start (id_tok i)); reflexivity.
Qed.

Lemma m_end_I asi next ts r : m_end asi next ts = Some r -> TI ts = TI r.
Proof.
  destruct ts as [|t ts]; cbn [m_end]; intro H; minv H; injection H as H; subst; try reflexivity.
  apply Z.eqb_eq in E. rewrite TI_cons, (tid_of_type _ _ E eq_refl). reflexivity.
Qed.

Ltac tids :=
  repeat match goal with
  | Ht : t_type ?t = _ |- context [tid ?t] => rewrite (tid_of_type _ t Ht eq_refl)
  | Hb : binop_level (t_type ?t) = Some _ |- context [tid ?t] => rewrite (tid_binop t _ Hb)
  end.

Ltac inorm :=
  repeat first [ rewrite WI_app | rewrite WI_nil | rewrite WI_cons ]; cbn [wid].

Ltac anorm := repeat rewrite <- app_assoc; cbn [app]; repeat rewrite app_nil_r.

Ltac ichain :=
  repeat match goal with
  | H : TI ?x = _ |- TI ?x = _ => rewrite H; clear H
  | H : TI ?x = _ |- _ ++ TI ?x = _ => rewrite H; clear H
  | H : TI ?x = _ |- context [TI ?x] => rewrite H; clear H
  end.

Ltac ifinish := ichain; inorm; tids; anorm; try reflexivity.

Lemma m_params_I ps : forall ts r, m_params ps ts = Some r ->
  TI ts = WI (sep_map [WRune 44%N; WSpace] (fun p => write_ident p ++ []) ps) ++ TI r.
Proof.
  induction ps as [|p ps IH]; intros ts r H.
  - injection H as H. subst. reflexivity.
  - rewrite m_params_cons in H. minv H. apply m_ident_I in E.
    cbn [sep_map]. destruct ps as [|q ps]; cbn [m_ptail] in H.
    + injection H as H. subst. ifinish.
    + minv H. apply eat_I in E0. destruct E0 as [E0 Hty]. apply IH in H. ifinish.
Qed.

Section ILists.
  Variable n : nat.
  Hypothesis IHe : forall e, (esize e <= n)%nat -> wfx e = true ->
    forall ts r, m_expr e ts = Some r -> TI ts = WI (write_expr e) ++ TI r.
  Hypothesis IHs : forall s, (ssize s <= n)%nat -> wf_stmt s = true ->
    forall next ts r, m_stmt s next ts = Some r -> TI ts = WI (write_stmt s) ++ TI r.

  Lemma m_exprs_I es : (esizes es <= n)%nat -> wf_exprs wf_expr es = true ->
    forall ts r, m_exprs m_expr es ts = Some r ->
    TI ts = WI (sep_map comma (fun a => write_expr a ++ []) es) ++ TI r.
  Proof.
    unfold comma.
    induction es as [|e es IH]; intros Hn Hw ts r H.
    - injection H as H. subst. reflexivity.
    - cbn [esizes fold_right] in Hn. fold (esizes es) in Hn. cbn [wf_exprs] in Hw. bsplit.
      rewrite m_exprs_cons in H. minv H. apply IHe in E; [|lia|apply wf_wfx; assumption].
      cbn [sep_map]. destruct es as [|q es]; cbn [m_tail] in H.
      + injection H as H. subst. ifinish.
      + minv H. apply eat_I in E0. destruct E0 as [E0 Hty]. apply IH in H; [|lia|assumption]. ifinish.
  Qed.

  Lemma m_props_I ps : (psizes ps <= n)%nat -> wf_props wf_expr ps = true ->
    forall ts r, m_props m_expr ps ts = Some r ->
    TI ts = WI (sep_map comma (fun kv => write_expr (fst kv) ++ WRune 58%N :: WSpace :: write_expr (snd kv) ++ []) ps) ++ TI r.
  Proof.
    unfold comma.
    induction ps as [|[k v] ps IH]; intros Hn Hw ts r H.
    - injection H as H. subst. reflexivity.
    - cbn [psizes fold_right fst snd] in Hn. fold (psizes ps) in Hn. cbn [wf_props] in Hw. bsplit.
      cbn [m_props] in H.
      destruct (negb (key_ok k)); [discriminate|].
      destruct (m_expr k ts) as [r1|] eqn:E1; [|discriminate]. apply IHe in E1; [|lia|apply wf_wfx; assumption].
      destruct (eat T_COLON r1) as [[tc r2]|] eqn:E2; [|discriminate]. apply eat_I in E2. destruct E2 as [E2 Hc].
      destruct (m_expr v r2) as [r3|] eqn:E3; [|discriminate]. apply IHe in E3; [|lia|apply wf_wfx; assumption].
      cbn [sep_map fst snd].
      destruct ps as [|kv ps].
      + injection H as H. subst. ifinish.
      + destruct (eat T_COMMA r3) as [[tm r4]|] eqn:E4; [|discriminate]. apply eat_I in E4. destruct E4 as [E4 Hm].
        apply IH in H; [|lia|assumption]. ifinish.
  Qed.

  Lemma m_stmts_I ss : (ssizes ss <= n)%nat -> wf_stmts wf_stmt ss = true ->
    forall next ts r, m_stmts m_stmt ss next ts = Some r ->
    TI ts = concat (map (fun s => WI (write_stmt s)) ss) ++ TI r.
  Proof.
    induction ss as [|s ss IH]; intros Hn Hw next ts r H.
    - injection H as H. subst. reflexivity.
    - cbn [ssizes fold_right] in Hn. fold (ssizes ss) in Hn. cbn [wf_stmts] in Hw. bsplit.
      cbn [m_stmts] in H.
      destruct (m_stmt s next ts) as [r1|] eqn:E1; [|discriminate]. apply IHs in E1; [|lia|assumption].
      apply IH in H; [|lia|assumption]. cbn [map concat]. ichain. rewrite app_assoc. reflexivity.
  Qed.
End ILists.

Ltac size_tac :=
  match goal with Hn : (_ <= S _)%nat |- _ => clear - Hn; cbn [esize ssize] in Hn |- *; lia end.

Ltac use_IHI IHe IHs :=
  repeat match goal with
  | H : eat_tok _ _ = Some _ |- _ => apply eat_tok_I in H
  | H : eat _ _ = Some (_, _) |- _ => apply eat_I in H; destruct H as [H ?]
  | H : m_ident _ _ = Some _ |- _ => apply m_ident_I in H
  | H : m_params _ _ = Some _ |- _ => apply m_params_I in H
  | H : m_end _ _ _ = Some _ |- _ => apply m_end_I in H
  | H : m_expr _ _ = Some _ |- _ =>
      apply IHe in H; [|size_tac|first [assumption | apply wf_wfx; assumption]]
  | H : m_stmt _ _ _ = Some _ |- _ => apply IHs in H; [|size_tac|assumption]
  | H : Some _ = Some _ |- _ => injection H as H; subst
  end.

Lemma expr_I_step n :
  (forall e, (esize e <= n)%nat -> wfx e = true ->
    forall ts r, m_expr e ts = Some r -> TI ts = WI (write_expr e) ++ TI r) ->
  (forall s, (ssize s <= n)%nat -> wf_stmt s = true ->
    forall next ts r, m_stmt s next ts = Some r -> TI ts = WI (write_stmt s) ++ TI r) ->
  forall e, (esize e <= S n)%nat -> wfx e = true ->
    forall ts r, m_expr e ts = Some r -> TI ts = WI (write_expr e) ++ TI r.
Proof.
  intros IHe IHs e0 Hn Hw ts r H.
  destruct e0; cbn [m_expr] in H; try discriminate; cbn [wfx wf_expr] in Hw.
  all: minv H.
  all: bsplit.
  all: cbn [write_expr].
  all: use_IHI IHe IHs.
  all: try solve [ifinish].
  all: subst.
  all: try solve [ifinish].
  - (* EBool *)
    apply orb_true_iff in H0. destruct H0 as [H0|H0]; apply Z.eqb_eq in H0; ifinish.
  - (* ELet *)
    rewrite enil_match in H. cbn [negb]. destruct (is_enil e0) eqn:Ev; cbn [negb].
    + use_IHI IHe IHs. ifinish.
    + minv H. use_IHI IHe IHs. ifinish.
  - (* EBinary *)
    destruct (wf_prec _ H2) as (pv1 & Hp1 & Hl1). destruct (wf_prec _ H1) as (pv2 & Hp2 & Hl2).
    rewrite Hp1, Hp2. cbn [prec_opt]. rewrite (binop_prec _ _ E).
    replace (pv1 <? z) with false by lia. replace (pv2 <=? z) with false by lia.
    ifinish.
  - (* EUnary *)
    destruct (wf_prec _ H1) as (pv1 & Hp1 & Hl1). rewrite Hp1.
    assert (Hlv : 9 <= level e0).
    { destruct ((t_type t =? T_INCREMENT) || (t_type t =? T_DECREMENT)).
      - apply assignable_level in H0. lia.
      - unfold L_UNARY in H0. lia. }
    replace (pv1 <? A_PrecedenceUnary) with false by (unfold A_PrecedenceUnary; lia).
    repeat (apply orb_true_iff in H2; destruct H2 as [H2|H2]); apply Z.eqb_eq in H2; ifinish.
  - (* EPostfix *)
    destruct (wf_prec _ H1) as (pv1 & Hp1 & Hl1). rewrite Hp1.
    apply assignable_level in H0.
    replace (pv1 <? A_PrecedencePostfix) with false by (unfold A_PrecedencePostfix; lia).
    apply orb_true_iff in H2; destruct H2 as [H2|H2]; apply Z.eqb_eq in H2; ifinish.
  - (* ECall *)
    eapply (m_exprs_I n IHe) in E2; [|cbn [esize] in Hn; fold (esizes args) in Hn; lia|assumption].
    unfold comma in E2. ifinish.
  - (* EMember, not computed *)
    destruct e0_2; try discriminate. use_IHI IHe IHs. cbn [write_expr].
    destruct (is_decimal_int e0_1); cbn [negb andb]; ifinish.
  - (* ECompound *)
    destruct (t_type t =? T_PLUS_ASSIGN) eqn:E3; [|destruct (t_type t =? T_MINUS_ASSIGN) eqn:E4; [|discriminate]];
      injection E as E; subst l; bsplit; ifinish.
  - (* EFunc *)
    destruct body; try discriminate. destruct name as [nm|]; use_IHI IHe IHs; ifinish.
  - (* EArray *)
    eapply (m_exprs_I n IHe) in E1; [|cbn [esize] in Hn; fold (esizes elems) in Hn; lia|assumption].
    unfold comma in E1. ifinish.
  - (* EObject *)
    eapply (m_props_I n IHe) in E3; [|cbn [esize] in Hn; fold (psizes (p :: l0)) in Hn; lia|assumption].
    unfold comma in E3. ifinish.
Qed.

Lemma stmt_I_step n :
  (forall e, (esize e <= n)%nat -> wfx e = true ->
    forall ts r, m_expr e ts = Some r -> TI ts = WI (write_expr e) ++ TI r) ->
  (forall s, (ssize s <= n)%nat -> wf_stmt s = true ->
    forall next ts r, m_stmt s next ts = Some r -> TI ts = WI (write_stmt s) ++ TI r) ->
  forall s, (ssize s <= S n)%nat -> wf_stmt s = true ->
    forall next ts r, m_stmt s next ts = Some r -> TI ts = WI (write_stmt s) ++ TI r.
Proof.
  intros IHe IHs s0 Hn Hw next ts r H.
  destruct s0; cbn [m_stmt] in H; try discriminate; cbn [wf_stmt] in Hw.
  all: try rewrite init_wf_eq in Hw.
  all: minv H.
  all: repeat match goal with
       | H : context [match _ with ENil => _ | _ => _ end] |- _ => rewrite enil_match in H
       | H : context [match _ with SNil => _ | _ => _ end] |- _ => rewrite snil_match in H
       | H : match ?l with [] => _ | _ :: _ => _ end = Some _ |- _ => destruct l; [discriminate H|]
       | H : _ = Some _ |- _ => progress (minv H)
       end.
  all: cbn [write_stmt].
  all: repeat match goal with
       | E : is_enil ?v = _ |- _ => rewrite E in *
       | E : is_snil ?v = _ |- _ => rewrite E in *
       end.
  all: cbn [negb].
  all: bsplit.
  all: try match goal with H0 : init_wf ?i = true, E : is_enil ?i = false |- _ => apply (init_wfx _ E) in H0 end.
  all: use_IHI IHe IHs.
  all: try solve [ifinish].
  - (* SExpr *)
    rewrite (wf_not_nil _ Hw). ifinish.
  - (* SFunc *)
    destruct s0; try discriminate. use_IHI IHe IHs. ifinish.
  - (* SBlock *)
    eapply (m_stmts_I n IHs) in E1; [|cbn [ssize] in Hn; fold (ssizes stmts) in Hn; lia|assumption].
    ichain. inorm. rewrite WI_sep_map by reflexivity.
    rewrite (map_ext (fun x => WI (WIndent :: write_stmt x ++ [])) (fun s => WI (write_stmt s)))
      by (intro a; inorm; rewrite app_nil_r; reflexivity).
    tids. anorm. reflexivity.
Qed.

Lemma all_I : forall n,
  (forall e, (esize e <= n)%nat -> wfx e = true ->
    forall ts r, m_expr e ts = Some r -> TI ts = WI (write_expr e) ++ TI r) /\
  (forall s, (ssize s <= n)%nat -> wf_stmt s = true ->
    forall next ts r, m_stmt s next ts = Some r -> TI ts = WI (write_stmt s) ++ TI r).
Proof.
  induction n as [|n [IHe IHs]].
  - split; [intros e H; destruct e; cbn [esize] in H; lia | intros s H; destruct s; cbn [ssize] in H; lia].
  - split; [apply expr_I_step | apply stmt_I_step]; assumption.
Qed.

Lemma program_I p toks : m_program p toks = true -> wf_program p = true ->
  TI toks = WI (write_program p).
Proof.
  intros Hm Hw.
  unfold m_program in Hm. apply andb_true_iff in Hm as [Heof Hm]. apply Z.eqb_eq in Heof.
  destruct (m_stmts m_stmt (p_stmts p) (p_eof p) toks) as [[|e [|? ?]]|] eqn:E; try discriminate.
  apply tok_eqb_eq in Hm. subst e.
  eapply (m_stmts_I (ssizes (p_stmts p))) in E; [| |lia|exact Hw].
  2:{ intros s Hs. apply (proj2 (all_I _) s Hs). }
  rewrite E. unfold write_program. rewrite WI_app, WI_cons, WI_nil. cbn [wid app].
  rewrite WI_sep_map by reflexivity.
  rewrite (map_ext (fun x => WI (write_stmt x ++ [])) (fun s => WI (write_stmt s)))
    by (intro a; rewrite app_nil_r; reflexivity).
  rewrite TI_cons, TI_nil, (tid_of_type _ _ Heof eq_refl). rewrite !app_nil_r. reflexivity.
Qed.

(* hence every identifier token is the token of a named-mapping operation *)
Lemma TI_in t ts : In t ts -> t_type t = T_IDENT -> In (t_start t) (TI ts).
Proof.
  intros Hin Hty. induction ts as [|x ts IH]; [destruct Hin|].
  rewrite TI_cons. apply in_or_app. destruct Hin as [->|Hin]; [left|right; apply IH; exact Hin].
  unfold tid. rewrite Hty, Z.eqb_refl. left. reflexivity.
Qed.

Lemma WI_in q ops : In q (WI ops) -> exists n, In (WNamedMapping (pline q) (pcol q) n) ops.
Proof.
  induction ops as [|o ops IH]; [rewrite WI_nil; intros []|].
  rewrite WI_cons. intro H. apply in_app_or in H as [H|H].
  - destruct o; cbn [wid] in H; try contradiction.
    destruct H as [H|[]]. subst q. exists name. left. reflexivity.
  - destruct (IH H) as [n Hn]. exists n. right. exact Hn.
Qed.

(* ------------------------------------------------------------------ *)
(* 5. the lexer: a CR-free source gives CR-free literals and comments   *)
(* ------------------------------------------------------------------ *)

Definition lxok (l : lx) : Prop := no_cr (l_rest l) /\ Forall no_cr (l_comments l).

Lemma no_cr_tl s : no_cr s -> no_cr (tl s).
Proof. destruct s; [auto|]. intro H. apply no_cr_inv in H. apply H. Qed.

Lemma read_char_ok l : lxok l -> lxok (read_char l).
Proof.
  intros [H1 H2]. unfold read_char. destruct (l_rest l) as [|c r] eqn:E; [split; [rewrite E; exact H1|exact H2]|].
  apply no_cr_inv in H1 as [_ H1].
  destruct (N.eqb c LF); split; cbn [l_rest l_comments]; assumption.
Qed.

Lemma cur_ok l : lxok l -> cur l <> CR.
Proof.
  intros [H _]. unfold cur. destruct (l_rest l) as [|c r]; cbn [hd]; [discriminate|].
  apply no_cr_inv in H. apply H.
Qed.

Lemma peek_ok l : lxok l -> peek l <> CR.
Proof.
  intros [H _]. unfold peek. destruct (l_rest l) as [|c [|d r]]; try discriminate.
  apply no_cr_inv in H as [_ H]. apply no_cr_inv in H. apply H.
Qed.

Lemma read_while_ok p : forall rest col s r' col', read_while p rest col = (s, r', col') ->
  no_cr rest -> no_cr s /\ no_cr r'.
Proof.
  induction rest as [|c r IH]; intros col s r' col' H Hr; cbn [read_while] in H.
  - inversion H; subst. split; apply no_cr_nil.
  - destruct (p c).
    + destruct (read_while p r (col + 1)) as [[s1 r1] c1] eqn:E. inversion H; subst.
      apply no_cr_inv in Hr as [Hc Hr]. destruct (IH _ _ _ _ E Hr) as [A B].
      split; [apply no_cr_cons; assumption|exact B].
    + inversion H; subst. split; [apply no_cr_nil|exact Hr].
Qed.

Lemma lx_read_while_ok p l s l' : lx_read_while p l = (s, l') -> lxok l -> no_cr s /\ lxok l'.
Proof.
  unfold lx_read_while. intros H [H1 H2].
  destruct (read_while p (l_rest l) (l_col l)) as [[s1 r1] c1] eqn:E. inversion H; subst.
  destruct (read_while_ok _ _ _ _ _ _ E H1) as [A B]. split; [exact A|]. split; assumption.
Qed.

Lemma lor_hi_ne_cr a x : N.testbit a 7 = true -> N.lor a x <> CR.
Proof.
  intros Ha H. apply (f_equal (fun n => N.testbit n 7)) in H. rewrite N.lor_spec, Ha in H.
  cbn in H. discriminate H.
Qed.

Lemma go_string_of_byte_ok c : c <> CR -> no_cr (go_string_of_byte c).
Proof.
  intro H. unfold go_string_of_byte. destruct (c <? 128)%N.
  - apply no_cr_cons; [exact H|apply no_cr_nil].
  - repeat (apply no_cr_cons; [apply lor_hi_ne_cr; reflexivity|]). apply no_cr_nil.
Qed.

Lemma encodeUTF8_ok v : 0 <= v -> mustStayEscaped v = false -> no_cr (encodeUTF8 v).
Proof.
  intros Hv Hm. unfold encodeUTF8.
  destruct (Z.leb_spec v 127).
  - apply no_cr_cons; [|apply no_cr_nil]. unfold byte_of_Z. rewrite Z.mod_small by lia.
    intro E. unfold mustStayEscaped in Hm.
    assert (v = 13) by (unfold CR in E; lia). subst v. discriminate Hm.
  - repeat match goal with |- context [if ?c then _ else _] => destruct c end;
      repeat (apply no_cr_cons; [first [apply lor_hi_ne_cr; reflexivity | unfold CR; discriminate]|]);
      apply no_cr_nil.
Qed.

Lemma hexDigitValue_nonneg c : 0 <= hexDigitValue c.
Proof.
  unfold hexDigitValue.
  repeat match goal with |- context [if ?c then _ else _] => destruct c end; lia.
Qed.

Lemma hex_value_nonneg ds : 0 <= hex_value ds.
Proof.
  unfold hex_value. assert (H : forall a, 0 <= a -> 0 <= fold_left (fun v d => v * 16 + hexDigitValue d) ds a).
  { induction ds as [|d ds IH]; intros a Ha; cbn [fold_left]; [exact Ha|].
    apply IH. pose proof (hexDigitValue_nonneg d). lia. }
  apply H. lia.
Qed.

Ltac ne_cr :=
  first [ assumption
        | apply cur_ok; repeat (first [assumption | apply read_char_ok])
        | apply peek_ok; repeat (first [assumption | apply read_char_ok])
        | (let X := fresh "X" in intro X; discriminate X) ].

Ltac ncr :=
  repeat first
    [ assumption
    | apply no_cr_nil
    | apply no_cr_app
    | apply no_cr_cons; [ne_cr|] ].

Lemma read_based_number_ok isd l s l' : read_based_number isd l = (s, l') -> lxok l ->
  no_cr s /\ lxok l'.
Proof.
  unfold read_based_number. intros H Hl.
  destruct (lx_read_while isd (read_char (read_char l))) as [ds l3] eqn:E. inversion H; subst.
  apply lx_read_while_ok in E; [|repeat apply read_char_ok; exact Hl]. destruct E as [A B].
  split; [|exact B]. ncr.
Qed.

Lemma read_number_ok l s ty l' : read_number l = (s, ty, l') -> lxok l -> no_cr s /\ lxok l'.
Proof.
  unfold read_number. intros H Hl.
  repeat match type of H with
  | (if ?c then _ else _) = _ => destruct c
  | (let '(_, _) := read_based_number ?a ?b in _) = _ =>
      let E := fresh "E" in destruct (read_based_number a b) as [? ?] eqn:E;
      apply read_based_number_ok in E; [|assumption]; destruct E as [? ?]
  end; try (inversion H; subst; split; assumption).
  destruct (lx_read_while isDigit l) as [ip l1] eqn:E1.
  apply lx_read_while_ok in E1; [|exact Hl]. destruct E1 as [A1 B1].
  match type of H with context [if ch 46 l1 then ?a else ?b] =>
    remember (if ch 46 l1 then a else b) as X eqn:EX; destruct X as [[fp ty1] l2] end.
  symmetry in EX.
  assert (HX : no_cr fp /\ lxok l2).
  { destruct (ch 46 l1).
    - destruct (lx_read_while isDigit (read_char l1)) as [fd l2'] eqn:E2. inversion EX; subst.
      apply lx_read_while_ok in E2; [|apply read_char_ok; exact B1]. destruct E2 as [A2 B2].
      split; [ncr|exact B2].
    - inversion EX; subst. split; [apply no_cr_nil|exact B1]. }
  destruct HX as [A2 B2]. clear EX.
  destruct (ch 101 l2 || ch 69 l2).
  - match type of H with context [if ch 43 (read_char l2) || ch 45 (read_char l2) then ?a else ?b] =>
      remember (if ch 43 (read_char l2) || ch 45 (read_char l2) then a else b) as Y eqn:EY; destruct Y as [sg l4] end.
    symmetry in EY.
    assert (HY : no_cr sg /\ lxok l4).
    { destruct (ch 43 (read_char l2) || ch 45 (read_char l2)); inversion EY; subst.
      - split; [ncr|repeat apply read_char_ok; exact B2].
      - split; [ncr|repeat apply read_char_ok; exact B2]. }
    destruct HY as [A3 B3]. clear EY.
    destruct (negb (isDigit (cur l4))).
    + inversion H; subst. split; [ncr|exact B3].
    + destruct (lx_read_while isDigit l4) as [ed l5] eqn:E5. inversion H; subst.
      apply lx_read_while_ok in E5; [|exact B3]. destruct E5 as [A5 B5].
      split; [ncr|exact B5].
  - inversion H; subst. split; [ncr|exact B2].
Qed.

Lemma read_ubrace_ok : forall f l ds0 ds v l1, read_ubrace f l ds0 = (ds, v, l1) ->
  lxok l -> no_cr ds0 -> no_cr ds /\ lxok l1.
Proof.
  induction f as [|f IH]; intros l ds0 ds v l1 H Hl Hd; cbn [read_ubrace] in H.
  - inversion H; subst. split; assumption.
  - destruct (N.eqb (peek l) 125).
    { inversion H; subst. split; [assumption|apply read_char_ok; assumption]. }
    destruct (negb (isHexDigit (peek l)) || (6 <=? length ds0)%nat).
    { inversion H; subst. split; assumption. }
    apply IH in H; [exact H|apply read_char_ok; exact Hl|ncr].
Qed.

Ltac nonneg_tac :=
  first [ apply hex_value_nonneg
        | repeat match goal with
                 | |- context [hexDigitValue ?c] =>
                     lazymatch goal with
                     | H : 0 <= hexDigitValue c |- _ => fail
                     | _ => pose proof (hexDigitValue_nonneg c)
                     end
                 end; lia ].

Ltac oks := repeat first [assumption | apply read_char_ok].

Ltac ncr2 :=
  repeat first
    [ assumption
    | apply no_cr_nil
    | apply no_cr_app
    | apply no_cr_cons; [ne_cr|]
    | apply encodeUTF8_ok; [nonneg_tac|assumption]
    | match goal with |- no_cr (if ?c then _ else _) => destruct c end ].

Lemma read_string_loop_ok : forall f d l0 acc lit term l1,
  read_string_loop f d l0 acc = (lit, term, l1) -> lxok l0 -> no_cr acc ->
  no_cr lit /\ lxok l1.
Proof.
  induction f as [|f IH]; intros d l0 acc lit term l1 H Hl Ha.
  - cbn [read_string_loop] in H. inversion H; subst. split; assumption.
  - cbn [read_string_loop] in H.
    repeat match type of H with
    | (if ?c then _ else _) = _ => destruct c eqn:?
    | context [read_ubrace ?a ?b ?c] =>
        let U := fresh "U" in
        destruct (read_ubrace a b c) as [[? ?] ?] eqn:U;
        apply read_ubrace_ok in U; [destruct U|oks|apply no_cr_nil]
    end;
    first [ solve [inversion H; subst; split; [ncr2|oks]]
          | solve [apply IH in H; [exact H|oks|ncr2]] ].
Qed.

Lemma read_raw_loop_ok : forall f l0 acc lit term l1,
  read_raw_loop f l0 acc = (lit, term, l1) -> lxok l0 -> no_cr acc ->
  no_cr lit /\ lxok l1.
Proof.
  induction f as [|f IH]; intros l0 acc lit term l1 H Hl Ha.
  - cbn [read_raw_loop] in H. inversion H; subst. split; assumption.
  - cbn [read_raw_loop] in H.
    repeat match type of H with
    | (if ?c then _ else _) = _ => destruct c eqn:?
    end;
    first [ solve [inversion H; subst; split; [ncr2|oks]]
          | solve [apply IH in H; [exact H|oks|ncr2]] ].
Qed.

Lemma trim_right_spaces_ok s : no_cr s -> no_cr (trim_right_spaces s).
Proof.
  intros H Hin. destruct (trim_right_spaces_prefix s) as [t Ht].
  apply H. rewrite Ht. apply in_or_app. left. exact Hin.
Qed.

Lemma Forall_snoc {A} (P : A -> Prop) l x : Forall P l -> P x -> Forall P (l ++ [x]).
Proof. intros H Hx. apply Forall_app. split; [exact H|constructor; [exact Hx|constructor]]. Qed.

Lemma trivia_ok_cr : forall rest mode line col had cs r' line' col' had' cs',
  trivia mode rest line col had cs = (r', line', col', had', cs') ->
  no_cr rest -> Forall no_cr cs ->
  match mode with TComment acc => no_cr acc | _ => True end ->
  no_cr r' /\ Forall no_cr cs'.
Proof.
  induction rest as [|c r IH]; intros mode line col had cs r' line' col' had' cs' H Hr Hcs Hm.
  - cbn [trivia] in H. destruct mode; inversion H; subst; split; try assumption.
    apply Forall_snoc; [exact Hcs|apply trim_right_spaces_ok; exact Hm].
  - apply no_cr_inv in Hr as [Hc Hr]. destruct mode as [| |acc]; cbn [trivia] in H.
    + destruct (isWhitespace c).
      * destruct (N.eqb c LF).
        -- eapply IH in H; [exact H|exact Hr| |exact I].
           apply Forall_snoc; [exact Hcs|apply no_cr_nil].
        -- eapply IH in H; [exact H|exact Hr|exact Hcs|exact I].
      * destruct (N.eqb c SLASH && N.eqb (hd 0%N r) SLASH).
        -- eapply IH in H; [exact H|exact Hr|exact Hcs|exact I].
        -- inversion H; subst. split; [apply no_cr_cons; assumption|exact Hcs].
    + eapply IH in H; [exact H|exact Hr|exact Hcs|apply no_cr_nil].
    + destruct (N.eqb c LF).
      * eapply IH in H; [exact H|exact Hr| |exact I].
        apply Forall_snoc; [exact Hcs|apply trim_right_spaces_ok; exact Hm].
      * eapply IH in H; [exact H|exact Hr|exact Hcs|].
        apply no_cr_app; [exact Hm|apply no_cr_cons; [exact Hc|apply no_cr_nil]].
Qed.

Lemma read_leading_comments_ok l : no_cr (l_rest l) -> lxok (read_leading_comments l).
Proof.
  intro H. unfold read_leading_comments.
  destruct (trivia TWs (l_rest l) (l_line l) (l_col l) false []) as [[[[r line] col] had] cs] eqn:T.
  apply trivia_ok_cr in T; [|exact H|constructor|exact I]. destruct T as [A B].
  split; assumption.
Qed.

(* one token *)
Definition tokQ (r : token * lx) : Prop :=
  no_cr (t_lit (fst r)) /\ Forall no_cr (t_comments (fst r)) /\ lxok (snd r).

Lemma one_char_Q l ty : lxok l -> tokQ (one_char l ty).
Proof.
  intro Hl. unfold tokQ, one_char, new_token. cbn [fst snd t_lit t_comments].
  split; [apply go_string_of_byte_ok, cur_ok, Hl|]. split; [apply Hl|apply read_char_ok, Hl].
Qed.

Lemma two_char_Q l ty : lxok l -> tokQ (two_char l ty).
Proof.
  intro Hl. unfold tokQ, two_char, new_token_at. cbn [fst snd t_lit t_comments].
  pose proof (read_char_ok l Hl) as H1.
  split; [apply no_cr_app; apply go_string_of_byte_ok, cur_ok; assumption|].
  split; [apply H1|apply read_char_ok, H1].
Qed.

Lemma string_token_Q l ty lit term l1 start : no_cr lit -> lxok l1 ->
  tokQ (string_token l ty (lit, term, l1) start).
Proof.
  intros H1 H2. unfold tokQ, string_token, new_token_at. cbn [fst snd t_lit t_comments].
  split; [exact H1|]. split; [apply H2|apply read_char_ok, H2].
Qed.

Lemma read_string_Q l d ty : lxok l -> tokQ (string_token l ty (read_string d l) (cur_pos l)).
Proof.
  intro Hl. unfold read_string.
  destruct (read_string_loop (S (length (l_rest l))) d l []) as [[lit term] l1] eqn:E.
  apply read_string_loop_ok in E; [|exact Hl|apply no_cr_nil]. destruct E as [A B].
  apply string_token_Q; assumption.
Qed.

Lemma read_raw_Q l ty : lxok l -> tokQ (string_token l ty (read_raw_string l) (cur_pos l)).
Proof.
  intro Hl. unfold read_raw_string.
  destruct (read_raw_loop (S (length (l_rest l))) l []) as [[lit term] l1] eqn:E.
  apply read_raw_loop_ok in E; [|exact Hl|apply no_cr_nil]. destruct E as [A B].
  apply string_token_Q; assumption.
Qed.

Lemma base_next_token_Q l : lxok l -> tokQ (base_next_token l).
Proof.
  intro Hl. unfold base_next_token. cbv zeta.
  repeat match goal with
  | |- tokQ (if N.eqb _ _ then _ else _) =>
      match goal with |- tokQ (if ?c then _ else _) => destruct c end
  | |- tokQ (one_char _ _) => apply one_char_Q; exact Hl
  | |- tokQ (two_char _ _) => apply two_char_Q; exact Hl
  | |- tokQ (string_token _ _ (read_string _ _) _) => apply read_string_Q; exact Hl
  | |- tokQ (string_token _ _ (read_raw_string _) _) => apply read_raw_Q; exact Hl
  end.
  - destruct (at_eof l); [|apply one_char_Q; exact Hl].
    unfold tokQ, new_token. cbn [fst snd t_lit t_comments].
    split; [apply no_cr_nil|]. split; [apply Hl|apply read_char_ok, Hl].
  - destruct (isLetter (cur l)).
    + unfold read_identifier. destruct (lx_read_while is_ident_char l) as [lit l'] eqn:E.
      apply lx_read_while_ok in E; [|exact Hl]. destruct E as [A B].
      unfold tokQ, new_token_at. cbn [fst snd t_lit t_comments].
      split; [exact A|]. split; [apply B|exact B].
    + destruct (isDigit (cur l)); [|apply one_char_Q; exact Hl].
      destruct (read_number l) as [[lit ty] l'] eqn:E.
      apply read_number_ok in E; [|exact Hl]. destruct E as [A B].
      unfold tokQ, new_token_at. cbn [fst snd t_lit t_comments].
      split; [exact A|]. split; [apply B|exact B].
Qed.

Lemma next_token_Q l : no_cr (l_rest l) -> tokQ (next_token l).
Proof.
  intro H. unfold next_token, next_token_with. apply base_next_token_Q.
  apply read_leading_comments_ok. exact H.
Qed.

Lemma tokenize_from_no_cr : forall f l toks, tokenize_from f l = Some toks -> no_cr (l_rest l) ->
  forall t, In t toks -> no_cr (t_lit t) /\ Forall no_cr (t_comments t).
Proof.
  induction f as [|f IH]; intros l toks H Hl t Hin; cbn [tokenize_from] in H; [discriminate H|].
  pose proof (next_token_Q l Hl) as (Q1 & Q2 & Q3 & _).
  destruct (next_token l) as [t0 l']. cbn [fst snd] in *.
  destruct (t_type t0 =? T_EOF).
  - inversion H; subst toks. destruct Hin as [<-|[]]. split; assumption.
  - destruct (tokenize_from f l') as [ts|] eqn:E; [|discriminate H].
    inversion H; subst toks. destruct Hin as [<-|Hin]; [split; assumption|].
    eapply IH; eassumption.
Qed.

Theorem lex_no_cr : forall src toks, tokenize src = Some toks -> ~ In CR src ->
  forall t, In t toks -> no_cr (t_lit t) /\ Forall no_cr (t_comments t).
Proof. intros src toks H Hs. exact (tokenize_from_no_cr _ _ _ H Hs). Qed.

(* ------------------------------------------------------------------ *)
(* 6. assembly                                                         *)
(* ------------------------------------------------------------------ *)

Lemma pos_eqb_refl q : pos_eqb q q = true.
Proof. unfold pos_eqb. rewrite !Z.eqb_refl. reflexivity. Qed.

(* the segment clause for a token list whose tokens are canonical and CR-free *)
Lemma segments_link_core cfg toks p :
  (forall t, In t toks -> tok_good t) ->
  m_program p toks = true -> w_map cfg = true -> no_cr (w_indent cfg) ->
  r_code (compile cfg p) = w_buf (run_wops cfg (write_program p)) ->
  segments_link cfg p toks = true.
Proof.
  intros HT Hm Hmap Hind Hcode.
  pose proof (program_ok toks HT p Hm) as Hok.
  pose proof (ops_ok_no_cr toks _ Hok) as Hcr.
  unfold segments_link, recorded. rewrite Hcode. apply forallb_forall. intros m Hin.
  unfold run_wops in *.
  destruct (fold_segments cfg Hmap Hind (write_program p) wstate_init good_init Hcr m Hin)
    as [H|(pre & o & post & Heq & [rest Hsuf] & Hrec)]; [destruct H|].
  rewrite Heq in Hok. apply ops_ok_split in Hok.
  unfold seg_links. apply existsb_exists.
  destruct o; cbn [op_rec] in Hrec; try contradiction; cbn [head_ok] in Hok.
  - destruct Hok as (t & Ht & Hst & Hpre). destruct Hrec as (H1 & H2 & H3).
    exists t. split; [exact Ht|]. rewrite Hsuf, H1, H2, H3, Hst.
    destruct p0 as [pl pc]. cbn [pline pcol]. rewrite pos_eqb_refl.
    rewrite (is_prefix_app _ _ rest Hpre). reflexivity.
  - destruct Hok as (t & Ht & Hty & Hlit & Hst & Hpre). destruct Hrec as (H1 & H2 & H3 & H4).
    exists t. split; [exact Ht|]. rewrite Hsuf, H1, H2, H3, H4, Hst, Hty, Hlit.
    rewrite pos_eqb_refl, (is_prefix_app _ _ rest Hpre), str_eqb_refl. reflexivity.
Qed.

Lemma compile_code_compact m p :
  r_code (compile (cfg_compact m) p) = w_buf (run_wops (cfg_compact m) (write_program p)).
Proof. reflexivity. Qed.

Theorem identifiers_covered : forall cfg src toks p,
  tokenize src = Some toks ->
  m_program p toks = true -> wf_program p = true -> w_map cfg = true ->
  idents_covered cfg p toks = true.
Proof.
  intros cfg src toks p _ Hm Hw Hmap.
  destruct (parse_complete p toks Hm Hw) as (r & Hr & Hpr & Herr & _).
  pose proof (parse_clean_compiles cfg_default toks r Hr Herr cfg) as Hnp.
  rewrite Hpr in Hnp. unfold compile, finish in Hnp. cbn [r_panic] in Hnp.
  unfold idents_covered, recorded. apply forallb_forall. intros t Hin.
  destruct (t_type t =? T_IDENT) eqn:Hty; [|reflexivity]. cbn [negb orb].
  apply Z.eqb_eq in Hty. apply existsb_exists.
  pose proof (TI_in t toks Hin Hty) as H. rewrite (program_I p toks Hm Hw) in H.
  apply WI_in in H as [n H].
  unfold run_wops in *.
  destruct (named_recorded cfg Hmap _ _ n (write_program p) wstate_init Hnp H) as (m & Hmin & H1 & H2 & H3).
  exists m. split; [exact Hmin|]. rewrite H1, H2, H3.
  destruct (t_start t) as [tl tc]; cbn [pline pcol]. rewrite pos_eqb_refl. reflexivity.
Qed.

Lemma lexed_tok_good src toks : tokenize src = Some toks -> ~ In CR src ->
  forall t, In t toks -> tok_good t.
Proof.
  intros Ht Hs t Hin. unfold tok_good.
  pose proof (lex_canonical src toks Ht) as Hc. rewrite forallb_forall in Hc.
  destruct (lex_no_cr src toks Ht Hs t Hin) as [A B].
  split; [apply Hc; exact Hin|]. split; assumption.
Qed.

Theorem segments_link_lexemes : forall cfg src toks p,
  tokenize src = Some toks -> ~ In CR src ->
  m_program p toks = true -> wf_program p = true ->
  w_map cfg = true -> no_cr (w_indent cfg) ->
  r_code (compile cfg p) = w_buf (run_wops cfg (write_program p)) ->
  segments_link cfg p toks = true.
Proof.
  intros cfg src toks p Ht Hs Hm _ Hmap Hind Hcode.
  apply segments_link_core; try assumption. exact (lexed_tok_good src toks Ht Hs).
Qed.

Theorem segments_link_lexemes_compact : forall src toks p,
  tokenize src = Some toks -> ~ In CR src ->
  m_program p toks = true -> wf_program p = true ->
  segments_link (cfg_compact true) p toks = true.
Proof.
  intros src toks p Ht Hs Hm Hw.
  apply (segments_link_lexemes (cfg_compact true) src toks p Ht Hs Hm Hw).
  - reflexivity.
  - apply no_cr_nil.
  - apply compile_code_compact.
Qed.

Print Assumptions segments_link_lexemes.
Print Assumptions segments_link_lexemes_compact.
Print Assumptions identifiers_covered.
