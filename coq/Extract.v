(* Extract.v -- extraction of the executable model for the correspondence driver.
   Only ExtrOcamlBasic: bool, option, unit, list, prod, sumbool map to OCaml's own
   types; N, Z, positive, nat stay the extracted inductive types.  Run from the
   build directory: the output file lands in the current directory. *)
Require Import Base VLQ SourceMap Token Lexer Tree Writer Compile Parser Registry Grammar GrammarLax PrintSpec CommentSpec RelexSpec TokenSpec SegSpec NestSpec GrammarModes Gen.Printer.
Require Extraction.
Require Import ExtrOcamlBasic.
Extraction Language OCaml.
Extraction "model.ml" run_mapper mapper_source_map encode_vlq decode_vlq decode_mappings
  lx_init next_tokens tokenize read_leading_comments base_next_token
  parse_tokens pb_run pbuilder_new pb_build apply_tok_ics register_token_type lbuilder_new
  compile cfg_compact cfg_pretty debug_to_string_stmt debug_to_string_expr run_wops wstate_init wstep
  current_context is_in_function m_program wf_program cfg_default mapper_source_map
  printable lexical first_type reparse_compact expr_program shape_program groupify strip_groups_stmt m_programL wf_programL token_preserving wops_text toks_text write_program code_tokens tmap_program erase_comments wops_bytes nolayout segments_link idents_covered nesting_reflected cfg_with nest_program reparse literals_trim_safe strings_stable m_programM boundary_trivia norm_boundaries tmap_expr.
