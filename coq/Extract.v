(* Extract.v -- extraction of the executable model for the correspondence driver.
   Only ExtrOcamlBasic: bool, option, unit, list, prod, sumbool map to OCaml's own
   types; N, Z, positive, nat stay the extracted inductive types.  Run from the
   build directory: the output file lands in the current directory. *)
Require Import Base VLQ SourceMap Token Lexer.
Require Extraction.
Require Import ExtrOcamlBasic.
Extraction Language OCaml.
Extraction "model.ml" run_mapper mapper_source_map encode_vlq decode_vlq decode_mappings
  lx_init next_tokens tokenize.
