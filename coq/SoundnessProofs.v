(* SoundnessProofs.v -- soundness of the default (strict) parser w.r.t. the relaxed
   token-level grammar of GrammarLax.v (C12), and inclusion of the strict grammar of
   Grammar.v in the relaxed one.

   Proof shape.  Soundness is an induction on the fuel of the knot stmt_fn / expr_fn: the
   Parse* functions are analysed once, in a Section whose hypotheses are the invariants of
   the functions one fuel unit below.  All invariants have the form: IF the function returns
   and has not added an error, THEN the result is a tree of the relaxed grammar that matches
   exactly the tokens the window was advanced over.  Error monotonicity comes from
   ContractProofs (cspec); the table facts and the equations of the Pratt loop come from
   GrammarProofs. *)
From Coq Require Import ZifyBool ZifyN ZifyNat Lia.
Require Import Base GoOps Token Tree Parser ParserSpec Grammar TotalProofs ContractProofs GrammarProofs.
Require Import GrammarLax Lexer LexSpec LexerProofs.
Require Import Gen.Tables.

(* ====================================================================== *)
(* Part A: the relaxed grammar contains the strict one                     *)
(* ====================================================================== *)

Lemma eatL_eq : GrammarLax.eat = Grammar.eat. Proof. reflexivity. Qed.
Lemma eat_tokL_eq : GrammarLax.eat_tok = Grammar.eat_tok. Proof. reflexivity. Qed.
Lemma m_endL_eq : GrammarLax.m_end = Grammar.m_end. Proof. reflexivity. Qed.
Lemma m_identL_eq : m_identL = m_ident. Proof. reflexivity. Qed.

(* parameters are matched by the same function in both grammars *)
Lemma m_paramsL_eq : m_paramsL = m_params. Proof. reflexivity. Qed.

Lemma m_params_L ps : forall ts r, m_params ps ts = Some r -> m_paramsL ps ts = Some r.
Proof. intros ts r H. rewrite m_paramsL_eq. exact H. Qed.

Lemma assignable_level l : assignable l = true -> 11 <= level l.
Proof.
  induction l; cbn [assignable level]; unfold L_LHS, L_PRIMARY; try discriminate; intros; lia.
Qed.

Lemma sso_L s : single_statement_ok s = true -> single_statement_okL s = true.
Proof. destruct s; cbn; congruence. Qed.

(* rewrite the goal with the equations of the context *)
Ltac rw_goal :=
  repeat match goal with
  | E : ?x = _ |- context [?x] => rewrite E
  end.

Ltac to_strict :=
  rewrite ?eatL_eq, ?eat_tokL_eq, ?m_endL_eq, ?m_identL_eq in *.

Section StrictLax.
  Variable n : nat.
  Hypothesis IHe : forall e, (esize e <= n)%nat -> forall ts r, m_expr e ts = Some r ->
    m_exprL e ts = Some r /\ (wf_expr e = true -> wf_exprL e = true).
  Hypothesis IHs : forall s, (ssize s <= n)%nat -> forall next ts r, m_stmt s next ts = Some r ->
    m_stmtL s next ts = Some r /\ (wf_stmt s = true -> wf_stmtL s = true).

  Lemma sl_exprs es : (fold_right (fun a n => esize a + n) 0 es <= n)%nat ->
    forall ts r, m_exprs m_expr es ts = Some r ->
    m_exprsL m_exprL es ts = Some r /\ (wf_exprs wf_expr es = true -> wf_exprsL wf_exprL es = true).
  Proof.
    induction es as [|e es IH]; intros Hn ts r H.
    - split; [exact H|reflexivity].
    - cbn [fold_right] in Hn. rewrite m_exprs_cons in H.
      destruct (m_expr e ts) as [r1|] eqn:E1; [|discriminate].
      destruct (IHe e ltac:(lia) _ _ E1) as [M1 W1].
      destruct es as [|q es].
      + cbn [m_tail] in H. injection H as H. subst r1. split.
        * cbn [m_exprsL]. exact M1.
        * cbn [wf_exprs wf_exprsL]. intro W. apply andb_true_iff in W as [W _]. rewrite (W1 W). reflexivity.
      + cbn [m_tail] in H.
        destruct (Grammar.eat T_COMMA r1) as [[? r2]|] eqn:E2; [|discriminate].
        destruct (IH ltac:(lia) _ _ H) as [M2 W2]. split.
        * change (m_exprsL m_exprL (e :: q :: es) ts) with
            (match m_exprL e ts with
             | Some r => match GrammarLax.eat T_COMMA r with
                         | Some (_, r') => m_exprsL m_exprL (q :: es) r' | None => None end
             | None => None end).
          rewrite M1, eatL_eq, E2. exact M2.
        * intro W. change (wf_expr e && wf_exprs wf_expr (q :: es) = true) in W.
          apply andb_true_iff in W as [Wa Wb].
          change (wf_exprL e && wf_exprsL wf_exprL (q :: es) = true).
          rewrite (W1 Wa), (W2 Wb). reflexivity.
  Qed.

  Lemma sl_props ps : (fold_right (fun kv n => esize (fst kv) + esize (snd kv) + n) 0 ps <= n)%nat ->
    forall ts r, m_props m_expr ps ts = Some r ->
    m_propsL m_exprL ps ts = Some r /\ (wf_props wf_expr ps = true -> wf_propsL wf_exprL ps = true).
  Proof.
    induction ps as [|[k v] ps IH]; intros Hn ts r H.
    - split; [exact H|reflexivity].
    - cbn [fold_right fst snd] in Hn. cbn [m_props] in H.
      destruct (negb (key_ok k)); [discriminate|].
      destruct (m_expr k ts) as [r1|] eqn:E1; [|discriminate].
      destruct (IHe k ltac:(lia) _ _ E1) as [M1 W1].
      destruct (Grammar.eat T_COLON r1) as [[? r2]|] eqn:E2; [|discriminate].
      destruct (m_expr v r2) as [r3|] eqn:E3; [|discriminate].
      destruct (IHe v ltac:(lia) _ _ E3) as [M3 W3].
      cbn [m_propsL wf_props wf_propsL]. unfold key_okL. cbn [negb].
      rewrite M1, eatL_eq, E2, M3.
      destruct ps as [|kv ps].
      + split; [exact H|]. intro W. apply andb_true_iff in W as [W _].
        apply andb_true_iff in W as [Wa Wb]. rewrite (W1 Wa), (W3 Wb). reflexivity.
      + destruct (Grammar.eat T_COMMA r3) as [[? r4]|] eqn:E4; [|discriminate].
        destruct (IH ltac:(lia) _ _ H) as [M4 W4]. split; [exact M4|].
        intro W. apply andb_true_iff in W as [W Wc].
        apply andb_true_iff in W as [Wa Wb]. rewrite (W1 Wa), (W3 Wb), (W4 Wc). reflexivity.
  Qed.

  Lemma sl_stmts ss : (fold_right (fun a n => ssize a + n) 0 ss <= n)%nat ->
    forall next ts r, m_stmts m_stmt ss next ts = Some r ->
    m_stmtsL m_stmtL ss next ts = Some r /\ (wf_stmts wf_stmt ss = true -> wf_stmtsL wf_stmtL ss = true).
  Proof.
    induction ss as [|s ss IH]; intros Hn next ts r H.
    - split; [exact H|reflexivity].
    - cbn [fold_right] in Hn. cbn [m_stmts] in H.
      destruct (m_stmt s next ts) as [r1|] eqn:E1; [|discriminate].
      destruct (IHs s ltac:(lia) _ _ _ E1) as [M1 W1].
      destruct (IH ltac:(lia) _ _ _ H) as [M2 W2].
      cbn [m_stmtsL wf_stmts wf_stmtsL]. rewrite M1. split; [exact M2|].
      intro W. apply andb_true_iff in W as [Wa Wb]. rewrite (W1 Wa), (W2 Wb). reflexivity.
  Qed.

  Lemma sl_opt e l r : (esize e <= n)%nat ->
    (if is_enil e then Some l else m_expr e l) = Some r ->
    (if is_enil e then Some l else m_exprL e l) = Some r /\
    ((if is_enil e then true else wf_expr e) = true -> (if is_enil e then true else wf_exprL e) = true).
  Proof.
    intros Hn H. destruct (is_enil e); [split; [exact H|reflexivity]|].
    apply IHe; assumption.
  Qed.

  Definition init_wfL (i : expr) : bool :=
    match i with
    | ENil => true
    | ELet _ _ v => match v with ENil => true | _ => wf_exprL v end
    | _ => wf_exprL i
    end.

  Lemma sl_init e l r : (esize e <= n)%nat ->
    (if is_enil e then Some l else m_expr e l) = Some r ->
    init_wf e = true -> init_wfL e = true.
  Proof.
    intros Hn H W. destruct e; cbn [is_enil init_wf init_wfL] in *; try reflexivity;
      try (apply (IHe _ Hn _ _ H); exact W).
    cbn [m_expr] in H. minv H. rewrite enil_match in H. rewrite enil_match in W. rewrite enil_match.
    destruct (is_enil e); [reflexivity|].
    minv H. cbn [esize] in Hn. apply (IHe e ltac:(lia) _ _ H). exact W.
  Qed.
End StrictLax.

Ltac sl_ih IHe IHs :=
  repeat match goal with
  | E : m_expr ?e _ = Some _ |- _ =>
      let M := fresh "M" in let W := fresh "W" in
      destruct (IHe e ltac:(cbn [esize ssize] in *; lia) _ _ E) as [M W]; clear E
  | E : m_stmt ?s _ _ = Some _ |- _ =>
      let M := fresh "M" in let W := fresh "W" in
      destruct (IHs s ltac:(cbn [esize ssize] in *; lia) _ _ _ E) as [M W]; clear E
  | E : m_exprs m_expr ?es _ = Some _ |- _ =>
      let M := fresh "M" in let W := fresh "W" in
      destruct (sl_exprs _ IHe es ltac:(cbn [esize ssize] in *; lia) _ _ E) as [M W]; clear E
  | E : m_props m_expr ?ps _ = Some _ |- _ =>
      let M := fresh "M" in let W := fresh "W" in
      destruct (sl_props _ IHe ps ltac:(cbn [esize ssize] in *; lia) _ _ E) as [M W]; clear E
  | E : m_stmts m_stmt ?ss _ _ = Some _ |- _ =>
      let M := fresh "M" in let W := fresh "W" in
      destruct (sl_stmts _ IHs ss ltac:(cbn [esize ssize] in *; lia) _ _ _ E) as [M W]; clear E
  | E : m_params _ _ = Some _ |- _ => apply m_params_L in E
  end.

Ltac wf_fin :=
  let Wf := fresh "Wf" in
  intro Wf;
  repeat match goal with
  | H : andb _ _ = true |- _ => apply andb_true_iff in H; destruct H
  end;
  repeat match goal with
  | W : ?a = true -> _, H : ?a = true |- _ => specialize (W H)
  end;
  repeat match goal with
  | H : assignable _ = true |- _ => apply assignable_level in H
  | H : single_statement_ok _ = true |- _ => apply sso_L in H
  end;
  unfold L_ASSIGN, L_UNARY, L_POSTFIX, L_LHS, L_PRIMARY in *;
  try lia.

Lemma all_SL : forall n,
  (forall e, (esize e <= n)%nat -> forall ts r, m_expr e ts = Some r ->
     m_exprL e ts = Some r /\ (wf_expr e = true -> wf_exprL e = true)) /\
  (forall s, (ssize s <= n)%nat -> forall next ts r, m_stmt s next ts = Some r ->
     m_stmtL s next ts = Some r /\ (wf_stmt s = true -> wf_stmtL s = true)).
Proof.
  induction n as [|n [IHe IHs]].
  - split; [intros e H; destruct e; cbn [esize] in H; lia | intros s H; destruct s; cbn [ssize] in H; lia].
  - split.
    + intros e0 Hn ts r H. destruct e0; cbn [m_expr] in H; try discriminate.
      * (* EIdent *) split; [exact H|reflexivity].
      * split; [exact H|reflexivity].
      * split; [exact H|reflexivity].
      * split; [exact H|reflexivity].
      * split; [exact H|reflexivity].
      * split; [exact H|reflexivity].
      * split; [exact H|reflexivity].
      * (* ELet *) split; [|discriminate].
        minv H. rewrite enil_match in H. cbn [m_exprL]. to_strict. rw_goal. rewrite enil_match.
        destruct (is_enil e0); [exact H|]. minv H. sl_ih IHe IHs. rw_goal. reflexivity.
      * (* EBinary *) minv H. sl_ih IHe IHs. split.
        -- cbn [m_exprL]. to_strict. rw_goal. reflexivity.
        -- cbn [wf_expr wf_exprL]. rw_goal. wf_fin.
      * (* EUnary *) minv H. sl_ih IHe IHs. split.
        -- cbn [m_exprL]. to_strict. rw_goal. reflexivity.
        -- cbn [wf_expr wf_exprL].
           destruct ((t_type t =? T_INCREMENT) || (t_type t =? T_DECREMENT)); wf_fin.
      * (* EPostfix *) minv H. sl_ih IHe IHs. split.
        -- cbn [m_exprL]. to_strict. rw_goal. reflexivity.
        -- cbn [wf_expr wf_exprL]. wf_fin.
      * (* EGroup *) minv H. sl_ih IHe IHs. split.
        -- cbn [m_exprL]. to_strict. rw_goal. reflexivity.
        -- cbn [wf_expr wf_exprL]. wf_fin.
      * (* ECall *) minv H. sl_ih IHe IHs. split.
        -- cbn [m_exprL]. to_strict. rw_goal. reflexivity.
        -- cbn [wf_expr wf_exprL]. wf_fin.
      * (* EMember *)
        destruct (m_expr e0_1 ts) as [r1|] eqn:E1; [|discriminate]. destruct computed.
        -- minv H. sl_ih IHe IHs. split.
           ++ cbn [m_exprL]. to_strict. rw_goal. reflexivity.
           ++ cbn [wf_expr wf_exprL]. wf_fin.
        -- minv H. destruct e0_2; try discriminate. sl_ih IHe IHs. split.
           ++ cbn [m_exprL prefix_built]. to_strict. rw_goal. first [reflexivity|exact H].
           ++ cbn [wf_expr wf_exprL]. wf_fin.
      * (* EAssign *) minv H. sl_ih IHe IHs. split.
        -- cbn [m_exprL]. to_strict. rw_goal. reflexivity.
        -- cbn [wf_expr wf_exprL]. wf_fin.
      * (* ECompound *) minv H. sl_ih IHe IHs. split.
        -- cbn [m_exprL]. to_strict. rw_goal. reflexivity.
        -- cbn [wf_expr wf_exprL]. wf_fin.
      * (* EFunc *) minv H. destruct body; try discriminate.
        sl_ih IHe IHs. split.
        -- cbn [m_exprL]. to_strict. rw_goal. reflexivity.
        -- cbn [wf_expr wf_exprL]. exact W.
      * (* EArray *) minv H. sl_ih IHe IHs. split.
        -- cbn [m_exprL]. to_strict. rw_goal. first [reflexivity|exact H].
        -- cbn [wf_expr wf_exprL]. exact W.
      * (* EObject *) destruct props as [|kv props].
        -- minv H. split; [|reflexivity]. cbn [m_exprL]. to_strict. rw_goal. first [reflexivity|exact H].
        -- minv H. sl_ih IHe IHs. split.
           ++ cbn [m_exprL]. to_strict. rw_goal. first [reflexivity|exact H].
           ++ cbn [wf_expr wf_exprL]. exact W.
    + intros s0 Hn next ts r H. destruct s0; cbn [m_stmt] in H; try discriminate.
      * (* SLet *) minv H. rewrite enil_match in H. destruct (is_enil value) eqn:Ev.
        -- apply is_enil_true in Ev. subst value. split; [|reflexivity].
           cbn [m_stmtL]. to_strict. rw_goal. first [reflexivity|exact H].
        -- minv H. sl_ih IHe IHs. split.
           ++ cbn [m_stmtL]. to_strict. rw_goal. rewrite enil_match, Ev. rw_goal. first [reflexivity|exact H].
           ++ cbn [wf_stmt wf_stmtL]. rewrite !enil_match, Ev. exact W.
      * (* SReturn *) minv H. rewrite enil_match in H. destruct (is_enil value) eqn:Ev.
        -- apply is_enil_true in Ev. subst value. split; [|reflexivity].
           cbn [m_stmtL]. to_strict. rw_goal. first [reflexivity|exact H].
        -- destruct l as [|f0 l]; [discriminate|]. minv H. sl_ih IHe IHs. split.
           ++ cbn [m_stmtL]. to_strict. rw_goal. rewrite enil_match, Ev. rw_goal. first [reflexivity|exact H].
           ++ cbn [wf_stmt wf_stmtL]. rewrite !enil_match, Ev. exact W.
      * (* SExpr *) destruct ts as [|f0 ts]; [discriminate|]. minv H. sl_ih IHe IHs. split.
        -- cbn [m_stmtL]. to_strict. rw_goal. first [reflexivity|exact H].
        -- cbn [wf_stmt wf_stmtL]. exact W.
      * (* SFunc *) minv H. destruct s0; try discriminate. sl_ih IHe IHs. split.
        -- cbn [m_stmtL] in M |- *. to_strict. rw_goal. first [reflexivity|exact M].
        -- cbn [wf_stmt wf_stmtL]. exact W.
      * (* SBlock *) minv H. sl_ih IHe IHs. split.
        -- cbn [m_stmtL]. to_strict. rw_goal. first [reflexivity|exact H].
        -- cbn [wf_stmt wf_stmtL]. exact W.
      * (* SIf *) minv H. rewrite snil_match in H. destruct (is_snil s0_2) eqn:Es.
        -- apply is_snil_true in Es. subst s0_2. injection H as H. subst. sl_ih IHe IHs. split.
           ++ cbn [m_stmtL]. to_strict. rw_goal. reflexivity.
           ++ cbn [wf_stmt wf_stmtL]. wf_fin.
        -- minv H. sl_ih IHe IHs. split.
           ++ cbn [m_stmtL]. to_strict. rw_goal. rewrite snil_match, Es. rw_goal. reflexivity.
           ++ cbn [wf_stmt wf_stmtL]. rewrite !snil_match, Es. wf_fin.
      * (* SWhile *) minv H. sl_ih IHe IHs. split.
        -- cbn [m_stmtL]. to_strict. rw_goal. reflexivity.
        -- cbn [wf_stmt wf_stmtL]. wf_fin.
      * (* SFor *) minv H.
        repeat match goal with E : context [match _ with ENil => _ | _ => _ end] |- _ => rewrite enil_match in E end.
        cbn [ssize] in Hn.
        pose proof (sl_init _ IHe init _ _ ltac:(lia) E2) as Wi.
        apply (sl_opt _ IHe) in E2; [|lia]. apply (sl_opt _ IHe) in E4; [|lia]. apply (sl_opt _ IHe) in E6; [|lia].
        destruct E2 as [M2 _], E4 as [M4 W4], E6 as [M6 W6]. sl_ih IHe IHs. split.
        -- cbn [m_stmtL]. to_strict. repeat (first [progress rw_goal | rewrite enil_match]). reflexivity.
        -- cbn [wf_stmt wf_stmtL]. rewrite init_wf_eq. change (match init with ENil => true | ELet _ _ v => match v with ENil => true | _ => wf_exprL v end | _ => wf_exprL init end) with (init_wfL init).
           rewrite !enil_match. wf_fin.
Qed.

Lemma strict_in_lax : forall p toks,
  m_program p toks = true -> wf_program p = true ->
  m_programL p toks = true /\ wf_programL p = true.
Proof.
  intros [ss eof] toks Hm Hw. unfold m_program, wf_program, m_programL, wf_programL in *.
  cbn [p_stmts p_eof] in *.
  apply andb_true_iff in Hm as [Heof Hm].
  destruct (m_stmts m_stmt ss eof toks) as [r|] eqn:Em; [|discriminate].
  pose (n := fold_right (fun a n => (ssize a + n)%nat) 0%nat ss).
  destruct (sl_stmts n (proj2 (all_SL n)) ss (Nat.le_refl _) _ _ _ Em) as [M W].
  rewrite Heof, M. split; [exact Hm|exact (W Hw)].
Qed.

Print Assumptions strict_in_lax.

(* ====================================================================== *)
(* Part B: soundness of the parser w.r.t. the relaxed grammar              *)
(* ====================================================================== *)

(* ---------- token lists that end with an end-of-input token ---------- *)

Definition EL (l : list token) : Prop := t_type (last l zero_token) = T_EOF.

Lemma EL_nonnil l : EL l -> exists p l', l = p :: l'.
Proof. destruct l; [unfold EL; cbn; discriminate|eauto]. Qed.

Lemma EL_cons c p l : EL (c :: p :: l) -> EL (p :: l).
Proof. exact (fun H => H). Qed.

Lemma EL_tail c l : EL (c :: l) -> t_type c <> T_EOF -> EL l.
Proof. destruct l; [unfold EL; cbn; intros; contradiction|exact (fun H _ => H)]. Qed.

Definition EOFX (x : pstate) : Prop := t_type (ps_eof x) = T_EOF.

Lemma EOFX_push x k : EOFX x -> EOFX (push_ctx x k).
Proof. exact (fun H => H). Qed.

(* ---------- errors only grow (from ContractProofs) ---------- *)

Definition mono {A} (f : pstate -> res A) : Prop :=
  forall s r s', f s = Some (r, s') -> (nerr s <= nerr s')%nat.

Lemma cspec_mono {A} (G : A -> Prop) f : cspec G f -> mono f.
Proof. intros H s r s' E. apply (H s r s' E). Qed.

Lemma c_EF f p : cspec npe (EF f p). Proof. apply (proj2 (c_knot cfg_default f)). Qed.
Lemma c_SF f : cspec nps (SF f). Proof. apply (proj1 (c_knot cfg_default f)). Qed.

Lemma mono_EF f p : mono (EF f p). Proof. eapply cspec_mono, c_EF. Qed.
Lemma mono_SF f : mono (SF f). Proof. eapply cspec_mono, c_SF. Qed.
Lemma mono_RL f n left prec : mono (RL f n left prec).
Proof. eapply cspec_mono, c_remaining_loop, c_EF. Qed.
Lemma mono_pel f ty : mono (parse_expression_list (EF f) f ty).
Proof. eapply cspec_mono, c_parse_expression_list, c_EF. Qed.
Lemma mono_ell f n acc : mono (expr_list_loop (EF f) n acc).
Proof. eapply cspec_mono, c_expr_list_loop, c_EF. Qed.
Lemma mono_obj f n acc : mono (object_loop (EF f) n acc).
Proof. eapply cspec_mono, c_object_loop, c_EF. Qed.
Lemma mono_params lf : mono (parse_function_parameters lf).
Proof. eapply cspec_mono, c_parse_function_parameters. Qed.
Lemma mono_params_loop n acc : mono (params_loop n acc).
Proof. eapply cspec_mono, c_params_loop. Qed.
Lemma mono_block_loop f n acc : mono (block_loop (SF f) n acc).
Proof. eapply cspec_mono, c_block_loop, c_SF. Qed.
Lemma mono_block f : mono (parse_block_statement cfg_default (SF f) f).
Proof. eapply cspec_mono, c_parse_block_statement, c_SF. Qed.
Lemma mono_pe f : mono (parse_expression (EF f)).
Proof. eapply cspec_mono, c_parse_expression, c_EF. Qed.
Lemma mono_ple f : mono (parse_let_expression (EF f)).
Proof. eapply cspec_mono, c_parse_let_expression, c_EF. Qed.
Lemma mono_program fuel n acc : mono (program_loop cfg_default fuel n acc).
Proof. eapply cspec_mono, c_program_loop. Qed.

Create HintDb mdb.
#[local] Hint Resolve mono_EF mono_SF mono_RL mono_pel mono_ell mono_obj mono_params mono_params_loop
  mono_block_loop mono_block mono_pe mono_ple mono_program : mdb.

Definition mono_done {A} (x : A) : Prop := True.

Lemma nerr_St x c l : nerr (St x c l) = nerr x. Proof. reflexivity. Qed.

Ltac nfix :=
  repeat match goal with
  | H : context [nerr (ps_next _)] |- _ => rewrite nerr_next in H
  | H : context [nerr (St _ _ _)] |- _ => rewrite nerr_St in H
  | H : context [nerr (push_ctx _ _)] |- _ => rewrite nerr_push_ctx in H
  | H : context [nerr (pop_ctx _)] |- _ => rewrite nerr_pop_ctx in H
  | H : context [nerr (add_error _ _ _)] |- _ => rewrite nerr_add_error in H
  | H : context [nerr (add_error_at _ _ _ _)] |- _ => rewrite nerr_add_error_at in H
  | |- context [nerr (add_error _ _ _)] => rewrite nerr_add_error
  | |- context [nerr (add_error_at _ _ _ _)] => rewrite nerr_add_error_at
  | |- context [nerr (ps_next _)] => rewrite nerr_next
  | |- context [nerr (St _ _ _)] => rewrite nerr_St
  | |- context [nerr (push_ctx _ _)] => rewrite nerr_push_ctx
  | |- context [nerr (pop_ctx _)] => rewrite nerr_pop_ctx
  end.

(* collect the monotonicity facts of all the calls in the context *)
Ltac mfwd :=
  repeat match goal with
  | E : ?f ?s = Some (?r, ?s') |- _ =>
      lazymatch goal with
      | _ : mono_done (s, s') |- _ => fail
      | _ => idtac
      end;
      let M := fresh "M" in
      assert (M : (nerr s <= nerr s')%nat)
        by (let X := fresh "X" in assert (X : mono f) by (auto with mdb); exact (X s r s' E));
      pose proof (I : mono_done (s, s'))
  | E : expect ?s _ = (true, ?s') |- _ =>
      lazymatch goal with
      | _ : mono_done (s, s') |- _ => fail
      | _ => idtac
      end;
      pose proof (expect_true_nerr _ _ _ E); pose proof (I : mono_done (s, s'))
  | E : expect ?s _ = (false, ?s') |- _ =>
      lazymatch goal with
      | _ : mono_done (s, s') |- _ => fail
      | _ => idtac
      end;
      pose proof (expect_false_nerr _ _ _ E); pose proof (I : mono_done (s, s'))
  | E : expect_semicolon_asi _ ?s = (true, ?s') |- _ =>
      lazymatch goal with
      | _ : mono_done (s, s') |- _ => fail
      | _ => idtac
      end;
      pose proof (asi_true_nerr _ _ _ E); pose proof (I : mono_done (s, s'))
  | E : expect_semicolon_asi _ ?s = (false, ?s') |- _ =>
      lazymatch goal with
      | _ : mono_done (s, s') |- _ => fail
      | _ => idtac
      end;
      pose proof (asi_false_nerr _ _ _ E); pose proof (I : mono_done (s, s'))
  end.

Ltac nat_only :=
  repeat match goal with
  | H : ?T |- _ =>
      lazymatch T with
      | (_ <= _)%nat => fail
      | (_ < _)%nat => fail
      | @eq nat _ _ => fail
      | _ => clear H
      end
  end.
Ltac nl := nfix; nat_only; lia.

(* ---------- levels ---------- *)

(* the binding power of the operator at the root *)
Definition bp (e : expr) : Z :=
  match e with
  | EAssign _ _ _ | ECompound _ _ _ _ => 2
  | EBinary t _ _ _ => match binop_level (t_type t) with Some l => l | None => 0 end
  | EPostfix _ _ _ => 10
  | ECall _ _ _ => 11
  | EMember _ _ _ _ => 12
  | _ => INF
  end.

Ltac lvl_unfold := unfold INF, L_ASSIGN, L_UNARY, L_POSTFIX, L_LHS, L_PRIMARY in *.

Lemma lvl_right r lv : wf_exprL r = true -> lv < bp r -> 3 <= lv <= 8 -> lv < level r.
Proof.
  destruct r; cbn [wf_exprL bp level]; try discriminate; lvl_unfold; try lia.
Qed.

Lemma lvl_unary r : wf_exprL r = true -> 9 < bp r -> 9 <= level r.
Proof.
  destruct r; cbn [wf_exprL bp level]; try discriminate; lvl_unfold; try lia.
Qed.

Lemma lvl_member p : wf_exprL p = true -> 12 < bp p -> prefix_built p = true.
Proof.
  destruct p; cbn [wf_exprL bp prefix_built]; try discriminate; lvl_unfold; try lia; try reflexivity.
  destruct (binop_level (t_type t)) as [lv|] eqn:E; [|discriminate]. apply binop_facts in E. lia.
Qed.

Lemma lvl_left left k : wf_exprL left = true -> k <= follow left -> 2 <= k <= 12 ->
  (k <= 9 -> k <= level left) /\ (10 <= k -> 10 <= level left) /\ 2 < level left.
Proof.
  destruct left; cbn [wf_exprL follow level]; try discriminate; lvl_unfold; try lia.
  destruct (binop_level (t_type t)) as [lv|] eqn:E; [|discriminate]. apply binop_facts in E. lia.
Qed.

Lemma prec_cases ty : 1 < precedence_of cfg_default ty ->
  (exists lv, binop_level ty = Some lv) \/ ty = T_ASSIGN \/ ty = T_PLUS_ASSIGN \/ ty = T_MINUS_ASSIGN \/
  ty = T_INCREMENT \/ ty = T_DECREMENT \/ ty = T_LPAREN \/ ty = T_DOT \/ ty = T_LBRACKET.
Proof.
  rewrite prec_default. unfold parser_precedences. cbn [assoc_opt].
  repeat match goal with
  | |- context [ty =? ?K] =>
      destruct (Z.eqb_spec ty K) as [->|?];
      [intros _; first [left; eexists; vm_compute; reflexivity
                      | solve [repeat (first [left; reflexivity | reflexivity | right])]]|]
  end.
  vm_compute. discriminate.
Qed.

Lemma prec_gt1_neof ty : 1 < precedence_of cfg_default ty -> ty <> T_EOF.
Proof. intros H ->. vm_compute in H. discriminate. Qed.

(* ---------- matcher helpers ---------- *)

Lemma eat_tokL_refl t r : GrammarLax.eat_tok t (t :: r) = Some r.
Proof. cbn [GrammarLax.eat_tok]. rewrite tok_eqb_refl. reflexivity. Qed.

Lemma eatL_ok ty p r : t_type p = ty -> GrammarLax.eat ty (p :: r) = Some (p, r).
Proof. intro H. cbn [GrammarLax.eat]. rewrite H, Z.eqb_refl. reflexivity. Qed.

Definition m_tailL (es : list expr) (l : list token) : option (list token) :=
  match es with
  | [] => Some l
  | _ => match GrammarLax.eat T_COMMA l with Some (_, l') => m_exprsL m_exprL es l' | None => None end
  end.

Lemma m_exprsL_cons e es ts :
  m_exprsL m_exprL (e :: es) ts = match m_exprL e ts with Some r => m_tailL es r | None => None end.
Proof. destruct es; cbn [m_exprsL m_tailL]; destruct (m_exprL e ts); reflexivity. Qed.

Lemma wf_exprsL_app a b : wf_exprsL wf_exprL (a ++ b) = wf_exprsL wf_exprL a && wf_exprsL wf_exprL b.
Proof. induction a as [|x a IH]; cbn [app wf_exprsL]; [reflexivity|]. rewrite IH, andb_assoc. reflexivity. Qed.

Lemma expect_true_St x c l ty s1 : expect (St x c l) ty = (true, s1) -> EL l -> ty <> T_EOF ->
  exists p l', l = p :: l' /\ t_type p = ty /\ s1 = St x p l' /\ EL l'.
Proof.
  intros H Hl Hty. destruct (EL_nonnil _ Hl) as (p & l' & ->). unfold expect in H.
  rewrite peek_is_St in H. destruct (t_type p =? ty) eqn:E; [|discriminate].
  apply Z.eqb_eq in E. injection H as H. rewrite next_St in H. exists p, l'.
  repeat split; auto. eapply EL_tail; [eassumption|congruence].
Qed.

Definition m_ptailL (ps : list ident) (l : list token) : option (list token) :=
  match ps with
  | [] => Some l
  | _ => match GrammarLax.eat T_COMMA l with Some (_, l') => m_paramsL ps l' | None => None end
  end.

Lemma m_paramsL_cons p ps ts :
  m_paramsL (p :: ps) ts = match m_identL p ts with Some r => m_ptailL ps r | None => None end.
Proof. destruct ps; cbn [m_paramsL m_ptailL]; destruct (m_identL p ts); reflexivity. Qed.

Lemma m_identL_mk p r : t_type p = T_IDENT -> m_identL (mk_ident p) (p :: r) = Some r.
Proof.
  intro H. unfold m_identL, ident_okL, mk_ident. cbn [id_tok id_value].
  rewrite H, str_eqb_refl. cbn [andb]. ev_goal. apply eat_tokL_refl.
Qed.

Lemma peek_is_St_nil x c ty : peek_is (St x c []) ty = (t_type (ps_eof x) =? ty).
Proof. reflexivity. Qed.

(* the loop up to and including the closing parenthesis; without a new error every
   parameter it has read is an IDENT token *)
Lemma params_loop_sound : forall n acc x c l ids s', EOFX x -> EL (c :: l) ->
  (nerr s' <= nerr x)%nat ->
  params_loop n acc (St x c l) = Some (ids, s') ->
  exists ps c' rest, ids = acc ++ ps /\ s' = St x c' rest /\ t_type c' = T_RPAREN /\ EL rest /\
                     m_ptailL ps l = Some (c' :: rest).
Proof.
  induction n as [|n IH]; intros acc x c l ids s' Hx Hl Hn H; [discriminate|].
  cbn [params_loop] in H. destruct l as [|t l1].
  - rewrite peek_is_St_nil, Hx in H. ev_in H. unfold expect in H.
    rewrite peek_is_St_nil, Hx in H. ev_in H. injection H as <- <-. exfalso. nl.
  - rewrite peek_is_St in H. apply EL_cons in Hl. destruct (t_type t =? T_COMMA) eqn:Et.
    + apply Z.eqb_eq in Et.
      assert (Hl2 : EL l1) by (eapply EL_tail; [eassumption|rewrite Et; discriminate]).
      rewrite next_St in H.
      destruct (expect (St x t l1) T_IDENT) as [[|] s1] eqn:Ex; cbn [negb] in H.
      2:{ injection H as <- <-. mfwd. exfalso. nl. }
      apply expect_true_St in Ex; [|assumption|discriminate].
      destruct Ex as (p & l2 & -> & Hp & -> & Hl3). rewrite cur_St in H.
      apply IH in H; [|assumption|assumption|assumption].
      destruct H as (ps & c' & rest & -> & -> & Hc & Hr & Mp).
      exists (mk_ident p :: ps), c', rest. repeat split; auto.
      * rewrite <- app_assoc. reflexivity.
      * unfold m_ptailL at 1. rewrite (eatL_ok _ _ _ Et), m_paramsL_cons, (m_identL_mk _ _ Hp). exact Mp.
    + destruct (expect (St x c (t :: l1)) T_RPAREN) as [[|] s1] eqn:Ex; injection H as <- <-.
      2:{ mfwd. exfalso. nl. }
      apply expect_true_St in Ex; [|assumption|discriminate].
      destruct Ex as (q & l3 & Eq & Hq & -> & Hl3). injection Eq as <- <-.
      exists [], t, l1. rewrite app_nil_r. repeat split; auto.
Qed.

Lemma pfp_sound lf x c l ids s' : EOFX x -> EL l -> (nerr s' <= nerr x)%nat ->
  parse_function_parameters lf (St x c l) = Some (ids, s') ->
  exists c' rest, s' = St x c' rest /\ t_type c' = T_RPAREN /\ EL rest /\ m_paramsL ids l = Some (c' :: rest).
Proof.
  intros Hx Hl Hn H. destruct (EL_nonnil _ Hl) as (p & l1 & ->).
  unfold parse_function_parameters in H. rewrite peek_is_St in H.
  destruct (t_type p =? T_RPAREN) eqn:Ep.
  - apply Z.eqb_eq in Ep. injection H as <- <-. rewrite next_St. exists p, l1.
    repeat split; auto. eapply EL_tail; [eassumption|rewrite Ep; discriminate].
  - destruct (expect (St x c (p :: l1)) T_IDENT) as [[|] s1] eqn:Ex; cbn [negb] in H.
    2:{ injection H as <- <-. mfwd. exfalso. nl. }
    apply expect_true_St in Ex; [|assumption|discriminate].
    destruct Ex as (p' & l' & Eq & Hp & -> & Hl'). injection Eq as <- <-.
    rewrite cur_St in H. apply params_loop_sound in H; [|assumption|assumption|assumption].
    destruct H as (ps & c' & rest & -> & -> & Hc & Hr & Mp).
    exists c', rest. repeat split; auto.
    cbn [app]. rewrite m_paramsL_cons, (m_identL_mk _ _ Hp). exact Mp.
Qed.

Lemma prefix_cases ty h : assoc_opt prefix_table ty = Some h ->
  match h with
  | PH_ParseIdentifier => ty = T_IDENT
  | PH_ParseIntegerLiteral => ty = T_INT
  | PH_ParseFloatLiteral => ty = T_FLOAT
  | PH_ParseStringLiteral => ty = T_STRING
  | PH_ParseMultiStringLiteral => ty = T_RAW_STRING
  | PH_ParseBooleanLiteral => ty = T_TRUE \/ ty = T_FALSE
  | PH_ParseNullLiteral => ty = T_NULL
  | PH_ParseUnaryExpression => ty = T_NOT \/ ty = T_MINUS \/ ty = T_INCREMENT \/ ty = T_DECREMENT
  | PH_ParseGroupedExpression => ty = T_LPAREN
  | PH_ParseArrayLiteral => ty = T_LBRACKET
  | PH_ParseObjectLiteral => ty = T_LBRACE
  | PH_ParseFunctionExpression => ty = T_FUNCTION
  end.
Proof.
  unfold prefix_table. cbn [assoc_opt].
  repeat match goal with
  | |- context [ty =? ?K] =>
      destruct (Z.eqb_spec ty K) as [->|?]; [intro H; injection H as <-; tauto|]
  end.
  discriminate.
Qed.

(* ---------- statement ends ---------- *)

Lemma stops1_not_continues t : stops 1 t = true -> t_nl t = true -> continues_expression t = false.
Proof.
  intros Hs Hnl. unfold continues_expression. rewrite Hnl. cbn [negb]. rewrite andb_false_r, orb_false_r.
  unfold stops in Hs. rewrite Hnl in Hs.
  destruct (binop_level (t_type t)) as [lv|] eqn:Eb.
  - exfalso. destruct (binop_facts _ _ Eb) as (B1 & _ & B3 & B4 & B5 & B6). rewrite B1 in Hs. lia.
  - repeat match goal with
    | |- context [t_type t =? ?K] =>
        let E := fresh "E" in
        destruct (Z.eqb_spec (t_type t) K) as [E|E];
        [exfalso; rewrite E in Hs; vm_compute in Hs; discriminate Hs|]
    end.
    reflexivity.
Qed.

Lemma asi_sound (asi : token -> bool) x c t rest ok s1 :
  EL (t :: rest) ->
  (t_type t = T_EOF -> asi t = true) -> (t_type t = T_RBRACE -> asi t = true) ->
  (t_nl t = true -> t_type t <> T_MINUS_ASSIGN -> asi t = true) ->
  (nerr s1 <= nerr x)%nat ->
  expect_semicolon_asi cfg_default (St x c (t :: rest)) = (ok, s1) ->
  exists c' t' rest', s1 = St x c' (t' :: rest') /\ EL (t' :: rest') /\
    (forall next, GrammarLax.m_end asi next (t :: rest) = Some (t' :: rest')).
Proof.
  intros Hl A1 A2 A3 Hn H. unfold expect_semicolon_asi, should_insert_semicolon in H.
  rewrite !peek_is_St, peek_St in H. cbn [GrammarLax.m_end].
  destruct (t_type t =? T_SEMICOLON) eqn:E1.
  - apply Z.eqb_eq in E1. injection H as <- <-. rewrite next_St.
    assert (Hl2 : EL rest) by (eapply EL_tail; [eassumption|rewrite E1; discriminate]).
    destruct (EL_nonnil _ Hl2) as (t' & rest' & ->). exists t, t', rest'. auto.
  - destruct (t_type t =? T_EOF) eqn:E2.
    { apply Z.eqb_eq in E2. injection H as <- <-. exists c, t, rest. rewrite (A1 E2). auto. }
    destruct (t_type t =? T_RBRACE) eqn:E3.
    { apply Z.eqb_eq in E3. injection H as <- <-. exists c, t, rest. rewrite (A2 E3). auto. }
    destruct (t_nl t) eqn:E4; cbn [negb] in H.
    2:{ cbn [c_tolerant cfg_default] in H. injection H as <- <-. exfalso. revert Hn. nfix. lia. }
    unfold asi_switch_false in H. cbn [memZ] in H. rewrite orb_false_r in H.
    destruct (t_type t =? T_MINUS_ASSIGN) eqn:E5; cbn [negb] in H.
    { cbn [c_tolerant cfg_default] in H. injection H as <- <-. exfalso. revert Hn. nfix. lia. }
    apply Z.eqb_neq in E5. injection H as <- <-. exists c, t, rest. rewrite (A3 eq_refl E5). auto.
Qed.

Lemma asi_expr_sound x c t rest ok s1 : EL (t :: rest) -> stops 1 t = true ->
  (nerr s1 <= nerr x)%nat ->
  expect_semicolon_asi cfg_default (St x c (t :: rest)) = (ok, s1) ->
  exists c' t' rest', s1 = St x c' (t' :: rest') /\ EL (t' :: rest') /\
    (forall next, GrammarLax.m_end asi_after_expression next (t :: rest) = Some (t' :: rest')).
Proof.
  intros Hl Hs. apply asi_sound; [assumption| | |]; unfold asi_after_expression.
  - intros ->. reflexivity.
  - intros ->. reflexivity.
  - intros Hnl _. rewrite Hnl, (stops1_not_continues _ Hs Hnl). apply orb_true_r.
Qed.

Lemma wf_not_enil e : wf_exprL e = true -> is_enil e = false.
Proof. destruct e; cbn; congruence. Qed.

Lemma okL_of_wf st : wf_stmtL st = true -> single_statement_okL st = true.
Proof. destruct st; cbn; congruence. Qed.

Lemma init_wfL_of_wf e : wf_exprL e = true -> init_wfL e = true.
Proof. destruct e; cbn [wf_exprL init_wfL]; congruence. Qed.

(* ---------- the invariants ---------- *)

Definition Egood (prec : Z) (x : pstate) (c : token) (l : list token) (e : expr) (s' : pstate) : Prop :=
  exists c' t rest, s' = St x c' (t :: rest) /\ EL (t :: rest) /\
    m_exprL e (c :: l) = Some (t :: rest) /\ wf_exprL e = true /\ prec < bp e /\ stops prec t = true.

Definition Sgood (x : pstate) (c : token) (l : list token) (st : stmt) (s' : pstate) : Prop :=
  exists c' t rest, s' = St x c' (t :: rest) /\ EL (t :: rest) /\ wf_stmtL st = true /\
    (forall next, m_stmtL st next (c :: l) = Some (t :: rest)) /\
    (ends_in_open_if st = true -> t_type t <> T_ELSE).

Definition Einv (f : nat) : Prop :=
  forall prec x c l e s', EOFX x -> 1 <= prec <= 12 -> EL (c :: l) ->
    (nerr s' <= nerr x)%nat -> EF f prec (St x c l) = Some (e, s') -> Egood prec x c l e s'.

Definition Sinv (f : nat) : Prop :=
  forall x c l st s', EOFX x -> EL (c :: l) ->
    (nerr s' <= nerr x)%nat -> SF f (St x c l) = Some (st, s') -> Sgood x c l st s'.

Ltac rwt := repeat match goal with Ht : t_type ?t = _ |- context [t_type ?t] => rewrite Ht end.

Section Step.
  Variable f : nat.
  Hypothesis IHE : Einv f.
  Hypothesis IHS : Sinv f.

  (* ---------- expression lists ---------- *)

  Lemma ell_sound : forall n acc x c t rest args s', EOFX x -> EL (t :: rest) ->
    (nerr s' <= nerr x)%nat -> expr_list_loop (EF f) n acc (St x c (t :: rest)) = Some (args, s') ->
    exists es c' t' rest', args = acc ++ es /\ s' = St x c' (t' :: rest') /\ EL (t' :: rest') /\
      m_tailL es (t :: rest) = Some (t' :: rest') /\ wf_exprsL wf_exprL es = true.
  Proof.
    induction n as [|n IH]; intros acc x c t rest args s' Hx Hl Hn H; [discriminate|].
    cbn [expr_list_loop] in H. rewrite peek_is_St in H.
    destruct (t_type t =? T_COMMA) eqn:Et.
    - apply Z.eqb_eq in Et.
      assert (Hl2 : EL rest) by (eapply EL_tail; [eassumption|rewrite Et; discriminate]).
      destruct (EL_nonnil _ Hl2) as (p & l2 & ->). rewrite !next_St in H. unfold parse_expression in H.
      dparse1 H. mfwd.
      apply IHE in Ea; [|assumption|unfold P_LOWEST; lia|assumption|nl].
      destruct Ea as (c1 & t1 & rest1 & -> & Hl1 & Ma & Wa & Ba & Sa).
      apply IH in H; [|assumption|assumption|nl].
      destruct H as (es & c' & t' & rest' & -> & -> & Hl' & Mt & We).
      exists (a :: es), c', t', rest'. repeat split; auto.
      + rewrite <- app_assoc. reflexivity.
      + unfold m_tailL at 1. rewrite (eatL_ok _ _ _ Et), m_exprsL_cons, Ma. exact Mt.
      + cbn [wf_exprsL]. rewrite Wa, We. reflexivity.
    - injection H as <- <-. exists [], c, t, rest. rewrite app_nil_r. repeat split; auto.
  Qed.

  Lemma pel_sound ety x c l args s' : EOFX x -> EL l -> ety <> T_EOF ->
    (nerr s' <= nerr x)%nat -> parse_expression_list (EF f) f ety (St x c l) = Some (args, s') ->
    exists c' rest, s' = St x c' rest /\ t_type c' = ety /\ EL rest /\
      m_exprsL m_exprL args l = Some (c' :: rest) /\ wf_exprsL wf_exprL args = true.
  Proof.
    intros Hx Hl Hety Hn H. destruct (EL_nonnil _ Hl) as (p & l1 & ->).
    unfold parse_expression_list in H. rewrite peek_is_St in H.
    destruct (t_type p =? ety) eqn:Ep.
    - apply Z.eqb_eq in Ep. injection H as <- <-. rewrite next_St. exists p, l1.
      repeat split; auto. eapply EL_tail; [eassumption|congruence].
    - rewrite next_St in H. unfold parse_expression in H. dparse1 H. dparse1 H.
      destruct (expect s0 ety) as [[|] s1] eqn:Ex; injection H as <- <-; mfwd; [|exfalso; nl].
      apply IHE in Ea; [|assumption|unfold P_LOWEST; lia|assumption|nl].
      destruct Ea as (c1 & t1 & rest1 & -> & Hl1 & Ma & Wa & Ba & Sa).
      apply ell_sound in Ea0; [|assumption|assumption|nl].
      destruct Ea0 as (es & c' & t' & rest' & -> & -> & Hl' & Mt & We).
      apply expect_true_St in Ex; [|assumption|assumption].
      destruct Ex as (q & l' & Eq & Hq & -> & Hl''). injection Eq as <- <-.
      exists t', rest'. repeat split; auto.
      + cbn [app]. rewrite m_exprsL_cons, Ma. exact Mt.
      + cbn [app wf_exprsL]. rewrite Wa, We. reflexivity.
  Qed.

  (* ---------- the Pratt loop ---------- *)

  Definition Lgood (prec : Z) (x : pstate) (ts0 : list token) (e : expr) (s' : pstate) : Prop :=
    exists c' t rest, s' = St x c' (t :: rest) /\ EL (t :: rest) /\
      m_exprL e ts0 = Some (t :: rest) /\ wf_exprL e = true /\ prec < bp e /\ stops prec t = true.

  Lemma stops_false prec t : stops prec t = false ->
    t_type t <> T_SEMICOLON /\ prec < precedence_of cfg_default (t_type t) /\
    (t_nl t && ((t_type t =? T_INCREMENT) || (t_type t =? T_DECREMENT))) = false.
  Proof. unfold stops. intro H. repeat split; lia. Qed.

  Lemma stops_le k t : stops k t = true -> t_type t <> T_SEMICOLON ->
    (t_nl t && ((t_type t =? T_INCREMENT) || (t_type t =? T_DECREMENT))) = false ->
    precedence_of cfg_default (t_type t) <= k.
  Proof. unfold stops. intros. lia. Qed.

  Lemma RL_sound : forall n left prec x c t rest ts0 e s', EOFX x -> 1 <= prec <= 12 -> EL (t :: rest) ->
    (nerr s' <= nerr x)%nat ->
    m_exprL left ts0 = Some (t :: rest) -> wf_exprL left = true -> prec < bp left ->
    stops (follow left) t = true ->
    RL f n left prec (St x c (t :: rest)) = Some (e, s') -> Lgood prec x ts0 e s'.
  Proof.
    induction n as [|n IH]; intros left prec x c t rest ts0 e s' Hx Hp Hl Hn Ml Wl Bl Sl H; [discriminate|].
    destruct (stops prec t) eqn:Es.
    { rewrite RL_stop in H by assumption. injection H as <- <-.
      exists c, t, rest. repeat split; auto. }
    destruct (stops_false _ _ Es) as (F1 & F2 & F3).
    pose proof (stops_le _ _ Sl F1 F3) as Fk.
    assert (Hne : t_type t <> T_EOF) by (apply prec_gt1_neof; lia).
    assert (Hl2 : EL rest) by (eapply EL_tail; eassumption).
    destruct (EL_nonnil _ Hl2) as (c2 & l2 & ->).
    pose proof (prec_range (t_type t)) as PR.
    destruct (lvl_left left _ Wl Fk ltac:(lia)) as (LL1 & LL2 & LL3).
    destruct (prec_cases (t_type t) ltac:(lia)) as [[lv Eb]|[Et|[Et|[Et|[Et|[Et|[Et|[Et|Et]]]]]]]].
    - (* binary *)
      destruct (binop_facts _ _ Eb) as (B1 & _ & B3 & _).
      rewrite (RL_binary _ _ _ _ _ _ _ _ _ lv) in H by (assumption || lia).
      dparse1 H. mfwd.
      apply IHE in Ea; [|assumption|lia|assumption|nl].
      destruct Ea as (c1 & t1 & rest1 & -> & Hl1 & Ma & Wa & Ba & Sa).
      eapply IH in H; [exact H|assumption|assumption|assumption|nl| | | |].
      + cbn [m_exprL]. rewrite Eb, str_eqb_refl. cbn [negb]. rewrite Ml, eat_tokL_refl. exact Ma.
      + cbn [wf_exprL]. rewrite Eb, Wl, Wa. pose proof (lvl_right a lv Wa Ba ltac:(lia)). lia.
      + cbn [bp]. rewrite Eb. lia.
      + cbn [follow]. rewrite Eb. exact Sa.
    - (* = *)
      rewrite Et in *. ev_in Fk. ev_in F2.
      rewrite RL_assign in H by (assumption || lia).
      dparse1 H. mfwd.
      apply IHE in Ea; [|assumption|unfold P_LOWEST; lia|assumption|nl].
      destruct Ea as (c1 & t1 & rest1 & -> & Hl1 & Ma & Wa & Ba & Sa).
      eapply IH in H; [exact H|assumption|assumption|assumption|nl| | | |].
      + cbn [m_exprL]. rewrite Et. ev_goal. cbn [negb]. rewrite Ml, eat_tokL_refl. exact Ma.
      + cbn [wf_exprL]. rewrite Wl, Wa. lvl_unfold. lia.
      + cbn [bp]. lia.
      + cbn [follow]. exact Sa.
    - (* += *)
      rewrite Et in *. ev_in Fk. ev_in F2.
      rewrite RL_compound in H by (auto || lia).
      dparse1 H. mfwd.
      apply IHE in Ea; [|assumption|unfold P_LOWEST; lia|assumption|nl].
      destruct Ea as (c1 & t1 & rest1 & -> & Hl1 & Ma & Wa & Ba & Sa).
      eapply IH in H; [exact H|assumption|assumption|assumption|nl| | | |].
      + cbn [m_exprL]. rewrite Et. ev_goal. cbv beta iota zeta. rewrite str_eqb_refl. cbn [negb].
        rewrite Ml, eat_tokL_refl. exact Ma.
      + cbn [wf_exprL]. rewrite Wl, Wa. lvl_unfold. lia.
      + cbn [bp]. lia.
      + cbn [follow]. exact Sa.
    - (* -= *)
      rewrite Et in *. ev_in Fk. ev_in F2.
      rewrite RL_compound in H by (auto || lia).
      dparse1 H. mfwd.
      apply IHE in Ea; [|assumption|unfold P_LOWEST; lia|assumption|nl].
      destruct Ea as (c1 & t1 & rest1 & -> & Hl1 & Ma & Wa & Ba & Sa).
      eapply IH in H; [exact H|assumption|assumption|assumption|nl| | | |].
      + cbn [m_exprL]. rewrite Et. ev_goal. cbv beta iota zeta. rewrite str_eqb_refl. cbn [negb].
        rewrite Ml, eat_tokL_refl. exact Ma.
      + cbn [wf_exprL]. rewrite Wl, Wa. lvl_unfold. lia.
      + cbn [bp]. lia.
      + cbn [follow]. exact Sa.
    - (* postfix ++ *)
      rewrite Et in *. ev_in Fk. ev_in F2. ev_in F3. ev_in LL2.
      assert (Hnl : t_nl t = false) by (destruct (t_nl t); [discriminate F3|reflexivity]).
      rewrite RL_postfix in H by (auto || lia).
      eapply IH in H; [exact H|assumption|assumption|assumption|nl| | | |].
      + cbn [m_exprL]. rewrite Et, Hnl. ev_goal. rewrite str_eqb_refl. cbn [negb orb].
        rewrite Ml, eat_tokL_refl. reflexivity.
      + cbn [wf_exprL]. rewrite Wl. lvl_unfold. lia.
      + cbn [bp]. lia.
      + cbn [follow]. apply stops_INF.
    - (* postfix -- *)
      rewrite Et in *. ev_in Fk. ev_in F2. ev_in F3. ev_in LL2.
      assert (Hnl : t_nl t = false) by (destruct (t_nl t); [discriminate F3|reflexivity]).
      rewrite RL_postfix in H by (auto || lia).
      eapply IH in H; [exact H|assumption|assumption|assumption|nl| | | |].
      + cbn [m_exprL]. rewrite Et, Hnl. ev_goal. rewrite str_eqb_refl. cbn [negb orb].
        rewrite Ml, eat_tokL_refl. reflexivity.
      + cbn [wf_exprL]. rewrite Wl. lvl_unfold. lia.
      + cbn [bp]. lia.
      + cbn [follow]. apply stops_INF.
    - (* call *)
      rewrite Et in *. ev_in Fk. ev_in F2. ev_in LL2.
      rewrite RL_call in H by (auto || lia).
      dparse1 H. mfwd.
      apply pel_sound in Ea; [|assumption|assumption|discriminate|nl].
      destruct Ea as (c1 & rest1 & -> & Hc1 & Hl1 & Ma & Wa).
      destruct (EL_nonnil _ Hl1) as (t1 & rest2 & ->).
      eapply IH in H; [exact H|assumption|assumption|assumption|nl| | | |].
      + cbn [m_exprL]. rewrite Et. ev_goal. cbn [negb]. rewrite Ml, eat_tokL_refl, Ma.
        rewrite (eatL_ok _ _ _ Hc1). reflexivity.
      + cbn [wf_exprL]. rewrite Wl, Wa. lvl_unfold. lia.
      + cbn [bp]. lia.
      + cbn [follow]. apply stops_INF.
    - (* . *)
      rewrite Et in *. ev_in Fk. ev_in F2. ev_in LL2.
      rewrite RL_dot in H by (auto || lia).
      dparse1 H. mfwd.
      apply IHE in Ea; [|assumption|unfold P_MEMBER; lia|assumption|nl].
      destruct Ea as (c1 & t1 & rest1 & -> & Hl1 & Ma & Wa & Ba & Sa).
      eapply IH in H; [exact H|assumption|assumption|assumption|nl| | | |].
      + cbn [m_exprL]. rewrite Ml, Et. ev_goal. cbn [negb]. rewrite eat_tokL_refl.
        rewrite (lvl_member _ Wa Ba). exact Ma.
      + cbn [wf_exprL]. rewrite Wl, Wa. lvl_unfold. lia.
      + cbn [bp]. lia.
      + cbn [follow]. apply stops_INF.
    - (* [ *)
      rewrite Et in *. ev_in Fk. ev_in F2. ev_in LL2.
      rewrite RL_index in H by (auto || lia).
      dparse1 H. destruct (expect s T_RBRACKET) as [[|] s1] eqn:Ex; cbn [negb] in H; mfwd.
      2:{ exfalso. nl. }
      apply IHE in Ea; [|assumption|unfold P_LOWEST; lia|assumption|nl].
      destruct Ea as (c1 & t1 & rest1 & -> & Hl1 & Ma & Wa & Ba & Sa).
      apply expect_true_St in Ex; [|assumption|discriminate].
      destruct Ex as (q & l' & Eq & Hq & -> & Hl'). injection Eq as <- <-.
      destruct (EL_nonnil _ Hl') as (t2 & rest2 & ->).
      eapply IH in H; [exact H|assumption|assumption|assumption|nl| | | |].
      + cbn [m_exprL]. rewrite Ml, Et. ev_goal. cbn [negb]. rewrite eat_tokL_refl, Ma.
        rewrite (eatL_ok _ _ _ Hq). reflexivity.
      + cbn [wf_exprL]. rewrite Wl, Wa. lvl_unfold. lia.
      + cbn [bp]. lia.
      + cbn [follow]. apply stops_INF.
  Qed.

  (* ---------- object literals ---------- *)

  Lemma obj_sound : forall n acc x c l r s', EOFX x -> EL (c :: l) -> (nerr s' <= nerr x)%nat ->
    object_loop (EF f) n acc (St x c l) = Some (r, s') ->
    exists ps c' t rest, r = Some (acc ++ ps) /\ ps <> [] /\ s' = St x c' (t :: rest) /\ EL (t :: rest) /\
      m_propsL m_exprL ps (c :: l) = Some (t :: rest) /\ wf_propsL wf_exprL ps = true.
  Proof.
    induction n as [|n IH]; intros acc x c l r s' Hx Hl Hn H; [discriminate|].
    cbn [object_loop] in H. unfold parse_expression in H.
    dparse1 H. destruct (expect s T_COLON) as [[|] s1] eqn:Ex; cbn [negb] in H.
    2:{ injection H as <- <-. mfwd. exfalso. nl. }
    dparse1 H. cbv zeta in H.
    destruct (peek_is s0 T_COMMA) eqn:Ec; cbn [negb] in H; mfwd.
    - (* another property follows *)
      apply IHE in Ea; [|assumption|unfold P_LOWEST; lia|assumption|nl].
      destruct Ea as (c1 & t1 & rest1 & -> & Hl1 & Ma & Wa & Ba & Sa).
      apply expect_true_St in Ex; [|assumption|discriminate].
      destruct Ex as (q & l' & Eq & Hq & -> & Hl'). injection Eq as <- <-.
      destruct (EL_nonnil _ Hl') as (p & l2 & ->). rewrite next_St in Ea0.
      apply IHE in Ea0; [|assumption|unfold P_LOWEST; lia|assumption|nl].
      destruct Ea0 as (c2 & t2 & rest2 & -> & Hl2 & Mv & Wv & Bv & Sv).
      rewrite peek_is_St in Ec. apply Z.eqb_eq in Ec.
      assert (Hl3 : EL rest2) by (eapply EL_tail; [eassumption|rewrite Ec; discriminate]).
      destruct (EL_nonnil _ Hl3) as (p' & l3 & ->). rewrite !next_St in H.
      apply IH in H; [|assumption|assumption|nl].
      destruct H as (ps & c' & t' & rest' & -> & Hps & -> & Hl4 & Mp & Wp).
      exists ((a, a0) :: ps), c', t', rest'. repeat split; auto.
      + rewrite <- app_assoc. reflexivity.
      + discriminate.
      + cbn [m_propsL]. unfold key_okL. cbn [negb]. rewrite Ma, (eatL_ok _ _ _ Hq), Mv.
        destruct ps as [|kv ps]; [contradiction|]. rewrite (eatL_ok _ _ _ Ec). exact Mp.
      + cbn [wf_propsL]. rewrite Wa, Wv, Wp. reflexivity.
    - injection H as <- <-.
      apply IHE in Ea; [|assumption|unfold P_LOWEST; lia|assumption|nl].
      destruct Ea as (c1 & t1 & rest1 & -> & Hl1 & Ma & Wa & Ba & Sa).
      apply expect_true_St in Ex; [|assumption|discriminate].
      destruct Ex as (q & l' & Eq & Hq & -> & Hl'). injection Eq as <- <-.
      destruct (EL_nonnil _ Hl') as (p & l2 & ->). rewrite next_St in Ea0.
      apply IHE in Ea0; [|assumption|unfold P_LOWEST; lia|assumption|nl].
      destruct Ea0 as (c2 & t2 & rest2 & -> & Hl2 & Mv & Wv & Bv & Sv).
      exists [(a, a0)], c2, t2, rest2. repeat split; auto.
      + discriminate.
      + cbn [m_propsL]. unfold key_okL. cbn [negb]. rewrite Ma, (eatL_ok _ _ _ Hq), Mv. reflexivity.
      + cbn [wf_propsL]. rewrite Wa, Wv. reflexivity.
  Qed.

  (* what a prefix parse returns *)
  Definition Pgood (x : pstate) (c : token) (l : list token) (e : expr) (s' : pstate) : Prop :=
    exists c' t rest, s' = St x c' (t :: rest) /\ EL (t :: rest) /\
      m_exprL e (c :: l) = Some (t :: rest) /\ wf_exprL e = true /\ bp e = INF /\ stops (follow e) t = true.

  Lemma pol_sound x c l e s' : EOFX x -> EL (c :: l) -> t_type c = T_LBRACE -> (nerr s' <= nerr x)%nat ->
    parse_object_literal (EF f) f (St x c l) = Some (e, s') -> Pgood x c l e s'.
  Proof.
    intros Hx Hl Hc Hn H.
    assert (Hl1 : EL l) by (eapply EL_tail; [eassumption|rewrite Hc; discriminate]).
    destruct (EL_nonnil _ Hl1) as (p & l1 & ->).
    unfold parse_object_literal in H. rewrite peek_is_St, cur_St, next_St in H.
    destruct (t_type p =? T_RBRACE) eqn:Ep.
    - apply Z.eqb_eq in Ep. injection H as <- <-.
      assert (Hl2 : EL l1) by (eapply EL_tail; [eassumption|rewrite Ep; discriminate]).
      destruct (EL_nonnil _ Hl2) as (t & rest & ->).
      exists p, t, rest. repeat split; auto.
      + cbn [m_exprL]. rewrite Hc. ev_goal. cbn [negb]. rewrite eat_tokL_refl, tok_eqb_refl, (eatL_ok _ _ _ Ep). reflexivity.
      + apply stops_INF.
    - dparse1 H. destruct a as [props|].
      2:{ injection H as <- <-. mfwd.
          apply obj_sound in Ea; [|assumption|assumption|nl].
          destruct Ea as (ps & c' & t' & rest' & Hr & _). discriminate. }
      destruct (expect s T_RBRACE) as [[|] s1] eqn:Ex; cbn [negb] in H; injection H as <- <-; mfwd.
      2:{ exfalso. nl. }
      apply obj_sound in Ea; [|assumption|assumption|nl].
      destruct Ea as (ps & c' & t' & rest' & Hr & Hps & -> & Hl' & Mp & Wp).
      injection Hr as ->. cbn [app] in *.
      apply expect_true_St in Ex; [|assumption|discriminate].
      destruct Ex as (q & l' & Eq & Hq & -> & Hl''). injection Eq as <- <-.
      destruct (EL_nonnil _ Hl'') as (t & rest & ->). rewrite cur_St.
      exists t', t, rest. repeat split; auto.
      + cbn [m_exprL]. rewrite Hc. ev_goal. cbn [negb]. rewrite eat_tokL_refl.
        destruct ps as [|kv ps]; [contradiction|]. rewrite Hq. ev_goal. cbn [negb].
        rewrite Mp, eat_tokL_refl. reflexivity.
      + apply stops_INF.
  Qed.

  (* ---------- blocks ---------- *)

  Lemma wf_stmtsL_app a b : wf_stmtsL wf_stmtL (a ++ b) = wf_stmtsL wf_stmtL a && wf_stmtsL wf_stmtL b.
  Proof. induction a as [|y a IH]; cbn [app wf_stmtsL]; [reflexivity|]. rewrite IH, andb_assoc. reflexivity. Qed.

  Lemma wf_not_snil st : wf_stmtL st = true -> is_snil st = false.
  Proof. destruct st; cbn; congruence. Qed.

  Lemma block_loop_sound : forall n acc x c l ss' s', EOFX x -> EL (c :: l) -> (nerr s' <= nerr x)%nat ->
    block_loop (SF f) n acc (St x c l) = Some (ss', s') ->
    exists ss c' l', ss' = acc ++ ss /\ s' = St x c' l' /\ EL (c' :: l') /\
      (t_type c' = T_RBRACE \/ t_type c' = T_EOF) /\
      (forall next, m_stmtsL m_stmtL ss next (c :: l) = Some (c' :: l')) /\ wf_stmtsL wf_stmtL ss = true.
  Proof.
    induction n as [|n IH]; intros acc x c l ss' s' Hx Hl Hn H; [discriminate|].
    cbn [block_loop] in H. rewrite !cur_is_St in H.
    destruct (negb (t_type c =? T_RBRACE) && negb (t_type c =? T_EOF)) eqn:Ec.
    - dparse1 H. mfwd.
      apply IHS in Ea; [|assumption|assumption|nl].
      destruct Ea as (c1 & t1 & rest1 & -> & Hl1 & Wa & Ma & _).
      rewrite (wf_not_snil _ Wa), next_St in H.
      apply IH in H; [|assumption|assumption|nl].
      destruct H as (ss & c' & l' & -> & -> & Hl' & Hc' & Ms & Ws).
      exists (a :: ss), c', l'. repeat split; auto.
      + rewrite <- app_assoc. reflexivity.
      + intro next. cbn [m_stmtsL]. rewrite Ma. apply Ms.
      + cbn [wf_stmtsL]. rewrite Wa, Ws. reflexivity.
    - injection H as <- <-. exists [], c, l. rewrite app_nil_r. repeat split; auto. lia.
  Qed.

  Lemma block_sound x c l st s' : EOFX x -> EL (c :: l) -> t_type c = T_LBRACE -> (nerr s' <= nerr x)%nat ->
    parse_block_statement cfg_default (SF f) f (St x c l) = Some (st, s') ->
    Sgood x c l st s' /\ exists lb ss rb, st = SBlock lb ss rb.
  Proof.
    intros Hx Hl Hc Hn H.
    assert (Hl1 : EL l) by (eapply EL_tail; [eassumption|rewrite Hc; discriminate]).
    destruct (EL_nonnil _ Hl1) as (p & l1 & ->).
    unfold parse_block_statement in H. cbv zeta in H. rewrite push_St, cur_St, next_St in H.
    dparse1 H. mfwd.
    apply block_loop_sound in Ea; [|apply EOFX_push; assumption|assumption|].
    2:{ destruct (negb (cur_is s T_RBRACE) && negb (c_tolerant cfg_default)); injection H as <- <-; nl. }
    destruct Ea as (ss & c' & l' & -> & -> & Hl' & Hc' & Ms & Ws).
    rewrite cur_is_St in H. destruct (t_type c' =? T_RBRACE) eqn:Ec.
    2:{ cbn [negb andb c_tolerant cfg_default] in H. injection H as <- <-. exfalso. nl. }
    cbn [negb andb] in H. injection H as <- <-. apply Z.eqb_eq in Ec.
    assert (Hl2 : EL l') by (eapply EL_tail; [eassumption|rewrite Ec; discriminate]).
    destruct (EL_nonnil _ Hl2) as (t & rest & ->).
    rewrite ?cur_St, pop_push_St. cbn [app]. split; [|eauto].
    exists c', t, rest. repeat split; auto.
    - intro next. cbn [m_stmtL]. rewrite Hc, Ec. ev_goal. cbn [negb orb].
      rewrite eat_tokL_refl, Ms, eat_tokL_refl. reflexivity.
    - cbn [ends_in_open_if]. discriminate.
  Qed.

  Lemma pfe_sound x c l e s' : EOFX x -> EL (c :: l) -> t_type c = T_FUNCTION -> (nerr s' <= nerr x)%nat ->
    parse_function_expression cfg_default (SF f) f (St x c l) = Some (e, s') -> Pgood x c l e s'.
  Proof.
    intros Hx Hl Hc Hn H.
    assert (Hl1 : EL l) by (eapply EL_tail; [eassumption|rewrite Hc; discriminate]).
    destruct (EL_nonnil _ Hl1) as (p & l1 & ->).
    unfold parse_function_expression in H. rewrite peek_is_St, cur_St, next_St, cur_St in H.
    destruct (t_type p =? T_IDENT) eqn:Ep.
    - apply Z.eqb_eq in Ep.
      assert (Hl2 : EL l1) by (eapply EL_tail; [eassumption|rewrite Ep; discriminate]).
      destruct (expect (St x p l1) T_LPAREN) as [[|] s1] eqn:Ex1; cbn [negb] in H.
      2:{ injection H as <- <-. mfwd. exfalso. nl. }
      dparse1 H. destruct (expect s T_LBRACE) as [[|] s2] eqn:Ex2; cbn [negb] in H.
      2:{ injection H as <- <-. mfwd. exfalso. nl. }
      dparse1 H. injection H as <- <-. mfwd.
      apply expect_true_St in Ex1; [|assumption|discriminate].
      destruct Ex1 as (lp & l2 & -> & Hlp & -> & Hl3).
      apply pfp_sound in Ea; [|assumption|assumption|nl].
      destruct Ea as (rp & rest1 & -> & Hrp & Hl4 & Mp).
      apply expect_true_St in Ex2; [|assumption|discriminate].
      destruct Ex2 as (lb & l5 & -> & Hlb & -> & Hl5).
      rewrite push_St in Ea0.
      apply block_sound in Ea0; [|apply EOFX_push; assumption| |assumption|nl].
      2:{ destruct l5; [|exact Hl4]. exfalso. destruct (EL_nonnil _ Hl5) as (? & ? & ?). discriminate. }
      destruct Ea0 as [(c' & t & rest & -> & Hl6 & Wb & Mb & _) (lb' & ss & rb & ->)].
      rewrite pop_push_St. exists c', t, rest. repeat split; auto.
      + cbn [m_exprL]. rewrite Hc. ev_goal. cbn [negb]. rewrite eat_tokL_refl, (m_identL_mk _ _ Ep).
        rewrite (eatL_ok _ _ _ Hlp), Mp, (eatL_ok _ _ _ Hrp). apply Mb.
      + apply stops_INF.
    - destruct (expect (St x c (p :: l1)) T_LPAREN) as [[|] s1] eqn:Ex1; cbn [negb] in H.
      2:{ injection H as <- <-. mfwd. exfalso. nl. }
      dparse1 H. destruct (expect s T_LBRACE) as [[|] s2] eqn:Ex2; cbn [negb] in H.
      2:{ injection H as <- <-. mfwd. exfalso. nl. }
      dparse1 H. injection H as <- <-. mfwd.
      apply expect_true_St in Ex1; [|assumption|discriminate].
      destruct Ex1 as (lp & l2 & Elp & Hlp & -> & Hl3). injection Elp as <- <-.
      apply pfp_sound in Ea; [|assumption|assumption|nl].
      destruct Ea as (rp & rest1 & -> & Hrp & Hl4 & Mp).
      apply expect_true_St in Ex2; [|assumption|discriminate].
      destruct Ex2 as (lb & l5 & -> & Hlb & -> & Hl5).
      rewrite push_St in Ea0.
      apply block_sound in Ea0; [|apply EOFX_push; assumption| |assumption|nl].
      2:{ destruct l5; [|exact Hl4]. exfalso. destruct (EL_nonnil _ Hl5) as (? & ? & ?). discriminate. }
      destruct Ea0 as [(c' & t & rest & -> & Hl6 & Wb & Mb & _) (lb' & ss & rb & ->)].
      rewrite pop_push_St. exists c', t, rest. repeat split; auto.
      + cbn [m_exprL]. rewrite Hc. ev_goal. cbn [negb]. rewrite eat_tokL_refl.
        rewrite (eatL_ok _ _ _ Hlp), Mp, (eatL_ok _ _ _ Hrp). apply Mb.
      + apply stops_INF.
  Qed.

  (* ---------- prefix parses ---------- *)

  Ltac atom_fin H c p l1 :=
    injection H as <- <-; exists c, p, l1; repeat split; auto;
    [ cbn [m_exprL]; rwt; ev_goal; rewrite ?str_eqb_refl; cbn [andb negb orb Bool.eqb];
      first [apply eat_tokL_refl | apply m_identL_mk; assumption]
    | apply stops_INF ].

  Lemma PP_sound x c l e s' : EOFX x -> EL (c :: l) -> (nerr s' <= nerr x)%nat ->
    PP f (St x c l) = Some (e, s') -> Pgood x c l e s'.
  Proof.
    intros Hx Hl Hn H. rewrite PP_eq in H.
    destruct (assoc_opt prefix_table (t_type c)) as [h|] eqn:Eh.
    2:{ injection H as <- <-. exfalso. nl. }
    pose proof (prefix_table_neq _ _ Eh) as Hne.
    assert (Hl1 : EL l) by (eapply EL_tail; eassumption).
    destruct (EL_nonnil _ Hl1) as (p & l1 & ->).
    apply prefix_cases in Eh. destruct h; cbn [prefix_handler_run] in H; rewrite ?cur_St in H.
    - (* array *)
      dparse1 H. injection H as <- <-. mfwd.
      apply pel_sound in Ea; [|assumption|assumption|discriminate|nl].
      destruct Ea as (c1 & rest1 & -> & Hc1 & Hl2 & Ma & Wa).
      destruct (EL_nonnil _ Hl2) as (t1 & rest2 & ->). rewrite cur_St.
      exists c1, t1, rest2. repeat split; auto.
      + cbn [m_exprL]. rewrite Eh, Hc1. ev_goal. cbn [negb orb]. rewrite eat_tokL_refl, Ma, eat_tokL_refl. reflexivity.
      + apply stops_INF.
    - (* boolean *) destruct Eh as [Eh|Eh]; atom_fin H c p l1.
    - (* float *)
      destruct (go_float_ok (t_lit c)) eqn:Eg.
      + injection H as <- <-. exists c, p, l1. repeat split; auto; [|apply stops_INF].
        cbn [m_exprL]. rewrite Eh, Eg. ev_goal. cbn [andb]. apply eat_tokL_refl.
      + injection H as <- <-. exfalso. nl.
    - (* function *) eapply pfe_sound; eassumption.
    - (* group *)
      unfold parse_grouped_expression, parse_expression in H. rewrite cur_St, next_St in H.
      dparse1 H. destruct (expect s T_RPAREN) as [[|] s1] eqn:Ex; cbn [negb] in H; injection H as <- <-; mfwd.
      2:{ exfalso. nl. }
      apply IHE in Ea; [|assumption|unfold P_LOWEST; lia|assumption|nl].
      destruct Ea as (c1 & t1 & rest1 & -> & Hl2 & Ma & Wa & Ba & Sa).
      apply expect_true_St in Ex; [|assumption|discriminate].
      destruct Ex as (q & l' & Eq & Hq & -> & Hl3). injection Eq as <- <-.
      destruct (EL_nonnil _ Hl3) as (t2 & rest2 & ->). rewrite cur_St.
      exists t1, t2, rest2. repeat split; auto.
      + cbn [m_exprL]. rewrite Eh, Hq. ev_goal. cbn [negb orb]. rewrite eat_tokL_refl, Ma, eat_tokL_refl. reflexivity.
      + apply stops_INF.
    - (* identifier *) atom_fin H c p l1.
    - (* integer *)
      destruct (go_int_ok (t_lit c)) eqn:Eg.
      + injection H as <- <-. exists c, p, l1. repeat split; auto; [|apply stops_INF].
        cbn [m_exprL]. rewrite Eh, Eg. ev_goal. cbn [andb]. apply eat_tokL_refl.
      + injection H as <- <-. exfalso. nl.
    - (* raw string *) atom_fin H c p l1.
    - (* null *) atom_fin H c p l1.
    - (* object *) eapply pol_sound; eassumption.
    - (* string *) atom_fin H c p l1.
    - (* unary *)
      unfold parse_unary_expression in H. rewrite cur_St, next_St in H.
      dparse1 H. injection H as <- <-. mfwd.
      apply IHE in Ea; [|assumption|unfold P_UNARY; lia|assumption|nl].
      destruct Ea as (c1 & t1 & rest1 & -> & Hl2 & Ma & Wa & Ba & Sa).
      exists c1, t1, rest1. repeat split; auto.
      + cbn [m_exprL]. rewrite str_eqb_refl.
        replace ((t_type c =? T_NOT) || (t_type c =? T_MINUS) || (t_type c =? T_INCREMENT) || (t_type c =? T_DECREMENT))
          with true by (destruct Eh as [Eh|[Eh|[Eh|Eh]]]; rewrite Eh; reflexivity).
        cbn [negb orb]. rewrite eat_tokL_refl. exact Ma.
      + cbn [wf_exprL]. rewrite Wa. pose proof (lvl_unary _ Wa Ba). lvl_unfold. lia.
  Qed.

  Lemma EF_step : Einv (S f).
  Proof.
    intros prec x c l e s' Hx Hp Hl Hn H. rewrite EF_S in H. dparse1 H. mfwd.
    apply PP_sound in Ea; [|assumption|assumption|nl].
    destruct Ea as (c1 & t1 & rest1 & -> & Hl1 & Ma & Wa & Ba & Sa).
    eapply RL_sound in H; [exact H|assumption|eassumption|assumption|nl|exact Ma|assumption| |assumption].
    rewrite Ba. unfold INF. lia.
  Qed.

  (* ---------- statements ---------- *)

  Lemma let_sound x c l st s' : EOFX x -> EL (c :: l) -> t_type c = T_LET -> (nerr s' <= nerr x)%nat ->
    parse_let_statement cfg_default (EF f) (St x c l) = Some (st, s') -> Sgood x c l st s'.
  Proof.
    intros Hx Hl Hc Hn H.
    assert (Hl1 : EL l) by (eapply EL_tail; [eassumption|rewrite Hc; discriminate]).
    unfold parse_let_statement in H. cbv zeta in H. rewrite cur_St in H.
    destruct (expect (St x c l) T_IDENT) as [[|] s1] eqn:Ex1; cbn [negb] in H.
    2:{ injection H as <- <-. mfwd. exfalso. nl. }
    apply expect_true_St in Ex1; [|assumption|discriminate].
    destruct Ex1 as (p & l1 & -> & Hp & -> & Hl2).
    destruct (EL_nonnil _ Hl2) as (t & rest & ->).
    rewrite cur_St, peek_is_St in H.
    destruct (t_type t =? T_ASSIGN) eqn:Et.
    - apply Z.eqb_eq in Et.
      assert (Hl3 : EL rest) by (eapply EL_tail; [eassumption|rewrite Et; discriminate]).
      destruct (EL_nonnil _ Hl3) as (p2 & l2 & ->). rewrite !next_St in H. unfold parse_expression in H.
      dparse1 H. destruct (expect_semicolon_asi cfg_default s) as [[|] s2] eqn:Ex2; cbn [negb] in H;
        injection H as <- <-; mfwd.
      2:{ exfalso. nl. }
      apply IHE in Ea; [|assumption|unfold P_LOWEST; lia|assumption|nl].
      destruct Ea as (c1 & t1 & rest1 & -> & Hl4 & Ma & Wa & Ba & Sa).
      apply asi_expr_sound in Ex2; [|assumption|assumption|nl].
      destruct Ex2 as (c' & t' & rest' & -> & Hl5 & Me).
      exists c', t', rest'. repeat split; auto.
      + cbn [wf_stmtL]. rewrite enil_match, (wf_not_enil _ Wa). exact Wa.
      + intro next. cbn [m_stmtL]. rewrite Hc. ev_goal. cbn [negb].
        rewrite eat_tokL_refl, (m_identL_mk _ _ Hp), enil_match, (wf_not_enil _ Wa), (eatL_ok _ _ _ Et), Ma.
        apply Me.
      + cbn [ends_in_open_if]. discriminate.
    - destruct (expect_semicolon_asi cfg_default (St x p (t :: rest))) as [[|] s2] eqn:Ex2; cbn [negb] in H;
        injection H as <- <-; mfwd.
      2:{ exfalso. nl. }
      apply (asi_sound asi_after_let_name) in Ex2; [|assumption| | | |nl].
      2,3: unfold asi_after_let_name; intros ->; reflexivity.
      2:{ unfold asi_after_let_name. intros -> _. rewrite Et. apply orb_true_r. }
      destruct Ex2 as (c' & t' & rest' & -> & Hl5 & Me).
      exists c', t', rest'. repeat split; auto.
      + intro next. cbn [m_stmtL]. rewrite Hc. ev_goal. cbn [negb].
        rewrite eat_tokL_refl, (m_identL_mk _ _ Hp). apply Me.
      + cbn [ends_in_open_if]. discriminate.
  Qed.

  Lemma ret_sound x c l st s' : EOFX x -> EL (c :: l) -> t_type c = T_RETURN -> (nerr s' <= nerr x)%nat ->
    parse_return_statement cfg_default (EF f) (St x c l) = Some (st, s') -> Sgood x c l st s'.
  Proof.
    intros Hx Hl Hc Hn H.
    assert (Hl1 : EL l) by (eapply EL_tail; [eassumption|rewrite Hc; discriminate]).
    destruct (EL_nonnil _ Hl1) as (p & l1 & ->).
    unfold parse_return_statement in H. cbv zeta in H. rewrite cur_St, !peek_is_St, peek_St in H.
    destruct (negb (t_type p =? T_SEMICOLON) && negb (t_type p =? T_EOF) && negb (t_type p =? T_RBRACE)
              && negb (t_nl p)) eqn:Ecnd.
    - rewrite next_St in H. unfold parse_expression in H.
      dparse1 H. destruct (expect_semicolon_asi cfg_default s) as [[|] s2] eqn:Ex2; cbn [negb] in H;
        injection H as <- <-; mfwd.
      2:{ exfalso. nl. }
      apply IHE in Ea; [|assumption|unfold P_LOWEST; lia|assumption|nl].
      destruct Ea as (c1 & t1 & rest1 & -> & Hl4 & Ma & Wa & Ba & Sa).
      apply asi_expr_sound in Ex2; [|assumption|assumption|nl].
      destruct Ex2 as (c' & t' & rest' & -> & Hl5 & Me).
      assert (Hnl : t_nl p = false) by lia.
      exists c', t', rest'. repeat split; auto.
      + cbn [wf_stmtL]. rewrite enil_match, (wf_not_enil _ Wa). exact Wa.
      + intro next. cbn [m_stmtL]. rewrite Hc. ev_goal. cbn [negb].
        rewrite eat_tokL_refl, enil_match, (wf_not_enil _ Wa), Hnl, Ma. apply Me.
      + cbn [ends_in_open_if]. discriminate.
    - cbv beta iota in H.
      destruct (expect_semicolon_asi cfg_default (St x c (p :: l1))) as [[|] s2] eqn:Ex2; cbn [negb] in H;
        injection H as <- <-; mfwd.
      2:{ exfalso. nl. }
      apply (asi_sound asi_after_return) in Ex2; [|assumption| | | |nl].
      2,3: unfold asi_after_return; intros ->; reflexivity.
      2:{ unfold asi_after_return. intros -> _. apply orb_true_r. }
      destruct Ex2 as (c' & t' & rest' & -> & Hl5 & Me).
      exists c', t', rest'. repeat split; auto.
      + intro next. cbn [m_stmtL]. rewrite Hc. ev_goal. cbn [negb]. rewrite eat_tokL_refl. apply Me.
      + cbn [ends_in_open_if]. discriminate.
  Qed.

  Lemma exprstmt_sound x c l st s' : EOFX x -> EL (c :: l) -> statement_keyword (t_type c) = false ->
    (nerr s' <= nerr x)%nat ->
    parse_expression_statement cfg_default (EF f) (St x c l) = Some (st, s') -> Sgood x c l st s'.
  Proof.
    intros Hx Hl Hc Hn H.
    unfold parse_expression_statement, parse_expression in H.
    dparse1 H. destruct (expect_semicolon_asi cfg_default s) as [[|] s2] eqn:Ex2; cbn [negb] in H;
      injection H as <- <-; mfwd.
    2:{ exfalso. nl. }
    apply IHE in Ea; [|assumption|unfold P_LOWEST; lia|assumption|nl].
    destruct Ea as (c1 & t1 & rest1 & -> & Hl4 & Ma & Wa & Ba & Sa).
    apply asi_expr_sound in Ex2; [|assumption|assumption|nl].
    destruct Ex2 as (c' & t' & rest' & -> & Hl5 & Me).
    exists c', t', rest'. repeat split; auto.
    - intro next. cbn [m_stmtL]. rewrite Hc, Ma. apply Me.
    - cbn [ends_in_open_if]. discriminate.
  Qed.

  Lemma pfs_sound x c l st s' : EOFX x -> EL (c :: l) -> t_type c = T_FUNCTION -> (nerr s' <= nerr x)%nat ->
    parse_function_statement cfg_default (SF f) f (St x c l) = Some (st, s') -> Sgood x c l st s'.
  Proof.
    intros Hx Hl Hc Hn H.
    assert (Hl1 : EL l) by (eapply EL_tail; [eassumption|rewrite Hc; discriminate]).
    unfold parse_function_statement in H. cbv zeta in H. rewrite cur_St in H.
    destruct (expect (St x c l) T_IDENT) as [[|] s1] eqn:Ex1; cbn [negb] in H.
    2:{ injection H as <- <-. mfwd. exfalso. nl. }
    apply expect_true_St in Ex1; [|assumption|discriminate].
    destruct Ex1 as (p & l1 & -> & Hp & -> & Hl2). rewrite cur_St in H.
    destruct (expect (St x p l1) T_LPAREN) as [[|] s1] eqn:Ex2; cbn [negb] in H.
    2:{ injection H as <- <-. mfwd. exfalso. nl. }
    apply expect_true_St in Ex2; [|assumption|discriminate].
    destruct Ex2 as (lp & l2 & -> & Hlp & -> & Hl3).
    dparse1 H. destruct (expect s T_LBRACE) as [[|] s2] eqn:Ex3; cbn [negb] in H.
    2:{ injection H as <- <-. mfwd. exfalso. nl. }
    dparse1 H. injection H as <- <-. mfwd.
    apply pfp_sound in Ea; [|assumption|assumption|nl].
    destruct Ea as (rp & rest1 & -> & Hrp & Hl4 & Mp).
    apply expect_true_St in Ex3; [|assumption|discriminate].
    destruct Ex3 as (lb & l5 & -> & Hlb & -> & Hl5).
    rewrite push_St in Ea0.
    apply block_sound in Ea0; [|apply EOFX_push; assumption| |assumption|nl].
    2:{ destruct l5; [|exact Hl4]. exfalso. destruct (EL_nonnil _ Hl5) as (? & ? & ?). discriminate. }
    destruct Ea0 as [(c' & t & rest & -> & Hl6 & Wb & Mb & _) (lb' & ss & rb & ->)].
    rewrite pop_push_St. exists c', t, rest. repeat split; auto.
    - intro next. remember (SBlock lb' ss rb) as body eqn:Hb. cbn [m_stmtL]. rewrite Hc. ev_goal. cbn [negb].
      rewrite eat_tokL_refl, (m_identL_mk _ _ Hp), (eatL_ok _ _ _ Hlp), Mp, (eatL_ok _ _ _ Hrp).
      rewrite Mb. rewrite Hb. reflexivity.
    - cbn [ends_in_open_if]. discriminate.
  Qed.

  Lemma while_sound x c l st s' : EOFX x -> EL (c :: l) -> t_type c = T_WHILE -> (nerr s' <= nerr x)%nat ->
    parse_while_statement (SF f) (EF f) (St x c l) = Some (st, s') -> Sgood x c l st s'.
  Proof.
    intros Hx Hl Hc Hn H.
    assert (Hl1 : EL l) by (eapply EL_tail; [eassumption|rewrite Hc; discriminate]).
    unfold parse_while_statement, parse_expression in H. cbv zeta in H. rewrite cur_St in H.
    destruct (expect (St x c l) T_LPAREN) as [[|] s1] eqn:Ex1; cbn [negb] in H.
    2:{ injection H as <- <-. mfwd. exfalso. nl. }
    apply expect_true_St in Ex1; [|assumption|discriminate].
    destruct Ex1 as (lp & l1 & -> & Hlp & -> & Hl2).
    destruct (EL_nonnil _ Hl2) as (p & l2 & ->). rewrite next_St in H.
    dparse1 H. destruct (expect s T_RPAREN) as [[|] s2] eqn:Ex2; cbn [negb] in H.
    2:{ injection H as <- <-. mfwd. exfalso. nl. }
    dparse1 H. injection H as <- <-. mfwd.
    apply IHE in Ea; [|assumption|unfold P_LOWEST; lia|assumption|nl].
    destruct Ea as (c1 & t1 & rest1 & -> & Hl3 & Ma & Wa & Ba & Sa).
    apply expect_true_St in Ex2; [|assumption|discriminate].
    destruct Ex2 as (rp & l3 & Erp & Hrp & -> & Hl4). injection Erp as <- <-.
    destruct (EL_nonnil _ Hl4) as (p2 & l4 & ->). rewrite next_St in Ea0.
    apply IHS in Ea0; [|assumption|assumption|nl].
    destruct Ea0 as (c' & t & rest & -> & Hl5 & Wb & Mb & Ob).
    exists c', t, rest. repeat split; auto.
    - cbn [wf_stmtL]. rewrite Wa, Wb, (okL_of_wf _ Wb). reflexivity.
    - intro next. cbn [m_stmtL]. rewrite Hc. ev_goal. cbn [negb].
      rewrite eat_tokL_refl, (eatL_ok _ _ _ Hlp), Ma, (eatL_ok _ _ _ Hrp). apply Mb.
  Qed.

  Lemma if_sound x c l st s' : EOFX x -> EL (c :: l) -> t_type c = T_IF -> (nerr s' <= nerr x)%nat ->
    parse_if_statement (SF f) (EF f) (St x c l) = Some (st, s') -> Sgood x c l st s'.
  Proof.
    intros Hx Hl Hc Hn H.
    assert (Hl1 : EL l) by (eapply EL_tail; [eassumption|rewrite Hc; discriminate]).
    unfold parse_if_statement, parse_expression in H. cbv zeta in H. rewrite cur_St in H.
    destruct (expect (St x c l) T_LPAREN) as [[|] s1] eqn:Ex1; cbn [negb] in H.
    2:{ injection H as <- <-. mfwd. exfalso. nl. }
    apply expect_true_St in Ex1; [|assumption|discriminate].
    destruct Ex1 as (lp & l1 & -> & Hlp & -> & Hl2).
    destruct (EL_nonnil _ Hl2) as (p & l2 & ->). rewrite next_St in H.
    dparse1 H. destruct (expect s T_RPAREN) as [[|] s2] eqn:Ex2; cbn [negb] in H.
    2:{ injection H as <- <-. mfwd. exfalso. nl. }
    dparse1 H. destruct (peek_is s0 T_ELSE) eqn:Eel.
    - dparse1 H. injection H as <- <-. mfwd.
      apply IHE in Ea; [|assumption|unfold P_LOWEST; lia|assumption|nl].
      destruct Ea as (c1 & t1 & rest1 & -> & Hl3 & Ma & Wa & Ba & Sa).
      apply expect_true_St in Ex2; [|assumption|discriminate].
      destruct Ex2 as (rp & l3 & Erp & Hrp & -> & Hl4). injection Erp as <- <-.
      destruct (EL_nonnil _ Hl4) as (p2 & l4 & ->). rewrite next_St in Ea0.
      apply IHS in Ea0; [|assumption|assumption|nl].
      destruct Ea0 as (c2 & t2 & rest2 & -> & Hl5 & Wt & Mt & Ot).
      rewrite peek_is_St in Eel. apply Z.eqb_eq in Eel.
      assert (Hl6 : EL rest2) by (eapply EL_tail; [eassumption|rewrite Eel; discriminate]).
      destruct (EL_nonnil _ Hl6) as (p3 & l5 & ->). rewrite !next_St in Ea1.
      apply IHS in Ea1; [|assumption|assumption|nl].
      destruct Ea1 as (c' & t & rest & -> & Hl7 & We & Me & Oe).
      exists c', t, rest. repeat split; auto.
      + cbn [wf_stmtL]. rewrite Wa, Wt, We, (okL_of_wf _ Wt), (okL_of_wf _ We), snil_match, (wf_not_snil _ We).
        destruct (ends_in_open_if a0); [exfalso; apply (Ot eq_refl); exact Eel|reflexivity].
      + intro next. cbn [m_stmtL]. rewrite Hc. ev_goal. cbn [negb].
        rewrite eat_tokL_refl, (eatL_ok _ _ _ Hlp), Ma, (eatL_ok _ _ _ Hrp), Mt, snil_match, (wf_not_snil _ We).
        rewrite (eatL_ok _ _ _ Eel). apply Me.
      + rewrite open_if_else by (apply wf_not_snil; assumption). exact Oe.
    - injection H as <- <-. mfwd.
      apply IHE in Ea; [|assumption|unfold P_LOWEST; lia|assumption|nl].
      destruct Ea as (c1 & t1 & rest1 & -> & Hl3 & Ma & Wa & Ba & Sa).
      apply expect_true_St in Ex2; [|assumption|discriminate].
      destruct Ex2 as (rp & l3 & Erp & Hrp & -> & Hl4). injection Erp as <- <-.
      destruct (EL_nonnil _ Hl4) as (p2 & l4 & ->). rewrite next_St in Ea0.
      apply IHS in Ea0; [|assumption|assumption|nl].
      destruct Ea0 as (c2 & t2 & rest2 & -> & Hl5 & Wt & Mt & Ot).
      rewrite peek_is_St in Eel. apply Z.eqb_neq in Eel.
      exists c2, t2, rest2. repeat split; auto.
      + cbn [wf_stmtL]. rewrite Wa, Wt, (okL_of_wf _ Wt). reflexivity.
      + intro next. cbn [m_stmtL]. rewrite Hc. ev_goal. cbn [negb].
        rewrite eat_tokL_refl, (eatL_ok _ _ _ Hlp), Ma, (eatL_ok _ _ _ Hrp), Mt. reflexivity.
  Qed.

  (* ---------- the for statement ---------- *)

  Definition opt_e (ety : Z) (s : pstate) : res expr :=
    if negb (peek_is s ety) then parse_expression (EF f) (ps_next s) else Some (ENil, s).

  Definition init_e (s : pstate) : res expr :=
    if negb (peek_is s T_SEMICOLON) then
      let sn := ps_next s in
      if cur_is sn T_LET then parse_let_expression (EF f) sn else parse_expression (EF f) sn
    else Some (ENil, s).

  Lemma mono_opt_e ety : mono (opt_e ety).
  Proof.
    intros s r s' H. unfold opt_e in H. destruct (negb (peek_is s ety)).
    - apply mono_pe in H. revert H. nfix. exact (fun H => H).
    - injection H as <- <-. lia.
  Qed.

  Lemma mono_init_e : mono init_e.
  Proof.
    intros s r s' H. unfold init_e in H. destruct (negb (peek_is s T_SEMICOLON)).
    - cbv zeta in H. destruct (cur_is (ps_next s) T_LET).
      + apply mono_ple in H. revert H. nfix. exact (fun H => H).
      + apply mono_pe in H. revert H. nfix. exact (fun H => H).
    - injection H as <- <-. lia.
  Qed.
  Hint Resolve mono_opt_e mono_init_e : mdb.

  Lemma pfor_eq s : parse_for_statement (SF f) (EF f) s =
    (let tok := ps_cur s in
     let '(ok, s1) := expect s T_LPAREN in
     if negb ok then Some (SNil, s1) else
     do (init, s2) <- init_e s1;
     let '(ok2, s3) := expect s2 T_SEMICOLON in
     if negb ok2 then Some (SNil, s3) else
     do (cond, s4) <- opt_e T_SEMICOLON s3;
     let '(ok3, s5) := expect s4 T_SEMICOLON in
     if negb ok3 then Some (SNil, s5) else
     do (upd, s6) <- opt_e T_RPAREN s5;
     let '(ok4, s7) := expect s6 T_RPAREN in
     if negb ok4 then Some (SNil, s7) else
     do (body, s8) <- SF f (ps_next s7);
     Some (SFor tok init cond upd body, s8)).
  Proof. reflexivity. Qed.

  Lemma opt_sound ety x c t rest e s1 : EOFX x -> EL (t :: rest) -> (nerr s1 <= nerr x)%nat ->
    opt_e ety (St x c (t :: rest)) = Some (e, s1) ->
    exists c' t' rest', s1 = St x c' (t' :: rest') /\ EL (t' :: rest') /\
      (if is_enil e then Some (t :: rest) else m_exprL e (t :: rest)) = Some (t' :: rest') /\
      (if is_enil e then true else wf_exprL e) = true.
  Proof.
    intros Hx Hl Hn H. unfold opt_e in H. rewrite peek_is_St in H.
    destruct (t_type t =? ety); cbn [negb] in H.
    - injection H as <- <-. exists c, t, rest. auto.
    - rewrite next_St in H. unfold parse_expression in H.
      apply IHE in H; [|assumption|unfold P_LOWEST; lia|assumption|nl].
      destruct H as (c1 & t1 & rest1 & -> & Hl3 & Ma & Wa & Ba & Sa).
      exists c1, t1, rest1. rewrite (wf_not_enil _ Wa). auto.
  Qed.

  Lemma init_sound x c t rest e s1 : EOFX x -> EL (t :: rest) -> (nerr s1 <= nerr x)%nat ->
    init_e (St x c (t :: rest)) = Some (e, s1) ->
    exists c' t' rest', s1 = St x c' (t' :: rest') /\ EL (t' :: rest') /\
      (if is_enil e then Some (t :: rest) else m_exprL e (t :: rest)) = Some (t' :: rest') /\
      init_wfL e = true.
  Proof.
    intros Hx Hl Hn H. unfold init_e in H. rewrite peek_is_St in H.
    destruct (t_type t =? T_SEMICOLON); cbn [negb] in H.
    { injection H as <- <-. exists c, t, rest. auto. }
    cbv zeta in H. rewrite next_St, cur_is_St in H.
    destruct (t_type t =? T_LET) eqn:Et.
    - apply Z.eqb_eq in Et.
      assert (Hl1 : EL rest) by (eapply EL_tail; [eassumption|rewrite Et; discriminate]).
      unfold parse_let_expression in H. rewrite cur_St in H.
      destruct (expect (St x t rest) T_IDENT) as [[|] s2] eqn:Ex1; cbn [negb] in H.
      2:{ injection H as <- <-. mfwd. exfalso. nl. }
      apply expect_true_St in Ex1; [|assumption|discriminate].
      destruct Ex1 as (p & l1 & -> & Hp & -> & Hl2).
      destruct (EL_nonnil _ Hl2) as (t2 & rest2 & ->).
      rewrite cur_St, peek_is_St in H.
      destruct (t_type t2 =? T_ASSIGN) eqn:Et2.
      + apply Z.eqb_eq in Et2.
        assert (Hl3 : EL rest2) by (eapply EL_tail; [eassumption|rewrite Et2; discriminate]).
        destruct (EL_nonnil _ Hl3) as (p2 & l2 & ->). rewrite !next_St in H. unfold parse_expression in H.
        dparse1 H. injection H as <- <-. mfwd.
        apply IHE in Ea; [|assumption|unfold P_LOWEST; lia|assumption|nl].
        destruct Ea as (c1 & t1 & rest1 & -> & Hl4 & Ma & Wa & Ba & Sa).
        exists c1, t1, rest1. repeat split; auto.
        * cbn [is_enil m_exprL]. rewrite Et. ev_goal. cbn [negb].
          rewrite eat_tokL_refl, (m_identL_mk _ _ Hp), enil_match, (wf_not_enil _ Wa), (eatL_ok _ _ _ Et2). exact Ma.
        * cbn [init_wfL]. rewrite enil_match, (wf_not_enil _ Wa). exact Wa.
      + cbv beta iota in H. injection H as <- <-.
        exists p, t2, rest2. repeat split; auto.
        cbn [is_enil m_exprL]. rewrite Et. ev_goal. cbn [negb].
        rewrite eat_tokL_refl, (m_identL_mk _ _ Hp). reflexivity.
    - unfold parse_expression in H.
      apply IHE in H; [|assumption|unfold P_LOWEST; lia|assumption|nl].
      destruct H as (c1 & t1 & rest1 & -> & Hl3 & Ma & Wa & Ba & Sa).
      exists c1, t1, rest1. rewrite (wf_not_enil _ Wa). repeat split; auto.
      apply init_wfL_of_wf. assumption.
  Qed.

  Lemma for_sound x c l st s' : EOFX x -> EL (c :: l) -> t_type c = T_FOR -> (nerr s' <= nerr x)%nat ->
    parse_for_statement (SF f) (EF f) (St x c l) = Some (st, s') -> Sgood x c l st s'.
  Proof.
    intros Hx Hl Hc Hn H.
    assert (Hl1 : EL l) by (eapply EL_tail; [eassumption|rewrite Hc; discriminate]).
    rewrite pfor_eq in H. cbv zeta in H. rewrite cur_St in H.
    destruct (expect (St x c l) T_LPAREN) as [[|] s1] eqn:Ex1; cbn [negb] in H.
    2:{ injection H as <- <-. mfwd. exfalso. nl. }
    dparse1 H. destruct (expect s T_SEMICOLON) as [[|] s2] eqn:Ex2; cbn [negb] in H.
    2:{ injection H as <- <-. mfwd. exfalso. nl. }
    dparse1 H. destruct (expect s0 T_SEMICOLON) as [[|] s3] eqn:Ex3; cbn [negb] in H.
    2:{ injection H as <- <-. mfwd. exfalso. nl. }
    dparse1 H. destruct (expect s4 T_RPAREN) as [[|] s5] eqn:Ex4; cbn [negb] in H.
    2:{ injection H as <- <-. mfwd. exfalso. nl. }
    dparse1 H. injection H as <- <-. mfwd.
    apply expect_true_St in Ex1; [|assumption|discriminate].
    destruct Ex1 as (lp & l1 & -> & Hlp & -> & Hl2).
    destruct (EL_nonnil _ Hl2) as (t0 & rest0 & ->).
    apply init_sound in Ea; [|assumption|assumption|nl].
    destruct Ea as (c1 & t1 & rest1 & -> & Hl3 & Mi & Wi).
    apply expect_true_St in Ex2; [|assumption|discriminate].
    destruct Ex2 as (sm1 & l3 & Esm1 & Hsm1 & -> & Hl4). injection Esm1 as <- <-.
    destruct (EL_nonnil _ Hl4) as (t2 & rest2 & ->).
    apply opt_sound in Ea0; [|assumption|assumption|nl].
    destruct Ea0 as (c2 & t3 & rest3 & -> & Hl5 & Mc & Wc).
    apply expect_true_St in Ex3; [|assumption|discriminate].
    destruct Ex3 as (sm2 & l5 & Esm2 & Hsm2 & -> & Hl6). injection Esm2 as <- <-.
    destruct (EL_nonnil _ Hl6) as (t4 & rest4 & ->).
    apply opt_sound in Ea1; [|assumption|assumption|nl].
    destruct Ea1 as (c3 & t5 & rest5 & -> & Hl7 & Mu & Wu).
    apply expect_true_St in Ex4; [|assumption|discriminate].
    destruct Ex4 as (rp & l7 & Erp & Hrp & -> & Hl8). injection Erp as <- <-.
    destruct (EL_nonnil _ Hl8) as (p & l8 & ->). rewrite next_St in Ea2.
    apply IHS in Ea2; [|assumption|assumption|nl].
    destruct Ea2 as (c' & t & rest & -> & Hl9 & Wb & Mb & Ob).
    exists c', t, rest. repeat split; auto.
    - cbn [wf_stmtL]. change (match a with ENil => true | ELet _ _ v => match v with ENil => true | _ => wf_exprL v end | _ => wf_exprL a end) with (init_wfL a).
      rewrite !enil_match, Wi, Wc, Wu, Wb, (okL_of_wf _ Wb). reflexivity.
    - intro next. cbn [m_stmtL]. rewrite Hc. ev_goal. cbn [negb].
      rewrite eat_tokL_refl, (eatL_ok _ _ _ Hlp), enil_match, Mi, (eatL_ok _ _ _ Hsm1), enil_match, Mc.
      rewrite (eatL_ok _ _ _ Hsm2), enil_match, Mu, (eatL_ok _ _ _ Hrp). apply Mb.
  Qed.

  (* ---------- the statement dispatch ---------- *)

  Lemma SF_step : Sinv (S f).
  Proof.
    intros x c l st s' Hx Hl Hn H. rewrite SF_S in H. unfold base_parse_statement in H. cbv zeta in H.
    rewrite cur_St in H.
    destruct (t_type c =? T_LET) eqn:E1; [apply Z.eqb_eq in E1; eapply let_sound; eassumption|].
    destruct (t_type c =? T_FUNCTION) eqn:E2; [apply Z.eqb_eq in E2; eapply pfs_sound; eassumption|].
    destruct (t_type c =? T_RETURN) eqn:E3; [apply Z.eqb_eq in E3; eapply ret_sound; eassumption|].
    destruct (t_type c =? T_IF) eqn:E4; [apply Z.eqb_eq in E4; eapply if_sound; eassumption|].
    destruct (t_type c =? T_WHILE) eqn:E5; [apply Z.eqb_eq in E5; eapply while_sound; eassumption|].
    destruct (t_type c =? T_FOR) eqn:E6; [apply Z.eqb_eq in E6; eapply for_sound; eassumption|].
    destruct (t_type c =? T_LBRACE) eqn:E7.
    - apply Z.eqb_eq in E7. eapply block_sound in H; try eassumption. apply H.
    - eapply exprstmt_sound; try eassumption.
      unfold statement_keyword. rewrite E1, E2, E3, E4, E5, E6, E7. reflexivity.
  Qed.
End Step.

Lemma knot_sound : forall f, Einv f /\ Sinv f.
Proof.
  induction f as [|f [IHE IHS]].
  - split; [intros prec x c l e s' _ _ _ _ H|intros x c l st s' _ _ _ H]; discriminate H.
  - split; [apply EF_step|apply SF_step]; assumption.
Qed.

(* the two invariants as standalone statements *)
Lemma expr_sound f prec x c l e s' : EOFX x -> 1 <= prec <= 12 -> EL (c :: l) ->
  (nerr s' <= nerr x)%nat -> expr_fn cfg_default f prec (St x c l) = Some (e, s') ->
  Egood prec x c l e s'.
Proof. apply (proj1 (knot_sound f)). Qed.

Lemma stmt_sound f x c l st s' : EOFX x -> EL (c :: l) ->
  (nerr s' <= nerr x)%nat -> stmt_fn cfg_default f (St x c l) = Some (st, s') ->
  Sgood x c l st s'.
Proof. apply (proj2 (knot_sound f)). Qed.

(* ---------- the relaxed matchers return a suffix of their input ---------- *)

Lemma eat_tokL_suf t ts r : GrammarLax.eat_tok t ts = Some r -> suf r ts.
Proof. exact (eat_tok_suf t ts r). Qed.
Lemma eatL_suf ty ts t r : GrammarLax.eat ty ts = Some (t, r) -> suf r ts.
Proof. exact (eat_suf ty ts t r). Qed.
Lemma m_identL_suf i ts r : m_identL i ts = Some r -> suf r ts.
Proof. exact (m_ident_suf i ts r). Qed.
Lemma m_endL_suf asi next ts r : GrammarLax.m_end asi next ts = Some r -> suf r ts.
Proof. exact (m_end_suf asi next ts r). Qed.

Lemma m_paramsL_suf ps : forall ts r, m_paramsL ps ts = Some r -> suf r ts.
Proof.
  induction ps as [|p ps IH]; intros ts r H.
  - injection H as H. subst. apply suf_refl.
  - rewrite m_paramsL_cons in H. destruct (m_identL p ts) as [r1|] eqn:E; [|discriminate].
    apply m_identL_suf in E.
    destruct ps as [|q ps]; cbn [m_ptailL] in H.
    + injection H as H. subst. assumption.
    + destruct (GrammarLax.eat T_COMMA r1) as [[? r2]|] eqn:E0; [|discriminate].
      apply eatL_suf in E0. apply IH in H.
      eapply suf_trans; [eassumption|]. eapply suf_trans; eassumption.
Qed.

Section SufL.
  Variable n : nat.
  Hypothesis IHe : forall e, (esize e <= n)%nat -> forall ts r, m_exprL e ts = Some r -> suf r ts.
  Hypothesis IHs : forall s, (ssize s <= n)%nat -> forall next ts r, m_stmtL s next ts = Some r -> suf r ts.

  Lemma m_exprsL_suf es : (fold_right (fun a n => esize a + n) 0 es <= n)%nat ->
    forall ts r, m_exprsL m_exprL es ts = Some r -> suf r ts.
  Proof.
    induction es as [|e es IH]; intros Hn ts r H.
    - injection H as H. subst. apply suf_refl.
    - cbn [fold_right] in Hn. rewrite m_exprsL_cons in H.
      destruct (m_exprL e ts) as [r1|] eqn:E; [|discriminate]. apply IHe in E; [|lia].
      destruct es as [|q es]; cbn [m_tailL] in H.
      + injection H as H. subst. assumption.
      + destruct (GrammarLax.eat T_COMMA r1) as [[? r2]|] eqn:E0; [|discriminate].
        apply eatL_suf in E0. apply IH in H; [|lia]. suf_solve.
  Qed.

  Lemma m_propsL_suf ps : (fold_right (fun kv n => esize (fst kv) + esize (snd kv) + n) 0 ps <= n)%nat ->
    forall ts r, m_propsL m_exprL ps ts = Some r -> suf r ts.
  Proof.
    induction ps as [|[k v] ps IH]; intros Hn ts r H.
    - injection H as H. subst. apply suf_refl.
    - cbn [fold_right fst snd] in Hn. cbn [m_propsL] in H.
      destruct (negb (key_okL k)); [discriminate|].
      destruct (m_exprL k ts) as [r1|] eqn:E1; [|discriminate]. apply IHe in E1; [|lia].
      destruct (GrammarLax.eat T_COLON r1) as [[? r2]|] eqn:E2; [|discriminate]. apply eatL_suf in E2.
      destruct (m_exprL v r2) as [r3|] eqn:E3; [|discriminate]. apply IHe in E3; [|lia].
      destruct ps as [|kv ps].
      + injection H as H. subst. suf_solve.
      + destruct (GrammarLax.eat T_COMMA r3) as [[? r4]|] eqn:E4; [|discriminate]. apply eatL_suf in E4.
        apply IH in H; [|lia]. suf_solve.
  Qed.

  Lemma m_stmtsL_suf ss : (fold_right (fun a n => ssize a + n) 0 ss <= n)%nat ->
    forall next ts r, m_stmtsL m_stmtL ss next ts = Some r -> suf r ts.
  Proof.
    induction ss as [|s ss IH]; intros Hn next ts r H.
    - injection H as H. subst. apply suf_refl.
    - cbn [fold_right] in Hn. cbn [m_stmtsL] in H.
      destruct (m_stmtL s next ts) as [r1|] eqn:E1; [|discriminate]. apply IHs in E1; [|lia].
      apply IH in H; [|lia]. suf_solve.
  Qed.
End SufL.

Ltac suf_hypsL IHe IHs :=
  repeat match goal with
  | H : GrammarLax.eat_tok _ _ = Some _ |- _ => apply eat_tokL_suf in H
  | H : GrammarLax.eat _ _ = Some (_, _) |- _ => apply eatL_suf in H
  | H : GrammarLax.eat _ _ = Some ?p |- _ => destruct p
  | H : m_identL _ _ = Some _ |- _ => apply m_identL_suf in H
  | H : GrammarLax.m_end _ _ _ = Some _ |- _ => apply m_endL_suf in H
  | H : m_paramsL _ _ = Some _ |- _ => apply m_paramsL_suf in H
  | H : match ?nm with Some _ => _ | None => _ end = Some _ |- _ => destruct nm
  | H : m_exprL _ _ = Some _ |- _ => apply IHe in H; [|cbn [esize ssize] in *; lia]
  | H : m_stmtL _ _ _ = Some _ |- _ => apply IHs in H; [|cbn [esize ssize] in *; lia]
  | H : m_exprsL m_exprL _ _ = Some _ |- _ => eapply m_exprsL_suf in H; [|exact IHe|cbn [esize ssize] in *; lia]
  | H : m_propsL m_exprL _ _ = Some _ |- _ => eapply m_propsL_suf in H; [|exact IHe|cbn [esize ssize] in *; lia]
  | H : m_stmtsL m_stmtL _ _ _ = Some _ |- _ => eapply m_stmtsL_suf in H; [|exact IHs|cbn [esize ssize] in *; lia]
  | H : Some _ = Some _ |- _ => injection H as H; subst
  end.

Lemma all_sufL : forall n,
  (forall e, (esize e <= n)%nat -> forall ts r, m_exprL e ts = Some r -> suf r ts) /\
  (forall s, (ssize s <= n)%nat -> forall next ts r, m_stmtL s next ts = Some r -> suf r ts).
Proof.
  induction n as [|n [IHe IHs]].
  - split; [intros e H; destruct e; cbn [esize] in H; lia | intros s H; destruct s; cbn [ssize] in H; lia].
  - split.
    + intros e0 Hn ts r H. destruct e0; cbn [m_exprL] in H; try discriminate.
      all: minv H.
      all: try (match type of H with context [match ?v with ENil => _ | _ => _ end] => destruct v end;
                try discriminate; minv H).
      all: try (match goal with H : context [match ?v with SBlock _ _ _ => _ | _ => _ end] |- _ => destruct v end;
                try discriminate).
      all: suf_hypsL IHe IHs; suf_solve.
    + intros s0 Hn next ts r H. destruct s0; cbn [m_stmtL] in H; try discriminate.
      all: minv H.
      all: repeat match goal with
           | H : context [match _ with ENil => _ | _ => _ end] |- _ => rewrite enil_match in H
           | H : context [match _ with SNil => _ | _ => _ end] |- _ => rewrite snil_match in H
           | H : match ?l with [] => _ | _ :: _ => _ end = Some _ |- _ => destruct l; [discriminate H|]
           | H : _ = Some _ |- _ => progress (minv H)
           end.
      all: try (match goal with H : context [match ?v with SBlock _ _ _ => _ | _ => _ end] |- _ => destruct v end;
                try discriminate).
      all: suf_hypsL IHe IHs; suf_solve.
Qed.

Lemma m_stmtsL_suf_all ss next ts r : m_stmtsL m_stmtL ss next ts = Some r -> suf r ts.
Proof.
  eapply (m_stmtsL_suf (fold_right (fun a n => ssize a + n)%nat 0%nat ss)).
  - intros s Hs. apply (proj2 (all_sufL _) s Hs).
  - lia.
Qed.

(* ---------- the program loop and the top level ---------- *)

Lemma program_loop_sound fuel : forall n acc x c l ss' s', EOFX x -> EL (c :: l) ->
  (nerr s' <= nerr x)%nat ->
  program_loop cfg_default fuel n acc (St x c l) = Some (ss', s') ->
  exists ss c' l', ss' = acc ++ ss /\ s' = St x c' l' /\ t_type c' = T_EOF /\
    (forall next, m_stmtsL m_stmtL ss next (c :: l) = Some (c' :: l')) /\ wf_stmtsL wf_stmtL ss = true.
Proof.
  destruct (knot_sound fuel) as [_ IHS].
  induction n as [|n IH]; intros acc x c l ss' s' Hx Hl Hn H; [discriminate|].
  cbn [program_loop] in H. rewrite cur_is_St in H.
  destruct (t_type c =? T_EOF) eqn:Ec; cbn [negb] in H.
  - injection H as <- <-. apply Z.eqb_eq in Ec. exists [], c, l. rewrite app_nil_r. repeat split; auto.
  - dparse1 H. mfwd.
    apply IHS in Ea; [|assumption|assumption|nl].
    destruct Ea as (c1 & t1 & rest1 & -> & Hl1 & Wa & Ma & _).
    rewrite (wf_not_snil _ Wa), next_St in H.
    apply IH in H; [|assumption|assumption|nl].
    destruct H as (ss & c' & l' & -> & -> & Hc' & Ms & Ws).
    exists (a :: ss), c', l'. repeat split; auto.
    + rewrite <- app_assoc. reflexivity.
    + intro next. cbn [m_stmtsL]. rewrite Ma. apply Ms.
    + cbn [wf_stmtsL]. rewrite Wa, Ws. reflexivity.
Qed.

(* Soundness of the default parser.  The statement needs the token list to have no
   end-of-input token before its last token (true of every lexer output, see
   [tokenize_shape] below): the parser stops at the FIRST end-of-input token, whereas
   m_programL demands that the tokens after the statements be exactly the last one.
   Counterexample without the hypothesis: two end-of-input tokens [e1; e2] parse without
   error to the empty program with p_eof = e1, and m_programL (mkprogram [] e1) [e1; e2]
   = false. *)
Lemma parse_sound : forall toks r,
  t_type (last toks zero_token) = T_EOF ->
  Forall (fun t => t_type t <> T_EOF) (removelast toks) ->
  parse_tokens cfg_default toks = Some r -> pr_errors r = [] ->
  m_programL (pr_program r) toks = true /\ wf_programL (pr_program r) = true.
Proof.
  intros toks r Hlast Hint Hp Herr.
  destruct toks as [|c l]; [cbn in Hlast; discriminate Hlast|].
  unfold parse_tokens in Hp. rewrite ps_init_St in Hp.
  generalize dependent (parse_fuel (c :: l)). intros fu Hp. unfold parse_program_from in Hp.
  destruct (program_loop cfg_default fu fu [] (St (x_init (eof_again (last (c :: l) zero_token))) c l))
    as [[stmts s1]|] eqn:Epl; [|discriminate].
  injection Hp as <-. cbn [pr_program pr_errors] in *.
  apply program_loop_sound in Epl; [| |exact Hlast|].
  2:{ unfold EOFX, x_init, eof_again. cbn [ps_eof t_type]. exact Hlast. }
  2:{ unfold nerr. rewrite Herr. cbn. lia. }
  destruct Epl as (ss & c' & l' & -> & -> & Hc' & Ms & Ws). cbn [app].
  pose proof (m_stmtsL_suf_all _ _ _ _ (Ms c')) as [pre Hpre].
  assert (Hnil : l' = []).
  { destruct l' as [|q l']; [reflexivity|]. exfalso. rewrite Hpre in Hint.
    rewrite removelast_app in Hint by discriminate. apply Forall_app in Hint as [_ Hint].
    cbn [removelast] in Hint. inversion Hint; contradiction. }
  subst l'. unfold m_programL, wf_programL. cbn [p_stmts p_eof]. rewrite cur_St, Hc', Ms, tok_eqb_refl.
  split; [reflexivity|exact Ws].
Qed.

(* the hypotheses of parse_sound hold of every lexer output *)
Lemma last_map {A B} (g : A -> B) (l : list A) d d' : l <> [] -> last (map g l) d = g (last l d').
Proof.
  induction l as [|a l IH]; intro H; [congruence|]. destruct l as [|b l]; [reflexivity|].
  change (last (map g (b :: l)) d = g (last (b :: l) d')). apply IH. discriminate.
Qed.

Lemma removelast_map {A B} (g : A -> B) (l : list A) : removelast (map g l) = map g (removelast l).
Proof.
  induction l as [|a l IH]; [reflexivity|]. destruct l as [|b l]; [reflexivity|].
  change (g a :: removelast (map g (b :: l)) = g a :: map g (removelast (b :: l))). rewrite IH. reflexivity.
Qed.

Lemma tokenize_shape src toks : tokenize src = Some toks ->
  t_type (last toks zero_token) = T_EOF /\ Forall (fun t => t_type t <> T_EOF) (removelast toks).
Proof.
  intro H. destruct (lex_total src) as (ss & _ & Ht & Hne & Hl & Hf).
  rewrite Ht in H. injection H as <-. split.
  - erewrite last_map by assumption. exact Hl.
  - rewrite removelast_map. apply Forall_map. exact Hf.
Qed.

(* soundness on lexer outputs: no side condition *)
Lemma parse_sound_lexed : forall src toks r,
  tokenize src = Some toks ->
  parse_tokens cfg_default toks = Some r -> pr_errors r = [] ->
  m_programL (pr_program r) toks = true /\ wf_programL (pr_program r) = true.
Proof.
  intros src toks r Ht. destruct (tokenize_shape _ _ Ht) as [H1 H2]. apply parse_sound; assumption.
Qed.

Print Assumptions parse_sound.
Print Assumptions tokenize_shape.
Print Assumptions parse_sound_lexed.
